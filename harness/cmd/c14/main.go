package main

import (
	"polyverif/internal/c14"
	"polyverif/internal/run"
)

func main() { run.Main(c14.Spec()) }
