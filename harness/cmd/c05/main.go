package main

import (
	"polyverif/internal/c05"
	"polyverif/internal/run"
)

func main() { run.Main(c05.Spec()) }
