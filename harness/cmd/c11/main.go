package main

import (
	"polyverif/internal/c11"
	"polyverif/internal/run"
)

func main() { run.Main(c11.Spec()) }
