package main

import (
	"polyverif/internal/c20"
	"polyverif/internal/run"
)

func main() { run.Main(c20.Spec()) }
