package main

import (
	"polyverif/internal/c01"
	"polyverif/internal/run"
)

func main() { run.Main(c01.Spec()) }
