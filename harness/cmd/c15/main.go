package main

import (
	"polyverif/internal/c15"
	"polyverif/internal/run"
)

func main() { run.Main(c15.Spec()) }
