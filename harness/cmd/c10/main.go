package main

import (
	"polyverif/internal/c10"
	"polyverif/internal/run"
)

func main() { run.Main(c10.Spec()) }
