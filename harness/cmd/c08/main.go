package main

import (
	"polyverif/internal/c08"
	"polyverif/internal/run"
)

func main() { run.Main(c08.Spec()) }
