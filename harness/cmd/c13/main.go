package main

import (
	"polyverif/internal/c13"
	"polyverif/internal/run"
)

func main() { run.Main(c13.Spec()) }
