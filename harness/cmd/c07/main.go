package main

import (
	"polyverif/internal/c07"
	"polyverif/internal/run"
)

func main() { run.Main(c07.Spec()) }
