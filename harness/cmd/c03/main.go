package main

import (
	"polyverif/internal/c03"
	"polyverif/internal/run"
)

func main() { run.Main(c03.Spec()) }
