package main

import (
	"polyverif/internal/c17"
	"polyverif/internal/run"
)

func main() { run.Main(c17.Spec()) }
