package main

import (
	"polyverif/internal/c12"
	"polyverif/internal/run"
)

func main() { run.Main(c12.Spec()) }
