package main

import (
	"polyverif/internal/c02"
	"polyverif/internal/run"
)

func main() { run.Main(c02.Spec()) }
