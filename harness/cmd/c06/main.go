package main

import (
	"polyverif/internal/c06"
	"polyverif/internal/run"
)

func main() { run.Main(c06.Spec()) }
