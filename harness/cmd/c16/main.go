package main

import (
	"polyverif/internal/c16"
	"polyverif/internal/run"
)

func main() { run.Main(c16.Spec()) }
