package main

import (
	"polyverif/internal/c18"
	"polyverif/internal/run"
)

func main() { run.Main(c18.Spec()) }
