package main

import (
	"polyverif/internal/c09"
	"polyverif/internal/run"
)

func main() { run.Main(c09.Spec()) }
