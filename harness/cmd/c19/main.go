package main

import (
	"polyverif/internal/c19"
	"polyverif/internal/run"
)

func main() { run.Main(c19.Spec()) }
