package main

import (
	"polyverif/internal/c04"
	"polyverif/internal/run"
)

func main() { run.Main(c04.Spec()) }
