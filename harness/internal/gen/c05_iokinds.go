package gen

// Reader and writer KINDS for the format monitors (C05, C07): the same bytes are
// handed to a decoder through readers with different delivery behaviour, and an
// encoder writes into sinks with different acceptance behaviour. All of them obey
// the io.Reader / io.Writer contracts (no retained slices, no short write without
// error), so a correct codec must behave identically on every kind.

import (
	"bufio"
	"bytes"
	"fmt"
	"io"
	"math/rand"
	"os"
	"path/filepath"
	"runtime"
	"sync"
	"testing/iotest"
	"time"
)

// IOSource is a reader of a chosen kind over fixed data.
type IOSource struct {
	R    io.Reader
	Kind string
	done func()
}

// Close releases files / goroutines of the source (always call it).
func (s *IOSource) Close() {
	if s.done != nil {
		s.done()
		s.done = nil
	}
}

type plainReader struct{ io.Reader } // hides Seek, ReadAt, WriteTo, Len … of the wrapped reader

type chunkedReader struct {
	b     []byte
	chunk int
}

func (c *chunkedReader) Read(p []byte) (int, error) {
	if len(c.b) == 0 {
		return 0, io.EOF
	}
	n := len(p)
	if n > c.chunk {
		n = c.chunk
	}
	if n > len(c.b) {
		n = len(c.b)
	}
	copy(p, c.b[:n])
	c.b = c.b[n:]
	return n, nil
}

// ReaderKinds lists every kind NewIOSource can return.
var ReaderKinds = []string{"bytes.Reader", "struct{io.Reader}", "iotest.OneByteReader", "iotest.HalfReader", "iotest.DataErrReader",
	"io.LimitReader", "chunked", "bufio.Reader", "os.File", "io.Pipe"}

var ioSeq int
var ioSeqMu sync.Mutex

func tempName(dir, what string) string {
	ioSeqMu.Lock()
	ioSeq++
	n := ioSeq
	ioSeqMu.Unlock()
	return filepath.Join(dir, fmt.Sprintf("io-%d-%d-%s", os.Getpid(), n, what))
}

// NewIOSource draws a reader kind. dir is a scratch directory for the os.File kind;
// big: avoid the kinds that cost one call per byte.
func NewIOSource(r *rand.Rand, data []byte, dir string, big bool) *IOSource {
	p := r.Intn(40)
	switch {
	case p < 8:
		return &IOSource{R: bytes.NewReader(data), Kind: "bytes.Reader"}
	case p < 13:
		return &IOSource{R: plainReader{bytes.NewReader(data)}, Kind: "struct{io.Reader}"}
	case p < 17 && !big:
		return &IOSource{R: iotest.OneByteReader(bytes.NewReader(data)), Kind: "iotest.OneByteReader"}
	case p < 21:
		return &IOSource{R: iotest.HalfReader(plainReader{bytes.NewReader(data)}), Kind: "iotest.HalfReader"}
	case p < 25:
		return &IOSource{R: iotest.DataErrReader(plainReader{bytes.NewReader(data)}), Kind: "iotest.DataErrReader"}
	case p < 28:
		return &IOSource{R: io.LimitReader(plainReader{bytes.NewReader(append(append([]byte(nil), data...), "trailing garbage beyond the limit"...))}, int64(len(data))), Kind: "io.LimitReader"}
	case p < 33:
		c := 1 + r.Intn(7)
		if big || r.Intn(2) == 0 {
			c = 37 + r.Intn(400)
		}
		return &IOSource{R: &chunkedReader{b: data, chunk: c}, Kind: "chunked"}
	case p < 35:
		return &IOSource{R: bufio.NewReaderSize(plainReader{bytes.NewReader(data)}, 16+r.Intn(200)), Kind: "bufio.Reader"}
	case p < 37 && dir != "":
		name := tempName(dir, "in")
		if err := os.WriteFile(name, data, 0o644); err == nil {
			if f, err := os.Open(name); err == nil {
				return &IOSource{R: f, Kind: "os.File", done: func() { f.Close(); os.Remove(name) }}
			}
			os.Remove(name)
		}
	case p < 39:
		pr, pw := io.Pipe()
		var wg sync.WaitGroup
		wg.Add(1)
		chunk := 1 + r.Intn(4096)
		go func() {
			defer wg.Done()
			for at := 0; at < len(data); at += chunk {
				e := at + chunk
				if e > len(data) {
					e = len(data)
				}
				if _, err := pw.Write(data[at:e]); err != nil {
					return
				}
			}
			pw.Close()
		}()
		return &IOSource{R: pr, Kind: "io.Pipe", done: func() { pr.Close(); wg.Wait() }}
	}
	return &IOSource{R: bytes.NewReader(data), Kind: "bytes.Reader"}
}

// IOSink is a writer of a chosen kind; Finish flushes / closes it and returns every
// byte it received, in order.
type IOSink struct {
	W      io.Writer
	Kind   string
	Writes int // number of Write calls seen by the outermost writer
	finish func() ([]byte, error)
}

func (s *IOSink) Finish() ([]byte, error) { return s.finish() }

type countingWriter struct {
	w io.Writer
	s *IOSink
}

func (c countingWriter) Write(p []byte) (int, error) {
	c.s.Writes++
	return c.w.Write(p)
}

// loopingWriter accepts at most max bytes per inner step (it loops until all of p is
// taken, yielding the processor between the pieces) and copies what it takes.
type loopingWriter struct {
	buf bytes.Buffer
	max int
}

func (l *loopingWriter) Write(p []byte) (int, error) {
	n := 0
	for len(p) > 0 {
		k := l.max
		if k > len(p) {
			k = len(p)
		}
		l.buf.Write(p[:k])
		p = p[k:]
		n += k
		runtime.Gosched()
	}
	return n, nil
}

// slowWriter sleeps before it copies.
type slowWriter struct {
	buf   bytes.Buffer
	sleep time.Duration
}

func (s *slowWriter) Write(p []byte) (int, error) {
	time.Sleep(s.sleep)
	return s.buf.Write(p)
}

// SinkKinds lists the kinds NewIOSink draws; SlowSinkKinds the additional slow ones
// used with large outputs.
var SinkKinds = []string{"bytes.Buffer", "bufio.Writer(small)", "chunking", "os.File"}
var SlowSinkKinds = []string{"slow", "chunking-512", "bufio.Writer(small)", "os.File", "io.Pipe(slow reader)", "bytes.Buffer"}

// NewIOSink draws one of SinkKinds.
func NewIOSink(r *rand.Rand, dir string) *IOSink {
	p := r.Intn(20)
	switch {
	case p < 9:
		return NewIOSinkOfKind(r, "bytes.Buffer", dir)
	case p < 14:
		return NewIOSinkOfKind(r, "bufio.Writer(small)", dir)
	case p < 18:
		return NewIOSinkOfKind(r, "chunking", dir)
	}
	return NewIOSinkOfKind(r, "os.File", dir)
}

// NewIOSinkOfKind builds a sink of the named kind (falls back to bytes.Buffer).
func NewIOSinkOfKind(r *rand.Rand, kind, dir string) *IOSink {
	s := &IOSink{Kind: kind}
	switch kind {
	case "bufio.Writer(small)":
		var buf bytes.Buffer
		bw := bufio.NewWriterSize(&buf, 16+r.Intn(300))
		s.W = countingWriter{bw, s}
		s.finish = func() ([]byte, error) { err := bw.Flush(); return buf.Bytes(), err }
	case "chunking", "chunking-512":
		lw := &loopingWriter{max: 1 + r.Intn(64)}
		if kind == "chunking-512" {
			lw.max = 512
		}
		s.W = countingWriter{lw, s}
		s.finish = func() ([]byte, error) { return lw.buf.Bytes(), nil }
	case "slow":
		sw := &slowWriter{sleep: time.Duration(1+r.Intn(5)) * time.Millisecond}
		s.W = countingWriter{sw, s}
		s.finish = func() ([]byte, error) { return sw.buf.Bytes(), nil }
	case "os.File":
		if dir != "" {
			name := tempName(dir, "out")
			if f, err := os.Create(name); err == nil {
				s.W = countingWriter{f, s}
				s.finish = func() ([]byte, error) {
					cerr := f.Close()
					b, rerr := os.ReadFile(name)
					os.Remove(name)
					if cerr != nil {
						return b, cerr
					}
					return b, rerr
				}
				return s
			}
		}
		return NewIOSinkOfKind(r, "bytes.Buffer", dir)
	case "io.Pipe(slow reader)":
		pr, pw := io.Pipe()
		var got bytes.Buffer
		var wg sync.WaitGroup
		wg.Add(1)
		sleep := time.Duration(200+r.Intn(1800)) * time.Microsecond
		go func() {
			defer wg.Done()
			chunk := make([]byte, 32<<10)
			for {
				n, err := pr.Read(chunk)
				got.Write(chunk[:n])
				if err != nil {
					return
				}
				time.Sleep(sleep)
			}
		}()
		s.W = countingWriter{pw, s}
		s.finish = func() ([]byte, error) { pw.Close(); wg.Wait(); return got.Bytes(), nil }
	default:
		s.Kind = "bytes.Buffer"
		var buf bytes.Buffer
		s.W = countingWriter{&buf, s}
		s.finish = func() ([]byte, error) { return buf.Bytes(), nil }
	}
	return s
}
