// Package gen holds the seeded generators shared by the monitors.
package gen

import (
	"fmt"
	"math"
	"math/rand"
	"sort"
	"strings"

	"github.com/EliCDavis/polyform/modeling"
	"github.com/EliCDavis/vector/vector2"
	"github.com/EliCDavis/vector/vector3"
	"github.com/EliCDavis/vector/vector4"
)

// MeshOpts are the independent knobs of the mesh generator. Zero value = everything allowed.
type MeshOpts struct {
	Topologies []modeling.Topology // default: triangle, point
	MaxVerts   int                 // default 40
	MinVerts   int
	AllowEmpty bool
	// F32: all attribute values are float32-representable.
	F32 bool
	// ValueClass override: "" = random per mesh.
	ValueClass string
	// RequirePosition: always carry a Position attribute (default true unless NoPosition).
	NoPositionOK bool
	// Attribute palette; nil = default palette.
	V3Names, V2Names, V1Names, V4Names []string
	// Colors01: Color attribute values in [0,1].
	Materials bool
	// IndexPatterns to choose from; nil = all.
	IndexPatterns []string
	// MinPrims forces at least this many primitives when the mesh is not empty.
	MinPrims int
	MaxPrims int // default 3*MaxVerts/ (index size)
}

// MeshDesc describes what was generated (for signatures and non-triviality rules).
type MeshDesc struct {
	Topology     string
	Verts        int
	Prims        int
	IndexPattern string
	ValueClass   string
	Attrs        []string
	Materials    int
	Shared       bool // some vertex referenced by ≥2 corners
	Unreferenced bool // some vertex referenced by no corner
	DupPositions bool
	Identity     bool
}

func (d MeshDesc) Sig() string {
	return fmt.Sprintf("%s/v%d/p%d/%s/%s/[%s]/m%d", d.Topology, bucket(d.Verts), bucket(d.Prims), d.IndexPattern, d.ValueClass, strings.Join(d.Attrs, ","), d.Materials)
}

func bucket(n int) int {
	switch {
	case n <= 4:
		return n
	case n <= 8:
		return 8
	case n <= 16:
		return 16
	case n <= 64:
		return 64
	case n <= 256:
		return 256
	}
	return 1 << uint(math.Ceil(math.Log2(float64(n))))
}

var valueClasses = []string{"smallint", "f32", "f64", "weldcell", "tiny", "large", "dyadic"}

// Value draws one coordinate of the given class.
func Value(r *rand.Rand, class string) float64 {
	switch class {
	case "smallint":
		return float64(r.Intn(9) - 4)
	case "f32":
		return float64(float32(r.Float64()*20 - 10))
	case "f64":
		return r.Float64()*20 - 10
	case "weldcell":
		// multiples of 1/4 plus a perturbation well inside a 3-decimal rounding cell
		return float64(r.Intn(17)-8)/4 + (r.Float64()-0.5)*0.0002
	case "tiny":
		return (r.Float64() - 0.5) * 1e-3
	case "dyadic":
		// round 9 (C02-N): multiples of 1/16 in [-4, 4] - exact in binary, and exactly HALF a rounding step at
		// 0-3 decimal places for many of them (-0.5, -0.25, 0.125, 0.0625 ...), both signs: where two spellings of
		// "round to n places" (math.Round, floor(x+0.5), int(x+0.5)) part ways
		return float64(r.Intn(129)-64) / 16
	case "residue":
		// round 8 (C06-M, C05-M): non-zero magnitudes far below any "epsilon" a clean-up may introduce -
		// trigonometric residue (cos(pi/2), sin(pi)), nano-scale coordinates, the float32 range below 1e-9
		// down to subnormals - next to exact zeros and ordinary values, so that they are the extremes of
		// some columns and interior values of others. Never part of the default class list: a monitor
		// asks for it by name.
		switch r.Intn(4) {
		case 0:
			return float64(r.Intn(3) - 1)
		case 1:
			return 0
		}
		v := []float64{6.123233995736766e-17, 1.2246467991473532e-16, 3.7e-9, 9.99e-9, 1e-12, 2.5e-20, 1.1754944e-38, 1e-40, 4.4e-16, 7e-11}[r.Intn(10)]
		if r.Intn(3) == 0 {
			v *= 1 + r.Float64()
		}
		if r.Intn(2) == 0 {
			v = -v
		}
		return v
	case "large":
		return (r.Float64() - 0.5) * 2e5
	}
	return r.Float64()*2 - 1
}

func maybeF32(f32 bool, v float64) float64 {
	if f32 {
		return float64(float32(v))
	}
	return v
}

// Mesh generates a well-formed mesh by construction.
func Mesh(r *rand.Rand, o MeshOpts) (modeling.Mesh, MeshDesc) {
	topos := o.Topologies
	if len(topos) == 0 {
		topos = []modeling.Topology{modeling.TriangleTopology, modeling.PointTopology}
	}
	topo := topos[r.Intn(len(topos))]
	d := MeshDesc{Topology: topo.String()}
	maxV := o.MaxVerts
	if maxV == 0 {
		maxV = 40
	}
	n := o.MinVerts + r.Intn(maxV-o.MinVerts+1)
	if r.Intn(3) == 0 && maxV > 12 && o.MinVerts < 12 { // bias to small (never below an exact size asked for)
		n = o.MinVerts + r.Intn(imin(12, maxV)-o.MinVerts+1)
	}
	if o.AllowEmpty && r.Intn(15) == 0 {
		n = 0
	}
	if !o.AllowEmpty && n == 0 {
		n = 1 + r.Intn(maxV)
	}
	class := o.ValueClass
	if class == "" {
		class = valueClasses[r.Intn(len(valueClasses))]
		if o.F32 && (class == "f64" || class == "weldcell" || class == "tiny" || class == "large") {
			class = []string{"smallint", "f32"}[r.Intn(2)]
		}
	}
	d.ValueClass = class
	d.Verts = n
	if n == 0 {
		m := modeling.EmptyMesh(topo)
		if r.Intn(2) == 0 {
			m = modeling.NewMesh(topo, nil)
		}
		d.IndexPattern = "empty"
		return m, d
	}
	val := func() float64 { return maybeF32(o.F32, Value(r, class)) }
	unit := func() float64 { return maybeF32(o.F32, r.Float64()) }

	pos := make([]vector3.Float64, n)
	for i := range pos {
		pos[i] = vector3.New(val(), val(), val())
		if i > 0 && r.Intn(6) == 0 {
			pos[i] = pos[r.Intn(i)]
			d.DupPositions = true
		}
	}
	isz := topo.IndexSize()
	// index pattern
	pats := o.IndexPatterns
	if len(pats) == 0 {
		pats = []string{"identity", "random", "permutation", "welded", "unreferenced", "repeated"}
	}
	pat := pats[r.Intn(len(pats))]
	maxP := o.MaxPrims
	if maxP == 0 {
		maxP = imax(2, 2*n/isz+2)
	}
	var idx []int
	switch pat {
	case "identity":
		k := n - n%isz
		if topo == modeling.LineStripTopology {
			k = n
		}
		idx = make([]int, k)
		for i := range idx {
			idx[i] = i
		}
	case "permutation":
		p := r.Perm(n)
		k := n - n%isz
		idx = p[:k]
	case "welded": // neighbouring primitives share vertices
		np := o.MinPrims + r.Intn(imax(1, maxP-o.MinPrims+1))
		idx = make([]int, 0, np*isz)
		for p := 0; p < np; p++ {
			base := r.Intn(n)
			for c := 0; c < isz; c++ {
				idx = append(idx, (base+c*(1+r.Intn(2)))%n)
			}
		}
	case "unreferenced": // only the first half of the vertices are referenced
		np := o.MinPrims + r.Intn(imax(1, maxP-o.MinPrims+1))
		idx = make([]int, np*isz)
		lim := imax(1, n/2)
		for i := range idx {
			idx[i] = r.Intn(lim)
		}
	case "repeated": // some primitives repeated verbatim, some degenerate
		np := imax(1, o.MinPrims) + r.Intn(imax(1, maxP-o.MinPrims+1))
		idx = make([]int, 0, np*isz)
		for p := 0; p < np; p++ {
			if p > 0 && r.Intn(3) == 0 {
				q := r.Intn(p)
				idx = append(idx, idx[q*isz:(q+1)*isz]...)
				continue
			}
			a := r.Intn(n)
			for c := 0; c < isz; c++ {
				if c > 0 && r.Intn(5) == 0 {
					idx = append(idx, a) // degenerate corner
				} else {
					idx = append(idx, r.Intn(n))
				}
			}
		}
	default: // random
		np := o.MinPrims + r.Intn(imax(1, maxP-o.MinPrims+1))
		idx = make([]int, np*isz)
		for i := range idx {
			idx[i] = r.Intn(n)
		}
	}
	if topo == modeling.LineStripTopology && len(idx) == 1 {
		idx = append(idx, idx[0])
	}
	d.IndexPattern = pat
	d.Prims = len(idx) / isz
	if topo == modeling.LineStripTopology {
		d.Prims = imax(0, len(idx)-1)
	}
	refc := make([]int, n)
	d.Identity = len(idx) == n
	for i, v := range idx {
		refc[v]++
		if v != i {
			d.Identity = false
		}
	}
	for _, c := range refc {
		if c == 0 {
			d.Unreferenced = true
		}
		if c > 1 {
			d.Shared = true
		}
	}

	m := modeling.NewMesh(topo, idx)
	hasPos := !o.NoPositionOK || r.Intn(8) != 0
	if hasPos {
		m = m.SetFloat3Attribute(modeling.PositionAttribute, pos)
		d.Attrs = append(d.Attrs, "P")
	}
	v3 := o.V3Names
	if v3 == nil {
		v3 = []string{modeling.NormalAttribute, modeling.ColorAttribute, "userV3"}
	}
	for _, name := range v3 {
		if r.Intn(2) == 0 {
			continue
		}
		a := make([]vector3.Float64, n)
		for i := range a {
			switch name {
			case modeling.ColorAttribute:
				a[i] = vector3.New(unit(), unit(), unit())
			case modeling.NormalAttribute:
				v := vector3.New(r.NormFloat64(), r.NormFloat64(), r.NormFloat64())
				if v.Length() < 1e-3 {
					v = vector3.New(0., 1., 0.)
				}
				v = v.Normalized()
				a[i] = vector3.New(maybeF32(o.F32, v.X()), maybeF32(o.F32, v.Y()), maybeF32(o.F32, v.Z()))
			default:
				a[i] = vector3.New(val(), val(), val())
			}
		}
		m = m.SetFloat3Attribute(name, a)
		d.Attrs = append(d.Attrs, name)
	}
	v2 := o.V2Names
	if v2 == nil {
		v2 = []string{modeling.TexCoordAttribute, "userV2"}
	}
	for _, name := range v2 {
		if r.Intn(2) == 0 {
			continue
		}
		a := make([]vector2.Float64, n)
		for i := range a {
			a[i] = vector2.New(unit(), unit())
		}
		m = m.SetFloat2Attribute(name, a)
		d.Attrs = append(d.Attrs, name)
	}
	v1 := o.V1Names
	if v1 == nil {
		v1 = []string{"userV1", modeling.OpacityAttribute}
	}
	for _, name := range v1 {
		if r.Intn(2) == 0 {
			continue
		}
		a := make([]float64, n)
		for i := range a {
			a[i] = val()
		}
		m = m.SetFloat1Attribute(name, a)
		d.Attrs = append(d.Attrs, name)
	}
	v4 := o.V4Names
	if v4 == nil {
		v4 = []string{"userV4"}
	}
	for _, name := range v4 {
		if r.Intn(2) == 0 {
			continue
		}
		a := make([]vector4.Float64, n)
		for i := range a {
			a[i] = vector4.New(val(), val(), val(), val())
		}
		m = m.SetFloat4Attribute(name, a)
		d.Attrs = append(d.Attrs, name)
	}
	if len(d.Attrs) == 0 { // a mesh with vertices needs at least one attribute to have them
		m = m.SetFloat3Attribute(modeling.PositionAttribute, pos)
		d.Attrs = append(d.Attrs, "P")
	}
	if o.Materials && topo == modeling.TriangleTopology && d.Prims > 0 && r.Intn(2) == 0 {
		mats := Materials(r, d.Prims)
		m = m.SetMaterials(mats)
		d.Materials = len(mats)
	}
	return m, d
}

// MaterialPool is a small set of distinct material pointers.
func MaterialPool(r *rand.Rand, k int) []*modeling.Material {
	out := make([]*modeling.Material, k)
	for i := range out {
		out[i] = &modeling.Material{Name: fmt.Sprintf("mat%d", i), SpecularHighlight: float64(i), OpticalDensity: 1}
	}
	return out
}

// Materials partitions prims primitives into ranges (zero-length ranges and repeated pointers included).
func Materials(r *rand.Rand, prims int) []modeling.MeshMaterial {
	pool := MaterialPool(r, 1+r.Intn(4))
	k := 1 + r.Intn(5)
	cuts := make([]int, k)
	left := prims
	for i := 0; i < k-1; i++ {
		c := 0
		if left > 0 && r.Intn(4) != 0 {
			c = r.Intn(left + 1)
		}
		cuts[i] = c
		left -= c
	}
	cuts[k-1] = left
	r.Shuffle(k, func(i, j int) { cuts[i], cuts[j] = cuts[j], cuts[i] })
	out := make([]modeling.MeshMaterial, k)
	for i := range out {
		out[i] = modeling.MeshMaterial{PrimitiveCount: cuts[i], Material: pool[r.Intn(len(pool))]}
	}
	return out
}

func imin(a, b int) int {
	if a < b {
		return a
	}
	return b
}
func imax(a, b int) int {
	if a > b {
		return a
	}
	return b
}

// BlockBases lists the element counts ⌊B/e⌋ ≤ maxN that fill a staging block of B = 4, 8, 16, 32 or 64 KiB
// exactly (or to the last whole element) for the given element sizes in bytes, ascending and distinct. Codecs
// that batch their output or input by a byte budget change behaviour at exact multiples of these counts
// (round 7, C06-L: the last full block of an array of exactly k·2730 VEC3 floats was never written).
func BlockBases(maxN int, elemSizes ...int) []int {
	seen := map[int]bool{}
	var out []int
	for _, b := range []int{4096, 8192, 16384, 32768, 65536} {
		for _, e := range elemSizes {
			if n := b / e; n >= 1 && n <= maxN && !seen[n] {
				seen[n] = true
				out = append(out, n)
			}
		}
	}
	sort.Ints(out)
	return out
}
