// Package c07 monitors property C07: binary STL round trip and size law.
//
// Two phases:
//
//	mesh-rt   generated well-formed triangle meshes -> stl.WriteMesh -> (a) size law,
//	          (b) an independent record parser compares count field, corner positions
//	          and facet normals with the mesh, (c) stl.ReadMesh / stl.Read are compared
//	          with the mesh and with the independent parse, (d) stl.Write(stl.Read(b)) == b.
//	bytes-rt  generated well-formed STL byte strings (reference encoder: arbitrary header,
//	          records, attribute words) -> stl.Read must decode exactly what the reference
//	          parser decodes, stl.Write(stl.Read(b)) must reproduce count + records,
//	          stl.WriteMesh(stl.ReadMesh(b)) must reproduce every vertex exactly and every
//	          unit normal to 1e-6.
package c07

import (
	"bytes"
	"fmt"
	"io"
	"math"
	"math/rand"
	"strings"

	"github.com/EliCDavis/polyform/formats/stl"
	"github.com/EliCDavis/polyform/modeling"
	"github.com/EliCDavis/vector/vector2"
	"github.com/EliCDavis/vector/vector3"

	"polyverif/internal/gen"
	"polyverif/internal/ref"
	"polyverif/internal/run"
)

const normalTol = 1e-6

func Spec() *run.Spec {
	return &run.Spec{
		ID: "C07", Level: "exploration",
		Rule: "mesh-rt: one case = one generated well-formed triangle mesh (n = 0…2000 triangles; index pattern unwelded/permuted/grid/fan/random-welded/unreferenced/repeated+degenerate; " +
			"normals none/unit/non-unit/axis/scaled (magnitudes 1e-30…1e30 per mesh, per triangle or per vertex); 7 value classes; optional extra attributes and materials) written with stl.WriteMesh and checked by an independent record parser, " +
			"stl.ReadMesh, stl.Read and stl.Write; non-trivial iff n ≥ 2 and some vertex is shared by ≥ 2 corners. " +
			"bytes-rt: one case = one well-formed STL byte string from the reference encoder (random header, n = 0…300 (thorough …3000) records, normals zero/geometric/random-unit/non-unit/mixed, " +
			"random attribute words, degenerate facets); non-trivial iff n ≥ 2 and (some attribute word ≠ 0 or some normal ≠ 0). " +
			"block-multiples: the large oracle on exactly k·⌊B/e⌋ triangles (B = 4…64 KiB; e = 50, 48, 36, 12, 4 bytes; k = 1…3, thorough …8), both directions. " +
			"large: case i runs the mesh-rt oracle (i even) or the bytes-rt oracle (i odd) on n = largeSizes[(i/2) mod 13] triangles: 4095, 4096, 4097, 5000, 8191, 8192, 8193, 10000, 12289, 16385, 20000, 50000 or a random count in 20000…70000, " +
			"then writes the same output again (stl.WriteMesh resp. stl.Write) into every slow / piecewise sink kind — slow (1–5 ms per Write), 512-byte looping wrapper, small bufio.Writer, os.File, io.Pipe with a slow reader, plain buffer — and compares count field and records byte for byte, in order, with the verified output " +
			"(around typical batch / buffer sizes); every record is compared in order, so a permuted, overwritten or zero tail is seen. Both ordinary phases also draw 1023/1024/1025/2047/2048/2049. " +
			"fault-sequences: one case = a history of 3–8 operations in one goroutine mixing complete mesh-rt / bytes-rt cases (n = 0…612) with stl.WriteMesh / stl.Write to a writer that fails for good after k bytes " +
			"(k in the header, the count field, the first record, the middle of the records, a record boundary or the last byte; refusing or partially accepting the failing call) and stl.Read / stl.ReadMesh from a reader that fails after k bytes; " +
			"a failing call must report an error, every good operation must pass its complete oracle whatever failed before; non-trivial iff a failure inside the records is followed by a good operation. " +
			"Every ordinary read draws the reader KIND (bytes.Reader, struct{io.Reader}, iotest.OneByteReader / HalfReader / DataErrReader, io.LimitReader with trailing garbage, chunked, small bufio.Reader, os.File, io.Pipe) and every ordinary write the sink kind (bytes.Buffer, small bufio.Writer, looping chunk wrapper, os.File). " +
			"mixed-zero files place the records without a stored normal first / last / in the middle / at both ends / alternating / all but the last / only the first / at random. " +
			"Distinctness = phase / size bucket / index pattern / normal kind / value class / extras.",
		Assumptions: []string{
			"positions are finite and |x| < 1e30 so that float32 rounding never overflows (NaN/Inf are out of reach)",
			"a facet whose corner-normal mean is shorter than 1e-6 of the longest corner normal (|mean| / max|corner| < 1e-6, a RELATIVE rule: the magnitudes themselves do not matter) has no defined direction: its normal is not compared (counted in normals_skipped_undefined)",
			"normal kind scaled: unit directions multiplied per mesh / per triangle / per vertex by 10^e, e uniform in [-30, 30] (one draw in seven: [-200, 200]); the reference divides by the largest component before summing and squaring, so it is exact at every magnitude; a verdict is given when |mean| ∈ [1e-140, 1e140] and max|corner| ≤ 1e140, outside (where x² over- or underflows in float64) what the writer stored is only counted (extreme_normal_written_*)",
			"a facet with edge-angle sine ≤ 1e-6 has no defined geometric normal: where the geometric normal is the expected value it is not compared (counted in normals_skipped_degenerate)",
			"stl.ReadMesh defines: as soon as ONE record of a file stores a non-zero normal the mesh reports a Normal attribute, and a record whose stored normal is zero gets the geometric normal (v2−v1)×(v3−v1) normalised — wherever that record lies relative to the records with normals; this is what the monitor demands of the mesh read back (1e-6), while a record re-written from such a mesh may hold zero or the geometric normal",
			"a file written from a mesh without normals may store either the zero vector or the geometric normal; stl.ReadMesh may or may not report a Normal attribute for it (if it does it must be the geometric normal)",
			"injected writer faults are permanent (every call after the first failing one fails too) and always return a non-nil error; injected reader faults deliver k < 84+50n bytes and then return an error (io.EOF included: a truncated file)",
			"the 80-byte header and the attribute word of files written from a mesh are not constrained by the property; header preservation by stl.Write(stl.Read(b)) is counted, not judged",
		},
		MinNontrivial: map[string]int{"quick": 120, "thorough": 400},
		MinObserved: map[string]int64{
			"facets_parsed_independently":                            5000,
			"stored_normals_compared":                                1000,
			"geometric_normals_compared":                             200,
			"readmesh_corners_compared":                              10000,
			"foreign_records_roundtripped":                           5000,
			"index_patterns":                                         7,
			"normal_kinds":                                           4,
			"foreign_normal_kinds":                                   5,
			"zero_triangle_cases":                                    20,
			"fault_histories":                                        1000,
			"failed_writes_reported":                                 1000,
			"failed_reads_reported":                                  300,
			"good_ops_after_a_failure_in_the_records":                500,
			"write_fault_positions":                                  6,
			"files_with_normal_less_records_before_the_first_normal": 200,
			"files_with_normal_less_records_after_the_last_normal":   200,
			"files_with_normal_less_records_between_normals":         200,
			"mixed_zero_arrangements":                                8,
			"reader_kinds":                                           9,
			"writer_kinds":                                           4,
			"large_sink_kinds":                                       6,
			"normal_mean_magnitude:1e-30..1e-20":                     1000,
			"normal_mean_magnitude:1e-20..1e-10":                     1000,
			"normal_mean_magnitude:1e-10..1e-5":                      500,
			"normal_mean_magnitude:1e-5..1":                          500,
			"normal_mean_magnitude:1..1e5":                           500,
			"normal_mean_magnitude:1e5..1e10":                        500,
			"normal_mean_magnitude:1e10..1e20":                       1000,
			"normal_mean_magnitude:1e20..1e30":                       1000,
			"large_sizes":                                            9,
			"large_records_compared":                                 150000,
		},
		Phases: []run.Phase{
			{Name: "mesh-rt", Cases: func(t string) int {
				if t == "thorough" {
					return 250000
				}
				return 8000
			}, Run: meshRT, Batch: 100, CPUBudgetS: 20},
			{Name: "bytes-rt", Cases: func(t string) int {
				if t == "thorough" {
					return 150000
				}
				return 6000
			}, Run: bytesRT, Batch: 100, CPUBudgetS: 20},
			{Name: "large", Cases: func(t string) int {
				if t == "thorough" {
					return 260
				}
				return 26
			}, Run: large, Batch: 2, CPUBudgetS: 120},
			{Name: "block-multiples", Cases: func(t string) int {
				if t == "thorough" {
					return 2 * 8 * len(stlBlockBases)
				}
				return 2 * 3 * len(stlBlockBases)
			}, Run: blockMultiples, Batch: 8, CPUBudgetS: 120},
			{Name: "fault-sequences", Cases: func(t string) int {
				if t == "thorough" {
					return 25000
				}
				return 2500
			}, Run: faultSequences, Batch: 100, CPUBudgetS: 20},
		},
	}
}

// meanDirection is the reference for "normalised mean of the corner normals": the three
// normals are first divided by their largest component magnitude, so that neither the
// sum nor the squares leave the float64 range whatever the magnitudes are. ratio =
// |mean| / max|corner| (how much of the corners survives the averaging), meanMag = |mean|,
// longest = max|corner| (both in the original scale, computed without squaring overflow).
func meanDirection(a, b, c v3) (u v3, ratio, meanMag, longest float64, ok bool) {
	m := math.Max(a.maxAbs(), math.Max(b.maxAbs(), c.maxAbs()))
	if m == 0 || math.IsInf(m, 0) || m != m {
		return v3{}, 0, 0, 0, false
	}
	as, bs, cs := a.scale(1/m), b.scale(1/m), c.scale(1/m)
	mean := as.add(bs).add(cs).scale(1.0 / 3)
	lmax := math.Max(as.len(), math.Max(bs.len(), cs.len()))
	ml := mean.len()
	if ml == 0 {
		return v3{}, 0, 0, lmax * m, false
	}
	u, ok = mean.unit()
	return u, ml / lmax, ml * m, lmax * m, ok
}

// magnitudeBand names the decade band of a magnitude.
func magnitudeBand(x float64) string {
	bounds := []float64{1e-140, 1e-30, 1e-20, 1e-10, 1e-5, 1, 1e5, 1e10, 1e20, 1e30, 1e140}
	names := []string{"<1e-140", "1e-140..1e-30", "1e-30..1e-20", "1e-20..1e-10", "1e-10..1e-5", "1e-5..1", "1..1e5", "1e5..1e10", "1e10..1e20", "1e20..1e30", "1e30..1e140", ">1e140"}
	for i, b := range bounds {
		if x < b {
			return names[i]
		}
	}
	return names[len(names)-1]
}

// --- generators ------------------------------------------------------------

var valueClasses = []string{"smallint", "f32", "f64", "tiny", "large", "wide", "zeros"}

func value(r *rand.Rand, class string) float64 {
	switch class {
	case "smallint":
		return float64(r.Intn(9) - 4)
	case "f32":
		return float64(float32(r.Float64()*20 - 10))
	case "f64":
		return r.Float64()*20 - 10
	case "tiny":
		return (r.Float64() - 0.5) * 1e-20
	case "large":
		return (r.Float64() - 0.5) * 2e5
	case "wide":
		return (r.Float64()*2 - 1) * math.Pow(10, float64(r.Intn(56)-28))
	case "zeros":
		switch r.Intn(4) {
		case 0:
			return 0
		case 1:
			return math.Copysign(0, -1)
		}
		return r.Float64()*2 - 1
	}
	return r.Float64()
}

// boundarySizes: triangle counts around typical batch / buffer sizes.
var boundarySizes = []int{1023, 1024, 1025, 2047, 2048, 2049}

func triCount(r *rand.Rand, tier string) int {
	switch p := r.Intn(100); {
	case p < 8:
		return 0
	case p < 45:
		return 1 + r.Intn(8)
	case p < 78:
		return 9 + r.Intn(56)
	case p < 93:
		return 65 + r.Intn(336)
	case p < 97:
		return 401 + r.Intn(1600)
	default:
		return boundarySizes[r.Intn(len(boundarySizes))]
	}
}

type meshModel struct {
	n           int
	pattern     string
	class       string
	normals     string
	extras      string
	idx         []int
	pos         []v3
	nor         []v3 // nil when the mesh stores no normals
	normalScale string
	shared      bool
}

func (mm *meshModel) sig() string {
	return fmt.Sprintf("mesh/n%d/%s/%s/%s/%s", bucket(mm.n), mm.pattern, mm.normals, mm.class, mm.extras)
}

func bucket(n int) int {
	switch {
	case n <= 3:
		return n
	case n <= 8:
		return 8
	case n <= 32:
		return 32
	case n <= 128:
		return 128
	case n <= 512:
		return 512
	case n <= 2049:
		return 2048
	case n <= 8193:
		return 8192
	case n <= 32768:
		return 32768
	}
	return 131072
}

var patterns = []string{"unwelded", "unwelded-perm", "grid", "fan", "welded-random", "unreferenced", "repeated"}
var normalKinds = []string{"none", "none", "unit", "unit", "nonunit", "axis", "f32unit", "scaled", "scaled"}

// decade draws the power of ten of a normal's magnitude: log-uniform over 1e-30 … 1e30,
// in one draw out of seven over 1e-200 … 1e200 (beyond what squares of float64 hold).
func decade(r *rand.Rand) float64 {
	if r.Intn(7) == 0 {
		return math.Pow(10, r.Float64()*400-200)
	}
	return math.Pow(10, r.Float64()*60-30)
}

func toVec3(a []v3) []vector3.Float64 {
	out := make([]vector3.Float64, len(a))
	for i, p := range a {
		out[i] = vector3.New(p[0], p[1], p[2])
	}
	return out
}

// genMesh draws a mesh; forceN ≥ 0 fixes the number of triangles.
func genMesh(r *rand.Rand, tier string, forceN int) (modeling.Mesh, *meshModel) {
	mm := &meshModel{n: triCount(r, tier)}
	if forceN >= 0 {
		mm.n = forceN
	}
	mm.class = valueClasses[r.Intn(len(valueClasses))]
	mm.normals = normalKinds[r.Intn(len(normalKinds))]
	n := mm.n
	var V int
	if n == 0 {
		mm.pattern = []string{"empty-mesh", "new-nil", "vertices-no-faces", "zero-length-position"}[r.Intn(4)]
		switch mm.pattern {
		case "empty-mesh":
			mm.normals, mm.extras = "none", "-"
			return modeling.EmptyMesh(modeling.TriangleTopology), mm
		case "new-nil":
			mm.normals, mm.extras = "none", "-"
			return modeling.NewTriangleMesh(nil), mm
		case "vertices-no-faces":
			V = 1 + r.Intn(6)
		}
	} else {
		mm.pattern = patterns[r.Intn(len(patterns))]
		switch mm.pattern {
		case "unwelded":
			V = 3 * n
			mm.idx = make([]int, V)
			for i := range mm.idx {
				mm.idx[i] = i
			}
		case "unwelded-perm":
			V = 3 * n
			mm.idx = r.Perm(V)
		case "grid":
			w := 1 + r.Intn(1+int(math.Sqrt(float64(n))))
			h := (n + 2*w - 1) / (2 * w)
			V = (w + 1) * (h + 1)
			for y := 0; y < h && len(mm.idx) < 3*n; y++ {
				for x := 0; x < w && len(mm.idx) < 3*n; x++ {
					a, b, c, d := y*(w+1)+x, y*(w+1)+x+1, (y+1)*(w+1)+x, (y+1)*(w+1)+x+1
					mm.idx = append(mm.idx, a, b, d)
					if len(mm.idx) < 3*n {
						mm.idx = append(mm.idx, a, d, c)
					}
				}
			}
		case "fan":
			V = n + 2
			for t := 0; t < n; t++ {
				mm.idx = append(mm.idx, 0, t+1, t+2)
			}
		case "welded-random":
			V = 1 + r.Intn(imax(3, n))
			mm.idx = make([]int, 3*n)
			for i := range mm.idx {
				mm.idx[i] = r.Intn(V)
			}
		case "unreferenced":
			used := 1 + r.Intn(imax(3, 2*n))
			V = used + 1 + r.Intn(10)
			mm.idx = make([]int, 3*n)
			off := r.Intn(V - used + 1)
			for i := range mm.idx {
				mm.idx[i] = off + r.Intn(used)
			}
		case "repeated":
			V = 3 + r.Intn(imax(3, n))
			for t := 0; t < n; t++ {
				if t > 0 && r.Intn(3) == 0 {
					q := r.Intn(t)
					mm.idx = append(mm.idx, mm.idx[3*q], mm.idx[3*q+1], mm.idx[3*q+2])
					continue
				}
				a := r.Intn(V)
				tri := [3]int{a, r.Intn(V), r.Intn(V)}
				if r.Intn(4) == 0 {
					tri[1+r.Intn(2)] = a // degenerate facet
				}
				mm.idx = append(mm.idx, tri[0], tri[1], tri[2])
			}
		}
	}
	seen := make([]int, V)
	for _, v := range mm.idx {
		seen[v]++
		if seen[v] > 1 {
			mm.shared = true
		}
	}
	mm.pos = make([]v3, V)
	for i := range mm.pos {
		mm.pos[i] = v3{value(r, mm.class), value(r, mm.class), value(r, mm.class)}
		if i > 0 && r.Intn(10) == 0 {
			mm.pos[i] = mm.pos[r.Intn(i)] // duplicated position
		}
	}
	m := modeling.NewTriangleMesh(append([]int(nil), mm.idx...)).
		SetFloat3Attribute(modeling.PositionAttribute, toVec3(mm.pos))
	if mm.normals != "none" {
		mm.nor = make([]v3, V)
		for i := range mm.nor {
			var d v3
			for {
				d = v3{r.NormFloat64(), r.NormFloat64(), r.NormFloat64()}
				if d.len() > 1e-3 {
					break
				}
			}
			u, _ := d.unit()
			switch mm.normals {
			case "scaled":
				mm.nor[i] = u // scaled below, per mesh / per triangle / per vertex
			case "unit":
				mm.nor[i] = u
			case "f32unit":
				mm.nor[i] = v3{float64(float32(u[0])), float64(float32(u[1])), float64(float32(u[2]))}
			case "nonunit":
				mm.nor[i] = u.scale(math.Pow(10, r.Float64()*4-2))
			case "axis":
				var a v3
				a[r.Intn(3)] = float64(1 - 2*r.Intn(2))
				mm.nor[i] = a
			}
		}
		if mm.normals == "scaled" {
			// un-normalised normals (area weighted, accumulated, in other units …): magnitude as a
			// workload dimension
			mode := []string{"per-mesh", "per-triangle", "per-vertex"}[r.Intn(3)]
			if mode == "per-triangle" && mm.pattern != "unwelded" && mm.pattern != "unwelded-perm" {
				mode = "per-vertex" // a shared vertex cannot carry one scale per triangle
			}
			mm.normalScale = mode
			switch mode {
			case "per-mesh":
				s := decade(r)
				for i := range mm.nor {
					mm.nor[i] = mm.nor[i].scale(s)
				}
			case "per-triangle":
				for t := 0; t < mm.n; t++ {
					s := decade(r)
					for k := 0; k < 3; k++ {
						v := mm.idx[3*t+k]
						mm.nor[v] = mm.nor[v].scale(s)
					}
				}
			default:
				for i := range mm.nor {
					mm.nor[i] = mm.nor[i].scale(decade(r))
				}
			}
			mm.normals = "scaled:" + mode
		}
		m = m.SetFloat3Attribute(modeling.NormalAttribute, toVec3(mm.nor))
	}
	mm.extras = "-"
	if r.Intn(3) == 0 {
		mm.extras = ""
		if r.Intn(2) == 0 {
			c := make([]vector3.Float64, V)
			for i := range c {
				c[i] = vector3.New(r.Float64(), r.Float64(), r.Float64())
			}
			m = m.SetFloat3Attribute(modeling.ColorAttribute, c)
			mm.extras += "C"
		}
		if r.Intn(2) == 0 {
			c := make([]vector2.Float64, V)
			for i := range c {
				c[i] = vector2.New(r.Float64(), r.Float64())
			}
			m = m.SetFloat2Attribute(modeling.TexCoordAttribute, c)
			mm.extras += "T"
		}
		if r.Intn(2) == 0 {
			c := make([]float64, V)
			for i := range c {
				c[i] = r.Float64()
			}
			m = m.SetFloat1Attribute("userV1", c)
			mm.extras += "U"
		}
		if n > 0 && r.Intn(2) == 0 {
			k := r.Intn(n + 1)
			m = m.SetMaterials([]modeling.MeshMaterial{
				{PrimitiveCount: k, Material: &modeling.Material{Name: "a"}},
				{PrimitiveCount: n - k, Material: &modeling.Material{Name: "b"}},
			})
			mm.extras += "M"
		}
		if mm.extras == "" {
			mm.extras = "-"
		}
	}
	return m, mm
}

func imax(a, b int) int {
	if a > b {
		return a
	}
	return b
}

// chunkReader hands the bytes out in small pieces (an io.Reader may return less than asked).
type chunkReader struct {
	b     []byte
	chunk int
}

func (c *chunkReader) Read(p []byte) (int, error) {
	if len(c.b) == 0 {
		return 0, io.EOF
	}
	n := len(p)
	if n > c.chunk {
		n = c.chunk
	}
	if n > len(c.b) {
		n = len(c.b)
	}
	copy(p, c.b[:n])
	c.b = c.b[n:]
	return n, nil
}

// scratch returns the worker's scratch directory (one lookup per case).
var scratchCtx *run.Ctx
var scratchDir string

func scratch(c *run.Ctx) string {
	if scratchCtx != c {
		scratchCtx, scratchDir = c, c.ScratchDir()
	}
	return scratchDir
}

// source draws the KIND of reader through which polyform gets the bytes.
func source(c *run.Ctx, res *run.Result, b []byte) *gen.IOSource {
	s := gen.NewIOSource(c.Rng, b, scratch(c), len(b) > 150000)
	res.SetAdd("reader_kinds", s.Kind)
	return s
}

// sinkWrite runs write against a sink of a drawn (or given) kind and returns what the sink received.
func sinkWrite(c *run.Ctx, res *run.Result, kind string, write func(w io.Writer) error) (out []byte, err error, p *run.PanicInfo, sinkKind string) {
	var sink *gen.IOSink
	if kind == "" {
		sink = gen.NewIOSink(c.Rng, scratch(c))
		res.SetAdd("writer_kinds", sink.Kind)
	} else {
		sink = gen.NewIOSinkOfKind(c.Rng, kind, scratch(c))
		res.SetAdd("large_sink_kinds", sink.Kind)
	}
	p = run.Try(func() { err = write(sink.W) })
	got, ferr := sink.Finish()
	if err == nil {
		err = ferr
	}
	return append([]byte(nil), got...), err, p, sink.Kind
}

// --- shared oracle pieces ----------------------------------------------------

func panicClass(p *run.PanicInfo) string {
	if p.Runtime {
		return "runtime-panic"
	}
	return "panic"
}

func f32eq(a, b float32) bool { return a == b || (a != a && b != b) }

func vecBitsEq(a, b refVec) bool {
	for k := 0; k < 3; k++ {
		if math.Float32bits(a[k]) != math.Float32bits(b[k]) {
			return false
		}
	}
	return true
}

func polyVec(v stl.Vec) refVec { return refVec{v.X, v.Y, v.Z} }

// compareBinary compares the struct returned by stl.Read with the independent parse.
func compareBinary(res *run.Result, bin *stl.Binary, f *refFile, witness any) bool {
	if len(bin.Triangles) != len(f.Records) {
		res.Violate("triangle-count", "stl.Read", "well-formed STL bytes",
			fmt.Sprintf("file holds %d records (count field %d), stl.Read returned %d triangles", len(f.Records), f.Count, len(bin.Triangles)), witness)
		return false
	}
	for i, t := range bin.Triangles {
		rec := f.Records[i]
		got := [4]refVec{polyVec(t.Normal), polyVec(t.Vertex1), polyVec(t.Vertex2), polyVec(t.Vertex3)}
		want := [4]refVec{rec.Normal, rec.V[0], rec.V[1], rec.V[2]}
		names := [4]string{"normal", "vertex1", "vertex2", "vertex3"}
		for k := range got {
			if !vecBitsEq(got[k], want[k]) {
				res.Violate("record-field-mismatch", "stl.Read", "well-formed STL bytes",
					fmt.Sprintf("record %d %s: file stores %v, stl.Read returned %v", i, names[k], want[k], got[k]), witness)
				return false
			}
		}
		if t.Attribute != rec.Attr {
			res.Violate("record-field-mismatch", "stl.Read", "well-formed STL bytes",
				fmt.Sprintf("record %d attribute word: file stores %#04x, stl.Read returned %#04x", i, rec.Attr, t.Attribute), witness)
			return false
		}
	}
	res.Count("read_records_compared", int64(len(f.Records)))
	return true
}

// rewrite checks stl.Write(stl.Read(b)) against b: same length, same count field and records.
func rewrite(c *run.Ctx, res *run.Result, bin *stl.Binary, b []byte, witness any) {
	c.Note("stl.Write(stl.Read(b))")
	o, err, p, sk := sinkWrite(c, res, "", func(w io.Writer) error { return stl.Write(w, *bin) })
	if p != nil {
		res.Violate(panicClass(p), "stl.Write", "struct returned by stl.Read, sink "+sk, p.Value+"\n"+p.Stack, witness)
		return
	}
	if err != nil {
		res.Violate("write-error", "stl.Write", "struct returned by stl.Read, sink "+sk, err.Error(), witness)
		return
	}
	if len(o) != len(b) {
		res.Violate("size-law", "stl.Write(stl.Read)", "well-formed STL bytes",
			fmt.Sprintf("input has %d bytes (= 84 + 50*%d), re-written file has %d bytes", len(b), (len(b)-84)/50, len(o)), witness)
		return
	}
	if !bytes.Equal(o[80:84], b[80:84]) {
		res.Violate("count-field", "stl.Write(stl.Read)", "well-formed STL bytes",
			fmt.Sprintf("count field bytes % x became % x", b[80:84], o[80:84]), witness)
		return
	}
	if !bytes.Equal(o[84:], b[84:]) {
		k := 84
		for k < len(b) && o[k] == b[k] {
			k++
		}
		rec, off := (k-84)/50, (k-84)%50
		lo := 84 + rec*50
		res.Violate("records-not-reproduced", "stl.Write(stl.Read)", "well-formed STL bytes",
			fmt.Sprintf("first difference in record %d at byte %d of the record (%s)\n in: % x\nout: % x", rec, off, fieldAt(off), b[lo:lo+50], o[lo:lo+50]), witness)
		return
	}
	res.Count("rewritten_records_identical", int64((len(b)-84)/50))
	if bytes.Equal(o[:80], b[:80]) {
		res.Count("rewritten_header_identical", 1)
	} else {
		res.Count("rewritten_header_changed", 1)
	}
}

func fieldAt(off int) string {
	switch {
	case off < 12:
		return "normal"
	case off < 24:
		return "vertex 1"
	case off < 36:
		return "vertex 2"
	case off < 48:
		return "vertex 3"
	}
	return "attribute word"
}

// --- phase mesh-rt -------------------------------------------------------------

func meshWitness(mm *meshModel) any {
	w := map[string]any{"n": mm.n, "pattern": mm.pattern, "class": mm.class, "normals": mm.normals, "extras": mm.extras}
	if len(mm.idx) <= 60 {
		w["indices"] = mm.idx
		w["positions"] = mm.pos
		if mm.nor != nil {
			w["corner_normals"] = mm.nor
		}
	}
	return w
}

func meshRT(c *run.Ctx) run.Result { return meshRTn(c, -1) }

func meshRTn(c *run.Ctx, forceN int) run.Result {
	res, _, _ := meshRTcore(c, forceN)
	return res
}

// meshRTcore is the mesh-rt case; it also returns the mesh and the bytes written for it
// (nil when the case failed before the bytes were verified).
func meshRTcore(c *run.Ctx, forceN int) (run.Result, modeling.Mesh, []byte) {
	res, m, b := meshRTinner(c, forceN)
	if len(res.Violations) > 0 {
		b = nil
	}
	return res, m, b
}

func meshRTinner(c *run.Ctx, forceN int) (res run.Result, m modeling.Mesh, b []byte) {
	m, mm := genMesh(c.Rng, c.Tier, forceN)
	n := mm.n
	res.Sig = mm.sig()
	res.Nontrivial = n >= 2 && mm.shared
	res.SetAdd("index_patterns", mm.pattern)
	res.SetAdd("normal_kinds", mm.normals)
	res.SetAdd("value_classes", mm.class)
	res.SetAdd("size_buckets", fmt.Sprint(bucket(n)))
	if n == 0 {
		res.Count("zero_triangle_cases", 1)
	}
	if mm.shared {
		res.Count("welded_meshes", 1)
	}
	wit := meshWitness(mm)
	res.Sample = map[string]any{"n": n, "pattern": mm.pattern, "class": mm.class, "normals": mm.normals, "extras": mm.extras}
	input := fmt.Sprintf("triangle mesh, %s, normals=%s", mm.pattern, mm.normals)

	// 1. write
	c.Note(fmt.Sprintf("stl.WriteMesh n=%d %s %s %s", n, mm.pattern, mm.normals, mm.class))
	b, err, wp, sk := sinkWrite(c, &res, "", func(w io.Writer) error { return stl.WriteMesh(w, m) })
	input += ", sink " + sk
	if wp != nil {
		res.Violate(panicClass(wp), "stl.WriteMesh", input, wp.Value+"\n"+wp.Stack, wit)
		return
	}
	if err != nil {
		res.Violate("write-error", "stl.WriteMesh", input, err.Error(), wit)
		return
	}
	res.Count("bytes_written", int64(len(b)))

	// 2. size law
	if len(b) != 84+50*n {
		res.Violate("size-law", "stl.WriteMesh", input,
			fmt.Sprintf("mesh has n=%d triangles: expected 84+50n = %d bytes, got %d", n, 84+50*n, len(b)), wit)
	}

	// 3. independent record parser
	f, perr := parseSTL(b)
	if f != nil && int(f.Count) != n {
		res.Violate("count-field", "stl.WriteMesh", input,
			fmt.Sprintf("mesh has %d triangles, count field (little-endian uint32 at byte 80) says %d; bytes 80..83 = % x", n, f.Count, b[80:84]), wit)
	}
	if perr != nil {
		res.Violate("malformed-file", "stl.WriteMesh", input, perr.Error(), wit)
		return
	}
	if len(f.Records) != n {
		return
	}
	res.Count("facets_parsed_independently", int64(n))
	type exp struct {
		n    v3
		kind int // 0 = not comparable, 1 = stored mean, 2 = zero-or-geometric
	}
	want := make([]exp, n)
	posBad, norBad := false, false
	for t := 0; t < n; t++ {
		rec := f.Records[t]
		var p32 [3]refVec
		for k := 0; k < 3; k++ {
			p := mm.pos[mm.idx[3*t+k]]
			p32[k] = refVec{float32(p[0]), float32(p[1]), float32(p[2])}
			if !posBad && !(f32eq(rec.V[k][0], p32[k][0]) && f32eq(rec.V[k][1], p32[k][1]) && f32eq(rec.V[k][2], p32[k][2])) {
				posBad = true
				res.Violate("record-position", "stl.WriteMesh", input,
					fmt.Sprintf("facet %d vertex %d: mesh corner (vertex id %d) is %v = float32 %v, file stores %v", t, k+1, mm.idx[3*t+k], p, p32[k], rec.V[k]), wit)
			}
		}
		if rec.Attr == 0 {
			res.Count("written_attr_words_zero", 1)
		} else {
			res.Count("written_attr_words_nonzero", 1)
		}
		if mm.nor != nil {
			a, bb, cc := mm.nor[mm.idx[3*t]], mm.nor[mm.idx[3*t+1]], mm.nor[mm.idx[3*t+2]]
			u, ratio, meanMag, longest, ok := meanDirection(a, bb, cc)
			if !ok || ratio < 1e-6 {
				res.Count("normals_skipped_undefined", 1)
				continue
			}
			band := magnitudeBand(meanMag)
			if meanMag < 1e-140 || meanMag > 1e140 || longest > 1e140 {
				// beyond what the squares of float64 hold for certain: measured, not judged
				res.Count("normal_mean_magnitude_outside_verdict_band:"+band, 1)
				switch {
				case !rec.Normal.finite():
					res.Count("extreme_normal_written_as_nan_or_inf", 1)
				case rec.Normal.zero():
					res.Count("extreme_normal_written_as_zero", 1)
				case near(rec.Normal.f64(), u, normalTol):
					res.Count("extreme_normal_written_correctly", 1)
				default:
					res.Count("extreme_normal_written_otherwise", 1)
				}
				continue
			}
			if strings.HasPrefix(mm.normals, "scaled") {
				res.Count("normal_mean_magnitude:"+band, 1)
			}
			want[t] = exp{u, 1}
			res.Count("stored_normals_compared", 1)
			if !norBad && !(rec.Normal.finite() && near(rec.Normal.f64(), u, normalTol)) {
				norBad = true
				res.Violate("record-normal", "stl.WriteMesh", input,
					fmt.Sprintf("facet %d: corner normals %v %v %v, normalised mean %v, file stores %v", t, a, bb, cc, u, rec.Normal), wit)
			}
		} else {
			g, ok := geometricNormal(p32[0], p32[1], p32[2])
			switch {
			case rec.Normal.zero():
				res.Count("written_normals_zero", 1)
			case !ok:
				res.Count("normals_skipped_degenerate", 1)
			default:
				res.Count("written_normals_geometric", 1)
				if !norBad && !(rec.Normal.finite() && near(rec.Normal.f64(), g, normalTol)) {
					norBad = true
					res.Violate("record-normal", "stl.WriteMesh", input,
						fmt.Sprintf("facet %d: mesh stores no normals; file stores %v which is neither zero nor the geometric normal %v", t, rec.Normal, g), wit)
				}
			}
			if ok {
				want[t] = exp{g, 2}
			}
		}
	}

	// 4. stl.ReadMesh
	c.SaveInput(b)
	var back *modeling.Mesh
	rd := source(c, &res, b)
	c.Note("stl.ReadMesh from " + rd.Kind)
	p := run.Try(func() { back, err = stl.ReadMesh(rd.R) })
	rd.Close()
	if p != nil {
		res.Violate(panicClass(p), "stl.ReadMesh", "file written by stl.WriteMesh", p.Value+"\n"+p.Stack, wit)
		return
	}
	if err != nil || back == nil {
		res.Violate("read-error", "stl.ReadMesh", "file written by stl.WriteMesh", fmt.Sprintf("error %v (mesh nil: %v)", err, back == nil), wit)
		return
	}
	checkReadMesh(&res, *back, n, func(t, k int) refVec { return f.Records[t].V[k] }, func(t int) (v3, int) { return want[t].n, want[t].kind }, mm.nor != nil, "file written by stl.WriteMesh", wit)

	// 5. stl.Read against the independent parse, then stl.Write(stl.Read(b)) == b
	var bin *stl.Binary
	rd = source(c, &res, b)
	c.Note("stl.Read from " + rd.Kind)
	p = run.Try(func() { bin, err = stl.Read(rd.R) })
	rd.Close()
	if p != nil {
		res.Violate(panicClass(p), "stl.Read", "file written by stl.WriteMesh", p.Value+"\n"+p.Stack, wit)
		return
	}
	if err != nil || bin == nil {
		res.Violate("read-error", "stl.Read", "file written by stl.WriteMesh", fmt.Sprint(err), wit)
		return
	}
	if compareBinary(&res, bin, f, wit) {
		rewrite(c, &res, bin, b, wit)
	}
	return
}

// checkReadMesh compares a mesh returned by stl.ReadMesh with the n facets it must hold.
// pos(t,k) = expected float32 corner; nrm(t) = expected unit normal and its kind
// (0/3 not comparable, 1 must be reported, 2 geometric: compared only if a Normal attribute is reported).
func checkReadMesh(res *run.Result, back modeling.Mesh, n int, pos func(t, k int) refVec, nrm func(t int) (v3, int), mustReportNormals bool, input string, wit any) {
	if back.Topology() != modeling.TriangleTopology {
		res.Violate("topology", "stl.ReadMesh", input, fmt.Sprintf("result topology %v", back.Topology()), wit)
		return
	}
	if e := ref.WF(back); e != nil {
		res.Violate("ill-formed-result", "stl.ReadMesh", input, e.Error(), wit)
		return
	}
	if back.PrimitiveCount() != n {
		res.Violate("triangle-count", "stl.ReadMesh", input, fmt.Sprintf("file holds %d facets, stl.ReadMesh returned %d triangles", n, back.PrimitiveCount()), wit)
		return
	}
	if n == 0 {
		return
	}
	if !back.HasFloat3Attribute(modeling.PositionAttribute) {
		res.Violate("position-mismatch", "stl.ReadMesh", input, "result has triangles but no Position attribute", wit)
		return
	}
	idx := back.Indices()
	pa := back.Float3Attribute(modeling.PositionAttribute)
	for t := 0; t < n; t++ {
		for k := 0; k < 3; k++ {
			g := pa.At(idx.At(3*t + k))
			w := pos(t, k)
			if !(g.X() == float64(w[0]) && g.Y() == float64(w[1]) && g.Z() == float64(w[2])) {
				res.Violate("position-mismatch", "stl.ReadMesh", input,
					fmt.Sprintf("triangle %d corner %d: expected float32 position %v, got (%v, %v, %v)", t, k, w, g.X(), g.Y(), g.Z()), wit)
				return
			}
		}
	}
	res.Count("readmesh_corners_compared", int64(3*n))
	hasN := back.HasFloat3Attribute(modeling.NormalAttribute)
	if hasN {
		res.Count("readmesh_reports_normals", 1)
	} else {
		res.Count("readmesh_reports_no_normals", 1)
	}
	if !hasN {
		if mustReportNormals {
			need := 0
			for t := 0; t < n; t++ {
				if _, k := nrm(t); k == 1 {
					need++
				}
			}
			if need > 0 {
				res.Violate("normal-missing", "stl.ReadMesh", input,
					fmt.Sprintf("%d facets carry a defined stored normal but the mesh read back has no Normal attribute", need), wit)
			}
		}
		return
	}
	na := back.Float3Attribute(modeling.NormalAttribute)
	for t := 0; t < n; t++ {
		w, kind := nrm(t)
		if kind != 1 && kind != 2 {
			continue
		}
		for k := 0; k < 3; k++ {
			g := na.At(idx.At(3*t + k))
			gv := v3{g.X(), g.Y(), g.Z()}
			if !near(gv, w, normalTol) {
				what := "normalised mean of the corner normals"
				if kind == 2 {
					what = "geometric normal (no normal stored for this facet)"
				}
				res.Violate("normal-mismatch", "stl.ReadMesh", input,
					fmt.Sprintf("triangle %d corner %d: expected %s %v, got %v", t, k, what, w, gv), wit)
				return
			}
		}
		if kind == 2 {
			res.Count("geometric_normals_compared", 1)
		} else {
			res.Count("readmesh_stored_normals_compared", 1)
		}
	}
}

// --- phase bytes-rt ------------------------------------------------------------

var mixedArrangements = []string{"random", "zeros-first", "zeros-last", "zeros-middle", "zeros-both-ends", "alternating", "one-normal-last", "one-zero-first"}

var foreignNormalKinds = []string{"zero", "geometric", "unit-random", "nonunit", "mixed-zero"}

func f32vec(r *rand.Rand, class string) refVec {
	return refVec{float32(value(r, class)), float32(value(r, class)), float32(value(r, class))}
}

func unitF32(r *rand.Rand) refVec {
	for {
		d := v3{r.NormFloat64(), r.NormFloat64(), r.NormFloat64()}
		if u, ok := d.unit(); ok && d.len() > 1e-3 {
			return refVec{float32(u[0]), float32(u[1]), float32(u[2])}
		}
	}
}

// genFile draws a well-formed file model; forceN ≥ 0 fixes the number of records.
func genFile(r *rand.Rand, tier string, forceN int) (*refFile, map[string]any) {
	f := &refFile{Header: make([]byte, 80)}
	hk := []string{"zero", "random", "solid-text", "spaces", "color-tag"}[r.Intn(5)]
	switch hk {
	case "random":
		r.Read(f.Header)
	case "solid-text":
		copy(f.Header, fmt.Sprintf("solid part%d exported by tool", r.Intn(1000)))
	case "spaces":
		for i := range f.Header {
			f.Header[i] = ' '
		}
	case "color-tag":
		copy(f.Header, "COLOR=\xff\x80\x00\xff,MATERIAL=")
		r.Read(f.Header[40:])
	}
	var n int
	switch p := r.Intn(100); {
	case p < 8:
		n = 0
	case p < 45:
		n = 1 + r.Intn(6)
	case p < 85:
		n = 7 + r.Intn(60)
	default:
		n = 67 + r.Intn(234)
	}
	if tier == "thorough" && r.Intn(40) == 0 {
		n = 300 + r.Intn(2700)
	}
	if r.Intn(50) == 0 {
		n = boundarySizes[r.Intn(len(boundarySizes))]
	}
	if forceN >= 0 {
		n = forceN
	}
	class := valueClasses[r.Intn(len(valueClasses))]
	nk := foreignNormalKinds[r.Intn(len(foreignNormalKinds))]
	ak := []string{"zero", "random", "ffff", "mixed"}[r.Intn(4)]
	f.Records = make([]refRecord, n)
	// mixed-zero files: where the records WITHOUT a stored normal lie relative to those with one
	arr := ""
	var zeroAt func(i int) bool
	if nk == "mixed-zero" {
		arr = mixedArrangements[r.Intn(len(mixedArrangements))]
		if n < 3 && arr != "one-zero-first" && arr != "one-normal-last" {
			arr = "random"
		}
		k0, k1 := 1, 2
		if n >= 3 {
			k0 = 1 + r.Intn(n-2)
			k1 = k0 + 1 + r.Intn(n-k0-1)
		}
		par := r.Intn(2)
		switch arr {
		case "zeros-first":
			zeroAt = func(i int) bool { return i < k0 }
		case "zeros-last":
			zeroAt = func(i int) bool { return i >= k0 }
		case "zeros-middle":
			zeroAt = func(i int) bool { return i >= k0 && i < k1 }
		case "zeros-both-ends":
			zeroAt = func(i int) bool { return i < k0 || i >= k1 }
		case "alternating":
			zeroAt = func(i int) bool { return i%2 == par }
		case "one-normal-last":
			zeroAt = func(i int) bool { return i != n-1 }
		case "one-zero-first":
			zeroAt = func(i int) bool { return i == 0 }
		default:
			zeroAt = func(i int) bool { return r.Intn(3) == 0 }
		}
	}
	for i := range f.Records {
		rec := &f.Records[i]
		rec.V[0] = f32vec(r, class)
		rec.V[1] = f32vec(r, class)
		rec.V[2] = f32vec(r, class)
		switch r.Intn(12) {
		case 0:
			rec.V[2] = rec.V[r.Intn(2)] // degenerate: repeated corner
		case 1:
			if i > 0 {
				rec.V = f.Records[r.Intn(i)].V // repeated facet
			}
		}
		kind := nk
		if nk == "mixed-zero" {
			kind = []string{"geometric", "unit-random"}[r.Intn(2)]
			if zeroAt(i) {
				kind = "zero"
			}
		}
		switch kind {
		case "geometric":
			if g, ok := geometricNormal(rec.V[0], rec.V[1], rec.V[2]); ok {
				rec.Normal = refVec{float32(g[0]), float32(g[1]), float32(g[2])}
			}
		case "unit-random":
			rec.Normal = unitF32(r)
		case "nonunit":
			u := unitF32(r)
			s := float32(math.Pow(10, r.Float64()*4-2))
			rec.Normal = refVec{u[0] * s, u[1] * s, u[2] * s}
		}
		switch ak {
		case "random":
			rec.Attr = uint16(r.Intn(1 << 16))
		case "ffff":
			rec.Attr = 0xffff
		case "mixed":
			if r.Intn(2) == 0 {
				rec.Attr = uint16(1 + r.Intn(0xfffe))
			}
		}
	}
	f.Count = uint32(n)
	desc := map[string]any{"n": n, "header": hk, "class": class, "normals": nk, "attr": ak}
	if arr != "" {
		desc["mixed"] = arr
	}
	return f, desc
}

func bytesRT(c *run.Ctx) run.Result { return bytesRTn(c, -1) }

func bytesRTn(c *run.Ctx, forceN int) run.Result {
	res, _, _ := bytesRTcore(c, forceN)
	return res
}

// bytesRTcore is the bytes-rt case; it also returns the struct stl.Read produced and the
// input bytes (nil when the case failed).
func bytesRTcore(c *run.Ctx, forceN int) (run.Result, *stl.Binary, []byte) {
	res, bin, b := bytesRTinner(c, forceN)
	if len(res.Violations) > 0 {
		return res, nil, nil
	}
	return res, bin, b
}

func bytesRTinner(c *run.Ctx, forceN int) (res run.Result, bin *stl.Binary, b []byte) {
	f, desc := genFile(c.Rng, c.Tier, forceN)
	n := len(f.Records)
	b = encodeSTL(f)
	res.Sig = fmt.Sprintf("bytes/n%d/%s/%s/%s/%s", bucket(n), desc["normals"], desc["class"], desc["attr"], desc["header"])
	res.Sample = desc
	res.SetAdd("foreign_normal_kinds", desc["normals"].(string))
	res.SetAdd("foreign_header_kinds", desc["header"].(string))
	res.SetAdd("foreign_attr_kinds", desc["attr"].(string))
	if n == 0 {
		res.Count("zero_triangle_cases", 1)
	}
	anyAttr, anyNormal := false, false
	for _, rec := range f.Records {
		anyAttr = anyAttr || rec.Attr != 0
		anyNormal = anyNormal || !rec.Normal.zero()
	}
	res.Nontrivial = n >= 2 && (anyAttr || anyNormal)
	if a, ok := desc["mixed"].(string); ok {
		res.SetAdd("mixed_zero_arrangements", a)
	}
	if anyNormal {
		firstN, lastN := -1, -1
		for i, rec := range f.Records {
			if !rec.Normal.zero() {
				if firstN < 0 {
					firstN = i
				}
				lastN = i
			}
		}
		before, after, between := firstN, n-1-lastN, 0
		for i := firstN; i <= lastN; i++ {
			if f.Records[i].Normal.zero() {
				between++
			}
		}
		if before > 0 {
			res.Count("files_with_normal_less_records_before_the_first_normal", 1)
		}
		if after > 0 {
			res.Count("files_with_normal_less_records_after_the_last_normal", 1)
		}
		if between > 0 {
			res.Count("files_with_normal_less_records_between_normals", 1)
		}
	}
	wit := map[string]any{"desc": desc}
	if len(b) <= 84+50*12 {
		wit["bytes"] = b
	} else {
		wit["first_records"] = b[:84+50*4]
	}
	input := fmt.Sprintf("well-formed STL bytes, normals=%s attr=%s", desc["normals"], desc["attr"])
	c.SaveInput(b)

	// 1. stl.Read decodes what the reference parser decodes
	var err error
	rd := source(c, &res, b)
	c.Note(fmt.Sprintf("stl.Read n=%d from %s", n, rd.Kind))
	p := run.Try(func() { bin, err = stl.Read(rd.R) })
	rd.Close()
	input += ", reader " + rd.Kind
	if p != nil {
		res.Violate(panicClass(p), "stl.Read", input, p.Value+"\n"+p.Stack, wit)
		return
	}
	if err != nil || bin == nil {
		res.Violate("read-error", "stl.Read", input, fmt.Sprintf("well-formed file of %d bytes (n=%d) rejected: %v", len(b), n, err), wit)
		return
	}
	if !bytes.Equal(bin.Header[:], f.Header) {
		res.Violate("record-field-mismatch", "stl.Read", input, fmt.Sprintf("header: file % x, stl.Read % x", f.Header, bin.Header[:]), wit)
	}
	if compareBinary(&res, bin, f, wit) {
		// 2. stl.Write(stl.Read(b)) reproduces count + records
		rewrite(c, &res, bin, b, wit)
		res.Count("foreign_records_roundtripped", int64(n))
	}

	// 3. stl.WriteMesh(stl.ReadMesh(b))
	var back *modeling.Mesh
	rd = source(c, &res, b)
	c.Note("stl.ReadMesh from " + rd.Kind)
	p = run.Try(func() { back, err = stl.ReadMesh(rd.R) })
	rd.Close()
	if p != nil {
		res.Violate(panicClass(p), "stl.ReadMesh", input, p.Value+"\n"+p.Stack, wit)
		return
	}
	if err != nil || back == nil {
		res.Violate("read-error", "stl.ReadMesh", input, fmt.Sprint(err), wit)
		return
	}
	// expected normal per facet when read as a mesh
	type exp struct {
		n    v3
		kind int
		unit bool
	}
	want := make([]exp, n)
	for t, rec := range f.Records {
		if rec.Normal.zero() {
			if g, ok := geometricNormal(rec.V[0], rec.V[1], rec.V[2]); ok {
				want[t] = exp{g, 2, false}
			} else {
				res.Count("normals_skipped_degenerate", 1)
			}
			continue
		}
		nv := rec.Normal.f64()
		if math.Abs(nv.len()-1) <= 1e-6 {
			want[t] = exp{nv, 1, true} // a unit normal must be reported as it is stored
		} else {
			want[t] = exp{nv, 3, false} // non-unit stored normal: nothing is stated about it
		}
	}
	checkReadMesh(&res, *back, n, func(t, k int) refVec { return f.Records[t].V[k] },
		func(t int) (v3, int) { return want[t].n, want[t].kind }, anyNormal, input, wit)
	if len(res.Violations) > 0 {
		return
	}
	c.Note("stl.WriteMesh(stl.ReadMesh(b))")
	o, err, wp, _ := sinkWrite(c, &res, "", func(w io.Writer) error { return stl.WriteMesh(w, *back) })
	if wp != nil {
		res.Violate(panicClass(wp), "stl.WriteMesh(stl.ReadMesh)", input, wp.Value+"\n"+wp.Stack, wit)
		return
	}
	if err != nil {
		res.Violate("write-error", "stl.WriteMesh(stl.ReadMesh)", input, err.Error(), wit)
		return
	}
	if len(o) != 84+50*n {
		res.Violate("size-law", "stl.WriteMesh(stl.ReadMesh)", input, fmt.Sprintf("n=%d: expected %d bytes, got %d", n, 84+50*n, len(o)), wit)
		return
	}
	g, perr := parseSTL(o)
	if perr != nil || int(g.Count) != n {
		msg := fmt.Sprintf("count field %d, expected %d", g.Count, n)
		if perr != nil {
			msg = perr.Error()
		}
		res.Violate("count-field", "stl.WriteMesh(stl.ReadMesh)", input, msg, wit)
		return
	}
	for t := 0; t < n; t++ {
		in, ot := f.Records[t], g.Records[t]
		for k := 0; k < 3; k++ {
			if !vecBitsEq(in.V[k], ot.V[k]) && !(f32eq(in.V[k][0], ot.V[k][0]) && f32eq(in.V[k][1], ot.V[k][1]) && f32eq(in.V[k][2], ot.V[k][2])) {
				res.Violate("vertex-not-reproduced", "stl.WriteMesh(stl.ReadMesh)", input,
					fmt.Sprintf("record %d vertex %d: file %v, re-written %v", t, k+1, in.V[k], ot.V[k]), wit)
				return
			}
		}
		w := want[t]
		switch {
		case w.kind == 1 && w.unit:
			res.Count("unit_normals_reproduced_checked", 1)
			if !(ot.Normal.finite() && near(ot.Normal.f64(), w.n, normalTol)) {
				res.Violate("normal-not-reproduced", "stl.WriteMesh(stl.ReadMesh)", input,
					fmt.Sprintf("record %d: unit normal %v came back as %v", t, in.Normal, ot.Normal), wit)
				return
			}
		case w.kind == 3:
			res.Count("nonunit_normals_seen", 1)
		case w.kind == 2:
			// nothing stored: the re-written record may hold zero or the geometric normal
			if !ot.Normal.zero() && !(ot.Normal.finite() && near(ot.Normal.f64(), w.n, normalTol)) {
				res.Violate("normal-not-reproduced", "stl.WriteMesh(stl.ReadMesh)", input,
					fmt.Sprintf("record %d stores no normal: re-written normal %v is neither zero nor the geometric normal %v", t, ot.Normal, w.n), wit)
				return
			}
		}
	}
	res.Count("mesh_path_vertices_reproduced", int64(3*n))
	return
}

// --- phase large -----------------------------------------------------------------

// largeSizes: counts around typical batch / buffer sizes (1024·k, 4096, 8192, 16384,
// 65536 bytes or records); 0 stands for a random count in 20000…70000.
var largeSizes = []int{4095, 4096, 4097, 5000, 8191, 8192, 8193, 10000, 12289, 16385, 20000, 50000, 0}

func large(c *run.Ctx) run.Result {
	n := largeSizes[(c.Case/2)%len(largeSizes)]
	if n == 0 {
		n = 20000 + c.Rng.Intn(50001)
	}
	return largeN(c, n)
}

// stlBlockBases: triangle counts that fill a 4…64 KiB staging block exactly for the record sizes an STL
// codec may batch by: the 50-byte record, 48 bytes of floats, 36 bytes of corners, 12-byte vectors, 4-byte floats.
var stlBlockBases = gen.BlockBases(6000, 50, 48, 36, 12, 4)

// blockMultiples (round 7): the large-phase oracle on exactly k·base triangles, k = 1…3 (thorough …8).
func blockMultiples(c *run.Ctx) run.Result {
	i := c.Case / 2
	n := stlBlockBases[i%len(stlBlockBases)] * (1 + i/len(stlBlockBases))
	res := largeN(c, n)
	res.SetAdd("block_multiple_sizes", fmt.Sprint(n))
	return res
}

func largeN(c *run.Ctx, n int) run.Result {
	var res run.Result
	var write func(w io.Writer) error
	var good []byte
	site := ""
	if c.Case%2 == 0 {
		r, m, b := meshRTcore(c, n)
		res, good, site = r, b, "stl.WriteMesh"
		write = func(w io.Writer) error { return stl.WriteMesh(w, m) }
		res.SetAdd("large_directions", "mesh→WriteMesh→Read/ReadMesh")
	} else {
		r, bin, b := bytesRTcore(c, n)
		res, good, site = r, b, "stl.Write"
		if bin != nil {
			write = func(w io.Writer) error { return stl.Write(w, *bin) }
		}
		res.SetAdd("large_directions", "bytes→Read→Write")
	}
	res.Sig = "large/" + res.Sig
	res.SetAdd("large_sizes", fmt.Sprint(n))
	if len(res.Violations) > 0 || good == nil || write == nil {
		return res
	}
	res.Count("large_records_compared", int64(n))
	// The same output once more into every kind of slow / piecewise sink: count field and
	// records must be byte for byte those of the output verified above, in order.
	for _, kind := range gen.SlowSinkKinds {
		c.Note(fmt.Sprintf("%s n=%d into sink %s", site, n, kind))
		out, err, p, sk := sinkWrite(c, &res, kind, write)
		input := fmt.Sprintf("n=%d triangles, sink %s", n, sk)
		wit := map[string]any{"n": n, "sink": sk}
		switch {
		case p != nil:
			res.Violate(panicClass(p), site+" (slow or piecewise sink)", input, p.Value+"\n"+p.Stack, wit)
		case err != nil:
			res.Violate("write-error", site+" (slow or piecewise sink)", input, err.Error(), wit)
		case len(out) != len(good):
			res.Violate("size-law", site+" (slow or piecewise sink)", input, fmt.Sprintf("expected %d bytes (84+50·%d), the sink received %d", len(good), n, len(out)), wit)
		case !bytes.Equal(out[80:], good[80:]):
			k := 80
			for out[k] == good[k] {
				k++
			}
			if k < 84 {
				res.Violate("count-field", site+" (slow or piecewise sink)", input, fmt.Sprintf("count field % x, expected % x", out[80:84], good[80:84]), wit)
				break
			}
			rec, off := (k-84)/50, (k-84)%50
			bad := 0
			for q := 0; q < n; q++ {
				if !bytes.Equal(out[84+50*q:134+50*q], good[84+50*q:134+50*q]) {
					bad++
				}
			}
			lo := 84 + 50*rec
			res.Violate("records-differ-by-sink", site+" (slow or piecewise sink)", input,
				fmt.Sprintf("%d of %d records differ from the output written to a plain buffer (which the record parser verified); first: record %d, byte %d (%s)\nexpected % x\nreceived % x",
					bad, n, rec, off, fieldAt(off), good[lo:lo+50], out[lo:lo+50]), wit)
		default:
			res.Count("large_sink_outputs_identical", 1)
		}
	}
	return res
}
