package c07

// Independent reader/writer of the binary STL container, written from the format
// definition (80-byte header, little-endian uint32 facet count, then per facet
// 12 little-endian IEEE-754 float32 — normal, vertex 1, vertex 2, vertex 3 — and
// a 16-bit "attribute byte count"). Shares nothing with /repo/formats/stl and
// does not use encoding/binary.

import (
	"fmt"
	"math"
)

type refVec [3]float32

type refRecord struct {
	Normal refVec
	V      [3]refVec
	Attr   uint16
}

type refFile struct {
	Header  []byte // 80 bytes
	Count   uint32 // the count field as stored
	Records []refRecord
}

func leU32(b []byte) uint32 {
	return uint32(b[0]) | uint32(b[1])<<8 | uint32(b[2])<<16 | uint32(b[3])<<24
}

func leF32(b []byte) float32 { return math.Float32frombits(leU32(b)) }

// parseSTL decodes a byte string that is claimed to be one binary STL file.
// It reports structural problems instead of guessing.
func parseSTL(b []byte) (*refFile, error) {
	if len(b) < 84 {
		return nil, fmt.Errorf("file has %d bytes, a binary STL needs at least 84 (80 header + 4 count)", len(b))
	}
	f := &refFile{Header: append([]byte(nil), b[:80]...), Count: leU32(b[80:84])}
	body := b[84:]
	if uint64(len(body)) != uint64(f.Count)*50 {
		return f, fmt.Errorf("count field says %d facets (= %d body bytes) but %d body bytes follow the count", f.Count, uint64(f.Count)*50, len(body))
	}
	f.Records = make([]refRecord, f.Count)
	for i := range f.Records {
		r := body[i*50 : i*50+50]
		rec := &f.Records[i]
		for k := 0; k < 3; k++ {
			rec.Normal[k] = leF32(r[4*k:])
		}
		for v := 0; v < 3; v++ {
			for k := 0; k < 3; k++ {
				rec.V[v][k] = leF32(r[12+12*v+4*k:])
			}
		}
		rec.Attr = uint16(r[48]) | uint16(r[49])<<8
	}
	return f, nil
}

func putU32(b []byte, v uint32) {
	b[0], b[1], b[2], b[3] = byte(v), byte(v>>8), byte(v>>16), byte(v>>24)
}

// encodeSTL is the reference encoder used to build "foreign" well-formed files.
func encodeSTL(f *refFile) []byte {
	out := make([]byte, 84+50*len(f.Records))
	copy(out[:80], f.Header)
	putU32(out[80:], uint32(len(f.Records)))
	for i, rec := range f.Records {
		r := out[84+i*50:]
		for k := 0; k < 3; k++ {
			putU32(r[4*k:], math.Float32bits(rec.Normal[k]))
		}
		for v := 0; v < 3; v++ {
			for k := 0; k < 3; k++ {
				putU32(r[12+12*v+4*k:], math.Float32bits(rec.V[v][k]))
			}
		}
		r[48], r[49] = byte(rec.Attr), byte(rec.Attr>>8)
	}
	return out
}

// --- small float64 vector helpers (reference maths) --------------------------

type v3 [3]float64

func (a v3) sub(b v3) v3        { return v3{a[0] - b[0], a[1] - b[1], a[2] - b[2]} }
func (a v3) add(b v3) v3        { return v3{a[0] + b[0], a[1] + b[1], a[2] + b[2]} }
func (a v3) scale(s float64) v3 { return v3{a[0] * s, a[1] * s, a[2] * s} }
func (a v3) dot(b v3) float64   { return a[0]*b[0] + a[1]*b[1] + a[2]*b[2] }
func (a v3) cross(b v3) v3 {
	return v3{a[1]*b[2] - a[2]*b[1], a[2]*b[0] - a[0]*b[2], a[0]*b[1] - a[1]*b[0]}
}
func (a v3) len() float64 { return math.Sqrt(a.dot(a)) }
func (a v3) maxAbs() float64 {
	return math.Max(math.Abs(a[0]), math.Max(math.Abs(a[1]), math.Abs(a[2])))
}

// unit returns a/|a| computed with pre-scaling so that very large or very small
// vectors neither overflow nor underflow; ok=false when a is the zero vector or
// not finite.
func (a v3) unit() (v3, bool) {
	m := a.maxAbs()
	if m == 0 || math.IsInf(m, 0) || m != m {
		return v3{}, false
	}
	s := a.scale(1 / m)
	l := s.len()
	return s.scale(1 / l), true
}

func (r refVec) f64() v3    { return v3{float64(r[0]), float64(r[1]), float64(r[2])} }
func (r refVec) zero() bool { return r[0] == 0 && r[1] == 0 && r[2] == 0 }
func (r refVec) finite() bool {
	for _, c := range r {
		if c != c || math.IsInf(float64(c), 0) {
			return false
		}
	}
	return true
}

// geometricNormal is the unit normal (v2-v1)x(v3-v1) of a facet given by float32
// corners. ok=false when the facet is (numerically) degenerate: the sine of the
// angle between the two edges is below 1e-6, so that the direction is not
// defined to the comparison tolerance.
func geometricNormal(a, b, c refVec) (v3, bool) {
	e1, e2 := b.f64().sub(a.f64()), c.f64().sub(a.f64())
	m1, m2 := e1.maxAbs(), e2.maxAbs()
	if m1 == 0 || m2 == 0 {
		return v3{}, false
	}
	u1, u2 := e1.scale(1/m1), e2.scale(1/m2)
	cr := u1.cross(u2)
	if cr.len() <= 1e-6*u1.len()*u2.len() {
		return v3{}, false
	}
	return cr.unit()
}

// near compares two unit vectors component-wise.
func near(a, b v3, tol float64) bool {
	for k := 0; k < 3; k++ {
		if !(math.Abs(a[k]-b[k]) <= tol) {
			return false
		}
	}
	return true
}
