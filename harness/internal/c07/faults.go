package c07

import (
	"errors"
	"fmt"
	"io"
	"strings"

	"github.com/EliCDavis/polyform/formats/stl"

	"polyverif/internal/run"
)

// --- phase fault-sequences ----------------------------------------------------------
//
// One case = a short history (3–8 operations, one goroutine) that interleaves
// operations on GOOD writers / readers with operations on FAILING ones:
//
//	Gm  a fresh mesh through the complete mesh-rt oracle (size law, independent record
//	    parser, stl.ReadMesh, stl.Read, stl.Write(stl.Read(b)) == b)
//	Gb  a fresh reference-encoded file through the complete bytes-rt oracle
//	Fw  stl.WriteMesh of a fresh mesh, or stl.Write of a fresh record set, to a writer
//	    that fails for good after k bytes: k inside the header, the count field, the
//	    first record, the middle of the records, or the very last byte
//	Fr  stl.Read / stl.ReadMesh from a reader that fails after k bytes of a well-formed file
//
// Oracle: a write to a failing writer and a read from a failing reader must report an
// error (and must not panic); every good operation must satisfy its complete ordinary
// oracle whatever failed before it (no state may leak from a failed call into a later one).

var errInjected = errors.New("injected I/O failure")

type failWriter struct {
	limit   int
	partial bool
	n       int
	failed  bool
	calls   int
}

func (w *failWriter) Write(p []byte) (int, error) {
	w.calls++
	if w.failed {
		return 0, errInjected
	}
	room := w.limit - w.n
	if len(p) <= room {
		w.n += len(p)
		return len(p), nil
	}
	w.failed = true
	if w.partial {
		w.n += room
		return room, errInjected
	}
	return 0, errInjected
}

type failReader struct {
	data     []byte
	limit    int
	chunk    int
	withData bool
	err      error
	pos      int
}

func (r *failReader) Read(p []byte) (int, error) {
	if r.pos >= r.limit {
		return 0, r.err
	}
	n := len(p)
	if n > r.chunk {
		n = r.chunk
	}
	if n > r.limit-r.pos {
		n = r.limit - r.pos
	}
	copy(p, r.data[r.pos:r.pos+n])
	r.pos += n
	if r.pos >= r.limit && r.withData {
		return n, r.err
	}
	return n, nil
}

func merge(dst *run.Result, src run.Result, step string) {
	for k, v := range src.Counters {
		dst.Count(k, v)
	}
	for k, els := range src.Sets {
		for _, e := range els {
			dst.SetAdd(k, e)
		}
	}
	for _, v := range src.Violations {
		dst.Violate(v.Class, v.Site, step+": "+v.Input, v.Detail, v.Witness)
	}
	if src.Inconclusive != "" && dst.Inconclusive == "" {
		dst.Inconclusive = step + ": " + src.Inconclusive
	}
}

// faultSize: mostly small record counts, sometimes enough records for several
// buffers of a few KB.
func faultSize(c *run.Ctx) int {
	switch p := c.Rng.Intn(10); {
	case p == 0:
		return 0
	case p < 6:
		return 1 + c.Rng.Intn(12)
	case p < 9:
		return 13 + c.Rng.Intn(100)
	}
	return 113 + c.Rng.Intn(500)
}

// faultAt draws the number of bytes after which a stream of 84+50n bytes fails.
func faultAt(c *run.Ctx, n int) (k int, where string) {
	total := 84 + 50*n
	opts := []string{"header", "count", "last-byte"}
	if n > 0 {
		opts = append(opts, "first-record", "first-record")
	}
	if n > 1 {
		opts = append(opts, "mid-records", "mid-records", "mid-records", "record-boundary")
	}
	where = opts[c.Rng.Intn(len(opts))]
	switch where {
	case "header":
		k = c.Rng.Intn(80)
	case "count":
		k = 80 + c.Rng.Intn(4)
	case "first-record":
		k = 84 + c.Rng.Intn(50)
	case "mid-records":
		k = 134 + c.Rng.Intn(total-134-1)
	case "record-boundary":
		k = 84 + 50*(1+c.Rng.Intn(n-1))
	case "last-byte":
		k = total - 1
	}
	return k, where
}

func faultSequences(c *run.Ctx) run.Result {
	var res run.Result
	r := c.Rng
	L := 3 + r.Intn(6)
	ops := make([]string, L)
	fkinds := []string{"Fw", "Fw", "Fw", "Fr"}
	gkinds := []string{"Gm", "Gm", "Gb"}
	for i := range ops {
		if r.Intn(2) == 0 {
			ops[i] = fkinds[r.Intn(len(fkinds))]
		} else {
			ops[i] = gkinds[r.Intn(len(gkinds))]
		}
	}
	ops[L-1] = gkinds[r.Intn(len(gkinds))]
	ops[r.Intn(L-1)] = fkinds[r.Intn(len(fkinds))]
	if r.Intn(2) == 0 {
		ops[L-2] = "Fw" // a failing write right before the last good operation
	}
	var codes []string
	pendingBodyFault, bodyFaultBeforeGood := false, false
	for i, op := range ops {
		step := fmt.Sprintf("step %d/%d %s of history %v", i+1, L, op, ops)
		switch op {
		case "Gm", "Gb":
			var sub run.Result
			if op == "Gm" {
				sub = meshRTn(c, faultSize(c))
			} else {
				sub = bytesRTn(c, faultSize(c))
			}
			merge(&res, sub, step)
			codes = append(codes, op)
			res.Count("good_ops_in_histories", 1)
			if pendingBodyFault {
				bodyFaultBeforeGood = true
				res.Count("good_ops_after_a_failure_in_the_records", 1)
			}
		case "Fw":
			where := failingWrite(c, &res, step)
			codes = append(codes, "Fw:"+where)
			if where != "header" && where != "count" {
				pendingBodyFault = true
			}
		case "Fr":
			where := failingRead(c, &res, step)
			codes = append(codes, "Fr:"+where)
			if where != "header" && where != "count" {
				pendingBodyFault = true
			}
		}
	}
	res.Sig = "fault/" + strings.Join(codes, ",")
	res.Nontrivial = bodyFaultBeforeGood
	res.Sample = map[string]any{"history": codes}
	res.Count("fault_histories", 1)
	return res
}

func toBinary(f *refFile) stl.Binary {
	var b stl.Binary
	copy(b.Header[:], f.Header)
	b.Triangles = make([]stl.Triangle, len(f.Records))
	for i, rec := range f.Records {
		v := func(a refVec) stl.Vec { return stl.Vec{X: a[0], Y: a[1], Z: a[2]} }
		b.Triangles[i] = stl.Triangle{Normal: v(rec.Normal), Vertex1: v(rec.V[0]), Vertex2: v(rec.V[1]), Vertex3: v(rec.V[2]), Attribute: rec.Attr}
	}
	return b
}

func failingWrite(c *run.Ctx, res *run.Result, step string) string {
	n := faultSize(c)
	site := "stl.WriteMesh"
	var write func(w io.Writer) error
	wit := map[string]any{"step": step, "n": n}
	if c.Rng.Intn(3) == 0 {
		site = "stl.Write"
		f, desc := genFile(c.Rng, c.Tier, n)
		bin := toBinary(f)
		wit["file"] = desc
		write = func(w io.Writer) error { return stl.Write(w, bin) }
	} else {
		m, mm := genMesh(c.Rng, c.Tier, n)
		wit["mesh"] = meshWitness(mm)
		write = func(w io.Writer) error { return stl.WriteMesh(w, m) }
	}
	k, where := faultAt(c, n)
	fw := &failWriter{limit: k, partial: c.Rng.Intn(2) == 0}
	mode := "refuse"
	if fw.partial {
		mode = "partial"
	}
	wit["fails_after_bytes"], wit["of_bytes"], wit["fault_in"], wit["mode"] = k, 84+50*n, where, mode
	c.Note(fmt.Sprintf("%s n=%d to a writer failing after %d of %d bytes (%s, %s)", site, n, k, 84+50*n, where, mode))
	var err error
	p := run.Try(func() { err = write(fw) })
	res.SetAdd("write_fault_positions", where)
	res.SetAdd("write_fault_modes", mode)
	res.SetAdd("write_fault_sites", site)
	switch {
	case p != nil:
		res.Violate(panicClass(p), site+" (failing writer)", step, p.Value+"\n"+p.Stack, wit)
	case err == nil:
		res.Count("failed_writes_not_reported_as_error(evidence only)", 1) // no property demands that a failed write is reported: evidence only, never a verdict
	default:
		res.Count("failed_writes_reported", 1)
	}
	return where
}

func failingRead(c *run.Ctx, res *run.Result, step string) string {
	n := faultSize(c)
	f, desc := genFile(c.Rng, c.Tier, n)
	b := encodeSTL(f)
	k, where := faultAt(c, n)
	errs := []error{errInjected, io.ErrUnexpectedEOF, io.EOF, io.ErrClosedPipe}
	fr := &failReader{data: b, limit: k, chunk: 1 + c.Rng.Intn(300), withData: c.Rng.Intn(2) == 0, err: errs[c.Rng.Intn(len(errs))]}
	site := "stl.Read"
	if c.Rng.Intn(2) == 0 {
		site = "stl.ReadMesh"
	}
	wit := map[string]any{"step": step, "file": desc, "fails_after_bytes": k, "of_bytes": len(b), "fault_in": where, "error": fr.err.Error(), "with_data": fr.withData}
	c.Note(fmt.Sprintf("%s from a reader failing after %d of %d bytes (%s)", site, k, len(b), where))
	var err error
	p := run.Try(func() {
		if site == "stl.Read" {
			_, err = stl.Read(fr)
		} else {
			_, err = stl.ReadMesh(fr)
		}
	})
	res.SetAdd("read_fault_positions", where)
	res.SetAdd("read_fault_errors", fr.err.Error())
	switch {
	case p != nil:
		res.Violate(panicClass(p), site+" (failing reader)", step, p.Value+"\n"+p.Stack, wit)
	case err == nil:
		res.Violate("read-error-not-reported", site+" (failing reader)", step,
			fmt.Sprintf("the reader failed with %q after %d of the %d bytes of an n=%d file (%s) but %s returned no error", fr.err, k, len(b), n, where, site), wit)
	default:
		res.Count("failed_reads_reported", 1)
	}
	return where
}
