package c04

import (
	"fmt"
	"math/rand"
	"strconv"
	"strings"

	"github.com/EliCDavis/polyform/modeling"
)

// --- wide ASCII rows ------------------------------------------------------------------
//
// A sub-population of the roundtrip phase: meshes whose ASCII vertex rows have a
// chosen width around the buffer sizes a line reader is likely to use (4096: bufio's
// default; 8192; 16 KiB; 64 KiB: bufio.Scanner's token limit), obtained in two ways:
// many user-named scalar attributes with short number texts, or fewer attributes
// whose values have very long decimal expansions (magnitudes down to 1e-295: the
// writer prints them with 'f' formatting, ≈300 characters each).

// includeRowsOver64KiB admits ASCII rows wider than bufio.Scanner's 64 KiB token limit.
// On the current tree ply.ReadMesh rejects such files ("bufio.Scanner: token too long")
// although ply.Write produced them and both binary encodings round-trip: reported as a
// finding by the author of this monitor, not listed in known_findings.json. With the
// switch on, exactly that behaviour is reported as class "ascii-row-over-64KiB".
const includeRowsOver64KiB = true

const scannerLimit = 64 * 1024

type wideSpec struct {
	Label  string
	Widths []int  // per vertex row: bytes of the row without its line terminator
	Mode   string // many | long | mixed
}

func rangeWidths(lo, hi int) []int {
	var w []int
	for x := lo; x <= hi; x++ {
		w = append(w, x)
	}
	return w
}

func wideTarget(r *rand.Rand, tier string, k int) wideSpec {
	var ws wideSpec
	labels := []string{"4000-4200", "4090-4100", "8190-8200", "16KiB", "below-64KiB", "4090-4100", "8190-8200"}
	if includeRowsOver64KiB {
		labels = append(labels, "64KiB±", "70KiB")
	}
	ws.Label = labels[k%len(labels)]
	switch ws.Label {
	case "4000-4200":
		for i := 0; i < 10; i++ {
			ws.Widths = append(ws.Widths, 4000+r.Intn(201))
		}
	case "4090-4100":
		ws.Widths = rangeWidths(4090, 4100)
	case "8190-8200":
		ws.Widths = rangeWidths(8186, 8200)
	case "16KiB":
		ws.Widths = rangeWidths(16380, 16388)
	case "below-64KiB":
		// the widest rows the current reader takes: a row and its terminator fit the Scanner's buffer
		ws.Widths = []int{60000 + r.Intn(5000), scannerLimit - 40, scannerLimit - 3, scannerLimit - 2}
	case "64KiB±":
		ws.Widths = rangeWidths(scannerLimit-3, scannerLimit+3)
	case "70KiB":
		ws.Widths = []int{70 * 1024, 70*1024 + 1 + r.Intn(100), 66000 + r.Intn(3000)}
	}
	r.Shuffle(len(ws.Widths), func(i, j int) { ws.Widths[i], ws.Widths[j] = ws.Widths[j], ws.Widths[i] })
	ws.Mode = []string{"many", "long", "mixed"}[r.Intn(3)]
	if ws.Widths[0] > 20000 && ws.Mode == "many" {
		// 6 500 attributes per mesh: the reader's UpdateMesh copies the attribute table once per
		// attribute (quadratic; it terminates, but not inside the per-case CPU budget under load)
		ws.Mode = "mixed"
	}
	return ws
}

func digits(r *rand.Rand, n int) string {
	b := make([]byte, n)
	for i := range b {
		b[i] = byte('0' + r.Intn(10))
	}
	b[0] = byte('1' + r.Intn(9))
	b[n-1] = byte('1' + r.Intn(9))
	return string(b)
}

// numberOfWidth returns a finite value that the 'f' formatter of shortest
// round-trip precision prints with exactly w characters (w ≥ 3).
func numberOfWidth(r *rand.Rand, w int) float64 {
	for try := 0; try < 50; try++ {
		rem, sign := w, ""
		if rem >= 4 && r.Intn(2) == 0 {
			sign, rem = "-", rem-1
		}
		var text string
		if rem <= 17 {
			text = "0." + digits(r, rem-2)
		} else {
			nd := 1 + r.Intn(15)
			zeros := rem - 2 - nd
			for zeros > 295 {
				nd, zeros = nd+1, zeros-1
			}
			text = "0." + strings.Repeat("0", zeros) + digits(r, nd)
		}
		text = sign + text
		v, err := strconv.ParseFloat(text, 64)
		if err == nil && strconv.FormatFloat(v, 'f', -1, 64) == text {
			return v
		}
	}
	panic(fmt.Sprintf("harness: no number of text width %d", w))
}

const maxShort, maxLong = 17, 310

// wideAttrs builds the attributes: per row the texts of all columns plus the single
// blanks between them add up to the row's target width.
func wideAttrs(r *rand.Rand, ws wideSpec) []attrib {
	n := len(ws.Widths)
	maxW, minW := 0, 1<<30
	for _, w := range ws.Widths {
		if w > maxW {
			maxW = w
		}
		if w < minW {
			minW = w
		}
	}
	// column kinds: short (3..17 characters, typically 10) or long (18..310, typically 164);
	// columns are added until their typical widths fill the widest row
	var long []bool
	typ, floorSum := 0, 0
	for typ+len(long)-1 < maxW {
		isLong := ws.Mode == "long" || (ws.Mode == "mixed" && r.Intn(4) == 0)
		long = append(long, isLong)
		if isLong {
			typ, floorSum = typ+164, floorSum+18
		} else {
			typ, floorSum = typ+10, floorSum+3
		}
	}
	if floorSum+len(long)-1 > minW {
		panic(fmt.Sprintf("harness: rows of %d..%d bytes do not fit one column set", minW, maxW))
	}
	nc := len(long)
	withPos := nc >= 3 && r.Intn(2) == 0
	data := make([][]float64, nc) // column-major
	for j := range data {
		data[j] = make([]float64, n)
	}
	for i, W := range ws.Widths {
		S := W - (nc - 1) // characters of the number texts
		w := make([]int, nc)
		lo := func(j int) int {
			if long[j] {
				return 18
			}
			return 3
		}
		hi := func(j int) int {
			if long[j] {
				return maxLong
			}
			return maxShort
		}
		sum := 0
		for j := range w {
			w[j] = lo(j) + r.Intn(hi(j)-lo(j)+1)
			sum += w[j]
		}
		// move towards S
		for guard := 0; sum != S && guard < 1<<22; guard++ {
			j := r.Intn(nc)
			if sum < S && w[j] < hi(j) {
				d := S - sum
				if d > hi(j)-w[j] {
					d = hi(j) - w[j]
				}
				d = 1 + r.Intn(d)
				w[j], sum = w[j]+d, sum+d
			} else if sum > S && w[j] > lo(j) {
				d := sum - S
				if d > w[j]-lo(j) {
					d = w[j] - lo(j)
				}
				d = 1 + r.Intn(d)
				w[j], sum = w[j]-d, sum-d
			}
		}
		if sum != S {
			panic(fmt.Sprintf("harness: cannot reach row width %d with %d columns", W, nc))
		}
		for j := range w {
			data[j][i] = numberOfWidth(r, w[j])
		}
	}
	var attrs []attrib
	j0 := 0
	if withPos {
		a := attrib{Name: modeling.PositionAttribute, Arity: 3, Class: "wide-text", Data: make([][]float64, n)}
		for i := range a.Data {
			a.Data[i] = []float64{data[0][i], data[1][i], data[2][i]}
		}
		attrs = append(attrs, a)
		j0 = 3
	}
	for j := j0; j < nc; j++ {
		a := attrib{Name: fmt.Sprintf("w%04d", j), Arity: 1, Class: "wide-text", Data: make([][]float64, n)}
		for i := range a.Data {
			a.Data[i] = []float64{data[j][i]}
		}
		attrs = append(attrs, a)
	}
	return attrs
}

// wideConfig: everything is written (the row width depends on it): the default writer,
// or a custom one with write-unspecified on and explicit Float / Double writers for a
// part of the attributes.
func wideConfig(r *rand.Rand, mc *meshCase) config {
	if r.Intn(2) == 0 {
		return config{Kind: "default", Writers: defaultWriters, Unspecified: true}
	}
	cfg := config{Kind: "custom", Unspecified: true}
	for _, a := range mc.Attrs {
		if r.Intn(5) != 0 {
			continue
		}
		w := wspec{Attr: a.Name, Arity: a.Arity, Ptr: r.Intn(2) == 0, Type: []string{"float", "double"}[r.Intn(2)]}
		if a.Arity == 3 {
			w.Names = []string{"x", "y", "z"}
		} else {
			w.Names = []string{a.Name}
		}
		cfg.Writers = append(cfg.Writers, w)
	}
	r.Shuffle(len(cfg.Writers), func(i, j int) { cfg.Writers[i], cfg.Writers[j] = cfg.Writers[j], cfg.Writers[i] })
	return cfg
}

// rowWidthLabel names the width of an ASCII row (bytes without the terminator) for the evidence.
func rowWidthLabel(L int) string {
	for _, b := range []int{4096, 8192, 16384, scannerLimit} {
		if L >= b-8 && L <= b+8 {
			return fmt.Sprintf("%d%+d", b, L-b)
		}
	}
	switch {
	case L < 1000:
		return "<1000"
	case L < 4000:
		return "1000-3999"
	case L <= 4200:
		return "4000-4200"
	case L < 8192:
		return "4201-8191"
	case L < 16384:
		return "8K-16K"
	case L < 60000:
		return "16K-60000"
	case L < scannerLimit:
		return "60000-64K"
	case L < 70*1024:
		return "64K-70K"
	}
	return ">=70K"
}
