package plyfile

import (
	"bufio"
	"bytes"
	"fmt"
	"io"
	"math/rand"
	"os"
	"path/filepath"
	"testing/iotest"
)

// SourceKinds are the kinds of io.Reader a caller may hand to a PLY reader. What
// a file decodes to must not depend on the kind: some implement io.ByteReader /
// io.Seeker (bytes.Reader, bytes.Buffer, bufio.Reader), the others are plain
// streams that deliver the same bytes in other portions (files, pipes, limited,
// one-byte, half, data-with-EOF readers).
var SourceKinds = []string{
	"*bytes.Reader", "*bytes.Buffer", "*bufio.Reader", "struct{io.Reader}", "iotest.OneByteReader",
	"iotest.HalfReader", "iotest.DataErrReader", "io.LimitReader", "*os.File", "io.Pipe",
}

// PickSource draws a kind.
func PickSource(r *rand.Rand) string { return SourceKinds[r.Intn(len(SourceKinds))] }

type plain struct{ io.Reader }

// Source opens data as a reader of the given kind. dir is a scratch directory
// for the file kind. done must be called when the consumer has finished (also
// after a failure): it closes files, unblocks and joins the pipe writer.
func Source(kind string, data []byte, dir string, tag string) (src io.Reader, done func(), err error) {
	done = func() {}
	switch kind {
	case "*bytes.Reader":
		return bytes.NewReader(data), done, nil
	case "*bytes.Buffer":
		return bytes.NewBuffer(append([]byte{}, data...)), done, nil
	case "*bufio.Reader":
		return bufio.NewReaderSize(bytes.NewReader(data), 512), done, nil
	case "struct{io.Reader}":
		return plain{bytes.NewReader(data)}, done, nil
	case "iotest.OneByteReader":
		return iotest.OneByteReader(bytes.NewReader(data)), done, nil
	case "iotest.HalfReader":
		return iotest.HalfReader(bytes.NewReader(data)), done, nil
	case "iotest.DataErrReader":
		return iotest.DataErrReader(bytes.NewReader(data)), done, nil
	case "io.LimitReader":
		return io.LimitReader(plain{bytes.NewReader(data)}, int64(len(data))), done, nil
	case "*os.File":
		p := filepath.Join(dir, "src-"+tag+".ply")
		if err := os.WriteFile(p, data, 0o600); err != nil {
			return nil, done, err
		}
		f, err := os.Open(p)
		if err != nil {
			os.Remove(p)
			return nil, done, err
		}
		return f, func() { f.Close(); os.Remove(p) }, nil
	case "io.Pipe":
		pr, pw := io.Pipe()
		fin := make(chan struct{})
		go func() {
			defer close(fin)
			// portions of uneven size, like a network stream
			rest := data
			n := 7
			for len(rest) > 0 {
				k := n
				if k > len(rest) {
					k = len(rest)
				}
				if _, err := pw.Write(rest[:k]); err != nil {
					return // reader side closed
				}
				rest = rest[k:]
				n = n*3 + 1
				if n > 1<<16 {
					n = 1 << 16
				}
			}
			pw.Close()
		}()
		return pr, func() { pr.Close(); <-fin }, nil
	}
	return nil, done, fmt.Errorf("harness: unknown source kind %q", kind)
}
