// Package plyfile is an independent reader of the PLY container, written from
// the format description (Greg Turk, "The PLY Polygon File Format"): a header of
// text lines
//
//	ply
//	format <ascii|binary_little_endian|binary_big_endian> 1.0
//	comment … / obj_info …
//	element <name> <count>
//	property <type> <name>
//	property list <count-type> <item-type> <name>
//	end_header
//
// followed by the elements in header order, each record holding its properties
// in header order; ascii = one record per line, white-space separated numbers,
// a list is its count followed by its items; binary = the same numbers in the
// declared machine types without padding.
//
// It shares no code with polyform's formats/ply. It is deliberately strict: it
// is used to decide whether a header describes the body that follows.
package plyfile

import (
	"encoding/binary"
	"fmt"
	"math"
	"strconv"
	"strings"
)

// canonical type names and their aliases
var canon = map[string]string{
	"char": "char", "int8": "char",
	"uchar": "uchar", "uint8": "uchar",
	"short": "short", "int16": "short",
	"ushort": "ushort", "uint16": "ushort",
	"int": "int", "int32": "int",
	"uint": "uint", "uint32": "uint",
	"float": "float", "float32": "float",
	"double": "double", "float64": "double",
}

// Size is the number of bytes of a canonical scalar type in the binary encodings.
func Size(t string) int {
	switch t {
	case "char", "uchar":
		return 1
	case "short", "ushort":
		return 2
	case "int", "uint", "float":
		return 4
	case "double":
		return 8
	}
	return 0
}

func isIntType(t string) bool { return t != "float" && t != "double" }

type Prop struct {
	Name      string
	List      bool
	Type      string // canonical item / scalar type
	CountType string // canonical, lists only
	Spelled   string // the type token as written
}

type Element struct {
	Name  string
	Count int
	Props []Prop
}

// RecordSize is the fixed binary size of a record, or -1 when the element has a list.
func (e Element) RecordSize() int {
	s := 0
	for _, p := range e.Props {
		if p.List {
			return -1
		}
		s += Size(p.Type)
	}
	return s
}

type Header struct {
	Format     string // ascii | binary_little_endian | binary_big_endian
	Elements   []Element
	Comments   []string
	ObjInfo    []string
	BodyOffset int // index of the first body byte
	CRLF       bool
}

func (h *Header) Element(name string) *Element {
	for i := range h.Elements {
		if h.Elements[i].Name == name {
			return &h.Elements[i]
		}
	}
	return nil
}

// ParseHeader reads the header of data.
func ParseHeader(data []byte) (*Header, error) {
	h := &Header{}
	pos := 0
	line := func() (string, bool) {
		for i := pos; i < len(data); i++ {
			if data[i] == '\n' {
				l := string(data[pos:i])
				pos = i + 1
				if strings.HasSuffix(l, "\r") {
					h.CRLF = true
					l = l[:len(l)-1]
				}
				return l, true
			}
		}
		return "", false
	}
	l, ok := line()
	if !ok || l != "ply" {
		return nil, fmt.Errorf("first line is %q, not \"ply\"", l)
	}
	l, ok = line()
	if !ok {
		return nil, fmt.Errorf("no format line")
	}
	f := strings.Fields(l)
	if len(f) != 3 || f[0] != "format" || f[2] != "1.0" {
		return nil, fmt.Errorf("bad format line %q", l)
	}
	switch f[1] {
	case "ascii", "binary_little_endian", "binary_big_endian":
		h.Format = f[1]
	default:
		return nil, fmt.Errorf("unknown format %q", f[1])
	}
	for {
		l, ok = line()
		if !ok {
			return nil, fmt.Errorf("header not terminated by end_header")
		}
		f = strings.Fields(l)
		if len(f) == 0 {
			return nil, fmt.Errorf("empty header line")
		}
		switch f[0] {
		case "end_header":
			if len(f) != 1 {
				return nil, fmt.Errorf("bad end_header line %q", l)
			}
			h.BodyOffset = pos
			return h, nil
		case "comment":
			h.Comments = append(h.Comments, strings.TrimSpace(strings.TrimPrefix(strings.TrimSpace(l), "comment")))
		case "obj_info":
			h.ObjInfo = append(h.ObjInfo, strings.TrimSpace(strings.TrimPrefix(strings.TrimSpace(l), "obj_info")))
		case "element":
			if len(f) != 3 {
				return nil, fmt.Errorf("bad element line %q", l)
			}
			n, err := strconv.Atoi(f[2])
			if err != nil || n < 0 {
				return nil, fmt.Errorf("bad element count in %q", l)
			}
			h.Elements = append(h.Elements, Element{Name: f[1], Count: n})
		case "property":
			if len(h.Elements) == 0 {
				return nil, fmt.Errorf("property before any element: %q", l)
			}
			e := &h.Elements[len(h.Elements)-1]
			if len(f) == 5 && f[1] == "list" {
				ct, ok1 := canon[f[2]]
				it, ok2 := canon[f[3]]
				if !ok1 || !ok2 {
					return nil, fmt.Errorf("unknown type in %q", l)
				}
				if ct == "float" || ct == "double" {
					return nil, fmt.Errorf("list count type is not an integer type in %q", l)
				}
				e.Props = append(e.Props, Prop{Name: f[4], List: true, Type: it, CountType: ct, Spelled: f[3]})
			} else if len(f) == 3 {
				t, ok1 := canon[f[1]]
				if !ok1 {
					return nil, fmt.Errorf("unknown type in %q", l)
				}
				e.Props = append(e.Props, Prop{Name: f[2], Type: t, Spelled: f[1]})
			} else {
				return nil, fmt.Errorf("bad property line %q", l)
			}
			for i := 0; i < len(e.Props)-1; i++ {
				if e.Props[i].Name == e.Props[len(e.Props)-1].Name {
					return nil, fmt.Errorf("element %s declares property %q twice", e.Name, e.Props[i].Name)
				}
			}
		default:
			return nil, fmt.Errorf("unknown header keyword in %q", l)
		}
	}
}

// Record is one decoded element record: Scalars[k] for scalar property k
// (NaN slot for lists), Lists[k] for list property k (nil for scalars).
type Record struct {
	Scalars []float64
	Lists   [][]float64
}

type File struct {
	Header *Header
	// Data[e] = records of element e
	Data [][]Record
	// sizing facts
	BodyLen   int // bytes after end_header
	Consumed  int // bytes the declared elements account for
	Lines     int // ascii: body lines
	RecTokens []int
}

// Decode parses header and body. A body that is shorter or longer than what
// the header declares, or whose ascii lines do not hold exactly the declared
// numbers, is an error.
func Decode(data []byte) (*File, error) {
	h, err := ParseHeader(data)
	if err != nil {
		return nil, fmt.Errorf("header: %w", err)
	}
	f := &File{Header: h, BodyLen: len(data) - h.BodyOffset}
	body := data[h.BodyOffset:]
	if h.Format == "ascii" {
		return f, decodeASCII(f, body)
	}
	var bo binary.ByteOrder = binary.LittleEndian
	if h.Format == "binary_big_endian" {
		bo = binary.BigEndian
	}
	return f, decodeBinary(f, body, bo)
}

func decodeBinary(f *File, body []byte, bo binary.ByteOrder) error {
	pos := 0
	need := func(n int, what string) error {
		if pos+n > len(body) {
			return fmt.Errorf("body ends at byte %d inside %s (needs %d more bytes, %d left)", len(body), what, n, len(body)-pos)
		}
		return nil
	}
	rd := func(t string) float64 {
		var v float64
		switch t {
		case "char":
			v = float64(int8(body[pos]))
		case "uchar":
			v = float64(body[pos])
		case "short":
			v = float64(int16(bo.Uint16(body[pos:])))
		case "ushort":
			v = float64(bo.Uint16(body[pos:]))
		case "int":
			v = float64(int32(bo.Uint32(body[pos:])))
		case "uint":
			v = float64(bo.Uint32(body[pos:]))
		case "float":
			v = float64(math.Float32frombits(bo.Uint32(body[pos:])))
		case "double":
			v = math.Float64frombits(bo.Uint64(body[pos:]))
		}
		pos += Size(t)
		return v
	}
	for _, e := range f.Header.Elements {
		recs := make([]Record, e.Count)
		for i := 0; i < e.Count; i++ {
			r := Record{Scalars: make([]float64, len(e.Props)), Lists: make([][]float64, len(e.Props))}
			for k, p := range e.Props {
				what := fmt.Sprintf("element %s record %d property %s", e.Name, i, p.Name)
				if !p.List {
					if err := need(Size(p.Type), what); err != nil {
						return err
					}
					r.Scalars[k] = rd(p.Type)
					continue
				}
				r.Scalars[k] = math.NaN()
				if err := need(Size(p.CountType), what+" (count)"); err != nil {
					return err
				}
				n := rd(p.CountType)
				if n < 0 || n > 1<<20 {
					return fmt.Errorf("%s: list count %v", what, n)
				}
				if err := need(int(n)*Size(p.Type), what+" (items)"); err != nil {
					return err
				}
				l := make([]float64, int(n))
				for j := range l {
					l[j] = rd(p.Type)
				}
				r.Lists[k] = l
			}
			recs[i] = r
		}
		f.Data = append(f.Data, recs)
	}
	f.Consumed = pos
	if pos != len(body) {
		return fmt.Errorf("body has %d bytes, the header accounts for %d", len(body), pos)
	}
	return nil
}

func parseNum(tok, t string) (float64, error) {
	if isIntType(t) {
		v, err := strconv.ParseInt(tok, 10, 64)
		if err != nil {
			return 0, fmt.Errorf("token %q is not an integer (type %s)", tok, t)
		}
		var lo, hi int64
		switch t {
		case "char":
			lo, hi = -128, 127
		case "uchar":
			lo, hi = 0, 255
		case "short":
			lo, hi = -32768, 32767
		case "ushort":
			lo, hi = 0, 65535
		case "int":
			lo, hi = math.MinInt32, math.MaxInt32
		case "uint":
			lo, hi = 0, math.MaxUint32
		}
		if v < lo || v > hi {
			return 0, fmt.Errorf("token %q outside the range of %s", tok, t)
		}
		return float64(v), nil
	}
	v, err := strconv.ParseFloat(tok, 64)
	if err != nil {
		return 0, fmt.Errorf("token %q is not a number (type %s)", tok, t)
	}
	return v, nil
}

func decodeASCII(f *File, body []byte) error {
	s := string(body)
	var lines []string
	if len(s) > 0 {
		if !strings.HasSuffix(s, "\n") {
			return fmt.Errorf("last body line is not terminated")
		}
		lines = strings.Split(s[:len(s)-1], "\n")
	}
	f.Lines = len(lines)
	li := 0
	for _, e := range f.Header.Elements {
		recs := make([]Record, e.Count)
		for i := 0; i < e.Count; i++ {
			if li >= len(lines) {
				return fmt.Errorf("body has %d lines, element %s record %d needs line %d", len(lines), e.Name, i, li+1)
			}
			toks := strings.Fields(strings.TrimSuffix(lines[li], "\r"))
			f.RecTokens = append(f.RecTokens, len(toks))
			li++
			r := Record{Scalars: make([]float64, len(e.Props)), Lists: make([][]float64, len(e.Props))}
			t := 0
			next := func(what string) (string, error) {
				if t >= len(toks) {
					return "", fmt.Errorf("line %d (element %s record %d) has %d tokens, %s missing", li, e.Name, i, len(toks), what)
				}
				t++
				return toks[t-1], nil
			}
			for k, p := range e.Props {
				if !p.List {
					tok, err := next("property " + p.Name)
					if err != nil {
						return err
					}
					v, err := parseNum(tok, p.Type)
					if err != nil {
						return fmt.Errorf("line %d property %s: %w", li, p.Name, err)
					}
					r.Scalars[k] = v
					continue
				}
				r.Scalars[k] = math.NaN()
				tok, err := next("count of list " + p.Name)
				if err != nil {
					return err
				}
				n, err := parseNum(tok, p.CountType)
				if err != nil {
					return fmt.Errorf("line %d list %s count: %w", li, p.Name, err)
				}
				l := make([]float64, int(n))
				for j := range l {
					tok, err := next(fmt.Sprintf("item %d of list %s", j, p.Name))
					if err != nil {
						return err
					}
					if l[j], err = parseNum(tok, p.Type); err != nil {
						return fmt.Errorf("line %d list %s: %w", li, p.Name, err)
					}
				}
				r.Lists[k] = l
			}
			if t != len(toks) {
				return fmt.Errorf("line %d (element %s record %d) has %d tokens, the header accounts for %d", li, e.Name, i, len(toks), t)
			}
			recs[i] = r
		}
		f.Data = append(f.Data, recs)
	}
	if li != len(lines) {
		return fmt.Errorf("body has %d lines, the header accounts for %d", len(lines), li)
	}
	f.Consumed = len(body)
	return nil
}
