// Package c04 monitors property C04: PLY write/read round trip in all three
// encodings, and "the header describes the body".
//
// Per case one generated mesh and one writer configuration are written in
// ASCII, little-endian and big-endian. Each file is (1) sized and decoded by an
// independent PLY reader (package plyfile, written from the format description)
// and compared with the mesh — element counts, property list, byte/line/token
// counts, every stored number; (2) loaded with ply.ReadMesh and compared corner
// by corner with the mesh at the precision of the stored type; (3) the three
// loaded meshes are compared with each other.
package c04

import (
	"bytes"
	"encoding/base64"
	"fmt"
	"io"
	"math"
	"os"
	"sort"
	"strings"

	"github.com/EliCDavis/polyform/formats/ply"
	"github.com/EliCDavis/polyform/modeling"
	"polyverif/internal/c04/plyfile"
	"polyverif/internal/ref"
	"polyverif/internal/run"
)

func Spec() *run.Spec {
	return &run.Spec{
		ID: "C04", Level: "exploration",
		Rule: "case = one generated well-formed mesh (point cloud or triangle mesh; index pattern unwelded/permutation/welded/unreferenced/repeated+degenerate/random/no faces; " +
			"0..40 vertices (10 % up to 300), 'large' phase: directed sizes 65 535/65 536/65 537/70 001/131 073 (thorough also 200 003/262 145/300 007) then random 2 000..20 000 (thorough ..60 000); 2 % of the roundtrip cases are the directed triangle mesh whose only attribute is TexCoord (vertex element without properties); any subset of Position/Normal/Color(RGB|RGBA)/FDC/Opacity/Scale/Rotation/TexCoord + user-named v1..v4 attributes; value classes unit/int/f32/f64/large/tiny/wide and, for 5 % of the unrestricted attributes, huge-whole = whole numbers of magnitude 2^53..3e38 exactly representable in float32, both signs) " +
			"× one writer configuration (ply.Write, or a custom MeshWriter: per attribute an explicit property writer — value or pointer, canonical/alias/own property names, type Float/Double/UChar/Int as the values allow — or none; writers for absent attributes; WriteUnspecifiedProperties on/off), " +
			"written in all three encodings (ply.SplatPly.Write: little-endian). fault-sequences: one case = a history of 3–8 operations in one goroutine mixing complete ordinary cases (ply.Write / custom MeshWriter / SplatPly, 1..5 000 vertices) with writes to a destination that fails for good after k bytes (refusing or accepting a part; k in the header, the first record, the middle of the vertex records, around 32 KiB absolute and from the body start, the face records, the last byte) and ply.ReadMesh from a source that fails after k bytes; non-trivial there: a good operation follows a failure inside the records. Non-trivial: triangle mesh with a vertex shared by ≥2 corners and ≥2 attributes, or cloud with ≥3 attributes. Distinct = distinct (topology, size buckets, index pattern, attribute/class mix, configuration) descriptors.",
		Assumptions: []string{
			"finite values; 8-bit storage only for attributes with values in [0,1]; Int storage only for integer-valued attributes inside int32 (DESIGN: out of reach otherwise)",
			"a configuration always writes at least one vertex property when the mesh has vertices, except for the triangle mesh whose only attribute is TexCoord (its data lives in the face list; the vertex element then has records without properties)",
			"every file is handed to ply.ReadMesh / ply.ReadHeader through a reader kind drawn per file (bytes.Reader, bytes.Buffer, bufio.Reader, plain io.Reader wrapper, iotest One-byte/Half/DataErr readers, io.LimitReader, *os.File, io.Pipe): the decoded mesh must not depend on it, and ReadHeader must leave exactly the body unread (its doc comment: reading stops at end_header)",
			"point clouds whose index list is not 0..n-1 cannot be expressed in PLY (only the vertex table is stored): for those the comparison is per vertex and the primitive count is not compared",
			"ASCII decodes float and double columns through a 32-bit parse (DESIGN §0): ASCII is compared at ±1 float32 ulp, binary double exactly, binary float at float32",
			"uchar-typed columns that the reader loads through its scalar path come back raw from ASCII: reported as the known finding ascii-uchar-scalar-raw, exercised in its own phase",
		},
		MinNontrivial: map[string]int{"quick": 1000, "thorough": 20000},
		MinObserved: map[string]int64{
			"encodings": 3, "files_decoded_independently": 1000, "corners_compared": 5000,
			"welded_texcoord_binary_files": 20, "property_types": 4, "config_kinds": 2,
			"readback_source_kinds": 10, "readheader_source_kinds": 10,
			"ascii_files_over_65536_vertices_read_back": 3, "binary_files_over_65536_vertices_read_back": 6,
			"texcoord_only_triangle_meshes": 30, "ascii_files_with_empty_vertex_records_read_back": 15,
			"texcoord_only_mesh_variants":    6,
			"huge_whole_columns(arity/type)": 8, "huge_whole_column_values_written": 2000,
			"ascii_vertex_row_widths": 36, "wide_row_populations": 10,
			"ascii_files_read_back_with_a_vertex_row_over_4096_bytes": 40, "ascii_files_read_back_with_a_vertex_row_over_8192_bytes": 25,
			"ascii_files_read_back_with_a_vertex_row_over_16384_bytes": 12, "ascii_files_read_back_with_a_vertex_row_over_60000_bytes": 6,
			"lone_component_property_names": 36, "lone_component_properties_written": 500, "block_exact_record_counts": 18,
			"fault_histories": 500, "good_ops_after_a_failure_in_the_records": 300, "failed_writes_reported": 300, "failed_reads_reported": 100,
			"write_fault_positions": 6, "write_fault_modes": 2, "write_fault_sites": 7, "read_fault_positions": 5,
		},
		Phases: []run.Phase{
			{Name: "roundtrip", Cases: func(t string) int {
				if t == "thorough" {
					return 120000
				}
				return 4000
			}, Run: func(c *run.Ctx) run.Result {
				// one case in fifty is the directed texcoord-only triangle mesh, one in fifty a mesh with wide ASCII rows
				o := genOpts{TexOnly: c.Case%50 == 7}
				if c.Case%50 == 23 {
					ws := wideTarget(c.Rng, c.Tier, c.Case/50)
					o.Wide = &ws
				}
				return runCase(c, o)
			}, Batch: 100, CPUBudgetS: 20},
			{Name: "uchar-scalar", Cases: func(t string) int {
				if t == "thorough" {
					return 4000
				}
				return 240
			}, Run: func(c *run.Ctx) run.Result { return runCase(c, genOpts{UCharScalar: true, MinN: 1}) }, Batch: 40, CPUBudgetS: 20},
			{Name: "fault-sequences", Cases: func(t string) int {
				if t == "thorough" {
					return 20000
				}
				return 600
			}, Run: faultSequences, Batch: 50, CPUBudgetS: 60},
			{Name: "large", Cases: func(t string) int {
				// directed sizes + block-exact record counts + random sizes
				if t == "thorough" {
					return 96 + len(blockExactCases(t))
				}
				return 13 + len(blockExactCases(t))
			}, Run: func(c *run.Ctx) run.Result {
				o := genOpts{Large: true, MinN: 2000, MaxN: 20000}
				// directed sizes around 2^16 and 2^17 (allocation / growth boundaries of readers), then random ones
				sizes := []int{65535, 65536, 65537, 70001, 131073}
				directed := len(sizes)
				if c.Tier == "thorough" {
					sizes = append(sizes, 200003, 262145, 300007)
					directed = 4 * len(sizes)
					o.MaxN = 60000
				}
				be := blockExactCases(c.Tier)
				switch {
				case c.Case < directed:
					o.ForceN = sizes[c.Case%len(sizes)]
				case c.Case < directed+len(be):
					o = be[c.Case-directed]
				}
				return runCase(c, o)
			}, Batch: 1, CPUBudgetS: 300},
		},
	}
}

type encoding struct {
	name   string // as in the format line
	format ply.Format
}

// polyform's Format constants carry swapped string values (used only
// symbolically); the encodings are named here by the format line they must
// produce.
var encodings = []encoding{
	{"ascii", ply.ASCII},
	{"binary_little_endian", ply.BinaryLittleEndian},
	{"binary_big_endian", ply.BinaryBigEndian},
}

const knownClass = "ascii-uchar-scalar-raw"
const knownSite = "ply ascii scalar reader (Vector1PropertyReader.buildAscii never records the type)"

type caseState struct {
	c     *run.Ctx
	res   *run.Result
	mc    *meshCase
	cfg   config
	cols  []column
	lands []landed
	input string
	dir   string
	// widest vertex row of the ASCII file (bytes without terminator)
	asciiMaxRow int
}

func (s *caseState) scratch() string {
	if s.dir == "" {
		s.dir = s.c.ScratchDir()
	}
	return s.dir
}

func (s *caseState) witness(extra map[string]any) map[string]any {
	w := map[string]any{"mesh": s.describe(), "config": s.cfg.sig()}
	for k, v := range extra {
		w[k] = v
	}
	return w
}

func (s *caseState) describe() map[string]any {
	mc := s.mc
	d := map[string]any{"triangle": mc.Tri, "vertices": mc.N, "pattern": mc.Pattern}
	if len(mc.Idx) <= 90 {
		d["indices"] = mc.Idx
	} else {
		d["indices_head"] = mc.Idx[:90]
		d["index_count"] = len(mc.Idx)
	}
	var as []any
	for _, a := range mc.Attrs {
		e := map[string]any{"name": a.Name, "arity": a.Arity, "class": a.Class}
		if mc.N <= 12 {
			e["data"] = a.Data
		}
		as = append(as, e)
	}
	d["attributes"] = as
	if mc.TexURI != "" {
		d["texture"] = mc.TexURI
	}
	return d
}

func fileWitness(data []byte) any {
	if len(data) <= 1500 {
		if bytes.HasPrefix(data, []byte("ply\nformat ascii")) {
			return string(data)
		}
		return map[string]any{"base64": base64.StdEncoding.EncodeToString(data)}
	}
	h := data
	if k := bytes.Index(data, []byte("end_header\n")); k > 0 && k < 1500 {
		h = data[:k+11]
	} else {
		h = data[:200]
	}
	return map[string]any{"header": string(h), "bytes": len(data)}
}

func runCase(c *run.Ctx, o genOpts) run.Result {
	var res run.Result
	r := c.Rng
	mc := genMesh(r, o)
	cfg := genConfig(r, mc, o)
	if !o.UCharScalar && !o.TexOnly && o.Wide == nil && o.FixedAttrs == nil && !o.Large && r.Intn(5) == 0 {
		// user-named scalars / custom property names that look like one piece of a recognised group
		for _, n := range addLoneComponents(r, mc, &cfg) {
			res.SetAdd("lone_component_property_names", n)
			res.Count("lone_component_properties_written", 1)
		}
	}
	if o.BlockLabel != "" {
		res.SetAdd("block_exact_record_counts", o.BlockLabel)
	}
	s := &caseState{c: c, res: &res, mc: mc, cfg: cfg}
	s.cols = expectedColumns(mc, cfg)
	s.lands = landing(s.cols)
	hasTex := mc.attr(2, modeling.TexCoordAttribute) != nil
	if mc.Tri && hasTex && mc.prims() > 0 {
		// per-corner list of the face element wins over any per-vertex s/t
		var keep []landed
		for _, l := range s.lands {
			if l.Key != "2:TexCoord" {
				keep = append(keep, l)
			}
		}
		s.lands = append(keep, landed{Key: "2:TexCoord", FromList: true})
	}
	s.input = fmt.Sprintf("%s %s cfg=%s", topoName(mc), mc.Pattern, cfg.Kind)

	mesh := mc.build()
	if err := ref.WF(mesh); err != nil {
		res.Inconclusive = "harness: generated mesh is not well-formed: " + err.Error()
		return res
	}

	nattr := len(mc.Attrs)
	var an []string
	for _, a := range mc.Attrs {
		an = append(an, fmt.Sprintf("%s/%s", a.key(), a.Class))
	}
	sort.Strings(an)
	// the journal keeps one line per case: the long structural descriptor is hashed
	long := fmt.Sprintf("[%s]/%s/tex=%v", strings.Join(an, ","), cfg.sig(), mc.TexURI != "")
	res.Sig = fmt.Sprintf("%s/v%d/p%d/%s/a%d/%s/%016x", topoName(mc), bucket(mc.N), bucket(mc.prims()), mc.Pattern, nattr, cfg.Kind, run.HashStr(long))
	res.Nontrivial = (mc.Tri && mc.Shared && nattr >= 2) || (!mc.Tri && nattr >= 3)
	if c.Case%97 == 0 || c.Replay {
		res.Sample = map[string]any{"mesh": fmt.Sprintf("%s n=%d prims=%d %s attrs=%v", topoName(mc), mc.N, mc.prims(), mc.Pattern, an), "config": cfg.sig(), "columns": s.colNames()}
	}
	res.Count("meshes", 1)
	res.SetAdd("config_kinds", cfg.Kind)
	res.SetAdd("index_patterns", topoName(mc)+"/"+mc.Pattern)
	for _, col := range s.cols {
		res.SetAdd("property_types", col.Type)
	}
	for _, l := range s.lands {
		res.SetAdd("attributes_expected_back", l.Key)
	}
	if cfg.Kind == "custom" {
		res.SetAdd("write_unspecified", fmt.Sprint(cfg.Unspecified))
		for _, w := range cfg.Writers {
			if w.Ptr {
				res.SetAdd("writer_forms", fmt.Sprintf("*Vector%dPropertyWriter", w.Arity))
			} else {
				res.SetAdd("writer_forms", fmt.Sprintf("Vector%dPropertyWriter", w.Arity))
			}
		}
	}
	if !mc.Tri && !mc.Identity {
		res.Count("clouds_with_non_identity_indices(per-vertex comparison)", 1)
	}

	var snaps [3]*ref.Snapshot
	var hdrs [3]*plyfile.Header
	// binary first: the known finding is "ASCII raw while binary ÷255"
	binaryDiv := map[string]bool{} // scalar uchar landing key -> both binary decodes follow ÷255
	for _, l := range s.lands {
		if isUCharScalar(l) {
			binaryDiv[l.Key] = true
		}
	}
	knownRaw := map[string]bool{}
	srcRng := c.SubRng(0x50c + o.Salt)
	asciiMaxRow := 0
	for _, col := range s.cols {
		if a := mc.Attrs[col.Attr]; a.Class == "huge-whole" {
			res.SetAdd("huge_whole_columns(arity/type)", fmt.Sprintf("v%d/%s", a.Arity, col.Type))
			res.Count("huge_whole_column_values_written", int64(mc.N))
		}
	}
	if c.Replay {
		defer func() {
			if s.dir != "" {
				os.RemoveAll(s.dir)
			}
		}()
	}
	if onlyTexCoordTriMesh(mc) && mc.N > 0 {
		res.Count("texcoord_only_triangle_meshes", 1)
		res.SetAdd("texcoord_only_mesh_variants", fmt.Sprintf("%s/cols=%d/%s", mc.Pattern, len(s.cols), cfg.Kind))
	}
	for _, ei := range []int{1, 2, 0} {
		enc := encodings[ei]
		if cfg.Kind == "splat" && ei != 1 {
			continue // SplatPly.Write is little-endian only
		}
		data := s.write(mesh, enc)
		if data == nil {
			continue
		}
		res.Count("files_written", 1)
		res.Count("bytes_written", int64(len(data)))
		res.SetAdd("encodings", enc.name)
		if mc.Tri && hasTex && mc.Shared && mc.prims() > 0 && ei != 0 {
			res.Count("welded_texcoord_binary_files", 1)
		}
		if ei == 0 && mc.N > 0 && len(s.cols) == 0 {
			// only reachable with includeEmptyVertexRecords
			if f, err := plyfile.Decode(data); err != nil && f != nil && f.Header != nil && f.Lines == mc.prims()*b2i(mc.Tri) {
				res.Violate("ascii-empty-vertex-record", "ply ascii writer (vertex element without properties)", s.input,
					fmt.Sprintf("element vertex %d has no property and the body holds no line for its records: %v", mc.N, err), s.witness(map[string]any{"file": fileWitness(data)}))
				continue
			}
		}
		if ei == 0 && mc.N > 0 {
			maxRow := 0
			if h, err := plyfile.ParseHeader(data); err == nil {
				pos := h.BodyOffset
				for i := 0; i < mc.N && pos < len(data); i++ {
					k := bytes.IndexByte(data[pos:], '\n')
					if k < 0 {
						break
					}
					if k > maxRow {
						maxRow = k
					}
					if k >= 4000 {
						res.SetAdd("ascii_vertex_row_widths", rowWidthLabel(k))
					}
					pos += k + 1
				}
			}
			asciiMaxRow = maxRow
			s.asciiMaxRow = maxRow
			if o.Wide != nil {
				res.SetAdd("wide_row_populations", o.Wide.Label+"/"+o.Wide.Mode)
			}
		}
		hdrs[ei] = s.checkFile(data, enc)
		s.checkReadHeader(data, enc, hdrs[ei], plyfile.PickSource(srcRng))
		snaps[ei] = s.readBack(data, enc, binaryDiv, knownRaw, plyfile.PickSource(srcRng))
		if snaps[ei] != nil && mc.N > 65536 {
			if ei == 0 {
				res.Count("ascii_files_over_65536_vertices_read_back", 1)
			} else {
				res.Count("binary_files_over_65536_vertices_read_back", 1)
			}
		}
		if ei == 0 && snaps[ei] != nil {
			for _, b := range []int{4096, 8192, 16384, 60000} {
				if asciiMaxRow > b {
					res.Count(fmt.Sprintf("ascii_files_read_back_with_a_vertex_row_over_%d_bytes", b), 1)
				}
			}
		}
		if snaps[ei] != nil && ei == 0 && mc.N > 0 && len(s.cols) == 0 {
			res.Count("ascii_files_with_empty_vertex_records_read_back", 1)
		}
	}
	s.crossHeaders(hdrs)
	s.crossEncodings(snaps, knownRaw)
	return res
}

func topoName(mc *meshCase) string {
	if mc.Tri {
		return "triangle"
	}
	return "point"
}

func bucket(n int) int {
	switch {
	case n <= 3:
		return n
	case n <= 8:
		return 8
	case n <= 16:
		return 16
	case n <= 64:
		return 64
	}
	return 1 << uint(math.Ceil(math.Log2(float64(n))))
}

func isUCharScalar(l landed) bool {
	return !l.FromList && len(l.Cols) == 1 && l.Cols[0].Type == "uchar"
}

// ---------------------------------------------------------------------------
// write
// ---------------------------------------------------------------------------

func (s *caseState) write(mesh modeling.Mesh, enc encoding) []byte {
	site := "ply.Write " + enc.name
	if s.cfg.Kind == "custom" {
		site = "ply.MeshWriter.Write " + enc.name
	}
	buf := &bytes.Buffer{}
	var err error
	s.c.Note("write " + enc.name + " " + s.cfg.Kind)
	if s.cfg.Kind == "splat" {
		site = "ply.SplatPly.Write " + enc.name
	}
	p := run.Try(func() { err = s.cfg.writeTo(buf, mesh, enc.format) })
	if p != nil {
		class := "writer-panic"
		if p.Runtime {
			class = "runtime-panic"
		}
		s.res.Violate(class, site+" ("+p.Site+")", s.input, fmt.Sprintf("writing a well-formed mesh panicked: %s\n%s", p.Value, p.Stack), s.witness(nil))
		return nil
	}
	if err != nil {
		s.res.Violate("write-error", site, s.input, "writing a well-formed mesh returned an error: "+err.Error(), s.witness(nil))
		return nil
	}
	return buf.Bytes()
}

// ---------------------------------------------------------------------------
// (1) the header describes the body; the body holds the mesh
// ---------------------------------------------------------------------------

// storedOK: does the stored number x represent the attribute value v at the
// precision of the declared type?
func storedOK(v, x float64, typ string, ascii bool) bool {
	switch typ {
	case "float":
		if ascii {
			return ref.EqF32Ulp(v, x, 1)
		}
		return ref.EqF32(v, x)
	case "double":
		if ascii {
			return ref.EqF32Ulp(v, x, 1) // any decimal rendering of at least float32 precision
		}
		return sameBits(v, x)
	case "uchar":
		return x == math.Trunc(x) && x >= 0 && x <= 255 && math.Abs(x/255-v) <= 1.0/255+1e-12
	case "int":
		return x == math.Trunc(x) && math.Abs(x-v) < 1
	}
	return false
}

func sameBits(a, b float64) bool {
	if a == 0 && b == 0 {
		return true
	}
	return math.Float64bits(a) == math.Float64bits(b)
}

func (s *caseState) checkFile(data []byte, enc encoding) *plyfile.Header {
	mc := s.mc
	site := "ply writer " + enc.name
	viol := func(class, detail string) {
		s.res.Violate(class, site, s.input, detail, s.witness(map[string]any{"file": fileWitness(data)}))
	}
	f, err := plyfile.Decode(data)
	if err != nil {
		if f == nil || f.Header == nil {
			viol("header-invalid", "independent PLY reader cannot parse the emitted header: "+err.Error())
			return nil
		}
		viol("header-body-mismatch", "independent PLY reader: "+err.Error())
		return f.Header
	}
	s.res.Count("files_decoded_independently", 1)
	h := f.Header
	if h.Format != enc.name {
		viol("format-line-mismatch", fmt.Sprintf("asked for %s, format line says %s", enc.name, h.Format))
		return h
	}
	// --- elements and counts
	wantEls := 1
	if mc.Tri {
		wantEls = 2
	}
	if len(h.Elements) != wantEls || h.Elements[0].Name != "vertex" || (mc.Tri && h.Elements[1].Name != "face") {
		var names []string
		for _, e := range h.Elements {
			names = append(names, e.Name)
		}
		viol("header-element-mismatch", fmt.Sprintf("elements %v; a %s mesh needs vertex%s", names, topoName(mc), map[bool]string{true: " + face", false: " only"}[mc.Tri]))
		return h
	}
	ve := h.Elements[0]
	if ve.Count != mc.N {
		viol("header-count-mismatch", fmt.Sprintf("element vertex %d, the mesh has %d vertices", ve.Count, mc.N))
		return h
	}
	if mc.Tri && h.Elements[1].Count != mc.prims() {
		viol("header-count-mismatch", fmt.Sprintf("element face %d, the mesh has %d triangles", h.Elements[1].Count, mc.prims()))
		return h
	}
	// --- property list
	want := map[string]column{}
	for _, c := range s.cols {
		want[c.Ply] = c
	}
	var problems []string
	colOf := make([]int, len(ve.Props)) // property index -> s.cols index
	for k, p := range ve.Props {
		colOf[k] = -1
		c, ok := want[p.Name]
		switch {
		case p.List:
			problems = append(problems, "unexpected list property "+p.Name)
		case !ok:
			problems = append(problems, "unexpected property "+p.Name)
		case c.Type != p.Type:
			problems = append(problems, fmt.Sprintf("property %s declared %s, configured %s", p.Name, p.Type, c.Type))
		default:
			for i := range s.cols {
				if s.cols[i].Ply == p.Name {
					colOf[k] = i
				}
			}
			delete(want, p.Name)
		}
	}
	for n := range want {
		problems = append(problems, "missing property "+n)
	}
	if len(problems) > 0 {
		sort.Strings(problems)
		viol("header-property-mismatch", "vertex element: "+strings.Join(problems, "; "))
		return h
	}
	hasTex := mc.attr(2, modeling.TexCoordAttribute) != nil
	idxProp, texProp := -1, -1
	if mc.Tri {
		for k, p := range h.Elements[1].Props {
			switch {
			case p.List && (p.Name == "vertex_indices" || p.Name == "vertex_index") && idxProp < 0 && p.Type != "float" && p.Type != "double":
				idxProp = k
			case p.List && p.Name == "texcoord" && texProp < 0 && (p.Type == "float" || p.Type == "double"):
				texProp = k
			default:
				problems = append(problems, "unexpected face property "+p.Name)
			}
		}
		if idxProp < 0 {
			problems = append(problems, "no vertex index list")
		}
		if hasTex != (texProp >= 0) {
			problems = append(problems, fmt.Sprintf("texcoord list present=%v, mesh has TexCoord=%v", texProp >= 0, hasTex))
		}
		if len(problems) > 0 {
			viol("header-property-mismatch", "face element: "+strings.Join(problems, "; "))
			return h
		}
	}
	// --- sizes, stated explicitly (the decoder already refused any slack)
	if enc.name == "ascii" {
		wantLines := mc.N + mc.prims()*b2i(mc.Tri)
		if f.Lines != wantLines {
			viol("header-body-mismatch", fmt.Sprintf("ascii body has %d lines, header declares %d records", f.Lines, wantLines))
			return h
		}
		for i, nt := range f.RecTokens {
			w := len(ve.Props)
			if i >= mc.N {
				w = 4
				if hasTex {
					w = 11
				}
			}
			if nt != w {
				viol("header-body-mismatch", fmt.Sprintf("ascii record %d has %d tokens, header says %d", i, nt, w))
				return h
			}
		}
		s.res.Count("ascii_lines_counted", int64(f.Lines))
	} else {
		vs := ve.RecordSize()
		total := mc.N * vs
		if mc.Tri {
			fe := h.Elements[1]
			fs := plyfile.Size(fe.Props[idxProp].CountType) + 3*plyfile.Size(fe.Props[idxProp].Type)
			if texProp >= 0 {
				fs += plyfile.Size(fe.Props[texProp].CountType) + 6*plyfile.Size(fe.Props[texProp].Type)
			}
			total += mc.prims() * fs
			s.res.SetAdd("binary_face_record_bytes", fmt.Sprint(fs))
		}
		if f.BodyLen != total {
			viol("header-body-mismatch", fmt.Sprintf("binary body has %d bytes, Σ count·recordSize = %d (vertex record %d bytes)", f.BodyLen, total, vs))
			return h
		}
		s.res.Count("binary_body_bytes_sized", int64(total))
	}
	// --- every stored number
	ascii := enc.name == "ascii"
	for i, rec := range f.Data[0] {
		for k := range ve.Props {
			c := s.cols[colOf[k]]
			v := mc.Attrs[c.Attr].Data[i][c.Comp]
			if !storedOK(v, rec.Scalars[k], c.Type, ascii) {
				viol("body-value-mismatch", fmt.Sprintf("vertex record %d property %s (%s) holds %v, attribute %s[%d] component %d is %v",
					i, c.Ply, c.Type, rec.Scalars[k], mc.Attrs[c.Attr].Name, i, c.Comp, v))
				return h
			}
		}
	}
	s.res.Count("stored_vertex_values_checked", int64(mc.N*len(ve.Props)))
	if mc.Tri {
		tex := mc.attr(2, modeling.TexCoordAttribute)
		for t, rec := range f.Data[1] {
			l := rec.Lists[idxProp]
			if len(l) != 3 || int(l[0]) != mc.Idx[3*t] || int(l[1]) != mc.Idx[3*t+1] || int(l[2]) != mc.Idx[3*t+2] {
				viol("body-value-mismatch", fmt.Sprintf("face record %d holds indices %v, triangle %d is %v", t, l, t, mc.Idx[3*t:3*t+3]))
				return h
			}
			if texProp >= 0 {
				uv := rec.Lists[texProp]
				if len(uv) != 6 {
					viol("body-value-mismatch", fmt.Sprintf("face record %d: texcoord list of %d numbers, want 6", t, len(uv)))
					return h
				}
				for cnr := 0; cnr < 3; cnr++ {
					w := tex.Data[mc.Idx[3*t+cnr]]
					if !storedOK(w[0], uv[2*cnr], h.Elements[1].Props[texProp].Type, ascii) || !storedOK(w[1], uv[2*cnr+1], h.Elements[1].Props[texProp].Type, ascii) {
						viol("body-value-mismatch", fmt.Sprintf("face record %d corner %d holds texcoord (%v,%v); vertex %d has (%v,%v)",
							t, cnr, uv[2*cnr], uv[2*cnr+1], mc.Idx[3*t+cnr], w[0], w[1]))
						return h
					}
				}
			}
		}
		s.res.Count("stored_faces_checked", int64(mc.prims()))
	}
	return h
}

func b2i(b bool) int {
	if b {
		return 1
	}
	return 0
}

// polyform's own header parser on polyform's own header (observe point ply.ReadHeader)
func (s *caseState) checkReadHeader(data []byte, enc encoding, mine *plyfile.Header, kind string) {
	if mine == nil {
		return
	}
	site := "ply.ReadHeader " + enc.name
	var h ply.Header
	var err error
	src, done, serr := plyfile.Source(kind, data, s.scratch(), fmt.Sprintf("%s-%d-h", s.c.Phase, s.c.Case))
	if serr != nil {
		s.res.Inconclusive = "harness: cannot open source " + kind + ": " + serr.Error()
		return
	}
	var rest []byte
	var rerr error
	p := run.Try(func() {
		h, err = ply.ReadHeader(src)
		if err == nil {
			rest, rerr = io.ReadAll(src)
		}
	})
	done()
	s.res.SetAdd("readheader_source_kinds", kind)
	if p == nil && err == nil {
		// "Reading from the reader passed in stops once we recieve the end_header token":
		// what is left in the caller's reader is exactly the body
		body := data[mine.BodyOffset:]
		if rerr != nil || !bytes.Equal(rest, body) {
			s.res.Violate("header-overread", "ply.ReadHeader on "+readerClass(kind), s.input+" src="+kind,
				fmt.Sprintf("after ReadHeader the caller's %s holds %d bytes (err %v), the body after end_header has %d: ReadHeader consumed bytes past end_header", kind, len(rest), rerr, len(body)),
				s.witness(map[string]any{"file": fileWitness(data)}))
			return
		}
		s.res.Count("readheader_left_exactly_the_body", 1)
	}
	if p != nil {
		s.res.Violate("read-panic", site+" ("+p.Site+")", s.input, "ReadHeader panicked on a file written by the library: "+p.Value, s.witness(map[string]any{"file": fileWitness(data)}))
		return
	}
	if err != nil {
		s.res.Violate("read-error", site, s.input, "ReadHeader failed on a file written by the library: "+err.Error(), s.witness(map[string]any{"file": fileWitness(data)}))
		return
	}
	var diff string
	if h.Format != enc.format {
		diff = fmt.Sprintf("format %q, written as %q", h.Format, enc.format)
	} else if len(h.Elements) != len(mine.Elements) {
		diff = fmt.Sprintf("%d elements, header text declares %d", len(h.Elements), len(mine.Elements))
	} else {
	outer:
		for i, e := range h.Elements {
			m := mine.Elements[i]
			if e.Name != m.Name || int(e.Count) != m.Count || len(e.Properties) != len(m.Props) {
				diff = fmt.Sprintf("element %d: %s×%d with %d properties, header text declares %s×%d with %d", i, e.Name, e.Count, len(e.Properties), m.Name, m.Count, len(m.Props))
				break
			}
			for k, pr := range e.Properties {
				mp := m.Props[k]
				switch v := pr.(type) {
				case ply.ScalarProperty:
					if mp.List || v.PropertyName != mp.Name || string(v.Type) != mp.Type {
						diff = fmt.Sprintf("element %s property %d: scalar %s %s, header text declares %+v", e.Name, k, v.Type, v.PropertyName, mp)
						break outer
					}
				case ply.ListProperty:
					if !mp.List || v.PropertyName != mp.Name || string(v.ListType) != mp.Type || string(v.CountType) != mp.CountType {
						diff = fmt.Sprintf("element %s property %d: list %s %s %s, header text declares %+v", e.Name, k, v.CountType, v.ListType, v.PropertyName, mp)
						break outer
					}
				default:
					diff = fmt.Sprintf("element %s property %d has type %T", e.Name, k, pr)
					break outer
				}
			}
		}
	}
	if diff != "" {
		s.res.Violate("header-parse-mismatch", site, s.input, diff, s.witness(map[string]any{"file": fileWitness(data)}))
		return
	}
	s.res.Count("headers_reparsed_by_polyform", 1)
}

// ---------------------------------------------------------------------------
// (2) Read(Write(m)) = m, corner by corner
// ---------------------------------------------------------------------------

func readOK(v, got float64, typ, encName string) bool {
	ascii := encName == "ascii"
	switch typ {
	case "float":
		if ascii {
			return ref.EqF32Ulp(v, got, 1)
		}
		return ref.EqF32(v, got)
	case "double":
		if ascii {
			return ref.EqF32Ulp(v, got, 1)
		}
		return sameBits(v, got)
	case "uchar":
		return math.Abs(got-v) <= 1.0/255+1e-12
	case "int":
		return math.Abs(got-v) < 1 || ref.EqF32Ulp(v, got, 1)
	}
	return false
}

func (s *caseState) readBack(data []byte, enc encoding, binaryDiv, knownRaw map[string]bool, kind string) *ref.Snapshot {
	mc := s.mc
	site := "ply.ReadMesh after write " + enc.name
	wit := func() map[string]any {
		return s.witness(map[string]any{"file": fileWitness(data), "source": kind})
	}
	s.c.SaveInput(data)
	s.c.Note("read " + enc.name + " from " + kind)
	var back *modeling.Mesh
	var err error
	src, done, serr := plyfile.Source(kind, data, s.scratch(), fmt.Sprintf("%s-%d-m", s.c.Phase, s.c.Case))
	if serr != nil {
		s.res.Inconclusive = "harness: cannot open source " + kind + ": " + serr.Error()
		return nil
	}
	p := run.Try(func() { back, err = ply.ReadMesh(src) })
	done()
	s.res.SetAdd("readback_source_kinds", kind)
	if p != nil || err != nil {
		site += " (" + readerClass(kind) + ")"
	}
	saved := s.input
	s.input += " src=" + kind
	defer func() { s.input = saved }()
	if p != nil {
		class := "read-panic"
		if p.Runtime {
			class = "runtime-panic"
		}
		s.res.Violate(class, site+" ("+p.Site+")", s.input, "reading a file written by the library panicked: "+p.Value+"\n"+p.Stack, wit())
		return nil
	}
	if err != nil {
		if enc.name == "ascii" && s.asciiMaxRow >= scannerLimit-1 && strings.Contains(err.Error(), "token too long") {
			// only reachable with includeRowsOver64KiB
			s.res.Violate("ascii-row-over-64KiB", "ply ascii reader (bufio.Scanner token limit)", s.input,
				fmt.Sprintf("the ASCII file written by the library has a vertex row of %d bytes; ply.ReadMesh: %v (both binary encodings round-trip)", s.asciiMaxRow, err), wit())
			return nil
		}
		s.res.Violate("read-error", site, s.input, "reading a file written by the library failed: "+err.Error(), wit())
		return nil
	}
	if back == nil {
		s.res.Violate("read-error", site, s.input, "ReadMesh returned nil mesh and nil error", wit())
		return nil
	}
	if e := ref.WF(*back); e != nil {
		s.res.Violate("roundtrip-mismatch", site, s.input, "the loaded mesh is not well-formed: "+e.Error(), wit())
		return nil
	}
	snap := ref.Snap(*back)
	wantTopo := modeling.PointTopology
	k := 1
	if mc.Tri {
		wantTopo, k = modeling.TriangleTopology, 3
	}
	if snap.Topology != wantTopo {
		s.res.Violate("roundtrip-mismatch", site, s.input, fmt.Sprintf("topology %v, wrote %v", snap.Topology, wantTopo), wit())
		return snap
	}
	// pairs (vertex of the original, vertex of the loaded mesh) to compare
	var pairs [][2]int
	perVertex := !mc.Tri && !mc.Identity
	if perVertex {
		// PLY stores the vertex table of a cloud only: vertex i must be record i
		if len(snap.Indices) != mc.N {
			s.res.Violate("roundtrip-mismatch", site, s.input, fmt.Sprintf("cloud of %d stored vertices loads as %d points", mc.N, len(snap.Indices)), wit())
			return snap
		}
		for i := 0; i < mc.N; i++ {
			pairs = append(pairs, [2]int{i, snap.Indices[i]})
		}
	} else {
		if len(snap.Indices)/k != mc.prims() || len(snap.Indices)%k != 0 {
			s.res.Violate("roundtrip-mismatch", site, s.input, fmt.Sprintf("primitive count %d (index count %d), wrote %d", len(snap.Indices)/k, len(snap.Indices), mc.prims()), wit())
			return snap
		}
		for cnr, v := range mc.Idx {
			pairs = append(pairs, [2]int{v, snap.Indices[cnr]})
		}
	}
	// attribute set
	wantKeys := map[string]bool{}
	for _, l := range s.lands {
		wantKeys[l.Key] = true
	}
	var problems []string
	for _, n := range snap.Names {
		if !wantKeys[n] {
			problems = append(problems, "unexpected "+n)
		}
	}
	for kname := range wantKeys {
		if _, ok := snap.Data[kname]; !ok {
			problems = append(problems, "missing "+kname)
		}
	}
	if len(problems) > 0 {
		sort.Strings(problems)
		s.res.Violate("roundtrip-mismatch", site, s.input, fmt.Sprintf("attribute set of the loaded mesh: %s (written columns: %s)", strings.Join(problems, ", "), s.colNames()), wit())
		return snap
	}
	tex := mc.attr(2, modeling.TexCoordAttribute)
	for _, l := range s.lands {
		d := snap.Data[l.Key]
		ar := int(l.Key[0] - '0')
		if isUCharScalar(l) && enc.name == "ascii" {
			if s.asciiUCharScalar(l, d, pairs, binaryDiv, knownRaw, site, wit) {
				continue
			}
			return snap
		}
		for pi, pr := range pairs {
			for cmp := 0; cmp < ar; cmp++ {
				var v float64
				typ := "float"
				if l.FromList {
					v = tex.Data[pr[0]][cmp]
				} else {
					col := l.Cols[cmp]
					v, typ = mc.Attrs[col.Attr].Data[pr[0]][col.Comp], col.Type
				}
				got := d[pr[1]*ar+cmp]
				if !readOK(v, got, typ, enc.name) {
					if isUCharScalar(l) {
						binaryDiv[l.Key] = false
					}
					what := fmt.Sprintf("corner %d (primitive %d)", pi, pi/k)
					if perVertex {
						what = fmt.Sprintf("vertex %d", pi)
					}
					s.res.Violate("roundtrip-mismatch", site, s.input, fmt.Sprintf("%s attribute %s[%d]: wrote %v (vertex %d, stored as %s), loaded %v (vertex %d)",
						what, l.Key[2:], cmp, v, pr[0], typ, got, pr[1]), wit())
					return snap
				}
			}
		}
		s.res.Count("values_compared", int64(len(pairs)*ar))
	}
	if perVertex {
		s.res.Count("vertices_compared", int64(len(pairs)))
	} else {
		s.res.Count("corners_compared", int64(len(pairs)))
	}
	return snap
}

func (s *caseState) colNames() string {
	var n []string
	for _, c := range s.cols {
		n = append(n, c.Type+" "+c.Ply)
	}
	return strings.Join(n, ", ")
}

// asciiUCharScalar decides the one column kind touched by the known finding:
// an 8-bit column that the ASCII reader loads through its scalar path. ÷255
// (what both binary decodes give) holds the property; the raw 0..255 reading,
// with both binary decodes on ÷255, is exactly the known finding; anything else
// is an ordinary round-trip violation. Returns false when an ordinary violation
// was raised.
func (s *caseState) asciiUCharScalar(l landed, d []float64, pairs [][2]int, binaryDiv, knownRaw map[string]bool, site string, wit func() map[string]any) bool {
	col := l.Cols[0]
	allDiv, allRaw := true, true
	var ex string
	for _, pr := range pairs {
		v := s.mc.Attrs[col.Attr].Data[pr[0]][col.Comp]
		got := d[pr[1]]
		if math.Abs(got-v) > 1.0/255+1e-12 {
			allDiv = false
			if ex == "" {
				ex = fmt.Sprintf("vertex %d: wrote %v as uchar property %s, ASCII loads %v", pr[0], v, col.Ply, got)
			}
		}
		if !(got == math.Trunc(got) && got >= 0 && got <= 255 && math.Abs(got/255-v) <= 1.0/255+1e-12) {
			allRaw = false
		}
	}
	s.res.Count("uchar_scalar_columns_read_from_ascii", 1)
	if allDiv {
		s.res.Count("values_compared", int64(len(pairs)))
		return true
	}
	if allRaw && binaryDiv[l.Key] {
		knownRaw[l.Key] = true
		s.res.Violate(knownClass, knownSite, "uchar-typed scalar property "+col.Ply,
			ex+" (= 255 × the value both binary encodings load)", wit())
		return true
	}
	s.res.Violate("roundtrip-mismatch", site, s.input, ex+" — neither v/255 nor the raw byte", wit())
	return false
}

// ---------------------------------------------------------------------------
// (3) the three encodings decode to the same result
// ---------------------------------------------------------------------------

func (s *caseState) crossHeaders(h [3]*plyfile.Header) {
	for _, pair := range [][2]int{{0, 1}, {1, 2}} {
		a, b := h[pair[0]], h[pair[1]]
		if a == nil || b == nil {
			continue
		}
		da, db := headerDecl(a), headerDecl(b)
		if da != db {
			s.res.Violate("encodings-disagree", "ply writer header "+encodings[pair[0]].name+" vs "+encodings[pair[1]].name, s.input,
				fmt.Sprintf("the two encodings of one mesh declare different elements/properties:\n%s\n--- vs ---\n%s", da, db), s.witness(nil))
		}
	}
}

func headerDecl(h *plyfile.Header) string {
	var sb strings.Builder
	for _, e := range h.Elements {
		fmt.Fprintf(&sb, "element %s %d\n", e.Name, e.Count)
		for _, p := range e.Props {
			if p.List {
				fmt.Fprintf(&sb, " list %s %s %s\n", p.CountType, p.Type, p.Name)
			} else {
				fmt.Fprintf(&sb, " %s %s\n", p.Type, p.Name)
			}
		}
	}
	fmt.Fprintf(&sb, "comments %q", h.Comments)
	return sb.String()
}

func (s *caseState) crossEncodings(snaps [3]*ref.Snapshot, knownRaw map[string]bool) {
	le, be, as := snaps[1], snaps[2], snaps[0]
	if le != nil && be != nil {
		if d := le.Diff(be); d != "" {
			s.res.Violate("encodings-disagree", "ply little-endian vs big-endian", s.input, "the two binary encodings of one mesh load to different meshes: "+d, s.witness(nil))
		} else {
			s.res.Count("encoding_pairs_equal_le_be", 1)
		}
	}
	if as == nil || le == nil {
		return
	}
	site := "ply ascii vs binary"
	diff := ""
	switch {
	case as.Topology != le.Topology:
		diff = fmt.Sprintf("topology %v vs %v", as.Topology, le.Topology)
	case len(as.Indices) != len(le.Indices):
		diff = fmt.Sprintf("index count %d vs %d", len(as.Indices), len(le.Indices))
	case strings.Join(as.Names, "|") != strings.Join(le.Names, "|"):
		diff = fmt.Sprintf("attributes %v vs %v", as.Names, le.Names)
	}
	if diff == "" {
		for i := range as.Indices {
			if as.Indices[i] != le.Indices[i] {
				diff = fmt.Sprintf("index[%d] %d vs %d", i, as.Indices[i], le.Indices[i])
				break
			}
		}
	}
	if diff == "" {
		types := map[string][]string{}
		ucharScalar := map[string]string{}
		for _, l := range s.lands {
			if isUCharScalar(l) {
				ucharScalar[l.Key] = l.Cols[0].Ply
			}
			ar := int(l.Key[0] - '0')
			t := make([]string, ar)
			for c := range t {
				t[c] = "float"
				if !l.FromList {
					t[c] = l.Cols[c].Type
				}
			}
			types[l.Key] = t
		}
	attrs:
		for _, n := range as.Names {
			a, b := as.Data[n], le.Data[n]
			if len(a) != len(b) {
				diff = fmt.Sprintf("attribute %s has %d vs %d numbers", n, len(a), len(b))
				break
			}
			if ucharScalar[n] != "" {
				// the column kind of the known finding, over the whole vertex table
				// (unreferenced vertices included): equal, or ASCII = the raw byte k
				// while binary = k/255 for every vertex. Anything else is ordinary.
				raw, differs := true, false
				for i := range a {
					if sameBits(a[i], b[i]) {
						continue
					}
					differs = true
					if !(a[i] == math.Trunc(a[i]) && a[i] >= 0 && a[i] <= 255 && sameBits(a[i]/255, b[i])) {
						raw = false
						diff = fmt.Sprintf("attribute %s vertex %d: ascii loads %v, binary loads %v (uchar column; neither equal nor raw-vs-÷255)", n[2:], i, a[i], b[i])
						break attrs
					}
				}
				if differs && raw {
					s.res.Violate(knownClass, knownSite, "uchar-typed scalar property "+ucharScalar[n],
						fmt.Sprintf("attribute %s: ASCII loads the raw byte (e.g. %v), both binary encodings load byte/255 (%v)", n[2:], firstDiff(a, b, 0), firstDiff(a, b, 1)), s.witness(nil))
				}
				continue
			}
			ar := int(n[0] - '0')
			t := types[n]
			for i := range a {
				ok := sameBits(a[i], b[i])
				if !ok && t != nil {
					switch t[i%ar] {
					case "float", "double", "int":
						// ASCII goes through a decimal rendering and a 32-bit parse
						ok = ref.EqF32Ulp(a[i], b[i], 1)
					}
				}
				if !ok {
					diff = fmt.Sprintf("attribute %s vertex %d component %d: ascii loads %v, binary loads %v", n[2:], i/ar, i%ar, a[i], b[i])
					break attrs
				}
			}
		}
	}
	if diff != "" {
		s.res.Violate("encodings-disagree", site, s.input, "ASCII and binary encodings of one mesh load to different meshes: "+diff, s.witness(nil))
		return
	}
	s.res.Count("encoding_pairs_equal_ascii_binary", 1)
}

func firstDiff(a, b []float64, which int) float64 {
	for i := range a {
		if !sameBits(a[i], b[i]) {
			if which == 0 {
				return a[i]
			}
			return b[i]
		}
	}
	return math.NaN()
}

// readerClass groups the source kinds by what a reader implementation can see of them.
func readerClass(kind string) string {
	switch kind {
	case "*bytes.Reader", "*bytes.Buffer", "*bufio.Reader":
		return "source implementing io.ByteReader"
	}
	return "plain io.Reader source"
}

// writeTo: the one place where a configuration is turned into a call of the library's writers.
func (cfg config) writeTo(w io.Writer, mesh modeling.Mesh, format ply.Format) error {
	switch cfg.Kind {
	case "default":
		return ply.Write(w, mesh, format)
	case "splat":
		return ply.SplatPly{Mesh: mesh}.Write(w)
	}
	return cfg.meshWriter(format).Write(mesh, w)
}

// blockExactCases: record counts that fill the blocks of a batching writer exactly.
// For every record kind the writer emits — face records of 13 bytes (no texture
// coordinates) and 38 bytes (with), vertex records of several property sets — and
// block sizes B ∈ {4096, 8192, 16384, 32768, 65536}: k·⌊B/recordSize⌋ records for
// k ∈ {1,2,3}, and one less / one more. Quick: the 64 KiB face cases (5041, 10082,
// 1724, 5172, each ±1) and six vertex cases; thorough: all of them.
func blockExactCases(tier string) []genOpts {
	type vset struct {
		name  string
		size  int
		attrs []paletteEntry
	}
	pos := paletteEntry{modeling.PositionAttribute, 3, 1, nil}
	nor := paletteEntry{modeling.NormalAttribute, 3, 1, nil}
	col := paletteEntry{modeling.ColorAttribute, 3, 1, []string{"unit"}}
	opa := paletteEntry{modeling.OpacityAttribute, 1, 1, nil}
	rot := paletteEntry{modeling.RotationAttribute, 4, 1, nil}
	sca := paletteEntry{modeling.ScaleAttribute, 3, 1, nil}
	usr := paletteEntry{"intensity", 1, 1, nil}
	vsets := []vset{
		{"xyz", 12, []paletteEntry{pos}},
		{"xyz+rgb", 15, []paletteEntry{pos, col}},
		{"xyz+n", 24, []paletteEntry{pos, nor}},
		{"xyz+n+rgb+opacity", 31, []paletteEntry{pos, nor, col, opa}},
		{"xyz+scale+rot", 40, []paletteEntry{pos, sca, rot}},
		{"xyz+intensity", 16, []paletteEntry{pos, usr}},
	}
	var out []genOpts
	face := func(rec, B, k, d int) {
		tex := 2
		if rec == 38 {
			tex = 1
		}
		n := k*(B/rec) + d
		out = append(out, genOpts{Large: true, ForcePrims: n, ForceTex: tex,
			BlockLabel: fmt.Sprintf("face %dB/B=%d/k=%d/%+d", rec, B, k, d)})
	}
	vertex := func(v vset, B, k, d int) {
		n := k*(B/v.size) + d
		out = append(out, genOpts{Large: true, ForceN: n, FixedAttrs: v.attrs, ForceTex: 2,
			BlockLabel: fmt.Sprintf("vertex %s %dB/B=%d/k=%d/%+d", v.name, v.size, B, k, d)})
	}
	if tier != "thorough" {
		for _, c := range [][2]int{{13, 1}, {13, 2}, {38, 1}, {38, 3}} {
			for _, d := range []int{-1, 0, 1} {
				face(c[0], 65536, c[1], d)
			}
		}
		vertex(vsets[0], 65536, 1, 0)
		vertex(vsets[0], 4096, 2, 0)
		vertex(vsets[2], 32768, 1, 0)
		vertex(vsets[1], 8192, 3, 0)
		vertex(vsets[3], 16384, 1, 1)
		vertex(vsets[4], 65536, 2, -1)
		return out
	}
	for _, B := range []int{4096, 8192, 16384, 32768, 65536} {
		for k := 1; k <= 3; k++ {
			for _, d := range []int{-1, 0, 1} {
				face(13, B, k, d)
				face(38, B, k, d)
				for _, v := range vsets {
					vertex(v, B, k, d)
				}
			}
		}
	}
	return out
}
