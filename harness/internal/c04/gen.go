package c04

import (
	"fmt"
	"math"
	"math/rand"
	"sort"
	"strings"

	"github.com/EliCDavis/polyform/formats/ply"
	"github.com/EliCDavis/polyform/modeling"
	"github.com/EliCDavis/vector/vector2"
	"github.com/EliCDavis/vector/vector3"
	"github.com/EliCDavis/vector/vector4"
)

// ---------------------------------------------------------------------------
// mesh under test: generated as plain numbers, materialised into a polyform mesh
// ---------------------------------------------------------------------------

type attrib struct {
	Name  string
	Arity int
	Class string      // unit | int | f32 | f64 | large | tiny | wide
	Data  [][]float64 // N × Arity
}

func (a attrib) key() string { return fmt.Sprintf("%d:%s", a.Arity, a.Name) }

type meshCase struct {
	Tri      bool
	N        int
	Idx      []int
	Attrs    []attrib
	TexURI   string // "" = no material
	Pattern  string
	Shared   bool
	Unref    bool
	Identity bool
}

func (mc *meshCase) prims() int {
	if mc.Tri {
		return len(mc.Idx) / 3
	}
	return len(mc.Idx)
}

func (mc *meshCase) attr(arity int, name string) *attrib {
	for i := range mc.Attrs {
		if mc.Attrs[i].Arity == arity && mc.Attrs[i].Name == name {
			return &mc.Attrs[i]
		}
	}
	return nil
}

func (mc *meshCase) build() modeling.Mesh {
	topo := modeling.PointTopology
	if mc.Tri {
		topo = modeling.TriangleTopology
	}
	idx := append([]int{}, mc.Idx...)
	m := modeling.NewMesh(topo, idx)
	bulkV1 := len(mc.Attrs) > 64
	if bulkV1 {
		// Set*Attribute copies the attribute table on every call
		all := map[string][]float64{}
		for _, a := range mc.Attrs {
			if a.Arity == 1 {
				d := make([]float64, mc.N)
				for i := range d {
					d[i] = a.Data[i][0]
				}
				all[a.Name] = d
			}
		}
		m = m.SetFloat1Data(all)
	}
	for _, a := range mc.Attrs {
		if bulkV1 && a.Arity == 1 {
			continue
		}
		switch a.Arity {
		case 1:
			d := make([]float64, mc.N)
			for i := range d {
				d[i] = a.Data[i][0]
			}
			m = m.SetFloat1Attribute(a.Name, d)
		case 2:
			d := make([]vector2.Float64, mc.N)
			for i := range d {
				d[i] = vector2.New(a.Data[i][0], a.Data[i][1])
			}
			m = m.SetFloat2Attribute(a.Name, d)
		case 3:
			d := make([]vector3.Float64, mc.N)
			for i := range d {
				d[i] = vector3.New(a.Data[i][0], a.Data[i][1], a.Data[i][2])
			}
			m = m.SetFloat3Attribute(a.Name, d)
		case 4:
			d := make([]vector4.Float64, mc.N)
			for i := range d {
				d[i] = vector4.New(a.Data[i][0], a.Data[i][1], a.Data[i][2], a.Data[i][3])
			}
			m = m.SetFloat4Attribute(a.Name, d)
		}
	}
	if mc.TexURI != "" {
		uri := mc.TexURI
		mat := &modeling.Material{Name: "mat", ColorTextureURI: &uri}
		m = m.SetMaterials([]modeling.MeshMaterial{{PrimitiveCount: mc.prims(), Material: mat}})
	}
	return m
}

var classes = []string{"unit", "int", "f32", "f64", "large", "tiny", "wide"}

func drawVal(r *rand.Rand, class string) float64 {
	switch class {
	case "unit":
		switch r.Intn(12) {
		case 0:
			return 0
		case 1:
			return 1
		case 2:
			return float64(r.Intn(256)) / 255
		case 3:
			return (float64(r.Intn(255)) + 0.5) / 255 // rounding boundary of the 8-bit quantiser
		}
		return r.Float64()
	case "int":
		switch r.Intn(10) {
		case 0:
			return float64(int32(r.Uint32())) // anywhere in int32
		case 1:
			return 0
		}
		return float64(r.Intn(2001) - 1000)
	case "f32":
		return float64(float32(r.Float64()*20 - 10))
	case "f64":
		if r.Intn(20) == 0 {
			return math.Copysign(0, -1)
		}
		return r.Float64()*20 - 10
	case "large":
		return (r.Float64() - 0.5) * 2e5
	case "tiny":
		return (r.Float64() - 0.5) * 1e-3
	case "wide":
		v := (1 + r.Float64()) * math.Pow(10, float64(r.Intn(41)-20))
		if r.Intn(2) == 0 {
			v = -v
		}
		return v
	case "huge-whole":
		return hugeWhole(r)
	}
	return r.Float64()
}

// hugeWhole: a whole number of magnitude in [2^53, 3e38] that is exactly
// representable in float32 (so every storage type holds it exactly), both signs;
// the int64 boundary and its neighbourhood are drawn on purpose.
func hugeWhole(r *rand.Rand) float64 {
	var v float64
	switch r.Intn(8) {
	case 0:
		v = math.Ldexp(1, 63)
	case 1:
		v = math.Ldexp(1, 64)
	case 2:
		v = math.Ldexp(1, 53+r.Intn(10)) // below the int64 range limit
	case 3:
		v = float64(float32(3e38 * (0.5 + r.Float64()/2)))
	default:
		v = float64(float32(math.Ldexp(1+r.Float64(), 53+r.Intn(75)))) // up to < 2^128·… = 3.4e38
	}
	if v > 3e38 {
		v = float64(float32(3e38))
	}
	if r.Intn(2) == 0 {
		v = -v
	}
	return v
}

// includeEmptyVertexRecords admits meshes / configurations for which the vertex
// element has records but no property (a mesh whose only attribute is TexCoord,
// which lives in the face list; a custom writer none of whose properties applies,
// with write-unspecified off). On the current tree the ASCII writer emits no line
// for such records, so the ASCII file does not match its header and cannot be
// read back, while the binary files round-trip (reported as a new defect by the
// author of this monitor; not listed in known_findings.json). With the switch on,
// that exact behaviour is reported as class "ascii-empty-vertex-record".
const includeEmptyVertexRecords = true

type genOpts struct {
	MinN, MaxN int
	// UCharScalar: the case carries at least one 8-bit property that the reader
	// loads through its scalar path (the known-finding configuration).
	UCharScalar bool
	Large       bool
	// ForceN: exactly this many vertices (directed sizes of the large phase)
	ForceN int
	// TexOnly: the directed triangle mesh whose only attribute is TexCoord
	TexOnly bool
	// Splat: written through ply.SplatPly (fixed property table, little-endian, no write-unspecified)
	Splat bool
	// Salt varies the per-file reader kinds between the sub-cases of one history
	Salt uint64
	// Wide: the directed wide-ASCII-row mesh (see wide.go)
	Wide *wideSpec
	// block-exact cases of the large phase: exactly this many triangles, texture
	// coordinates forced on (1) / off (2), a fixed attribute set written by ply.Write
	ForcePrims int
	ForceTex   int
	FixedAttrs []paletteEntry
	BlockLabel string
}

type paletteEntry struct {
	name    string
	arity   int
	p       float64
	classes []string
}

var recognisedPalette = []paletteEntry{
	{modeling.PositionAttribute, 3, 0.9, nil},
	{modeling.NormalAttribute, 3, 0.5, nil},
	{modeling.ColorAttribute, 3, 0.5, []string{"unit"}},
	{modeling.FDCAttribute, 3, 0.3, nil},
	{modeling.OpacityAttribute, 1, 0.35, nil},
	{modeling.ScaleAttribute, 3, 0.3, nil},
	{modeling.RotationAttribute, 4, 0.3, nil},
}

var userPalette = []paletteEntry{
	{"intensity", 1, 0.35, nil},
	{"custom", 1, 0.25, nil},
	{"f_rest_0", 1, 0.15, nil},
	{"Class", 1, 0.1, []string{"int"}},
	{"uv2", 2, 0.25, nil},
	{"velocity", 3, 0.25, nil},
	{"tangent", 4, 0.25, nil},
}

func genMesh(r *rand.Rand, o genOpts) *meshCase {
	mc := &meshCase{Tri: r.Intn(5) < 3}
	maxN := o.MaxN
	if maxN == 0 {
		maxN = 40
	}
	n := o.MinN + r.Intn(maxN-o.MinN+1)
	if !o.Large && r.Intn(3) == 0 {
		n = 1 + r.Intn(8)
	} else if !o.Large && r.Intn(10) == 0 {
		n = 41 + r.Intn(260) // up to 300 vertices (DESIGN §2)
	}
	if !o.Large && !o.UCharScalar && r.Intn(20) == 0 {
		n = 0
	}
	if o.ForceN > 0 {
		n = o.ForceN
	}
	if o.TexOnly {
		mc.Tri = true
		if n < 3 {
			n = 3 + r.Intn(6)
		}
	}
	if o.Wide != nil {
		n = len(o.Wide.Widths)
		mc.Tri = r.Intn(3) == 0
	}
	if o.ForcePrims > 0 {
		mc.Tri = true
		n = 200 + r.Intn(3000)
	}
	if o.FixedAttrs != nil && o.ForcePrims == 0 {
		mc.Tri = r.Intn(3) == 0
	}
	mc.N = n

	// --- indices
	if mc.Tri {
		pats := []string{"unwelded", "permutation", "welded", "unreferenced", "repeated", "random", "nofaces"}
		pat := pats[r.Intn(len(pats))]
		if o.TexOnly {
			pat = []string{"unwelded", "welded", "welded", "permutation", "random", "nofaces"}[r.Intn(6)]
		}
		if n == 0 {
			pat = "nofaces"
		}
		if o.Large && pat == "nofaces" {
			pat = "welded"
		}
		maxP := 2*n/3 + 2
		np := 1 + r.Intn(maxP)
		if o.ForcePrims > 0 {
			np = o.ForcePrims
			pat = []string{"welded", "random", "unreferenced", "repeated"}[r.Intn(4)]
		}
		switch pat {
		case "unwelded":
			k := n - n%3
			mc.Idx = make([]int, k)
			for i := range mc.Idx {
				mc.Idx[i] = i
			}
		case "permutation":
			mc.Idx = r.Perm(n)[:n-n%3]
		case "welded":
			for p := 0; p < np; p++ {
				base := r.Intn(n)
				for c := 0; c < 3; c++ {
					mc.Idx = append(mc.Idx, (base+c*(1+r.Intn(2)))%n)
				}
			}
		case "unreferenced":
			lim := n / 2
			if lim < 1 {
				lim = 1
			}
			for i := 0; i < np*3; i++ {
				mc.Idx = append(mc.Idx, r.Intn(lim))
			}
		case "repeated":
			for p := 0; p < np; p++ {
				if p > 0 && r.Intn(3) == 0 {
					q := r.Intn(p)
					mc.Idx = append(mc.Idx, mc.Idx[q*3:q*3+3]...)
					continue
				}
				a := r.Intn(n)
				for c := 0; c < 3; c++ {
					if c > 0 && r.Intn(4) == 0 {
						mc.Idx = append(mc.Idx, a)
					} else {
						mc.Idx = append(mc.Idx, r.Intn(n))
					}
				}
			}
		case "random":
			for i := 0; i < np*3; i++ {
				mc.Idx = append(mc.Idx, r.Intn(n))
			}
		case "nofaces":
		}
		mc.Pattern = pat
	} else {
		mc.Pattern = "identity"
		mc.Idx = make([]int, n)
		for i := range mc.Idx {
			mc.Idx[i] = i
		}
		if n > 1 && r.Intn(10) == 0 {
			// a cloud whose index list is not 0..n-1 (PLY cannot express it: only the
			// vertex table is written) — checked per vertex, see the oracle
			switch r.Intn(3) {
			case 0:
				mc.Pattern = "cloud-permutation"
				mc.Idx = r.Perm(n)
			case 1:
				mc.Pattern = "cloud-subset"
				mc.Idx = r.Perm(n)[:1+r.Intn(n-1)]
			default:
				mc.Pattern = "cloud-repeats"
				k := 1 + r.Intn(2*n)
				mc.Idx = make([]int, k)
				for i := range mc.Idx {
					mc.Idx[i] = r.Intn(n)
				}
			}
		}
	}
	refc := make([]int, n)
	mc.Identity = len(mc.Idx) == n
	for i, v := range mc.Idx {
		refc[v]++
		if v != i {
			mc.Identity = false
		}
	}
	for _, c := range refc {
		if c == 0 {
			mc.Unref = true
		}
		if c > 1 {
			mc.Shared = true
		}
	}

	// --- attributes
	add := func(e paletteEntry) {
		cl := e.classes
		if cl == nil {
			cl = classes
		}
		class := cl[r.Intn(len(cl))]
		if r.Intn(20) == 0 {
			for _, x := range cl {
				if x == "wide" { // attributes without a value-range restriction
					class = "huge-whole"
				}
			}
		}
		a := attrib{Name: e.name, Arity: e.arity, Class: class, Data: make([][]float64, n)}
		for i := range a.Data {
			row := make([]float64, e.arity)
			for k := range row {
				row[k] = drawVal(r, class)
			}
			// duplicated rows make wrong vertex look-ups visible only through other rows; keep most distinct
			a.Data[i] = row
		}
		mc.Attrs = append(mc.Attrs, a)
	}
	scale := 1.0
	if o.Large {
		scale = 0.5
	}
	if o.ForceN > 0 {
		scale = 0.3 // the directed sizes are about record counts, not attribute mixes
	}
	for _, e := range recognisedPalette {
		if r.Float64() < e.p*scale || (o.Large && e.name == modeling.PositionAttribute) {
			add(e)
		}
	}
	if r.Intn(12) == 0 && mc.attr(3, modeling.ColorAttribute) == nil {
		add(paletteEntry{modeling.ColorAttribute, 4, 1, []string{"unit"}}) // RGBA
	}
	for _, e := range userPalette {
		if r.Float64() < e.p*scale {
			add(e)
		}
	}
	if o.FixedAttrs != nil {
		mc.Attrs = nil
		for _, e := range o.FixedAttrs {
			add(e)
		}
	}
	if o.ForceTex == 1 {
		add(paletteEntry{modeling.TexCoordAttribute, 2, 1, []string{"unit", "f64", "f32", "wide"}})
	} else if o.ForceTex == 0 && o.FixedAttrs == nil && ((mc.Tri && r.Intn(2) == 0) || (!mc.Tri && r.Intn(8) == 0)) {
		// on a cloud the format has no place for it unless a property writer stores it as s/t
		add(paletteEntry{modeling.TexCoordAttribute, 2, 1, []string{"unit", "f64", "f32", "wide"}})
	}
	if o.UCharScalar {
		// the known-finding configuration needs a scalar in [0,1]
		names := []string{"confidence", "quality", modeling.OpacityAttribute}
		nm := names[r.Intn(len(names))]
		if a := mc.attr(1, nm); a != nil {
			for i := range a.Data {
				a.Data[i][0] = drawVal(r, "unit")
			}
			a.Class = "unit"
		} else {
			add(paletteEntry{nm, 1, 1, []string{"unit"}})
		}
	}
	if o.TexOnly {
		mc.Attrs = nil
		add(paletteEntry{modeling.TexCoordAttribute, 2, 1, []string{"unit", "f64", "f32", "wide"}})
	}
	if o.Wide != nil {
		mc.Attrs = wideAttrs(r, *o.Wide)
	}
	if o.Splat {
		// SplatPly writes a fixed table: make sure it has something to write
		for _, e := range recognisedPalette {
			if mc.attr(e.arity, e.name) == nil && (e.name == modeling.PositionAttribute || (e.name != modeling.ColorAttribute && r.Intn(2) == 0)) && n > 0 {
				add(e)
			}
		}
	}
	if n > 0 && len(mc.Attrs) == 0 {
		add(recognisedPalette[0])
	}
	// a mesh whose only attribute is the texture coordinate has an empty vertex
	// record (texcoords live in the face list): give it positions, the statement is
	// about meshes that have something per vertex to store
	onlyTex := len(mc.Attrs) == 1 && mc.Attrs[0].Name == modeling.TexCoordAttribute && mc.Attrs[0].Arity == 2
	if onlyTex && !(includeEmptyVertexRecords && mc.Tri) { // cloud texcoords are not written at all: a texcoord-only cloud has nothing to round-trip
		add(recognisedPalette[0])
	}
	if n == 0 {
		mc.Attrs = nil // Set*Attribute drops empty arrays: a mesh without vertices has no attributes
	}
	if mc.Tri && r.Intn(6) == 0 {
		mc.TexURI = []string{"tex.png", "my texture file.jpg", "textures/albedo_0.png"}[r.Intn(3)]
	}
	return mc
}

// ---------------------------------------------------------------------------
// writer configuration
// ---------------------------------------------------------------------------

type wspec struct {
	Attr  string
	Arity int
	Names []string
	Type  string // float | double | uchar | int
	Ptr   bool
}

type config struct {
	Kind        string // default | custom
	Writers     []wspec
	Unspecified bool
}

// what ply.Write documents as its layout (write.go): the default property table
var defaultWriters = []wspec{
	{modeling.PositionAttribute, 3, []string{"x", "y", "z"}, "float", false},
	{modeling.NormalAttribute, 3, []string{"nx", "ny", "nz"}, "float", false},
	{modeling.ColorAttribute, 3, []string{"red", "green", "blue"}, "uchar", false},
	{modeling.FDCAttribute, 3, []string{"f_dc_0", "f_dc_1", "f_dc_2"}, "float", false},
	{modeling.OpacityAttribute, 1, []string{"opacity"}, "float", false},
	{modeling.ScaleAttribute, 3, []string{"scale_0", "scale_1", "scale_2"}, "float", false},
	{modeling.RotationAttribute, 4, []string{"rot_0", "rot_1", "rot_2", "rot_3"}, "float", false},
}

// names under which the reader recognises an attribute (first = canonical)
var recognisedNames = map[string][][]string{
	"3:Position": {{"x", "y", "z"}, {"px", "py", "pz"}, {"posx", "posy", "posz"}},
	"3:Normal":   {{"nx", "ny", "nz"}, {"normalx", "normaly", "normalz"}},
	"3:Color":    {{"red", "green", "blue"}, {"r", "g", "b"}, {"diffuse_red", "diffuse_green", "diffuse_blue"}},
	"4:Color":    {{"red", "green", "blue", "alpha"}, {"r", "g", "b", "a"}, {"diffuse_red", "diffuse_green", "diffuse_blue", "diffuse_alpha"}},
	"2:TexCoord": {{"s", "t"}},
	"3:FDC":      {{"f_dc_0", "f_dc_1", "f_dc_2"}},
	"1:Opacity":  {{"opacity"}},
	"3:Scale":    {{"scale_0", "scale_1", "scale_2"}},
	"4:Rotation": {{"rot_0", "rot_1", "rot_2", "rot_3"}},
}

func plyType(t string) ply.ScalarPropertyType {
	switch t {
	case "float":
		return ply.Float
	case "double":
		return ply.Double
	case "uchar":
		return ply.UChar
	case "int":
		return ply.Int
	}
	panic("harness: unknown type " + t)
}

// the property table of ply.SplatPly.Write (formats/ply/fs.go): float columns, no write-unspecified
func splatWriters() []wspec {
	ws := []wspec{
		{modeling.PositionAttribute, 3, []string{"x", "y", "z"}, "float", false},
		{modeling.NormalAttribute, 3, []string{"nx", "ny", "nz"}, "float", false},
		{modeling.FDCAttribute, 3, []string{"f_dc_0", "f_dc_1", "f_dc_2"}, "float", false},
		{modeling.ScaleAttribute, 3, []string{"scale_0", "scale_1", "scale_2"}, "float", false},
		{modeling.RotationAttribute, 4, []string{"rot_0", "rot_1", "rot_2", "rot_3"}, "float", false},
		{modeling.OpacityAttribute, 1, []string{"opacity"}, "float", false},
	}
	for i := 0; i < 45; i++ {
		n := fmt.Sprintf("f_rest_%d", i)
		ws = append(ws, wspec{n, 1, []string{n}, "float", false})
	}
	return ws
}

func genConfig(r *rand.Rand, mc *meshCase, o genOpts) config {
	if o.FixedAttrs != nil {
		return config{Kind: "default", Writers: defaultWriters, Unspecified: true}
	}
	if o.Wide != nil {
		return wideConfig(r, mc)
	}
	if o.Splat {
		return config{Kind: "splat", Writers: splatWriters(), Unspecified: false}
	}
	if o.TexOnly {
		// directed: default writer | custom writer storing s/t per vertex | custom writer with nothing to apply
		switch r.Intn(10) {
		case 0, 1, 2, 3:
			return config{Kind: "default", Writers: defaultWriters, Unspecified: true}
		case 4, 5, 6:
			typ := []string{"float", "double"}[r.Intn(2)]
			return config{Kind: "custom", Unspecified: r.Intn(2) == 0,
				Writers: []wspec{{Attr: modeling.TexCoordAttribute, Arity: 2, Names: []string{"s", "t"}, Type: typ, Ptr: r.Intn(2) == 0}}}
		default:
			cfg := config{Kind: "custom", Unspecified: r.Intn(2) == 0}
			if r.Intn(2) == 0 {
				cfg.Writers = append(cfg.Writers, defaultWriters[0])
			}
			return cfg
		}
	}
	if !o.UCharScalar && r.Intn(5) < 2 {
		return config{Kind: "default", Writers: defaultWriters, Unspecified: true}
	}
	cfg := config{Kind: "custom", Unspecified: r.Intn(2) == 0}
	forcedUChar := false
	for _, a := range mc.Attrs {
		if a.Arity == 2 && a.Name == modeling.TexCoordAttribute {
			// carried by the face list; as vertex columns s/t only now and then
			if r.Intn(6) != 0 {
				continue
			}
		} else if r.Intn(100) >= 65 && !(o.UCharScalar && a.Arity == 1 && a.Class == "unit" && !forcedUChar) {
			continue
		}
		w := wspec{Attr: a.Name, Arity: a.Arity, Ptr: r.Intn(2) == 0}
		rec := recognisedNames[a.key()]
		recognised := false
		switch {
		case rec != nil && r.Intn(10) < 6:
			w.Names = rec[0]
			recognised = true
		case rec != nil && len(rec) > 1 && r.Intn(2) == 0:
			w.Names = rec[1+r.Intn(len(rec)-1)]
			recognised = true
		default:
			if a.Arity == 1 {
				w.Names = []string{"c_" + strings.ToLower(a.Name)}
				if r.Intn(2) == 0 {
					w.Names = []string{a.Name}
				}
			} else {
				for k := 0; k < a.Arity; k++ {
					w.Names = append(w.Names, fmt.Sprintf("c_%s_%c", strings.ToLower(a.Name), "xyzw"[k]))
				}
			}
		}
		// property type by what the values allow
		types := []string{"float", "double"}
		if a.Class == "int" {
			types = append(types, "int", "int")
		}
		// 8-bit storage: in the main phases only where the reader loads the group
		// through a vector reader; the scalar path is the known finding (own phase)
		vectorRead := recognised && a.Arity > 1
		if a.Class == "unit" && (vectorRead || o.UCharScalar) {
			types = append(types, "uchar", "uchar")
		}
		w.Type = types[r.Intn(len(types))]
		if o.UCharScalar && !forcedUChar && a.Arity == 1 && a.Class == "unit" {
			w.Type = "uchar"
			forcedUChar = true
		}
		cfg.Writers = append(cfg.Writers, w)
	}
	// now and then a second writer for an attribute that already has one: both are written
	if len(cfg.Writers) > 0 && r.Intn(10) == 0 {
		w := cfg.Writers[r.Intn(len(cfg.Writers))]
		a := mc.attr(w.Arity, w.Attr)
		var names []string
		for k := 0; k < w.Arity; k++ {
			names = append(names, fmt.Sprintf("d_%s_%d", strings.ToLower(w.Attr), k))
		}
		w.Names, w.Ptr = names, !w.Ptr
		w.Type = "float"
		if a.Class == "int" && r.Intn(2) == 0 {
			w.Type = "int"
		} else if r.Intn(2) == 0 {
			w.Type = "double"
		}
		cfg.Writers = append(cfg.Writers, w)
	}
	// writers for attributes the mesh does not have (must be skipped by the writer)
	for _, d := range defaultWriters {
		if mc.attr(d.Arity, d.Attr) == nil && r.Intn(4) == 0 {
			d.Ptr = r.Intn(2) == 0
			cfg.Writers = append(cfg.Writers, d)
		}
	}
	if r.Intn(5) == 0 {
		cfg.Writers = append(cfg.Writers, wspec{Attr: "absent", Arity: 1 + r.Intn(4), Names: []string{"ab_0", "ab_1", "ab_2", "ab_3"}, Type: "float"})
		w := &cfg.Writers[len(cfg.Writers)-1]
		w.Names = w.Names[:w.Arity]
	}
	r.Shuffle(len(cfg.Writers), func(i, j int) { cfg.Writers[i], cfg.Writers[j] = cfg.Writers[j], cfg.Writers[i] })
	if mc.N > 0 && len(expectedColumns(mc, cfg)) == 0 && !(includeEmptyVertexRecords && onlyTexCoordTriMesh(mc)) {
		// a writer configuration that writes none of the mesh's attributes cannot round-trip anything:
		// not a file this property talks about (the texcoord-only triangle mesh is: its data lives in the face list)
		cfg.Unspecified = true
	}
	return cfg
}

func onlyTexCoordTriMesh(mc *meshCase) bool {
	return mc.Tri && len(mc.Attrs) == 1 && mc.Attrs[0].Name == modeling.TexCoordAttribute && mc.Attrs[0].Arity == 2
}

func (cfg config) meshWriter(format ply.Format) ply.MeshWriter {
	mw := ply.MeshWriter{Format: format, WriteUnspecifiedProperties: cfg.Unspecified}
	for _, w := range cfg.Writers {
		var pw ply.PropertyWriter
		t := plyType(w.Type)
		switch w.Arity {
		case 1:
			v := ply.Vector1PropertyWriter{ModelAttribute: w.Attr, PlyProperty: w.Names[0], Type: t}
			if w.Ptr {
				pw = &v
			} else {
				pw = v
			}
		case 2:
			v := ply.Vector2PropertyWriter{ModelAttribute: w.Attr, PlyPropertyX: w.Names[0], PlyPropertyY: w.Names[1], Type: t}
			if w.Ptr {
				pw = &v
			} else {
				pw = v
			}
		case 3:
			v := ply.Vector3PropertyWriter{ModelAttribute: w.Attr, PlyPropertyX: w.Names[0], PlyPropertyY: w.Names[1], PlyPropertyZ: w.Names[2], Type: t}
			if w.Ptr {
				pw = &v
			} else {
				pw = v
			}
		case 4:
			v := ply.Vector4PropertyWriter{ModelAttribute: w.Attr, PlyPropertyX: w.Names[0], PlyPropertyY: w.Names[1], PlyPropertyZ: w.Names[2], PlyPropertyW: w.Names[3], Type: t}
			if w.Ptr {
				pw = &v
			} else {
				pw = v
			}
		}
		mw.Properties = append(mw.Properties, pw)
	}
	return mw
}

func (cfg config) sig() string {
	if cfg.Kind == "default" || cfg.Kind == "splat" {
		return cfg.Kind
	}
	var ws []string
	for _, w := range cfg.Writers {
		p := ""
		if w.Ptr {
			p = "*"
		}
		ws = append(ws, fmt.Sprintf("%s%d:%s>%s:%s", p, w.Arity, w.Attr, w.Names[0], w.Type))
	}
	sort.Strings(ws)
	return fmt.Sprintf("custom[%s]u=%v", strings.Join(ws, ","), cfg.Unspecified)
}

// ---------------------------------------------------------------------------
// what the configuration says the vertex element holds
// ---------------------------------------------------------------------------

type column struct {
	Ply  string
	Type string
	Attr int // index into meshCase.Attrs
	Comp int
}

// expectedColumns: every configured property writer whose attribute (of that
// arity) the mesh has contributes its properties; with write-unspecified every
// other attribute is written as float columns name_k (scalars: name), except
// the texture coordinate, which belongs to the face list.
func expectedColumns(mc *meshCase, cfg config) []column {
	var cols []column
	claimed := map[string]bool{}
	find := func(arity int, name string) int {
		for i, a := range mc.Attrs {
			if a.Arity == arity && a.Name == name {
				return i
			}
		}
		return -1
	}
	for _, w := range cfg.Writers {
		ai := find(w.Arity, w.Attr)
		if ai < 0 {
			continue
		}
		claimed[mc.Attrs[ai].key()] = true
		for k, n := range w.Names {
			cols = append(cols, column{Ply: n, Type: w.Type, Attr: ai, Comp: k})
		}
	}
	if cfg.Unspecified {
		for i, a := range mc.Attrs {
			if claimed[a.key()] || (a.Arity == 2 && a.Name == modeling.TexCoordAttribute) {
				continue
			}
			if a.Arity == 1 {
				cols = append(cols, column{Ply: a.Name, Type: "float", Attr: i, Comp: 0})
				continue
			}
			for k := 0; k < a.Arity; k++ {
				cols = append(cols, column{Ply: fmt.Sprintf("%s_%d", a.Name, k), Type: "float", Attr: i, Comp: k})
			}
		}
	}
	return cols
}

// landing: where the default reader puts a vertex column — the groups it
// recognises become vector attributes, every other column a scalar attribute of
// its own name.
type landed struct {
	Key  string // "arity:name"
	Cols []column
	// FromList: the per-corner texture coordinate list of the face element
	FromList bool
}

type rgroup struct {
	names      []string
	attr       string
	ignorableW bool
}

var readerGroups = []rgroup{
	{[]string{"x", "y", "z"}, "Position", false},
	{[]string{"px", "py", "pz"}, "Position", false},
	{[]string{"posx", "posy", "posz"}, "Position", false},
	{[]string{"nx", "ny", "nz"}, "Normal", false},
	{[]string{"normalx", "normaly", "normalz"}, "Normal", false},
	{[]string{"red", "green", "blue", "alpha"}, "Color", true},
	{[]string{"r", "g", "b", "a"}, "Color", true},
	{[]string{"diffuse_red", "diffuse_green", "diffuse_blue", "diffuse_alpha"}, "Color", true},
	{[]string{"s", "t"}, "TexCoord", false},
	{[]string{"f_dc_0", "f_dc_1", "f_dc_2"}, "FDC", false},
	{[]string{"opacity"}, "Opacity", false},
	{[]string{"scale_0", "scale_1", "scale_2"}, "Scale", false},
	{[]string{"rot_0", "rot_1", "rot_2", "rot_3"}, "Rotation", false},
}

func landing(cols []column) []landed {
	by := map[string]column{}
	for _, c := range cols {
		by[c.Ply] = c
	}
	used := map[string]bool{}
	var out []landed
	for _, g := range readerGroups {
		take := func(names []string) bool {
			var cs []column
			for _, n := range names {
				c, ok := by[n]
				if !ok || (len(cs) > 0 && cs[0].Type != c.Type) {
					return false
				}
				cs = append(cs, c)
			}
			for _, n := range names {
				used[n] = true
			}
			out = append(out, landed{Key: fmt.Sprintf("%d:%s", len(names), g.attr), Cols: cs})
			return true
		}
		if !take(g.names) && g.ignorableW {
			take(g.names[:3])
		}
	}
	for _, c := range cols {
		if !used[c.Ply] {
			out = append(out, landed{Key: "1:" + c.Ply, Cols: []column{c}})
		}
	}
	return out
}
