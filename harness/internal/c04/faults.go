package c04

import (
	"bytes"
	"errors"
	"fmt"
	"io"
	"strings"

	"github.com/EliCDavis/polyform/formats/ply"
	"github.com/EliCDavis/polyform/modeling"
	"polyverif/internal/c04/plyfile"
	"polyverif/internal/ref"
	"polyverif/internal/run"
)

// --- phase fault-sequences ----------------------------------------------------------
//
// One case = a short history (3–8 operations, one goroutine) that interleaves
// operations on GOOD destinations / sources with operations on FAILING ones:
//
//	G   a fresh mesh × configuration (ply.Write or custom MeshWriter) through the complete
//	    ordinary oracle: three encodings, independent sizing/decoding, read-back, cross-encoding
//	Gs  the same for ply.SplatPly.Write (little-endian)
//	Fw  ply.Write / MeshWriter.Write / SplatPly.Write of a fresh mesh to a writer that fails
//	    for good after k bytes (refusing the write, or accepting a part of it): k inside the
//	    header, the first vertex record, the middle of the vertex records, around 32 KiB
//	    (absolute and counted from the body start), the face records, or the very last byte
//	Fr  ply.ReadMesh of a freshly written file from a reader that fails after k bytes
//
// Oracle: no call may panic; a write that was cut strictly inside the data that
// MeshWriter itself pushes to the destination must report an error; a read that
// was cut before its last record must report an error; a read that reports none
// must have produced the complete mesh; every good operation must satisfy its
// complete ordinary oracle whatever failed before it (no state may leak from a
// failed call into a later one).

var errInjected = errors.New("injected I/O failure")

type failWriter struct {
	limit   int
	partial bool
	n       int
	failed  bool
	calls   int
}

func (w *failWriter) Write(p []byte) (int, error) {
	w.calls++
	if w.failed {
		return 0, errInjected
	}
	room := w.limit - w.n
	if len(p) <= room {
		w.n += len(p)
		return len(p), nil
	}
	w.failed = true
	if w.partial {
		w.n += room
		return room, errInjected
	}
	return 0, errInjected
}

type failReader struct {
	data     []byte
	limit    int
	chunk    int
	withData bool
	err      error
	pos      int
}

func (r *failReader) Read(p []byte) (int, error) {
	if r.pos >= r.limit {
		return 0, r.err
	}
	n := len(p)
	if n > r.chunk {
		n = r.chunk
	}
	if n > r.limit-r.pos {
		n = r.limit - r.pos
	}
	copy(p, r.data[r.pos:r.pos+n])
	r.pos += n
	if r.pos >= r.limit && r.withData {
		return n, r.err
	}
	return n, nil
}

func merge(dst *run.Result, src run.Result, step string) {
	for k, v := range src.Counters {
		dst.Count(k, v)
	}
	for k, els := range src.Sets {
		for _, e := range els {
			dst.SetAdd(k, e)
		}
	}
	for _, v := range src.Violations {
		dst.Violate(v.Class, v.Site, step+": "+v.Input, v.Detail, v.Witness)
	}
	if src.Inconclusive != "" && dst.Inconclusive == "" {
		dst.Inconclusive = step + ": " + src.Inconclusive
	}
}

func panicClass(p *run.PanicInfo) string {
	if p.Runtime {
		return "runtime-panic"
	}
	return "panic"
}

// faultOpts: mostly small meshes, sometimes enough records for several 32 KiB blocks.
func faultOpts(c *run.Ctx, step int) genOpts {
	o := genOpts{MinN: 1, Salt: uint64(step + 1)}
	switch p := c.Rng.Intn(10); {
	case p < 6:
		o.MaxN = 40
	case p < 9:
		o.MinN, o.MaxN, o.Large = 300, 1500, true
	default:
		o.MinN, o.MaxN, o.Large = 1500, 5000, true
	}
	if c.Rng.Intn(5) == 0 {
		o.Splat = true
	}
	return o
}

// fileRegions: where header, vertex records and face records of a written file lie.
type fileRegions struct {
	total, body, firstRecEnd, vertexEnd int
}

func regionsOf(data []byte, mc *meshCase) (fileRegions, error) {
	h, err := plyfile.ParseHeader(data)
	if err != nil {
		return fileRegions{}, err
	}
	fr := fileRegions{total: len(data), body: h.BodyOffset}
	fr.firstRecEnd, fr.vertexEnd = fr.body, fr.body
	if h.Format == "ascii" {
		pos := fr.body
		for i := 0; i < mc.N && pos < len(data); i++ {
			k := bytes.IndexByte(data[pos:], '\n')
			if k < 0 {
				break
			}
			pos += k + 1
			if i == 0 {
				fr.firstRecEnd = pos
			}
		}
		fr.vertexEnd = pos
	} else if len(h.Elements) > 0 {
		rs := h.Elements[0].RecordSize()
		if rs > 0 && mc.N > 0 {
			fr.firstRecEnd = fr.body + rs
			fr.vertexEnd = fr.body + rs*mc.N
		}
	}
	return fr, nil
}

func between(c *run.Ctx, lo, hi int) int { // a position in [lo, hi)
	if hi <= lo {
		return lo
	}
	return lo + c.Rng.Intn(hi-lo)
}

// faultAt draws the number of bytes after which the stream fails.
func faultAt(c *run.Ctx, fr fileRegions) (k int, where string) {
	opts := []string{"header", "header", "last-byte"}
	if fr.firstRecEnd > fr.body {
		opts = append(opts, "first-record", "first-record")
	}
	if fr.vertexEnd > fr.firstRecEnd+1 {
		opts = append(opts, "mid-records", "mid-records", "mid-records", "mid-records")
	}
	if fr.total > fr.vertexEnd+1 {
		opts = append(opts, "face-records", "face-records")
	}
	if fr.vertexEnd > 32768+2 {
		opts = append(opts, "32KiB", "32KiB", "32KiB", "32KiB", "32KiB", "32KiB")
	}
	where = opts[c.Rng.Intn(len(opts))]
	switch where {
	case "header":
		k = between(c, 0, fr.body)
	case "first-record":
		k = between(c, fr.body, fr.firstRecEnd)
	case "mid-records":
		k = between(c, fr.firstRecEnd, fr.vertexEnd-1)
	case "face-records":
		k = between(c, fr.vertexEnd, fr.total-1)
	case "32KiB":
		base := []int{0, fr.body}[c.Rng.Intn(2)]
		blocks := 1
		if fr.vertexEnd-base > 2*32768+2 && c.Rng.Intn(2) == 0 {
			blocks = 2
		}
		k = base + blocks*32768 + c.Rng.Intn(5) - 2
		if k >= fr.vertexEnd-1 {
			k = fr.vertexEnd - 2
		}
	case "last-byte":
		k = fr.total - 1
	}
	if k < 0 {
		k = 0
	}
	return k, where
}

func faultSequences(c *run.Ctx) run.Result {
	var res run.Result
	r := c.Rng
	L := 3 + r.Intn(6)
	ops := make([]string, L)
	fkinds := []string{"Fw", "Fw", "Fw", "Fr"}
	for i := range ops {
		if r.Intn(2) == 0 {
			ops[i] = fkinds[r.Intn(len(fkinds))]
		} else {
			ops[i] = "G"
		}
	}
	ops[L-1] = "G"
	ops[r.Intn(L-1)] = fkinds[r.Intn(len(fkinds))]
	if r.Intn(2) == 0 {
		ops[L-2] = "Fw" // a failing write right before the last good operation
	}
	var codes []string
	pendingBodyFault, bodyFaultBeforeGood := false, false
	for i, op := range ops {
		step := fmt.Sprintf("step %d/%d %s of history %v", i+1, L, op, ops)
		switch op {
		case "G":
			o := faultOpts(c, i)
			sub := runCase(c, o)
			merge(&res, sub, step)
			code := "G"
			if o.Splat {
				code = "Gs"
			}
			codes = append(codes, code)
			res.Count("good_ops_in_histories", 1)
			if pendingBodyFault {
				bodyFaultBeforeGood = true
				res.Count("good_ops_after_a_failure_in_the_records", 1)
			}
		case "Fw":
			where := failingWrite(c, &res, step, i)
			codes = append(codes, "Fw:"+where)
			if where != "header" {
				pendingBodyFault = true
			}
		case "Fr":
			where := failingRead(c, &res, step, i)
			codes = append(codes, "Fr:"+where)
			if where != "header" {
				pendingBodyFault = true
			}
		}
	}
	res.Sig = "fault/" + strings.Join(codes, ",")
	res.Nontrivial = bodyFaultBeforeGood
	res.Sample = map[string]any{"history": codes}
	res.Count("fault_histories", 1)
	return res
}

// one mesh × configuration × encoding, written once to memory (to learn its layout)
type writtenFile struct {
	mc   *meshCase
	cfg  config
	mesh modeling.Mesh
	enc  encoding
	data []byte
	fr   fileRegions
	site string
}

func freshFile(c *run.Ctx, res *run.Result, step string, i int) *writtenFile {
	o := faultOpts(c, i)
	mc := genMesh(c.Rng, o)
	cfg := genConfig(c.Rng, mc, o)
	w := &writtenFile{mc: mc, cfg: cfg, mesh: mc.build(), enc: encodings[c.Rng.Intn(3)]}
	w.site = "ply.MeshWriter.Write"
	switch cfg.Kind {
	case "default":
		w.site = "ply.Write"
	case "splat":
		w.site, w.enc = "ply.SplatPly.Write", encodings[1]
	}
	buf := &bytes.Buffer{}
	var err error
	p := run.Try(func() { err = cfg.writeTo(buf, w.mesh, w.enc.format) })
	if p != nil || err != nil {
		// the ordinary phases report this; a history just goes on
		res.Count("fault_steps_skipped(write to memory failed)", 1)
		return nil
	}
	w.data = buf.Bytes()
	fr, perr := regionsOf(w.data, mc)
	if perr != nil {
		res.Count("fault_steps_skipped(header unreadable)", 1)
		return nil
	}
	w.fr = fr
	return w
}

func (w *writtenFile) witness(step string) map[string]any {
	return map[string]any{"step": step, "mesh": fmt.Sprintf("%s n=%d prims=%d %s", topoName(w.mc), w.mc.N, w.mc.prims(), w.mc.Pattern),
		"config": w.cfg.sig(), "encoding": w.enc.name, "bytes": w.fr.total, "body_offset": w.fr.body, "vertex_records_end": w.fr.vertexEnd}
}

func failingWrite(c *run.Ctx, res *run.Result, step string, i int) string {
	w := freshFile(c, res, step, i)
	if w == nil {
		return "skipped"
	}
	k, where := faultAt(c, w.fr)
	if where == "last-byte" && w.enc.name == "ascii" && w.fr.vertexEnd == w.fr.total && k > 0 {
		// The final line terminator of an ASCII file that ends with a vertex record is
		// written with an unchecked writer.Write (formats/ply/writer.go, MeshWriter.Write):
		// a destination that fails exactly there is not reported (observation in the
		// report of this monitor; the file is complete but for its last newline). Cut one
		// byte earlier, inside the last number.
		k--
		res.Count("ascii_last_byte_faults_moved_before_the_final_newline", 1)
	}
	fw := &failWriter{limit: k, partial: c.Rng.Intn(2) == 0}
	mode := "refuse"
	if fw.partial {
		mode = "partial"
	}
	wit := w.witness(step)
	wit["fails_after_bytes"], wit["fault_in"], wit["mode"] = k, where, mode
	c.Note(fmt.Sprintf("%s %s to a writer failing after %d of %d bytes (%s, %s)", w.site, w.enc.name, k, w.fr.total, where, mode))
	var err error
	p := run.Try(func() { err = w.cfg.writeTo(fw, w.mesh, w.enc.format) })
	res.SetAdd("write_fault_positions", where)
	res.SetAdd("write_fault_modes", mode)
	res.SetAdd("write_fault_sites", w.site+" "+w.enc.name)
	switch {
	case p != nil:
		res.Violate(panicClass(p), w.site+" (failing writer)", step, p.Value+"\n"+p.Stack, wit)
	case err == nil:
		res.Count("failed_writes_not_reported_as_error(evidence only)", 1) // no property demands that a failed write is reported: evidence only, never a verdict
	default:
		res.Count("failed_writes_reported", 1)
	}
	return where
}

func failingRead(c *run.Ctx, res *run.Result, step string, i int) string {
	w := freshFile(c, res, step, i)
	if w == nil {
		return "skipped"
	}
	fr := w.fr
	// a cut inside the last record cannot always be told from a complete ASCII file
	// (a missing final newline, a shortened last number): cut before the last record
	if w.enc.name == "ascii" {
		last := bytes.LastIndexByte(w.data[:len(w.data)-1], '\n') + 1
		if last <= fr.body {
			fr.total = fr.body + 1
		} else {
			fr.total = last
		}
		if fr.vertexEnd > fr.total {
			fr.vertexEnd = fr.total
		}
		if fr.firstRecEnd > fr.total {
			fr.firstRecEnd = fr.total
		}
	}
	if fr.total-fr.body < 1 {
		// no body at all: only the header can be cut
		fr.firstRecEnd, fr.vertexEnd, fr.total = fr.body, fr.body, fr.body
	}
	k, where := faultAt(c, fr)
	if where == "last-byte" && fr.total == fr.body {
		k, where = between(c, 0, fr.body), "header"
	}
	errs := []error{errInjected, io.ErrUnexpectedEOF, io.EOF, io.ErrClosedPipe}
	rd := &failReader{data: w.data, limit: k, chunk: 1 + c.Rng.Intn(5000), withData: c.Rng.Intn(2) == 0, err: errs[c.Rng.Intn(len(errs))]}
	wit := w.witness(step)
	wit["fails_after_bytes"], wit["fault_in"], wit["error"], wit["with_data"] = k, where, rd.err.Error(), rd.withData
	c.Note(fmt.Sprintf("ply.ReadMesh %s from a reader failing after %d of %d bytes (%s)", w.enc.name, k, len(w.data), where))
	var err error
	var back *modeling.Mesh
	p := run.Try(func() { back, err = ply.ReadMesh(rd) })
	res.SetAdd("read_fault_positions", where)
	res.SetAdd("read_fault_errors", rd.err.Error())
	site := "ply.ReadMesh (failing reader)"
	switch {
	case p != nil:
		res.Violate(panicClass(p), site, step, p.Value+"\n"+p.Stack, wit)
	case err == nil:
		// no error: then nothing may be missing — compare with a read of the complete file
		var full *modeling.Mesh
		var ferr error
		if q := run.Try(func() { full, ferr = ply.ReadMesh(bytes.NewReader(w.data)) }); q == nil && ferr == nil && full != nil && back != nil &&
			ref.Snap(*full).Diff(ref.Snap(*back)) == "" {
			res.Count("failing_reads_that_had_everything_they_need", 1)
			break
		}
		res.Violate("read-error-not-reported", site, step,
			fmt.Sprintf("the source failed with %q after %d of the %d bytes (%s) but ply.ReadMesh returned no error and not the mesh of the complete file", rd.err, k, len(w.data), where), wit)
	default:
		res.Count("failed_reads_reported", 1)
	}
	return where
}
