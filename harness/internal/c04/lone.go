package c04

import (
	"math/rand"
)

// --- user-named scalars that look like a piece of a recognised group ------------------
//
// A user may call a scalar attribute `t`, `alpha`, `nx`, `scale_0` …, and a custom
// property writer may store any attribute under such a name. As long as the rest of
// the group is absent from the written file the reader cannot build the vector
// attribute, so the property is an ordinary unrecognised scalar and must come back
// as a scalar attribute of its own name (this is what the landing model derives).

// every spelling of every multi-name group the default reader recognises
var allSpellings = [][]string{
	{"x", "y", "z"}, {"px", "py", "pz"}, {"posx", "posy", "posz"},
	{"nx", "ny", "nz"}, {"normalx", "normaly", "normalz"},
	{"red", "green", "blue", "alpha"}, {"r", "g", "b", "a"}, {"diffuse_red", "diffuse_green", "diffuse_blue", "diffuse_alpha"},
	{"s", "t"}, {"f_dc_0", "f_dc_1", "f_dc_2"}, {"scale_0", "scale_1", "scale_2"}, {"rot_0", "rot_1", "rot_2", "rot_3"},
}

// groupsToKeepIncomplete: the name sets that must not become complete (the colour
// groups also in their three-name form)
func groupsToKeepIncomplete() [][]string {
	g := append([][]string{}, allSpellings...)
	g = append(g, []string{"red", "green", "blue"}, []string{"r", "g", "b"}, []string{"diffuse_red", "diffuse_green", "diffuse_blue"})
	return g
}

func wouldComplete(used map[string]bool, add string) bool {
	for _, names := range groupsToKeepIncomplete() {
		touches, complete := false, true
		for _, n := range names {
			if n == add {
				touches = true
			} else if !used[n] {
				complete = false
			}
		}
		if touches && complete {
			return true
		}
	}
	return false
}

// addLoneComponents adds one to three such properties to the case. It works on the
// finished mesh and configuration: `used` is the set of PLY names the configuration
// writes (expectedColumns), a name is only taken when no recognised group becomes
// complete by it. Returns the names added.
func addLoneComponents(r *rand.Rand, mc *meshCase, cfg *config) []string {
	if cfg.Kind == "splat" || mc.N == 0 {
		return nil
	}
	used := map[string]bool{}
	for _, c := range expectedColumns(mc, *cfg) {
		used[c.Ply] = true
	}
	var added []string
	want := 1 + r.Intn(3)
	for try := 0; try < 8 && len(added) < want; try++ {
		sp := allSpellings[r.Intn(len(allSpellings))]
		if try == 0 && !used["x"] && !used["y"] && r.Intn(2) == 0 {
			sp = allSpellings[0] // files without x y z are rare: use them
		}
		name := sp[r.Intn(len(sp))]
		if used[name] || wouldComplete(used, name) || mc.attr(1, name) != nil {
			continue
		}
		// (a) an existing explicit scalar writer stores its attribute under that name, or
		// (b) a new user-named scalar attribute of that name
		renamed := false
		if cfg.Kind == "custom" && r.Intn(3) == 0 {
			for i := range cfg.Writers {
				w := &cfg.Writers[i]
				if w.Arity == 1 && mc.attr(1, w.Attr) != nil && len(w.Names) == 1 && w.Names[0] != "opacity" && w.Type != "uchar" && !isLoneName(w.Names[0]) {
					w.Names = []string{name}
					renamed = true
					break
				}
			}
		}
		if !renamed {
			class := []string{"f32", "f64", "int", "large", "tiny", "unit", "wide"}[r.Intn(7)]
			a := attrib{Name: name, Arity: 1, Class: class, Data: make([][]float64, mc.N)}
			for i := range a.Data {
				a.Data[i] = []float64{drawVal(r, class)}
			}
			mc.Attrs = append(mc.Attrs, a)
			explicit := cfg.Kind == "custom" && (!cfg.Unspecified || r.Intn(2) == 0)
			if cfg.Kind == "default" {
				explicit = false // ply.Write stores it through write-unspecified under its own name
			}
			if explicit {
				t := []string{"float", "double"}[r.Intn(2)]
				if class == "int" && r.Intn(2) == 0 {
					t = "int"
				}
				cfg.Writers = append(cfg.Writers, wspec{Attr: name, Arity: 1, Names: []string{name}, Type: t, Ptr: r.Intn(2) == 0})
			}
		}
		used[name] = true
		added = append(added, name)
	}
	return added
}

func isLoneName(n string) bool {
	for _, sp := range allSpellings {
		for _, x := range sp {
			if x == n {
				return true
			}
		}
	}
	return false
}
