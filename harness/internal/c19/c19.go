// Package c19 monitors property C19: the signed distance functions of
// math/sdf are signed, 1-Lipschitz, Euclidean where stated, and compose as set
// operations.
package c19

import (
	"fmt"
	"math"
	"math/rand"

	"github.com/EliCDavis/polyform/math/sample"
	"github.com/EliCDavis/polyform/math/sdf"
	"github.com/EliCDavis/vector/vector3"
	"polyverif/internal/run"
)

func pv(a v3) vector3.Float64 { return vector3.New(a[0], a[1], a[2]) }

var primKinds = []string{"sphere", "box", "rounded-box", "capsule", "rounded-cone", "rounded-cylinder", "plane"}

func Spec() *run.Spec {
	return &run.Spec{
		ID: "C19", Level: "exploration",
		Rule: "A primitive case is one random parameter set of one of the 7 primitives (nominal size 10^-2…10^2 in half of the cases, 10^-9…10^9 in the other half; every further parameter — segment length, radii, box extents, rounding, cap heights — " +
			"drawn independently down to 10^-6 of it: length ≪ radius … radius ≪ length; offsets up to 100 sizes; end points on a dyadic grid in a quarter of the cones/capsules so that a+k/8·(b-a) is exactly on the axis; all parameter regimes: " +
			"r1<r2, r1=r2, r1>r2, steep cones, slabs/rods, zero/large rounding …) evaluated at ~2 000 points: uniform around the solid, near-surface, far, " +
			"on the surface (bisection of the reference), and at the places where the closed forms switch branch (face planes, cap planes, axis, tangent cones) " +
			"plus ~1 000 point pairs (random, near |p-q|≈1e-3…1e-6, straddling every branch border). An operator case is a random expression tree of " +
			"Union/Intersect/Subtract/Translate (arity 1…6, depth ≤ 3) over 3–6 primitives, placed so that the world origin is strictly inside or outside the composite, and instantiated afresh six times: " +
			"each fresh function is first sampled at a special point (exactly (0,0,0), -0 components, an operand centre, the previous function's last sample, the local origin of a ≥3-operand node) " +
			"and then probed for call-history dependence (same point twice, A,B,A,B, first probe again; a repeated point must get the identical answer); primitives and VarryingThicknessLine get the same first-probe/history script. A fifth of the operator cases builds 3–10 composites (Union, Intersect twice, Subtract of both, in shuffled order) from ONE operand list passed as ops... and checks, after all are built, every composite against operands and reference solids and every entry of the list against the operand put there (caller-slice-modified). Checked: sign against independent membership, zero on the surface, " +
			"Euclidean value for sphere/box/capsule/plane, |f(p)-f(q)| ≤ |p-q|, operator sign = set operation of operand signs, Translate(f,t)(p)=f(p-t). " +
			"Non-trivial: the case saw decided points on both sides of the surface, surface points and branch-straddling pairs (operators: points inside and outside the composite). " +
			"Distinct = distinct (kind, parameter regime) resp. operator-tree shapes.",
		Assumptions: []string{
			"admissible parameters only: radii, sizes > 0; rounded cone |r1-r2| < 0.95·|b-a| (outside it is not a distance function, DESIGN §0); rounded cylinder topHeight < 2·radius; plane normal of unit length",
			"tolerances are relative, without absolute floor: 1e-9·max(radius of the solid, parameter and sample magnitudes): sign is only demanded where the reference margin exceeds it; Lipschitz bound is (1+1e-9)|p-q| + 1e-12·magnitude; a NaN/Inf value is always a violation",
			"rounded cylinder uses polyform's parameter meaning (core radius 2·radius-topHeight, half height bodyHeight, inflated by topHeight)",
			"Subtract is undecided where the subtracted operand is exactly 0",
		},
		MinNontrivial: map[string]int{"quick": 150, "thorough": 300},
		MinObserved: map[string]int64{
			"sign_checks_inside": 500000, "sign_checks_outside": 500000, "surface_points": 100000, "euclid_comparisons": 500000,
			"lipschitz_pairs_random": 200000, "lipschitz_pairs_near": 200000, "lipschitz_pairs_straddling": 200000,
			"operator_node_checks": 200000, "translate_checks": 50000, "composite_points_inside": 20000, "composite_points_outside": 20000,
			"varying_line_points": 20000, "primitive_kinds": 7, "operators": 5,
			"first_probes_strictly_inside": 1500, "first_probes_strictly_outside": 1500, "first_probe_kinds": 7,
			"operator_repeated_point_answers": 30000, "primitive_repeated_point_answers": 30000, "operator_arities": 14, "operator_origin_placement": 2, "size_decades": 6, "parameter_regimes": 36, "shared_list_cases": 200, "shared_list_entry_checks": 100000, "shared_list_composite_checks": 100000, "shared_list_arities": 6, "shared_list_constructions": 4,
		},
		Phases: []run.Phase{
			{Name: "primitives", Cases: func(tier string) int {
				if tier == "thorough" {
					return 210000
				}
				return 3500
			}, Run: primitiveCase, Batch: 50, CPUBudgetS: 30},
			{Name: "operators", Cases: func(tier string) int {
				if tier == "thorough" {
					return 90000
				}
				return 1500
			}, Run: operatorCase, Batch: 50, CPUBudgetS: 30},
		},
	}
}

// ---------------------------------------------------------------- generators

func logU(r *rand.Rand, lo, hi float64) float64 { return math.Pow(10, lo+(hi-lo)*r.Float64()) }

func genPos(r *rand.Rand, L float64) v3 {
	switch r.Intn(10) {
	case 0:
		return v3{}
	case 1, 2:
		far := 100 * L // offsets much larger than the solid
		if L > 1e-2 && L < 1e2 && r.Intn(2) == 0 {
			far = 100
		}
		return v3{(2*r.Float64() - 1) * far, (2*r.Float64() - 1) * far, (2*r.Float64() - 1) * far}
	}
	return v3{(2*r.Float64() - 1) * 3 * L, (2*r.Float64() - 1) * 3 * L, (2*r.Float64() - 1) * 3 * L}
}

// genScale draws the nominal size of a case: half of the cases around 1, half over
// the decades 1e-9 … 1e9 (sample points and tolerances scale with the solid).
func genScale(r *rand.Rand) float64 {
	if r.Intn(2) == 0 {
		return logU(r, -2, 2)
	}
	return logU(r, -9, 9)
}

// sub draws a parameter as a fraction of L: usually within a decade or two of L,
// in a third of the draws many decades below it (length ≪ radius, radius ≪ length …).
func sub(r *rand.Rand, lo, hi, wideLo float64) float64 {
	if r.Intn(3) == 0 {
		return logU(r, wideLo, hi)
	}
	return logU(r, lo, hi)
}

// snapTo rounds x to a multiple of a power of two near L/1024, so that dyadic
// combinations of snapped coordinates are exact.
func snapTo(x, L float64) float64 {
	q := math.Ldexp(1, int(math.Floor(math.Log2(L)))-10)
	return math.Round(x/q) * q
}

func genShape(r *rand.Rand, kind string, L float64) shape {
	pos := genPos(r, L)
	switch kind {
	case "sphere":
		return sphere{c: pos, r: L * (0.1 + 0.9*r.Float64())}
	case "box", "rounded-box":
		sz := v3{L * (0.05 + 0.95*r.Float64()), L * (0.05 + 0.95*r.Float64()), L * (0.05 + 0.95*r.Float64())}
		if r.Intn(3) == 0 {
			sz[r.Intn(3)] *= 0.02
		}
		if r.Intn(4) == 0 { // one or two extents many decades below the others
			sz[r.Intn(3)] *= logU(r, -6, -1)
			if r.Intn(2) == 0 {
				sz[r.Intn(3)] *= logU(r, -6, -1)
			}
		}
		b := box{c: pos, size: sz}
		if kind == "rounded-box" {
			b.rounded = true
			switch r.Intn(10) {
			case 0:
				b.round = 0
			case 1:
				b.round = L * logU(r, -7, -1)
			case 2, 3, 4:
				b.round = L * 0.1 * r.Float64()
			default:
				b.round = L * (0.1 + 0.9*r.Float64())
			}
		}
		return b
	case "capsule":
		// length and radius drawn independently: length ≪ radius … length ≫ radius
		c := capsule{a: pos, b: pos.add(randDir(r).mul(L * sub(r, -1.3, 0.3, -6))), r: L * sub(r, -2, 0.2, -6)}
		if r.Intn(5) == 0 {
			for k := 0; k < 3; k++ {
				c.a[k], c.b[k] = snapTo(c.a[k], L), snapTo(c.b[k], L)
			}
		}
		if c.a == c.b {
			c.b[r.Intn(3)] += L
		}
		return c
	case "rounded-cone":
		var u v3
		if r.Intn(5) == 0 { // axis-parallel
			u[r.Intn(3)] = float64(1 - 2*r.Intn(2))
		} else {
			u = randDir(r)
		}
		l := L * sub(r, -1.3, 0.3, -4)
		c := cone{a: pos, b: pos.add(u.mul(l))}
		if r.Intn(4) == 0 { // end points on a dyadic grid: a + k/8·(b-a) is then exactly on the axis
			for k := 0; k < 3; k++ {
				c.a[k], c.b[k] = snapTo(c.a[k], L), snapTo(c.b[k], L)
			}
			if c.a == c.b {
				c.b[r.Intn(3)] += L
			}
		}
		l = c.a.dist(c.b)
		c.r1 = L * sub(r, -2, 0.3, -5)
		var diff float64
		switch r.Intn(10) {
		case 0:
			diff = 0
		case 1:
			diff = 0.9499 * l
		case 2:
			diff = l * 0.05 * r.Float64()
		default:
			diff = l * 0.95 * r.Float64()
		}
		if r.Intn(2) == 0 {
			diff = -diff
		}
		c.r2 = c.r1 + diff
		if c.r2 <= 0 { // keep the difference, shift both radii up
			c.r1 += -c.r2 + L*0.01*(1+r.Float64())
			c.r2 = c.r1 + diff
		}
		if math.Abs(c.r1-c.r2) >= 0.95*l || c.r1 <= 0 || c.r2 <= 0 {
			c.r2 = c.r1
		}
		return c
	case "rounded-cylinder":
		rad := L * (0.1 + 0.9*r.Float64())
		top := rad * sub(r, -2, math.Log10(1.9), -6)
		return rcyl{pos: pos, rad: rad, top: top, bodyHei: L * sub(r, -2, 0.3, -6)}
	case "plane":
		var n v3
		if r.Intn(4) == 0 {
			n[r.Intn(3)] = float64(1 - 2*r.Intn(2))
		} else {
			n = randDir(r)
			n = n.mul(1 / n.len()) // renormalise: |n| = 1 within an ulp
		}
		h := 0.0
		if r.Intn(4) != 0 {
			h = (2*r.Float64() - 1) * 2 * L
		}
		return plane{pos: pos, n: n, height: h, L: L}
	}
	panic("unknown kind " + kind)
}

// polyform builds the polyform function of a reference shape.
func polyform(s shape) (sample.Vec3ToFloat, string) {
	switch t := s.(type) {
	case sphere:
		return sdf.Sphere(pv(t.c), t.r), "sdf.Sphere"
	case box:
		if t.rounded {
			return sdf.RoundedBox(pv(t.c), pv(t.size), t.round), "sdf.RoundedBox"
		}
		return sdf.Box(pv(t.c), pv(t.size)), "sdf.Box"
	case capsule:
		return sdf.Line(pv(t.a), pv(t.b), t.r), "sdf.Line"
	case cone:
		return sdf.RoundedCone(pv(t.a), pv(t.b), t.r1, t.r2), "sdf.RoundedCone"
	case rcyl:
		return sdf.RoundedCylinder(pv(t.pos), t.rad, t.top, t.bodyHei), "sdf.RoundedCylinder"
	case plane:
		return sdf.Plane(pv(t.pos), pv(t.n), t.height), "sdf.Plane"
	}
	panic("unknown shape")
}

// surfacePoint bisects the reference margin between an inside and an outside point.
func surfacePoint(s shape, in, out v3) v3 {
	for i := 0; i < 200; i++ {
		mid := in.add(out).mul(0.5)
		if mid == in || mid == out {
			break
		}
		if s.margin(mid) < 0 {
			in = mid
		} else {
			out = mid
		}
	}
	if math.Abs(s.margin(in)) < math.Abs(s.margin(out)) {
		return in
	}
	return out
}

// interior returns a point well inside the solid.
func interior(s shape) v3 {
	if pl, ok := s.(plane); ok {
		return pl.centre().sub(pl.n.mul(pl.radius()))
	}
	return s.centre()
}

func exterior(r *rand.Rand, s shape) v3 {
	for i := 0; ; i++ {
		p := s.centre().add(randDir(r).mul(s.radius() * (1.5 + 2*r.Float64())))
		if s.margin(p) > 0 {
			return p
		}
		if i > 100 {
			panic("c19: no exterior point found")
		}
	}
}

// samplePoint draws one evaluation point around the solid.
func samplePoint(r *rand.Rand, s shape) (v3, string) {
	R := s.radius()
	c := s.centre()
	switch pick(r, []int{35, 25, 5, 20, 15}) {
	case 0:
		return c.add(v3{(2*r.Float64() - 1) * 2 * R, (2*r.Float64() - 1) * 2 * R, (2*r.Float64() - 1) * 2 * R}), "around"
	case 1:
		sp := surfacePoint(s, interior(s), exterior(r, s))
		return sp.add(randDir(r).mul(R * logU(r, -8, -1))), "near-surface"
	case 2:
		return c.add(randDir(r).mul(R * logU(r, 0.5, 3))), "far"
	case 3:
		return s.special(r), "branch-border"
	default:
		return s.special(r).add(randDir(r).mul(R * logU(r, -8, -2))), "near-branch-border"
	}
}

func pick(r *rand.Rand, w []int) int {
	t := 0
	for _, x := range w {
		t += x
	}
	k := r.Intn(t)
	for i, x := range w {
		if k < x {
			return i
		}
		k -= x
	}
	return len(w) - 1
}

// ---------------------------------------------------------------- primitive case

type pointWitness struct {
	Shape  string         `json:"shape"`
	Params map[string]any `json:"parameters"`
	P      v3             `json:"p"`
	Q      *v3            `json:"q,omitempty"`
	Got    any            `json:"got"`
	Want   any            `json:"want"`
	Class  string         `json:"point_class,omitempty"`
}

func primitiveCase(c *run.Ctx) run.Result {
	var res run.Result
	r := c.Rng
	kind := primKinds[c.Case%len(primKinds)]
	L := genScale(r)
	s := genShape(r, kind, L)
	if r.Intn(10) < 4 {
		// move the solid so that the world origin is a decided point of interest
		// (strictly inside, strictly outside, near the surface, on a branch border)
		for try := 0; try < 20; try++ {
			q, _ := samplePoint(r, s)
			if math.Abs(s.margin(q)) > 1e-6*math.Max(s.radius(), math.Max(s.mag(), q.maxAbs())) {
				s = relocate(s, s.centre().sub(q))
				break
			}
		}
	}
	f, site := polyform(s)
	c.Note(fmt.Sprintf("%s %v", site, s.params()))
	if p := run.Try(func() { checkPrimitive(r, &res, s, f, site) }); p != nil {
		res.Violate("runtime-panic", site, kind, fmt.Sprintf("panic: %v at %s", p.Value, p.Site), pointWitness{Shape: kind, Params: s.params()})
	}
	res.Sig = kind + "|" + s.regime() + "|L" + decade(L)
	res.SetAdd("size_decades", decade(L))
	res.SetAdd("primitive_kinds", kind)
	res.SetAdd("parameter_regimes", kind+":"+s.regime())
	res.Count("shapes_"+kind, 1)
	if c.Case%211 < len(primKinds) {
		res.Sample = map[string]any{"shape": kind, "parameters": s.params(), "regime": s.regime()}
	}
	return res
}

func checkPrimitive(r *rand.Rand, res *run.Result, s shape, f sample.Vec3ToFloat, site string) {
	kind := s.kind()
	// all tolerances are relative to the solid's own scale and the magnitudes involved (no absolute floor)
	base := math.Max(s.radius(), s.mag())
	nIn, nOut, nSurf, nStraddle := 0, 0, 0, 0
	eval := func(p v3) (float64, bool) {
		v := f(pv(p))
		if math.IsNaN(v) || math.IsInf(v, 0) {
			res.Violate("not-finite", site, kind, fmt.Sprintf("f(%v) = %v", p, v), pointWitness{Shape: kind, Params: s.params(), P: p, Got: fmt.Sprint(v), Want: "a finite distance"})
			return v, false
		}
		return v, true
	}
	const nPts = 1600
	pts := make([]v3, 0, nPts)
	vals := make([]float64, 0, nPts)
	// The function is freshly built and has never been sampled. Its very first
	// sample is a special point (the world origin most often), and the script
	// around the random samples repeats points: a function of p cannot depend on
	// what was asked before.
	var p0 v3
	fpKind := "origin"
	switch pick(r, []int{50, 15, 15, 20}) {
	case 1:
		p0 = v3{negZero(), 0, 0}
		if r.Intn(2) == 0 {
			p0 = v3{negZero(), negZero(), negZero()}
		}
		fpKind = "negative-zero"
	case 2:
		p0, fpKind = s.centre(), "centre"
	case 3:
		p0, fpKind = s.special(r), "branch-border"
	}
	res.SetAdd("first_probe_kinds", fpKind)
	pa, _ := samplePoint(r, s)
	pb, _ := samplePoint(r, s)
	head := []v3{p0, p0, pa, pa, pb, pa, pb, p0, {}, p0}
	tail := []v3{pa, pb, {}, p0}
	seen := map[pkey]float64{}
	for i := 0; i < nPts; i++ {
		p, class := v3{}, ""
		switch {
		case i == 0:
			p, class = p0, "first-probe:"+fpKind
		case i < len(head):
			p, class = head[i], "call-history"
		case i >= nPts-len(tail):
			p, class = tail[i-(nPts-len(tail))], "call-history"
		default:
			p, class = samplePoint(r, s)
		}
		v, ok := eval(p)
		if !ok {
			return
		}
		if old, dup := seen[keyOf(p)]; dup {
			res.Count("primitive_repeated_point_answers", 1)
			if old != v {
				res.Violate("history-dependent", site, kind, fmt.Sprintf("f(%v) answered %.17g earlier and %.17g now [%s]", p, old, v, class),
					pointWitness{Shape: kind, Params: s.params(), P: p, Got: v, Want: old, Class: class})
				return
			}
		} else {
			seen[keyOf(p)] = v
		}
		if i == 0 {
			if m := s.margin(p); m < -1e-9*math.Max(base, p.maxAbs()) {
				res.Count("first_probes_strictly_inside", 1)
			} else if m > 1e-9*math.Max(base, p.maxAbs()) {
				res.Count("first_probes_strictly_outside", 1)
			}
		}
		pts = append(pts, p)
		vals = append(vals, v)
		tol := 1e-9 * math.Max(base, p.maxAbs())
		m := s.margin(p)
		switch {
		case m < -tol:
			nIn++
			if !(v < 0) {
				res.Violate("sign-inside", site, kind, fmt.Sprintf("p=%v is inside the %s (reference margin %.6g) but f(p) = %.17g ≥ 0", p, kind, m, v),
					pointWitness{Shape: kind, Params: s.params(), P: p, Got: v, Want: fmt.Sprintf("negative (reference margin %.12g)", m), Class: class})
				return
			}
		case m > tol:
			nOut++
			if !(v > 0) {
				res.Violate("sign-outside", site, kind, fmt.Sprintf("p=%v is outside the %s (reference margin %.6g) but f(p) = %.17g ≤ 0", p, kind, m, v),
					pointWitness{Shape: kind, Params: s.params(), P: p, Got: v, Want: fmt.Sprintf("positive (reference margin %.12g)", m), Class: class})
				return
			}
		}
		if s.euclid() {
			res.Count("euclid_comparisons", 1)
			if math.Abs(v-m) > tol {
				res.Violate("not-euclidean", site, kind, fmt.Sprintf("f(%v) = %.15g, Euclidean distance to the surface = %.15g (Δ=%.3g)", p, v, m, v-m),
					pointWitness{Shape: kind, Params: s.params(), P: p, Got: v, Want: m, Class: class})
				return
			}
		}
	}
	res.Count("sign_checks_inside", int64(nIn))
	res.Count("sign_checks_outside", int64(nOut))

	// zero on the surface
	var surf []v3
	for i := 0; i < 120; i++ {
		sp := surfacePoint(s, interior(s), exterior(r, s))
		if i%3 == 0 { // from a random interior sample instead of the centre
			for k := 0; k < 20; k++ {
				q := pts[r.Intn(len(pts))]
				if s.margin(q) < 0 {
					sp = surfacePoint(s, q, exterior(r, s))
					break
				}
			}
		}
		tol := 1e-9 * math.Max(base, sp.maxAbs())
		if math.Abs(s.margin(sp)) > tol*1e-2 {
			continue // bisection did not converge to the surface (never expected)
		}
		v, ok := eval(sp)
		if !ok {
			return
		}
		nSurf++
		surf = append(surf, sp)
		if math.Abs(v) > tol {
			res.Violate("nonzero-on-surface", site, kind, fmt.Sprintf("surface point %v (reference margin %.3g): f = %.12g", sp, s.margin(sp), v),
				pointWitness{Shape: kind, Params: s.params(), P: sp, Got: v, Want: 0})
			return
		}
	}
	res.Count("surface_points", int64(nSurf))

	// Lipschitz
	lip := func(p, q v3, class string) bool {
		d := p.dist(q)
		if d == 0 {
			return true
		}
		fp, ok1 := eval(p)
		fq, ok2 := eval(q)
		if !ok1 || !ok2 {
			return false
		}
		res.Count("lipschitz_pairs_"+class, 1)
		slack := 1e-12 * math.Max(base, math.Max(p.maxAbs(), q.maxAbs()))
		if math.Abs(fp-fq) > (1+1e-9)*d+slack {
			res.Violate("not-lipschitz", site, kind,
				fmt.Sprintf("|f(p)-f(q)| = %.12g > |p-q| = %.12g (ratio %.6g) at p=%v q=%v, f(p)=%.12g f(q)=%.12g [%s pair]", math.Abs(fp-fq), d, math.Abs(fp-fq)/d, p, q, fp, fq, class),
				pointWitness{Shape: kind, Params: s.params(), P: p, Q: &q, Got: math.Abs(fp - fq), Want: fmt.Sprintf("≤ %.12g", d), Class: class})
			return false
		}
		return true
	}
	R := s.radius()
	for i := 0; i < 300; i++ {
		if !lip(pts[r.Intn(len(pts))], pts[r.Intn(len(pts))], "random") {
			return
		}
	}
	for i := 0; i < 300; i++ {
		p := pts[r.Intn(len(pts))]
		delta := math.Max(R*logU(r, -6, -2), 1e-7*math.Max(base, p.maxAbs()))
		if !lip(p, p.add(randDir(r).mul(delta)), "near") {
			return
		}
	}
	for i := 0; i < 400; i++ {
		var p0 v3
		if i%4 == 3 && len(surf) > 0 {
			p0 = surf[r.Intn(len(surf))]
		} else {
			p0 = s.special(r)
		}
		delta := math.Max(R*logU(r, -6, -2), 1e-7*math.Max(base, p0.maxAbs()))
		e := randDir(r)
		var ok bool
		if i%2 == 0 {
			ok = lip(p0.add(e.mul(delta)), p0.sub(e.mul(delta)), "straddling")
		} else {
			ok = lip(p0, p0.add(e.mul(delta)), "straddling")
		}
		if !ok {
			return
		}
		nStraddle++
	}

	// translation moves the shape
	for i := 0; i < 4; i++ {
		t := v3{(2*r.Float64() - 1) * 3 * R, (2*r.Float64() - 1) * 3 * R, (2*r.Float64() - 1) * 3 * R}
		if i == 0 {
			t = v3{}
		}
		g := sdf.Translate(f, pv(t))
		for k := 0; k < 27; k++ {
			q := pts[r.Intn(len(pts))] // a point of interest of the original solid
			p := q.add(t)              // … seen from the moved solid
			switch k {
			case 0:
				p = v3{} // first sample of the fresh closure: the world origin
			case 1:
				p = t // … then the point the inner function sees as its origin
			}
			moved := p.sub(t) // what the moved solid must be evaluated at
			v := g(pv(p))
			want := f(pv(moved))
			tol := 1e-9 * math.Max(base, math.Max(p.maxAbs(), t.maxAbs()))
			res.Count("translate_checks", 1)
			m := s.margin(moved)
			if math.IsNaN(v) || math.Abs(v-want) > tol || (m < -tol && !(v < 0)) || (m > tol && !(v > 0)) {
				res.Violate("translate-mismatch", "sdf.Translate", kind,
					fmt.Sprintf("Translate(f,%v)(%v) = %.15g, f(p-t) = %.15g, reference margin of the moved solid %.6g", t, p, v, want, m),
					pointWitness{Shape: kind, Params: map[string]any{"shape": s.params(), "translation": t}, P: p, Got: v, Want: want})
				return
			}
		}
	}
	res.Nontrivial = nIn > 0 && nOut > 0 && nSurf > 0 && nStraddle > 0
}

// decade buckets the nominal size into three-decade bands.
func decade(L float64) string {
	e := int(math.Floor(math.Log10(L)/3)) * 3
	return fmt.Sprintf("1e%+d", e)
}
