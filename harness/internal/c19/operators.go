package c19

import (
	"fmt"
	"math"
	"math/rand"
	"strings"

	"github.com/EliCDavis/polyform/math/sample"
	"github.com/EliCDavis/polyform/math/sdf"
	"polyverif/internal/run"
)

// node of a random operator expression.
type node struct {
	op      string // leaf | Union | Intersect | Subtract | Translate
	kids    []*node
	leafIdx int
	leaf    shape
	t       v3
	f       sample.Vec3ToFloat
}

func (n *node) String() string {
	switch n.op {
	case "leaf":
		return "L"
	case "Translate":
		return "T(" + n.kids[0].String() + ")"
	}
	var ks []string
	for _, k := range n.kids {
		ks = append(ks, k.String())
	}
	return fmt.Sprintf("%s%d(%s)", n.op[:1], len(n.kids), strings.Join(ks, ","))
}

func (n *node) describe() any {
	switch n.op {
	case "leaf":
		return map[string]any{n.leaf.kind(): n.leaf.params()}
	case "Translate":
		return map[string]any{"Translate": n.kids[0].describe(), "by": n.t}
	}
	var ks []any
	for _, k := range n.kids {
		ks = append(ks, k.describe())
	}
	return map[string]any{n.op: ks}
}

// genTree draws the structure of an expression; instantiate builds the functions.
func genTree(r *rand.Rand, depth int, nLeaves int, R float64) *node {
	if depth == 0 || r.Intn(6) == 0 {
		return &node{op: "leaf", leafIdx: r.Intn(nLeaves)}
	}
	n := &node{}
	kid := func() *node { return genTree(r, depth-1, nLeaves, R) }
	arity := func() int { // 1 … 6, with weight on the ≥ 3-operand code paths
		return []int{1, 2, 2, 3, 3, 3, 4, 4, 5, 6}[r.Intn(10)]
	}
	switch pick(r, []int{32, 32, 24, 12}) {
	case 0:
		n.op = "Union"
		for k := arity(); k > 0; k-- {
			n.kids = append(n.kids, kid())
		}
	case 1:
		n.op = "Intersect"
		for k := arity(); k > 0; k-- {
			n.kids = append(n.kids, kid())
		}
	case 2:
		n.op = "Subtract"
		n.kids = []*node{kid(), kid()}
	default:
		n.op = "Translate"
		n.kids = []*node{kid()}
		n.t = v3{(2*r.Float64() - 1) * R, (2*r.Float64() - 1) * R, (2*r.Float64() - 1) * R}
	}
	return n
}

// instantiate builds a FRESH set of polyform functions for the expression over
// the given operand solids: every leaf and every operator gets a newly created
// closure that has never been sampled.
func (n *node) instantiate(leaves []shape) {
	if n.op == "leaf" {
		n.leaf = leaves[n.leafIdx]
		n.f, _ = polyform(n.leaf)
		return
	}
	fs := make([]sample.Vec3ToFloat, len(n.kids))
	for i, k := range n.kids {
		k.instantiate(leaves)
		fs[i] = k.f
	}
	switch n.op {
	case "Union":
		n.f = sdf.Union(fs...)
	case "Intersect":
		n.f = sdf.Intersect(fs...)
	case "Subtract":
		n.f = sdf.Subtract(fs[0], fs[1])
	case "Translate":
		n.f = sdf.Translate(fs[0], pv(n.t))
	}
}

// frames lists the translation accumulated above every operator node with ≥ 3 operands.
func (n *node) wideFrames(acc v3, out *[]v3) {
	if len(n.kids) >= 3 {
		*out = append(*out, acc)
	}
	if n.op == "Translate" {
		n.kids[0].wideFrames(acc.add(n.t), out)
		return
	}
	for _, k := range n.kids {
		k.wideFrames(acc, out)
	}
}

// leafFrames lists every leaf occurrence with the translation accumulated on the way down.
func (n *node) leafFrames(acc v3, out *[]leafFrame) {
	switch n.op {
	case "leaf":
		*out = append(*out, leafFrame{n.leaf, acc})
	case "Translate":
		n.kids[0].leafFrames(acc.add(n.t), out)
	default:
		for _, k := range n.kids {
			k.leafFrames(acc, out)
		}
	}
}

// member: reference membership of p in the composite solid.
func (n *node) member(p v3, tol float64) (inside, decided bool) {
	switch n.op {
	case "leaf":
		m := n.leaf.margin(p)
		return m < 0, math.Abs(m) > tol
	case "Translate":
		return n.kids[0].member(p.sub(n.t), tol)
	}
	decided = true
	ins := make([]bool, len(n.kids))
	for i, k := range n.kids {
		var d bool
		ins[i], d = k.member(p, tol)
		decided = decided && d
	}
	switch n.op {
	case "Union":
		for _, x := range ins {
			inside = inside || x
		}
	case "Intersect":
		inside = true
		for _, x := range ins {
			inside = inside && x
		}
	case "Subtract":
		inside = ins[0] && !ins[1]
	}
	return
}

// checkNodes verifies every operator node against its own operands' values at p
// (the operands are whatever functions were passed in: this is the statement
// "negative exactly on the set operation of the operands' interiors").
func (n *node) checkNodes(res *run.Result, p v3, tol float64, root *node) bool {
	if n.op == "leaf" {
		return true
	}
	v := n.f(pv(p))
	w := func(got, want any) pointWitness {
		return pointWitness{Shape: n.String(), Params: map[string]any{"expression": n.describe()}, P: p, Got: got, Want: want}
	}
	if math.IsNaN(v) {
		res.Violate("not-finite", "sdf."+n.op, n.String(), fmt.Sprintf("value NaN at %v", p), w("NaN", "finite"))
		return false
	}
	res.Count("operator_node_checks", 1)
	res.SetAdd("operators", n.op)
	res.SetAdd("operator_arities", fmt.Sprintf("%s/%d", n.op, len(n.kids)))
	if n.op == "Translate" {
		q := p.sub(n.t)
		kv := n.kids[0].f(pv(q))
		if math.Abs(v-kv) > tol {
			res.Violate("translate-mismatch", "sdf.Translate", n.String(), fmt.Sprintf("Translate(f,%v)(%v) = %.15g but f(p-t) = %.15g", n.t, p, v, kv), w(v, kv))
			return false
		}
		return n.kids[0].checkNodes(res, q, tol, root)
	}
	kvs := make([]float64, len(n.kids))
	for i, k := range n.kids {
		kvs[i] = k.f(pv(p))
	}
	var want bool
	switch n.op {
	case "Union":
		for _, x := range kvs {
			want = want || x < 0
		}
	case "Intersect":
		want = true
		for _, x := range kvs {
			want = want && x < 0
		}
	case "Subtract":
		if kvs[1] == 0 {
			return true
		}
		want = kvs[0] < 0 && !(kvs[1] < 0)
	}
	if (v < 0) != want {
		res.Violate("set-operation-sign", "sdf."+n.op, fmt.Sprintf("%s/%d", n.op, len(n.kids)),
			fmt.Sprintf("%s of operands with values %v gives %.15g at %v: negative=%v, set operation of the operands' interiors says %v", n.op, kvs, v, p, v < 0, want),
			w(map[string]any{"value": v, "operands": kvs}, map[string]any{"negative": want}))
		return false
	}
	for _, k := range n.kids {
		if !k.checkNodes(res, p, tol, root) {
			return false
		}
	}
	return true
}

func negZero() float64 { return math.Copysign(0, -1) }

type pkey [3]uint64

func keyOf(p v3) pkey {
	return pkey{math.Float64bits(p[0]), math.Float64bits(p[1]), math.Float64bits(p[2])}
}

// lastSample carries the last point evaluated by the previous case-local function
// into the next freshly built one ("a point equal to the previous function's last sample").
type probeState struct {
	last    v3
	hasLast bool
}

func operatorCase(c *run.Ctx) run.Result {
	var res run.Result
	r := c.Rng
	if c.Case%5 == 4 {
		return varyingLineCase(c)
	}
	if c.Case%5 == 3 {
		return sharedListCase(c)
	}
	L := genScale(r)
	res.SetAdd("size_decades", decade(L))
	centre := genPos(r, L)
	var leaves []shape
	for k := 3 + r.Intn(4); k > 0; k-- {
		kind := primKinds[r.Intn(len(primKinds))]
		s := genShape(r, kind, L)
		// move the solid near the common centre so that the operands overlap
		s = relocate(s, centre.add(randDir(r).mul(L*r.Float64())))
		leaves = append(leaves, s)
	}
	var root *node
	for root == nil || root.op == "leaf" {
		root = genTree(r, 1+r.Intn(3), len(leaves), L)
	}
	root.instantiate(leaves)
	c.Note("operators " + root.String())
	collect := func() (frames []leafFrame, base float64) {
		root.leafFrames(v3{}, &frames)
		base = 0
		for _, f := range frames {
			base = math.Max(base, math.Max(f.s.radius(), math.Max(f.s.mag(), f.t.maxAbs())))
		}
		return
	}
	frames, base := collect()

	// Place the world origin strictly inside (or strictly outside) the composed
	// solid: pick such a point q of the composite and move every operand by -q.
	wantInside := r.Intn(3) != 0
	originPlaced := "not-decided"
	for try := 0; try < 60; try++ {
		fr := frames[r.Intn(len(frames))]
		q, _ := samplePoint(r, fr.s)
		q = q.add(fr.t)
		tol := 1e-9 * math.Max(base, q.maxAbs())
		inside, decided := root.member(q, 1000*tol)
		if !decided || (inside != wantInside && try < 40) {
			continue
		}
		moved := make([]shape, len(leaves))
		for i, s := range leaves {
			moved[i] = relocate(s, s.centre().sub(q))
		}
		leaves = moved
		root.instantiate(leaves)
		frames, base = collect()
		if in0, dec0 := root.member(v3{}, 1e-9*base); dec0 {
			originPlaced = map[bool]string{true: "origin-inside", false: "origin-outside"}[in0]
		}
		break
	}
	res.SetAdd("operator_origin_placement", originPlaced)

	nIn, nOut := 0, 0
	var st probeState
	if p := run.Try(func() {
		// several fresh instantiations, each first sampled at a different special
		// point, then one that also receives the bulk of the random samples
		firstProbes := []string{"origin", "negative-zero", "operand-centre", "previous-last-sample", "wide-operator-frame"}
		r.Shuffle(len(firstProbes), func(i, j int) { firstProbes[i], firstProbes[j] = firstProbes[j], firstProbes[i] })
		firstProbes = append([]string{"origin"}, firstProbes...)
		for round, fp := range firstProbes {
			root.instantiate(leaves) // fresh closures, never sampled
			var p0 v3
			switch fp {
			case "negative-zero":
				p0 = v3{negZero(), 0, 0}
				if r.Intn(2) == 0 {
					p0 = v3{negZero(), negZero(), negZero()}
				}
			case "operand-centre":
				fr := frames[r.Intn(len(frames))]
				p0 = fr.s.centre().add(fr.t)
			case "previous-last-sample":
				if st.hasLast {
					p0 = st.last
				}
			case "wide-operator-frame":
				var ws []v3
				root.wideFrames(v3{}, &ws)
				if len(ws) > 0 {
					p0 = ws[r.Intn(len(ws))] // the point that a ≥3-operand node below Translate sees as its own origin
				}
			}
			res.SetAdd("first_probe_kinds", fp)
			bulk := 0
			if round == len(firstProbes)-1 {
				bulk = 600
			}
			in, out, ok := probeSequence(r, &res, root, frames, base, p0, fp, bulk, &st)
			nIn += in
			nOut += out
			if !ok {
				return
			}
		}
	}); p != nil {
		res.Violate("runtime-panic", "sdf operators", root.String(), fmt.Sprintf("panic: %v at %s", p.Value, p.Site), nil)
	}
	res.Count("composite_points_inside", int64(nIn))
	res.Count("composite_points_outside", int64(nOut))
	res.Nontrivial = nIn > 0 && nOut > 0
	res.Sig = root.String()
	if c.Case%101 == 0 {
		res.Sample = map[string]any{"expression": root.String(), "tree": root.describe(), "origin": originPlaced}
	}
	return res
}

type leafFrame struct {
	s shape
	t v3
}

// probeSequence samples one freshly instantiated expression: first probe p0 before
// anything else, then call-history probes (same point twice, A,B,A,B, first probe
// again), `bulk` random samples, and the history probes once more at the end. Every
// answer goes through the same oracle — per-node set-operation sign against the
// node's own operands, composite sign against the reference solids — and, because a
// function of p cannot depend on what was asked before, every repeated point must
// get the answer it got the first time.
func probeSequence(r *rand.Rand, res *run.Result, root *node, frames []leafFrame, base float64, p0 v3, fpKind string, bulk int, st *probeState) (nIn, nOut int, ok bool) {
	seen := map[pkey]float64{}
	ask := func(p v3, what string) bool {
		tol := 1e-9 * math.Max(base, p.maxAbs())
		// node-level check first: it evaluates root.f(p) before any operand
		if !root.checkNodes(res, p, tol, root) {
			return false
		}
		v := root.f(pv(p))
		st.last, st.hasLast = p, true
		res.Count("operator_probe_answers_"+what, 1)
		if old, dup := seen[keyOf(p)]; dup {
			res.Count("operator_repeated_point_answers", 1)
			if old != v && !(math.IsNaN(old) && math.IsNaN(v)) {
				res.Violate("history-dependent", "sdf operators (same point, different answers)", root.String(),
					fmt.Sprintf("expression %s at %v answered %.17g earlier and %.17g now [%s, first probe kind %s]", root.String(), p, old, v, what, fpKind),
					pointWitness{Shape: root.String(), Params: map[string]any{"expression": root.describe()}, P: p, Got: v, Want: old, Class: what})
				return false
			}
		} else {
			seen[keyOf(p)] = v
		}
		inside, decided := root.member(p, tol)
		if !decided {
			res.Count("operator_points_undecided", 1)
			return true
		}
		if inside {
			nIn++
		} else {
			nOut++
		}
		if what == "first-probe" {
			if inside {
				res.Count("first_probes_strictly_inside", 1)
			} else {
				res.Count("first_probes_strictly_outside", 1)
			}
		}
		if (v < 0) != inside {
			res.Violate("composite-sign", "sdf operators (composite vs reference solids)", root.String(),
				fmt.Sprintf("expression %s at %v: value %.15g, reference membership in the composed solid: %v [%s, first probe kind %s]", root.String(), p, v, inside, what, fpKind),
				pointWitness{Shape: root.String(), Params: map[string]any{"expression": root.describe()}, P: p, Got: v, Want: map[string]any{"inside": inside}, Class: what})
			return false
		}
		return true
	}
	pt := func() v3 {
		fr := frames[r.Intn(len(frames))]
		q, _ := samplePoint(r, fr.s)
		return q.add(fr.t)
	}
	if !ask(p0, "first-probe") || !ask(p0, "same-point-twice") {
		return
	}
	a, b := pt(), pt()
	history := func() bool {
		for _, q := range []v3{a, a, b, a, b, p0, v3{}, p0} {
			if !ask(q, "call-history") {
				return false
			}
		}
		return true
	}
	if !history() {
		return
	}
	for i := 0; i < bulk; i++ {
		if !ask(pt(), "random") {
			return
		}
	}
	if bulk > 0 && !history() {
		return
	}
	return nIn, nOut, true
}

// relocate moves a reference solid so that its centre is at c.
func relocate(s shape, c v3) shape {
	d := c.sub(s.centre())
	switch t := s.(type) {
	case sphere:
		t.c = t.c.add(d)
		return t
	case box:
		t.c = t.c.add(d)
		return t
	case capsule:
		t.a, t.b = t.a.add(d), t.b.add(d)
		return t
	case cone:
		t.a, t.b = t.a.add(d), t.b.add(d)
		return t
	case rcyl:
		t.pos = t.pos.add(d)
		return t
	case plane:
		t.pos = t.pos.add(d)
		return t
	}
	return s
}

// varyingLineCase: sdf.VarryingThicknessLine = union of rounded cones along a poly-line.
func varyingLineCase(c *run.Ctx) run.Result {
	var res run.Result
	r := c.Rng
	L := genScale(r)
	res.SetAdd("size_decades", decade(L))
	n := 2 + r.Intn(6)
	pts := []v3{genPos(r, L)}
	rad := []float64{L * logU(r, -1.5, 0)}
	for len(pts) < n {
		l := L * (0.1 + 1.9*r.Float64())
		pts = append(pts, pts[len(pts)-1].add(randDir(r).mul(l)))
		l = pts[len(pts)-1].dist(pts[len(pts)-2])
		prev := rad[len(rad)-1]
		nr := prev + (2*r.Float64()-1)*0.94*l
		if nr <= 0 {
			nr = prev
		}
		rad = append(rad, nr)
	}
	// place the world origin strictly inside (2/3) or outside the union of hulls
	{
		var tmp []cone
		for i := 1; i < n; i++ {
			tmp = append(tmp, cone{a: pts[i-1], b: pts[i], r1: rad[i-1], r2: rad[i]})
		}
		wantIn := r.Intn(3) != 0
		for try := 0; try < 40; try++ {
			q, _ := samplePoint(r, tmp[r.Intn(len(tmp))])
			m := math.Inf(1)
			for _, k := range tmp {
				m = math.Min(m, k.margin(q))
			}
			if math.Abs(m) > 1e-6*math.Max(L, q.maxAbs()) && ((m < 0) == wantIn || try >= 30) {
				for i := range pts {
					pts[i] = pts[i].sub(q)
				}
				break
			}
		}
	}
	var cones []cone
	lps := make([]sdf.LinePoint, n)
	for i := range pts {
		lps[i] = sdf.LinePoint{Point: pv(pts[i]), Radius: rad[i]}
		if i > 0 {
			cones = append(cones, cone{a: pts[i-1], b: pts[i], r1: rad[i-1], r2: rad[i]})
		}
	}
	c.Note("VarryingThicknessLine")
	base := 0.0
	for _, k := range cones {
		base = math.Max(base, math.Max(k.radius(), k.mag()))
	}
	nIn, nOut := 0, 0
	if p := run.Try(func() {
		f := sdf.VarryingThicknessLine(lps)
		seen := map[pkey]float64{}
		pa, _ := samplePoint(r, cones[r.Intn(len(cones))])
		head := []v3{{}, {}, pa, pa, {}, pa}
		for i := 0; i < 800; i++ {
			p, _ := samplePoint(r, cones[r.Intn(len(cones))])
			switch {
			case i < len(head): // first sample of the fresh function: the world origin
				p = head[i]
			case i >= 798:
				p = head[i-798]
			}
			tol := 1e-9 * math.Max(base, p.maxAbs())
			m := math.Inf(1)
			for _, k := range cones {
				m = math.Min(m, k.margin(p))
			}
			v := f(pv(p))
			res.Count("varying_line_points", 1)
			if old, dup := seen[keyOf(p)]; dup {
				if old != v {
					res.Violate("history-dependent", "sdf.VarryingThicknessLine", fmt.Sprintf("%d points", n),
						fmt.Sprintf("p=%v answered %.17g earlier and %.17g now", p, old, v),
						pointWitness{Shape: "varying-thickness-line", Params: map[string]any{"points": pts, "radii": rad}, P: p, Got: v, Want: old})
					return
				}
			} else {
				seen[keyOf(p)] = v
			}
			if i == 0 {
				if m < -tol {
					res.Count("first_probes_strictly_inside", 1)
				} else if m > tol {
					res.Count("first_probes_strictly_outside", 1)
				}
			}
			switch {
			case m < -tol:
				nIn++
			case m > tol:
				nOut++
			default:
				continue
			}
			if math.IsNaN(v) || (v < 0) != (m < 0) {
				res.Violate("sign", "sdf.VarryingThicknessLine", fmt.Sprintf("%d points", n),
					fmt.Sprintf("p=%v: value %.15g, reference margin of the union of the %d ball hulls %.6g", p, v, len(cones), m),
					pointWitness{Shape: "varying-thickness-line", Params: map[string]any{"points": pts, "radii": rad}, P: p, Got: v, Want: m})
				return
			}
		}
	}); p != nil {
		res.Violate("runtime-panic", "sdf.VarryingThicknessLine", "", fmt.Sprintf("panic: %v at %s", p.Value, p.Site), nil)
	}
	res.Nontrivial = nIn > 0 && nOut > 0
	res.Sig = fmt.Sprintf("varying-line/%d", n)
	res.SetAdd("operators", "VarryingThicknessLine")
	return res
}

// sharedListCase: composites built from ONE operand list that is passed spread
// (ops...) to several constructors. A constructor may keep the slice it was handed
// (the n-ary Union reads it lazily) but must not write to it: after ALL composites
// are built, every one of them is checked against the reference solids and
// against the original operands, and the list itself must still hold functions
// that evaluate like the original operands. The harness never writes to the list.
func sharedListCase(c *run.Ctx) run.Result {
	var res run.Result
	r := c.Rng
	L := genScale(r)
	res.SetAdd("size_decades", decade(L))
	centre := genPos(r, L)
	k := []int{1, 2, 2, 3, 3, 3, 4, 4, 5, 6}[r.Intn(10)]
	var leaves []shape
	for i := 0; i < k; i++ {
		s := genShape(r, primKinds[r.Intn(len(primKinds))], L)
		leaves = append(leaves, relocate(s, centre.add(randDir(r).mul(L*r.Float64()))))
	}
	orig := make([]sample.Vec3ToFloat, k) // the harness's own handles on the operands
	ops := make([]sample.Vec3ToFloat, k)  // the caller's list, only ever passed as ops...
	for i, s := range leaves {
		orig[i], _ = polyform(s)
		ops[i] = orig[i]
	}
	type composite struct {
		name string
		op   string // Union | Intersect | Subtract(Union,Intersect) …
		f    sample.Vec3ToFloat
	}
	var comps []composite
	base := 0.0
	for _, s := range leaves {
		base = math.Max(base, math.Max(s.radius(), s.mag()))
	}
	if p := run.Try(func() {
		// construction order is part of the case: Union before and after the Intersects
		plan := []string{"Union", "Intersect", "Intersect", "Union", "Subtract(U,I)", "Subtract(I,U)", "Intersect"}
		r.Shuffle(len(plan), func(i, j int) { plan[i], plan[j] = plan[j], plan[i] })
		plan = plan[:3+r.Intn(len(plan)-2)]
		if r.Intn(2) == 0 { // the order the request names: Union first, then two Intersects
			plan = append([]string{"Union", "Intersect", "Intersect"}, plan...)
		}
		for i, what := range plan {
			name := fmt.Sprintf("#%d %s(ops...)", i, what)
			switch what {
			case "Union":
				comps = append(comps, composite{name, "Union", sdf.Union(ops...)})
			case "Intersect":
				comps = append(comps, composite{name, "Intersect", sdf.Intersect(ops...)})
			case "Subtract(U,I)":
				comps = append(comps, composite{name, "U-I", sdf.Subtract(sdf.Union(ops...), sdf.Intersect(ops...))})
			case "Subtract(I,U)":
				comps = append(comps, composite{name, "I-U", sdf.Subtract(sdf.Intersect(ops...), sdf.Union(ops...))})
			}
			res.SetAdd("shared_list_constructions", what)
		}
		var names []string
		for _, cp := range comps {
			names = append(names, cp.name)
		}
		res.Sig = fmt.Sprintf("shared-list/%d/%d composites", k, len(comps))
		res.SetAdd("shared_list_arities", fmt.Sprint(k))
		nIn, nOut := 0, 0
		for i := 0; i < 300; i++ {
			p, _ := samplePoint(r, leaves[r.Intn(k)])
			if i == 0 && r.Intn(2) == 0 {
				p = v3{}
			}
			tol := 1e-9 * math.Max(base, p.maxAbs())
			pp := pv(p)
			// the operands as the harness knows them
			vals := make([]float64, k)
			anyIn, allIn, decided := false, true, true
			refAny, refAll := false, true
			for j := range orig {
				vals[j] = orig[j](pp)
				anyIn = anyIn || vals[j] < 0
				allIn = allIn && vals[j] < 0
				m := leaves[j].margin(p)
				decided = decided && math.Abs(m) > tol
				refAny = refAny || m < 0
				refAll = refAll && m < 0
			}
			// the list the constructors were handed must be untouched
			for j := range ops {
				res.Count("shared_list_entry_checks", 1)
				if got := ops[j](pp); got != vals[j] && !(math.IsNaN(got) && math.IsNaN(vals[j])) {
					res.Violate("caller-slice-modified", "sdf.Union/Intersect (operand list passed as ops...)", fmt.Sprintf("%d operands", k),
						fmt.Sprintf("after building %v from one list, entry %d of the caller's list evaluates to %.17g at %v; the operand put there evaluates to %.17g", names, j, got, p, vals[j]),
						pointWitness{Shape: "shared operand list", Params: map[string]any{"operands": describeAll(leaves), "constructed": names}, P: p, Got: got, Want: vals[j]})
					return
				}
			}
			for _, cp := range comps {
				v := cp.f(pp)
				var want, ref bool
				skip := false
				switch cp.op {
				case "Union":
					want, ref = anyIn, refAny
				case "Intersect":
					want, ref = allIn, refAll
				case "U-I":
					// inside the union and not inside the intersection (undecided where the intersection is exactly 0)
					ivals := math.Inf(-1)
					for _, x := range vals {
						ivals = math.Max(ivals, x)
					}
					skip = ivals == 0
					want, ref = anyIn && !allIn, refAny && !refAll
				case "I-U":
					uvals := math.Inf(1)
					for _, x := range vals {
						uvals = math.Min(uvals, x)
					}
					skip = uvals == 0
					want, ref = false, false // inside all and outside the union is empty
				}
				if skip {
					continue
				}
				res.Count("shared_list_composite_checks", 1)
				if math.IsNaN(v) || (v < 0) != want {
					res.Violate("set-operation-sign", "sdf."+map[string]string{"Union": "Union", "Intersect": "Intersect", "U-I": "Subtract", "I-U": "Subtract"}[cp.op]+" (shared operand list)", fmt.Sprintf("%s/%d", cp.op, k),
						fmt.Sprintf("%s (built among %v from one list) = %.17g at %v; operands evaluate to %v, so negative should be %v", cp.name, names, v, p, vals, want),
						pointWitness{Shape: cp.name, Params: map[string]any{"operands": describeAll(leaves), "constructed": names}, P: p, Got: v, Want: map[string]any{"negative": want, "operands": vals}})
					return
				}
				if decided {
					if ref {
						nIn++
					} else {
						nOut++
					}
					if (v < 0) != ref {
						res.Violate("composite-sign", "sdf operators (composite vs reference solids)", fmt.Sprintf("%s/%d", cp.op, k),
							fmt.Sprintf("%s = %.17g at %v, reference membership %v", cp.name, v, p, ref),
							pointWitness{Shape: cp.name, Params: map[string]any{"operands": describeAll(leaves), "constructed": names}, P: p, Got: v, Want: map[string]any{"inside": ref}})
						return
					}
				}
			}
		}
		res.Count("composite_points_inside", int64(nIn))
		res.Count("composite_points_outside", int64(nOut))
		res.Nontrivial = nIn > 0 && nOut > 0 && len(comps) >= 3
	}); p != nil {
		res.Violate("runtime-panic", "sdf operators (shared operand list)", "", fmt.Sprintf("panic: %v at %s", p.Value, p.Site), nil)
	}
	res.Count("shared_list_cases", 1)
	return res
}

func describeAll(leaves []shape) []any {
	var out []any
	for _, s := range leaves {
		out = append(out, map[string]any{s.kind(): s.params()})
	}
	return out
}
