package c19

import (
	"fmt"
	"math"
	"math/rand"
	"strings"

	"github.com/EliCDavis/polyform/math/sample"
	"github.com/EliCDavis/polyform/math/sdf"
	"polyverif/internal/run"
)

// node of a random operator expression.
type node struct {
	op   string // leaf | Union | Intersect | Subtract | Translate
	kids []*node
	leaf shape
	t    v3
	f    sample.Vec3ToFloat
}

func (n *node) String() string {
	switch n.op {
	case "leaf":
		return "L"
	case "Translate":
		return "T(" + n.kids[0].String() + ")"
	}
	var ks []string
	for _, k := range n.kids {
		ks = append(ks, k.String())
	}
	return fmt.Sprintf("%s%d(%s)", n.op[:1], len(n.kids), strings.Join(ks, ","))
}

func (n *node) describe() any {
	switch n.op {
	case "leaf":
		return map[string]any{n.leaf.kind(): n.leaf.params()}
	case "Translate":
		return map[string]any{"Translate": n.kids[0].describe(), "by": n.t}
	}
	var ks []any
	for _, k := range n.kids {
		ks = append(ks, k.describe())
	}
	return map[string]any{n.op: ks}
}

func genTree(r *rand.Rand, depth int, leaves []shape, R float64) *node {
	if depth == 0 || r.Intn(5) == 0 {
		s := leaves[r.Intn(len(leaves))]
		f, _ := polyform(s)
		return &node{op: "leaf", leaf: s, f: f}
	}
	n := &node{}
	kid := func() *node { return genTree(r, depth-1, leaves, R) }
	fs := func() []sample.Vec3ToFloat {
		out := make([]sample.Vec3ToFloat, len(n.kids))
		for i, k := range n.kids {
			out[i] = k.f
		}
		return out
	}
	switch pick(r, []int{30, 30, 25, 15}) {
	case 0:
		n.op = "Union"
		for k := 1 + r.Intn(4); k > 0; k-- {
			n.kids = append(n.kids, kid())
		}
		n.f = sdf.Union(fs()...)
	case 1:
		n.op = "Intersect"
		for k := 1 + r.Intn(3); k > 0; k-- {
			n.kids = append(n.kids, kid())
		}
		n.f = sdf.Intersect(fs()...)
	case 2:
		n.op = "Subtract"
		n.kids = []*node{kid(), kid()}
		n.f = sdf.Subtract(n.kids[0].f, n.kids[1].f)
	default:
		n.op = "Translate"
		n.kids = []*node{kid()}
		n.t = v3{(2*r.Float64() - 1) * R, (2*r.Float64() - 1) * R, (2*r.Float64() - 1) * R}
		n.f = sdf.Translate(n.kids[0].f, pv(n.t))
	}
	return n
}

// leafFrames lists every leaf occurrence with the translation accumulated on the way down.
func (n *node) leafFrames(acc v3, out *[]struct {
	s shape
	t v3
}) {
	switch n.op {
	case "leaf":
		*out = append(*out, struct {
			s shape
			t v3
		}{n.leaf, acc})
	case "Translate":
		n.kids[0].leafFrames(acc.add(n.t), out)
	default:
		for _, k := range n.kids {
			k.leafFrames(acc, out)
		}
	}
}

// member: reference membership of p in the composite solid.
func (n *node) member(p v3, tol float64) (inside, decided bool) {
	switch n.op {
	case "leaf":
		m := n.leaf.margin(p)
		return m < 0, math.Abs(m) > tol
	case "Translate":
		return n.kids[0].member(p.sub(n.t), tol)
	}
	decided = true
	ins := make([]bool, len(n.kids))
	for i, k := range n.kids {
		var d bool
		ins[i], d = k.member(p, tol)
		decided = decided && d
	}
	switch n.op {
	case "Union":
		for _, x := range ins {
			inside = inside || x
		}
	case "Intersect":
		inside = true
		for _, x := range ins {
			inside = inside && x
		}
	case "Subtract":
		inside = ins[0] && !ins[1]
	}
	return
}

// checkNodes verifies every operator node against its own operands' values at p
// (the operands are whatever functions were passed in: this is the statement
// "negative exactly on the set operation of the operands' interiors").
func (n *node) checkNodes(res *run.Result, p v3, tol float64, root *node) bool {
	if n.op == "leaf" {
		return true
	}
	v := n.f(pv(p))
	w := func(got, want any) pointWitness {
		return pointWitness{Shape: n.String(), Params: map[string]any{"expression": n.describe()}, P: p, Got: got, Want: want}
	}
	if math.IsNaN(v) {
		res.Violate("not-finite", "sdf."+n.op, n.String(), fmt.Sprintf("value NaN at %v", p), w("NaN", "finite"))
		return false
	}
	res.Count("operator_node_checks", 1)
	res.SetAdd("operators", n.op)
	res.SetAdd("operator_arities", fmt.Sprintf("%s/%d", n.op, len(n.kids)))
	if n.op == "Translate" {
		q := p.sub(n.t)
		kv := n.kids[0].f(pv(q))
		if math.Abs(v-kv) > tol {
			res.Violate("translate-mismatch", "sdf.Translate", n.String(), fmt.Sprintf("Translate(f,%v)(%v) = %.15g but f(p-t) = %.15g", n.t, p, v, kv), w(v, kv))
			return false
		}
		return n.kids[0].checkNodes(res, q, tol, root)
	}
	kvs := make([]float64, len(n.kids))
	for i, k := range n.kids {
		kvs[i] = k.f(pv(p))
	}
	var want bool
	switch n.op {
	case "Union":
		for _, x := range kvs {
			want = want || x < 0
		}
	case "Intersect":
		want = true
		for _, x := range kvs {
			want = want && x < 0
		}
	case "Subtract":
		if kvs[1] == 0 {
			return true
		}
		want = kvs[0] < 0 && !(kvs[1] < 0)
	}
	if (v < 0) != want {
		res.Violate("set-operation-sign", "sdf."+n.op, fmt.Sprintf("%s/%d", n.op, len(n.kids)),
			fmt.Sprintf("%s of operands with values %v gives %.15g at %v: negative=%v, set operation of the operands' interiors says %v", n.op, kvs, v, p, v < 0, want),
			w(map[string]any{"value": v, "operands": kvs}, map[string]any{"negative": want}))
		return false
	}
	for _, k := range n.kids {
		if !k.checkNodes(res, p, tol, root) {
			return false
		}
	}
	return true
}

func operatorCase(c *run.Ctx) run.Result {
	var res run.Result
	r := c.Rng
	if c.Case%5 == 4 {
		return varyingLineCase(c)
	}
	L := logU(r, -1.5, 1.5)
	centre := genPos(r, L)
	var leaves []shape
	for k := 2 + r.Intn(3); k > 0; k-- {
		kind := primKinds[r.Intn(len(primKinds))]
		s := genShape(r, kind, L)
		// move the solid near the common centre so that the operands overlap
		s = relocate(s, centre.add(randDir(r).mul(L*r.Float64())))
		leaves = append(leaves, s)
	}
	var root *node
	for root == nil || root.op == "leaf" {
		root = genTree(r, 1+r.Intn(3), leaves, L)
	}
	c.Note("operators " + root.String())
	var frames []struct {
		s shape
		t v3
	}
	root.leafFrames(v3{}, &frames)
	base := 1.0
	for _, fr := range frames {
		base = math.Max(base, math.Max(fr.s.mag(), fr.t.maxAbs()))
	}
	nIn, nOut := 0, 0
	if p := run.Try(func() {
		for i := 0; i < 600; i++ {
			fr := frames[r.Intn(len(frames))]
			q, _ := samplePoint(r, fr.s)
			p := q.add(fr.t)
			tol := 1e-9 * math.Max(base, p.maxAbs())
			if !root.checkNodes(&res, p, tol, root) {
				return
			}
			inside, decided := root.member(p, tol)
			if !decided {
				res.Count("operator_points_undecided", 1)
				continue
			}
			v := root.f(pv(p))
			if inside {
				nIn++
			} else {
				nOut++
			}
			if (v < 0) != inside {
				res.Violate("composite-sign", "sdf operators (composite vs reference solids)", root.String(),
					fmt.Sprintf("expression %s at %v: value %.15g, reference membership in the composed solid: %v", root.String(), p, v, inside),
					pointWitness{Shape: root.String(), Params: map[string]any{"expression": root.describe()}, P: p, Got: v, Want: map[string]any{"inside": inside}})
				return
			}
		}
	}); p != nil {
		res.Violate("runtime-panic", "sdf operators", root.String(), fmt.Sprintf("panic: %v at %s", p.Value, p.Site), nil)
	}
	res.Count("composite_points_inside", int64(nIn))
	res.Count("composite_points_outside", int64(nOut))
	res.Nontrivial = nIn > 0 && nOut > 0
	res.Sig = root.String()
	if c.Case%101 == 0 {
		res.Sample = map[string]any{"expression": root.String(), "tree": root.describe()}
	}
	return res
}

// relocate moves a reference solid so that its centre is at c.
func relocate(s shape, c v3) shape {
	d := c.sub(s.centre())
	switch t := s.(type) {
	case sphere:
		t.c = t.c.add(d)
		return t
	case box:
		t.c = t.c.add(d)
		return t
	case capsule:
		t.a, t.b = t.a.add(d), t.b.add(d)
		return t
	case cone:
		t.a, t.b = t.a.add(d), t.b.add(d)
		return t
	case rcyl:
		t.pos = t.pos.add(d)
		return t
	case plane:
		t.pos = t.pos.add(d)
		return t
	}
	return s
}

// varyingLineCase: sdf.VarryingThicknessLine = union of rounded cones along a poly-line.
func varyingLineCase(c *run.Ctx) run.Result {
	var res run.Result
	r := c.Rng
	L := logU(r, -1.5, 1.5)
	n := 2 + r.Intn(4)
	pts := []v3{genPos(r, L)}
	rad := []float64{L * logU(r, -1.5, 0)}
	for len(pts) < n {
		l := L * (0.1 + 1.9*r.Float64())
		pts = append(pts, pts[len(pts)-1].add(randDir(r).mul(l)))
		l = pts[len(pts)-1].dist(pts[len(pts)-2])
		prev := rad[len(rad)-1]
		nr := prev + (2*r.Float64()-1)*0.94*l
		if nr <= 0 {
			nr = prev
		}
		rad = append(rad, nr)
	}
	var cones []cone
	lps := make([]sdf.LinePoint, n)
	for i := range pts {
		lps[i] = sdf.LinePoint{Point: pv(pts[i]), Radius: rad[i]}
		if i > 0 {
			cones = append(cones, cone{a: pts[i-1], b: pts[i], r1: rad[i-1], r2: rad[i]})
		}
	}
	c.Note("VarryingThicknessLine")
	base := 1.0
	for _, k := range cones {
		base = math.Max(base, k.mag())
	}
	nIn, nOut := 0, 0
	if p := run.Try(func() {
		f := sdf.VarryingThicknessLine(lps)
		for i := 0; i < 800; i++ {
			p, _ := samplePoint(r, cones[r.Intn(len(cones))])
			tol := 1e-9 * math.Max(base, p.maxAbs())
			m := math.Inf(1)
			for _, k := range cones {
				m = math.Min(m, k.margin(p))
			}
			v := f(pv(p))
			res.Count("varying_line_points", 1)
			switch {
			case m < -tol:
				nIn++
			case m > tol:
				nOut++
			default:
				continue
			}
			if math.IsNaN(v) || (v < 0) != (m < 0) {
				res.Violate("sign", "sdf.VarryingThicknessLine", fmt.Sprintf("%d points", n),
					fmt.Sprintf("p=%v: value %.15g, reference margin of the union of the %d ball hulls %.6g", p, v, len(cones), m),
					pointWitness{Shape: "varying-thickness-line", Params: map[string]any{"points": pts, "radii": rad}, P: p, Got: v, Want: m})
				return
			}
		}
	}); p != nil {
		res.Violate("runtime-panic", "sdf.VarryingThicknessLine", "", fmt.Sprintf("panic: %v at %s", p.Value, p.Site), nil)
	}
	res.Nontrivial = nIn > 0 && nOut > 0
	res.Sig = fmt.Sprintf("varying-line/%d", n)
	res.SetAdd("operators", "VarryingThicknessLine")
	return res
}
