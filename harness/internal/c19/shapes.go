package c19

// Reference shapes: membership margins and distances written from the geometric
// definition of each solid (no polyform code, no Quilez formulas).

import (
	"math"
	"math/rand"
)

type v3 [3]float64

func (a v3) add(b v3) v3       { return v3{a[0] + b[0], a[1] + b[1], a[2] + b[2]} }
func (a v3) sub(b v3) v3       { return v3{a[0] - b[0], a[1] - b[1], a[2] - b[2]} }
func (a v3) mul(s float64) v3  { return v3{a[0] * s, a[1] * s, a[2] * s} }
func (a v3) dot(b v3) float64  { return a[0]*b[0] + a[1]*b[1] + a[2]*b[2] }
func (a v3) len() float64      { return math.Sqrt(a.dot(a)) }
func (a v3) dist(b v3) float64 { return a.sub(b).len() }
func (a v3) cross(b v3) v3 {
	return v3{a[1]*b[2] - a[2]*b[1], a[2]*b[0] - a[0]*b[2], a[0]*b[1] - a[1]*b[0]}
}
func (a v3) maxAbs() float64 {
	return math.Max(math.Abs(a[0]), math.Max(math.Abs(a[1]), math.Abs(a[2])))
}

func randDir(r *rand.Rand) v3 {
	for {
		d := v3{r.NormFloat64(), r.NormFloat64(), r.NormFloat64()}
		if l := d.len(); l > 1e-3 {
			return d.mul(1 / l)
		}
	}
}

// onAxis returns a + t·(b-a), t ∈ [-0.5, 1.5], computed the naive way; half of
// the draws use a dyadic t (k/8), which is exactly on the axis when a and b lie on
// a dyadic grid.
func onAxis(r *rand.Rand, a, b v3) v3 {
	t := -0.5 + 2*r.Float64()
	if r.Intn(2) == 0 {
		t = float64(r.Intn(17)-4) / 8
	}
	ab := b.sub(a)
	return v3{a[0] + t*ab[0], a[1] + t*ab[1], a[2] + t*ab[2]}
}

// perp returns a unit vector perpendicular to the unit vector u.
func perp(r *rand.Rand, u v3) v3 {
	for {
		w := randDir(r)
		w = w.sub(u.mul(w.dot(u)))
		if l := w.len(); l > 0.1 {
			return w.mul(1 / l)
		}
	}
}

// shape is a reference solid.
type shape interface {
	kind() string
	regime() string
	// margin: < 0 strictly inside, > 0 strictly outside, 0 on the surface. For
	// shapes with euclid()==true it is the signed Euclidean distance to the surface.
	margin(p v3) float64
	euclid() bool
	centre() v3
	radius() float64 // radius of a ball around centre() containing the solid (planes: a length scale)
	mag() float64    // largest magnitude among the parameters (for tolerances)
	// special returns points where the closed-form expressions switch branch or
	// have a kink (cap planes, axis, face planes, tangent cones …).
	special(r *rand.Rand) v3
	params() map[string]any
}

// ---------------------------------------------------------------- sphere

type sphere struct {
	c v3
	r float64
}

func (s sphere) kind() string          { return "sphere" }
func (s sphere) regime() string        { return "r" + mags(s.r) }
func (s sphere) margin(p v3) float64   { return p.dist(s.c) - s.r }
func (s sphere) euclid() bool          { return true }
func (s sphere) centre() v3            { return s.c }
func (s sphere) radius() float64       { return s.r }
func (s sphere) mag() float64          { return math.Max(s.c.maxAbs(), s.r) }
func (s sphere) special(*rand.Rand) v3 { return s.c }
func (s sphere) params() map[string]any {
	return map[string]any{"position": s.c, "radius": s.r}
}

// ---------------------------------------------------------------- box (centre, full size)

type box struct {
	c, size v3
	round   float64 // > 0: the box ⊕ ball(round)  (polyform's RoundedBox keeps the box size and adds the ball)
	rounded bool
}

func (b box) kind() string {
	if b.rounded {
		return "rounded-box"
	}
	return "box"
}
func (b box) regime() string {
	h := b.size
	mn, mx := math.Min(h[0], math.Min(h[1], h[2])), math.Max(h[0], math.Max(h[1], h[2]))
	s := "cube-ish"
	if mx > 5*mn {
		s = "slab/rod"
	}
	if b.rounded {
		switch {
		case b.round == 0:
			s += ",round=0"
		case b.round < 0.2*mn:
			s += ",round-small"
		default:
			s += ",round-large"
		}
	}
	return s
}

// boxDistance: signed Euclidean distance to the axis-aligned box by per-axis clamp.
func boxDistance(c, size, p v3) float64 {
	var out2 float64
	inside := math.Inf(1)
	for k := 0; k < 3; k++ {
		h := size[k] / 2
		lo, hi := c[k]-h, c[k]+h
		if p[k] < lo {
			out2 += (lo - p[k]) * (lo - p[k])
		} else if p[k] > hi {
			out2 += (p[k] - hi) * (p[k] - hi)
		} else {
			inside = math.Min(inside, math.Min(p[k]-lo, hi-p[k]))
		}
	}
	if out2 > 0 {
		return math.Sqrt(out2)
	}
	return -inside
}
func (b box) margin(p v3) float64 { return boxDistance(b.c, b.size, p) - b.round }
func (b box) euclid() bool        { return !b.rounded }
func (b box) centre() v3          { return b.c }
func (b box) radius() float64     { return b.size.len()/2 + b.round }
func (b box) mag() float64 {
	return math.Max(b.c.maxAbs(), math.Max(b.size.maxAbs(), b.round))
}
func (b box) special(r *rand.Rand) v3 {
	h := b.size.mul(0.5)
	p := b.c.add(v3{(2*r.Float64() - 1) * 2 * h[0], (2*r.Float64() - 1) * 2 * h[1], (2*r.Float64() - 1) * 2 * h[2]})
	sgn := func() float64 { return float64(1 - 2*r.Intn(2)) }
	switch r.Intn(5) {
	case 0: // on an (extended) face plane
		k := r.Intn(3)
		p[k] = b.c[k] + sgn()*h[k]
	case 1: // on two face planes (extended edge)
		k := r.Intn(3)
		p[k] = b.c[k] + sgn()*h[k]
		k = (k + 1 + r.Intn(2)) % 3
		p[k] = b.c[k] + sgn()*h[k]
	case 2: // inside, equally deep below two faces (where the nearest face switches)
		i := r.Intn(3)
		j := (i + 1 + r.Intn(2)) % 3
		k := 3 - i - j
		tau := r.Float64() * math.Min(h[i], h[j])
		p[i] = b.c[i] + sgn()*(h[i]-tau)
		p[j] = b.c[j] + sgn()*(h[j]-tau)
		if h[k] > tau {
			p[k] = b.c[k] + sgn()*(h[k]-tau)*r.Float64()
		}
	case 3: // a coordinate plane through the centre (abs kink)
		k := r.Intn(3)
		p[k] = b.c[k]
	case 4:
		return b.c
	}
	return p
}
func (b box) params() map[string]any {
	m := map[string]any{"position": b.c, "bounds": b.size}
	if b.rounded {
		m["roundness"] = b.round
	}
	return m
}

// ---------------------------------------------------------------- capsule

type capsule struct {
	a, b v3
	r    float64
}

func segDistance(a, b, p v3) float64 {
	ab := b.sub(a)
	den := ab.dot(ab)
	t := 0.0
	if den > 0 {
		t = math.Max(0, math.Min(1, p.sub(a).dot(ab)/den))
	}
	return p.dist(a.add(ab.mul(t)))
}
func (c capsule) kind() string { return "capsule" }
func (c capsule) regime() string {
	l := c.a.dist(c.b)
	switch {
	case l < 1e-3*c.r:
		return "length<<radius"
	case c.r < 1e-3*l:
		return "radius<<length"
	}
	if c.r > c.a.dist(c.b) {
		return "fat"
	}
	if c.r < 0.05*c.a.dist(c.b) {
		return "thin"
	}
	return "regular"
}
func (c capsule) margin(p v3) float64 { return segDistance(c.a, c.b, p) - c.r }
func (c capsule) euclid() bool        { return true }
func (c capsule) centre() v3          { return c.a.add(c.b).mul(0.5) }
func (c capsule) radius() float64     { return c.a.dist(c.b)/2 + c.r }
func (c capsule) mag() float64 {
	return math.Max(c.a.maxAbs(), math.Max(c.b.maxAbs(), c.r))
}
func (c capsule) special(r *rand.Rand) v3 {
	u := c.b.sub(c.a)
	l := u.len()
	u = u.mul(1 / l)
	w := perp(r, u)
	rho := c.r * 3 * r.Float64()
	switch r.Intn(5) {
	case 0: // cap plane through a
		return c.a.add(w.mul(rho))
	case 1: // cap plane through b
		return c.b.add(w.mul(rho))
	case 2: // on the axis inside the segment
		return c.a.add(u.mul(l * r.Float64()))
	case 3: // on the axis line beyond the ends
		return c.a.add(u.mul(l * (3*r.Float64() - 1)))
	}
	switch r.Intn(3) {
	case 0:
		return c.a
	case 1:
		return c.b
	}
	return onAxis(r, c.a, c.b)
}
func (c capsule) params() map[string]any {
	return map[string]any{"start": c.a, "end": c.b, "radius": c.r}
}

// ---------------------------------------------------------------- rounded cone = convex hull of two balls

type cone struct {
	a, b   v3
	r1, r2 float64
}

func (c cone) kind() string { return "rounded-cone" }
func (c cone) regime() string {
	l := c.a.dist(c.b)
	s := math.Abs(c.r1-c.r2) / l
	var reg string
	switch {
	case c.r1 == c.r2:
		reg = "r1=r2"
	case c.r1 > c.r2:
		reg = "r1>r2"
	default:
		reg = "r1<r2"
	}
	switch {
	case s > 0.8:
		reg += ",steep"
	case s < 0.05:
		reg += ",nearly-capsule"
	}
	if math.Min(c.r1, c.r2) > l {
		reg += ",radii>length"
	}
	if math.Max(c.r1, c.r2) < 1e-2*l {
		reg += ",radii<<length"
	}
	return reg
}

// margin = min over t∈[0,1] of |p - c(t)| - r(t): the hull of the two balls is the
// union of the interpolated balls. g(t) is convex, so the constrained minimiser is
// the clamped stationary point; a golden-section refinement guards the closed form.
func (c cone) margin(p v3) float64 {
	ab := c.b.sub(c.a)
	l := ab.len()
	u := ab.mul(1 / l)
	pa := p.sub(c.a)
	h := pa.dot(u)
	rho := pa.sub(u.mul(h)).len()
	g := func(t float64) float64 {
		return math.Hypot(rho, h-t*l) - (c.r1 + (c.r2-c.r1)*t)
	}
	s := (c.r1 - c.r2) / l // |s| < 1 in the admissible domain
	ts := (h - rho*s/math.Sqrt(1-s*s)) / l
	ts = math.Max(0, math.Min(1, ts))
	best := math.Min(g(ts), math.Min(g(0), g(1)))
	// golden-section on the convex g as an independent cross-check of ts
	lo, hi := 0.0, 1.0
	const phi = 0.6180339887498949
	x1, x2 := hi-phi*(hi-lo), lo+phi*(hi-lo)
	g1, g2 := g(x1), g(x2)
	for i := 0; i < 60; i++ {
		if g1 < g2 {
			hi, x2, g2 = x2, x1, g1
			x1 = hi - phi*(hi-lo)
			g1 = g(x1)
		} else {
			lo, x1, g1 = x1, x2, g2
			x2 = lo + phi*(hi-lo)
			g2 = g(x2)
		}
	}
	return math.Min(best, math.Min(g1, g2))
}
func (c cone) euclid() bool    { return false }
func (c cone) centre() v3      { return c.a.add(c.b).mul(0.5) }
func (c cone) radius() float64 { return c.a.dist(c.b)/2 + math.Max(c.r1, c.r2) }
func (c cone) mag() float64 {
	return math.Max(math.Max(c.a.maxAbs(), c.b.maxAbs()), math.Max(c.r1, c.r2))
}
func (c cone) special(r *rand.Rand) v3 {
	ab := c.b.sub(c.a)
	l := ab.len()
	u := ab.mul(1 / l)
	w := perp(r, u)
	s := (c.r1 - c.r2) / l
	cs := math.Sqrt(1 - s*s)
	// direction of the outward normals along the tangent circles: s·u + cs·w
	nrm := u.mul(s).add(w.mul(cs))
	lam := math.Max(c.r1, c.r2) * 3 * r.Float64()
	switch r.Intn(8) {
	case 0: // border between cap a and the conical side
		return c.a.add(nrm.mul(lam))
	case 1: // border between cap b and the conical side
		return c.b.add(nrm.mul(lam))
	case 2: // plane through a perpendicular to the axis (sign(y) switches)
		return c.a.add(w.mul(lam))
	case 3: // plane through b (sign(z) switches)
		return c.b.add(w.mul(lam))
	case 4: // on the axis
		if r.Intn(3) > 0 {
			return onAxis(r, c.a, c.b)
		}
		return c.a.add(u.mul(l * (3*r.Float64() - 1)))
	case 5: // the same borders, continued to the other side of the axis (inside the solid)
		return c.a.add(nrm.mul(-lam * 0.3))
	case 6:
		return c.b.add(nrm.mul(-lam * 0.3))
	}
	if r.Intn(2) == 0 {
		return c.a
	}
	return c.b
}
func (c cone) params() map[string]any {
	return map[string]any{"a": c.a, "b": c.b, "r1": c.r1, "r2": c.r2}
}

// ---------------------------------------------------------------- rounded cylinder

// Polyform's parameters: RoundedCylinder(pos, radius, topHeight, bodyHeight) is the
// Y-axis cylinder of radius 2·radius-topHeight and half height bodyHeight, inflated
// by a ball of radius topHeight (outer radius 2·radius, outer half height
// bodyHeight+topHeight).
type rcyl struct {
	pos               v3
	rad, top, bodyHei float64
}

func (c rcyl) kind() string { return "rounded-cylinder" }
func (c rcyl) regime() string {
	rc := 2*c.rad - c.top
	reg := "disc"
	if c.bodyHei > rc {
		reg = "rod"
	}
	if c.top > 0.5*rc {
		reg += ",round-large"
	} else {
		reg += ",round-small"
	}
	return reg
}
func (c rcyl) margin(p v3) float64 {
	q := p.sub(c.pos)
	rc := 2*c.rad - c.top
	rho := math.Hypot(q[0], q[2])
	// nearest point of the solid core cylinder
	dr := math.Max(rho-rc, 0)
	dy := math.Max(math.Abs(q[1])-c.bodyHei, 0)
	if dr > 0 || dy > 0 {
		return math.Hypot(dr, dy) - c.top
	}
	// inside the core: at least `top` below the surface
	return -c.top - math.Min(rc-rho, c.bodyHei-math.Abs(q[1]))
}
func (c rcyl) euclid() bool    { return false }
func (c rcyl) centre() v3      { return c.pos }
func (c rcyl) radius() float64 { return math.Hypot(2*c.rad, c.bodyHei+c.top) }
func (c rcyl) mag() float64 {
	return math.Max(c.pos.maxAbs(), math.Max(2*c.rad, c.bodyHei+c.top))
}
func (c rcyl) special(r *rand.Rand) v3 {
	rc := 2*c.rad - c.top
	ang := 2 * math.Pi * r.Float64()
	rho := rc * 2 * r.Float64()
	y := (2*r.Float64() - 1) * 2 * (c.bodyHei + c.top)
	sgn := float64(1 - 2*r.Intn(2))
	switch r.Intn(6) {
	case 0: // on the core's lateral surface (extended)
		rho = rc
	case 1: // on a cap plane of the core (extended)
		y = sgn * c.bodyHei
	case 2: // rim of the core
		rho, y = rc, sgn*c.bodyHei
	case 3: // inside the core, equally deep below side and cap
		tau := r.Float64() * math.Min(rc, c.bodyHei)
		rho, y = rc-tau, sgn*(c.bodyHei-tau)
	case 4: // on the axis
		rho = 0
	case 5: // mid plane (abs kink)
		y = 0
	}
	return c.pos.add(v3{rho * math.Cos(ang), y, rho * math.Sin(ang)})
}
func (c rcyl) params() map[string]any {
	return map[string]any{"position": c.pos, "radius": c.rad, "topHeight": c.top, "bodyHeight": c.bodyHei}
}

// ---------------------------------------------------------------- plane (half space below the plane)

type plane struct {
	pos, n v3 // n unit
	height float64
	L      float64 // length scale of the case (a plane has no size of its own)
}

func (pl plane) kind() string   { return "plane" }
func (pl plane) regime() string { return "h" + mags(math.Abs(pl.height)) }

// The surface is the set of x with (x-pos)·n = -height, i.e. the plane through
// q0 = pos - height·n with normal n; the solid is the side n points away from.
func (pl plane) margin(p v3) float64 {
	q0 := pl.pos.sub(pl.n.mul(pl.height))
	return p.sub(q0).dot(pl.n)
}
func (pl plane) euclid() bool    { return true }
func (pl plane) centre() v3      { return pl.pos.sub(pl.n.mul(pl.height)) }
func (pl plane) radius() float64 { return math.Max(pl.L, math.Abs(pl.height)) }
func (pl plane) mag() float64    { return math.Max(pl.pos.maxAbs(), math.Abs(pl.height)) }
func (pl plane) special(r *rand.Rand) v3 {
	return pl.centre().add(perp(r, pl.n).mul(pl.radius() * 3 * r.Float64()))
}
func (pl plane) params() map[string]any {
	return map[string]any{"position": pl.pos, "normal": pl.n, "height": pl.height}
}

func mags(x float64) string {
	switch {
	case x == 0:
		return "=0"
	case x < 0.1:
		return "<0.1"
	case x < 10:
		return "~1"
	}
	return ">10"
}
