// Package c18 monitors property C18: the solid primitives (UV sphere welded and
// unwelded, box welded and as separate quads, capped cylinder, hemisphere)
// describe, once coincident positions are merged, a closed consistently
// oriented surface whose faces point outward and whose volume is that of the
// polyhedron inscribed for the parameters, approaching the analytic volume
// under refinement; supplied vertex normals (sphere, box, cylinder) point to
// the outer side of every incident face.
//
// The reference side (expected volumes, surface membership, interior point)
// is computed from the parameters only and shares no code with polyform.
package c18

import (
	"fmt"
	"io"
	"math"
	"math/rand"
	"sort"
	"strings"

	"github.com/EliCDavis/polyform/formats/obj"
	"github.com/EliCDavis/polyform/formats/ply"
	"github.com/EliCDavis/polyform/formats/stl"
	"github.com/EliCDavis/polyform/math/quaternion"
	"github.com/EliCDavis/polyform/modeling/meshops"
	"github.com/EliCDavis/vector/vector3"

	"github.com/EliCDavis/polyform/modeling"
	"github.com/EliCDavis/polyform/modeling/primitives"
	"github.com/EliCDavis/polyform/nodes"
	"github.com/EliCDavis/vector/vector2"
	"polyverif/internal/run"
)

// ---------------------------------------------------------------- parameters

type prim struct {
	Kind   string  `json:"kind"` // sphere | sphere-unwelded | hemisphere | cylinder | cube-welded | cube-quads
	Rows   int     `json:"rows,omitempty"`
	Cols   int     `json:"cols,omitempty"`
	Sides  int     `json:"sides,omitempty"`
	R      float64 `json:"radius,omitempty"`
	H      float64 `json:"height,omitempty"`
	W      float64 `json:"width,omitempty"`
	D      float64 `json:"depth,omitempty"`
	Capped bool    `json:"capped,omitempty"`
	Node   bool    `json:"via_node,omitempty"` // built through the node entry point (UvSphereNodeData{…}.Process() etc.), round 9 C18-N
	UV     string  `json:"uv"`                 // none | nil-struct | default | mask:<bits>
	uvMask int
	uvSeed int64
}

func (p prim) String() string {
	if p.Node {
		q := p
		q.Node = false
		return q.String() + " built through its node (" + p.site() + ")"
	}
	switch p.Kind {
	case "cylinder":
		return fmt.Sprintf("primitives.Cylinder{Sides:%d, Height:%v, Radius:%v, UVs:%s}.ToMesh()", p.Sides, p.H, p.R, p.UV)
	case "cube-welded":
		return fmt.Sprintf("primitives.Cube{Width:%v, Height:%v, Depth:%v, UVs:%s}.Welded()", p.W, p.H, p.D, p.UV)
	case "cube-quads":
		return fmt.Sprintf("primitives.Cube{Width:%v, Height:%v, Depth:%v, UVs:%s}.UnweldedQuads()", p.W, p.H, p.D, p.UV)
	case "hemisphere":
		return fmt.Sprintf("primitives.Hemisphere{Radius:%v, Capped:%v}.UV(%d, %d)", p.R, p.Capped, p.Rows, p.Cols)
	case "sphere":
		return fmt.Sprintf("primitives.UVSphere(%v, %d, %d)", p.R, p.Rows, p.Cols)
	default:
		return fmt.Sprintf("primitives.UVSphereUnwelded(%v, %d, %d)", p.R, p.Rows, p.Cols)
	}
}

func (p prim) site() string {
	if p.Node {
		switch p.Kind {
		case "cylinder":
			return "primitives.CylinderNodeData.Process"
		case "cube-quads":
			return "primitives.CubeNodeData.Process"
		case "hemisphere":
			return "primitives.HemisphereNodeData.Process"
		default:
			return "primitives.UvSphereNodeData.Process"
		}
	}
	switch p.Kind {
	case "cylinder":
		return "primitives.Cylinder.ToMesh"
	case "cube-welded":
		return "primitives.Cube.Welded"
	case "cube-quads":
		return "primitives.Cube.UnweldedQuads"
	case "hemisphere":
		return "primitives.Hemisphere.UV"
	case "sphere":
		return "primitives.UVSphere"
	default:
		return "primitives.UVSphereUnwelded"
	}
}

func randStrip(r *rand.Rand) *primitives.StripUVs {
	return &primitives.StripUVs{
		Start: vector2.New(r.Float64(), r.Float64()),
		End:   vector2.New(r.Float64(), r.Float64()),
		Width: 0.05 + r.Float64(),
	}
}

func randCircleUV(r *rand.Rand) *primitives.CircleUVs {
	return &primitives.CircleUVs{Center: vector2.New(r.Float64(), r.Float64()), Radius: 0.05 + r.Float64()}
}

// build calls the polyform constructor for p.
func nout[T any](v T) nodes.NodeOutput[T] { return nodes.Value(v).Out() }

// nodeOK: the node wrappers expose the solid without UV options (and no welded box).
func nodeOK(p prim) bool {
	switch p.Kind {
	case "sphere", "sphere-unwelded":
		return p.Rows >= 2 && p.Cols >= 3 // the node clamps smaller counts
	case "hemisphere":
		return true
	case "cylinder", "cube-quads":
		return true // the node has no UV port: fill() drops the UV option when it chooses the node
	}
	return false
}

func buildNode(p prim) modeling.Mesh {
	var m modeling.Mesh
	var err error
	switch p.Kind {
	case "sphere", "sphere-unwelded":
		m, err = primitives.UvSphereNodeData{Radius: nout(p.R), Rows: nout(p.Rows), Columns: nout(p.Cols), Weld: nout(p.Kind == "sphere")}.Process()
	case "hemisphere":
		m, err = primitives.HemisphereNodeData{Radius: nout(p.R), Rows: nout(p.Rows), Columns: nout(p.Cols), Capped: nout(p.Capped)}.Process()
	case "cylinder":
		m, err = primitives.CylinderNodeData{Sides: nout(p.Sides), Height: nout(p.H), Radius: nout(p.R)}.Process()
	default:
		m, err = primitives.CubeNodeData{Width: nout(p.W), Height: nout(p.H), Depth: nout(p.D)}.Process()
	}
	if err != nil {
		panic(err)
	}
	return m
}

func build(p prim) modeling.Mesh {
	if p.Node {
		return buildNode(p)
	}
	r := rand.New(rand.NewSource(p.uvSeed))
	switch p.Kind {
	case "sphere":
		return primitives.UVSphere(p.R, p.Rows, p.Cols)
	case "sphere-unwelded":
		return primitives.UVSphereUnwelded(p.R, p.Rows, p.Cols)
	case "hemisphere":
		return primitives.Hemisphere{Radius: p.R, Capped: p.Capped}.UV(p.Rows, p.Cols)
	case "cylinder":
		c := primitives.Cylinder{Sides: p.Sides, Height: p.H, Radius: p.R}
		if p.UV != "none" {
			u := &primitives.CylinderUVs{}
			if p.uvMask&1 != 0 {
				u.Top = randCircleUV(r)
			}
			if p.uvMask&2 != 0 {
				u.Bottom = randCircleUV(r)
			}
			if p.uvMask&4 != 0 {
				u.Side = randStrip(r)
			}
			c.UVs = u
		}
		return c.ToMesh()
	case "cube-welded", "cube-quads":
		c := primitives.Cube{Width: p.W, Height: p.H, Depth: p.D}
		switch {
		case p.UV == "none":
		case p.UV == "default":
			c.UVs = primitives.DefaultCubeUVs()
		default:
			u := &primitives.CubeUVs{}
			for b, dst := range []**primitives.StripUVs{&u.Top, &u.Bottom, &u.Left, &u.Right, &u.Front, &u.Back} {
				if p.uvMask&(1<<b) != 0 {
					*dst = randStrip(r)
				}
			}
			c.UVs = u
		}
		if p.Kind == "cube-welded" {
			return c.Welded()
		}
		return c.UnweldedQuads()
	}
	panic("harness: unknown kind " + p.Kind)
}

// ------------------------------------------------------------ reference model

// ngonFactor is the area of a regular n-gon of circumradius 1.
func ngonFactor(n int) float64 { return float64(n) / 2 * math.Sin(2*math.Pi/float64(n)) }

// frustumSum is the volume of the polyhedron whose cross-sections are regular
// n-gons (same orientation) of the given circumradii at the given heights,
// consecutive sections joined by planar trapezoids (radius 0 = apex).
func frustumSum(n int, ys, rs []float64) float64 {
	v := 0.
	for i := 0; i+1 < len(ys); i++ {
		h := math.Abs(ys[i] - ys[i+1])
		v += h / 3 * (rs[i]*rs[i] + rs[i]*rs[i+1] + rs[i+1]*rs[i+1])
	}
	return v * ngonFactor(n)
}

// sphereRings: UV sphere with `rows` latitude bands: poles plus rows-1 rings at
// polar angle pi*i/rows.
func sphereRings(R float64, rows int) (ys, rs []float64) {
	for i := 0; i <= rows; i++ {
		phi := math.Pi * float64(i) / float64(rows)
		ys = append(ys, R*math.Cos(phi))
		if i == 0 || i == rows {
			rs = append(rs, 0)
		} else {
			rs = append(rs, R*math.Sin(phi))
		}
	}
	return
}

// hemiRings: the layout polyform documents by construction for
// Hemisphere.UV(rows, columns): the pole, then rings at polar angle
// (pi/2)*(k/rows) for k = 2..rows (k = rows is the equator, the flat cap closes
// it). The ring k = 1 does not exist: `rows` rows yield rows-1 bands.
func hemiRings(R float64, rows int) (ys, rs []float64) {
	ys, rs = append(ys, R), append(rs, 0)
	for k := 2; k <= rows; k++ {
		th := math.Pi / 2 * float64(k) / float64(rows)
		y, r := R*math.Cos(th), R*math.Sin(th)
		if k == rows {
			y, r = 0, R
		}
		ys, rs = append(ys, y), append(rs, r)
	}
	return
}

type model struct {
	inscribed float64    // volume of the inscribed polyhedron for the parameters
	analytic  float64    // volume of the smooth solid
	size      float64    // smallest characteristic dimension (relative tolerances scale with it)
	big       float64    // largest characteristic dimension (absolute rounding noise scales with it)
	interior  [3]float64 // a point strictly inside the solid
	offSurf   func(p [3]float64) float64
	normals   bool // property lists this primitive among those whose normals are constrained
}

const ulp = 2.220446049250313e-16

func (m model) posTol() float64 { return 1e-9*m.size + 16*ulp*m.big }

// volTol: 1e-9 relative, plus the effect of the coordinate noise on the thinnest extent.
func (m model) volTol() float64 { return 1e-9 + 6*16*ulp*m.big/m.size }

func reference(p prim) model {
	switch p.Kind {
	case "sphere", "sphere-unwelded":
		ys, rs := sphereRings(p.R, p.Rows)
		return model{
			inscribed: frustumSum(p.Cols, ys, rs), analytic: 4. / 3 * math.Pi * p.R * p.R * p.R, size: p.R, big: p.R,
			offSurf: func(q [3]float64) float64 { return math.Abs(norm(q) - p.R) },
			normals: p.Kind == "sphere",
		}
	case "hemisphere":
		ys, rs := hemiRings(p.R, p.Rows)
		return model{
			inscribed: frustumSum(p.Cols, ys, rs), analytic: 2. / 3 * math.Pi * p.R * p.R * p.R, size: p.R, big: p.R,
			interior: [3]float64{0, p.R / 3, 0},
			offSurf: func(q [3]float64) float64 {
				dome := math.Abs(norm(q) - p.R)
				if q[1] < 0 {
					dome += -q[1]
				}
				cap := math.Abs(q[1]) + math.Max(0, math.Hypot(q[0], q[2])-p.R)
				return math.Min(dome, cap)
			},
		}
	case "cylinder":
		hh := p.H / 2
		return model{
			inscribed: ngonFactor(p.Sides) * p.R * p.R * p.H, analytic: math.Pi * p.R * p.R * p.H, size: math.Min(p.R, p.H), big: math.Max(p.R, p.H),
			offSurf: func(q [3]float64) float64 {
				rho := math.Hypot(q[0], q[2])
				side := math.Abs(rho-p.R) + math.Max(0, math.Abs(q[1])-hh)
				caps := math.Abs(math.Abs(q[1])-hh) + math.Max(0, rho-p.R)
				return math.Min(side, caps)
			},
			normals: true,
		}
	default: // cubes
		hw, hh, hd := p.W/2, p.H/2, p.D/2
		return model{
			inscribed: p.W * p.H * p.D, analytic: p.W * p.H * p.D, size: math.Min(p.W, math.Min(p.H, p.D)), big: math.Max(p.W, math.Max(p.H, p.D)),
			offSurf: func(q [3]float64) float64 {
				ex := [3]float64{math.Abs(q[0]) - hw, math.Abs(q[1]) - hh, math.Abs(q[2]) - hd}
				out := math.Max(0, ex[0]) + math.Max(0, ex[1]) + math.Max(0, ex[2])
				in := math.Min(-ex[0], math.Min(-ex[1], -ex[2])) // distance to the nearest face when inside
				if out > 0 {
					return out
				}
				return in
			},
			normals: true,
		}
	}
}

// ------------------------------------------------------------------- oracle

type observed struct {
	Volume    float64
	Tris      int
	Verts     int
	Merged    int
	HasNormal bool
	mesh      modeling.Mesh // kept alive by callers that re-read it later
	print     uint64        // fingerprint of everything the oracle reads, taken when first judged
}

// fingerprint hashes positions, normals and indices bit by bit (read through the public accessors).
func fingerprint(P, N [][3]float64, idx []int) uint64 {
	h := uint64(1469598103934665603)
	mix := func(v uint64) {
		h ^= v
		h *= 1099511628211
	}
	for _, arr := range [2][][3]float64{P, N} {
		mix(uint64(len(arr)))
		for _, p := range arr {
			mix(math.Float64bits(p[0]))
			mix(math.Float64bits(p[1]))
			mix(math.Float64bits(p[2]))
		}
	}
	mix(uint64(len(idx)))
	for _, i := range idx {
		mix(uint64(i))
	}
	return h
}

// stillIntact re-reads a mesh that was judged earlier and compares it with its fingerprint.
func stillIntact(ob *observed) (bool, string) {
	P, N, idx, err := readMesh(ob.mesh)
	if err != nil {
		return false, err.Error()
	}
	if fingerprint(P, N, idx) == ob.print {
		return true, ""
	}
	return false, fmt.Sprintf("now %d vertices, %d indices, first position %v", len(P), len(idx), firstOr(P))
}

func firstOr(P [][3]float64) any {
	if len(P) > 1 {
		return P[1]
	}
	return "-"
}

// check builds p with polyform and applies the whole oracle. It returns what
// was measured (nil when the constructor did not return a mesh).
func check(c *run.Ctx, res *run.Result, p prim) *observed {
	ref := reference(p)
	var m modeling.Mesh
	c.Note(p.String())
	if pn := run.Try(func() { m = build(p) }); pn != nil {
		// every parameter set generated here is admissible (counts >= the documented minima,
		// positive dimensions, UV structs with any subset of entries): a panic is a refutation.
		class := "constructor-panic"
		if pn.Runtime {
			class = "runtime-panic"
		}
		res.Violate(class, p.site(), p.Kind+" uv="+uvClass(p), fmt.Sprintf("%s panicked: %s (at %s)", p, pn.Value, pn.Site), p)
		return nil
	}
	P, N, idx, err := readMesh(m)
	if err != nil {
		res.Violate("malformed-mesh", p.site(), p.Kind, fmt.Sprintf("%s: %v", p, err), p)
		return nil
	}
	// position tolerance: 1e-9 of the smallest dimension, plus the rounding noise a float64 construction
	// from rotations and translations leaves on every coordinate (a few ulps of the LARGEST dimension:
	// sin(pi) = 1.2e-16 times a coordinate of another axis). For extreme aspect ratios the second term
	// dominates; it stays far below the smallest feature as long as the ratio is <= 1e12.
	tol := ref.posTol()
	s := analyse(P, N, idx, tol, 1e-14*ref.size*ref.size)
	ob := &observed{Volume: s.Volume, Tris: s.Tris, Verts: len(P), Merged: s.Merged, HasNormal: N != nil, mesh: m, print: fingerprint(P, N, idx)}
	res.Count("meshes", 1)
	res.Count("faces", int64(s.Tris))
	res.Count("directed_edges_paired", int64(3*(s.Tris-s.Degen)))
	in := p.Kind
	if s.Tris == 0 {
		res.Violate("empty-mesh", p.site(), in, fmt.Sprintf("%s returned no faces", p), p)
		return ob
	}
	if s.Degen > 0 {
		res.Violate("degenerate-face", p.site(), in, fmt.Sprintf("%s: %d of %d faces degenerate after merging positions at %.3g; %s", p, s.Degen, s.Tris, tol, s.FirstBad), p)
	}
	if s.Unmatch > 0 || s.Multi > 0 {
		res.Violate("not-closed", p.site(), in, fmt.Sprintf("%s: after merging positions at %.3g, %d directed edges lack an equal number of reverse edges, %d directed edges are used more than once (of %d faces); %s",
			p, tol, s.Unmatch, s.Multi, s.Tris, s.FirstBad), p)
	}
	// orientation: total signed volume and every single face
	if !(s.Volume > 0) {
		res.Violate("inward-or-zero-volume", p.site(), in, fmt.Sprintf("%s: signed volume %g, want > 0 (inscribed polyhedron %g)", p, s.Volume, ref.inscribed), p)
	}
	inward, firstIn := 0, ""
	badN, firstN := 0, ""
	off, firstOff := 0, ""
	for t := 0; t+2 < len(idx); t += 3 {
		a, b, cc := P[idx[t]], P[idx[t+1]], P[idx[t+2]]
		fn := cross(sub(b, a), sub(cc, a))
		if !(norm(fn) > 0) {
			continue // counted as degenerate above
		}
		cen := [3]float64{(a[0] + b[0] + cc[0]) / 3, (a[1] + b[1] + cc[1]) / 3, (a[2] + b[2] + cc[2]) / 3}
		if !(dot(sub(cen, ref.interior), fn) > 0) {
			inward++
			if firstIn == "" {
				firstIn = fmt.Sprintf("face %d (%v %v %v) has normal %v pointing towards the interior point %v", t/3, a, b, cc, fn, ref.interior)
			}
		}
		if N != nil && ref.normals {
			for k := 0; k < 3; k++ {
				n := N[idx[t+k]]
				res.Count("normal_face_incidences", 1)
				if !(dot(n, fn) > 0) {
					badN++
					if firstN == "" {
						firstN = fmt.Sprintf("vertex %d at %v has normal %v; incident face %d (%v %v %v) has geometric normal %v; dot = %g", idx[t+k], P[idx[t+k]], n, t/3, a, b, cc, fn, dot(n, fn))
					}
				}
			}
		}
	}
	for i, q := range P {
		if d := ref.offSurf(q); !(d <= tol) {
			off++
			if firstOff == "" {
				firstOff = fmt.Sprintf("vertex %d at %v is %g away from the solid's boundary", i, q, d)
			}
		}
	}
	if inward > 0 {
		res.Violate("face-points-inward", p.site(), in, fmt.Sprintf("%s: %d of %d faces point inward; %s", p, inward, s.Tris, firstIn), p)
	}
	if badN > 0 {
		res.Violate("normal-not-on-outer-side", p.site(), in, fmt.Sprintf("%s: %d vertex-normal/face incidences with n.faceNormal <= 0; %s", p, badN, firstN), p)
	}
	if off > 0 {
		res.Violate("vertex-off-solid-boundary", p.site(), in, fmt.Sprintf("%s: %d of %d vertices not on the boundary of the solid (polyhedron not inscribed); %s", p, off, len(P), firstOff), p)
	}
	if math.Abs(s.Volume-ref.inscribed) > ref.volTol()*ref.inscribed {
		res.Violate("volume-mismatch", p.site(), in, fmt.Sprintf("%s: enclosed volume %.15g, inscribed polyhedron for the parameters has %.15g (rel. diff %.3g); analytic solid %.15g",
			p, s.Volume, ref.inscribed, (s.Volume-ref.inscribed)/ref.inscribed, ref.analytic), p)
	}
	if N != nil && ref.normals {
		res.Count("meshes_with_normals_checked", 1)
	}
	return ob
}

func uvClass(p prim) string {
	switch {
	case p.UV == "none" || p.UV == "default":
		return p.UV
	case p.Kind == "cylinder" && p.uvMask == 7, p.Kind != "cylinder" && p.uvMask == 63:
		return "all"
	case p.uvMask == 0:
		return "empty-struct"
	}
	return "partial"
}

// ------------------------------------------------------------------ workload

// dims draws n dimensions in [1e-9, 1e9]. Modes: a common scale anywhere in that range with factors
// within 1e3 of each other; every dimension log-uniform on its own (ratio capped at 1e12, beyond that
// float64 cannot hold the solid); named extreme aspect ratios (1 x 1 x 1e-7, 1e6 x 1e-6 x 1, ...);
// exact small integers; float32-representable values.
func dims(r *rand.Rand, n int) []float64 {
	out := make([]float64, n)
	clamp := func() {
		for i := range out {
			out[i] = math.Min(1e9, math.Max(1e-9, out[i]))
		}
	}
	switch m := r.Intn(20); {
	case m < 9:
		scale := math.Pow(10, -7.5+15*r.Float64())
		for i := range out {
			out[i] = scale * math.Pow(10, -1.5+3*r.Float64())
		}
		if r.Intn(4) == 0 {
			for i := range out {
				out[i] = float64(float32(out[i]))
			}
		}
	case m < 14:
		lo, hi := math.Inf(1), math.Inf(-1)
		e := make([]float64, n)
		for i := range e {
			e[i] = -9 + 18*r.Float64()
			lo, hi = math.Min(lo, e[i]), math.Max(hi, e[i])
		}
		for i := range e {
			if hi-lo > 12 {
				e[i] = lo + (e[i]-lo)*12/(hi-lo)
			}
			out[i] = math.Pow(10, e[i])
		}
	case m < 18:
		pats := [][]float64{{1, 1, 1e-7}, {1e6, 1e-6, 1}, {1, 1e-7, 1e-7}, {1e-7, 1e-7, 1e-7}, {1e-6, 1e-6, 1}, {2e-6, 1, 1}, {1e9, 1e9, 1e9}, {1e-9, 1e-9, 1e-9}, {1e-9, 1e-3, 1e-3}, {1e3, 1e9, 1e-3}}
		pat := pats[r.Intn(len(pats))]
		perm := r.Perm(3)
		for i := range out {
			out[i] = pat[perm[i]]
		}
		if r.Intn(2) == 0 { // same shape, jittered
			for i := range out {
				out[i] *= 0.5 + r.Float64()
			}
		}
	default:
		for i := range out {
			out[i] = float64(1 + r.Intn(4))
		}
	}
	clamp()
	return out
}

func decade(x float64) int { return int(math.Floor(math.Log10(x))) }

type combo struct {
	kind             string
	rows, cols, side int
	uv               int // uvNone, uvDefault, uvRandom or a nil/non-nil mask >= 0
}

const (
	uvNone    = -1
	uvDefault = -2 // cube: DefaultCubeUVs(); cylinder: all three entries
	uvRandom  = -3 // a random mask
)

// grid enumerates every small count and every nil/non-nil combination of the UV
// option structs (cylinder: 8 masks, cube: 64 masks, plus "no UVs" and the defaults).
var grid = func() []combo {
	var g []combo
	for _, k := range []string{"sphere", "sphere-unwelded", "hemisphere"} {
		for rows := 2; rows <= 12; rows++ {
			for cols := 3; cols <= 16; cols++ {
				g = append(g, combo{kind: k, rows: rows, cols: cols})
			}
		}
	}
	for sides := 3; sides <= 24; sides++ {
		for uv := uvNone; uv < 8; uv++ {
			g = append(g, combo{kind: "cylinder", side: sides, uv: uv})
		}
	}
	for _, k := range []string{"cube-welded", "cube-quads"} {
		for uv := uvDefault; uv < 64; uv++ {
			g = append(g, combo{kind: k, uv: uv})
		}
	}
	return g
}()

func fill(r *rand.Rand, cb combo) prim {
	p := prim{Kind: cb.kind, Rows: cb.rows, Cols: cb.cols, Sides: cb.side, UV: "none", uvSeed: r.Int63()}
	setMask := func(full int) {
		switch {
		case cb.uv == uvNone:
		case cb.uv == uvDefault && full == 63:
			p.UV = "default"
		case cb.uv == uvDefault:
			p.uvMask, p.UV = full, fmt.Sprintf("mask:%d", full)
		case cb.uv == uvRandom:
			p.uvMask = r.Intn(full + 1)
			p.UV = fmt.Sprintf("mask:%d", p.uvMask)
		default:
			p.uvMask, p.UV = cb.uv, fmt.Sprintf("mask:%d", cb.uv)
		}
	}
	switch cb.kind {
	case "sphere", "sphere-unwelded":
		p.R = dims(r, 1)[0]
	case "hemisphere":
		p.R = dims(r, 1)[0]
		p.Capped = r.Intn(2) == 0
	case "cylinder":
		d := dims(r, 2)
		p.R, p.H = d[0], d[1]
		setMask(7)
	default:
		d := dims(r, 3)
		p.W, p.H, p.D = d[0], d[1], d[2]
		setMask(63)
	}
	if nodeOK(p) && r.Intn(4) == 0 {
		p.Node = true
		if p.Kind == "cylinder" || p.Kind == "cube-quads" {
			p.UV, p.uvMask = "none", 0
		}
	}
	return p
}

func finish(res *run.Result, p prim, ob *observed) {
	lo, hi := math.Inf(1), 0.
	for _, d := range []float64{p.R, p.H, p.W, p.D} {
		if d > 0 {
			lo, hi = math.Min(lo, d), math.Max(hi, d)
		}
	}
	if ob != nil {
		if lo < 2e-6 {
			res.Count("meshes_with_a_dimension_below_2e-6", 1)
		}
		if hi > 1e6 {
			res.Count("meshes_with_a_dimension_above_1e6", 1)
		}
		if hi/lo >= 1e6 {
			res.Count("meshes_with_aspect_ratio_of_1e6_or_more", 1)
		}
	}
	res.Sample = map[string]any{"call": p.String(), "observed": ob}
	res.SetAdd("kinds", p.Kind)
	if p.Node {
		res.Count("solids_built_through_their_node", 1)
		res.SetAdd("node_entry_points", p.site())
	}
	res.SetAdd("uv_options", p.Kind+":"+uvClass(p))
	if ob != nil && ob.Tris >= 4 {
		res.Nontrivial = true
	}
}

func gridCase(c *run.Ctx) run.Result {
	var res run.Result
	cb := grid[c.Case%len(grid)]
	p := fill(c.Rng, cb)
	ob := check(c, &res, p)
	res.Sig = fmt.Sprintf("%s r%d c%d s%d uv=%s", p.Kind, p.Rows, p.Cols, p.Sides, p.UV)
	res.SetAdd("uv_masks", p.Kind+":"+p.UV)
	res.SetAdd("size_decades", fmt.Sprint(decade(math.Max(p.R, math.Max(p.W, math.Max(p.H, p.D))))))
	finish(&res, p, ob)
	return res
}

func logInt(r *rand.Rand, lo, hi int) int {
	v := int(math.Round(math.Exp(math.Log(float64(lo)) + r.Float64()*(math.Log(float64(hi))-math.Log(float64(lo))))))
	if v < lo {
		v = lo
	}
	if v > hi {
		v = hi
	}
	return v
}

// largeCase samples counts above the exhaustive grid, up to 200 (one of the two
// sphere counts may stay small so that extreme aspect ratios occur too).
func largeCase(c *run.Ctx) run.Result {
	var res run.Result
	r := c.Rng
	kinds := []string{"sphere", "sphere-unwelded", "hemisphere", "cylinder"}
	cb := combo{kind: kinds[c.Case%len(kinds)], uv: []int{uvNone, uvDefault, uvRandom}[r.Intn(3)]}
	if cb.kind == "cylinder" {
		cb.side = logInt(r, 25, 200)
	} else {
		switch r.Intn(4) {
		case 0:
			cb.rows, cb.cols = 2+r.Intn(11), logInt(r, 17, 200)
		case 1:
			cb.rows, cb.cols = logInt(r, 13, 200), 3+r.Intn(14)
		default:
			cb.rows, cb.cols = logInt(r, 13, 200), logInt(r, 17, 200)
		}
	}
	p := fill(r, cb)
	ob := check(c, &res, p)
	b := func(n int) int { return n / 25 }
	res.Sig = fmt.Sprintf("%s r%d c%d s%d uv=%s", p.Kind, b(p.Rows), b(p.Cols), b(p.Sides), uvClass(p))
	if n := max(p.Rows, p.Cols, p.Sides); n >= 150 {
		res.Count("meshes_with_a_count_of_150_or_more", 1)
	}
	finish(&res, p, ob)
	return res
}

// refineCase follows one primitive along a doubling refinement sequence. The
// vertex set of each step contains the previous one, so the inscribed polyhedra
// are nested: the enclosed volume must grow strictly, stay below the analytic
// volume, and the gap must shrink (quadratically in theory; at least by half per
// doubling is demanded).
func refineCase(c *run.Ctx) run.Result {
	var res run.Result
	r := c.Rng
	kinds := []string{"sphere", "sphere-unwelded", "hemisphere", "cylinder"}
	base := fill(r, combo{kind: kinds[c.Case%len(kinds)], rows: 2 + r.Intn(4), cols: 3 + r.Intn(5), side: 3 + r.Intn(6), uv: []int{uvNone, uvRandom}[r.Intn(2)]})
	mode := r.Intn(3) // 0 both counts, 1 rows only, 2 columns only (spheres)
	if base.Kind == "cylinder" {
		mode = 0
	}
	type step struct {
		Rows, Cols, Sides int
		Volume, Gap       float64
	}
	var steps []step
	p := base
	var last *observed
	for k := 0; k < 6; k++ {
		ob := check(c, &res, p)
		if ob == nil {
			break
		}
		last = ob
		an := reference(p).analytic
		steps = append(steps, step{p.Rows, p.Cols, p.Sides, ob.Volume, (an - ob.Volume) / an})
		if mode != 2 {
			p.Rows *= 2
		}
		if mode != 1 {
			p.Cols *= 2
		}
		p.Sides *= 2
		if max(p.Rows, p.Cols, p.Sides) > 256 {
			break
		}
	}
	for i, s := range steps {
		if !(s.Gap > 0) {
			res.Violate("volume-exceeds-analytic", base.site(), base.Kind, fmt.Sprintf("%s refined to rows=%d cols=%d sides=%d: volume %.15g is not below the analytic volume (relative gap %g)", base, s.Rows, s.Cols, s.Sides, s.Volume, s.Gap), steps)
		}
		if i == 0 {
			continue
		}
		prev := steps[i-1]
		if !(s.Volume > prev.Volume) {
			res.Violate("refinement-not-monotone", base.site(), base.Kind, fmt.Sprintf("%s: doubling (rows=%d cols=%d sides=%d) -> (rows=%d cols=%d sides=%d) changed the volume %.15g -> %.15g (nested inscribed polyhedra must grow)",
				base, prev.Rows, prev.Cols, prev.Sides, s.Rows, s.Cols, s.Sides, prev.Volume, s.Volume), steps)
		}
		if mode == 0 && !(s.Gap < prev.Gap/2) {
			res.Violate("refinement-does-not-converge", base.site(), base.Kind, fmt.Sprintf("%s: relative gap to the analytic volume %g -> %g when doubling every count (must at least halve)", base, prev.Gap, s.Gap), steps)
		}
		res.Count("refinement_steps", 1)
	}
	res.Sig = fmt.Sprintf("%s mode%d from r%d c%d s%d", base.Kind, mode, base.Rows, base.Cols, base.Sides)
	finish(&res, base, last)
	res.Sample = map[string]any{"start": base.String(), "mode": mode, "steps": steps}
	res.Nontrivial = len(steps) >= 4
	return res
}

// equalProducts lists, per product P = (rows-1)*columns, the admissible (rows, columns) pairs; only
// products with at least two pairs are kept. Index counts and vertex counts of the UV spheres depend
// on (rows, columns) only through such products, so anything remembered between calls by size alone
// confuses exactly these resolutions.
var equalProducts = func() [][][2]int {
	by := map[int][][2]int{}
	for rows := 2; rows <= 40; rows++ {
		for cols := 3; cols <= 64; cols++ {
			if p := (rows - 1) * cols; p <= 256 {
				by[p] = append(by[p], [2]int{rows, cols})
			}
		}
	}
	var out [][][2]int
	for p := 3; p <= 256; p++ {
		if len(by[p]) >= 2 {
			out = append(out, by[p])
		}
	}
	return out
}()

// useMesh passes m (and an earlier mesh of the case) through ordinary mesh operations. Results are
// discarded; panics of the operations belong to other properties and are only named in the description.
func useMesh(r *rand.Rand, m modeling.Mesh, earlier *observed) (desc string, vertexOnly bool) {
	var done []string
	try := func(name string, f func()) {
		if p := run.Try(f); p != nil {
			name += " (panicked)"
		}
		done = append(done, name)
	}
	ops := r.Perm(7)[:2+r.Intn(2)]
	if r.Intn(2) == 0 {
		ops = append(ops, 0)
	}
	for _, op := range ops {
		switch op {
		case 0:
			k := 1 + r.Intn(5)
			verts := make([]vector3.Float64, k)
			for i := range verts {
				verts[i] = vector3.New(r.NormFloat64(), r.NormFloat64(), r.NormFloat64())
			}
			try(fmt.Sprintf("append-onto-vertex-only-mesh of %d vertices", k), func() {
				acc := modeling.NewTriangleMesh([]int{}).SetFloat3Data(map[string][]vector3.Float64{modeling.PositionAttribute: verts})
				_ = acc.Append(m)
			})
			vertexOnly = true
		case 1:
			try("append-onto-EmptyMesh", func() { _ = modeling.EmptyMesh(modeling.TriangleTopology).Append(m) })
		case 2:
			if earlier != nil {
				try("append-onto-earlier-primitive and earlier-onto-it", func() {
					_ = earlier.mesh.Append(m)
					_ = m.Append(earlier.mesh)
				})
			} else {
				try("append-onto-itself", func() { _ = m.Append(m) })
			}
		case 3:
			try("translate-scale-rotate", func() {
				_ = m.Translate(vector3.New(1., 2., 3.)).Scale(vector3.New(2., 0.5, 3.)).Rotate(quaternion.FromTheta(1.1, vector3.New(0., 1., 0.)))
			})
		case 4:
			try("set-material", func() { _ = m.SetMaterial(modeling.Material{Name: "m"}) })
		case 5:
			try("transform-unweld-flip", func() {
				_ = m.Transform(meshops.UnweldTransformer{}, meshops.FlipTriangleWindingTransformer{})
			})
		default:
			try("write-obj-ply-stl", func() {
				_ = obj.WriteMesh(m, "", io.Discard)
				_ = ply.Write(io.Discard, m, ply.ASCII)
				_ = ply.Write(io.Discard, m, ply.BinaryLittleEndian)
				_ = stl.WriteMesh(io.Discard, m)
			})
		}
	}
	return strings.Join(done, ", "), vertexOnly
}

// outOfDomain returns a call of p's kind (or, half of the time, of another kind) with at least one
// inadmissible parameter. Counts stay tiny so that nothing large is allocated.
func outOfDomain(r *rand.Rand, p prim) (prim, string) {
	q := p
	if r.Intn(2) == 0 {
		all := []string{"sphere", "sphere-unwelded", "hemisphere", "cylinder", "cube-welded", "cube-quads"}
		q = fill(r, combo{kind: all[r.Intn(len(all))], rows: 2 + r.Intn(6), cols: 3 + r.Intn(6), side: 3 + r.Intn(8), uv: []int{uvNone, uvDefault, uvRandom}[r.Intn(3)]})
	}
	bad := func(v float64) (float64, string) {
		switch r.Intn(6) {
		case 0, 1, 2:
			return -v, "negative dimension"
		case 3:
			return 0, "zero dimension"
		case 4:
			return math.NaN(), "NaN dimension"
		default:
			return math.Inf(1 - 2*r.Intn(2)), "infinite dimension"
		}
	}
	var dimsOf []*float64
	var counts []*int
	switch q.Kind {
	case "cube-welded", "cube-quads":
		dimsOf = []*float64{&q.W, &q.H, &q.D}
	case "cylinder":
		dimsOf, counts = []*float64{&q.R, &q.H}, []*int{&q.Sides}
	default:
		dimsOf, counts = []*float64{&q.R}, []*int{&q.Rows, &q.Cols}
	}
	what := map[string]bool{}
	if len(counts) > 0 && r.Intn(3) == 0 {
		*counts[r.Intn(len(counts))] = []int{-1, 0, 1, 2}[r.Intn(4)]
		what["count below the minimum"] = true
	}
	if len(what) == 0 || r.Intn(3) == 0 {
		k := r.Intn(len(dimsOf))
		for j, d := range dimsOf {
			if j == k || r.Intn(2) == 0 {
				var w string
				*d, w = bad(*d)
				what[w] = true
			}
		}
	}
	var names []string
	for w := range what {
		names = append(names, w)
	}
	sort.Strings(names)
	return q, strings.Join(names, "+")
}

// sequenceCase makes the CALL ORDER a dimension: 2-4 primitives are built one after the other in one
// process and every one of them is judged. Patterns: the same kind at two different resolutions with
// equal (rows-1)*columns (both orders, optionally returning to the first), different kinds interleaved,
// identical calls repeated, the same kind at unrelated resolutions (growing and shrinking).
func sequenceCase(c *run.Ctx) run.Result {
	var res run.Result
	r := c.Rng
	sphereKinds := []string{"sphere", "sphere-unwelded", "hemisphere"}
	var seq []prim
	pattern := c.Case % 4
	switch pattern {
	case 0:
		k := sphereKinds[(c.Case/4)%3]
		fam := equalProducts[r.Intn(len(equalProducts))]
		i := r.Intn(len(fam))
		j := (i + 1 + r.Intn(len(fam)-1)) % len(fam)
		a := fill(r, combo{kind: k, rows: fam[i][0], cols: fam[i][1]})
		b := fill(r, combo{kind: k, rows: fam[j][0], cols: fam[j][1]})
		if r.Intn(2) == 0 {
			b.R = a.R
		}
		seq = []prim{a, b}
		switch r.Intn(4) {
		case 0:
			seq = append(seq, a)
		case 1: // the other welding of the same resolution in between
			k2 := sphereKinds[r.Intn(3)]
			seq = []prim{a, fill(r, combo{kind: k2, rows: fam[j][0], cols: fam[j][1]}), b}
		}
	case 1:
		all := []string{"sphere", "sphere-unwelded", "hemisphere", "cylinder", "cube-welded", "cube-quads"}
		n := 3 + r.Intn(2)
		rows, cols := 2+r.Intn(11), 3+r.Intn(14)
		for i := 0; i < n; i++ {
			if r.Intn(2) == 0 {
				rows, cols = 2+r.Intn(11), 3+r.Intn(14)
			}
			seq = append(seq, fill(r, combo{kind: all[r.Intn(len(all))], rows: rows, cols: cols, side: 3 + r.Intn(22), uv: []int{uvNone, uvDefault, uvRandom}[r.Intn(3)]}))
		}
	case 2:
		all := []string{"sphere", "sphere-unwelded", "hemisphere", "cylinder", "cube-welded", "cube-quads"}
		a := fill(r, combo{kind: all[(c.Case/4)%len(all)], rows: 2 + r.Intn(11), cols: 3 + r.Intn(14), side: 3 + r.Intn(22), uv: []int{uvNone, uvDefault, uvRandom}[r.Intn(3)]})
		seq = []prim{a, a}
		if r.Intn(2) == 0 {
			seq = append(seq, a)
		}
	default:
		k := []string{"sphere", "sphere-unwelded", "hemisphere", "cylinder"}[(c.Case/4)%4]
		n := 2 + r.Intn(3)
		for i := 0; i < n; i++ {
			seq = append(seq, fill(r, combo{kind: k, rows: 2 + r.Intn(30), cols: 3 + r.Intn(40), side: 3 + r.Intn(60), uv: uvNone}))
		}
	}
	var calls []string
	var last *observed
	judged := 0
	type kept struct {
		p  prim
		ob *observed
	}
	var alive []kept
	// every mesh of the case stays alive; after each later constructor call (and once more at the end)
	// all earlier meshes are read again: a mesh value must not change because another one was built
	recheck := func(after string) {
		for _, k := range alive {
			res.Count("earlier_meshes_reread_after_a_later_call", 1)
			if ok, how := stillIntact(k.ob); !ok {
				res.Violate("earlier-mesh-changed-by-later-call", k.p.site(), k.p.Kind, fmt.Sprintf("the mesh returned by %s was correct when returned but reads differently after %s (%s): it shares memory with something the later call wrote", k.p, after, how), calls)
			}
		}
	}
	useAll := pattern != 0 || r.Intn(2) == 0
	// Round 7 (C18-L): calls OUTSIDE the property's domain (negative, zero, non-finite dimensions; counts
	// below the minimum) are legal Go and happen in real programs (mirrored boxes, sliders at 0). Their
	// results are never judged, but they must not spoil what the constructors hand out afterwards. Own
	// PRNG so that the admissible part of every case is what it was before this was added.
	r2 := rand.New(rand.NewSource(int64(run.Mix(c.Seed, 0x0D0A18, uint64(c.Case)))))
	hostile := r2.Intn(3) == 0
	for i, p := range seq {
		if hostile && r2.Intn(3) != 0 {
			q, what := outOfDomain(r2, p)
			desc := "out-of-domain call (result not judged): " + q.String()
			if pan := run.Try(func() { _ = build(q) }); pan != nil {
				desc += " (panicked)"
				res.Count("out_of_domain_calls_that_panicked", 1)
			}
			calls = append(calls, desc)
			res.Count("out_of_domain_calls_before_a_judged_build", 1)
			res.SetAdd("out_of_domain_kinds", q.Kind+": "+what)
			recheck(desc)
		}
		ob := check(c, &res, p)
		calls = append(calls, p.String())
		recheck(p.String())
		if ob != nil {
			last = ob
			judged++
			alive = append(alive, kept{p, ob})
		}
		// USE the primitive the way a program does - as argument and receiver of mesh operations and
		// writers -, then read every mesh of the case again and build the same kind once more: a use must
		// neither change a mesh that was handed out nor spoil what the constructors hand out afterwards.
		if ob != nil && useAll {
			var earlier *observed
			if len(alive) >= 2 {
				earlier = alive[r.Intn(len(alive)-1)].ob
			}
			used, vertexOnly := useMesh(r, ob.mesh, earlier)
			calls = append(calls, "use: "+used)
			for _, u := range strings.Split(used, ", ") {
				res.SetAdd("uses_between_builds", strings.SplitN(u, " ", 2)[0])
			}
			recheck("using it (" + used + ")")
			again := p
			if r.Intn(2) == 0 { // same kind and counts, fresh dimensions and UV options
				again = fill(r, combo{kind: p.Kind, rows: p.Rows, cols: p.Cols, side: p.Sides, uv: []int{uvNone, uvDefault, uvRandom}[r.Intn(3)]})
			}
			ob2 := check(c, &res, again)
			calls = append(calls, again.String())
			recheck(again.String())
			if ob2 != nil {
				alive = append(alive, kept{again, ob2})
			}
			res.Count("primitives_built_after_an_earlier_instance_was_used", 1)
			if vertexOnly {
				res.Count("primitives_built_after_an_earlier_instance_was_appended_onto_a_vertex_only_mesh", 1)
			}
		}
		if i > 0 {
			q := seq[i-1]
			if p.Kind == q.Kind && p.Rows > 0 && (p.Rows-1)*p.Cols == (q.Rows-1)*q.Cols && (p.Rows != q.Rows || p.Cols != q.Cols) {
				res.Count("consecutive_calls_with_equal_rows_minus_1_times_columns", 1)
			}
			if p.String() == q.String() {
				res.Count("consecutive_identical_calls", 1)
			}
			if p.Kind != q.Kind {
				res.Count("consecutive_calls_of_different_kinds", 1)
			}
		}
		res.SetAdd("kinds", p.Kind)
	}
	recheck("the end of the sequence")
	res.Count("call_sequences", 1)
	res.Sig = fmt.Sprintf("pattern%d %s n%d", pattern, seq[0].Kind, len(seq))
	if pattern == 0 {
		res.Sig += fmt.Sprintf(" product%d", (seq[0].Rows-1)*seq[0].Cols)
	}
	res.Nontrivial = judged == len(seq) && last != nil
	res.Sample = map[string]any{"calls_in_order": calls}
	return res
}

func Spec() *run.Spec {
	return &run.Spec{
		ID: "C18", Level: "exploration",
		Rule: "grid: every (kind, rows 2..12 x columns 3..16 | sides 3..24 | cube variant, UV option) combination, each repetition with fresh dimensions drawn over 1e-9..1e9 (common scale with ratios <= 1e3, independent log-uniform dimensions with ratio <= 1e12, named extreme aspect ratios such as 1x1x1e-7 and 1e6x1e-6x1, small integers); " +
			"large: counts sampled log-uniformly up to 200; sequence: 2-4 constructor calls in one process with USES of the primitives in between (Append onto a vertex-only mesh / EmptyMesh / another primitive and vice versa, translate-scale-rotate, SetMaterial, Transform(unweld, flip), OBJ/PLY/STL writers) followed by a rebuild of the same kind, in a third of the sequences also constructor calls with inadmissible parameters (negative, zero, NaN, infinite dimensions; counts below the minimum) whose results are not judged, each admissible build judged and every earlier mesh of the case re-read (fingerprint of positions, normals, indices) after each later call and at the end (equal (rows-1)*columns pairs in both orders, kinds interleaved, identical calls repeated, unrelated resolutions); refine: doubling sequences of one primitive up to a count of 256. A case is non-trivial when the constructor returned a mesh of >= 4 faces " +
			"(refine: >= 4 steps); distinctness = kind + counts (bucketed by 25 in `large`) + UV option class.",
		Assumptions: []string{
			"admissible parameters: radius/height/width/depth > 0, rows >= 2, columns >= 3 (the constructors panic below that), cylinder sides >= 3 (Cylinder accepts 1 and 2 without complaint but a 1- or 2-gon prism is not a solid), NoTop/NoBottom false (capped cylinder)",
			"coincident positions are merged at 1e-9 x the smallest dimension + 16 ulp x the largest dimension (float64 rounding of a construction by rotations/translations puts noise of a few ulps of the largest extent on every coordinate) before edges are paired, as the property states; volumes are compared at 1e-9 relative + 96 ulp x largest/smallest dimension; the aspect ratio within one solid is capped at 1e12",
			"inscribed polyhedron = convex polyhedron on the vertex layout the parameters define: UV sphere rows-1 rings at polar angle pi*i/rows; hemisphere rings at (pi/2)*k/rows for k=2..rows plus pole and flat cap (polyform's Hemisphere.UV(rows,..) has rows-1 bands, the ring next to the pole is absent; taken as the definition, reported as an observation); prism n/2 r^2 sin(2pi/n) h; box w*h*d",
			"normals are constrained only where the property lists them (sphere, box, cylinder); the hemisphere's normals (radial on the flat cap's rim, NaN at the cap centre) are outside the statement",
			"UV options, exhaustively in the grid phase: cylinder nil and all 8 nil/non-nil combinations of {Top,Bottom,Side}; cube nil, DefaultCubeUVs() and all 64 nil/non-nil combinations of the six faces, with random strips",
		},
		MinNontrivial: map[string]int{"quick": 750, "thorough": 800},
		MinObserved: map[string]int64{"kinds": 6, "meshes_with_normals_checked": 300, "refinement_steps": 100, "meshes_with_a_count_of_150_or_more": 5, "uv_options": 10, "uv_masks": 140,
			"call_sequences": 300, "solids_built_through_their_node": 200, "node_entry_points": 3, "out_of_domain_calls_before_a_judged_build": 150, "out_of_domain_kinds": 12, "primitives_built_after_an_earlier_instance_was_used": 500, "primitives_built_after_an_earlier_instance_was_appended_onto_a_vertex_only_mesh": 200, "uses_between_builds": 7, "earlier_meshes_reread_after_a_later_call": 1000, "consecutive_calls_with_equal_rows_minus_1_times_columns": 100, "consecutive_identical_calls": 100, "consecutive_calls_of_different_kinds": 100,
			"size_decades": 16, "meshes_with_a_dimension_below_2e-6": 200, "meshes_with_a_dimension_above_1e6": 200, "meshes_with_aspect_ratio_of_1e6_or_more": 50},
		Phases: []run.Phase{
			{Name: "grid", Cases: func(t string) int {
				if t == "thorough" {
					return 30 * len(grid)
				}
				return 4 * len(grid)
			}, Run: gridCase, Batch: 80, CPUBudgetS: 20},
			{Name: "large", Cases: func(t string) int {
				if t == "thorough" {
					return 4000
				}
				return 300
			}, Run: largeCase, Batch: 10, CPUBudgetS: 60},
			{Name: "sequence", Cases: func(t string) int {
				if t == "thorough" {
					return 6000
				}
				return 600
			}, Run: sequenceCase, Batch: 25, CPUBudgetS: 60},
			{Name: "refine", Cases: func(t string) int {
				if t == "thorough" {
					return 1000
				}
				return 64
			}, Run: refineCase, Batch: 3, CPUBudgetS: 120},
		},
	}
}
