package c18

import (
	"fmt"
	"math"

	"github.com/EliCDavis/polyform/modeling"
	"polyverif/internal/ref"
)

// surf is what the closed-surface oracle observed on one primitive mesh, after
// merging coincident positions (the property says "once coincident positions
// are merged").
type surf struct {
	P        [][3]float64 // positions by vertex id
	N        [][3]float64 // normals by vertex id (nil when the mesh has none)
	Idx      []int
	Vid      []int // merged-position class per vertex id
	Tris     int
	Merged   int
	Degen    int // faces with two corners merged to one position, or of zero area
	Unmatch  int // directed edges whose reverse does not occur equally often
	Multi    int // directed edges used by more than one face
	Volume   float64
	FirstBad string
}

func readMesh(m modeling.Mesh) (P, N [][3]float64, idx []int, err error) {
	if m.Topology() != modeling.TriangleTopology {
		return nil, nil, nil, fmt.Errorf("topology %v, want triangles", m.Topology())
	}
	if !m.HasFloat3Attribute(modeling.PositionAttribute) {
		return nil, nil, nil, fmt.Errorf("no position attribute")
	}
	pos := m.Float3Attribute(modeling.PositionAttribute)
	P = make([][3]float64, pos.Len())
	for i := range P {
		v := pos.At(i)
		P[i] = [3]float64{v.X(), v.Y(), v.Z()}
	}
	if m.HasFloat3Attribute(modeling.NormalAttribute) {
		nor := m.Float3Attribute(modeling.NormalAttribute)
		if nor.Len() != len(P) {
			return nil, nil, nil, fmt.Errorf("%d normals for %d positions", nor.Len(), len(P))
		}
		N = make([][3]float64, nor.Len())
		for i := range N {
			v := nor.At(i)
			N[i] = [3]float64{v.X(), v.Y(), v.Z()}
		}
	}
	ix := m.Indices()
	idx = make([]int, ix.Len())
	for i := range idx {
		idx[i] = ix.At(i)
		if idx[i] < 0 || idx[i] >= len(P) {
			return nil, nil, nil, fmt.Errorf("index[%d]=%d outside [0,%d)", i, idx[i], len(P))
		}
	}
	if len(idx)%3 != 0 {
		return nil, nil, nil, fmt.Errorf("%d indices in a triangle mesh", len(idx))
	}
	return P, N, idx, nil
}

func sub(a, b [3]float64) [3]float64 { return [3]float64{a[0] - b[0], a[1] - b[1], a[2] - b[2]} }
func dot(a, b [3]float64) float64    { return a[0]*b[0] + a[1]*b[1] + a[2]*b[2] }
func cross(a, b [3]float64) [3]float64 {
	return [3]float64{a[1]*b[2] - a[2]*b[1], a[2]*b[0] - a[0]*b[2], a[0]*b[1] - a[1]*b[0]}
}
func norm(a [3]float64) float64 { return math.Sqrt(dot(a, a)) }

// analyse merges positions within tol (absolute), pairs directed edges and
// sums the signed volume. minArea is the area below which a face counts as
// degenerate.
func analyse(P, N [][3]float64, idx []int, tol, minArea float64) *surf {
	s := &surf{P: P, N: N, Idx: idx, Tris: len(idx) / 3}
	s.Vid = ref.MergePositions(P, tol)
	seen := map[int]bool{}
	for _, v := range s.Vid {
		seen[v] = true
	}
	s.Merged = len(seen)
	edges := make(map[[2]int]int, len(idx))
	first := map[[2]int]int{}
	for t := 0; t+2 < len(idx); t += 3 {
		i0, i1, i2 := idx[t], idx[t+1], idx[t+2]
		a, b, c := s.Vid[i0], s.Vid[i1], s.Vid[i2]
		fn := cross(sub(P[i1], P[i0]), sub(P[i2], P[i0]))
		if a == b || b == c || a == c || !(norm(fn)/2 > minArea) {
			s.Degen++
			if s.FirstBad == "" {
				s.FirstBad = fmt.Sprintf("degenerate face %d: corners %v %v %v (area %g)", t/3, P[i0], P[i1], P[i2], norm(fn)/2)
			}
			continue
		}
		for _, e := range [3][2]int{{a, b}, {b, c}, {c, a}} {
			edges[e]++
			if _, ok := first[e]; !ok {
				first[e] = t / 3
			}
		}
		s.Volume += dot(P[i0], cross(P[i1], P[i2])) / 6
	}
	// deterministic report: lowest face number first
	bestFace, bestMsg := -1, ""
	for e, k := range edges {
		bad := ""
		if k > 1 {
			s.Multi++
			bad = fmt.Sprintf("used by %d faces", k)
		}
		if r := edges[[2]int{e[1], e[0]}]; r != k {
			s.Unmatch++
			bad = fmt.Sprintf("occurs %d times, its reverse %d times", k, r)
		}
		if bad != "" && (bestFace == -1 || first[e] < bestFace) {
			bestFace = first[e]
			// class ids of MergePositions are indices of a representative vertex
			bestMsg = fmt.Sprintf("face %d: directed edge %v -> %v %s", first[e], P[e[0]], P[e[1]], bad)
		}
	}
	if s.FirstBad == "" {
		s.FirstBad = bestMsg
	}
	return s
}
