// Package ref holds the oracles shared by the monitors: well-formedness,
// full fingerprints, the corner view, the closed-surface oracle and float
// comparison. Everything reads polyform meshes only through public accessors.
package ref

import (
	"fmt"
	"math"
	"sort"
	"strings"

	"github.com/EliCDavis/polyform/modeling"
)

// WF checks well-formedness: one common attribute length, indices in range,
// index count fitting the topology.
func WF(m modeling.Mesh) error {
	L := -1
	chk := func(n string, l int) error {
		if L == -1 {
			L = l
		} else if L != l {
			return fmt.Errorf("attribute %q has %d entries, another attribute has %d", n, l, L)
		}
		return nil
	}
	for _, a := range m.Float1Attributes() {
		if e := chk(a, m.Float1Attribute(a).Len()); e != nil {
			return e
		}
	}
	for _, a := range m.Float2Attributes() {
		if e := chk(a, m.Float2Attribute(a).Len()); e != nil {
			return e
		}
	}
	for _, a := range m.Float3Attributes() {
		if e := chk(a, m.Float3Attribute(a).Len()); e != nil {
			return e
		}
	}
	for _, a := range m.Float4Attributes() {
		if e := chk(a, m.Float4Attribute(a).Len()); e != nil {
			return e
		}
	}
	if L == -1 {
		L = 0
	}
	idx := m.Indices()
	for i := 0; i < idx.Len(); i++ {
		if v := idx.At(i); v < 0 || v >= L {
			return fmt.Errorf("index[%d]=%d outside [0,%d)", i, v, L)
		}
	}
	switch m.Topology() {
	case modeling.TriangleTopology:
		if idx.Len()%3 != 0 {
			return fmt.Errorf("triangle mesh with %d indices", idx.Len())
		}
	case modeling.QuadTopology:
		if idx.Len()%4 != 0 {
			return fmt.Errorf("quad mesh with %d indices", idx.Len())
		}
	}
	return nil
}

// AttrLen is the common attribute length (0 when there are no attributes).
func AttrLen(m modeling.Mesh) int {
	for _, a := range m.Float3Attributes() {
		return m.Float3Attribute(a).Len()
	}
	for _, a := range m.Float1Attributes() {
		return m.Float1Attribute(a).Len()
	}
	for _, a := range m.Float2Attributes() {
		return m.Float2Attribute(a).Len()
	}
	for _, a := range m.Float4Attributes() {
		return m.Float4Attribute(a).Len()
	}
	return 0
}

// Snapshot is a deep copy of everything a mesh reports.
type Snapshot struct {
	Topology modeling.Topology
	Indices  []int
	MatCount []int
	MatPtr   []*modeling.Material
	MatVal   []modeling.Material
	Names    []string             // "1:name", "3:Position", … sorted
	Data     map[string][]float64 // flattened values per "arity:name"
}

func bits(f float64) uint64 {
	if f == 0 {
		return 0 // -0 ≡ +0
	}
	if f != f {
		return 0x7ff8000000000001
	}
	return math.Float64bits(f)
}

// Snap reads the whole observable state of m.
func Snap(m modeling.Mesh) *Snapshot {
	s := &Snapshot{Topology: m.Topology(), Data: map[string][]float64{}}
	idx := m.Indices()
	s.Indices = make([]int, idx.Len())
	for i := range s.Indices {
		s.Indices[i] = idx.At(i)
	}
	for _, mm := range m.Materials() {
		s.MatCount = append(s.MatCount, mm.PrimitiveCount)
		s.MatPtr = append(s.MatPtr, mm.Material)
		if mm.Material != nil {
			s.MatVal = append(s.MatVal, *mm.Material)
		} else {
			s.MatVal = append(s.MatVal, modeling.Material{})
		}
	}
	for _, a := range m.Float1Attributes() {
		k := "1:" + a
		it := m.Float1Attribute(a)
		d := make([]float64, it.Len())
		for i := range d {
			d[i] = it.At(i)
		}
		s.Data[k] = d
		s.Names = append(s.Names, k)
	}
	for _, a := range m.Float2Attributes() {
		k := "2:" + a
		it := m.Float2Attribute(a)
		d := make([]float64, 0, it.Len()*2)
		for i := 0; i < it.Len(); i++ {
			v := it.At(i)
			d = append(d, v.X(), v.Y())
		}
		s.Data[k] = d
		s.Names = append(s.Names, k)
	}
	for _, a := range m.Float3Attributes() {
		k := "3:" + a
		it := m.Float3Attribute(a)
		d := make([]float64, 0, it.Len()*3)
		for i := 0; i < it.Len(); i++ {
			v := it.At(i)
			d = append(d, v.X(), v.Y(), v.Z())
		}
		s.Data[k] = d
		s.Names = append(s.Names, k)
	}
	for _, a := range m.Float4Attributes() {
		k := "4:" + a
		it := m.Float4Attribute(a)
		d := make([]float64, 0, it.Len()*4)
		for i := 0; i < it.Len(); i++ {
			v := it.At(i)
			d = append(d, v.X(), v.Y(), v.Z(), v.W())
		}
		s.Data[k] = d
		s.Names = append(s.Names, k)
	}
	sort.Strings(s.Names)
	return s
}

// Diff returns "" when the two snapshots are bit-identical, else the first difference.
func (s *Snapshot) Diff(o *Snapshot) string {
	if s.Topology != o.Topology {
		return fmt.Sprintf("topology %v -> %v", s.Topology, o.Topology)
	}
	if len(s.Indices) != len(o.Indices) {
		return fmt.Sprintf("index count %d -> %d", len(s.Indices), len(o.Indices))
	}
	for i := range s.Indices {
		if s.Indices[i] != o.Indices[i] {
			return fmt.Sprintf("index[%d] %d -> %d", i, s.Indices[i], o.Indices[i])
		}
	}
	if len(s.MatCount) != len(o.MatCount) {
		return fmt.Sprintf("material count %d -> %d", len(s.MatCount), len(o.MatCount))
	}
	for i := range s.MatCount {
		if s.MatCount[i] != o.MatCount[i] || s.MatPtr[i] != o.MatPtr[i] {
			return fmt.Sprintf("material range %d: (%d,%p) -> (%d,%p)", i, s.MatCount[i], s.MatPtr[i], o.MatCount[i], o.MatPtr[i])
		}
		if fmt.Sprintf("%+v", s.MatVal[i]) != fmt.Sprintf("%+v", o.MatVal[i]) {
			return fmt.Sprintf("material %d fields changed", i)
		}
	}
	if strings.Join(s.Names, "|") != strings.Join(o.Names, "|") {
		return fmt.Sprintf("attribute names %v -> %v", s.Names, o.Names)
	}
	for _, k := range s.Names {
		a, b := s.Data[k], o.Data[k]
		if len(a) != len(b) {
			return fmt.Sprintf("attribute %s length %d -> %d", k, len(a), len(b))
		}
		for i := range a {
			if bits(a[i]) != bits(b[i]) {
				return fmt.Sprintf("attribute %s component %d: %v -> %v", k, i, a[i], b[i])
			}
		}
	}
	return ""
}

// Arity of a snapshot key.
func arity(k string) int { return int(k[0] - '0') }

// CornerView: for every primitive, for every corner, the values of every
// attribute at that corner. Insensitive to vertex order, welding and
// unreferenced vertices.
type CornerView struct {
	Topology modeling.Topology
	K        int      // corners per primitive
	Names    []string // sorted "arity:name"
	// Prims[p][c] = concatenated attribute values in Names order
	Prims [][][]float64
}

// Corners builds the corner view of a mesh (triangle, point, quad; line strips
// are viewed as the sequence of their vertices, one "primitive" per index).
func Corners(m modeling.Mesh, skip ...string) *CornerView {
	s := Snap(m)
	return s.Corners(skip...)
}

func (s *Snapshot) Corners(skip ...string) *CornerView {
	sk := map[string]bool{}
	for _, x := range skip {
		sk[x] = true
	}
	cv := &CornerView{Topology: s.Topology}
	switch s.Topology {
	case modeling.TriangleTopology:
		cv.K = 3
	case modeling.QuadTopology:
		cv.K = 4
	default:
		cv.K = 1
	}
	for _, n := range s.Names {
		if !sk[n[2:]] && !sk[n] {
			cv.Names = append(cv.Names, n)
		}
	}
	np := len(s.Indices) / cv.K
	cv.Prims = make([][][]float64, np)
	for p := 0; p < np; p++ {
		cv.Prims[p] = make([][]float64, cv.K)
		for c := 0; c < cv.K; c++ {
			v := s.Indices[p*cv.K+c]
			var t []float64
			for _, n := range cv.Names {
				a := arity(n)
				d := s.Data[n]
				if (v+1)*a <= len(d) && v >= 0 {
					t = append(t, d[v*a:(v+1)*a]...)
				} else {
					for j := 0; j < a; j++ {
						t = append(t, math.NaN())
					}
				}
			}
			cv.Prims[p][c] = t
		}
	}
	return cv
}

// Offsets returns, for each attribute name in the view, its offset and arity inside a corner tuple.
func (cv *CornerView) Offsets() map[string][2]int {
	out := map[string][2]int{}
	o := 0
	for _, n := range cv.Names {
		out[n] = [2]int{o, arity(n)}
		o += arity(n)
	}
	return out
}

// EqualExact compares two corner views bit for bit; returns "" or the first difference.
func (cv *CornerView) EqualExact(o *CornerView) string {
	return cv.Compare(o, func(a, b float64) bool { return bits(a) == bits(b) })
}

// Compare compares two corner views with the given scalar equality.
func (cv *CornerView) Compare(o *CornerView, eq func(a, b float64) bool) string {
	if cv.Topology != o.Topology {
		return fmt.Sprintf("topology %v vs %v", cv.Topology, o.Topology)
	}
	if strings.Join(cv.Names, "|") != strings.Join(o.Names, "|") {
		return fmt.Sprintf("attribute sets differ: %v vs %v", cv.Names, o.Names)
	}
	if len(cv.Prims) != len(o.Prims) {
		return fmt.Sprintf("primitive count %d vs %d", len(cv.Prims), len(o.Prims))
	}
	offs := cv.offsetNames()
	for p := range cv.Prims {
		for c := range cv.Prims[p] {
			a, b := cv.Prims[p][c], o.Prims[p][c]
			for i := range a {
				if !eq(a[i], b[i]) {
					return fmt.Sprintf("primitive %d corner %d %s: %v vs %v", p, c, offs[i], a[i], b[i])
				}
			}
		}
	}
	return ""
}

func (cv *CornerView) offsetNames() []string {
	var out []string
	for _, n := range cv.Names {
		for j := 0; j < arity(n); j++ {
			out = append(out, fmt.Sprintf("%s[%d]", n[2:], j))
		}
	}
	return out
}

// PrimKey is a canonical string of a primitive's corner tuples (bit exact).
func PrimKey(p [][]float64) string {
	var sb strings.Builder
	for _, c := range p {
		for _, f := range c {
			fmt.Fprintf(&sb, "%x,", bits(f))
		}
		sb.WriteByte('|')
	}
	return sb.String()
}

// Keys returns the primitive keys in order.
func (cv *CornerView) Keys() []string {
	out := make([]string, len(cv.Prims))
	for i, p := range cv.Prims {
		out[i] = PrimKey(p)
	}
	return out
}

// --- float comparison -----------------------------------------------------

// EqF32 : b equals a after rounding a to float32 (b is a decoded float32 value).
func EqF32(a, b float64) bool {
	return bits(float64(float32(a))) == bits(b) || (a != a && b != b)
}

// EqF32Ulp : equal at float32 precision within n float32 ulps.
func EqF32Ulp(a, b float64, n int) bool {
	fa, fb := float32(a), float32(b)
	if fa == fb {
		return true
	}
	if fa != fa || fb != fb {
		return fa != fa && fb != fb
	}
	ia, ib := int64(orderedBits32(fa)), int64(orderedBits32(fb))
	d := ia - ib
	if d < 0 {
		d = -d
	}
	return d <= int64(n)
}

func orderedBits32(f float32) int32 {
	b := int32(math.Float32bits(f))
	if b < 0 {
		b = math.MinInt32 - b
	}
	return b
}

// Close : |a-b| <= tol * max(1,|a|,|b|)
func Close(a, b, tol float64) bool {
	if a == b {
		return true
	}
	m := math.Max(1, math.Max(math.Abs(a), math.Abs(b)))
	return math.Abs(a-b) <= tol*m
}

// CloseScale : |a-b| <= tol * scale
func CloseScale(a, b, tol, scale float64) bool {
	return a == b || math.Abs(a-b) <= tol*scale
}
