package ref

import (
	"fmt"
	"math"

	"github.com/EliCDavis/polyform/modeling"
)

// SurfaceReport is what the closed-surface oracle observed.
type SurfaceReport struct {
	Tris           int
	MergedVerts    int
	Degenerate     int     // faces with two corners merged to one vertex (or zero area when checked)
	ZeroArea       int     // faces with area < areaEps (not merged)
	Unmatched      int     // directed edges whose reverse does not occur the same number of times
	Multi          int     // directed edges occurring more than once
	Volume         float64 // signed volume by the divergence sum
	FirstBad       string
	DirectedEdges  int
	BoundaryExample [2][3]float64
}

func (r SurfaceReport) Closed() bool { return r.Unmatched == 0 && r.Multi == 0 }

// Surface merges vertices whose positions are within tol (absolute, Chebyshev
// per axis, transitive) and then pairs directed edges. It never drops anything
// silently: degenerate faces are counted and excluded from the pairing.
func Surface(m modeling.Mesh, tol float64) SurfaceReport {
	pos := m.Float3Attribute(modeling.PositionAttribute)
	idx := m.Indices()
	n := pos.Len()
	P := make([][3]float64, n)
	for i := 0; i < n; i++ {
		v := pos.At(i)
		P[i] = [3]float64{v.X(), v.Y(), v.Z()}
	}
	vid := MergePositions(P, tol)
	cnt := map[int]bool{}
	for _, v := range vid {
		cnt[v] = true
	}
	r := SurfaceReport{Tris: idx.Len() / 3, MergedVerts: len(cnt)}
	edges := map[[2]int]int{}
	rep := map[[2]int][2]int{}
	for t := 0; t+2 < idx.Len(); t += 3 {
		i0, i1, i2 := idx.At(t), idx.At(t+1), idx.At(t+2)
		a, b, c := vid[i0], vid[i1], vid[i2]
		if a == b || b == c || a == c {
			r.Degenerate++
			if r.FirstBad == "" {
				r.FirstBad = fmt.Sprintf("degenerate face %d: corners %v %v %v", t/3, P[i0], P[i1], P[i2])
			}
			continue
		}
		edges[[2]int{a, b}]++
		edges[[2]int{b, c}]++
		edges[[2]int{c, a}]++
		rep[[2]int{a, b}] = [2]int{i0, i1}
		rep[[2]int{b, c}] = [2]int{i1, i2}
		rep[[2]int{c, a}] = [2]int{i2, i0}
		p0, p1, p2 := P[i0], P[i1], P[i2]
		cx := p1[1]*p2[2] - p1[2]*p2[1]
		cy := p1[2]*p2[0] - p1[0]*p2[2]
		cz := p1[0]*p2[1] - p1[1]*p2[0]
		r.Volume += (p0[0]*cx + p0[1]*cy + p0[2]*cz) / 6
	}
	r.DirectedEdges = len(edges)
	for e, k := range edges {
		if k > 1 {
			r.Multi++
			if r.FirstBad == "" {
				q := rep[e]
				r.FirstBad = fmt.Sprintf("directed edge %v->%v used by %d faces", P[q[0]], P[q[1]], k)
			}
		}
		if edges[[2]int{e[1], e[0]}] != k {
			r.Unmatched++
			if r.FirstBad == "" {
				q := rep[e]
				r.FirstBad = fmt.Sprintf("directed edge %v->%v occurs %d times, its reverse %d times", P[q[0]], P[q[1]], k, edges[[2]int{e[1], e[0]}])
			}
		}
	}
	return r
}

// MergePositions returns a class id per point; points within tol per axis are merged (transitively).
func MergePositions(P [][3]float64, tol float64) []int {
	n := len(P)
	parent := make([]int, n)
	for i := range parent {
		parent[i] = i
	}
	var find func(int) int
	find = func(x int) int {
		for parent[x] != x {
			parent[x] = parent[parent[x]]
			x = parent[x]
		}
		return x
	}
	if tol <= 0 {
		exact := map[[3]uint64]int{}
		for i, p := range P {
			k := [3]uint64{bits(p[0]), bits(p[1]), bits(p[2])}
			if j, ok := exact[k]; ok {
				parent[i] = j
			} else {
				exact[k] = i
			}
		}
	} else {
		cell := func(p [3]float64) [3]int64 {
			return [3]int64{int64(math.Floor(p[0] / tol)), int64(math.Floor(p[1] / tol)), int64(math.Floor(p[2] / tol))}
		}
		grid := map[[3]int64][]int{}
		for i, p := range P {
			c := cell(p)
			for dx := int64(-1); dx <= 1; dx++ {
				for dy := int64(-1); dy <= 1; dy++ {
					for dz := int64(-1); dz <= 1; dz++ {
						for _, j := range grid[[3]int64{c[0] + dx, c[1] + dy, c[2] + dz}] {
							q := P[j]
							if math.Abs(p[0]-q[0]) <= tol && math.Abs(p[1]-q[1]) <= tol && math.Abs(p[2]-q[2]) <= tol {
								a, b := find(i), find(j)
								if a != b {
									parent[a] = b
								}
							}
						}
					}
				}
			}
			grid[c] = append(grid[c], i)
		}
	}
	out := make([]int, n)
	for i := range out {
		out[i] = find(i)
	}
	return out
}
