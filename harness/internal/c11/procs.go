package c11

import (
	"errors"
	"fmt"
	"sort"
	"strconv"
	"strings"

	"github.com/EliCDavis/polyform/nodes"
	"github.com/EliCDavis/vector/vector3"
)

// ---------------------------------------------------------------------------
// Pure functions. The harness-defined processors below and the reference model
// (model.go) both call these, so "the value that evaluating the current graph
// from scratch would return" is defined by them alone. Every function embeds the
// tag (= index) of the node, so two different nodes never produce equal strings,
// and every string function is injective in its inputs (order-sensitive).
// ---------------------------------------------------------------------------

const (
	nilS = "_"
	nilI = -1
)

func fU1(tag int, in string) string   { return "u" + strconv.Itoa(tag) + "<" + in + ">" }
func fS2(tag int, a, b string) string { return "b" + strconv.Itoa(tag) + "<" + a + "|" + b + ">" }
func fS3(tag int, a, b, c string) string {
	return "t" + strconv.Itoa(tag) + "<" + a + "|" + b + "|" + c + ">"
}
func fSArr(tag int, vs []string) string {
	return "a" + strconv.Itoa(tag) + "[" + strings.Join(vs, ",") + "]"
}
func fSMix(tag int, vs []string, a, b string) string {
	return "m" + strconv.Itoa(tag) + "<[" + strings.Join(vs, ",") + "];" + a + ";" + b + ">"
}
func fI2(tag int, a, b int) int { return (a*31+b)*131 + tag }
func fIArr(tag int, vs []int) int {
	h := tag + 17
	for _, v := range vs {
		h = h*1000003 + v + 1
	}
	return h*7 + len(vs)
}
func fSLen(tag int, s string) int {
	var h uint32 = 2166136261
	for i := 0; i < len(s); i++ {
		h ^= uint32(s[i])
		h *= 16777619
	}
	return int(h)*64 + tag
}
func fIFmt(tag int, v int) string { return "i" + strconv.Itoa(tag) + "<" + strconv.Itoa(v) + ">" }

// lazy kinds (phase lazy-inputs): the processor reads only some of its wired inputs
func fSel(tag int, cond int, chosen string) string {
	return "s" + strconv.Itoa(tag) + "<" + strconv.Itoa(cond&1) + ":" + chosen + ">"
}
func fFirst(tag int, first string, n int) string {
	return "f" + strconv.Itoa(tag) + "<" + first + "/" + strconv.Itoa(n) + ">"
}

// Failing kinds: the processor returns (fallback value, error) for some inputs.
// nodes.Struct.Value() hands out whatever value Process() returned, so the value
// of a failed node is the fallback; the second result says whether it failed.
func fChkI(tag int, in int) (int, bool) {
	if in < 0 {
		return -(tag*7919 + 13), true // fails on a negative input (an unwired input reads as -1)
	}
	return (in*2+1)*257 + tag, false
}

func fChkS(tag int, in string) (string, bool) {
	var h uint32 = 2166136261
	for i := 0; i < len(in); i++ {
		h ^= uint32(in[i])
		h *= 16777619
	}
	if h%3 == 0 {
		return "e" + strconv.Itoa(tag) + "!", true // fails on a third of all strings
	}
	return "k" + strconv.Itoa(tag) + "<" + in + ">", false
}

// Composite-valued sources (slice- and struct-typed parameter.Value): the value is
// turned into a string by an adapter node, from where it flows through the graph.
type vec3 = [3]float64

// Rec is the harness' struct-typed parameter value: scalar fields, a slice, a
// nested struct and a map (a JSON decoder treats each of them differently when it
// decodes into memory that already holds a value).
type RecD struct {
	X float64 `json:"x"`
	Y float64 `json:"y"`
}

type Rec struct {
	A int            `json:"a"`
	B string         `json:"b"`
	C []int          `json:"c"`
	D RecD           `json:"d"`
	M map[string]int `json:"m"`
}

func (r Rec) clone() Rec {
	out := Rec{A: r.A, B: r.B, D: r.D}
	out.C = append([]int(nil), r.C...)
	if len(r.M) > 0 {
		out.M = map[string]int{}
		for k, v := range r.M {
			out.M[k] = v
		}
	}
	return out
}

func ff(f float64) string { return strconv.FormatFloat(f, 'g', -1, 64) }

func fVFmt(tag int, wired bool, vs []vec3) string {
	if !wired {
		return "v" + strconv.Itoa(tag) + "<" + nilS + ">"
	}
	parts := make([]string, 0, len(vs))
	for _, v := range vs {
		parts = append(parts, ff(v[0])+" "+ff(v[1])+" "+ff(v[2]))
	}
	return "v" + strconv.Itoa(tag) + "<" + strconv.Itoa(len(vs)) + ":" + strings.Join(parts, ";") + ">"
}

func fRFmt(tag int, wired bool, r Rec) string {
	if !wired {
		return "r" + strconv.Itoa(tag) + "<" + nilS + ">"
	}
	cs := make([]string, 0, len(r.C))
	for _, c := range r.C {
		cs = append(cs, strconv.Itoa(c))
	}
	keys := make([]string, 0, len(r.M))
	for k := range r.M {
		keys = append(keys, k)
	}
	sort.Strings(keys)
	ms := make([]string, 0, len(keys))
	for _, k := range keys {
		ms = append(ms, strconv.Quote(k)+"="+strconv.Itoa(r.M[k]))
	}
	return "r" + strconv.Itoa(tag) + "<" + strconv.Itoa(r.A) + "|" + strconv.Quote(r.B) + "|" + strings.Join(cs, ",") + "|" + ff(r.D.X) + "," + ff(r.D.Y) + "|" + strings.Join(ms, ",") + ">"
}

func fUntil(tag int, k int, v int) string {
	return "w" + strconv.Itoa(tag) + "<" + strconv.Itoa(k) + ":" + strconv.Itoa(v) + ">"
}

// ---------------------------------------------------------------------------
// Execution recorder shared by one history.
// ---------------------------------------------------------------------------

type rec struct {
	tag   int
	execs int
	log   *[]int // order of executions within the current step
}

func (r *rec) hit() {
	r.execs++
	*r.log = append(*r.log, r.tag)
}

func vS(o nodes.NodeOutput[string]) string {
	if o == nil {
		return nilS
	}
	return o.Value()
}

func vI(o nodes.NodeOutput[int]) int {
	if o == nil {
		return nilI
	}
	return o.Value()
}

func vsS(os []nodes.NodeOutput[string]) []string {
	out := make([]string, 0, len(os))
	for _, o := range os {
		out = append(out, vS(o))
	}
	return out
}

func vsI(os []nodes.NodeOutput[int]) []int {
	out := make([]int, 0, len(os))
	for _, o := range os {
		out = append(out, vI(o))
	}
	return out
}

// ---------------------------------------------------------------------------
// Processors (nodes.Struct data types). R is a plain pointer: refutil only looks
// at interface-typed fields and slices of interfaces.
// ---------------------------------------------------------------------------

type U1 struct {
	In nodes.NodeOutput[string]
	R  *rec
}

func (d U1) Process() (string, error) {
	d.R.hit()
	return fU1(d.R.tag, vS(d.In)), nil
}

type S2 struct {
	A nodes.NodeOutput[string]
	B nodes.NodeOutput[string]
	R *rec
}

func (d S2) Process() (string, error) {
	d.R.hit()
	return fS2(d.R.tag, vS(d.A), vS(d.B)), nil
}

type S3 struct {
	A nodes.NodeOutput[string]
	B nodes.NodeOutput[string]
	C nodes.NodeOutput[string]
	R *rec
}

func (d S3) Process() (string, error) {
	d.R.hit()
	return fS3(d.R.tag, vS(d.A), vS(d.B), vS(d.C)), nil
}

type SArr struct {
	Values []nodes.NodeOutput[string]
	R      *rec
}

func (d SArr) Process() (string, error) {
	d.R.hit()
	return fSArr(d.R.tag, vsS(d.Values)), nil
}

// Div panics as a function of its input values: an integer division by a zero-valued
// B (a run-time panic inside Process(), which the caller of the read recovers from,
// as the HTTP handlers do). The execution is recorded only when Process() completes.
type Div struct {
	A nodes.NodeOutput[int]
	B nodes.NodeOutput[int]
	R *rec
}

func (d Div) Process() (int, error) {
	a, b := vI(d.A), vI(d.B)
	q := a / b
	d.R.hit()
	return fDiv(d.R.tag, a, b, q), nil
}

func fDiv(tag int, a, b, q int) int { return q*131 + (a%b)*7 + tag }

// SArr2 has two array inputs.
type SArr2 struct {
	Values []nodes.NodeOutput[string]
	More   []nodes.NodeOutput[string]
	R      *rec
}

func (d SArr2) Process() (string, error) {
	d.R.hit()
	return fSArr2(d.R.tag, vsS(d.Values), vsS(d.More)), nil
}

func fSArr2(tag int, a, b []string) string {
	return "A" + strconv.Itoa(tag) + "[" + strings.Join(a, ",") + "]{" + strings.Join(b, ",") + "}"
}

type SMix struct {
	Values []nodes.NodeOutput[string]
	A      nodes.NodeOutput[string]
	B      nodes.NodeOutput[string]
	R      *rec
}

func (d SMix) Process() (string, error) {
	d.R.hit()
	return fSMix(d.R.tag, vsS(d.Values), vS(d.A), vS(d.B)), nil
}

type I2 struct {
	A nodes.NodeOutput[int]
	B nodes.NodeOutput[int]
	R *rec
}

func (d I2) Process() (int, error) {
	d.R.hit()
	return fI2(d.R.tag, vI(d.A), vI(d.B)), nil
}

type IArr struct {
	Values []nodes.NodeOutput[int]
	R      *rec
}

func (d IArr) Process() (int, error) {
	d.R.hit()
	return fIArr(d.R.tag, vsI(d.Values)), nil
}

type SLen struct {
	In nodes.NodeOutput[string]
	R  *rec
}

func (d SLen) Process() (int, error) {
	d.R.hit()
	return fSLen(d.R.tag, vS(d.In)), nil
}

type IFmt struct {
	In nodes.NodeOutput[int]
	R  *rec
}

func (d IFmt) Process() (string, error) {
	d.R.hit()
	return fIFmt(d.R.tag, vI(d.In)), nil
}

var errProcessor = errors.New("harness processor: inadmissible input")

type ChkI struct {
	In nodes.NodeOutput[int]
	R  *rec
}

func (d ChkI) Process() (int, error) {
	d.R.hit()
	v, failed := fChkI(d.R.tag, vI(d.In))
	if failed {
		return v, errProcessor
	}
	return v, nil
}

type ChkS struct {
	In nodes.NodeOutput[string]
	R  *rec
}

func (d ChkS) Process() (string, error) {
	d.R.hit()
	v, failed := fChkS(d.R.tag, vS(d.In))
	if failed {
		return v, errProcessor
	}
	return v, nil
}

type VFmt struct {
	In nodes.NodeOutput[[]vector3.Float64]
	R  *rec
}

func (d VFmt) Process() (string, error) {
	d.R.hit()
	if d.In == nil {
		return fVFmt(d.R.tag, false, nil), nil
	}
	return fVFmt(d.R.tag, true, toVec3s(d.In.Value())), nil
}

func toVec3s(in []vector3.Float64) []vec3 {
	out := make([]vec3, 0, len(in))
	for _, v := range in {
		out = append(out, vec3{v.X(), v.Y(), v.Z()})
	}
	return out
}

type RFmt struct {
	In nodes.NodeOutput[Rec]
	R  *rec
}

func (d RFmt) Process() (string, error) {
	d.R.hit()
	if d.In == nil {
		return fRFmt(d.R.tag, false, Rec{}), nil
	}
	return fRFmt(d.R.tag, true, d.In.Value()), nil
}

// Sel reads Cond and then exactly one of A / B.
type Sel struct {
	Cond nodes.NodeOutput[int]
	A    nodes.NodeOutput[string]
	B    nodes.NodeOutput[string]
	R    *rec
}

func (d Sel) Process() (string, error) {
	d.R.hit()
	c := vI(d.Cond)
	if c&1 == 0 {
		return fSel(d.R.tag, c, vS(d.A)), nil
	}
	return fSel(d.R.tag, c, vS(d.B)), nil
}

// First reads only the first entry of its array input.
type First struct {
	Values []nodes.NodeOutput[string]
	R      *rec
}

func (d First) Process() (string, error) {
	d.R.hit()
	f := nilS
	if len(d.Values) > 0 {
		f = vS(d.Values[0])
	}
	return fFirst(d.R.tag, f, len(d.Values)), nil
}

// Until reads its array entries in order and stops at the first odd value
// (short-circuit "any"): the entries after it are not read.
type Until struct {
	Values []nodes.NodeOutput[int]
	R      *rec
}

func (d Until) Process() (string, error) {
	d.R.hit()
	for k, o := range d.Values {
		if v := vI(o); v&1 == 1 {
			return fUntil(d.R.tag, k, v), nil
		}
	}
	return fUntil(d.R.tag, -1, len(d.Values)), nil
}

// ---------------------------------------------------------------------------
// Kind table
// ---------------------------------------------------------------------------

type typ int

const (
	tS typ = iota
	tI
	tV  // []vector3.Float64 (parameter.Vector3Array); sources only
	tR  // Rec; sources only
	tF  // float64; sources only (compared by bits: 0 and -0 are different values)
	tFs // []float64; sources only
	tM  // map[string]int; sources only
)

func (t typ) String() string {
	switch t {
	case tS:
		return "string"
	case tI:
		return "int"
	case tV:
		return "[]vector3.Float64"
	case tF:
		return "float64"
	case tFs:
		return "[]float64"
	case tM:
		return "map[string]int"
	}
	return "c11.Rec"
}

type inSpec struct {
	name string
	t    typ
}

type kind struct {
	name  string
	out   typ
	named []inSpec
	arr   *inSpec // array input, if any
	lazy  bool
	fails bool // the processor returns an error for some inputs
}

const (
	kU1 = iota
	kS2
	kS3
	kSArr
	kSMix
	kI2
	kIArr
	kSLen
	kIFmt
	kSel
	kFirst
	kUntil
	kChkI
	kChkS
	kVFmt
	kRFmt
	kFBits
	kFInv
	kFAtan
	kFsFmt
	kMFmt
	kSArr2
	kDiv
)

var kinds = []kind{
	kU1:    {name: "U1", out: tS, named: []inSpec{{"In", tS}}},
	kS2:    {name: "S2", out: tS, named: []inSpec{{"A", tS}, {"B", tS}}},
	kS3:    {name: "S3", out: tS, named: []inSpec{{"A", tS}, {"B", tS}, {"C", tS}}},
	kSArr:  {name: "SArr", out: tS, arr: &inSpec{"Values", tS}},
	kSMix:  {name: "SMix", out: tS, named: []inSpec{{"A", tS}, {"B", tS}}, arr: &inSpec{"Values", tS}},
	kI2:    {name: "I2", out: tI, named: []inSpec{{"A", tI}, {"B", tI}}},
	kIArr:  {name: "IArr", out: tI, arr: &inSpec{"Values", tI}},
	kSLen:  {name: "SLen", out: tI, named: []inSpec{{"In", tS}}},
	kIFmt:  {name: "IFmt", out: tS, named: []inSpec{{"In", tI}}},
	kSel:   {name: "Sel", out: tS, named: []inSpec{{"Cond", tI}, {"A", tS}, {"B", tS}}, lazy: true},
	kFirst: {name: "First", out: tS, arr: &inSpec{"Values", tS}, lazy: true},
	kUntil: {name: "Until", out: tS, arr: &inSpec{"Values", tI}, lazy: true},
	kChkI:  {name: "ChkI", out: tI, named: []inSpec{{"In", tI}}, fails: true},
	kChkS:  {name: "ChkS", out: tS, named: []inSpec{{"In", tS}}, fails: true},
	kVFmt:  {name: "VFmt", out: tS, named: []inSpec{{"In", tV}}},
	kRFmt:  {name: "RFmt", out: tS, named: []inSpec{{"In", tR}}},
	kFBits: {name: "FBits", out: tS, named: []inSpec{{"In", tF}}},
	kFInv:  {name: "FInv", out: tS, named: []inSpec{{"In", tF}}},
	kFAtan: {name: "FAtan", out: tS, named: []inSpec{{"A", tF}, {"B", tF}}},
	kFsFmt: {name: "FsFmt", out: tS, named: []inSpec{{"In", tFs}}},
	kMFmt:  {name: "MFmt", out: tS, named: []inSpec{{"In", tM}}},
	kDiv:   {name: "Div", out: tI, named: []inSpec{{"A", tI}, {"B", tI}}}, // panics (integer divide by zero) when B reads 0
	kSArr2: {name: "SArr2", out: tS, arr: &inSpec{"Values", tS}},          // plus a second array input "More" (phase large-fan-in only)
}

var eagerKinds = []int{kDiv, kU1, kS2, kS3, kSArr, kSMix, kI2, kIArr, kSLen, kIFmt, kChkI, kChkS, kChkI, kChkS}

func (k kind) String() string { return k.name }

func fmtRef(r ref) string {
	if r.param {
		return fmt.Sprintf("p%d", r.idx)
	}
	return fmt.Sprintf("n%d", r.idx)
}
