package c11

import (
	"fmt"
	"strings"
)

// The reference model: the graph mirrored as plain data (wiring + parameter
// values) plus logical time stamps. It never looks at polyform.

type ref struct {
	param bool
	idx   int
}

type mnode struct {
	kind  int
	named []*ref // parallel to kinds[kind].named; nil = not wired
	arr   []ref
	arr2  []ref // kSArr2 only: the second array input "More"

	// logical clock of the last SetInput on this node: soft = any call,
	// hard = a call that changed the wiring as data
	wiredSoft, wiredHard int
	lastExec             int // clock of the step in which it last executed, -1 = never
}

type mparam struct {
	t                        typ
	s                        string
	i                        int
	v                        []vec3         // tV
	rc                       Rec            // tR
	f                        float64        // tF
	fs                       []float64      // tFs
	mp                       map[string]int // tM
	applied                  bool           // an accepted message has been applied (composite sources)
	changedSoft, changedHard int            // soft = any update call, hard = update to a different value
}

type model struct {
	params []mparam
	nodes  []mnode
	clock  int
}

func (m *model) outType(r ref) typ {
	if r.param {
		return m.params[r.idx].t
	}
	return kinds[m.nodes[r.idx].kind].out
}

// ---- from-scratch evaluation -------------------------------------------------

type val struct {
	s string
	i int
}

func (m *model) evalRef(r *ref, t typ) val {
	if r == nil {
		if t == tS {
			return val{s: nilS}
		}
		return val{i: nilI}
	}
	if r.param {
		p := m.params[r.idx]
		return val{s: p.s, i: p.i}
	}
	return m.eval(r.idx)
}

// eval evaluates node i from nothing but the wiring and the parameter values.
func (m *model) eval(i int) val {
	n := &m.nodes[i]
	k := kinds[n.kind]
	nv := func(j int) val { return m.evalRef(n.named[j], k.named[j].t) }
	arrS := func() []string {
		out := make([]string, 0, len(n.arr))
		for j := range n.arr {
			out = append(out, m.evalRef(&n.arr[j], tS).s)
		}
		return out
	}
	switch n.kind {
	case kU1:
		return val{s: fU1(i, nv(0).s)}
	case kS2:
		return val{s: fS2(i, nv(0).s, nv(1).s)}
	case kS3:
		return val{s: fS3(i, nv(0).s, nv(1).s, nv(2).s)}
	case kSArr:
		return val{s: fSArr(i, arrS())}
	case kSMix:
		return val{s: fSMix(i, arrS(), nv(0).s, nv(1).s)}
	case kDiv:
		a, b := nv(0).i, nv(1).i
		if b == 0 {
			return val{} // no value: the evaluation panics (see panics)
		}
		return val{i: fDiv(i, a, b, a/b)}
	case kSArr2:
		more := make([]string, 0, len(n.arr2))
		for j := range n.arr2 {
			more = append(more, m.evalRef(&n.arr2[j], tS).s)
		}
		return val{s: fSArr2(i, arrS(), more)}
	case kI2:
		return val{i: fI2(i, nv(0).i, nv(1).i)}
	case kIArr:
		vs := make([]int, 0, len(n.arr))
		for j := range n.arr {
			vs = append(vs, m.evalRef(&n.arr[j], tI).i)
		}
		return val{i: fIArr(i, vs)}
	case kSLen:
		return val{i: fSLen(i, nv(0).s)}
	case kIFmt:
		return val{s: fIFmt(i, nv(0).i)}
	case kSel:
		c := nv(0).i
		if c&1 == 0 {
			return val{s: fSel(i, c, nv(1).s)}
		}
		return val{s: fSel(i, c, nv(2).s)}
	case kFirst:
		f := nilS
		if len(n.arr) > 0 {
			f = m.evalRef(&n.arr[0], tS).s
		}
		return val{s: fFirst(i, f, len(n.arr))}
	case kChkI:
		v, _ := fChkI(i, nv(0).i)
		return val{i: v}
	case kChkS:
		v, _ := fChkS(i, nv(0).s)
		return val{s: v}
	case kVFmt:
		if r := n.named[0]; r != nil {
			return val{s: fVFmt(i, true, m.params[r.idx].v)}
		}
		return val{s: fVFmt(i, false, nil)}
	case kFBits:
		return val{s: fFBits(i, m.floatOf(n.named[0]))}
	case kFInv:
		return val{s: fFInv(i, m.floatOf(n.named[0]))}
	case kFAtan:
		return val{s: fFAtan(i, m.floatOf(n.named[0]), m.floatOf(n.named[1]))}
	case kFsFmt:
		if r := n.named[0]; r != nil {
			return val{s: fFsFmt(i, true, m.params[r.idx].fs)}
		}
		return val{s: fFsFmt(i, false, nil)}
	case kMFmt:
		if r := n.named[0]; r != nil {
			return val{s: fMFmt(i, true, m.params[r.idx].mp)}
		}
		return val{s: fMFmt(i, false, nil)}
	case kRFmt:
		if r := n.named[0]; r != nil {
			return val{s: fRFmt(i, true, m.params[r.idx].rc)}
		}
		return val{s: fRFmt(i, false, Rec{})}
	case kUntil:
		for k := range n.arr {
			if v := m.evalRef(&n.arr[k], tI).i; v&1 == 1 {
				return val{s: fUntil(i, k, v)}
			}
		}
		return val{s: fUntil(i, -1, len(n.arr))}
	}
	panic("unknown kind")
}

func (m *model) floatOf(r *ref) float64 {
	if r == nil {
		return nilF
	}
	return m.params[r.idx].f
}

// failed: does a from-scratch evaluation of node i end in an error of its own processor?
func (m *model) failed(i int) bool {
	n := &m.nodes[i]
	switch n.kind {
	case kChkI:
		_, f := fChkI(i, m.evalRef(n.named[0], tI).i)
		return f
	case kChkS:
		_, f := fChkS(i, m.evalRef(n.named[0], tS).s)
		return f
	}
	return false
}

// panics: does a from-scratch evaluation of node i run into a processor panic (a Div
// whose B reads 0, in what the processors actually read)?
func (m *model) panics() []bool {
	out := make([]bool, len(m.nodes))
	for i := range m.nodes { // sources have smaller indices
		n := &m.nodes[i]
		if n.kind == kDiv && m.evalRef(n.named[1], tI).i == 0 && n.named[1] != nil {
			out[i] = true
		}
		for _, r := range m.readRefs(i) {
			if !r.param && out[r.idx] {
				out[i] = true
			}
		}
	}
	return out
}

// readRefs returns the inputs that the processor of node i reads when it executes
// with the current parameter values, in reading order (all wired inputs for the
// eager kinds, a value-dependent subset for the lazy ones).
func (m *model) readRefs(i int) []ref {
	n := &m.nodes[i]
	k := kinds[n.kind]
	var out []ref
	add := func(r *ref) {
		if r != nil {
			out = append(out, *r)
		}
	}
	switch n.kind {
	case kSel:
		add(n.named[0])
		if m.evalRef(n.named[0], k.named[0].t).i&1 == 0 {
			add(n.named[1])
		} else {
			add(n.named[2])
		}
	case kFirst:
		if len(n.arr) > 0 {
			add(&n.arr[0])
		}
	case kUntil:
		for j := range n.arr {
			add(&n.arr[j])
			if m.evalRef(&n.arr[j], tI).i&1 == 1 {
				break
			}
		}
	default:
		out = m.refs(i)
	}
	return out
}

// readNodes: the nodes among readRefs.
func (m *model) readNodes(i int) map[int]bool {
	out := map[int]bool{}
	for _, r := range m.readRefs(i) {
		if !r.param {
			out[r.idx] = true
		}
	}
	return out
}

// dirtyRead is dirty() restricted to what the processors actually read (under the
// current values): the latest hard change among the inputs a from-scratch
// evaluation of node i would touch, own wiring included. If it is later than the
// node's last execution, the value the node holds was computed from an input
// that has changed since (the reads up to the first changed input are the same
// as in that execution, so that input was read then, too).
func (m *model) dirtyRead() []int {
	hard := make([]int, len(m.nodes))
	for i := range m.nodes {
		h := m.nodes[i].wiredHard
		for _, r := range m.readRefs(i) {
			var rh int
			if r.param {
				rh = m.params[r.idx].changedHard
			} else {
				rh = hard[r.idx]
			}
			if rh > h {
				h = rh
			}
		}
		hard[i] = h
	}
	return hard
}

// ---- structure ---------------------------------------------------------------

func (m *model) refs(i int) []ref {
	n := &m.nodes[i]
	var out []ref
	for _, r := range n.named {
		if r != nil {
			out = append(out, *r)
		}
	}
	out = append(out, n.arr...)
	out = append(out, n.arr2...)
	return out
}

// closure returns the set of nodes reachable from i through the current wiring (i included).
func (m *model) closure(i int) []bool {
	seen := make([]bool, len(m.nodes))
	var walk func(int)
	walk = func(j int) {
		if seen[j] {
			return
		}
		seen[j] = true
		for _, r := range m.refs(j) {
			if !r.param {
				walk(r.idx)
			}
		}
	}
	walk(i)
	return seen
}

// cost(i) = number of Dependencies() entries a full, un-memoised traversal below
// node i visits (= number of paths). polyform's Outdated() is such a traversal,
// so the generator keeps this bounded.
func (m *model) costs() []int {
	c := make([]int, len(m.nodes))
	for i := range m.nodes { // sources always have a smaller index
		t := 0
		for _, r := range m.refs(i) {
			t++
			if !r.param {
				t += c[r.idx]
			}
			if t > 1<<40 {
				t = 1 << 40
			}
		}
		c[i] = t
	}
	return c
}

// dirty returns for every node the latest soft / hard change time in its
// transitive inputs under the current wiring (own wiring included).
func (m *model) dirty() (soft, hard []int) {
	soft = make([]int, len(m.nodes))
	hard = make([]int, len(m.nodes))
	for i := range m.nodes {
		n := &m.nodes[i]
		s, h := n.wiredSoft, n.wiredHard
		for _, r := range m.refs(i) {
			var rs, rh int
			if r.param {
				rs, rh = m.params[r.idx].changedSoft, m.params[r.idx].changedHard
			} else {
				rs, rh = soft[r.idx], hard[r.idx]
			}
			if rs > s {
				s = rs
			}
			if rh > h {
				h = rh
			}
		}
		soft[i], hard[i] = s, h
	}
	return
}

// mayExecute: node i has never executed, or a parameter in its transitive inputs
// was updated / a wiring on the way (its own included) was touched since.
func (m *model) mayExecute(soft []int) []bool {
	out := make([]bool, len(m.nodes))
	for i := range m.nodes {
		out[i] = m.nodes[i].lastExec < 0 || soft[i] > m.nodes[i].lastExec
	}
	return out
}

// depsMixed: node has ≥ 2 dependencies whose versions differ (the condition under
// which a permuted dependency order is visible).
func (m *model) describe() string {
	var sb strings.Builder
	for i, p := range m.params {
		switch p.t {
		case tS:
			fmt.Fprintf(&sb, "p%d=%q ", i, p.s)
		case tI:
			fmt.Fprintf(&sb, "p%d=%d ", i, p.i)
		case tV:
			fmt.Fprintf(&sb, "p%d=%s ", i, fVFmt(0, true, p.v))
		case tF:
			fmt.Fprintf(&sb, "p%d=%s ", i, showF(p.f))
		case tFs:
			fmt.Fprintf(&sb, "p%d=%s ", i, showFs(p.fs))
		case tM:
			fmt.Fprintf(&sb, "p%d=%s ", i, fMFmt(0, true, p.mp))
		default:
			fmt.Fprintf(&sb, "p%d=%s ", i, fRFmt(0, true, p.rc))
		}
	}
	sb.WriteString("\n")
	for i := range m.nodes {
		n := &m.nodes[i]
		k := kinds[n.kind]
		fmt.Fprintf(&sb, "n%d:%s(", i, k.name)
		for j, r := range n.named {
			if j > 0 {
				sb.WriteString(" ")
			}
			if r == nil {
				fmt.Fprintf(&sb, "%s=nil", k.named[j].name)
			} else {
				fmt.Fprintf(&sb, "%s=%s", k.named[j].name, fmtRef(*r))
			}
		}
		if k.arr != nil {
			sb.WriteString(" [")
			for j, r := range n.arr {
				if j > 0 {
					sb.WriteString(",")
				}
				sb.WriteString(fmtRef(r))
			}
			sb.WriteString("]")
			if len(n.arr2) > 0 {
				sb.WriteString(" More[")
				for j, r := range n.arr2 {
					if j > 0 {
						sb.WriteString(",")
					}
					sb.WriteString(fmtRef(r))
				}
				sb.WriteString("]")
			}
		}
		sb.WriteString(") ")
	}
	return sb.String()
}
