package c11

import (
	"fmt"
	"strings"

	"polyverif/internal/run"
)

// ---------------------------------------------------------------------------
// What this worker process has seen so far. A processor type (nodes.Struct data
// type) is shared by all cases that run in one process, so anything polyform
// remembers per type is decided by the first instance of the type it looks at:
// the first one that executes (Dependencies() is first called when a node
// processes). The harness records, per kind, which named inputs were unwired on
// that instance, and counts how often a later instance had it the other way round.
// ---------------------------------------------------------------------------

var (
	procCases      int
	procFirstExec  = map[int][]bool{} // kind -> per named input: unwired on the first instance of the kind that executed in this process
	procFirstWhere = map[int]string{}
)

// noteExecutions is called after a read with the execution order of the step.
func (h *hist) noteExecutions(order []int) {
	m := h.m
	for _, i := range order {
		n := &m.nodes[i]
		first, seen := procFirstExec[n.kind]
		if !seen {
			un := make([]bool, len(n.named))
			for j, rf := range n.named {
				un[j] = rf == nil
			}
			procFirstExec[n.kind] = un
			procFirstWhere[n.kind] = fmt.Sprintf("case %d", h.c.Case)
			continue
		}
		for j, rf := range n.named {
			if first[j] && rf != nil {
				h.res.Count("executions_with_an_input_wired_that_was_unwired_when_the_type_first_executed", 1)
			}
			if !first[j] && rf == nil {
				h.res.Count("executions_with_an_input_unwired_that_was_wired_when_the_type_first_executed", 1)
			}
		}
	}
}

// noteRead is called before a read of node i: counts the nodes in its cone that
// (a) executed before, (b) have a named input wired that was unwired on the first
// instance of their type that executed in this process, and (c) whose source on
// that input changed since they last executed.
func (h *hist) noteRead(clos []bool) {
	m := h.m
	_, hard := m.dirty()
	for x := range m.nodes {
		if !clos[x] || m.nodes[x].lastExec < 0 {
			continue
		}
		n := &m.nodes[x]
		first, seen := procFirstExec[n.kind]
		if !seen {
			continue
		}
		for j, rf := range n.named {
			if rf == nil || !first[j] {
				continue
			}
			ch := 0
			if rf.param {
				ch = m.params[rf.idx].changedHard
			} else {
				ch = hard[rf.idx]
			}
			if ch > n.lastExec {
				h.res.Count("reads_type_first_seen_with_input_unwired_later_wired_and_changed", 1)
				if procFirstWhere[n.kind] != fmt.Sprintf("case %d", h.c.Case) {
					h.res.Count("reads_type_first_seen_with_input_unwired_in_an_earlier_case_later_wired_and_changed", 1)
				}
			}
		}
	}
}

// ---------------------------------------------------------------------------
// emptyScenario: a node that has executed loses every wired input (named inputs
// cleared, array entries removed down to the empty array), then it and something
// above it are read: the value must be the one of the unwired node.
// ---------------------------------------------------------------------------

func (h *hist) emptyScenario() bool {
	r, m := h.r, h.m
	var cands []int
	for i := range m.nodes {
		if k := len(m.refs(i)); k > 0 && k <= 6 {
			cands = append(cands, i)
		}
	}
	if len(cands) == 0 {
		return false
	}
	i := cands[r.Intn(len(cands))]
	n := &m.nodes[i]
	top := i
	var above []int
	for j := i + 1; j < len(m.nodes); j++ {
		if m.closure(j)[i] {
			above = append(above, j)
		}
	}
	if len(above) > 0 {
		top = above[r.Intn(len(above))]
	}
	h.res.Count("empty_scenarios", 1)
	h.read(top) // the node has executed with its inputs (if top reads it) ...
	if !h.dead && r.Intn(2) == 0 {
		h.read(i) // ... or certainly
	}
	hadArr := len(n.arr) > 0
	for len(m.refs(i)) > 0 && !h.dead {
		var wired []int
		for j, rf := range n.named {
			if rf != nil {
				wired = append(wired, j)
			}
		}
		if len(n.arr) > 0 && (len(wired) == 0 || r.Intn(2) == 0) {
			h.arrRemove(i, r.Intn(len(n.arr)))
		} else {
			h.setNamed(i, wired[r.Intn(len(wired))], nil)
		}
		if len(m.refs(i)) == 1 && r.Intn(3) == 0 && !h.dead {
			h.read(i) // sometimes also read with exactly one input left
		}
	}
	if h.dead {
		return true
	}
	if n.lastExec >= 0 {
		h.res.Count("executed_node_lost_its_last_input_then_read", 1)
		if hadArr {
			h.res.Count("executed_node_array_emptied_then_read", 1)
		}
	}
	if r.Intn(2) == 0 {
		h.read(i)
	}
	if top != i && !h.dead {
		h.read(top)
	}
	if !h.dead {
		h.read(i)
	}
	return true
}

// ---------------------------------------------------------------------------
// Phase first-use: every case runs in a process of its own (Batch 1), so the
// processor types are new to polyform. Per kind two instances are built: a sparse
// one with some (for single-input kinds: the) named inputs unwired and a full one.
// In half of the cases the sparse instances execute first, in the other half the
// full ones. Then, per kind and per input that the sparse instance leaves open: the
// source of that input on the full instance changes and the full instance is read;
// the input is wired on the sparse instance, read, its source changes, read.
// ---------------------------------------------------------------------------

var firstUseKinds = []int{kU1, kS2, kS3, kSMix, kI2, kSLen, kIFmt, kChkI, kChkS}

func firstUse(c *run.Ctx) run.Result {
	var res run.Result
	r := c.Rng
	procCases++
	h := &hist{c: c, res: &res, r: r}
	m := &model{}
	h.m = m
	for k := 0; k < 4; k++ {
		p := mparam{t: tS, s: fmt.Sprintf("d%d", k), i: 1000 + k}
		if k >= 2 {
			p.t = tI
		}
		m.params = append(m.params, p)
	}
	sparseFirst := r.Intn(2) == 0
	ks := append([]int{}, firstUseKinds...)
	r.Shuffle(len(ks), func(a, b int) { ks[a], ks[b] = ks[b], ks[a] })
	ks = ks[:3+r.Intn(len(ks)-2)]
	g := &genr{r: r, m: m}
	type pair struct {
		kind, sparse, full int
		open               []int
	}
	var pairs []pair
	for _, k := range ks {
		kd := kinds[k]
		mk := func(sparse bool) (int, []int) {
			i := len(m.nodes)
			m.nodes = append(m.nodes, mnode{kind: k, named: make([]*ref, len(kd.named)), lastExec: -1})
			n := &m.nodes[i]
			var open []int
			keep := r.Intn(len(kd.named)) // the sparse instance leaves at least this input open
			for j, in := range kd.named {
				if sparse && (j == keep || r.Intn(2) == 0) {
					open = append(open, j)
					continue
				}
				n.named[j] = g.pickSource(i, in.t, 0.3)
			}
			if kd.arr != nil {
				for a := r.Intn(3); a > 0; a-- {
					if s := g.pickSource(i, kd.arr.t, 0.3); s != nil {
						n.arr = append(n.arr, *s)
					}
				}
			}
			return i, open
		}
		p := pair{kind: k}
		if sparseFirst {
			p.sparse, p.open = mk(true)
			p.full, _ = mk(false)
		} else {
			p.full, _ = mk(false)
			p.sparse, p.open = mk(true)
		}
		pairs = append(pairs, p)
	}
	h.init = m.describe()
	c.Note(fmt.Sprintf("first-use kinds=%d sparseFirst=%v", len(pairs), sparseFirst))
	if !h.build() {
		return res
	}
	h.checkStates(true)
	if procCases == 1 {
		res.Count("first_use_cases_in_a_fresh_process", 1)
	}
	// 1. first executions, in instance order (a consumer executes its sources first,
	// which are instances of kinds that come earlier: the same order)
	for _, p := range pairs {
		a, b := p.sparse, p.full
		if !sparseFirst {
			a, b = b, a
		}
		if !h.dead {
			h.read(a)
		}
		if !h.dead {
			h.read(b)
		}
	}
	// 2. per open input
	for _, p := range pairs {
		for _, j := range p.open {
			if h.dead {
				break
			}
			kd := kinds[p.kind]
			// the full instance has it wired: change below it, read
			if rf := m.nodes[p.full].named[j]; rf != nil {
				if ps := h.paramsBelow(rf); len(ps) > 0 {
					h.updateParam(ps[r.Intn(len(ps))], false)
					if !h.dead {
						h.read(p.full)
					}
					if sparseFirst {
						res.Count("first_use_input_unwired_on_first_instance_wired_on_later_instance_changed_and_read", 1)
					} else {
						res.Count("first_use_input_wired_on_first_instance_changed_and_read", 1)
					}
				}
			}
			// the sparse instance gets it wired, is read, the source changes, read
			if s := g.pickSource(p.sparse, kd.named[j].t, 0.3); s != nil && !h.dead {
				if h.setNamed(p.sparse, j, s) && !h.dead {
					h.read(p.sparse)
					if ps := h.paramsBelow(s); len(ps) > 0 && !h.dead {
						h.updateParam(ps[r.Intn(len(ps))], false)
						if !h.dead {
							h.read(p.sparse)
						}
						res.Count("first_use_input_unwired_at_first_execution_wired_later_changed_and_read", 1)
					}
				}
			}
			res.SetAdd("first_use_kind_inputs", kd.name+"."+kd.named[j].name)
		}
	}
	// 3. an ordinary history on top
	nops := 10 + r.Intn(30)
	for op := 0; op < nops && !h.dead; op++ {
		h.randomOp()
	}
	res.Count("first_use_histories", 1)
	res.Nontrivial = true
	var names []string
	for _, p := range pairs {
		names = append(names, kinds[p.kind].name)
	}
	res.Sig = fmt.Sprintf("first-use/sparseFirst=%v/%s", sparseFirst, strings.Join(names, ","))
	res.Sample = map[string]any{"initial_graph": clip(h.init, 700), "sparse_instances_first": sparseFirst, "kinds": strings.Join(names, ",")}
	return res
}

// panicScenario: re-wire, then a read that panics inside Process() and is recovered,
// then the repair, with the versions steered so that the new dependency ends up at
// exactly the version the node remembers of the old one.
func (h *hist) panicScenario() bool {
	r, m := h.r, h.m
	var ints []int
	for k, p := range m.params {
		if p.t == tI {
			ints = append(ints, k)
		}
	}
	var cands []int
	for i := range m.nodes {
		if m.nodes[i].kind == kDiv {
			cands = append(cands, i)
		}
	}
	if len(ints) < 2 || len(cands) == 0 {
		return false
	}
	x := cands[r.Intn(len(cands))]
	n := &m.nodes[x]
	top := x
	var above []int
	for j := x + 1; j < len(m.nodes); j++ {
		if m.closure(j)[x] {
			above = append(above, j)
		}
	}
	if len(above) > 0 && r.Intn(2) == 0 {
		top = above[r.Intn(len(above))]
	}
	// B directly on an int source P that does not read 0
	if n.named[1] == nil || !n.named[1].param {
		if !h.setNamed(x, 1, &ref{param: true, idx: ints[r.Intn(len(ints))]}) {
			return false
		}
	}
	if h.dead {
		return true
	}
	pOld := n.named[1].idx
	if m.params[pOld].i == 0 {
		h.updateParamOpts(pOld, false, -1, 1)
	}
	var others []int
	for _, k := range ints {
		if k != pOld {
			others = append(others, k)
		}
	}
	q := others[r.Intn(len(others))]
	if m.params[q].i == 0 {
		h.updateParamOpts(q, false, -1, 1) // nothing else may be at zero meanwhile
	}
	// steer: version(Q) + 2 == version(P) at the moment Div remembers P
	for try := 0; try < 8 && !h.dead; try++ {
		d := h.lp[pOld].node.Version() - h.lp[q].node.Version()
		if d == 2 {
			break
		}
		if d < 2 {
			h.updateParamOpts(pOld, false, -1, 1)
		} else {
			h.updateParamOpts(q, false, -1, 1)
		}
	}
	if h.dead {
		return true
	}
	if m.panics()[top] {
		return true // some other Div below is at zero: not this sequence
	}
	h.read(top) // Div executes and remembers the version of P
	if h.dead || h.lastRecovered {
		return true
	}
	remembered := h.lp[pOld].node.Version()
	h.updateParamOpts(q, false, -1, 2) // Q := 0
	if h.dead || !h.setNamed(x, 1, &ref{param: true, idx: q}) || h.dead {
		return true
	}
	h.read(top) // panics inside Div.Process(), recovered
	if h.dead {
		return true
	}
	recovered := h.lastRecovered
	if r.Intn(3) == 0 {
		h.read(top) // and again
	}
	h.updateParamOpts(q, false, -1, 1) // the repair
	if h.dead {
		return true
	}
	if recovered {
		h.res.Count("rewire_then_panic_then_repair_sequences", 1)
		if h.lp[q].node.Version() == remembered {
			h.res.Count("version_coincidences_after_rewire", 1)
		}
	}
	h.read(top)
	if !h.dead && top != x {
		h.read(x)
	}
	return true
}
