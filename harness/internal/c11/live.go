package c11

import (
	"encoding/json"
	"fmt"
	"strconv"

	"github.com/EliCDavis/polyform/generator/parameter"
	"github.com/EliCDavis/polyform/nodes"
	"github.com/EliCDavis/vector/vector3"
)

// The real graph: polyform nodes.Struct instances over the processors of
// procs.go, parameter.Value[T] and nodes.ValueNode[T] sources.

type liveNode struct {
	node  nodes.Node
	rec   *rec
	outS  func(alt bool) nodes.NodeOutput[string]
	outI  func(alt bool) nodes.NodeOutput[int]
	readS func(alt bool) string
	readI func(alt bool) int
}

type liveParam struct {
	t     typ
	pv    bool // parameter.Value[T] (else nodes.ValueNode[T])
	node  nodes.Node
	outS  func(alt bool) nodes.NodeOutput[string]
	outI  func(alt bool) nodes.NodeOutput[int]
	setS  func(string)
	setI  func(int)
	outV  func(alt bool) nodes.NodeOutput[[]vector3.Float64]
	outR  func(alt bool) nodes.NodeOutput[Rec]
	outF  func(alt bool) nodes.NodeOutput[float64]
	outFs func(alt bool) nodes.NodeOutput[[]float64]
	outM  func(alt bool) nodes.NodeOutput[map[string]int]
	setF  func(float64)
	setFs func(content []float64, inPlace bool)
	setM  func(content map[string]int, inPlace bool)
	// parameter.Value sources only: apply a raw message; compare what the readers
	// of the parameter (Value() directly and through its output, ToMessage()) return
	// with the mirrored value ("" = equal)
	apply func(msg []byte) (bool, error)
	diff  func(mp *mparam, alt bool) string
}

func recEq(a, b Rec) bool {
	if a.A != b.A || a.B != b.B || a.D != b.D || len(a.C) != len(b.C) || len(a.M) != len(b.M) {
		return false
	}
	for i := range a.C {
		if a.C[i] != b.C[i] {
			return false
		}
	}
	for k, v := range a.M {
		if w, ok := b.M[k]; !ok || w != v {
			return false
		}
	}
	return true
}

func vecsEq(a, b []vec3) bool {
	if len(a) != len(b) {
		return false
	}
	for i := range a {
		if a[i] != b[i] {
			return false
		}
	}
	return true
}

// readersDiff compares the three readers of a parameter.Value[T] with the mirror.
func readersDiff[T any](p *parameter.Value[T], alt bool, eq func(T) bool, show func(T) string, want string) string {
	var v T
	if alt {
		v = p.Out().Value()
	} else {
		v = p.Value()
	}
	if !eq(v) {
		return fmt.Sprintf("Value() = %s, the mirror holds %s", clip(show(v), 300), clip(want, 300))
	}
	msg := p.ToMessage()
	var back T
	if err := json.Unmarshal(msg, &back); err != nil {
		return fmt.Sprintf("ToMessage() = %s does not decode: %v", clip(string(msg), 300), err)
	}
	if !eq(back) {
		return fmt.Sprintf("ToMessage() = %s decodes to %s, the mirror holds %s", clip(string(msg), 300), clip(show(back), 300), clip(want, 300))
	}
	return ""
}

type srcFns struct {
	s  func(r *ref) nodes.NodeOutput[string]
	i  func(r *ref) nodes.NodeOutput[int]
	v  func(r *ref) nodes.NodeOutput[[]vector3.Float64]
	c  func(r *ref) nodes.NodeOutput[Rec]
	f  func(r *ref) nodes.NodeOutput[float64]
	fs func(r *ref) nodes.NodeOutput[[]float64]
	mp func(r *ref) nodes.NodeOutput[map[string]int]
}

func wrapS[G nodes.StructProcesor[string]](n *nodes.Struct[string, G], r *rec) *liveNode {
	return &liveNode{node: n, rec: r,
		outS: func(alt bool) nodes.NodeOutput[string] {
			if alt {
				return n // a *Struct is itself a NodeOutput
			}
			return n.Out()
		},
		readS: func(alt bool) string {
			if alt {
				return n.Out().Value()
			}
			return n.Value()
		},
	}
}

func wrapI[G nodes.StructProcesor[int]](n *nodes.Struct[int, G], r *rec) *liveNode {
	return &liveNode{node: n, rec: r,
		outI: func(alt bool) nodes.NodeOutput[int] {
			if alt {
				return n
			}
			return n.Out()
		},
		readI: func(alt bool) int {
			if alt {
				return n.Out().Value()
			}
			return n.Value()
		},
	}
}

func mkS[G nodes.StructProcesor[string]](d G, useNew bool, r *rec) *liveNode {
	if useNew {
		return wrapS(nodes.NewStruct[G, string](d), r)
	}
	return wrapS(&nodes.Struct[string, G]{Data: d}, r)
}

func mkI[G nodes.StructProcesor[int]](d G, useNew bool, r *rec) *liveNode {
	if useNew {
		return wrapI(nodes.NewStruct[G, int](d), r)
	}
	return wrapI(&nodes.Struct[int, G]{Data: d}, r)
}

// buildNode creates the polyform node of model node mn. When literal is set the
// wiring of mn is put into the data struct directly (the way hand-written graphs
// are built); otherwise the node starts empty and the caller wires it with SetInput.
func buildNode(mn *mnode, r *rec, literal, useNew bool, src srcFns) *liveNode {
	nm := func(j int) *ref {
		if !literal {
			return nil
		}
		return mn.named[j]
	}
	arrS := func() []nodes.NodeOutput[string] {
		if !literal || len(mn.arr) == 0 {
			return nil
		}
		out := make([]nodes.NodeOutput[string], len(mn.arr))
		for j := range mn.arr {
			out[j] = src.s(&mn.arr[j])
		}
		return out
	}
	arrI := func() []nodes.NodeOutput[int] {
		if !literal || len(mn.arr) == 0 {
			return nil
		}
		out := make([]nodes.NodeOutput[int], len(mn.arr))
		for j := range mn.arr {
			out[j] = src.i(&mn.arr[j])
		}
		return out
	}
	switch mn.kind {
	case kU1:
		return mkS(U1{In: src.s(nm(0)), R: r}, useNew, r)
	case kS2:
		return mkS(S2{A: src.s(nm(0)), B: src.s(nm(1)), R: r}, useNew, r)
	case kS3:
		return mkS(S3{A: src.s(nm(0)), B: src.s(nm(1)), C: src.s(nm(2)), R: r}, useNew, r)
	case kSArr:
		return mkS(SArr{Values: arrS(), R: r}, useNew, r)
	case kDiv:
		return mkI(Div{A: src.i(nm(0)), B: src.i(nm(1)), R: r}, useNew, r)
	case kSArr2:
		var more []nodes.NodeOutput[string]
		if literal && len(mn.arr2) > 0 {
			more = make([]nodes.NodeOutput[string], len(mn.arr2))
			for j := range mn.arr2 {
				more[j] = src.s(&mn.arr2[j])
			}
		}
		return mkS(SArr2{Values: arrS(), More: more, R: r}, useNew, r)
	case kSMix:
		return mkS(SMix{Values: arrS(), A: src.s(nm(0)), B: src.s(nm(1)), R: r}, useNew, r)
	case kI2:
		return mkI(I2{A: src.i(nm(0)), B: src.i(nm(1)), R: r}, useNew, r)
	case kIArr:
		return mkI(IArr{Values: arrI(), R: r}, useNew, r)
	case kSLen:
		return mkI(SLen{In: src.s(nm(0)), R: r}, useNew, r)
	case kIFmt:
		return mkS(IFmt{In: src.i(nm(0)), R: r}, useNew, r)
	case kSel:
		return mkS(Sel{Cond: src.i(nm(0)), A: src.s(nm(1)), B: src.s(nm(2)), R: r}, useNew, r)
	case kFirst:
		return mkS(First{Values: arrS(), R: r}, useNew, r)
	case kUntil:
		return mkS(Until{Values: arrI(), R: r}, useNew, r)
	case kChkI:
		return mkI(ChkI{In: src.i(nm(0)), R: r}, useNew, r)
	case kChkS:
		return mkS(ChkS{In: src.s(nm(0)), R: r}, useNew, r)
	case kVFmt:
		return mkS(VFmt{In: src.v(nm(0)), R: r}, useNew, r)
	case kRFmt:
		return mkS(RFmt{In: src.c(nm(0)), R: r}, useNew, r)
	case kFBits:
		return mkS(FBits{In: src.f(nm(0)), R: r}, useNew, r)
	case kFInv:
		return mkS(FInv{In: src.f(nm(0)), R: r}, useNew, r)
	case kFAtan:
		return mkS(FAtan{A: src.f(nm(0)), B: src.f(nm(1)), R: r}, useNew, r)
	case kFsFmt:
		return mkS(FsFmt{In: src.fs(nm(0)), R: r}, useNew, r)
	case kMFmt:
		return mkS(MFmt{In: src.mp(nm(0)), R: r}, useNew, r)
	}
	panic("unknown kind")
}

func buildParam(mp *mparam, pv bool, name string) *liveParam {
	if mp.t == tF || mp.t == tFs || mp.t == tM {
		return buildFloaty(mp, pv, name)
	}
	lp := &liveParam{t: mp.t, pv: pv}
	switch {
	case mp.t == tV:
		def := make([]vector3.Float64, 0, len(mp.v))
		for _, v := range mp.v {
			def = append(def, vector3.New(v[0], v[1], v[2]))
		}
		p := &parameter.Vector3Array{Name: name, DefaultValue: def}
		lp.node = p
		lp.outV = func(alt bool) nodes.NodeOutput[[]vector3.Float64] {
			if alt {
				return p
			}
			return p.Out()
		}
		lp.apply = p.ApplyMessage
		lp.diff = func(mp *mparam, alt bool) string {
			return readersDiff(p, alt, func(v []vector3.Float64) bool { return vecsEq(toVec3s(v), mp.v) },
				func(v []vector3.Float64) string { return fVFmt(0, true, toVec3s(v)) }, fVFmt(0, true, mp.v))
		}
	case mp.t == tR:
		p := &parameter.Value[Rec]{Name: name, DefaultValue: mp.rc.clone()}
		lp.node = p
		lp.outR = func(alt bool) nodes.NodeOutput[Rec] {
			if alt {
				return p
			}
			return p.Out()
		}
		lp.apply = p.ApplyMessage
		lp.diff = func(mp *mparam, alt bool) string {
			return readersDiff(p, alt, func(v Rec) bool { return recEq(v, mp.rc) },
				func(v Rec) string { return fRFmt(0, true, v) }, fRFmt(0, true, mp.rc))
		}
	case mp.t == tS && pv:
		p := &parameter.Value[string]{Name: name, DefaultValue: mp.s}
		lp.node = p
		lp.apply = p.ApplyMessage
		lp.diff = func(mp *mparam, alt bool) string {
			return readersDiff(p, alt, func(v string) bool { return v == mp.s }, strconv.Quote, strconv.Quote(mp.s))
		}
		lp.outS = func(alt bool) nodes.NodeOutput[string] {
			if alt {
				return p
			}
			return p.Out()
		}
		lp.setS = func(s string) {
			b, _ := json.Marshal(s)
			if _, err := p.ApplyMessage(b); err != nil {
				panic(err)
			}
		}
	case mp.t == tI && pv:
		p := &parameter.Value[int]{Name: name, DefaultValue: mp.i}
		lp.node = p
		lp.apply = p.ApplyMessage
		lp.diff = func(mp *mparam, alt bool) string {
			return readersDiff(p, alt, func(v int) bool { return v == mp.i }, strconv.Itoa, strconv.Itoa(mp.i))
		}
		lp.outI = func(alt bool) nodes.NodeOutput[int] {
			if alt {
				return p
			}
			return p.Out()
		}
		lp.setI = func(v int) {
			if _, err := p.ApplyMessage([]byte(strconv.Itoa(v))); err != nil {
				panic(err)
			}
		}
	case mp.t == tS:
		p := nodes.Value(mp.s)
		lp.node = p
		lp.outS = func(alt bool) nodes.NodeOutput[string] {
			if alt {
				return p
			}
			return p.Out()
		}
		lp.setS = func(s string) { p.Set(s) }
	default:
		p := nodes.Value(mp.i)
		lp.node = p
		lp.outI = func(alt bool) nodes.NodeOutput[int] {
			if alt {
				return p
			}
			return p.Out()
		}
		lp.setI = func(v int) { p.Set(v) }
	}
	return lp
}
