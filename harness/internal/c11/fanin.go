package c11

import (
	"fmt"
	"sort"

	"polyverif/internal/run"
)

// Phase large-fan-in: one node with 63..300 wired dependencies (one array input,
// two array inputs, named inputs plus an array), every dependency with a source of
// its own, so that an update can touch exactly one of them. The dependencies are
// addressed by their position in the order polyform keeps them in (sorted by input
// name: "Values.10" before "Values.2"): first, 62..66, last, random; after every
// single update the node above is read. The ordinary oracle applies.

var fanInSizes = []int{65, 64, 66, 63, 100, 129, 128, 200, 300}

func largeFanIn(c *run.Ctx) run.Result {
	var res run.Result
	r := c.Rng
	procCases++
	h := &hist{c: c, res: &res, r: r}
	m := &model{}
	h.m = m
	n := fanInSizes[c.Case%len(fanInSizes)]
	if c.Case >= len(fanInSizes) && r.Intn(3) == 0 {
		n = 60 + r.Intn(241)
	}
	layout := []string{"one-array", "two-arrays", "named+array", "one-array-int"}[r.Intn(4)]
	viaNodes := 0.0 // share of the dependencies that are nodes (U1 over a source of their own) instead of sources
	if r.Intn(2) == 0 {
		viaNodes = 0.25
		if n > 150 {
			viaNodes = 0.1
		}
	}
	elemT := tS
	if layout == "one-array-int" {
		elemT = tI
	}
	// one source (and sometimes one node) per dependency
	elem := func() ref {
		m.params = append(m.params, mparam{t: elemT, s: fmt.Sprintf("d%d", len(m.params)), i: 1000 + len(m.params)})
		p := ref{param: true, idx: len(m.params) - 1}
		if elemT == tS && r.Float64() < viaNodes {
			m.nodes = append(m.nodes, mnode{kind: kU1, named: []*ref{&p}, lastExec: -1})
			return ref{idx: len(m.nodes) - 1}
		}
		return p
	}
	var big mnode
	switch layout {
	case "one-array":
		big = mnode{kind: kSArr}
		for k := 0; k < n; k++ {
			big.arr = append(big.arr, elem())
		}
	case "one-array-int":
		big = mnode{kind: kIArr}
		for k := 0; k < n; k++ {
			big.arr = append(big.arr, elem())
		}
	case "two-arrays":
		big = mnode{kind: kSArr2}
		a := 1 + r.Intn(n-1)
		if r.Intn(2) == 0 {
			a = 30 + r.Intn(imax(1, imin(34, n-31))) // both below 64, the sum past it
		}
		for k := 0; k < a; k++ {
			big.arr = append(big.arr, elem())
		}
		for k := a; k < n; k++ {
			big.arr2 = append(big.arr2, elem())
		}
	default:
		big = mnode{kind: kSMix}
		a, b := elem(), elem()
		big.named = []*ref{&a, &b}
		for k := 2; k < n; k++ {
			big.arr = append(big.arr, elem())
		}
	}
	if big.named == nil {
		big.named = make([]*ref, len(kinds[big.kind].named))
	}
	big.lastExec = -1
	m.nodes = append(m.nodes, big)
	bi := len(m.nodes) - 1
	top := bi
	if r.Intn(2) == 0 { // read through a consumer
		src := ref{idx: bi}
		k := kU1
		if elemT == tI {
			k = kIFmt
		}
		m.nodes = append(m.nodes, mnode{kind: k, named: []*ref{&src}, lastExec: -1})
		top = len(m.nodes) - 1
	}
	h.init = clip(m.describe(), 1500)
	c.Note(fmt.Sprintf("large-fan-in n=%d layout=%s", n, layout))
	if !h.build() {
		return res
	}
	h.maxArr = n
	h.checkStates(true)

	// the dependencies of the big node in polyform's order
	type depRef struct {
		name string
		rf   ref
	}
	var deps []depRef
	kd := kinds[big.kind]
	bn := &m.nodes[bi]
	for j, rf := range bn.named {
		if rf != nil {
			deps = append(deps, depRef{kd.named[j].name, *rf})
		}
	}
	for j, rf := range bn.arr {
		deps = append(deps, depRef{fmt.Sprintf("%s.%d", kd.arr.name, j), rf})
	}
	for j, rf := range bn.arr2 {
		deps = append(deps, depRef{fmt.Sprintf("More.%d", j), rf})
	}
	sort.Slice(deps, func(a, b int) bool { return deps[a].name < deps[b].name })

	h.read(top)
	touch := func(pos int, class string) {
		if h.dead || pos < 0 || pos >= len(deps) {
			return
		}
		ps := h.paramsBelow(&deps[pos].rf)
		if len(ps) != 1 {
			return
		}
		h.updateParam(ps[0], false)
		if !h.dead {
			h.read(top)
		}
		res.Count("large_fan_in_single_dependency_updates", 1)
		res.SetAdd("large_fan_in_position_classes", class)
		if pos >= 64 {
			res.Count("large_fan_in_single_dependency_updates_at_sorted_position_ge64", 1)
		}
	}
	touch(0, "first")
	for _, pos := range []int{62, 63, 64, 65, 66} {
		touch(pos, fmt.Sprint(pos))
	}
	touch(len(deps)-1, "last")
	for k := 0; k < 6; k++ {
		pos := r.Intn(len(deps))
		cl := "random<64"
		if pos >= 64 {
			cl = "random>=64"
		}
		touch(pos, cl)
	}
	// two at once, then everything on the far side of 64
	if len(deps) > 70 && !h.dead {
		for _, pos := range []int{64 + r.Intn(len(deps)-64), 64 + r.Intn(len(deps)-64)} {
			if ps := h.paramsBelow(&deps[pos].rf); len(ps) == 1 {
				h.updateParam(ps[0], false)
			}
		}
		if !h.dead {
			h.read(top)
		}
	}
	// a few ordinary operations on top (array removals move every later position)
	for op := 0; op < 15 && !h.dead; op++ {
		switch r.Intn(3) {
		case 0:
			if len(bn.arr) > 0 {
				h.arrRemove(bi, r.Intn(len(bn.arr)))
			}
		case 1:
			h.updateParam(r.Intn(len(m.params)), false)
		default:
			h.read(top)
		}
	}
	if !h.dead {
		h.read(top)
	}
	res.Count("large_fan_in_histories", 1)
	if len(deps) > 64 {
		res.Count("large_fan_in_histories_with_more_than_64_dependencies", 1)
	}
	res.SetAdd("large_fan_in_layouts", layout)
	res.SetAdd("large_fan_in_sizes", fmt.Sprint(n))
	res.Nontrivial = true
	cls := "<=64"
	switch {
	case n > 128:
		cls = ">128"
	case n > 64:
		cls = "65-128"
	}
	res.Sig = fmt.Sprintf("large-fan-in/%s/%s/viaNodes=%v/top=%v", cls, layout, viaNodes > 0, top != bi)
	res.Sample = map[string]any{"dependencies": n, "layout": layout, "share_of_node_dependencies": viaNodes}
	return res
}

func imin(a, b int) int {
	if a < b {
		return a
	}
	return b
}
