// Package c11 monitors property C11: node outputs are never stale, nodes
// recompute only when an input changed, and the version of a node increases by
// exactly one per execution and never otherwise.
//
// A random DAG of harness-defined nodes.Struct processors over parameter.Value /
// nodes.ValueNode sources is driven through a random history of parameter
// updates, re-wirings and reads. A plain-data mirror of the graph (model.go) is
// evaluated from scratch on every read and keeps logical time stamps of every
// change, from which it follows which nodes are allowed to execute.
package c11

import (
	"encoding/json"
	"fmt"
	"math/rand"
	"sort"
	"strings"

	"github.com/EliCDavis/polyform/nodes"
	"github.com/EliCDavis/vector/vector3"
	"polyverif/internal/run"
)

const idleRereads = 10

func Spec() *run.Spec {
	return &run.Spec{
		ID: "C11", Level: "exploration",
		Rule: "case = one random DAG (shape chain/diamond/fan-in/shared/random, 3-25 harness-defined nodes.Struct nodes: unary, binary, 3-input, array and mixed inputs, string- and int-valued, order-sensitive, plus two kinds whose processor returns (fallback value, error) for some inputs and targeted fail -> read -> recover -> read sequences over them; 1-6 string/int sources of kind parameter.Value[T] / nodes.ValueNode[T]; in 4 of 5 histories also 1-3 further sources, each read through an adapter node at the bottom of the graph: parameter.Vector3Array, parameter.Value[Rec] (harness struct: int, string, []int, nested struct, map), float64 sources (nodes.ValueNode / parameter.Value; values: +0 and -0 half of the time, denormals, +-MaxFloat64, 0.1+0.2 vs 0.3, for ValueNodes also +-Inf and NaNs with different payloads) under sign-of-zero-sensitive processors (bit pattern, 1/x, Atan2+Signbit), []float64 sources (ValueNode: updated by fresh slices and by editing the slice in place and calling Set with the same slice; parameter.Value: JSON) and map[string]int ValueNodes (fresh maps and in-place edits + Set(same map)); the mirror compares floats by their bits) driven through 20-200 operations " +
			"(parameter update; for parameter.Value sources through ApplyMessage, for the struct source also messages that leave fields out or are null; a quarter of the messages to parameter.Value sources are messages the source must reject: valid JSON whose beginning decodes before a wrongly typed element / field follows, a value of the wrong shape, or a cut-off message; set/replace/clear a named input, array add/remove, read of an arbitrary node); every read is followed by 10 idle re-reads. After every operation: Version() delta == executions recorded by the processors (0 or 1) for every node, " +
			"no execution outside a read, an executed node must have a change (parameter update in its transitive inputs or SetInput on the way, its own included) since its previous execution, the value read equals a from-scratch evaluation of the mirrored graph, State() agrees with the mirror's staleness. A rejected message changes nothing in the mirror: after it ApplyMessage must have returned an error, Version() of the source is unchanged, Value() (directly and through the output) and the decoded ToMessage() equal the mirrored value (also checked after every accepted message), nothing above may execute; targeted sequence: source holds an applied value -> read above -> 1-2 rejected messages -> read -> the consumer's input is re-installed (it executes again) -> read. " +
			"Phase lazy-inputs: the same with three more processor kinds that read only some of their wired inputs (Sel: condition picks one of two branches; First: first array entry only; Until: array entries up to the first odd value), plus targeted sequences (read while a branch is unread, change something below the unread branch, let another consumer process it, re-wire it, flip the condition, read: the value must come from the new branch); an execution is only flagged when no parameter in the node's wired transitive inputs and no wiring changed, State() must be Stale when an input the processors actually read changed. " +
			"Directed sequence (about 1 in 12 operations where such a source exists): a float / slice / map source below a node that was read moves 0 -> -0 -> 0 (slices: the signs of all zeros flipped, in place or as a fresh slice; maps: in-place edit + Set(same map)) with a read of the node above after every move: every such Set is a change of the source, the nodes above must be Stale and the value read must be the from-scratch one; a Set of a bit-identical value may or may not count as a change, as before. " +
			"Directed sequence (all phases, about 1 in 20 operations): a node that has executed loses every wired input (named inputs cleared, array entries removed down to the empty array), then it and a consumer are read. " +
			"Phase first-use: every case runs in a worker process of its own, so the processor types are new to polyform; per kind (3-9 of the kinds with named inputs) a sparse instance (some / the only named input unwired) and a full instance are built, in half of the cases the sparse instances execute first, in the other half the full ones; per open input: its source on the full instance changes, read; the input is wired on the sparse instance, read, its source changes, read; then 10-40 random operations; same checks (every case counts as non-trivial). In the batched phases the harness records per worker process which named inputs were unwired on the first instance of each kind that executed, and counts the later reads of other instances (other cases) that have such an input wired and changed. " +
			"Phase large-fan-in: one node with 65, 64, 66, 63, 100, 129, 128, 200, 300 (then random 60-300) wired dependencies, as one array input (string or int), two array inputs (sometimes both below 64 with the sum past it) or two named inputs plus an array; every dependency has a source of its own (for a quarter / a tenth of them in half of the cases through a unary node); after a first read, single updates that touch exactly one dependency at sorted position first / 62 / 63 / 64 / 65 / 66 / last / 6 random ones, a read of the node (or its consumer) after each, then two far dependencies at once, then 15 removals / updates / reads; same checks (every case counts as non-trivial). " +
			"Panicking processor (kind Div, all phases): an integer division that panics when its B input reads 0; the reader recovers the panic (as the HTTP handlers do) and carries on: a Process() left by a panic is not an execution (no version move demanded or allowed beyond completed executions), every later read must equal the from-scratch evaluation. Directed sequence (about 1 in 12 operations): Div executed with B wired to an int source P -> another int source Q is steered (by extra updates of P / Q) to the version at which the repair below lands on exactly the version of P that Div remembers -> Q := 0 -> B re-wired to Q -> read (panics, recovered) -> Q := non-zero -> read: the value of the new wiring. " +
			"Non-trivial: the history re-reads a node whose cone contains a node with >= 2 dependencies at different versions (the state in which a permuted dependency order shows). Distinctness: shape / node-count bucket / source count / longest array bucket / history length bucket.",
		Assumptions: []string{
			"processors are pure functions of their inputs (no side effects besides the harness counter); two kinds (ChkI: negative input, ChkS: a third of all strings) return (fallback value, error): Value() must hand out that fallback (what nodes.Struct does with the result of Process()), an execution that ends in an error counts as one execution and +1 version like any other (behaviour of the unchanged tree), and State() of an up-to-date failed node may be Processed (unchanged tree) or Error",
			"single goroutine: reads and edits are sequential (concurrency is C13)",
			"a message counts as rejected when ApplyMessage returns an error; every generated rejected message is ill-typed or cut off for the type of the source (a case in which such a message is accepted is inconclusive, the mirror does not apply)",
			"a SetInput call counts as a wiring change even when it re-installs the same source, and an update call as a parameter change even when the value is the same (so a conservative implementation is not flagged); State() is not constrained in those two situations",
			"graph size is bounded so that the number of dependency paths below any node stays <= 400 (polyform's Outdated() walks every path)",
			"phase lazy-inputs: a node may re-execute when a parameter below a wired-but-unread input changed (the property allows it); State() == Processed is not demanded there, State() == Stale only for changes in inputs that were read",
		},
		MinNontrivial: map[string]int{"quick": 100, "thorough": 300},
		MinObserved: map[string]int64{
			"idle_rereads":                                                   2000,
			"reads_mixed_dep_versions":                                       300,
			"executions":                                                     1000,
			"reads_array_ge10_in_cone":                                       50,
			"state_checks":                                                   5000,
			"ops_array_remove":                                               50,
			"ops_set_named_replace":                                          50,
			"ops_update_parameter.Value":                                     50,
			"ops_update_nodes.ValueNode":                                     50,
			"lazy_scenario_condition_flipped":                                100,
			"fail_scenario_recovered":                                        100,
			"fail_scenario_made_to_fail":                                     100,
			"executions_ending_in_error":                                     500,
			"reads_recovered_from_processor_panic":                           500,
			"rewire_then_panic_then_repair_sequences":                        300,
			"version_coincidences_after_rewire":                              200,
			"large_fan_in_histories_with_more_than_64_dependencies":          5,
			"large_fan_in_single_dependency_updates_at_sorted_position_ge64": 20,
			"large_fan_in_position_classes":                                  8,
			"executed_node_lost_its_last_input_then_read":                    500,
			"executed_node_array_emptied_then_read":                          100,
			"first_use_cases_in_a_fresh_process":                             40,
			"first_use_input_unwired_on_first_instance_wired_on_later_instance_changed_and_read":  30,
			"first_use_input_unwired_at_first_execution_wired_later_changed_and_read":             60,
			"first_use_input_wired_on_first_instance_changed_and_read":                            30,
			"reads_type_first_seen_with_input_unwired_in_an_earlier_case_later_wired_and_changed": 500,
			"executions_with_an_input_unwired_that_was_wired_when_the_type_first_executed":        500,
			"zero_sign_flips_below_a_read_node":                                                   1000,
			"sets_of_a_float_that_is_equal_but_not_bit_identical":                                 1000,
			"sets_of_a_slice_edited_in_place":                                                     500,
			"sets_of_a_map_edited_in_place":                                                       500,
			"in_place_map_edits_below_a_read_node":                                                300,
			"ops_update_float64":                                                                  2000,
			"rejected_messages_[]vector3.Float64":                                                 500,
			"rejected_messages_c11.Rec":                                                           500,
			"rejected_messages_to_a_source_holding_an_applied_value":                              1000,
			"source_reader_checks":                                                                5000,
			"reject_scenario_consumer_reexecuted_and_read":                                        500,
			"ops_update_struct_with_fields_left_out":                                              200,
			"reads_over_a_failed_node":                                                            500,
			"lazy_scenario_branch_processed_elsewhere":                                            30,
			"lazy_scenario_unread_input_rewired":                                                  30,
		},
		Phases: []run.Phase{
			{Name: "histories", Cases: func(t string) int {
				if t == "thorough" {
					return 20000
				}
				return 1200
			}, Run: func(c *run.Ctx) run.Result { return history(c, false) }, Batch: 25, CPUBudgetS: 60},
			{Name: "lazy-inputs", Cases: func(t string) int {
				if t == "thorough" {
					return 6000
				}
				return 300
			}, Run: func(c *run.Ctx) run.Result { return history(c, true) }, Batch: 25, CPUBudgetS: 60},
			{Name: "first-use", Cases: func(t string) int {
				if t == "thorough" {
					return 400
				}
				return 48
			}, Run: firstUse, Batch: 1, CPUBudgetS: 60},
			{Name: "large-fan-in", Cases: func(t string) int {
				if t == "thorough" {
					return 100
				}
				return 9
			}, Run: largeFanIn, Batch: 3, CPUBudgetS: 120},
		},
	}
}

type hist struct {
	c      *run.Ctx
	res    *run.Result
	r      *rand.Rand
	m      *model
	ln     []*liveNode
	lp     []*liveParam
	log    []int
	ops    []string
	init   string
	styles []string
	lazy   bool
	uniq   int
	rot    int
	dead   bool
	// the last read ended in a processor panic that the mirror expects (recovered)
	lastRecovered bool

	mixedReads, arr10Reads int
	maxArr                 int
}

func (h *hist) witness() any {
	ops := h.ops
	if len(ops) > 260 {
		ops = append([]string{"…"}, ops[len(ops)-260:]...)
	}
	return map[string]any{"initial_graph": h.init, "construction": strings.Join(h.styles, " "), "ops": strings.Join(ops, "; "), "graph_now": h.m.describe()}
}

func (h *hist) violate(class, site, input, detail string) {
	h.res.Violate(class, site, input, detail, h.witness())
}

func (h *hist) src() srcFns {
	return srcFns{
		s: func(r *ref) nodes.NodeOutput[string] {
			if r == nil {
				return nil
			}
			alt := h.r.Intn(2) == 0
			if r.param {
				return h.lp[r.idx].outS(alt)
			}
			return h.ln[r.idx].outS(alt)
		},
		i: func(r *ref) nodes.NodeOutput[int] {
			if r == nil {
				return nil
			}
			alt := h.r.Intn(2) == 0
			if r.param {
				return h.lp[r.idx].outI(alt)
			}
			return h.ln[r.idx].outI(alt)
		},
		v: func(r *ref) nodes.NodeOutput[[]vector3.Float64] {
			if r == nil {
				return nil
			}
			return h.lp[r.idx].outV(h.r.Intn(2) == 0)
		},
		c: func(r *ref) nodes.NodeOutput[Rec] {
			if r == nil {
				return nil
			}
			return h.lp[r.idx].outR(h.r.Intn(2) == 0)
		},
		f: func(r *ref) nodes.NodeOutput[float64] {
			if r == nil {
				return nil
			}
			return h.lp[r.idx].outF(h.r.Intn(2) == 0)
		},
		fs: func(r *ref) nodes.NodeOutput[[]float64] {
			if r == nil {
				return nil
			}
			return h.lp[r.idx].outFs(h.r.Intn(2) == 0)
		},
		mp: func(r *ref) nodes.NodeOutput[map[string]int] {
			if r == nil {
				return nil
			}
			return h.lp[r.idx].outM(h.r.Intn(2) == 0)
		},
	}
}

func (h *hist) output(r *ref) nodes.NodeOutputReference {
	if r == nil {
		return nil
	}
	s := h.src()
	switch h.m.outType(*r) {
	case tS:
		return s.s(r)
	case tI:
		return s.i(r)
	case tV:
		return s.v(r)
	case tF:
		return s.f(r)
	case tFs:
		return s.fs(r)
	case tM:
		return s.mp(r)
	}
	return s.c(r)
}

func history(c *run.Ctx, lazy bool) run.Result {
	var res run.Result
	r := c.Rng
	h := &hist{c: c, res: &res, r: r, lazy: lazy}
	procCases++

	shape := shapes[r.Intn(len(shapes))]
	nn := 3 + r.Intn(23)
	if r.Intn(3) == 0 {
		nn = 3 + r.Intn(6)
	}
	np := 1 + r.Intn(6)
	nops := 20 + r.Intn(181)
	if r.Intn(3) == 0 {
		nops = 20 + r.Intn(40)
	}
	nc := 0 // composite-valued sources (slice- / struct-typed parameter.Value)
	if r.Intn(5) < 4 {
		nc = 1 + r.Intn(3)
	}
	h.m = genGraph(r, shape, nn, np, nc, lazy)
	m := h.m
	h.init = m.describe()
	c.Note(fmt.Sprintf("history shape=%s nodes=%d params=%d ops=%d lazy=%v", shape, len(m.nodes), np, nops, lazy))

	if !h.build() {
		return res
	}
	res.SetAdd("shapes", shape)

	// State() before anything was read: every node is stale
	h.checkStates(true)

	// ---- the history -----------------------------------------------------------
	for op := 0; op < nops && !h.dead; op++ {
		h.randomOp()
	}

	maxCost := 0
	for _, cst := range m.costs() {
		if cst > maxCost {
			maxCost = cst
		}
	}
	if int64(maxCost) > 0 {
		res.SetAdd("dependency_paths_bucket", bucket(maxCost))
	}
	res.Count("histories", 1)
	res.Nontrivial = h.mixedReads > 0
	res.Sig = fmt.Sprintf("%s/n%s/p%d/arr%s/ops%s/lazy=%v", shape, bucket(len(m.nodes)), np, bucket(h.maxArr), bucket(nops), lazy)
	first := h.ops
	if len(first) > 12 {
		first = first[:12]
	}
	res.Sample = map[string]any{"shape": shape, "initial_graph": clip(h.init, 700), "first_ops": strings.Join(first, "; "), "ops": nops,
		"reads_mixed_dep_versions": h.mixedReads, "reads_array_ge10_in_cone": h.arr10Reads}
	return res
}

// build creates the real graph of the mirrored one.
func (h *hist) build() bool {
	r, m, res := h.r, h.m, h.res
	if p := run.Try(func() {
		for k := range m.params {
			pv := r.Intn(2) == 0 || m.params[k].t == tV || m.params[k].t == tR
			if m.params[k].t == tM || (m.params[k].t == tFs && r.Intn(3) != 0) {
				pv = false // in-place edits need a nodes.ValueNode
			}
			h.lp = append(h.lp, buildParam(&m.params[k], pv, fmt.Sprintf("p%d", k)))
			if pv {
				res.SetAdd("source_kinds", "parameter.Value["+m.params[k].t.String()+"]")
			} else {
				res.SetAdd("source_kinds", "nodes.ValueNode["+m.params[k].t.String()+"]")
			}
		}
		for i := range m.nodes {
			mn := &m.nodes[i]
			kd := kinds[mn.kind]
			rc := &rec{tag: i, log: &h.log}
			style := r.Intn(3)
			ln := buildNode(mn, rc, style == 0, style == 2, h.src())
			h.ln = append(h.ln, ln)
			h.styles = append(h.styles, []string{"literal", "SetInput", "NewStruct+SetInput"}[style])
			res.SetAdd("construction", h.styles[i])
			res.SetAdd("node_kinds", kd.name)
			if style != 0 {
				for j, rf := range mn.named {
					if rf != nil {
						ln.node.SetInput(kd.named[j].name, nodes.Output{NodeOutput: h.output(rf)})
					}
				}
				for j := range mn.arr {
					ln.node.SetInput(fmt.Sprintf("%s.%d", kd.arr.name, j), nodes.Output{NodeOutput: h.output(&mn.arr[j])})
				}
				for j := range mn.arr2 {
					ln.node.SetInput(fmt.Sprintf("More.%d", j), nodes.Output{NodeOutput: h.output(&mn.arr2[j])})
				}
			}
			if len(mn.arr) > h.maxArr {
				h.maxArr = len(mn.arr)
			}
		}
	}); p != nil {
		h.violate("panic", p.Site, "building the graph", p.Value+"\n"+p.Stack)
		return false
	}
	return true
}

func clip(s string, n int) string {
	if len(s) > n {
		return s[:n] + "…"
	}
	return s
}

func bucket(n int) string {
	switch {
	case n == 0:
		return "0"
	case n <= 3:
		return "1-3"
	case n <= 9:
		return "4-9"
	case n <= 12:
		return "10-12"
	case n <= 25:
		return "13-25"
	case n <= 60:
		return "26-60"
	case n <= 120:
		return "61-120"
	}
	return ">120"
}

// ---- operations ----------------------------------------------------------------

func (h *hist) randomOp() {
	r, m := h.r, h.m
	if h.lazy && r.Intn(10) == 0 && h.lazyScenario() {
		return
	}
	if r.Intn(14) == 0 && h.rejectScenario() {
		return
	}
	if r.Intn(20) == 0 && h.emptyScenario() {
		return
	}
	if r.Intn(12) == 0 && h.panicScenario() {
		return
	}
	if r.Intn(12) == 0 && h.floatScenario() {
		return
	}
	if r.Intn(14) == 0 && h.failScenario() {
		return
	}
	for try := 0; try < 8; try++ {
		x := r.Intn(100)
		switch {
		case x < 24: // parameter update
			k := r.Intn(len(m.params))
			if h.lp[k].apply != nil && r.Intn(4) == 0 {
				h.rejectParam(k)
				return
			}
			h.updateParam(k, r.Intn(20) == 0)
			return
		case x < 38: // set / replace a named input
			i := r.Intn(len(m.nodes))
			kd := kinds[m.nodes[i].kind]
			if len(kd.named) == 0 {
				continue
			}
			j := r.Intn(len(kd.named))
			g := &genr{r: r, m: m, lazy: h.lazy}
			var s *ref
			if m.nodes[i].named[j] != nil && r.Intn(8) == 0 {
				c := *m.nodes[i].named[j] // re-install the same source
				s = &c
			} else {
				s = g.pickSource(i, kd.named[j].t, 0.5)
			}
			if s == nil {
				continue
			}
			if h.setNamed(i, j, s) {
				return
			}
		case x < 43: // clear a named input
			i := r.Intn(len(m.nodes))
			kd := kinds[m.nodes[i].kind]
			if len(kd.named) == 0 {
				continue
			}
			j := r.Intn(len(kd.named))
			if m.nodes[i].named[j] == nil && r.Intn(4) != 0 {
				continue
			}
			h.setNamed(i, j, nil)
			return
		case x < 55: // array add
			i := r.Intn(len(m.nodes))
			kd := kinds[m.nodes[i].kind]
			if kd.arr == nil || len(m.nodes[i].arr) >= 12 {
				continue
			}
			g := &genr{r: r, m: m, lazy: h.lazy}
			s := g.pickSource(i, kd.arr.t, 0.5)
			if s == nil {
				continue
			}
			if h.arrAdd(i, *s) {
				return
			}
		case x < 62: // array remove
			i := r.Intn(len(m.nodes))
			if len(m.nodes[i].arr) == 0 {
				continue
			}
			h.arrRemove(i, r.Intn(len(m.nodes[i].arr)))
			return
		default:
			h.read(r.Intn(len(m.nodes)))
			return
		}
	}
	h.read(r.Intn(len(m.nodes)))
}

// updateParam updates source k: same = re-send the current value; parity 0/1 forces
// the parity of an int value (-1 = any).
func (h *hist) updateParam(k int, same bool) { h.updateParamOpts(k, same, -1, 0) }

func (h *hist) updateParamParity(k int, same bool, parity int) { h.updateParamOpts(k, same, parity, 0) }

// sign +1 / -1 forces the sign of an int value (0 = any).
func (h *hist) updateParamOpts(k int, same bool, parity int, sign int) {
	if t := h.m.params[k].t; t == tF || t == tFs || t == tM {
		h.updateFloaty(k, same, nil, 0)
		return
	}
	m := h.m
	p := &m.params[k]
	lp := h.lp[k]
	m.clock++
	p.changedSoft = m.clock
	h.uniq++
	var desc string
	if p.t == tV || p.t == tR {
		var msg string
		if p.t == tV {
			nv := p.v
			msg = vecsJSON(nv)
			if !same {
				nv = randVecs(h.r, h.r.Intn(7))
				msg = vecsJSON(nv)
				if h.r.Intn(12) == 0 {
					nv, msg = nil, "null"
				}
				if !vecsEq(nv, p.v) {
					p.changedHard = m.clock
				}
			}
			p.v = nv
		} else {
			nv := p.rc
			msg = recJSON(nv, [5]bool{true, true, true, true, true})
			if !same {
				nv = randRec(h.r)
				incl := [5]bool{true, true, true, true, true}
				switch h.r.Intn(12) {
				case 0, 1, 2, 3: // a message that leaves fields out: they are zero afterwards
					for f := range incl {
						incl[f] = h.r.Intn(2) == 0
					}
					if !incl[0] {
						nv.A = 0
					}
					if !incl[1] {
						nv.B = ""
					}
					if !incl[2] {
						nv.C = nil
					}
					if !incl[3] {
						nv.D = RecD{}
					}
					if !incl[4] {
						nv.M = nil
					}
					msg = recJSON(nv, incl)
					h.res.Count("ops_update_struct_with_fields_left_out", 1)
				case 4:
					nv, msg = Rec{}, "null"
				default:
					msg = recJSON(nv, incl)
				}
				if !recEq(nv, p.rc) {
					p.changedHard = m.clock
				}
			}
			p.rc = nv
		}
		p.applied = true
		desc = fmt.Sprintf("U p%d=%s", k, clip(msg, 160))
		h.step(desc, -1, false, "update", func() {
			if _, err := lp.apply([]byte(msg)); err != nil {
				panic(err)
			}
		})
		h.res.Count("ops_update_"+p.t.String(), 1)
	} else if p.t == tS {
		v := p.s
		if !same {
			v = fmt.Sprintf("v%d", h.uniq)
			switch h.r.Intn(12) {
			case 0:
				v = fmt.Sprintf("q\"%d\\é\n", h.uniq) // JSON-escaped on the way in
			case 1:
				v = fmt.Sprintf("%d,|<>[];", h.uniq) // the separators of the processors
			}
			p.changedHard = m.clock
		}
		p.s = v
		desc = fmt.Sprintf("U p%d=%q", k, v)
		h.step(desc, -1, false, "update", func() { lp.setS(v) })
	} else {
		v := p.i
		if !same {
			v = h.uniq*7 + h.r.Intn(7)
			if parity >= 0 && v&1 != parity {
				v++
			}
			if (sign == 0 && h.r.Intn(6) == 0) || sign < 0 {
				v = -v
			}
			if sign == 2 {
				v = 0
			}
			p.changedHard = m.clock
		}
		p.i = v
		desc = fmt.Sprintf("U p%d=%d", k, v)
		h.step(desc, -1, false, "update", func() { lp.setI(v) })
	}
	p.applied = true
	if !h.dead {
		h.checkParam(k, false)
	}
	if lp.pv {
		h.res.Count("ops_update_parameter.Value", 1)
	} else {
		h.res.Count("ops_update_nodes.ValueNode", 1)
	}
	if same {
		h.res.Count("ops_update_same_value", 1)
	}
}

// ---- messages -------------------------------------------------------------------

func vecJSON(v vec3) string {
	return `{"x":` + ff(v[0]) + `,"y":` + ff(v[1]) + `,"z":` + ff(v[2]) + `}`
}

func vecsJSON(vs []vec3) string {
	parts := make([]string, 0, len(vs))
	for _, v := range vs {
		parts = append(parts, vecJSON(v))
	}
	return "[" + strings.Join(parts, ",") + "]"
}

func jstr(s string) string {
	b, _ := json.Marshal(s)
	return string(b)
}

func intsJSON(c []int, extra ...string) string {
	parts := make([]string, 0, len(c)+len(extra))
	for _, x := range c {
		parts = append(parts, fmt.Sprint(x))
	}
	return "[" + strings.Join(append(parts, extra...), ",") + "]"
}

func mapJSON(m map[string]int, extra ...string) string {
	keys := make([]string, 0, len(m))
	for k := range m {
		keys = append(keys, k)
	}
	sort.Strings(keys)
	parts := make([]string, 0, len(keys)+len(extra))
	for _, k := range keys {
		parts = append(parts, jstr(k)+":"+fmt.Sprint(m[k]))
	}
	return "{" + strings.Join(append(parts, extra...), ",") + "}"
}

// recJSON writes the included fields of rc in the order a, b, c, d, m.
func recJSON(rc Rec, incl [5]bool) string {
	var parts []string
	if incl[0] {
		parts = append(parts, `"a":`+fmt.Sprint(rc.A))
	}
	if incl[1] {
		parts = append(parts, `"b":`+jstr(rc.B))
	}
	if incl[2] {
		parts = append(parts, `"c":`+intsJSON(rc.C))
	}
	if incl[3] {
		parts = append(parts, `"d":{"x":`+ff(rc.D.X)+`,"y":`+ff(rc.D.Y)+`}`)
	}
	if incl[4] {
		parts = append(parts, `"m":`+mapJSON(rc.M))
	}
	return "{" + strings.Join(parts, ",") + "}"
}

// rejectedMessage builds a message that a JSON decoder of the source's type must
// reject. Most variants are valid JSON whose beginning decodes (new element / field
// values that differ from what the parameter holds) before a wrongly typed element
// or field follows; the others are of the wrong shape altogether or cut off.
func (h *hist) rejectedMessage(k int) (msg, variant string) {
	r := h.r
	switch h.m.params[k].t {
	case tV:
		w := randVecs(r, 2+r.Intn(4))
		switch r.Intn(8) {
		case 0, 1:
			return "[" + vecJSON(w[0]) + "," + vecJSON(w[1]) + `,"oops"]`, "good elements, then a string element"
		case 2, 3:
			return "[" + vecJSON(w[0]) + `,{"x":"s","y":1,"z":2},` + vecJSON(w[1]) + "]", "good element, then an element with a wrongly typed field"
		case 4, 5:
			return strings.TrimSuffix(vecsJSON(w), "]") + ",7]", "good elements, then a number element"
		case 6:
			return vecJSON(w[0]), "an object instead of an array"
		}
		return strings.TrimSuffix(vecsJSON(w), "}]"), "cut off"
	case tR:
		n := randRec(r)
		all := [5]bool{true, true, true, true, true}
		switch r.Intn(10) {
		case 0, 1:
			full := recJSON(n, all)
			return strings.Replace(full, `"c":`+intsJSON(n.C), `"c":`+intsJSON(n.C, `"x"`), 1), "all fields good but the last element of the slice field"
		case 2:
			return `{"a":` + fmt.Sprint(n.A) + `,"b":17}`, "good field, then a wrongly typed field"
		case 3:
			return `{"m":` + mapJSON(n.M, `"k9":"s"`) + `,"c":` + intsJSON(n.C) + `,"a":"str"}`, "good map entries and slice, then wrongly typed entries"
		case 4:
			return `{"d":{"x":` + ff(n.D.X) + `,"y":"no"},"b":` + jstr(n.B) + `}`, "nested struct with a wrongly typed field, then a good field"
		case 5, 6:
			return `{"b":` + jstr(n.B) + `,"c":` + intsJSON(n.C) + `,"m":` + mapJSON(n.M) + `,"a":1.5}`, "good fields, then a fraction for an int field"
		case 7:
			return `{"c":` + intsJSON(n.C, "2.5", "3") + `,"d":{"x":1.25,"y":2.5}}`, "slice with a wrongly typed element in the middle"
		case 8:
			return "[1,2]", "an array instead of an object"
		}
		return strings.TrimSuffix(recJSON(n, all), "}"), "cut off"
	case tS:
		return []string{"12", `{"a":1}`, `["x"]`, `"unterminated`}[r.Intn(4)], "wrong type for a string"
	case tF:
		return []string{`"abc"`, "true", "[1]", "{", `{"x":0}`}[r.Intn(5)], "wrong type for a float"
	case tFs:
		return []string{`[-0,5e-324,"x"]`, `[1.5,[2]]`, `{"a":1}`, "[0,-0", "7"}[r.Intn(5)], "good elements then a wrongly typed one / wrong shape for a float slice"
	}
	return []string{`"abc"`, "1.5", "[1]", "{"}[r.Intn(4)], "wrong type for an int"
}

// rejectParam sends a message that the source must reject. The mirror does not
// change: not the value, not the version, not the staleness of anything.
func (h *hist) rejectParam(k int) {
	lp := h.lp[k]
	if lp.apply == nil {
		return
	}
	msg, variant := h.rejectedMessage(k)
	verB := lp.node.Version()
	var err error
	if !h.step(fmt.Sprintf("X p%d<-%s", k, clip(msg, 160)), -1, false, "rejected update", func() { _, err = lp.apply([]byte(msg)) }) {
		return
	}
	if err == nil {
		h.res.Inconclusive = fmt.Sprintf("ApplyMessage of a %s source accepted the message %s (%s); the mirror assumes it is rejected", h.m.params[k].t, clip(msg, 200), variant)
		h.dead = true
		return
	}
	h.res.Count("rejected_messages", 1)
	h.res.Count("rejected_messages_"+h.m.params[k].t.String(), 1)
	h.res.SetAdd("rejected_message_variants", h.m.params[k].t.String()+": "+variant)
	if h.m.params[k].applied {
		h.res.Count("rejected_messages_to_a_source_holding_an_applied_value", 1)
	}
	if v := lp.node.Version(); v != verB {
		h.violate("rejected-message-changed-version", "parameter.Value.ApplyMessage", "rejected message: "+variant,
			fmt.Sprintf("source p%d (parameter.Value[%s]): ApplyMessage(%s) returned the error %q but Version() went %d -> %d", k, h.m.params[k].t, clip(msg, 300), err, verB, v))
	}
	h.checkParam(k, true)
}

// checkParam compares every reader of a parameter.Value source with the mirror.
func (h *hist) checkParam(k int, afterRejected bool) {
	lp := h.lp[k]
	if lp.diff == nil {
		return
	}
	var d string
	if p := run.Try(func() { d = lp.diff(&h.m.params[k], h.r.Intn(2) == 0) }); p != nil {
		h.violate("panic", p.Site, "reading a source", fmt.Sprintf("reading source p%d panicked: %s\n%s", k, p.Value, p.Stack))
		h.dead = true
		return
	}
	h.res.Count("source_reader_checks", 1)
	if d == "" {
		return
	}
	t := h.m.params[k].t.String()
	if afterRejected {
		h.violate("rejected-message-changed-parameter", "parameter.Value.ApplyMessage ("+t+")", "rejected message",
			fmt.Sprintf("after %q (ApplyMessage returned an error, Version() unchanged): source p%d (parameter.Value[%s]) %s", lastOp(h.ops), k, t, d))
	} else {
		h.violate("parameter-value-wrong-after-update", "parameter.Value.ApplyMessage ("+t+")", "accepted message",
			fmt.Sprintf("after %q: source p%d (parameter.Value[%s]) %s", lastOp(h.ops), k, t, d))
	}
}

// rejectScenario: a source that holds an applied value and is read through a
// consumer receives rejected messages; then everything above is read again
// (nothing may execute, the value is the old one), then the consumer is made to
// execute again for another reason (its input is re-installed) and is read: it
// must still compute from the value the source held before the rejected messages.
func (h *hist) rejectScenario() bool {
	r, m := h.r, h.m
	type cand struct{ k, c, j int }
	var comp, scal []cand
	for c := range m.nodes {
		for j, rf := range m.nodes[c].named {
			if rf == nil || !rf.param || h.lp[rf.idx].apply == nil {
				continue
			}
			if t := m.params[rf.idx].t; t == tV || t == tR {
				comp = append(comp, cand{rf.idx, c, j})
			} else {
				scal = append(scal, cand{rf.idx, c, j})
			}
		}
	}
	cands := comp
	if len(cands) == 0 || (len(scal) > 0 && r.Intn(6) == 0) {
		cands = scal
	}
	if len(cands) == 0 {
		return false
	}
	x := cands[r.Intn(len(cands))]
	top := x.c
	var above []int
	for j := x.c + 1; j < len(m.nodes); j++ {
		if m.closure(j)[x.c] {
			above = append(above, j)
		}
	}
	if len(above) > 0 && r.Intn(3) != 0 {
		top = above[r.Intn(len(above))]
	}
	h.res.Count("reject_scenarios", 1)
	if !m.params[x.k].applied || r.Intn(3) == 0 {
		h.updateParam(x.k, false)
	}
	if !h.dead {
		h.read(top)
	}
	for n := 1 + r.Intn(2); n > 0 && !h.dead; n-- {
		h.rejectParam(x.k)
	}
	if !h.dead {
		h.read(top)
	}
	if !h.dead && m.nodes[x.c].named[x.j] != nil {
		same := *m.nodes[x.c].named[x.j]
		if h.setNamed(x.c, x.j, &same) && !h.dead {
			h.read(top)
			h.res.Count("reject_scenario_consumer_reexecuted_and_read", 1)
		}
	}
	return true
}

// paramsBelow lists the sources in the cone of ref rf.
func (h *hist) paramsBelow(rf *ref) []int {
	m := h.m
	if rf == nil {
		return nil
	}
	if rf.param {
		return []int{rf.idx}
	}
	var ps []int
	cl := m.closure(rf.idx)
	seen := map[int]bool{}
	for j := range m.nodes {
		if cl[j] {
			for _, x := range m.refs(j) {
				if x.param && !seen[x.idx] {
					seen[x.idx] = true
					ps = append(ps, x.idx)
				}
			}
		}
	}
	return ps
}

// failScenario drives one failing-capable node through failure and recovery while
// something above it is read in every state: read, make the processor fail (or
// succeed) by a parameter update below it, read, flip it back, read. The value
// read must be the from-scratch value in the failed and in the recovered state.
func (h *hist) failScenario() bool {
	r, m := h.r, h.m
	var cands []int
	for i := range m.nodes {
		if kinds[m.nodes[i].kind].fails && len(h.paramsBelow(m.nodes[i].named[0])) > 0 {
			cands = append(cands, i)
		}
	}
	if len(cands) == 0 {
		return false
	}
	i := cands[r.Intn(len(cands))]
	n := &m.nodes[i]
	top := i
	var above []int
	for j := i + 1; j < len(m.nodes); j++ {
		if m.closure(j)[i] {
			above = append(above, j)
		}
	}
	if len(above) > 0 && r.Intn(4) != 0 {
		top = above[r.Intn(len(above))]
	}
	h.res.Count("fail_scenarios", 1)
	h.read(top)
	for round := 0; round < 2 && !h.dead; round++ {
		was := m.failed(i)
		ps := h.paramsBelow(n.named[0])
		for try := 0; try < 6 && !h.dead; try++ {
			k := ps[r.Intn(len(ps))]
			sign := 0
			if n.named[0].param && m.params[k].t == tI {
				sign = -1
				if was {
					sign = 1
				}
			}
			h.updateParamOpts(k, false, -1, sign)
			if m.failed(i) != was {
				break
			}
		}
		if m.failed(i) != was {
			if was {
				h.res.Count("fail_scenario_recovered", 1)
			} else {
				h.res.Count("fail_scenario_made_to_fail", 1)
			}
		}
		if r.Intn(3) == 0 && !h.dead {
			h.read(i) // sometimes the failing node itself is read first
		}
		if !h.dead {
			h.read(top)
		}
	}
	return true
}

// lazyScenario (phase lazy-inputs) drives one conditional node through the
// sequence that an implementation which ignores unread inputs must survive:
// read it while one branch is unread, change something below the unread branch,
// optionally let another consumer (or a direct read) process that branch,
// optionally re-read, optionally re-wire the unread input, then flip the
// condition so that the branch is read: the value must come from the NEW branch.
func (h *hist) lazyScenario() bool {
	r, m := h.r, h.m
	var cands []int
	for i := range m.nodes {
		n := &m.nodes[i]
		if n.kind == kSel && n.named[0] != nil && (n.named[1] != nil || n.named[2] != nil) {
			cands = append(cands, i)
		}
	}
	if len(cands) == 0 {
		return false
	}
	i := cands[r.Intn(len(cands))]
	n := &m.nodes[i]
	h.res.Count("lazy_scenarios", 1)
	top := i // read the node itself or something above it (diamonds / chains over the conditional node)
	var above []int
	for j := i + 1; j < len(m.nodes); j++ {
		if m.closure(j)[i] {
			above = append(above, j)
		}
	}
	if len(above) > 0 && r.Intn(2) == 0 {
		top = above[r.Intn(len(above))]
	}
	h.read(top)
	unreadSlot := func() int {
		if m.evalRef(n.named[0], tI).i&1 == 0 {
			return 2
		}
		return 1
	}
	us := unreadSlot()
	// change something below the unread branch
	if rf := n.named[us]; rf != nil && !h.dead {
		var ps []int
		if rf.param {
			ps = []int{rf.idx}
		} else {
			cl := m.closure(rf.idx)
			seen := map[int]bool{}
			for j := range m.nodes {
				if cl[j] {
					for _, x := range m.refs(j) {
						if x.param && !seen[x.idx] {
							seen[x.idx] = true
							ps = append(ps, x.idx)
						}
					}
				}
			}
		}
		if len(ps) > 0 {
			h.updateParam(ps[r.Intn(len(ps))], false)
			h.res.Count("lazy_scenario_unread_branch_changed", 1)
		}
		if !rf.param && r.Intn(2) == 0 && !h.dead {
			// the unread branch is processed by someone else in between
			other := rf.idx
			for j := rf.idx + 1; j < len(m.nodes); j++ {
				if j != i && !m.closure(j)[i] && m.closure(j)[rf.idx] && r.Intn(2) == 0 {
					other = j
					break
				}
			}
			h.read(other)
			h.res.Count("lazy_scenario_branch_processed_elsewhere", 1)
		}
	}
	if r.Intn(2) == 0 && !h.dead {
		h.read(top)
	}
	if r.Intn(4) == 0 && !h.dead {
		// re-wire the unread input
		g := &genr{r: r, m: m, lazy: true}
		if s := g.pickSource(i, tS, 0.7); s != nil {
			if h.setNamed(i, us, s) {
				h.res.Count("lazy_scenario_unread_input_rewired", 1)
			}
		}
		if r.Intn(2) == 0 && !h.dead {
			h.read(top)
		}
	}
	// flip the condition
	if h.dead {
		return true
	}
	cur := m.evalRef(n.named[0], tI).i
	var ps []int
	if n.named[0].param {
		ps = []int{n.named[0].idx}
	} else {
		cl := m.closure(n.named[0].idx)
		seen := map[int]bool{}
		for j := range m.nodes {
			if cl[j] {
				for _, x := range m.refs(j) {
					if x.param && !seen[x.idx] {
						seen[x.idx] = true
						ps = append(ps, x.idx)
					}
				}
			}
		}
	}
	for try := 0; try < 6 && len(ps) > 0 && !h.dead; try++ {
		k := ps[r.Intn(len(ps))]
		want := -1
		if n.named[0].param && m.params[k].t == tI {
			want = (cur & 1) ^ 1
		}
		h.updateParamParity(k, false, want)
		if m.evalRef(n.named[0], tI).i&1 != cur&1 {
			h.res.Count("lazy_scenario_condition_flipped", 1)
			break
		}
	}
	if !h.dead {
		h.read(top)
	}
	return true
}

func (h *hist) costOK() bool {
	for _, c := range h.m.costs() {
		if c > costCap {
			return false
		}
	}
	return true
}

func (h *hist) setNamed(i, j int, s *ref) bool {
	m := h.m
	n := &m.nodes[i]
	kd := kinds[n.kind]
	old := n.named[j]
	n.named[j] = s
	if s != nil && !h.costOK() {
		n.named[j] = old
		return false
	}
	m.clock++
	n.wiredSoft = m.clock
	changed := (old == nil) != (s == nil) || (old != nil && s != nil && *old != *s)
	if changed {
		n.wiredHard = m.clock
	}
	switch {
	case s == nil:
		h.res.Count("ops_clear_named", 1)
	case old == nil:
		h.res.Count("ops_set_named_fresh", 1)
	case changed:
		h.res.Count("ops_set_named_replace", 1)
	default:
		h.res.Count("ops_set_named_same_source", 1)
	}
	desc := fmt.Sprintf("W n%d.%s=nil", i, kd.named[j].name)
	if s != nil {
		desc = fmt.Sprintf("W n%d.%s=%s", i, kd.named[j].name, fmtRef(*s))
	}
	out := h.output(s)
	h.step(desc, -1, false, "SetInput", func() {
		h.ln[i].node.SetInput(kd.named[j].name, nodes.Output{NodeOutput: out})
	})
	return true
}

func (h *hist) arrAdd(i int, s ref) bool {
	m := h.m
	n := &m.nodes[i]
	kd := kinds[n.kind]
	n.arr = append(n.arr, s)
	if !h.costOK() {
		n.arr = n.arr[:len(n.arr)-1]
		return false
	}
	m.clock++
	n.wiredSoft, n.wiredHard = m.clock, m.clock
	if len(n.arr) > h.maxArr {
		h.maxArr = len(n.arr)
	}
	h.res.Count("ops_array_add", 1)
	out := h.output(&s)
	name := fmt.Sprintf("%s.%d", kd.arr.name, len(n.arr)-1)
	h.step(fmt.Sprintf("A n%d.%s=%s", i, name, fmtRef(s)), -1, false, "SetInput", func() {
		h.ln[i].node.SetInput(name, nodes.Output{NodeOutput: out})
	})
	return true
}

func (h *hist) arrRemove(i, k int) {
	m := h.m
	n := &m.nodes[i]
	kd := kinds[n.kind]
	n.arr = append(append([]ref{}, n.arr[:k]...), n.arr[k+1:]...)
	m.clock++
	n.wiredSoft, n.wiredHard = m.clock, m.clock
	h.res.Count("ops_array_remove", 1)
	name := fmt.Sprintf("%s.%d", kd.arr.name, k)
	h.step(fmt.Sprintf("R n%d.%s", i, name), -1, false, "SetInput", func() {
		h.ln[i].node.SetInput(name, nodes.Output{NodeOutput: nil})
	})
}

func (h *hist) read(i int) {
	m := h.m
	// what the read is about to see (evidence / non-triviality)
	clos := m.closure(i)
	mixed, arr10, failedBelow := false, false, false
	for j := range m.nodes {
		if !clos[j] {
			continue
		}
		rs := m.refs(j)
		if len(m.nodes[j].arr) >= 10 {
			arr10 = true
		}
		if j != i && m.failed(j) {
			failedBelow = true
		}
		if len(rs) >= 2 {
			v0 := h.version(rs[0])
			for _, rf := range rs[1:] {
				if h.version(rf) != v0 {
					mixed = true
				}
			}
		}
	}
	h.noteRead(clos)
	for k := 0; k <= idleRereads && !h.dead; k++ {
		m.clock++
		alt := h.r.Intn(2) == 0
		var got val
		desc := fmt.Sprintf("V n%d", i)
		if k > 0 {
			desc = "v"
		}
		ok := h.step(desc, i, k > 0, "Value", func() {
			if kinds[m.nodes[i].kind].out == tS {
				got.s = h.ln[i].readS(alt)
			} else {
				got.i = h.ln[i].readI(alt)
			}
		})
		if !ok {
			return
		}
		if h.lastRecovered {
			return // no value was returned; the next read finds the node still outdated
		}
		if m.panics()[i] {
			h.res.Count("reads_returning_a_value_where_the_mirror_panics", 1)
			continue
		}
		want := m.eval(i)
		if got != want {
			in := "first read after a change"
			if k > 0 {
				in = "idle re-read"
			}
			h.violate("stale-value", "nodes.Struct.Value", in,
				fmt.Sprintf("read of n%d (%s) returned %s, a from-scratch evaluation of the current graph gives %s", i, kinds[m.nodes[i].kind].name, fmtVal(got, m, i), fmtVal(want, m, i)))
		}
		if k == 0 {
			h.res.Count("reads", 1)
		} else {
			h.res.Count("idle_rereads", 1)
		}
	}
	if mixed {
		h.mixedReads++
		h.res.Count("reads_mixed_dep_versions", 1)
	}
	if failedBelow {
		h.res.Count("reads_over_a_failed_node", 1)
	}
	if arr10 {
		h.arr10Reads++
		h.res.Count("reads_array_ge10_in_cone", 1)
	}
}

func fmtVal(v val, m *model, i int) string {
	if kinds[m.nodes[i].kind].out == tS {
		return fmt.Sprintf("%q", clip(v.s, 400))
	}
	return fmt.Sprint(v.i)
}

func (h *hist) version(r ref) int {
	if r.param {
		return h.lp[r.idx].node.Version()
	}
	return h.ln[r.idx].node.Version()
}

// step executes one operation against the real graph and checks the
// per-operation invariants. readIdx >= 0 for reads.
func (h *hist) step(desc string, readIdx int, idle bool, opKind string, f func()) bool {
	m := h.m
	if desc == "v" && len(h.ops) > 0 {
		h.ops[len(h.ops)-1] += "'"
	} else {
		h.ops = append(h.ops, desc)
	}
	n := len(m.nodes)
	verB := make([]int, n)
	exB := make([]int, n)
	for i, ln := range h.ln {
		verB[i] = ln.node.Version()
		exB[i] = ln.rec.execs
	}
	var may, clos []bool
	if readIdx >= 0 {
		soft, _ := m.dirty()
		may = m.mayExecute(soft)
		clos = m.closure(readIdx)
	}
	h.log = h.log[:0]
	h.lastRecovered = false
	if p := run.Try(f); p != nil {
		if readIdx >= 0 && strings.Contains(p.Value, "integer divide by zero") && m.panics()[readIdx] {
			// a processor below the node read divides by a zero-valued input: the read
			// panics, the reader recovers (as the HTTP handlers do) and carries on
			h.lastRecovered = true
			h.res.Count("reads_recovered_from_processor_panic", 1)
		} else {
			h.violate("panic", p.Site, opKind, fmt.Sprintf("operation %q panicked: %s\n%s", desc, p.Value, p.Stack))
			h.dead = true
			return false
		}
	}
	inClass := opKind
	if readIdx >= 0 {
		inClass = "first read after a change"
		if idle {
			inClass = "idle re-read"
		}
	}
	dvs := make([]int, n)
	des := make([]int, n)
	for i, ln := range h.ln {
		dvs[i] = ln.node.Version() - verB[i]
		des[i] = ln.rec.execs - exB[i]
		if h.lastRecovered && des[i] == dvs[i]+1 {
			// Process() of this node was entered and left by the panic: not an execution
			des[i] = dvs[i]
			h.res.Count("executions_aborted_by_a_processor_panic", 1)
		}
		if des[i] > 0 && readIdx >= 0 {
			m.nodes[i].lastExec = m.clock
		}
	}
	if readIdx >= 0 {
		h.noteExecutions(hits(h.log))
	}
	// Lazy processors only: re-executions of a node whose cone holds a wired node
	// that no processor reads get their own signature (see unreadBelow).
	var unread []bool
	if h.lazy && readIdx >= 0 {
		unread = h.unreadBelow()
	}
	for i := range h.ln {
		dv, de := dvs[i], des[i]
		kn := kinds[m.nodes[i].kind].name
		if dv != de {
			h.violate("version-accounting", "nodes.Struct.Version", inClass,
				fmt.Sprintf("operation %q: n%d (%s) executed %d time(s) but its Version() changed by %d (%d -> %d)", desc, i, kn, de, dv, verB[i], verB[i]+dv))
		}
		if de > 1 {
			if unread != nil && unread[i] {
				h.violate("repeated-execution-unread-stale-input", "nodes.Struct.Outdated", inClass,
					fmt.Sprintf("operation %q: n%d (%s) executed %d times within one read; below it there is a node that no processor read (it stays Stale, so every visit re-executes n%d); execution order %v", desc, i, kn, de, i, hits(h.log)))
			} else {
				h.violate("repeated-execution-in-one-read", "nodes.Struct.Value", inClass,
					fmt.Sprintf("operation %q: n%d (%s) executed %d times within one read; execution order %v", desc, i, kn, de, hits(h.log)))
			}
		}
		if de == 0 {
			continue
		}
		h.res.Count("executions", int64(de))
		if m.failed(i) {
			h.res.Count("executions_ending_in_error", int64(de))
		}
		if readIdx < 0 {
			h.violate("execution-without-read", "nodes.Struct."+opKind, inClass,
				fmt.Sprintf("operation %q executed n%d (%s) although nothing was read", desc, i, kn))
			continue
		}
		if !may[i] {
			if unread != nil && unread[i] {
				h.violate("spurious-execution-unread-stale-input", "nodes.Struct.Outdated", inClass,
					fmt.Sprintf("operation %q (read of n%d): n%d (%s) executed again (version %d -> %d) although no parameter in its transitive inputs and no wiring on the way changed since its previous execution; below it there is a wired node that no processor read, which stays Stale and makes Outdated() true on every read; executions in this read: %v",
						desc, readIdx, i, kn, verB[i], verB[i]+dv, hits(h.log)))
			} else {
				h.violate("spurious-execution", "nodes.Struct.Outdated", inClass,
					fmt.Sprintf("operation %q (read of n%d): n%d (%s) executed again although no parameter in its transitive inputs and no wiring on the way changed since its previous execution (version %d -> %d); executions in this read: %v",
						desc, readIdx, i, kn, verB[i], verB[i]+dv, hits(h.log)))
			}
		}
		if !clos[i] {
			h.violate("execution-outside-read-cone", "nodes.Struct.Value", inClass,
				fmt.Sprintf("operation %q (read of n%d): n%d (%s) executed although n%d does not depend on it", desc, readIdx, i, kn, readIdx))
		}
	}
	if !idle || h.r.Intn(idleRereads) == 0 {
		h.checkStates(false)
	}
	return true
}

// unreadBelow (phase lazy-inputs only) marks every node whose cone contains a node
// x with a wired node input that x's processor does not read under the current
// parameter values. (For a node that is not allowed to execute, nothing in its
// cone changed since it last executed, so these are also the read sets of its
// last execution.) Such an input can stay Stale for ever, or be executed later by
// another consumer; either way polyform finds x outdated again although nothing
// changed, and with it everything above x.
func (h *hist) unreadBelow() []bool {
	m := h.m
	out := make([]bool, len(m.nodes))
	for i := range m.nodes { // sources have smaller indices
		reads := m.readNodes(i)
		for _, rf := range m.refs(i) {
			if rf.param {
				continue
			}
			if !reads[rf.idx] || out[rf.idx] {
				out[i] = true
			}
		}
	}
	return out
}

// checkStates compares State() with the mirror's staleness, for as many nodes as
// the per-step budget of dependency-path visits allows (rotating start).
func (h *hist) checkStates(initial bool) {
	m := h.m
	soft, hard := m.dirty()
	if h.lazy {
		// a lazy processor does not depend on what it does not read
		hard = m.dirtyRead()
	}
	costs := m.costs()
	budget := 3000
	n := len(m.nodes)
	h.rot++
	for q := 0; q < n && budget > 0; q++ {
		i := (q + h.rot) % n
		budget -= costs[i] + 1
		var st nodes.NodeState
		if p := run.Try(func() { st = h.ln[i].node.State() }); p != nil {
			h.violate("panic", p.Site, "State", fmt.Sprintf("State() of n%d panicked: %s\n%s", i, p.Value, p.Stack))
			h.dead = true
			return
		}
		h.res.Count("state_checks", 1)
		le := m.nodes[i].lastExec
		mustStale := le < 0 || hard[i] > le
		mustProcessed := le >= 0 && soft[i] <= le
		kn := kinds[m.nodes[i].kind].name
		if mustStale && st != nodes.Stale {
			why := "it has never executed"
			if le >= 0 {
				why = "a parameter in its transitive inputs or a wiring on the way changed since it last executed"
			}
			h.violate("state-not-stale", "nodes.Struct.State", "after "+opClass(lastOp(h.ops)),
				fmt.Sprintf("after %q: State() of n%d (%s) = %d but %s", lastOp(h.ops), i, kn, st, why))
		}
		if mustProcessed && st == nodes.Error && m.failed(i) {
			// an up-to-date node whose processor returned an error may say so
			h.res.Count("states_error_of_failed_node", 1)
		} else if mustProcessed && st != nodes.Processed && !h.lazy {
			h.violate("state-not-processed", "nodes.Struct.State", "after "+opClass(lastOp(h.ops)),
				fmt.Sprintf("after %q: State() of n%d (%s) = %d although nothing in its transitive inputs changed since it last executed", lastOp(h.ops), i, kn, st))
		}
		if st == nodes.Stale {
			h.res.Count("states_stale", 1)
		} else {
			h.res.Count("states_processed", 1)
		}
	}
	_ = initial
}

func lastOp(ops []string) string {
	if len(ops) == 0 {
		return "construction"
	}
	return ops[len(ops)-1]
}

func opClass(op string) string {
	if op == "" {
		return op
	}
	switch op[0] {
	case 'U':
		return "parameter update"
	case 'X':
		return "rejected parameter update"
	case 'W', 'A', 'R':
		return "re-wiring"
	case 'V':
		return "read"
	}
	return "construction"
}

func hits(log []int) []int {
	var out []int
	for _, e := range log {
		if e >= 0 {
			out = append(out, e)
		}
	}
	return out
}
