package c11

import (
	"fmt"
	"math"
	"sort"
	"strconv"
	"strings"

	"github.com/EliCDavis/polyform/generator/parameter"
	"github.com/EliCDavis/polyform/nodes"
)

// Float-, slice- and map-valued sources. The mirror compares floats by their BITS:
// 0 and -0 are different values (1/x, Atan2 and the bit pattern tell them apart),
// so a source that goes from one to the other has changed and everything above it
// that was read before must execute again. A slice or map that the caller edits in
// place and hands to Set() again has changed, too, although it is "equal to itself".

const nilF = -1.0 // what an unwired float input reads as

func bitsHex(f float64) string { return strconv.FormatUint(math.Float64bits(f), 16) }

func showF(f float64) string {
	return strconv.FormatFloat(f, 'g', -1, 64) + "(" + bitsHex(f) + ")"
}

func showFs(fs []float64) string {
	parts := make([]string, 0, len(fs))
	for _, f := range fs {
		parts = append(parts, strconv.FormatFloat(f, 'g', -1, 64))
	}
	return "[" + strings.Join(parts, " ") + "]"
}

func fFBits(tag int, x float64) string { return "fb" + strconv.Itoa(tag) + "<" + bitsHex(x) + ">" }
func fFInv(tag int, x float64) string  { return "fi" + strconv.Itoa(tag) + "<" + bitsHex(1/x) + ">" }
func fFAtan(tag int, a, b float64) string {
	return "fa" + strconv.Itoa(tag) + "<" + bitsHex(math.Atan2(a, b)) + "," + strconv.FormatBool(math.Signbit(a)) + ">"
}

func fFsFmt(tag int, wired bool, xs []float64) string {
	if !wired {
		return "fs" + strconv.Itoa(tag) + "<" + nilS + ">"
	}
	parts := make([]string, 0, len(xs))
	for _, x := range xs {
		parts = append(parts, bitsHex(x))
	}
	return "fs" + strconv.Itoa(tag) + "<" + strconv.Itoa(len(xs)) + ":" + strings.Join(parts, ",") + ">"
}

func fMFmt(tag int, wired bool, mp map[string]int) string {
	if !wired {
		return "mf" + strconv.Itoa(tag) + "<" + nilS + ">"
	}
	keys := make([]string, 0, len(mp))
	for k := range mp {
		keys = append(keys, k)
	}
	sort.Strings(keys)
	parts := make([]string, 0, len(keys))
	for _, k := range keys {
		parts = append(parts, k+"="+strconv.Itoa(mp[k]))
	}
	return "mf" + strconv.Itoa(tag) + "<" + strings.Join(parts, ",") + ">"
}

func vF(o nodes.NodeOutput[float64]) float64 {
	if o == nil {
		return nilF
	}
	return o.Value()
}

type FBits struct {
	In nodes.NodeOutput[float64]
	R  *rec
}

func (d FBits) Process() (string, error) { d.R.hit(); return fFBits(d.R.tag, vF(d.In)), nil }

type FInv struct {
	In nodes.NodeOutput[float64]
	R  *rec
}

func (d FInv) Process() (string, error) { d.R.hit(); return fFInv(d.R.tag, vF(d.In)), nil }

type FAtan struct {
	A nodes.NodeOutput[float64]
	B nodes.NodeOutput[float64]
	R *rec
}

func (d FAtan) Process() (string, error) {
	d.R.hit()
	return fFAtan(d.R.tag, vF(d.A), vF(d.B)), nil
}

type FsFmt struct {
	In nodes.NodeOutput[[]float64]
	R  *rec
}

func (d FsFmt) Process() (string, error) {
	d.R.hit()
	if d.In == nil {
		return fFsFmt(d.R.tag, false, nil), nil
	}
	return fFsFmt(d.R.tag, true, d.In.Value()), nil
}

type MFmt struct {
	In nodes.NodeOutput[map[string]int]
	R  *rec
}

func (d MFmt) Process() (string, error) {
	d.R.hit()
	if d.In == nil {
		return fMFmt(d.R.tag, false, nil), nil
	}
	return fMFmt(d.R.tag, true, d.In.Value()), nil
}

// ---- equality by bits ------------------------------------------------------------

func bitsEq(a, b []float64) bool {
	if len(a) != len(b) {
		return false
	}
	for i := range a {
		if math.Float64bits(a[i]) != math.Float64bits(b[i]) {
			return false
		}
	}
	return true
}

func mapEq(a, b map[string]int) bool {
	if len(a) != len(b) {
		return false
	}
	for k, v := range a {
		if w, ok := b[k]; !ok || w != v {
			return false
		}
	}
	return true
}

func cloneMap(m map[string]int) map[string]int {
	out := make(map[string]int, len(m))
	for k, v := range m {
		out[k] = v
	}
	return out
}

// ---- live sources -----------------------------------------------------------------

func fj(f float64) string { return strconv.FormatFloat(f, 'g', -1, 64) }

func fsJSON(fs []float64) string {
	parts := make([]string, 0, len(fs))
	for _, f := range fs {
		parts = append(parts, fj(f))
	}
	return "[" + strings.Join(parts, ",") + "]"
}

func buildFloaty(mp *mparam, pv bool, name string) *liveParam {
	lp := &liveParam{t: mp.t, pv: pv}
	switch {
	case mp.t == tF && pv:
		p := &parameter.Value[float64]{Name: name, DefaultValue: mp.f}
		lp.node = p
		lp.outF = func(alt bool) nodes.NodeOutput[float64] {
			if alt {
				return p
			}
			return p.Out()
		}
		lp.apply = p.ApplyMessage
		lp.setF = func(v float64) {
			if _, err := p.ApplyMessage([]byte(fj(v))); err != nil {
				panic(err)
			}
		}
		lp.diff = func(mp *mparam, alt bool) string {
			return readersDiff(p, alt, func(v float64) bool { return math.Float64bits(v) == math.Float64bits(mp.f) }, showF, showF(mp.f))
		}
	case mp.t == tF:
		p := nodes.Value(mp.f)
		lp.node = p
		lp.outF = func(alt bool) nodes.NodeOutput[float64] {
			if alt {
				return p
			}
			return p.Out()
		}
		lp.setF = func(v float64) { p.Set(v) }
	case mp.t == tFs && pv:
		p := &parameter.Value[[]float64]{Name: name, DefaultValue: append([]float64{}, mp.fs...)}
		lp.node = p
		lp.outFs = func(alt bool) nodes.NodeOutput[[]float64] {
			if alt {
				return p
			}
			return p.Out()
		}
		lp.apply = p.ApplyMessage
		lp.setFs = func(content []float64, inPlace bool) {
			if _, err := p.ApplyMessage([]byte(fsJSON(content))); err != nil {
				panic(err)
			}
		}
		lp.diff = func(mp *mparam, alt bool) string {
			return readersDiff(p, alt, func(v []float64) bool { return bitsEq(v, mp.fs) }, showFs, showFs(mp.fs))
		}
	case mp.t == tFs:
		cur := append([]float64{}, mp.fs...)
		p := nodes.Value(cur)
		lp.node = p
		lp.outFs = func(alt bool) nodes.NodeOutput[[]float64] {
			if alt {
				return p
			}
			return p.Out()
		}
		lp.setFs = func(content []float64, inPlace bool) {
			if inPlace && len(content) == len(cur) {
				copy(cur, content) // the caller edits its slice and pushes it again
			} else {
				cur = append([]float64{}, content...)
			}
			p.Set(cur)
		}
	default: // tM
		cur := cloneMap(mp.mp)
		p := nodes.Value(cur)
		lp.node = p
		lp.outM = func(alt bool) nodes.NodeOutput[map[string]int] {
			if alt {
				return p
			}
			return p.Out()
		}
		lp.setM = func(content map[string]int, inPlace bool) {
			if inPlace {
				for k := range cur {
					if _, ok := content[k]; !ok {
						delete(cur, k)
					}
				}
				for k, v := range content {
					cur[k] = v
				}
			} else {
				cur = cloneMap(content)
			}
			p.Set(cur)
		}
	}
	return lp
}

// ---- values -------------------------------------------------------------------------

// pickFloat: signed zeros half of the time, then denormals, the extremes, values
// that print alike, and (for sources that are not fed through JSON) Inf and NaN.
func (h *hist) pickFloat(finiteOnly bool) float64 {
	r := h.r
	switch x := r.Intn(20); {
	case x < 5:
		return 0
	case x < 10:
		return math.Copysign(0, -1)
	case x == 10:
		return math.SmallestNonzeroFloat64
	case x == 11:
		return -math.SmallestNonzeroFloat64
	case x == 12:
		return math.MaxFloat64
	case x == 13:
		return -math.MaxFloat64
	case x == 14:
		return 0.1 + 0.2
	case x == 15:
		return 0.3
	case x == 16 && !finiteOnly:
		return []float64{math.Inf(1), math.Inf(-1), math.NaN(), math.Float64frombits(0x7ff8000000000001 + uint64(r.Intn(5)))}[r.Intn(4)]
	case x == 17:
		return 1e-310 * float64(1+r.Intn(9)) // denormal
	}
	return float64(r.Intn(4001)-2000) / 8
}

// updateFloaty updates a float / slice / map source. same = push a bit-identical
// value again (fresh copy for slices and maps): allowed, not required, to count as a
// change. Everything else is a change of the source. mode: 0 any, 1 in place, 2 fresh.
func (h *hist) updateFloaty(k int, same bool, force *float64, mode int) {
	m, r := h.m, h.r
	p := &m.params[k]
	lp := h.lp[k]
	m.clock++
	p.changedSoft = m.clock
	var desc string
	var do func()
	switch p.t {
	case tF:
		v := p.f
		if !same {
			v = h.pickFloat(lp.pv)
			if force != nil {
				v = *force
			}
		}
		if math.Float64bits(v) != math.Float64bits(p.f) {
			p.changedHard = m.clock
			if v == p.f {
				h.res.Count("sets_of_a_float_that_is_equal_but_not_bit_identical", 1)
			}
		} else {
			h.res.Count("sets_of_a_bit_identical_float", 1)
		}
		p.f = v
		desc = fmt.Sprintf("U p%d=%s", k, showF(v))
		do = func() { lp.setF(v) }
	case tFs:
		inPlace := !lp.pv && len(p.fs) > 0 && !same && (mode == 1 || (mode == 0 && r.Intn(2) == 0))
		var nv []float64
		switch {
		case same:
			nv = append([]float64{}, p.fs...)
		case inPlace:
			nv = append([]float64{}, p.fs...)
			for e := 1 + r.Intn(2); e > 0; e-- {
				x := r.Intn(len(nv))
				nv[x] = h.pickFloat(lp.pv)
				if force != nil {
					nv[x] = *force
				}
			}
		default:
			nv = make([]float64, r.Intn(6))
			if force != nil && len(nv) == 0 {
				nv = make([]float64, 1+r.Intn(3))
			}
			for x := range nv {
				nv[x] = h.pickFloat(lp.pv)
			}
			if force != nil {
				nv[r.Intn(len(nv))] = *force
			}
		}
		if !bitsEq(nv, p.fs) {
			p.changedHard = m.clock
			eq := len(nv) == len(p.fs)
			for x := 0; eq && x < len(nv); x++ {
				eq = nv[x] == p.fs[x]
			}
			if eq {
				h.res.Count("sets_of_a_float_that_is_equal_but_not_bit_identical", 1)
			}
			if inPlace {
				h.res.Count("sets_of_a_slice_edited_in_place", 1)
			}
		}
		p.fs = nv
		desc = fmt.Sprintf("U p%d=%s", k, showFs(nv))
		if inPlace {
			desc += " (edited in place, Set(same slice))"
		}
		do = func() { lp.setFs(nv, inPlace) }
	default: // tM
		inPlace := !same && (mode == 1 || (mode == 0 && r.Intn(2) == 0))
		nv := cloneMap(p.mp)
		if !same {
			if !inPlace && r.Intn(2) == 0 {
				nv = map[string]int{}
			}
			for e := 1 + r.Intn(2); e > 0; e-- {
				key := fmt.Sprintf("k%d", r.Intn(5))
				if _, ok := nv[key]; ok && r.Intn(3) == 0 {
					delete(nv, key)
				} else {
					h.uniq++
					nv[key] = h.uniq
				}
			}
		}
		if !mapEq(nv, p.mp) {
			p.changedHard = m.clock
			if inPlace {
				h.res.Count("sets_of_a_map_edited_in_place", 1)
			}
		}
		p.mp = nv
		desc = fmt.Sprintf("U p%d=%s", k, fMFmt(0, true, nv))
		if inPlace {
			desc += " (edited in place, Set(same map))"
		}
		do = func() { lp.setM(nv, inPlace) }
	}
	h.step(desc, -1, false, "update", do)
	p.applied = true
	if !h.dead {
		h.checkParam(k, false)
	}
	h.res.Count("ops_update_"+p.t.String(), 1)
	if lp.pv {
		h.res.Count("ops_update_parameter.Value", 1)
	} else {
		h.res.Count("ops_update_nodes.ValueNode", 1)
	}
	if same {
		h.res.Count("ops_update_same_value", 1)
	}
}

// floatScenario: a float / slice / map source below a node that was read is moved
// between values that compare equal but are not the same (0 <-> -0), or is edited
// in place and pushed again, and the node above is read after every move.
func (h *hist) floatScenario() bool {
	r, m := h.r, h.m
	type cand struct{ k, c int }
	var cands []cand
	for c := range m.nodes {
		for _, rf := range m.nodes[c].named {
			if rf != nil && rf.param {
				if t := m.params[rf.idx].t; t == tF || t == tFs || t == tM {
					cands = append(cands, cand{rf.idx, c})
				}
			}
		}
	}
	if len(cands) == 0 {
		return false
	}
	x := cands[r.Intn(len(cands))]
	top := x.c
	var above []int
	for j := x.c + 1; j < len(m.nodes); j++ {
		if m.closure(j)[x.c] {
			above = append(above, j)
		}
	}
	if len(above) > 0 && r.Intn(3) != 0 {
		top = above[r.Intn(len(above))]
	}
	h.res.Count("float_scenarios", 1)
	pz, nz := 0.0, math.Copysign(0, -1)
	zeros := []*float64{&pz, &nz}
	if r.Intn(2) == 0 {
		zeros[0], zeros[1] = zeros[1], zeros[0]
	}
	p := &m.params[x.k]
	switch p.t {
	case tF:
		h.updateFloaty(x.k, false, zeros[0], 0)
		for round := 0; round < 2+r.Intn(2) && !h.dead; round++ {
			h.read(top)
			if h.dead {
				break
			}
			h.updateFloaty(x.k, false, zeros[(round+1)%2], 0)
			h.res.Count("zero_sign_flips_below_a_read_node", 1)
		}
	case tFs:
		h.updateFloaty(x.k, false, zeros[0], 2) // a fresh slice that holds a zero
		for round := 0; round < 2+r.Intn(2) && !h.dead; round++ {
			h.read(top)
			if h.dead {
				break
			}
			// flip the sign of every zero in it: in place where the source allows it
			nv := append([]float64{}, p.fs...)
			flipped := false
			for e := range nv {
				if nv[e] == 0 {
					nv[e] = math.Copysign(0, -1)
					if math.Signbit(p.fs[e]) {
						nv[e] = 0
					}
					flipped = true
				}
			}
			if !flipped {
				h.updateFloaty(x.k, false, zeros[round%2], 1)
				continue
			}
			inPlace := !h.lp[x.k].pv && r.Intn(3) != 0
			m.clock++
			p.changedSoft, p.changedHard = m.clock, m.clock
			p.fs = nv
			desc := fmt.Sprintf("U p%d=%s (signs of the zeros flipped", x.k, showFs(nv))
			if inPlace {
				desc += ", in place, Set(same slice))"
				h.res.Count("sets_of_a_slice_edited_in_place", 1)
			} else {
				desc += ", fresh slice)"
			}
			lp := h.lp[x.k]
			h.step(desc, -1, false, "update", func() { lp.setFs(nv, inPlace) })
			h.res.Count("sets_of_a_float_that_is_equal_but_not_bit_identical", 1)
			h.res.Count("zero_sign_flips_below_a_read_node", 1)
			if !h.dead {
				h.checkParam(x.k, false)
			}
		}
	default:
		for round := 0; round < 2+r.Intn(2) && !h.dead; round++ {
			h.read(top)
			if h.dead {
				break
			}
			h.updateFloaty(x.k, false, nil, 1)
			h.res.Count("in_place_map_edits_below_a_read_node", 1)
		}
	}
	if !h.dead {
		h.read(top)
	}
	return true
}
