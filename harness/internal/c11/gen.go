package c11

import (
	"fmt"
	"math/rand"
)

// Generation of the initial graph (as model data). Sources always have a smaller
// index than their consumers, so every graph is a DAG by construction.

var shapes = []string{"chain", "diamond", "fan-in", "shared", "random"}

const costCap = 400 // bound on the number of dependency paths below any node (see model.costs)

type genr struct {
	r        *rand.Rand
	m        *model
	lazy     bool
	adapters []int // nodes that turn a composite-valued source into a string
}

// random composite values: quarters (exact in binary and in decimal), small
// slices and maps, so that a new value practically never equals the old one
func randVecs(r *rand.Rand, n int) []vec3 {
	out := make([]vec3, 0, n)
	for k := 0; k < n; k++ {
		out = append(out, vec3{float64(r.Intn(8000)-4000) / 4, float64(r.Intn(8000)-4000) / 4, float64(r.Intn(8000)-4000) / 4})
	}
	return out
}

func randRec(r *rand.Rand) Rec {
	rc := Rec{A: r.Intn(1_000_000) - 500_000, B: fmt.Sprintf("b%d\"é", r.Intn(1_000_000)), D: RecD{X: float64(r.Intn(8000)-4000) / 4, Y: float64(r.Intn(8000)) / 4}}
	for k, n := 0, r.Intn(6); k < n; k++ {
		rc.C = append(rc.C, r.Intn(1_000_000))
	}
	for k, n := 0, r.Intn(4); k < n; k++ {
		if rc.M == nil {
			rc.M = map[string]int{}
		}
		rc.M[fmt.Sprintf("k%d", r.Intn(6))] = r.Intn(1_000_000)
	}
	return rc
}

func (g *genr) kindsAccepting(t typ, wantArr bool) []int {
	pool := eagerKinds
	if g.lazy {
		pool = append(append([]int{}, eagerKinds...), kSel, kFirst, kUntil, kSel, kFirst, kUntil, kSel, kFirst, kUntil)
	}
	var out []int
	for _, k := range pool {
		kd := kinds[k]
		if wantArr {
			if kd.arr != nil && kd.arr.t == t {
				out = append(out, k)
			}
			continue
		}
		ok := kd.arr != nil && kd.arr.t == t
		for _, in := range kd.named {
			if in.t == t {
				ok = true
			}
		}
		if ok {
			out = append(out, k)
		}
	}
	return out
}

// sources of type t usable by node i
func (g *genr) sources(i int, t typ) (ps, ns []ref) {
	for k, p := range g.m.params {
		if p.t == t {
			ps = append(ps, ref{param: true, idx: k})
		}
	}
	for j := 0; j < i && j < len(g.m.nodes); j++ {
		if kinds[g.m.nodes[j].kind].out == t {
			ns = append(ns, ref{idx: j})
		}
	}
	return
}

func (g *genr) pickSource(i int, t typ, nodeBias float64) *ref {
	ps, ns := g.sources(i, t)
	if len(ns) > 0 && (len(ps) == 0 || g.r.Float64() < nodeBias) {
		x := ns[g.r.Intn(len(ns))]
		return &x
	}
	if len(ps) > 0 {
		x := ps[g.r.Intn(len(ps))]
		return &x
	}
	return nil
}

// addNode appends a node that consumes the preferred sources (where the types
// allow), fills its other inputs at random and gives its array input about wantArr entries.
func (g *genr) addNode(pref []int, wantArr int, nilProb float64) int {
	i := len(g.m.nodes)
	if len(pref) == 0 && len(g.adapters) > 0 && g.r.Intn(2) == 0 {
		// a leaf of the shape: let it consume a composite-valued source
		pref = []int{g.adapters[g.r.Intn(len(g.adapters))]}
	}
	t := tS
	if len(pref) > 0 {
		t = kinds[g.m.nodes[pref[0]].kind].out
	} else if g.r.Intn(4) == 0 {
		t = tI
	}
	cands := g.kindsAccepting(t, wantArr > 0 && g.r.Intn(4) != 0)
	if len(cands) == 0 {
		cands = g.kindsAccepting(t, false)
	}
	k := cands[g.r.Intn(len(cands))]
	kd := kinds[k]
	n := mnode{kind: k, named: make([]*ref, len(kd.named)), lastExec: -1}
	// place preferred sources
	rest := append([]int{}, pref...)
	for j, in := range kd.named {
		for x, p := range rest {
			if kinds[g.m.nodes[p].kind].out == in.t {
				n.named[j] = &ref{idx: p}
				rest = append(rest[:x], rest[x+1:]...)
				break
			}
		}
	}
	if kd.arr != nil {
		for _, p := range rest {
			if kinds[g.m.nodes[p].kind].out == kd.arr.t {
				n.arr = append(n.arr, ref{idx: p})
			}
		}
	}
	g.m.nodes = append(g.m.nodes, n)
	nn := &g.m.nodes[i]
	for j, in := range kd.named {
		if nn.named[j] == nil && g.r.Float64() >= nilProb {
			nn.named[j] = g.pickSource(i, in.t, 0.4)
		}
	}
	if kd.arr != nil {
		for len(nn.arr) < wantArr {
			s := g.pickSource(i, kd.arr.t, 0.5)
			if s == nil {
				break
			}
			nn.arr = append(nn.arr, *s)
		}
		// array entries in random order
		g.r.Shuffle(len(nn.arr), func(a, b int) { nn.arr[a], nn.arr[b] = nn.arr[b], nn.arr[a] })
	}
	// respect the path budget
	for g.m.costs()[i] > costCap {
		if len(nn.arr) > 0 {
			nn.arr = nn.arr[:len(nn.arr)-1]
			continue
		}
		dropped := false
		for j := len(nn.named) - 1; j >= 0; j-- {
			if nn.named[j] != nil && !nn.named[j].param {
				nn.named[j] = nil
				dropped = true
				break
			}
		}
		if !dropped {
			break
		}
	}
	return i
}

func (g *genr) arrLen() int {
	switch g.r.Intn(5) {
	case 0:
		return 0
	case 1:
		return 1 + g.r.Intn(3)
	case 2:
		return 4 + g.r.Intn(6)
	default:
		return 10 + g.r.Intn(3) // ≥ 10: "Values.10" sorts before "Values.2"
	}
}

// nc = number of composite-valued sources (parameter.Vector3Array / parameter.Value[Rec])
// on top of the np scalar ones; each gets an adapter node at the bottom of the graph.
func genGraph(r *rand.Rand, shape string, nn, np, nc int, lazy bool) *model {
	m := &model{}
	g := &genr{r: r, m: m, lazy: lazy}
	for k := 0; k < np; k++ {
		p := mparam{t: tS}
		if k == 1 || (k > 1 && r.Intn(3) == 0) {
			p.t = tI
		}
		p.s = fmt.Sprintf("d%d", k)
		p.i = 1000 + k
		m.params = append(m.params, p)
	}
	for k := 0; k < nc; k++ {
		var p mparam
		var kd int
		switch r.Intn(8) {
		case 0:
			p, kd = mparam{t: tV, v: randVecs(r, r.Intn(5))}, kVFmt
		case 1:
			p, kd = mparam{t: tR, rc: randRec(r)}, kRFmt
		case 2, 3, 4:
			p, kd = mparam{t: tF, f: float64(r.Intn(9)) - 4}, []int{kFBits, kFInv, kFAtan}[r.Intn(3)]
		case 5, 6:
			p, kd = mparam{t: tFs, fs: make([]float64, r.Intn(4))}, kFsFmt
		default:
			p, kd = mparam{t: tM, mp: map[string]int{"k0": r.Intn(9)}}, kMFmt
		}
		m.params = append(m.params, p)
		n := mnode{kind: kd, named: make([]*ref, len(kinds[kd].named)), lastExec: -1}
		n.named[0] = &ref{param: true, idx: len(m.params) - 1}
		if kd == kFAtan {
			// second operand: another float source if there is one (else unwired = -1)
			for q := range m.params[:len(m.params)-1] {
				if m.params[q].t == tF && r.Intn(2) == 0 {
					n.named[1] = &ref{param: true, idx: q}
				}
			}
		}
		m.nodes = append(m.nodes, n)
		g.adapters = append(g.adapters, len(m.nodes)-1)
	}
	switch shape {
	case "chain":
		prev := g.addNode(nil, 0, 0.2)
		for len(m.nodes) < nn {
			prev = g.addNode([]int{prev}, 0, 0.4)
		}
	case "diamond":
		base := g.addNode(nil, 0, 0.2)
		for len(m.nodes)+3 <= nn || len(m.nodes) < 4 {
			a := g.addNode([]int{base}, 0, 0.5)
			b := g.addNode([]int{base}, 0, 0.5)
			// bring both arms to one type (bounded; a mismatch just means the
			// join consumes one arm only)
			for try := 0; try < 6 && kinds[m.nodes[a].kind].out != kinds[m.nodes[b].kind].out; try++ {
				if kinds[m.nodes[a].kind].out == tI {
					a = g.addNode([]int{a}, 0, 0.5)
				} else {
					b = g.addNode([]int{b}, 0, 0.5)
				}
			}
			base = g.addNode([]int{a, b}, 0, 0.7)
		}
	case "fan-in":
		leaves := 1 + r.Intn(imax(1, nn-2))
		if leaves > nn-1 {
			leaves = nn - 1
		}
		for len(m.nodes) < leaves {
			g.addNode(nil, 0, 0.1)
		}
		for len(m.nodes) < nn {
			// fan-in over a random subset of what exists
			var pref []int
			want := g.arrLen()
			t := tS
			if r.Intn(4) == 0 {
				t = tI
			}
			for j := 0; j < len(m.nodes) && len(pref) < want; j++ {
				if kinds[m.nodes[j].kind].out == t && r.Intn(2) == 0 {
					pref = append(pref, j)
				}
			}
			g.addNode(pref, want, 0.3)
		}
	case "shared":
		sub := 2 + r.Intn(3)
		top := g.addNode(nil, 0, 0.1)
		for len(m.nodes) < sub {
			top = g.addNode([]int{top}, r.Intn(3), 0.3)
		}
		var consumers []int
		for len(m.nodes) < nn-1 || len(consumers) < 2 {
			pref := []int{top}
			if r.Intn(3) == 0 {
				pref = append(pref, r.Intn(sub))
			}
			consumers = append(consumers, g.addNode(pref, 0, 0.5))
		}
		var same []int
		for _, c := range consumers {
			if kinds[m.nodes[c].kind].out == kinds[m.nodes[consumers[0]].kind].out {
				same = append(same, c)
			}
		}
		g.addNode(same, len(same), 0.5)
	default: // random
		for len(m.nodes) < nn {
			var pref []int
			if len(m.nodes) > 0 && r.Intn(3) != 0 {
				pref = append(pref, r.Intn(len(m.nodes)))
			}
			want := 0
			if r.Intn(3) == 0 {
				want = g.arrLen()
			}
			g.addNode(pref, want, 0.4)
		}
	}
	return m
}

func imax(a, b int) int {
	if a > b {
		return a
	}
	return b
}
