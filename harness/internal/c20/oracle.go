package c20

import (
	"fmt"
	"math"
	"math/big"
	"sort"
)

// band: (triangle, point) pairs whose in-circle determinant is within this
// fraction of its own scale (the permanent) are "don't care" — general position.
const band = 1e-9

// resolution: a point set is only used when every triple and every quadruple is
// further from collinear / co-circular than this fraction of the predicate's own
// scale (the permanent of the determinant, maximised over the choice of origin),
// i.e. far above what a double-precision evaluation of the predicates (~1e-15 of
// the permanent) can confuse. A cheap conservative bound of the permanent is
// tried first; only candidates that fail it are evaluated precisely.
const resolution = 1e-13

// orientPerm is |detl|+|detr| of the orientation determinant with o as origin.
func orientPerm(o, a, b pt) float64 {
	return math.Abs((a.x-o.x)*(b.y-o.y)) + math.Abs((a.y-o.y)*(b.x-o.x))
}

// incirclePerm is the permanent of the in-circle determinant of a,b,c with o as origin.
func incirclePerm(o, a, b, c pt) float64 {
	ax, ay, bx, by, cx, cy := a.x-o.x, a.y-o.y, b.x-o.x, b.y-o.y, c.x-o.x, c.y-o.y
	return (math.Abs(bx*cy)+math.Abs(cx*by))*(ax*ax+ay*ay) + (math.Abs(cx*ay)+math.Abs(ax*cy))*(bx*bx+by*by) + (math.Abs(ax*by)+math.Abs(bx*ay))*(cx*cx+cy*cy)
}

// certify reports whether P is in general position at float resolution.
func certify(P []pt) (bool, string) {
	n := len(P)
	for i := 0; i < n; i++ {
		a := P[i]
		for j := i + 1; j < n; j++ {
			bx, by := P[j].x-a.x, P[j].y-a.y
			if bx == 0 && by == 0 {
				return false, fmt.Sprintf("duplicate points %d,%d", i, j)
			}
			bl := bx*bx + by*by
			for k := j + 1; k < n; k++ {
				cx, cy := P[k].x-a.x, P[k].y-a.y
				cl := cx*cx + cy*cy
				m3 := bx*cy - by*cx
				// extents of the triple
				minx, maxx := math.Min(0, math.Min(bx, cx)), math.Max(0, math.Max(bx, cx))
				miny, maxy := math.Min(0, math.Min(by, cy)), math.Max(0, math.Max(by, cy))
				if math.Abs(m3) <= resolution*2*(maxx-minx)*(maxy-miny) {
					pm := math.Max(orientPerm(P[i], P[j], P[k]), math.Max(orientPerm(P[j], P[k], P[i]), orientPerm(P[k], P[i], P[j])))
					if math.Abs(m3) <= resolution*pm {
						return false, fmt.Sprintf("near-collinear triple %d,%d,%d", i, j, k)
					}
				}
				m1 := by*cl - bl*cy
				m2 := bx*cl - bl*cx
				for l := k + 1; l < n; l++ {
					dx, dy := P[l].x-a.x, P[l].y-a.y
					det := dx*m1 - dy*m2 + (dx*dx+dy*dy)*m3
					ex := math.Max(maxx, dx) - math.Min(minx, dx)
					ey := math.Max(maxy, dy) - math.Min(miny, dy)
					d := math.Max(ex, ey)
					d2 := d * d
					if math.Abs(det) <= resolution*12*d2*d2 {
						A, B, C, D := P[i], P[j], P[k], P[l]
						pm := math.Max(math.Max(incirclePerm(A, B, C, D), incirclePerm(B, A, C, D)), math.Max(incirclePerm(C, A, B, D), incirclePerm(D, A, B, C)))
						// the determinant itself, evaluated with the origin that gives the smallest permanent error, is not
						// needed: det (origin A) carries an error of ~1e-15*perm(A) <= 1e-15*pm, two orders below the threshold
						if math.Abs(det) <= resolution*pm {
							return false, fmt.Sprintf("near-co-circular quadruple %d,%d,%d,%d", i, j, k, l)
						}
					}
				}
			}
		}
	}
	return true, ""
}

type tri [3]int

func (t tri) key() tri {
	s := []int{t[0], t[1], t[2]}
	sort.Ints(s)
	return tri{s[0], s[1], s[2]}
}

// delaunay is the brute-force reference: every triple whose circumcircle has no
// other input point strictly inside. robust = no other point within the band.
type dtTri struct {
	t        tri
	robust   bool
	interior bool // circumcircle inside the bounding box grown by half its larger side
}

func bruteDelaunay(P []pt) map[tri]*dtTri {
	n := len(P)
	out := map[tri]*dtTri{}
	minx, maxx, miny, maxy := math.Inf(1), math.Inf(-1), math.Inf(1), math.Inf(-1)
	for _, p := range P {
		minx, maxx = math.Min(minx, p.x), math.Max(maxx, p.x)
		miny, maxy = math.Min(miny, p.y), math.Max(maxy, p.y)
	}
	grow := 0.49 * math.Max(maxx-minx, maxy-miny)
	for i := 0; i < n; i++ {
		for j := i + 1; j < n; j++ {
			for k := j + 1; k < n; k++ {
				o := orient(P[i], P[j], P[k])
				if o == 0 {
					continue
				}
				empty, robust := true, true
				for l := 0; l < n && empty; l++ {
					if l == i || l == j || l == k {
						continue
					}
					side, rel := inCircum(P[i], P[j], P[k], P[l], o)
					if side > 0 && rel > band {
						empty = false
					} else if rel <= band {
						robust = false // a tie within the band: not required, not forbidden
					}
				}
				if !empty {
					continue
				}
				d := &dtTri{t: tri{i, j, k}, robust: robust}
				// circumcircle in coordinates relative to P[i]
				bx, by := P[j].x-P[i].x, P[j].y-P[i].y
				cx, cy := P[k].x-P[i].x, P[k].y-P[i].y
				den := 2 * (bx*cy - by*cx)
				ux := (cy*(bx*bx+by*by) - by*(cx*cx+cy*cy)) / den
				uy := (bx*(cx*cx+cy*cy) - cx*(bx*bx+by*by)) / den
				R := math.Hypot(ux, uy) * (1 + 1e-9)
				ccx, ccy := P[i].x+ux, P[i].y+uy
				d.interior = ccx-R >= minx-grow && ccx+R <= maxx+grow && ccy-R >= miny-grow && ccy+R <= maxy+grow
				out[d.t] = d
			}
		}
	}
	return out
}

// finding is one refutation found in an output.
type finding struct {
	class, detail string
	witness       map[string]any
}

type outputStats struct {
	triangles, incirclePairs, overlapPairs int
	bandInside                             int // pairs strictly inside but within the don't-care band
	requiredPresent, required              int
	dtMissing                              int // Delaunay triangles (any) absent from the output
	notInDT                                int
	covered                                bool // sum of triangle areas == hull area (exactly)
	winding                                int
}

// triOverlap: do the interiors of two non-degenerate triangles intersect?
// Exact separating-axis test: they are disjoint iff some edge line of one has
// the other triangle entirely on its outer (closed) side.
func triOverlap(P []pt, a, b tri, oa, ob int) bool {
	sep := func(t tri, ot int, u tri) bool {
		for e := 0; e < 3; e++ {
			p, q := P[t[e]], P[t[(e+1)%3]]
			out := true
			for _, v := range u {
				if v == t[e] || v == t[(e+1)%3] {
					continue // on the line
				}
				if orient(p, q, P[v])*ot > 0 { // strictly on the inner side
					out = false
					break
				}
			}
			if out {
				return true
			}
		}
		return false
	}
	return !sep(a, oa, b) && !sep(b, ob, a)
}

// checkOutput judges one triangulation (indices into P) against the property.
// dt is the brute-force Delaunay set of P (keys sorted).
func checkOutput(P []pt, idx []int, dt map[tri]*dtTri, hull2 *big.Rat) (fs []finding, st outputStats) {
	n := len(P)
	add := func(class, detail string, w map[string]any) {
		for _, f := range fs {
			if f.class == class {
				return
			}
		}
		fs = append(fs, finding{class, detail, w})
	}
	coords := func(is ...int) [][2]float64 {
		o := make([][2]float64, len(is))
		for k, i := range is {
			o[k] = [2]float64{P[i].x, P[i].y}
		}
		return o
	}
	if len(idx)%3 != 0 {
		add("index-count", fmt.Sprintf("%d indices is not a multiple of 3", len(idx)), nil)
		return
	}
	for _, i := range idx {
		if i < 0 || i >= n {
			add("foreign-vertex", fmt.Sprintf("index %d refers to no input point (n=%d)", i, n), nil)
			return
		}
	}
	m := len(idx) / 3
	st.triangles = m
	T := make([]tri, m)
	O := make([]int, m)
	present := map[tri]int{}
	area2 := new(big.Rat)
	pos, neg := 0, 0
	for t := 0; t < m; t++ {
		T[t] = tri{idx[3*t], idx[3*t+1], idx[3*t+2]}
		a, b, c := P[T[t][0]], P[T[t][1]], P[T[t][2]]
		if T[t][0] == T[t][1] || T[t][1] == T[t][2] || T[t][0] == T[t][2] {
			add("zero-area-triangle", fmt.Sprintf("triangle %d = %v repeats a vertex", t, T[t]), map[string]any{"triangle": T[t]})
			continue
		}
		O[t] = orient(a, b, c)
		switch {
		case O[t] > 0:
			pos++
		case O[t] < 0:
			neg++
		default:
			add("zero-area-triangle", fmt.Sprintf("triangle %d = %v has exactly zero area: %v", t, T[t], coords(T[t][:]...)), map[string]any{"triangle": T[t], "points": coords(T[t][:]...)})
		}
		ar := orient2Exact(a, b, c)
		area2.Add(area2, ar.Abs(ar))
		present[T[t].key()]++
	}
	if pos > 0 && neg > 0 {
		// name one of each
		var tp, tn tri
		for t := range T {
			if O[t] > 0 {
				tp = T[t]
			} else if O[t] < 0 {
				tn = T[t]
			}
		}
		add("mixed-winding", fmt.Sprintf("%d counter-clockwise and %d clockwise triangles in one output, e.g. %v and %v", pos, neg, tp, tn),
			map[string]any{"ccw": tp, "cw": tn, "ccw_points": coords(tp[:]...), "cw_points": coords(tn[:]...)})
	}
	if pos > 0 {
		st.winding = 1
	} else if neg > 0 {
		st.winding = -1
	}
	for k, c := range present {
		if c > 1 {
			add("overlap", fmt.Sprintf("triangle %v occurs %d times", k, c), map[string]any{"triangle": k})
		}
	}
	// empty circumcircles (the scan stops at the first refutation: one is enough, and a broken
	// triangulation can be large)
	incircleRefuted := false
	for t := 0; t < m && !incircleRefuted; t++ {
		if O[t] == 0 {
			continue
		}
		a, b, c := P[T[t][0]], P[T[t][1]], P[T[t][2]]
		for q := 0; q < n; q++ {
			if q == T[t][0] || q == T[t][1] || q == T[t][2] {
				continue
			}
			st.incirclePairs++
			side, rel := inCircum(a, b, c, P[q], O[t])
			if side > 0 {
				if rel <= band {
					st.bandInside++
					continue
				}
				add("circumcircle-not-empty", fmt.Sprintf("input point %d %v lies strictly inside the circumcircle of output triangle %v %v (|det|/scale = %.3g, band %.0e)", q, coords(q)[0], T[t], coords(T[t][:]...), rel, band),
					map[string]any{"triangle": T[t], "triangle_points": coords(T[t][:]...), "point": q, "point_xy": coords(q)[0], "relative_depth": rel})
				incircleRefuted = true
				break
			}
		}
		if _, ok := dt[T[t].key()]; !ok {
			st.notInDT++
		}
	}
	// total area against the hull, exactly
	switch area2.Cmp(hull2) {
	case 1:
		af, _ := area2.Float64()
		hf, _ := hull2.Float64()
		add("overlap", fmt.Sprintf("the triangle areas sum to %.17g, more than the convex hull's %.17g (ratio-1 = %.3g)", af/2, hf/2, af/hf-1), nil)
	case 0:
		st.covered = true
	}
	// pairwise overlap (bounding boxes first; comparisons of input coordinates are exact)
	type box struct{ x0, x1, y0, y1 float64 }
	B := make([]box, m)
	for t := range T {
		a, b, c := P[T[t][0]], P[T[t][1]], P[T[t][2]]
		B[t] = box{math.Min(a.x, math.Min(b.x, c.x)), math.Max(a.x, math.Max(b.x, c.x)), math.Min(a.y, math.Min(b.y, c.y)), math.Max(a.y, math.Max(b.y, c.y))}
	}
	overlapRefuted := false
	for _, f := range fs {
		if f.class == "overlap" {
			overlapRefuted = true
		}
	}
	for s := 0; s < m && !overlapRefuted; s++ {
		if O[s] == 0 {
			continue
		}
		for t := s + 1; t < m; t++ {
			if O[t] == 0 || B[s].x1 <= B[t].x0 || B[t].x1 <= B[s].x0 || B[s].y1 <= B[t].y0 || B[t].y1 <= B[s].y0 {
				continue
			}
			st.overlapPairs++
			if triOverlap(P, T[s], T[t], O[s], O[t]) {
				add("overlap", fmt.Sprintf("the interiors of output triangles %v %v and %v %v intersect", T[s], coords(T[s][:]...), T[t], coords(T[t][:]...)),
					map[string]any{"a": T[s], "b": T[t], "a_points": coords(T[s][:]...), "b_points": coords(T[t][:]...)})
				overlapRefuted = true
				break
			}
		}
	}
	// non-vacuity: interior Delaunay triangles must be there
	for k, d := range dt {
		_, has := present[k]
		if !has {
			st.dtMissing++
		}
		if d.robust && d.interior {
			st.required++
			if has {
				st.requiredPresent++
			} else {
				add("delaunay-triangle-missing", fmt.Sprintf("the Delaunay triangle %v %v (circumcircle well inside the points' bounding box, no other point within the band of it) is not in the output of %d triangles", k, coords(k[:]...), m),
					map[string]any{"triangle": k, "triangle_points": coords(k[:]...), "output_triangles": m})
			}
		}
	}
	return
}
