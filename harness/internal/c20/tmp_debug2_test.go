package c20

import "strconv"

func appendG(b []byte, x float64) []byte { return strconv.AppendFloat(b, x, 'g', 4, 64) }
