// Package c20 monitors property C20: triangulation.BowyerWatson returns a
// consistently wound Delaunay triangulation of its input.
//
// Oracle (exact arithmetic on the float inputs, see pred.go): vertex i is input
// point i and nothing else is referenced; all triangles have one orientation and
// non-zero area; no two triangles overlap (exact separating-line test per pair,
// plus sum of areas <= hull area, both exact); no input point strictly inside a
// triangle's circumcircle (pairs within 1e-9 of co-circular, relative to the
// determinant's own scale, are "don't care"); non-vacuity: every triangle of the
// brute-force Delaunay triangulation whose circumcircle lies within the points'
// bounding box grown by half its larger side must be present.
package c20

import (
	"fmt"
	"io"
	"log"

	"github.com/EliCDavis/polyform/modeling"
	"github.com/EliCDavis/polyform/modeling/triangulation"
	"github.com/EliCDavis/vector/vector2"
	"polyverif/internal/run"
)

func init() {
	// fillHole logs a boolean for every triangle it re-winds; keep the workers' stderr clean
	log.SetOutput(io.Discard)
}

func tiered(quick, thorough int) func(string) int {
	return func(t string) int {
		if t == "thorough" {
			return thorough
		}
		return quick
	}
}

func Spec() *run.Spec {
	return &run.Spec{
		ID: "C20", Level: "exploration",
		Rule: "Since round 7 the sequences phase interleaves calls on degenerate inputs (fewer than 3 points, collinear, all equal, duplicates, NaN / infinite coordinates, exactly co-circular, exact grids, coordinates near the ends of the float range; never judged) with the judged calls (plan letter D). " +
			"sets: one case = one generated point set (class and extent decade cycle with the case index: uniform, clustered, jittered grid, jittered circles with centre, " +
			"near-collinear hull, mixed, two-scale, gaussian; 3-120 points; larger side 1e-3..1e6; aspect ratio 1..1000 in either axis; offset 0..1e6; optional rotation), triangulated twice: as generated and with the " +
			"points permuted. orders: one case = one set of 4-6 points triangulated in every insertion order (24/120/720). A set is used only if every triple/quadruple is further than 1e-13 (relative to the determinant's permanent) " +
			"from collinear/co-circular (general position at float resolution; otherwise redrawn with a larger jitter). Non-trivial = at least 4 points, both outputs non-empty and at least one " +
			"interior Delaunay triangle was required and found. Signature = class x size bucket x extent decade x aspect/axis x offset decade x rotation.",
		Assumptions: []string{
			"input points are distinct and in general position: no triple / quadruple whose orientation / in-circle determinant is within 1e-13 of its permanent (largest over the choice of origin), i.e. two orders above double-precision evaluation error",
			"(triangle, point) pairs whose in-circle determinant is within 1e-9 of its permanent are don't-care for the empty-circumcircle clause and for the required-triangle clause",
			"completeness is demanded only for Delaunay triangles whose circumcircle lies inside the bounding box grown by 0.49 x its larger side on every side (hull handling of the finite enclosing triangle is not prescribed); missing hull triangles are counted as observations",
			"the 2-D point (x,y) is read back from the mesh position (x,0,y)",
		},
		MinNontrivial: map[string]int{"quick": 300, "thorough": 1500},
		MinObserved: map[string]int64{
			"required_triangles_present": 5000,
			"classes":                    8,
			"extent_decades":             10,
			"aspect_ratios":              5,
			"offset_decades":             6,
			"insertion_orders":           5000,
			"oracle_selftest_passed":     1,
			"earlier_results_reread":     20000,
			"earlier_results_rejudged":   2000,
			"plain_calls_right_after_a_cutting_constrained_call": 300,
			"large_sets":                       6,
			"large_required_triangles_present": 100,
		},
		Phases: []run.Phase{
			{Name: "oracle-selftest", Cases: func(string) int { return 1 }, Run: selfTest, Batch: 1},
			{Name: "sets", Cases: tiered(2000, 40000), Run: setCase, Batch: 20, CPUBudgetS: 60},
			{Name: "orders", Cases: tiered(200, 3000), Run: orderCase, Batch: 10, CPUBudgetS: 60},
			{Name: "sequences", Cases: tiered(400, 6000), Run: sequenceCase, Batch: 20, CPUBudgetS: 60},
			{Name: "large", Cases: tiered(6, 60), Run: largeCase, Batch: 1, CPUBudgetS: 600},
		},
	}
}

// triangulate runs polyform on P and returns the index list after checking that
// vertex i of the result is input point i.
func triangulate(res *run.Result, P []pt, spare bool, inClass string) ([]int, bool) {
	_, idx, ok := triangulateKeep(res, P, spare, inClass)
	return idx, ok
}

// triangulateKeep also hands back the mesh itself so that the caller can keep it alive.
func triangulateKeep(res *run.Result, P []pt, spare bool, inClass string) (modeling.Mesh, []int, bool) {
	in := make([]vector2.Float64, len(P), len(P)+map[bool]int{true: 8, false: 0}[spare])
	for i, p := range P {
		in[i] = vector2.New(p.x, p.y)
	}
	var m modeling.Mesh
	if p := run.Try(func() { m = triangulation.BowyerWatson(in) }); p != nil {
		res.Violate("runtime-panic", "triangulation.BowyerWatson", inClass, p.Value+" at "+p.Site, map[string]any{"points": xy(P, 60)})
		return m, nil, false
	}
	var idx []int
	ok := true
	if p := run.Try(func() {
		for i, q := range in {
			if q.X() != P[i].x || q.Y() != P[i].y {
				res.Violate("input-modified", "triangulation.BowyerWatson", inClass, fmt.Sprintf("input point %d was changed from %v to (%g,%g)", i, P[i], q.X(), q.Y()), nil)
			}
		}
		if m.Topology() != modeling.TriangleTopology {
			res.Violate("vertex-mismatch", "triangulation.BowyerWatson", inClass, "result topology is "+m.Topology().String(), nil)
			ok = false
			return
		}
		pos := m.Float3Attribute(modeling.PositionAttribute)
		if pos.Len() != len(P) {
			res.Violate("vertex-mismatch", "triangulation.BowyerWatson", inClass, fmt.Sprintf("%d input points, %d vertices in the result", len(P), pos.Len()), nil)
			ok = false
			return
		}
		for i := 0; i < pos.Len(); i++ {
			v := pos.At(i)
			if v.X() != P[i].x || v.Z() != P[i].y || v.Y() != 0 {
				res.Violate("vertex-mismatch", "triangulation.BowyerWatson", inClass, fmt.Sprintf("vertex %d is (%.17g, %.17g, %.17g), input point %d is (%.17g, %.17g)", i, v.X(), v.Y(), v.Z(), i, P[i].x, P[i].y), nil)
				ok = false
				return
			}
		}
		it := m.Indices()
		idx = make([]int, it.Len())
		for i := range idx {
			idx[i] = it.At(i)
		}
	}); p != nil {
		res.Violate("runtime-panic", "triangulation.BowyerWatson result", inClass, p.Value+" at "+p.Site, nil)
		return m, nil, false
	}
	return m, idx, ok
}

func xy(P []pt, max int) [][2]float64 {
	if len(P) > max {
		P = P[:max]
	}
	o := make([][2]float64, len(P))
	for i, p := range P {
		o[i] = [2]float64{p.x, p.y}
	}
	return o
}

// drawCertified draws the case's point set, redrawing (with a larger jitter) until it is in general position.
func drawCertified(c *run.Ctx, res *run.Result, forceN int) ([]pt, workload, bool) {
	return drawCertifiedAt(c, res, forceN, 0, c.Case)
}

// drawCertifiedAt: salt separates several sets of one case; classIdx selects class and extent decade.
func drawCertifiedAt(c *run.Ctx, res *run.Result, forceN int, salt uint64, classIdx int) ([]pt, workload, bool) {
	why := ""
	for attempt := 0; attempt < 6; attempt++ {
		P, w := genWorkload(c.SubRng(1000+100*salt+uint64(attempt)), classIdx, attempt, forceN)
		ok, reason := certify(P)
		if ok {
			return P, w, true
		}
		why = reason
		res.Count("redrawn_not_general_position", 1)
	}
	res.Inconclusive = "degenerate: six draws of the point set were not in general position at float resolution (" + why + ")"
	return nil, workload{}, false
}

func record(res *run.Result, w workload) {
	res.SetAdd("classes", w.Class)
	res.SetAdd("extent_decades", fmt.Sprint(w.ExtentDec))
	res.SetAdd("aspect_ratios", fmt.Sprint(w.Aspect)+w.FlatAxis)
	res.SetAdd("offset_decades", fmt.Sprint(w.OffsetDec))
	res.SetAdd("point_counts", fmt.Sprint(nBucket(w.N)))
}

func account(res *run.Result, st outputStats) {
	res.Count("triangles_checked", int64(st.triangles))
	res.Count("incircle_pairs_checked", int64(st.incirclePairs))
	res.Count("overlap_pairs_tested_exactly", int64(st.overlapPairs))
	res.Count("required_triangles", int64(st.required))
	res.Count("required_triangles_present", int64(st.requiredPresent))
	if st.bandInside > 0 {
		res.Count("dont_care_pairs_inside_within_band", int64(st.bandInside))
	}
	if st.dtMissing > 0 {
		res.Count("outputs_missing_some_delaunay_triangle", 1)
		res.Count("delaunay_triangles_missing_at_hull", int64(st.dtMissing))
	}
	res.Count("outputs", 1)
	if st.triangles == 0 {
		res.Count("outputs_without_any_triangle", 1)
	}
	if st.covered {
		res.Count("outputs_covering_the_hull_exactly", 1)
	}
	if st.winding > 0 {
		res.Count("outputs_wound_ccw_in_xy", 1)
	} else if st.winding < 0 {
		res.Count("outputs_wound_cw_in_xy", 1)
	}
}

func report(res *run.Result, fs []finding, P []pt, w workload, order []int, label string) {
	for _, f := range fs {
		wit := map[string]any{"workload": w, "order": label}
		for k, v := range f.witness {
			wit[k] = v
		}
		if len(P) <= 40 {
			wit["points"] = xy(P, 40)
			if order != nil {
				wit["insertion_order"] = order
			}
		}
		res.Violate(f.class, "triangulation.BowyerWatson", w.Class+"/"+label, f.detail+fmt.Sprintf(" [%s, n=%d, extent 1e%d, aspect %g%s, offset 1e%d, %s]", w.Class, w.N, w.ExtentDec, w.Aspect, w.FlatAxis, w.OffsetDec, label), wit)
	}
}

func flushStats(res *run.Result) {
	res.Count("predicates_decided_by_float_filter", stats.orientFast+stats.incircleFast)
	res.Count("predicates_decided_by_exact_rationals", stats.orientExact+stats.incircleExact)
	stats.orientFast, stats.orientExact, stats.incircleFast, stats.incircleExact = 0, 0, 0, 0
}

func setCase(c *run.Ctx) run.Result {
	var res run.Result
	P, w, ok := drawCertified(c, &res, 0)
	if !ok {
		return res
	}
	defer flushStats(&res)
	n := len(P)
	res.Sig = w.sig()
	record(&res, w)
	res.Count("points", int64(n))
	c.Note(fmt.Sprintf("%s n=%d", w.sig(), n))

	dt := bruteDelaunay(P)
	hull2 := polyArea2Exact(hullExact(P))
	res.Count("delaunay_triangles_reference", int64(len(dt)))

	r := c.SubRng(7)
	var keep keeper
	m1, idx1, ok1 := triangulateKeep(&res, P, r.Intn(3) == 0, w.Class)
	var st1, st2 outputStats
	if ok1 {
		var fs []finding
		fs, st1 = checkOutput(P, idx1, dt, hull2)
		report(&res, fs, P, w, nil, "as generated")
		account(&res, st1)
		keep.add(&res, m1, "call 1 (points as generated)", func(idx []int) []finding { fs, _ := checkOutput(P, idx, dt, hull2); return fs })
	}
	// the same points in another insertion order
	perm := r.Perm(n)
	P2 := make([]pt, n)
	for i, j := range perm {
		P2[i] = P[j]
	}
	m2, idx2, ok2 := triangulateKeep(&res, P2, r.Intn(3) == 0, w.Class+"/permuted")
	unperm := func(idx []int) []int {
		out := make([]int, len(idx))
		for i, v := range idx {
			if v < 0 || v >= n {
				return idx
			}
			out[i] = perm[v]
		}
		return out
	}
	if ok2 {
		keep.recheck(&res, "call 2 (the same points permuted)", 1, 0, r)
		keep.add(&res, m2, "call 2 (the same points permuted)", func(idx []int) []finding { fs, _ := checkOutput(P, unperm(idx), dt, hull2); return fs })
		mapped := make([]int, len(idx2))
		bad := false
		for i, v := range idx2 {
			if v < 0 || v >= n {
				bad = true
				break
			}
			mapped[i] = perm[v]
		}
		if bad {
			mapped = idx2 // checkOutput reports the foreign index
		}
		fs, st := checkOutput(P, mapped, dt, hull2)
		st2 = st
		report(&res, fs, P, w, perm, "permuted")
		account(&res, st2)
		if ok1 && !sameTriangles(idx1, mapped) {
			res.Count("permutation_changed_the_triangle_set", 1)
		}
	}
	// a third, smaller call (a subset of a set in general position is in general position), then every earlier mesh again
	if n >= 6 && len(res.Violations) == 0 {
		if _, _, ok3 := triangulateKeep(&res, P[:3+r.Intn(n-3)], false, w.Class+"/subset"); ok3 {
			keep.recheck(&res, "call 3 (a smaller subset of the points)", 2, 1, r)
		}
	}
	res.Nontrivial = n >= 4 && ok1 && ok2 && st1.triangles > 0 && st2.triangles > 0 && st1.requiredPresent > 0 && st2.requiredPresent > 0
	if st1.required == 0 {
		res.Count("sets_without_required_triangle", 1)
	}
	if c.Case < 8 {
		res.Sample = map[string]any{"workload": w, "first_points": xy(P, 4), "triangles": st1.triangles, "required_interior_delaunay_triangles": st1.required, "reference_delaunay_triangles": len(dt)}
	}
	return res
}

func sameTriangles(a, b []int) bool {
	if len(a) != len(b) {
		return false
	}
	set := map[tri]int{}
	for i := 0; i+2 < len(a); i += 3 {
		set[tri{a[i], a[i+1], a[i+2]}.key()]++
	}
	for i := 0; i+2 < len(b); i += 3 {
		set[tri{b[i], b[i+1], b[i+2]}.key()]--
	}
	for _, v := range set {
		if v != 0 {
			return false
		}
	}
	return true
}

// orderCase: every insertion order of a small point set.
func orderCase(c *run.Ctx) run.Result {
	var res run.Result
	n := 4 + c.Case%3
	P, w, ok := drawCertified(c, &res, n)
	if !ok {
		return res
	}
	defer flushStats(&res)
	res.Sig = "orders/" + w.sig()
	record(&res, w)
	dt := bruteDelaunay(P)
	hull2 := polyArea2Exact(hullExact(P))
	required := 0
	for _, d := range dt {
		if d.robust && d.interior {
			required++
		}
	}
	distinctOutputs := map[string]bool{}
	var keep keeper
	rr := c.SubRng(9)
	perm := make([]int, n)
	for i := range perm {
		perm[i] = i
	}
	orders := 0
	allOK := true
	var visit func(k int)
	visit = func(k int) {
		if len(res.Violations) > 0 {
			return
		}
		if k == n {
			orders++
			P2 := make([]pt, n)
			for i, j := range perm {
				P2[i] = P[j]
			}
			mk, idx, ok := triangulateKeep(&res, P2, false, w.Class+"/order")
			if !ok {
				allOK = false
				return
			}
			// the meshes of all earlier orders stay alive; after each call the most recent ones are read again
			if len(keep.all) > 0 {
				rest := keeper{all: keep.all[imax(0, len(keep.all)-2):]}
				rest.recheck(&res, "the call with order "+fmt.Sprint(perm), 2, 0, rr)
			}
			keep.add(&res, mk, "the call with order "+fmt.Sprint(perm), nil)
			mapped := make([]int, len(idx))
			for i, v := range idx {
				if v < 0 || v >= n {
					mapped = idx
					break
				}
				mapped[i] = perm[v]
			}
			fs, st := checkOutput(P, mapped, dt, hull2)
			report(&res, fs, P, w, append([]int{}, perm...), "order "+fmt.Sprint(perm))
			account(&res, st)
			if st.triangles == 0 {
				allOK = false
			}
			distinctOutputs[keyOf(mapped)] = true
			return
		}
		for i := k; i < n; i++ {
			perm[k], perm[i] = perm[i], perm[k]
			visit(k + 1)
			perm[k], perm[i] = perm[i], perm[k]
		}
	}
	visit(0)
	keep.recheck(&res, "the last call of the case", len(keep.all), 0, rr)
	res.Count("insertion_orders", int64(orders))
	if len(distinctOutputs) > 1 {
		res.Count("sets_whose_output_depends_on_the_order", 1)
	}
	res.Nontrivial = allOK && required > 0
	if c.Case < 4 {
		res.Sample = map[string]any{"workload": w, "points": xy(P, 6), "orders": orders, "required_interior_delaunay_triangles": required}
	}
	return res
}

func keyOf(idx []int) string {
	var ts []string
	for i := 0; i+2 < len(idx); i += 3 {
		ts = append(ts, fmt.Sprint(tri{idx[i], idx[i+1], idx[i+2]}.key()))
	}
	// order-insensitive
	for i := range ts {
		for j := i + 1; j < len(ts); j++ {
			if ts[j] < ts[i] {
				ts[i], ts[j] = ts[j], ts[i]
			}
		}
	}
	return fmt.Sprint(ts)
}
