package c20

import (
	"fmt"
	"math"
	"math/rand"
)

// workload describes how a point set was produced (signature + evidence).
type workload struct {
	Class     string  `json:"class"`
	N         int     `json:"n"`
	ExtentDec int     `json:"extent_decade"` // larger side of the bounding box ~ 10^ExtentDec
	Aspect    float64 `json:"aspect"`        // >1: the other side is this many times shorter
	FlatAxis  string  `json:"flat_axis"`     // which side is the short one
	OffsetDec int     `json:"offset_decade"` // distance from the origin ~ 10^OffsetDec (-99: none)
	Rotated   bool    `json:"rotated"`
	Jitter    float64 `json:"jitter,omitempty"` // relative perturbation of the near-degenerate classes
	Attempt   int     `json:"attempt"`
}

func (w workload) sig() string {
	return fmt.Sprintf("%s/n%d/e%d/a%g%s/o%d/r%v", w.Class, nBucket(w.N), w.ExtentDec, w.Aspect, w.FlatAxis, w.OffsetDec, w.Rotated)
}

func nBucket(n int) int {
	switch {
	case n <= 8:
		return n
	case n <= 16:
		return 16
	case n <= 40:
		return 40
	case n <= 80:
		return 80
	}
	return 120
}

var classes = []string{"uniform", "clustered", "grid", "circles", "collinear-hull", "mixed", "two-scale", "gaussian"}
var aspects = []float64{1, 1, 1, 3, 10, 100, 1000}

func logUniform(r *rand.Rand, lo, hi float64) float64 {
	return math.Exp(math.Log(lo) + r.Float64()*(math.Log(hi)-math.Log(lo)))
}

// basePoints produces n points of the class in roughly the unit square.
// jitterBoost (>=1) multiplies the perturbation of the near-degenerate classes
// (used when a draw was not in general position at float resolution).
func basePoints(r *rand.Rand, class string, n int, jitterBoost float64) ([]pt, float64) {
	P := make([]pt, 0, n)
	jit := 0.
	switch class {
	case "uniform":
		for len(P) < n {
			P = append(P, pt{r.Float64(), r.Float64()})
		}
	case "gaussian":
		for len(P) < n {
			P = append(P, pt{0.5 + 0.15*r.NormFloat64(), 0.5 + 0.15*r.NormFloat64()})
		}
	case "clustered":
		k := 1 + r.Intn(5)
		type cl struct {
			c pt
			s float64
		}
		cs := make([]cl, k)
		for i := range cs {
			cs[i] = cl{pt{r.Float64(), r.Float64()}, logUniform(r, 1e-3, 0.1)}
		}
		for len(P) < n {
			c := cs[r.Intn(k)]
			P = append(P, pt{c.c.x + c.s*r.NormFloat64(), c.c.y + c.s*r.NormFloat64()})
		}
	case "two-scale":
		// most points spread over the square, the rest in one spot a thousand times smaller
		c := pt{0.2 + 0.6*r.Float64(), 0.2 + 0.6*r.Float64()}
		s := logUniform(r, 3e-4, 1e-2)
		for len(P) < n {
			if r.Intn(3) == 0 {
				P = append(P, pt{c.x + s*(r.Float64()-0.5), c.y + s*(r.Float64()-0.5)})
			} else {
				P = append(P, pt{r.Float64(), r.Float64()})
			}
		}
	case "grid":
		// jittered lattice: every lattice rectangle is co-circular before the jitter
		g := 2
		for (g+1)*(g+1) <= n {
			g++
		}
		h := (n + g - 1) / g
		sp := 1 / float64(imax(g, h)-1+1)
		jit = math.Min(0.3, logUniform(r, 1e-5, 0.3)*jitterBoost)
		cells := r.Perm(g * h)
		for _, cidx := range cells {
			if len(P) == n {
				break
			}
			i, j := cidx%g, cidx/g
			P = append(P, pt{(float64(i) + jit*(2*r.Float64()-1)) * sp, (float64(j) + jit*(2*r.Float64()-1)) * sp})
		}
	case "circles":
		// points on a few circles with a small radial jitter, optionally with the centre:
		// near-co-circular quadruples and near-degenerate fans
		jit = math.Min(0.05, logUniform(r, 1e-6, 1e-2)*jitterBoost)
		k := 1 + r.Intn(3)
		for c := 0; c < k && len(P) < n; c++ {
			ctr := pt{0.3 + 0.4*r.Float64(), 0.3 + 0.4*r.Float64()}
			rad := 0.05 + 0.25*r.Float64()
			m := (n - len(P)) / (k - c)
			if c == k-1 {
				m = n - len(P)
			}
			if m > 3 && r.Intn(2) == 0 {
				P = append(P, ctr)
				m--
			}
			regular := r.Intn(2) == 0
			ph := r.Float64() * 2 * math.Pi
			for i := 0; i < m; i++ {
				a := r.Float64() * 2 * math.Pi
				if regular { // angular jitter too: radial jitter alone leaves centre and opposite points collinear
					a = ph + 2*math.Pi*(float64(i)+jit*(2*r.Float64()-1))/float64(m)
				}
				rr := rad * (1 + jit*(2*r.Float64()-1))
				P = append(P, pt{ctr.x + rr*math.Cos(a), ctr.y + rr*math.Sin(a)})
			}
		}
	case "collinear-hull":
		// many points almost on the edges of a convex polygon: sliver triangles along the hull
		jit = math.Min(0.01, logUniform(r, 1e-6, 1e-3)*jitterBoost)
		k := 3 + r.Intn(4)
		ph := r.Float64() * 2 * math.Pi
		V := make([]pt, k)
		for i := range V {
			a := ph + 2*math.Pi*(float64(i)+0.3*r.Float64())/float64(k)
			rad := 0.45 * (0.75 + 0.25*r.Float64()) // not all on one circle
			V[i] = pt{0.5 + rad*math.Cos(a), 0.5 + rad*math.Sin(a)}
		}
		onHull := n * (4 + r.Intn(5)) / 10
		if onHull < imin(n, k) {
			onHull = imin(n, k)
		}
		for i := 0; i < onHull; i++ {
			if i < k {
				P = append(P, V[i])
				continue
			}
			e := r.Intn(k)
			a, b := V[e], V[(e+1)%k]
			t := 0.02 + 0.96*r.Float64()
			L := math.Hypot(b.x-a.x, b.y-a.y)
			nx, ny := (b.y-a.y)/L, -(b.x-a.x)/L
			d := jit * L * (2*r.Float64() - 1)
			P = append(P, pt{a.x + t*(b.x-a.x) + d*nx, a.y + t*(b.y-a.y) + d*ny})
		}
		for len(P) < n {
			// interior: convex combination of the vertices pulled to the centre
			w := make([]float64, k)
			s := 0.
			for i := range w {
				w[i] = r.ExpFloat64()
				s += w[i]
			}
			var q pt
			for i := range w {
				q.x += w[i] / s * V[i].x
				q.y += w[i] / s * V[i].y
			}
			P = append(P, pt{0.5 + 0.9*(q.x-0.5), 0.5 + 0.9*(q.y-0.5)})
		}
	default: // mixed
		a, j1 := basePoints(r, "grid", imax(1, n/3), jitterBoost)
		b, j2 := basePoints(r, "circles", imax(1, n/3), jitterBoost)
		jit = math.Min(j1, j2)
		for _, q := range a {
			P = append(P, pt{0.05 + 0.4*q.x, 0.05 + 0.4*q.y})
		}
		for _, q := range b {
			P = append(P, pt{0.45 + 0.5*q.x, 0.45 + 0.5*q.y})
		}
		for len(P) < n {
			P = append(P, pt{r.Float64(), r.Float64()})
		}
		P = P[:n]
	}
	return P, jit
}

// genWorkload draws class, size, scale, aspect ratio and offset for a case and
// produces the points. Class and extent decade cycle with the case index so that
// every combination region is visited in every run.
func genWorkload(r *rand.Rand, caseIdx, attempt int, forceN int) ([]pt, workload) {
	w := workload{Attempt: attempt}
	w.Class = classes[caseIdx%len(classes)]
	w.ExtentDec = (caseIdx/len(classes))%10 - 3 // 1e-3 .. 1e6
	switch k := r.Intn(20); {
	case forceN > 0:
		w.N = forceN
	case k < 3:
		w.N = 3 + r.Intn(6)
	case k < 12:
		w.N = 9 + r.Intn(32)
	default:
		w.N = 41 + r.Intn(80)
	}
	boost := math.Pow(10, float64(attempt))
	P, jit := basePoints(r, w.Class, w.N, boost)
	w.Jitter = jit
	// rotation (keeps the class structure, breaks axis alignment)
	if r.Intn(2) == 0 {
		w.Rotated = true
		a := r.Float64() * 2 * math.Pi
		c, s := math.Cos(a), math.Sin(a)
		for i, q := range P {
			x, y := q.x-0.5, q.y-0.5
			P[i] = pt{0.5 + c*x - s*y, 0.5 + s*x + c*y}
		}
	}
	// anisotropic scale
	w.Aspect = aspects[r.Intn(len(aspects))]
	ext := math.Pow(10, float64(w.ExtentDec)) * (1 + 8.99*r.Float64())
	sx, sy := ext, ext
	w.FlatAxis = ""
	if w.Aspect > 1 {
		if r.Intn(2) == 0 {
			sy, w.FlatAxis = ext/w.Aspect, "y"
		} else {
			sx, w.FlatAxis = ext/w.Aspect, "x"
		}
	}
	// offset from the origin, capped so that the short side still spans >= 2^22 representable steps
	w.OffsetDec = -99
	var ox, oy float64
	if r.Intn(4) > 0 {
		d := r.Intn(7) // 1 .. 1e6
		short := math.Min(sx, sy)
		for d > 0 && short/(math.Pow(10, float64(d+1))*2.3e-16) < 4e6 {
			d--
		}
		w.OffsetDec = d
		m := math.Pow(10, float64(d)) * (1 + 8.99*r.Float64())
		switch r.Intn(3) {
		case 0:
			ox = m * float64(1-2*r.Intn(2))
		case 1:
			oy = m * float64(1-2*r.Intn(2))
		default:
			ox, oy = m*float64(1-2*r.Intn(2)), m*(2*r.Float64()-1)
		}
	}
	for i, q := range P {
		P[i] = pt{ox + sx*(q.x-0.5), oy + sy*(q.y-0.5)}
	}
	return P, w
}

func imin(a, b int) int {
	if a < b {
		return a
	}
	return b
}
func imax(a, b int) int {
	if a > b {
		return a
	}
	return b
}
