package c20

// The oracle checks itself before it is trusted: the exact fallback of the
// predicates on inputs that double precision cannot decide, and checkOutput on a
// correct triangulation and on deliberately corrupted ones. A failure here is a
// defect of the harness, never a verdict about polyform: the case is reported
// inconclusive and the run misses its floor (exit 2).

import (
	"fmt"
	"math"

	"polyverif/internal/run"
)

func selfTest(c *run.Ctx) run.Result {
	var res run.Result
	res.Sig = "oracle-selftest"
	fail := func(f string, a ...any) {
		if res.Inconclusive == "" {
			res.Inconclusive = "oracle self-test failed: " + fmt.Sprintf(f, a...)
		}
	}
	defer flushStats(&res)

	// 1. predicates beyond double precision
	u := math.Ldexp(1, -52)
	// exactly collinear, and off the line by one unit in the last place
	a, b := pt{0.5, 0.5}, pt{12, 12}
	if orient(a, b, pt{24, 24}) != 0 {
		fail("collinear triple not recognised")
	}
	if orient(a, b, pt{24, 24 * (1 + u)}) != 1 || orient(a, b, pt{24 * (1 + u), 24}) != -1 {
		fail("one-ulp turn not recognised")
	}
	// exactly co-circular: the four corners of a square far from the origin; then one corner moved by an ulp
	o := 1e6
	q := []pt{{o, o}, {o + 1, o}, {o + 1, o + 1}, {o, o + 1}}
	if s, _ := inCircum(q[0], q[1], q[2], q[3], orient(q[0], q[1], q[2])); s != 0 {
		fail("co-circular quadruple not recognised (%d)", s)
	}
	in := pt{o, math.Nextafter(o+1, 0)}
	out := pt{o, math.Nextafter(o+1, 2*o)}
	if s, _ := inCircum(q[0], q[1], q[2], in, orient(q[0], q[1], q[2])); s != 1 {
		fail("point one ulp inside the circle judged %d", s)
	}
	if s, _ := inCircum(q[0], q[1], q[2], out, orient(q[0], q[1], q[2])); s != -1 {
		fail("point one ulp outside the circle judged %d", s)
	}
	// the same with the triangle given clockwise
	if s, _ := inCircum(q[2], q[1], q[0], in, orient(q[2], q[1], q[0])); s != 1 {
		fail("clockwise triangle: point one ulp inside judged %d", s)
	}
	if stats.orientExact == 0 || stats.incircleExact == 0 {
		fail("the exact fallback was not exercised (%d, %d)", stats.orientExact, stats.incircleExact)
	}
	res.Count("selftest_exact_fallbacks", stats.orientExact+stats.incircleExact)
	if ok, _ := certify(q); ok {
		fail("certify accepted a co-circular quadruple")
	}
	if ok, _ := certify([]pt{a, b, {24, 24}, {3, 1}}); ok {
		fail("certify accepted a collinear triple")
	}

	// 2. checkOutput on known triangulations
	r := c.Rng
	for round := 0; round < 40; round++ {
		var P []pt
		for {
			P, _ = basePoints(r, []string{"uniform", "gaussian", "clustered"}[round%3], 12+r.Intn(20), 1)
			if ok, _ := certify(P); ok {
				break
			}
		}
		n := len(P)
		dt := bruteDelaunay(P)
		hull := hullExact(P)
		hull2 := polyArea2Exact(hull)
		var good []int
		var keys []tri
		for k := range dt {
			keys = append(keys, k)
		}
		sortTris(keys)
		for _, k := range keys {
			t := k
			if orient(P[t[0]], P[t[1]], P[t[2]]) > 0 {
				t[1], t[2] = t[2], t[1] // clockwise, like polyform
			}
			good = append(good, t[0], t[1], t[2])
		}
		fs, st := checkOutput(P, good, dt, hull2)
		if len(fs) != 0 {
			fail("the reference Delaunay triangulation was rejected: %s: %s", fs[0].class, fs[0].detail)
		}
		if !st.covered || len(good)/3 != 2*n-2-len(hull) {
			fail("reference triangulation: covered=%v triangles=%d expected %d", st.covered, len(good)/3, 2*n-2-len(hull))
		}
		expect := func(what, class string, idx []int) {
			fs, _ := checkOutput(P, idx, dt, hull2)
			for _, f := range fs {
				if f.class == class {
					res.Count("selftest_corruptions_detected", 1)
					return
				}
			}
			fail("%s was not reported as %s (findings: %v)", what, class, classesOf(fs))
		}
		m := len(good) / 3
		// a. one triangle re-wound
		w := append([]int{}, good...)
		t := r.Intn(m)
		w[3*t+1], w[3*t+2] = w[3*t+2], w[3*t+1]
		expect("a re-wound triangle", "mixed-winding", w)
		// b. one triangle repeated in another rotation
		w = append(append([]int{}, good...), good[3*t+1], good[3*t+2], good[3*t])
		expect("a repeated triangle", "overlap", w)
		// c. an interior edge flipped: two triangles sharing an edge are replaced by the other diagonal
		if fl := flipOne(P, good, r.Intn(m)); fl != nil {
			expect("a flipped edge", "circumcircle-not-empty", fl)
		}
		// d. a required triangle dropped
		for k, d := range dt {
			if d.robust && d.interior {
				var wo []int
				for i := 0; i < m; i++ {
					if (tri{good[3*i], good[3*i+1], good[3*i+2]}).key() != k {
						wo = append(wo, good[3*i:3*i+3]...)
					}
				}
				expect("a dropped interior triangle", "delaunay-triangle-missing", wo)
				break
			}
		}
		// e. an extra triangle over existing ones (three random vertices not forming a Delaunay triangle)
		for tries := 0; tries < 50; tries++ {
			x := tri{r.Intn(n), r.Intn(n), r.Intn(n)}
			if x[0] == x[1] || x[1] == x[2] || x[0] == x[2] {
				continue
			}
			if _, isDT := dt[x.key()]; isDT {
				continue
			}
			if orient(P[x[0]], P[x[1]], P[x[2]]) > 0 {
				x[1], x[2] = x[2], x[1]
			}
			expect("an extra overlapping triangle", "overlap", append(append([]int{}, good...), x[0], x[1], x[2]))
			break
		}
		// f. a foreign vertex
		w = append([]int{}, good...)
		w[r.Intn(len(w))] = n + r.Intn(3)
		expect("a vertex beyond the input", "foreign-vertex", w)
		// g. empty output
		for _, d := range dt {
			if d.robust && d.interior {
				expect("an empty output", "delaunay-triangle-missing", nil)
				break
			}
		}
	}
	if res.Inconclusive == "" {
		res.Count("oracle_selftest_passed", 1)
		res.Nontrivial = true
	}
	res.Sample = map[string]any{"selftest": "exact predicates on 1-ulp configurations; checkOutput on 40 reference triangulations and 7 kinds of corruption each"}
	return res
}

func classesOf(fs []finding) []string {
	var o []string
	for _, f := range fs {
		o = append(o, f.class)
	}
	return o
}

func sortTris(k []tri) {
	for i := range k {
		for j := i + 1; j < len(k); j++ {
			a, b := k[i], k[j]
			if b[0] < a[0] || (b[0] == a[0] && (b[1] < a[1] || (b[1] == a[1] && b[2] < a[2]))) {
				k[i], k[j] = k[j], k[i]
			}
		}
	}
}

// flipOne replaces two triangles sharing an edge by the two triangles on the
// other diagonal when the quadrilateral is strictly convex; nil if triangle t has no such neighbour.
func flipOne(P []pt, idx []int, t int) []int {
	m := len(idx) / 3
	T := func(i int) tri { return tri{idx[3*i], idx[3*i+1], idx[3*i+2]} }
	a := T(t)
	for s := 0; s < m; s++ {
		if s == t {
			continue
		}
		b := T(s)
		var shared, onlyA, onlyB []int
		for _, v := range a {
			if v == b[0] || v == b[1] || v == b[2] {
				shared = append(shared, v)
			} else {
				onlyA = append(onlyA, v)
			}
		}
		for _, v := range b {
			if v != a[0] && v != a[1] && v != a[2] {
				onlyB = append(onlyB, v)
			}
		}
		if len(shared) != 2 || len(onlyA) != 1 || len(onlyB) != 1 {
			continue
		}
		p, q, x, y := shared[0], shared[1], onlyA[0], onlyB[0]
		// strictly convex: p and q on opposite sides of the line x-y
		if orient(P[x], P[y], P[p])*orient(P[x], P[y], P[q]) >= 0 {
			continue
		}
		n1, n2 := tri{x, y, p}, tri{x, y, q}
		if orient(P[n1[0]], P[n1[1]], P[n1[2]]) > 0 {
			n1[1], n1[2] = n1[2], n1[1]
		}
		if orient(P[n2[0]], P[n2[1]], P[n2[2]]) > 0 {
			n2[1], n2[2] = n2[2], n2[1]
		}
		var out []int
		for i := 0; i < m; i++ {
			if i != t && i != s {
				out = append(out, idx[3*i:3*i+3]...)
			}
		}
		return append(out, n1[0], n1[1], n1[2], n2[0], n2[1], n2[2])
	}
	return nil
}
