package c20

// Every mesh returned during a case is kept alive. It is fingerprinted (indices and
// positions, bit level) when it is first judged; after every later call and at the
// end of the case all earlier meshes are read again: the fingerprint must not have
// changed, and a sample of them is judged again by the full oracle. A result that
// shares storage with a later result is invisible to a checker that validates each
// mesh before the next call.

import (
	"fmt"
	"math"
	"math/rand"

	"github.com/EliCDavis/polyform/modeling"
	"polyverif/internal/run"
)

type keptMesh struct {
	m     modeling.Mesh
	label string
	fp    uint64
	nIdx  int
	nPos  int
	first []int                     // the first indices as first seen (for the report)
	judge func(idx []int) []finding // nil: fingerprint only
}

type keeper struct{ all []*keptMesh }

// readMesh returns the index list, and a bit-level fingerprint of indices and positions.
func readMesh(m modeling.Mesh) (idx []int, nPos int, fp uint64, err string) {
	if p := run.Try(func() {
		h := uint64(1469598103934665603)
		mix := func(x uint64) {
			h ^= x
			h *= 1099511628211
		}
		it := m.Indices()
		idx = make([]int, it.Len())
		for i := range idx {
			idx[i] = it.At(i)
			mix(uint64(idx[i]))
		}
		if m.HasFloat3Attribute(modeling.PositionAttribute) {
			pos := m.Float3Attribute(modeling.PositionAttribute)
			nPos = pos.Len()
			for i := 0; i < nPos; i++ {
				v := pos.At(i)
				mix(math.Float64bits(v.X()))
				mix(math.Float64bits(v.Y()))
				mix(math.Float64bits(v.Z()))
			}
		}
		fp = h
	}); p != nil {
		err = p.Value
	}
	return
}

func (k *keeper) add(res *run.Result, m modeling.Mesh, label string, judge func(idx []int) []finding) {
	idx, nPos, fp, err := readMesh(m)
	if err != "" {
		return
	}
	km := &keptMesh{m: m, label: label, fp: fp, nIdx: len(idx), nPos: nPos, judge: judge}
	km.first = append(km.first, idx[:imin(len(idx), 12)]...)
	k.all = append(k.all, km)
	res.Count("results_kept_alive", 1)
}

// recheck re-reads every earlier mesh after the call described by later; rejudge = how many to send through the oracle again.
func (k *keeper) recheck(res *run.Result, later string, upto int, rejudge int, r *rand.Rand) bool {
	ok := true
	for i := 0; i < upto && i < len(k.all); i++ {
		km := k.all[i]
		idx, nPos, fp, err := readMesh(km.m)
		res.Count("earlier_results_reread", 1)
		if err != "" || fp != km.fp || len(idx) != km.nIdx || nPos != km.nPos {
			now := append([]int{}, idx[:imin(len(idx), 12)]...)
			res.Violate("earlier-result-changed-by-later-call", "triangulation.BowyerWatson", "results kept alive",
				fmt.Sprintf("the mesh returned by %s (%d indices, %d vertices; first indices %v) reads differently after %s: %d indices, %d vertices, first indices %v %s", km.label, km.nIdx, km.nPos, km.first, later, len(idx), nPos, now, err),
				map[string]any{"earlier": km.label, "later": later, "indices_before": km.first, "indices_now": now})
			ok = false
		}
	}
	// judge a sample again
	for j := 0; j < rejudge && upto > 0 && len(k.all) > 0; j++ {
		km := k.all[r.Intn(imin(upto, len(k.all)))]
		if km.judge == nil {
			continue
		}
		idx, _, _, err := readMesh(km.m)
		if err != "" {
			continue
		}
		res.Count("earlier_results_rejudged", 1)
		if fs := km.judge(idx); len(fs) > 0 {
			res.Violate("earlier-result-changed-by-later-call", "triangulation.BowyerWatson", "results kept alive",
				fmt.Sprintf("the mesh returned by %s no longer passes after %s: %s: %s", km.label, later, fs[0].class, fs[0].detail),
				map[string]any{"earlier": km.label, "later": later, "finding": fs[0].class})
			ok = false
		}
	}
	return ok
}
