package c20

import (
	"sync"
	"testing"

	"polyverif/internal/run"
)

func TestFindDegenerate(t *testing.T) {
	var wg sync.WaitGroup
	var mu sync.Mutex
	for _, ph := range []struct {
		name string
		n    int
	}{{"sets", 3000}, {"orders", 300}} {
		for g := 0; g < 8; g++ {
			wg.Add(1)
			go func(g int, name string, n int) {
				defer wg.Done()
				for i := g; i < n; i += 8 {
					c := &run.Ctx{Seed: 6, Phase: name, Case: i, Tier: "quick"}
					fails := 0
					var log []string
					for attempt := 0; attempt < 6; attempt++ {
						force := 0
						if name == "orders" {
							force = 4 + i%3
						}
						P, w := genWorkload(c.SubRng(uint64(1000+attempt)), c.Case, attempt, force)
						ok, reason := certify(P)
						if ok {
							break
						}
						fails++
						log = append(log, w.sig()+" jit="+f(w.Jitter)+" "+reason)
					}
					if fails >= 6 {
						mu.Lock()
						t.Logf("%s case %d:", name, i)
						for _, l := range log {
							t.Log("   ", l)
						}
						mu.Unlock()
					}
				}
			}(g, ph.name, ph.n)
		}
	}
	wg.Wait()
}

func f(x float64) string { return fmtG(x) }

func fmtG(x float64) string {
	b := make([]byte, 0, 24)
	return string(appendG(b, x))
}
