package c20

// Exact geometric predicates on float64 input: a floating-point filter (the
// sign of the double-precision determinant is trusted when its magnitude exceeds
// Shewchuk's forward error bound) with an exact math/big.Rat evaluation as
// fallback. The oracle therefore has no rounding of its own.

import (
	"math"
	"math/big"
)

type pt struct{ x, y float64 }

const (
	epsHalf      = 1.1102230246251565e-16 // 2^-53
	ccwErrBoundA = (3 + 16*epsHalf) * epsHalf
	iccErrBoundA = (10 + 96*epsHalf) * epsHalf
)

// stats are per-process counters read and reset by the case runner.
var stats struct{ orientFast, orientExact, incircleFast, incircleExact int64 }

func rat(f float64) *big.Rat { return new(big.Rat).SetFloat64(f) }

// orient returns the sign of (b-a) x (c-a): +1 when a,b,c turn counter-clockwise.
func orient(a, b, c pt) int {
	detl := float64((a.x - c.x) * (b.y - c.y))
	detr := float64((a.y - c.y) * (b.x - c.x))
	det := detl - detr
	bound := ccwErrBoundA * (math.Abs(detl) + math.Abs(detr))
	if det > bound {
		stats.orientFast++
		return 1
	}
	if -det > bound {
		stats.orientFast++
		return -1
	}
	stats.orientExact++
	return orient2Exact(a, b, c).Sign()
}

// orient2Exact is twice the signed area of a,b,c, exactly.
func orient2Exact(a, b, c pt) *big.Rat {
	ax, ay := rat(a.x), rat(a.y)
	bx := new(big.Rat).Sub(rat(b.x), ax)
	by := new(big.Rat).Sub(rat(b.y), ay)
	cx := new(big.Rat).Sub(rat(c.x), ax)
	cy := new(big.Rat).Sub(rat(c.y), ay)
	l := bx.Mul(bx, cy)
	r := cx.Mul(cx, by)
	return l.Sub(l, r)
}

// incircleRaw evaluates the in-circle determinant with d as origin. It returns
// the double-precision value, its permanent (the scale of its rounding error)
// and the exact sign of the determinant: positive when d lies inside the circle
// through a,b,c and a,b,c are counter-clockwise (negative inside when clockwise).
func incircleRaw(a, b, c, d pt) (sign int, det, perm float64) {
	adx, ady := a.x-d.x, a.y-d.y
	bdx, bdy := b.x-d.x, b.y-d.y
	cdx, cdy := c.x-d.x, c.y-d.y
	bdxcdy, cdxbdy := float64(bdx*cdy), float64(cdx*bdy)
	alift := float64(adx*adx) + float64(ady*ady)
	cdxady, adxcdy := float64(cdx*ady), float64(adx*cdy)
	blift := float64(bdx*bdx) + float64(bdy*bdy)
	adxbdy, bdxady := float64(adx*bdy), float64(bdx*ady)
	clift := float64(cdx*cdx) + float64(cdy*cdy)
	det = float64(alift*(bdxcdy-cdxbdy)) + float64(blift*(cdxady-adxcdy)) + float64(clift*(adxbdy-bdxady))
	perm = float64((math.Abs(bdxcdy)+math.Abs(cdxbdy))*alift) + float64((math.Abs(cdxady)+math.Abs(adxcdy))*blift) + float64((math.Abs(adxbdy)+math.Abs(bdxady))*clift)
	bound := iccErrBoundA * perm
	if det > bound {
		stats.incircleFast++
		return 1, det, perm
	}
	if -det > bound {
		stats.incircleFast++
		return -1, det, perm
	}
	stats.incircleExact++
	return incircleExactSign(a, b, c, d), det, perm
}

func incircleExactSign(a, b, c, d pt) int {
	dx, dy := rat(d.x), rat(d.y)
	f := func(q pt) (*big.Rat, *big.Rat, *big.Rat) {
		x := new(big.Rat).Sub(rat(q.x), dx)
		y := new(big.Rat).Sub(rat(q.y), dy)
		s := new(big.Rat).Add(new(big.Rat).Mul(x, x), new(big.Rat).Mul(y, y))
		return x, y, s
	}
	ax, ay, as := f(a)
	bx, by, bs := f(b)
	cx, cy, cs := f(c)
	m := func(x, y *big.Rat) *big.Rat { return new(big.Rat).Mul(x, y) }
	d1 := m(as, new(big.Rat).Sub(m(bx, cy), m(cx, by)))
	d2 := m(bs, new(big.Rat).Sub(m(cx, ay), m(ax, cy)))
	d3 := m(cs, new(big.Rat).Sub(m(ax, by), m(bx, ay)))
	det := d1.Add(d1, d2)
	det.Add(det, d3)
	return det.Sign()
}

// inCircum: +1 when d lies strictly inside the circumcircle of the non-degenerate
// triangle a,b,c (of either orientation), 0 on it, -1 outside. rel = |det|/perm is
// the distance from co-circularity in units of the determinant's own scale.
func inCircum(a, b, c, d pt, orientABC int) (side int, rel float64) {
	s, det, perm := incircleRaw(a, b, c, d)
	if perm > 0 {
		rel = math.Abs(det) / perm
	}
	return s * orientABC, rel
}

// hullExact returns the convex hull (counter-clockwise, collinear points dropped)
// decided with the exact orientation predicate.
func hullExact(P []pt) []pt {
	n := len(P)
	idx := make([]int, n)
	for i := range idx {
		idx[i] = i
	}
	// insertion-free sort by (x,y)
	sortIdx(idx, func(i, j int) bool {
		if P[i].x != P[j].x {
			return P[i].x < P[j].x
		}
		return P[i].y < P[j].y
	})
	var h []pt
	for _, i := range idx {
		q := P[i]
		for len(h) >= 2 && orient(h[len(h)-2], h[len(h)-1], q) <= 0 {
			h = h[:len(h)-1]
		}
		h = append(h, q)
	}
	lo := len(h) + 1
	for k := n - 2; k >= 0; k-- {
		q := P[idx[k]]
		for len(h) >= lo && orient(h[len(h)-2], h[len(h)-1], q) <= 0 {
			h = h[:len(h)-1]
		}
		h = append(h, q)
	}
	if len(h) > 1 {
		h = h[:len(h)-1]
	}
	return h
}

// polyArea2Exact is twice the (positive) area of the counter-clockwise polygon, exactly.
func polyArea2Exact(h []pt) *big.Rat {
	s := new(big.Rat)
	if len(h) < 3 {
		return s
	}
	o := h[0]
	for i := 1; i+1 < len(h); i++ {
		s.Add(s, orient2Exact(o, h[i], h[i+1]))
	}
	return s
}

func sortIdx(a []int, less func(i, j int) bool) {
	// small n: simple merge sort to stay allocation-light and deterministic
	if len(a) < 2 {
		return
	}
	mid := len(a) / 2
	l := append([]int{}, a[:mid]...)
	r := append([]int{}, a[mid:]...)
	sortIdx(l, less)
	sortIdx(r, less)
	i, j, k := 0, 0, 0
	for i < len(l) && j < len(r) {
		if less(r[j], l[i]) {
			a[k] = r[j]
			j++
		} else {
			a[k] = l[i]
			i++
		}
		k++
	}
	for ; i < len(l); i++ {
		a[k] = l[i]
		k++
	}
	for ; j < len(r); j++ {
		a[k] = r[j]
		k++
	}
}
