package c20

// The "large" phase: clouds of thousands of points. The brute-force reference of
// the small phases (O(n^4) certification, O(n^3) Delaunay) does not scale, so the
// same clauses are decided differently, still with the exact predicates:
//
//   - vertex identity, orientation / area of every triangle, repeated triangles;
//   - edge structure: a directed edge used by two equally wound triangles means the
//     two overlap along it;
//   - overlap: exact separating-line test on every pair of triangles whose bounding
//     boxes intersect (pairs found with a grid in rank space), sum of areas <= hull
//     area (exact);
//   - empty circumcircles: the local Delaunay criterion on every interior edge, every
//     input point in the grid cells under a triangle's circumcircle box tested against
//     that triangle (polyform's output may miss hull triangles, so the local criterion
//     alone would not imply the global one), and a few thousand random pairs;
//   - non-vacuity: for every boundary edge of the output and for the nearest-neighbour
//     edge of sampled points (always a Delaunay edge) the Delaunay triangle on the
//     open side is constructed; if its circumcircle is empty (checked against all
//     points), outside the band and inside the grown bounding box it must be present.
//
// Large clouds are not certified for general position (random doubles: the chance of a
// quadruple within double-precision resolution of co-circular is negligible); the
// in-circle verdicts keep the 1e-9 don't-care band.

import (
	"fmt"
	"math"
	"math/big"
	"math/rand"
	"sort"

	"polyverif/internal/run"
)

type largeStats struct {
	triangles, interiorEdges, boundaryEdges int
	gridPairs, samplePairs, overlapPairs    int64
	required, requiredPresent               int
	bandInside                              int
	covered, truncated                      bool
}

type circ struct {
	cx, cy, r float64
	inf       bool
}

func circumcircle(a, b, c pt) circ {
	bx, by := b.x-a.x, b.y-a.y
	cx, cy := c.x-a.x, c.y-a.y
	den := 2 * (bx*cy - by*cx)
	if den == 0 {
		return circ{inf: true}
	}
	ux := (cy*(bx*bx+by*by) - by*(cx*cx+cy*cy)) / den
	uy := (bx*(cx*cx+cy*cy) - cx*(bx*bx+by*by)) / den
	r := math.Hypot(ux, uy)
	if math.IsInf(r, 0) || math.IsNaN(r) {
		return circ{inf: true}
	}
	return circ{a.x + ux, a.y + uy, r * (1 + 1e-6), false}
}

// rankGrid buckets the input points by the ranks of their coordinates.
type rankGrid struct {
	xs, ys []float64 // sorted coordinates
	g      int       // cells per side
	cell   [][]int
	n      int
}

func newRankGrid(P []pt, perCell int) *rankGrid {
	n := len(P)
	rg := &rankGrid{n: n}
	rg.xs, rg.ys = make([]float64, n), make([]float64, n)
	for i, p := range P {
		rg.xs[i], rg.ys[i] = p.x, p.y
	}
	sort.Float64s(rg.xs)
	sort.Float64s(rg.ys)
	rg.g = int(math.Sqrt(float64(n)/float64(perCell))) + 1
	rg.cell = make([][]int, rg.g*rg.g)
	for i, p := range P {
		cx, cy := rg.cellOf(p.x, rg.xs), rg.cellOf(p.y, rg.ys)
		rg.cell[cy*rg.g+cx] = append(rg.cell[cy*rg.g+cx], i)
	}
	return rg
}

// cellOf: the cell of the coordinate value v (rank of the first element >= v).
func (rg *rankGrid) cellOf(v float64, sorted []float64) int {
	k := sort.SearchFloat64s(sorted, v)
	c := k * rg.g / (rg.n + 1)
	if c >= rg.g {
		c = rg.g - 1
	}
	return c
}

// checkLarge judges one triangulation of a large cloud.
func checkLarge(P []pt, idx []int, r *rand.Rand) (fs []finding, st largeStats) {
	n := len(P)
	add := func(class, detail string, w map[string]any) {
		for _, f := range fs {
			if f.class == class {
				return
			}
		}
		fs = append(fs, finding{class, detail, w})
	}
	has := func(class string) bool {
		for _, f := range fs {
			if f.class == class {
				return true
			}
		}
		return false
	}
	coords := func(is ...int) [][2]float64 {
		o := make([][2]float64, len(is))
		for k, i := range is {
			o[k] = [2]float64{P[i].x, P[i].y}
		}
		return o
	}
	if len(idx)%3 != 0 {
		add("index-count", fmt.Sprintf("%d indices is not a multiple of 3", len(idx)), nil)
		return
	}
	for _, i := range idx {
		if i < 0 || i >= n {
			add("foreign-vertex", fmt.Sprintf("index %d refers to no input point (n=%d)", i, n), nil)
			return
		}
	}
	m := len(idx) / 3
	st.triangles = m
	T := make([]tri, m)
	O := make([]int, m)
	present := make(map[tri]int, m)
	area2 := new(big.Rat)
	pos, neg := 0, 0
	for t := 0; t < m; t++ {
		T[t] = tri{idx[3*t], idx[3*t+1], idx[3*t+2]}
		if T[t][0] == T[t][1] || T[t][1] == T[t][2] || T[t][0] == T[t][2] {
			add("zero-area-triangle", fmt.Sprintf("triangle %d = %v repeats a vertex", t, T[t]), map[string]any{"triangle": T[t]})
			continue
		}
		a, b, c := P[T[t][0]], P[T[t][1]], P[T[t][2]]
		O[t] = orient(a, b, c)
		switch {
		case O[t] > 0:
			pos++
		case O[t] < 0:
			neg++
		default:
			add("zero-area-triangle", fmt.Sprintf("triangle %d = %v has exactly zero area: %v", t, T[t], coords(T[t][:]...)), map[string]any{"triangle": T[t], "points": coords(T[t][:]...)})
		}
		ar := orient2Exact(a, b, c)
		area2.Add(area2, ar.Abs(ar))
		present[T[t].key()]++
		if present[T[t].key()] == 2 {
			add("overlap", fmt.Sprintf("triangle %v occurs more than once", T[t].key()), map[string]any{"triangle": T[t].key()})
		}
	}
	if pos > 0 && neg > 0 {
		add("mixed-winding", fmt.Sprintf("%d counter-clockwise and %d clockwise triangles in one output", pos, neg), nil)
	}
	// edge structure
	type de struct{ u, v int }
	edge := make(map[de]int, 3*m)
	for t := 0; t < m; t++ {
		if O[t] == 0 {
			continue
		}
		for e := 0; e < 3; e++ {
			k := de{T[t][e], T[t][(e+1)%3]}
			if s, dup := edge[k]; dup && O[s] == O[t] {
				add("overlap", fmt.Sprintf("the directed edge %d->%d is used by the equally wound triangles %v and %v: they lie on the same side of it", k.u, k.v, T[s], T[t]),
					map[string]any{"a": T[s], "b": T[t], "a_points": coords(T[s][:]...), "b_points": coords(T[t][:]...)})
			}
			edge[k] = t
		}
	}
	// local Delaunay criterion on every interior edge
	type bedge struct{ t, e int }
	var boundary []bedge
	for t := 0; t < m; t++ {
		if O[t] == 0 {
			continue
		}
		for e := 0; e < 3; e++ {
			u, v := T[t][e], T[t][(e+1)%3]
			s, ok := edge[de{v, u}]
			if !ok {
				boundary = append(boundary, bedge{t, e})
				continue
			}
			if s < t || O[s] == 0 {
				continue
			}
			st.interiorEdges++
			x := -1
			for _, q := range T[s] {
				if q != u && q != v {
					x = q
				}
			}
			if x < 0 {
				continue
			}
			side, rel := inCircum(P[T[t][0]], P[T[t][1]], P[T[t][2]], P[x], O[t])
			if side > 0 {
				if rel <= band {
					st.bandInside++
					continue
				}
				add("circumcircle-not-empty", fmt.Sprintf("local Delaunay criterion fails on edge %d-%d: vertex %d %v of triangle %v lies strictly inside the circumcircle of the adjacent triangle %v %v (|det|/scale = %.3g)", u, v, x, coords(x)[0], T[s], T[t], coords(T[t][:]...), rel),
					map[string]any{"triangle": T[t], "triangle_points": coords(T[t][:]...), "point": x, "point_xy": coords(x)[0], "relative_depth": rel})
			}
		}
	}
	st.boundaryEdges = len(boundary)
	// global in-circle test through the point grid
	pg := newRankGrid(P, 2)
	const workCap = 60_000_000
	for t := 0; t < m && !has("circumcircle-not-empty"); t++ {
		if O[t] == 0 {
			continue
		}
		a, b, c := P[T[t][0]], P[T[t][1]], P[T[t][2]]
		cc := circumcircle(a, b, c)
		x0, x1, y0, y1 := 0, pg.g-1, 0, pg.g-1
		if !cc.inf {
			x0, x1 = pg.cellOf(cc.cx-cc.r, pg.xs), pg.cellOf(cc.cx+cc.r, pg.xs)
			y0, y1 = pg.cellOf(cc.cy-cc.r, pg.ys), pg.cellOf(cc.cy+cc.r, pg.ys)
		}
		if st.gridPairs > workCap {
			st.truncated = true
			break
		}
	scan:
		for cy := y0; cy <= y1; cy++ {
			for cx := x0; cx <= x1; cx++ {
				for _, q := range pg.cell[cy*pg.g+cx] {
					if q == T[t][0] || q == T[t][1] || q == T[t][2] {
						continue
					}
					st.gridPairs++
					side, rel := inCircum(a, b, c, P[q], O[t])
					if side > 0 {
						if rel <= band {
							st.bandInside++
							continue
						}
						add("circumcircle-not-empty", fmt.Sprintf("input point %d %v lies strictly inside the circumcircle of output triangle %v %v (|det|/scale = %.3g, band %.0e)", q, coords(q)[0], T[t], coords(T[t][:]...), rel, band),
							map[string]any{"triangle": T[t], "triangle_points": coords(T[t][:]...), "point": q, "point_xy": coords(q)[0], "relative_depth": rel})
						break scan
					}
				}
			}
		}
	}
	// random pairs (independent of the grid)
	for k := 0; k < 5000 && m > 0 && !has("circumcircle-not-empty"); k++ {
		t, q := r.Intn(m), r.Intn(n)
		if O[t] == 0 || q == T[t][0] || q == T[t][1] || q == T[t][2] {
			continue
		}
		st.samplePairs++
		if side, rel := inCircum(P[T[t][0]], P[T[t][1]], P[T[t][2]], P[q], O[t]); side > 0 && rel > band {
			add("circumcircle-not-empty", fmt.Sprintf("input point %d %v lies strictly inside the circumcircle of output triangle %v %v (|det|/scale = %.3g; found by random sampling, missed by the grid)", q, coords(q)[0], T[t], coords(T[t][:]...), rel),
				map[string]any{"triangle": T[t], "point": q})
		}
	}
	// area against the hull
	hull := hullExact(P)
	hull2 := polyArea2Exact(hull)
	switch area2.Cmp(hull2) {
	case 1:
		af, _ := area2.Float64()
		hf, _ := hull2.Float64()
		add("overlap", fmt.Sprintf("the triangle areas sum to %.17g, more than the convex hull's %.17g (ratio-1 = %.3g)", af/2, hf/2, af/hf-1), nil)
	case 0:
		st.covered = true
	}
	// pairwise overlap through a triangle grid in rank space
	if !has("overlap") && m > 0 {
		g := int(math.Sqrt(float64(m)/2)) + 1
		type rbox struct {
			x0, x1, y0, y1     int     // cells
			fx0, fx1, fy0, fy1 float64 // coordinates
		}
		rk := func(v float64, sorted []float64) int {
			c := sort.SearchFloat64s(sorted, v) * g / (n + 1)
			if c >= g {
				c = g - 1
			}
			return c
		}
		B := make([]rbox, m)
		cells := make([][]int32, g*g)
		for t := range T {
			if O[t] == 0 {
				continue
			}
			a, b, c := P[T[t][0]], P[T[t][1]], P[T[t][2]]
			bx := rbox{fx0: math.Min(a.x, math.Min(b.x, c.x)), fx1: math.Max(a.x, math.Max(b.x, c.x)), fy0: math.Min(a.y, math.Min(b.y, c.y)), fy1: math.Max(a.y, math.Max(b.y, c.y))}
			bx.x0, bx.x1, bx.y0, bx.y1 = rk(bx.fx0, pg.xs), rk(bx.fx1, pg.xs), rk(bx.fy0, pg.ys), rk(bx.fy1, pg.ys)
			B[t] = bx
			for cy := bx.y0; cy <= bx.y1; cy++ {
				for cx := bx.x0; cx <= bx.x1; cx++ {
					cells[cy*g+cx] = append(cells[cy*g+cx], int32(t))
				}
			}
		}
	pairs:
		for cy := 0; cy < g; cy++ {
			for cx := 0; cx < g; cx++ {
				l := cells[cy*g+cx]
				for i := 0; i < len(l); i++ {
					for j := i + 1; j < len(l); j++ {
						s, t := int(l[i]), int(l[j])
						// each pair is examined once: in the cell holding the lower-left corner of the boxes' intersection
						if imax(B[s].x0, B[t].x0) != cx || imax(B[s].y0, B[t].y0) != cy {
							continue
						}
						if B[s].fx1 <= B[t].fx0 || B[t].fx1 <= B[s].fx0 || B[s].fy1 <= B[t].fy0 || B[t].fy1 <= B[s].fy0 {
							continue
						}
						st.overlapPairs++
						if triOverlap(P, T[s], T[t], O[s], O[t]) {
							add("overlap", fmt.Sprintf("the interiors of output triangles %v %v and %v %v intersect", T[s], coords(T[s][:]...), T[t], coords(T[t][:]...)),
								map[string]any{"a": T[s], "b": T[t], "a_points": coords(T[s][:]...), "b_points": coords(T[t][:]...)})
							break pairs
						}
						if st.overlapPairs > workCap/4 {
							st.truncated = true
							break pairs
						}
					}
				}
			}
		}
	}
	// non-vacuity: Delaunay triangles that have to be there
	minx, maxx, miny, maxy := math.Inf(1), math.Inf(-1), math.Inf(1), math.Inf(-1)
	for _, p := range P {
		minx, maxx = math.Min(minx, p.x), math.Max(maxx, p.x)
		miny, maxy = math.Min(miny, p.y), math.Max(maxy, p.y)
	}
	grow := 0.49 * math.Max(maxx-minx, maxy-miny)
	// requiredOn: the Delaunay triangle on the given side (sign of orient(u,v,.)) of the edge u-v, if it is
	// robustly empty and interior; ok=false otherwise.
	requiredOn := func(u, v, side int) (tri, bool) {
		w := -1
		for q := 0; q < n; q++ {
			if q == u || q == v || orient(P[u], P[v], P[q]) != side {
				continue
			}
			if w < 0 {
				w = q
				continue
			}
			if s, _ := inCircum(P[u], P[v], P[w], P[q], side); s > 0 {
				w = q
			}
		}
		if w < 0 {
			return tri{}, false
		}
		for q := 0; q < n; q++ {
			if q == u || q == v || q == w {
				continue
			}
			s, rel := inCircum(P[u], P[v], P[w], P[q], side)
			if s >= 0 || rel <= band {
				return tri{}, false
			}
		}
		cc := circumcircle(P[u], P[v], P[w])
		if cc.inf || !(cc.cx-cc.r >= minx-grow && cc.cx+cc.r <= maxx+grow && cc.cy-cc.r >= miny-grow && cc.cy+cc.r <= maxy+grow) {
			return tri{}, false
		}
		return tri{u, v, w}.key(), true
	}
	need := func(k tri, why string) {
		st.required++
		if present[k] > 0 {
			st.requiredPresent++
			return
		}
		add("delaunay-triangle-missing", fmt.Sprintf("the Delaunay triangle %v %v (empty circumcircle well inside the points' bounding box; %s) is not in the output of %d triangles", k, coords(k[:]...), why, m),
			map[string]any{"triangle": k, "triangle_points": coords(k[:]...), "output_triangles": m})
	}
	// (i) open sides of boundary edges (all of them up to 400, else a random 400)
	bs := boundary
	if len(bs) > 400 {
		r.Shuffle(len(bs), func(i, j int) { bs[i], bs[j] = bs[j], bs[i] })
		bs = bs[:400]
	}
	for _, be := range bs {
		u, v := T[be.t][be.e], T[be.t][(be.e+1)%3]
		if k, ok := requiredOn(u, v, -O[be.t]); ok {
			need(k, fmt.Sprintf("it is the Delaunay neighbour across the boundary edge %d-%d of output triangle %v", u, v, T[be.t]))
		}
	}
	// (ii) both sides of nearest-neighbour edges of sampled points
	for k := 0; k < 40; k++ {
		p := r.Intn(n)
		q, best := -1, math.Inf(1)
		for j := 0; j < n; j++ {
			if j != p {
				if d := math.Hypot(P[j].x-P[p].x, P[j].y-P[p].y); d < best {
					q, best = j, d
				}
			}
		}
		for _, side := range []int{1, -1} {
			if kk, ok := requiredOn(p, q, side); ok {
				need(kk, fmt.Sprintf("it is adjacent to the nearest-neighbour edge %d-%d", p, q))
			}
		}
	}
	return
}

var largeQuickSizes = []int{2100, 2500, 3000, 4100, 6000, 8000}

func largeCase(c *run.Ctx) run.Result {
	var res run.Result
	defer flushStats(&res)
	r := c.SubRng(11)
	n := 0
	if c.Tier != "thorough" || c.Case < len(largeQuickSizes) {
		n = largeQuickSizes[c.Case%len(largeQuickSizes)]
	} else {
		n = 2048 + r.Intn(17953)
		if r.Intn(3) == 0 {
			n = 2048 + r.Intn(6000)
		}
	}
	class := []string{"uniform", "gaussian", "clustered"}[c.Case%3]
	ext := math.Pow(10, float64(r.Intn(6)-2)) * (1 + 8*r.Float64())
	aspect := []float64{1, 1, 3}[r.Intn(3)]
	var P []pt
	for attempt := 0; ; attempt++ {
		P, _ = basePoints(r, class, n, 1)
		if class == "clustered" { // keep the clusters wide enough for a cloud of this size
			P = P[:0]
			k := 2 + r.Intn(5)
			type cl struct {
				c pt
				s float64
			}
			cs := make([]cl, k)
			for i := range cs {
				cs[i] = cl{pt{r.Float64(), r.Float64()}, 0.02 + 0.1*r.Float64()}
			}
			for len(P) < n {
				cc := cs[r.Intn(k)]
				P = append(P, pt{cc.c.x + cc.s*r.NormFloat64(), cc.c.y + cc.s*r.NormFloat64()})
			}
		}
		for i, q := range P {
			P[i] = pt{ext * q.x, ext / aspect * q.y}
		}
		seen := make(map[pt]bool, n)
		dup := false
		for _, q := range P {
			if seen[q] {
				dup = true
				break
			}
			seen[q] = true
		}
		if !dup {
			break
		}
		if attempt > 4 {
			res.Inconclusive = "degenerate: duplicate points in five draws"
			return res
		}
	}
	w := workload{Class: class, N: n, ExtentDec: decadeOf(ext), Aspect: aspect, OffsetDec: -99}
	if aspect > 1 {
		w.FlatAxis = "y"
	}
	res.Sig = fmt.Sprintf("large/%s/n%d", class, n)
	res.SetAdd("large_sizes", fmt.Sprint(n))
	res.SetAdd("large_classes", class)
	c.Note(res.Sig)
	idx, ok := triangulate(&res, P, false, "large/"+class)
	if !ok {
		return res
	}
	fs, st := checkLarge(P, idx, r)
	report(&res, fs, P, w, nil, "large cloud")
	res.Count("large_sets", 1)
	res.Count("large_points", int64(n))
	res.Count("large_triangles_checked", int64(st.triangles))
	res.Count("large_interior_edges_local_criterion", int64(st.interiorEdges))
	res.Count("large_boundary_edges", int64(st.boundaryEdges))
	res.Count("large_incircle_pairs_via_grid", st.gridPairs)
	res.Count("large_incircle_pairs_sampled", st.samplePairs)
	res.Count("large_overlap_pairs_tested_exactly", st.overlapPairs)
	res.Count("large_required_triangles", int64(st.required))
	res.Count("large_required_triangles_present", int64(st.requiredPresent))
	if st.bandInside > 0 {
		res.Count("dont_care_pairs_inside_within_band", int64(st.bandInside))
	}
	if st.covered {
		res.Count("large_outputs_covering_the_hull_exactly", 1)
	}
	if st.truncated {
		res.Count("large_scans_truncated_by_work_cap", 1)
	}
	res.Nontrivial = st.triangles > n && st.requiredPresent > 0
	res.Sample = map[string]any{"class": class, "n": n, "triangles": st.triangles, "boundary_edges": st.boundaryEdges, "required": st.required, "grid_pairs": st.gridPairs}
	return res
}

func decadeOf(x float64) int { return int(math.Floor(math.Log10(x))) }
