package c20

// Call sequences: BowyerWatson must be a function of its argument. A case makes
// 3-6 calls on one goroutine, mixing ConstrainedBowyerWatson (with outlines that
// really cut triangles) and plain BowyerWatson on fresh point sets; every plain
// output is judged by the full oracle, the constrained outputs by what applies to
// them (no panic, well-formed, the input points are the first vertices). A case
// always ends with plain calls so that nothing a constrained call may leave
// behind reaches the next case unobserved.

import (
	"fmt"
	"math"

	"github.com/EliCDavis/polyform/modeling"
	"github.com/EliCDavis/polyform/modeling/triangulation"
	"github.com/EliCDavis/vector/vector2"
	"polyverif/internal/ref"
	"polyverif/internal/run"
)

func sequenceCase(c *run.Ctx) run.Result {
	var res run.Result
	defer flushStats(&res)
	r := c.SubRng(3)
	// the plan: C = constrained, P = plain
	// D (round 7): a call on a DEGENERATE input - fewer than 3 points, all collinear, all equal, duplicates of a
	// good set, NaN / infinite coordinates, exactly co-circular or grid points. Its result is not judged (the
	// property speaks of points in general position), but whatever it leaves behind must not reach the plain
	// calls that follow.
	plans := []string{"CP", "CPP", "PCP", "CCP", "CPCP", "PPCPP", "CPCCP", "CcP", "PPPP", "PCPPP", "CPPCP", "PPPPPP", "DP", "PDP", "CDP", "DDPP", "PDCP"}
	plan := plans[c.Case%len(plans)]
	if r.Intn(4) == 0 {
		plan = plans[r.Intn(len(plans))]
	}
	res.Sig = "seq/" + plan
	res.SetAdd("sequence_plans", plan)
	var w workload
	prevCut := false
	nontrivial := true
	// call sizes: big, small, equal, bigger, half, ... so that later index lists fit into (or outgrow) earlier ones
	n0 := 30 + r.Intn(50)
	sizes := []int{n0, n0/3 + 4, n0/3 + 4, n0 + 20, n0 / 2, n0/3 + 4, n0}
	var keep keeper
	for step, kind := range plan {
		nCall := sizes[step%len(sizes)]
		if kind == 'D' {
			pts, what := degenerateInput(r, nCall)
			c.Note(fmt.Sprintf("step %d degenerate input (%s), result not judged", step, what))
			constrained := r.Intn(4) == 0
			if p := run.Try(func() {
				if constrained {
					_ = triangulation.ConstrainedBowyerWatson(pts, []triangulation.Constraint{triangulation.NewConstraint([]vector2.Float64{vector2.New(0.2, 0.2), vector2.New(0.8, 0.25), vector2.New(0.5, 0.9)})})
				} else {
					_ = triangulation.BowyerWatson(pts)
				}
			}); p != nil {
				res.Count("degenerate_calls_that_panicked", 1)
			}
			res.Count("degenerate_calls_before_a_judged_call", 1)
			res.SetAdd("degenerate_input_kinds", what)
			if !keep.recheck(&res, fmt.Sprintf("call %d (degenerate input: %s)", step+1, what), len(keep.all), 2, r) {
				return res
			}
			continue
		}
		switch kind {
		case 'C', 'c':
			// a point cloud and one or two outlines through its middle
			n := imax(8, nCall)
			ext := math.Pow(10, float64(r.Intn(5)-2))
			ox, oy := 0., 0.
			if r.Intn(2) == 0 {
				ox, oy = ext*10*(r.Float64()-0.5), ext*100*(r.Float64()-0.5)
			}
			pts := make([]vector2.Float64, n)
			for i := range pts {
				pts[i] = vector2.New(ox+ext*r.Float64(), oy+ext*r.Float64())
			}
			var cons []triangulation.Constraint
			nc := 1
			if kind == 'c' || r.Intn(5) == 0 {
				nc = 2
			}
			for k := 0; k < nc; k++ {
				kk := 3 + r.Intn(6)
				shape := make([]vector2.Float64, kk)
				rad := (0.15 + 0.3*r.Float64()) * ext
				if kind == 'c' && k == 1 {
					rad = 3 * ext // contains every point: nothing is cut
				}
				cx, cy := ox+ext*(0.4+0.2*r.Float64()), oy+ext*(0.4+0.2*r.Float64())
				for i := range shape {
					a := 2 * math.Pi * (float64(i) + 0.3*r.Float64()) / float64(kk)
					shape[i] = vector2.New(cx+rad*math.Cos(a), cy+rad*math.Sin(a))
				}
				cons = append(cons, triangulation.NewConstraint(shape))
			}
			in := append([]vector2.Float64{}, pts...)
			var m modeling.Mesh
			c.Note(fmt.Sprintf("step %d constrained n=%d", step, n))
			if p := run.Try(func() { m = triangulation.ConstrainedBowyerWatson(in, cons) }); p != nil {
				res.Violate("runtime-panic", "triangulation.ConstrainedBowyerWatson", "sequence "+plan, p.Value+" at "+p.Site, map[string]any{"plan": plan, "step": step, "n": n})
				return res
			}
			res.Count("constrained_calls", 1)
			cut := false
			if p := run.Try(func() {
				if err := ref.WF(m); err != nil {
					res.Violate("constrained-output-malformed", "triangulation.ConstrainedBowyerWatson", "sequence "+plan, err.Error(), map[string]any{"plan": plan, "step": step, "n": n})
					return
				}
				pos := m.Float3Attribute(modeling.PositionAttribute)
				if pos.Len() < n {
					res.Violate("vertex-mismatch", "triangulation.ConstrainedBowyerWatson", "sequence "+plan, fmt.Sprintf("%d input points, %d vertices", n, pos.Len()), nil)
					return
				}
				for i := 0; i < n; i++ {
					v := pos.At(i)
					if v.X() != pts[i].X() || v.Z() != pts[i].Y() || v.Y() != 0 {
						res.Violate("vertex-mismatch", "triangulation.ConstrainedBowyerWatson", "sequence "+plan, fmt.Sprintf("vertex %d is not input point %d", i, i), nil)
						return
					}
				}
				cut = pos.Len() > n
			}); p != nil {
				res.Violate("runtime-panic", "triangulation.ConstrainedBowyerWatson result", "sequence "+plan, p.Value, nil)
				return res
			}
			if cut {
				res.Count("constrained_calls_that_cut_triangles", 1)
			}
			prevCut = cut
			later := fmt.Sprintf("call %d (constrained, %d points)", step+1, n)
			if !keep.recheck(&res, later, len(keep.all), 2, r) {
				return res
			}
			mc := m
			keep.add(&res, mc, later, func(idx []int) []finding {
				if err := ref.WF(mc); err != nil {
					return []finding{{class: "constrained-output-malformed", detail: err.Error()}}
				}
				return nil
			})
		default:
			P, ww, ok := drawCertifiedAt(c, &res, nCall, uint64(step+1), c.Case+step)
			if !ok {
				return res
			}
			w = ww
			record(&res, w)
			dt := bruteDelaunay(P)
			hull2 := polyArea2Exact(hullExact(P))
			c.Note(fmt.Sprintf("step %d plain %s", step, w.sig()))
			mp, idx, ok1 := triangulateKeep(&res, P, r.Intn(3) == 0, w.Class+"/after "+plan[:step])
			if !ok1 {
				return res
			}
			later := fmt.Sprintf("call %d (plain, %d points)", step+1, len(P))
			if !keep.recheck(&res, later, len(keep.all), 2, r) {
				return res
			}
			keep.add(&res, mp, later, func(idx []int) []finding { fs, _ := checkOutput(P, idx, dt, hull2); return fs })
			fs, st := checkOutput(P, idx, dt, hull2)
			label := fmt.Sprintf("call %d of sequence %s", step+1, plan)
			if step > 0 && (plan[step-1] == 'C' || plan[step-1] == 'c') {
				label += " (right after a constrained call)"
				if prevCut {
					res.Count("plain_calls_right_after_a_cutting_constrained_call", 1)
				}
			}
			report(&res, fs, P, w, nil, label)
			account(&res, st)
			res.Count("plain_calls_in_sequences", 1)
			if st.requiredPresent == 0 {
				nontrivial = false
			}
			if len(fs) > 0 {
				return res
			}
			prevCut = false
		}
	}
	keep.recheck(&res, "the last call of the case", len(keep.all), imin(len(keep.all), 6), r)
	res.Nontrivial = nontrivial
	if c.Case < 4 {
		res.Sample = map[string]any{"plan": plan, "last_plain_workload": w}
	}
	return res
}

// degenerateInput draws an input outside the property's domain (see plan letter D).
func degenerateInput(r interface {
	Intn(int) int
	Float64() float64
}, n int) ([]vector2.Float64, string) {
	n = imax(4, n)
	pts := make([]vector2.Float64, 0, 2*n)
	switch r.Intn(9) {
	case 0:
		k := r.Intn(3)
		for i := 0; i < k; i++ {
			pts = append(pts, vector2.New(r.Float64(), r.Float64()))
		}
		return pts, "fewer than 3 points"
	case 1:
		dx, dy := r.Float64()-0.5, r.Float64()-0.5
		for i := 0; i < n; i++ {
			pts = append(pts, vector2.New(float64(i)*dx, float64(i)*dy))
		}
		return pts, "all collinear"
	case 2:
		x, y := r.Float64(), r.Float64()
		for i := 0; i < n; i++ {
			pts = append(pts, vector2.New(x, y))
		}
		return pts, "all equal"
	case 3:
		for i := 0; i < n; i++ {
			pts = append(pts, vector2.New(r.Float64(), r.Float64()))
		}
		pts = append(pts, pts[:n/2+1]...)
		return pts, "duplicated points"
	case 4, 5:
		for i := 0; i < n; i++ {
			pts = append(pts, vector2.New(r.Float64(), r.Float64()))
		}
		bad, what := math.NaN(), "NaN coordinate"
		if r.Intn(2) == 0 {
			bad, what = math.Inf(1-2*r.Intn(2)), "infinite coordinate"
		}
		k := r.Intn(n)
		if r.Intn(2) == 0 {
			pts[k] = vector2.New(bad, pts[k].Y())
		} else {
			pts[k] = vector2.New(pts[k].X(), bad)
		}
		return pts, what
	case 6:
		for i := 0; i < 4; i++ {
			a := float64(i) * math.Pi / 2
			pts = append(pts, vector2.New(math.Round(math.Cos(a)), math.Round(math.Sin(a))))
		}
		return pts, "exactly co-circular"
	case 7:
		k := 2 + r.Intn(5)
		for i := 0; i < k; i++ {
			for j := 0; j < k; j++ {
				pts = append(pts, vector2.New(float64(i), float64(j)))
			}
		}
		return pts, "exact grid"
	default:
		for i := 0; i < n; i++ {
			pts = append(pts, vector2.New(1e300*(r.Float64()-0.5), 1e-300*r.Float64()))
		}
		return pts, "coordinates near the ends of the float range"
	}
}
