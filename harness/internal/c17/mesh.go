package c17

import (
	"fmt"
	"strings"

	"github.com/EliCDavis/polyform/modeling"
	"github.com/EliCDavis/polyform/modeling/meshops"
	"polyverif/internal/gen"
	"polyverif/internal/run"
)

func positions(m modeling.Mesh) []v3 {
	it := m.Float3Attribute(modeling.PositionAttribute)
	out := make([]v3, it.Len())
	for i := range out {
		out[i] = vOf(it.At(i))
	}
	return out
}

// meshCase: a generated mesh goes through a chain of 1-4 mesh-level transforms;
// after every step each position must be where the reference transform (own
// matrix arithmetic) puts the corresponding input position, and where polyform's
// own point-level transform puts it.
func meshCase(c *run.Ctx) run.Result {
	var res run.Result
	r := c.Rng
	topos := []modeling.Topology{modeling.TriangleTopology, modeling.PointTopology, modeling.LineTopology, modeling.LineStripTopology, modeling.QuadTopology}
	vc := []string{"smallint", "f64", "f64", "tiny", "large", "f32"}[r.Intn(6)]
	m, d := gen.Mesh(r, gen.MeshOpts{Topologies: []modeling.Topology{topos[r.Intn(len(topos))]}, MaxVerts: 60, AllowEmpty: true, ValueClass: vc})
	if !m.HasFloat3Attribute(modeling.PositionAttribute) {
		res.Sig = "no-position"
		res.Count("mesh_without_position", 1)
		return res
	}
	cur := positions(m)
	n0 := len(cur)
	steps := 1 + r.Intn(4)
	var names []string
	for s := 0; s < steps; s++ {
		var next modeling.Mesh
		var want, viaPoint []v3
		var mags []float64
		op := ""
		switch r.Intn(7) {
		case 0:
			g := genQuat(r)
			op = "Mesh.Rotate"
			rot := g.rotation()
			for _, p := range cur {
				want = append(want, rot.apply(p))
				mags = append(mags, vnorm(p))
			}
			if !guard(&res, op, func() {
				next = m.Rotate(g.q)
				for _, p := range cur {
					viaPoint = append(viaPoint, vOf(g.q.Rotate(p.vec())))
				}
			}) {
				return res
			}
		case 1:
			t, _ := genVec(r, -3, 4)
			op = "Mesh.Translate"
			for _, p := range cur {
				want = append(want, vadd(p, t))
				mags = append(mags, vnorm(p)+vnorm(t))
			}
			if !guard(&res, op, func() { next = m.Translate(t.vec()) }) {
				return res
			}
			viaPoint = want
		case 2:
			sc, _ := genScale(r)
			op = "Mesh.Scale"
			for _, p := range cur {
				want = append(want, vmul(p, sc))
				mags = append(mags, vnorm(vmul(p, sc)))
			}
			if !guard(&res, op, func() { next = m.Scale(sc.vec()) }) {
				return res
			}
			viaPoint = want
		case 3, 4:
			g := genTRS(r)
			op = "Mesh.ApplyTRS"
			for _, p := range cur {
				w, mag := g.refTransform(p)
				want = append(want, w)
				mags = append(mags, mag)
			}
			if !guard(&res, op, func() {
				next = m.ApplyTRS(g.T)
				for _, p := range cur {
					viaPoint = append(viaPoint, vOf(g.T.Transform(p.vec())))
				}
			}) {
				return res
			}
		case 5:
			g := genQuat(r)
			op = "meshops.RotateAttribute3D"
			rot := g.rotation()
			for _, p := range cur {
				want = append(want, rot.apply(p))
				mags = append(mags, vnorm(p))
			}
			if !guard(&res, op, func() {
				next = m.Transform(meshops.RotateAttribute3DTransformer{Amount: g.q})
				for _, p := range cur {
					viaPoint = append(viaPoint, vOf(g.q.Rotate(p.vec())))
				}
			}) {
				return res
			}
		default:
			if r.Intn(2) == 0 {
				t, _ := genVec(r, -3, 4)
				op = "meshops.TranslateAttribute3D"
				for _, p := range cur {
					want = append(want, vadd(p, t))
					mags = append(mags, vnorm(p)+vnorm(t))
				}
				if !guard(&res, op, func() { next = m.Transform(meshops.TranslateAttribute3DTransformer{Amount: t.vec()}) }) {
					return res
				}
			} else {
				sc, _ := genScale(r)
				o, _ := genVec(r, -2, 2)
				op = "meshops.ScaleAttribute3D"
				for _, p := range cur {
					want = append(want, vadd(o, vmul(vsub(p, o), sc)))
					mags = append(mags, vnorm(o)+vnorm(vmul(vsub(p, o), sc))+vnorm(p)*vmaxabs(sc))
				}
				if !guard(&res, op, func() { next = m.Transform(meshops.ScaleAttribute3DTransformer{Origin: o.vec(), Amount: sc.vec()}) }) {
					return res
				}
			}
			viaPoint = want
		}
		names = append(names, op)
		res.SetAdd("mesh_ops", op)
		if !next.HasFloat3Attribute(modeling.PositionAttribute) {
			res.Violate("positions-lost", op, d.Sig(), "the result has no position attribute", nil)
			return res
		}
		got := positions(next)
		if len(got) != n0 {
			res.Violate("position-count-changed", op, d.Sig(), fmt.Sprintf("%d positions in, %d out", n0, len(got)), nil)
			return res
		}
		for i := range got {
			res.Count("mesh_positions", 1)
			tol := 1e-9*mags[i] + 1e-300
			if e := vdist(got[i], want[i]); !(e <= tol) {
				res.Violate("mesh-position-mismatch", op, d.Sig(),
					fmt.Sprintf("step %d (%s) vertex %d: position %s expected at %s, observed %s (off by %.3g, tolerance %.3g)", s, op, i, f3(cur[i]), f3(want[i]), f3(got[i]), e, tol),
					map[string]any{"chain": names, "vertex": i, "before": cur[i], "expected": want[i], "observed": got[i]})
				break
			}
			// "exactly as the underlying transform moves points": a few ulps at most from the point-level result
			if e := vdist(got[i], viaPoint[i]); !(e <= 16*eps*mags[i]+1e-300) {
				res.Violate("mesh-vs-point-transform", op, d.Sig(),
					fmt.Sprintf("step %d (%s) vertex %d: mesh-level result %s differs from the point-level transform %s", s, op, i, f3(got[i]), f3(viaPoint[i])),
					map[string]any{"chain": names, "vertex": i, "before": cur[i]})
				break
			}
		}
		// the operand mesh still holds its positions (the transform returns a new mesh)
		m, cur = next, got
	}
	res.Nontrivial = n0 > 0
	res.Sig = fmt.Sprintf("%s/%s/v%d/%s", d.Topology, vc, bucket(n0), strings.Join(names, ">"))
	if c.Case < 6 && n0 > 0 {
		res.Sample = map[string]any{"mesh": d.Sig(), "chain": names, "first_position_after": cur[0]}
	}
	return res
}

func bucket(n int) int {
	switch {
	case n <= 2:
		return n
	case n <= 8:
		return 8
	case n <= 32:
		return 32
	}
	return 64
}
