package c17

import (
	"fmt"
	"math"
	"math/rand"

	"github.com/EliCDavis/polyform/math/mat"
	"polyverif/internal/run"
)

// genBasicMatrix draws an unstructured (or TRS / well-conditioned) 4x4 matrix; affine = bottom row is exactly (0,0,0,1).
func genBasicMatrix(r *rand.Rand) (m m4, kind string, affine bool) {
	s := pow10(r.Intn(7) - 3)
	switch r.Intn(9) {
	case 0, 1: // dense
		for i := 0; i < 4; i++ {
			for j := 0; j < 4; j++ {
				m[i][j] = (r.Float64()*2 - 1) * s
			}
		}
		return m, "dense", false
	case 2: // small integers
		for i := 0; i < 4; i++ {
			for j := 0; j < 4; j++ {
				m[i][j] = float64(r.Intn(7) - 3)
			}
		}
		return m, "int", false
	case 3: // rigid/affine from a TRS triple
		q := qOf(genQuat(r).q)
		t, _ := genVec(r, -2, 2)
		sc := v3{(0.5 + r.Float64()) * signOf(r), (0.5 + r.Float64()) * signOf(r), 0.5 + r.Float64()}
		return trsMatrix(t, q, sc), "affine-trs", true
	case 4: // dense affine
		for i := 0; i < 3; i++ {
			for j := 0; j < 4; j++ {
				m[i][j] = (r.Float64()*2 - 1) * s
			}
		}
		m[3][3] = 1
		return m, "affine-dense", true
	case 5, 6: // well conditioned by construction: rotations * diag * rotations
		m = ident4()
		for i := 0; i < 4; i++ {
			m[i][i] = (0.5 + 1.5*r.Float64()) * signOf(r)
		}
		for k := 0; k < 6; k++ {
			m, _ = mulRef(givens(r), m)
			m, _ = mulRef(m, givens(r))
		}
		for i := 0; i < 4; i++ {
			for j := 0; j < 4; j++ {
				m[i][j] *= s
			}
		}
		return m, "wellcond", false
	case 7: // sparse: many exact zeros
		for i := 0; i < 4; i++ {
			for j := 0; j < 4; j++ {
				if r.Intn(2) == 0 {
					m[i][j] = (r.Float64()*2 - 1) * s
				}
			}
		}
		return m, "sparse", false
	}
	// rows of very different magnitude
	for i := 0; i < 4; i++ {
		rs := pow10(r.Intn(7) - 3)
		for j := 0; j < 4; j++ {
			m[i][j] = (r.Float64()*2 - 1) * rs
		}
	}
	return m, "rowscaled", false
}

func signOf(r *rand.Rand) float64 { return float64(1 - 2*r.Intn(2)) }

func givens(r *rand.Rand) m4 {
	g := ident4()
	i := r.Intn(4)
	j := (i + 1 + r.Intn(3)) % 4
	t := r.Float64() * 2 * math.Pi
	c, s := math.Cos(t), math.Sin(t)
	g[i][i], g[j][j], g[i][j], g[j][i] = c, c, -s, s
	return g
}

func rowSums(a m4) (h float64, maxRow float64) {
	h = 1
	for i := 0; i < 4; i++ {
		s := 0.
		for j := 0; j < 4; j++ {
			s += math.Abs(a[i][j])
		}
		h *= s
		maxRow = math.Max(maxRow, s)
	}
	return
}

// perm3 is the permanent of the absolute values of the minor of a without row r and column c.
func perm3abs(a m4, r, c int) float64 {
	var m [3][3]float64
	ii := 0
	for i := 0; i < 4; i++ {
		if i == r {
			continue
		}
		jj := 0
		for j := 0; j < 4; j++ {
			if j == c {
				continue
			}
			m[ii][jj] = math.Abs(a[i][j])
			jj++
		}
		ii++
	}
	return m[0][0]*(m[1][1]*m[2][2]+m[1][2]*m[2][1]) + m[0][1]*(m[1][0]*m[2][2]+m[1][2]*m[2][0]) + m[0][2]*(m[1][0]*m[2][1]+m[1][1]*m[2][0])
}

func matrixCase(c *run.Ctx) run.Result {
	var res run.Result
	r := c.Rng
	A, ka, affA := genMatrix(r)
	B, kb, affB := genMatrix(r)
	C, kc, _ := genMatrix(r)
	p, _ := genVec(r, -3, 3)
	mA, mB, mC := maxabs4(A), maxabs4(B), maxabs4(C)
	in := ka + "," + kb
	wit := map[string]any{"A": A, "B": B}
	pa, pb, pc := toMat(A), toMat(B), toMat(C)
	I := mat.Identity()

	var sum, sumBA, prod, prodBA, ai, ia, ab_c, a_bc, aBplusC, abPlusAc, invA, aInv, invAa, at m4
	var detA, detB, detAB, detAT float64
	var mp, mpB, mpAB, mpA_Bp v3
	if !guard(&res, "Matrix4x4", func() {
		sum = fromMat(pa.Add(pb))
		sumBA = fromMat(pb.Add(pa))
		prod = fromMat(pa.Multiply(pb))
		prodBA = fromMat(pb.Multiply(pa))
		ai = fromMat(pa.Multiply(I))
		ia = fromMat(I.Multiply(pa))
		ab_c = fromMat(pa.Multiply(pb).Multiply(pc))
		a_bc = fromMat(pa.Multiply(pb.Multiply(pc)))
		aBplusC = fromMat(pa.Multiply(pb.Add(pc)))
		abPlusAc = fromMat(pa.Multiply(pb).Add(pa.Multiply(pc)))
		detA, detB = pa.Determinant(), pb.Determinant()
		detAB = pa.Multiply(pb).Determinant()
		at = transpose4(A)
		detAT = toMat(at).Determinant()
		inv := pa.Inverse()
		invA = fromMat(inv)
		aInv = fromMat(pa.Multiply(inv))
		invAa = fromMat(inv.Multiply(pa))
		mp = vOf(pa.MulPosition(p.vec()))
		mpB = vOf(pb.MulPosition(p.vec()))
		mpAB = vOf(pa.Multiply(pb).MulPosition(p.vec()))
		mpA_Bp = vOf(pa.MulPosition(mpB.vec()))
	}) {
		return res
	}

	// Add: entry-wise, exactly
	res.Count("add_checks", 1)
	if want := addRef(A, B); sum != want {
		_, i, j := eq4(sum, want)
		res.Violate("add-not-entrywise", "Matrix4x4.Add", in, fmt.Sprintf("entry (%d,%d): expected %.17g, observed %.17g; A=%s B=%s", i, j, want[i][j], sum[i][j], fm(A), fm(B)), wit)
	}
	if sum != sumBA {
		res.Violate("add-not-commutative", "Matrix4x4.Add", in, "A+B != B+A", wit)
	}
	// Multiply: row by column
	res.Count("multiply_checks", 1)
	want, abs := mulRef(A, B)
	for i := 0; i < 4; i++ {
		for j := 0; j < 4; j++ {
			if e := math.Abs(prod[i][j] - want[i][j]); !(e <= 8*eps*abs[i][j]+1e-300) {
				res.Violate("multiply-not-row-by-column", "Matrix4x4.Multiply", in,
					fmt.Sprintf("entry (%d,%d): expected row %d of A . column %d of B = %.17g, observed %.17g (transposed entry of the reference product %.17g, of B*A %.17g)", i, j, i, j, want[i][j], prod[i][j], want[j][i], prodBA[i][j]), wit)
			}
		}
	}
	if ai != A || ia != A {
		res.Violate("identity-law", "Matrix4x4.Multiply", ka, fmt.Sprintf("A*I = %s, I*A = %s, A = %s", fm(ai), fm(ia), fm(A)), wit)
	}
	// associativity and distributivity tie Multiply and Add together
	if e := maxabs4(sub4(ab_c, a_bc)); !(e <= 1e-12*64*mA*mB*mC) {
		res.Violate("multiply-not-associative", "Matrix4x4.Multiply", in, fmt.Sprintf("(AB)C and A(BC) differ by %.3g", e), map[string]any{"A": A, "B": B, "C": C})
	}
	if e := maxabs4(sub4(aBplusC, abPlusAc)); !(e <= 1e-12*16*mA*(mB+mC)) {
		res.Violate("not-distributive", "Matrix4x4.Multiply/Add", in+","+kc, fmt.Sprintf("A(B+C) and AB+AC differ by %.3g", e), map[string]any{"A": A, "B": B, "C": C})
	}
	// Determinant
	hA, _ := rowSums(A)
	hB, rB := rowSums(B)
	hAT, _ := rowSums(at)
	dRefA, dRefB := detRef(A), detRef(B)
	res.Count("determinant_checks", 1)
	if e := math.Abs(detA - dRefA); !(e <= 1e-12*hA) {
		res.Violate("determinant-mismatch", "Matrix4x4.Determinant", ka, fmt.Sprintf("det A: expected %.17g (cofactor recursion), observed %.17g; A=%s", dRefA, detA, fm(A)), wit)
	}
	if e := math.Abs(detB - dRefB); !(e <= 1e-12*hB) {
		res.Violate("determinant-mismatch", "Matrix4x4.Determinant", kb, fmt.Sprintf("det B: expected %.17g, observed %.17g; B=%s", dRefB, detB, fm(B)), wit)
	}
	if e := math.Abs(detAB - detA*detB); !(e <= 1e-11*hA*rB*rB*rB*rB) {
		res.Violate("determinant-not-multiplicative", "Matrix4x4.Determinant", in, fmt.Sprintf("det(AB) = %.17g, det A * det B = %.17g", detAB, detA*detB), wit)
	}
	if e := math.Abs(detAT - detA); !(e <= 1e-12*math.Max(hA, hAT)) {
		res.Violate("determinant-transpose", "Matrix4x4.Determinant", ka, fmt.Sprintf("det(A^T) = %.17g, det A = %.17g", detAT, detA), wit)
	}
	// Inverse: A A^-1 = A^-1 A = I with the rounding bound of the cofactor formula as tolerance
	invChecked := false
	pdet := 0.
	for j := 0; j < 4; j++ {
		pdet += math.Abs(A[0][j]) * perm3abs(A, 0, j)
	}
	if ref, ok := invRef(A); ok && dRefA != 0 && pdet/math.Abs(dRefA) <= 1e6 && finite4(ref) {
		invChecked = true
		res.Count("inverse_law_checked", 1)
		ad := math.Abs(dRefA)
		var dInv m4 // bound (in units of eps) on the error of inverse entry (j,k)
		for j := 0; j < 4; j++ {
			for k := 0; k < 4; k++ {
				dInv[j][k] = perm3abs(A, k, j)/ad + math.Abs(ref[j][k])*(pdet/ad+1)
			}
		}
		const K = 64
		right, _ := mulRef(A, invA) // own product, independent of Multiply
		left, _ := mulRef(invA, A)
		I4 := ident4()
		for i := 0; i < 4; i++ {
			for k := 0; k < 4; k++ {
				tr, tl := 0., 0.
				for j := 0; j < 4; j++ {
					tr += math.Abs(A[i][j]) * (dInv[j][k] + math.Abs(ref[j][k]))
					tl += (dInv[i][j] + math.Abs(ref[i][j])) * math.Abs(A[j][k])
				}
				tr, tl = K*eps*tr+1e-13, K*eps*tl+1e-13
				if e := math.Abs(right[i][k] - I4[i][k]); !(e <= tr) {
					res.Violate("inverse-law", "Matrix4x4.Inverse", ka,
						fmt.Sprintf("(A * A.Inverse())[%d,%d] = %.17g (off by %.3g, tolerance %.3g); det A = %.6g; A=%s inverse=%s", i, k, right[i][k], e, tr, dRefA, fm(A), fm(invA)), wit)
				}
				if e := math.Abs(left[i][k] - I4[i][k]); !(e <= tl) {
					res.Violate("inverse-law", "Matrix4x4.Inverse", ka,
						fmt.Sprintf("(A.Inverse() * A)[%d,%d] = %.17g (off by %.3g, tolerance %.3g); det A = %.6g; A=%s inverse=%s", i, k, left[i][k], e, tl, dRefA, fm(A), fm(invA)), wit)
				}
				// the same law through polyform's own Multiply
				if e := math.Abs(aInv[i][k] - I4[i][k]); !(e <= tr) {
					res.Violate("inverse-law", "Matrix4x4.Inverse/Multiply", ka, fmt.Sprintf("A.Multiply(A.Inverse())[%d,%d] = %.17g (tolerance %.3g)", i, k, aInv[i][k], tr), wit)
				}
				if e := math.Abs(invAa[i][k] - I4[i][k]); !(e <= tl) {
					res.Violate("inverse-law", "Matrix4x4.Inverse/Multiply", ka, fmt.Sprintf("A.Inverse().Multiply(A)[%d,%d] = %.17g (tolerance %.3g)", i, k, invAa[i][k], tl), wit)
				}
			}
		}
	} else {
		res.Count("inverse_law_skipped_ill_conditioned", 1)
	}
	// MulPosition against the definition (affine matrices), and compatibility with Multiply
	if affA {
		res.Count("mulposition_checks", 1)
		wantP, absP := mulPosRef(A, p)
		for i := 0; i < 3; i++ {
			if e := math.Abs(mp[i] - wantP[i]); !(e <= 8*eps*absP[i]+1e-300) {
				res.Violate("mulposition-not-affine-map", "Matrix4x4.MulPosition", ka, fmt.Sprintf("component %d: expected %.17g, observed %.17g; A=%s p=%s", i, wantP[i], mp[i], fm(A), f3(p)), map[string]any{"A": A, "p": p})
			}
		}
		if affB {
			res.Count("mulposition_composition_checks", 1)
			scale := 16 * (mA + 1) * ((mB+1)*(vmaxabs(p)+1) + 1)
			if e := vdist(mpAB, mpA_Bp); !(e <= 1e-12*scale) {
				res.Violate("multiply-vs-mulposition", "Matrix4x4.Multiply/MulPosition", in, fmt.Sprintf("(A*B) p = %s but A (B p) = %s", f3(mpAB), f3(mpA_Bp)), map[string]any{"A": A, "B": B, "p": p})
			}
		}
	}

	dense := 0
	for i := 0; i < 4; i++ {
		for j := 0; j < 4; j++ {
			if i != j && A[i][j] != 0 {
				dense++
			}
		}
	}
	res.Count("matrix_struct_"+ka, 1)
	if invChecked {
		res.Count("inverse_checked_"+ka, 1)
	}
	res.Nontrivial = dense >= 3 && invChecked
	res.Sig = fmt.Sprintf("%s,%s/e%d,e%d/inv%v", ka, kb, decade(mA), decade(mB), invChecked)
	res.SetAdd("matrix_kinds", ka)
	if c.Case < 8 {
		res.Sample = map[string]any{"A": A, "A_kind": ka, "det_A": detA, "A_inverse": invA}
	}
	return res
}

func sub4(a, b m4) (d m4) {
	for i := 0; i < 4; i++ {
		for j := 0; j < 4; j++ {
			d[i][j] = a[i][j] - b[i][j]
		}
	}
	return
}
