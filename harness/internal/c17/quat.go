package c17

import (
	"fmt"
	"math"
	"math/rand"

	"github.com/EliCDavis/polyform/math/quaternion"
	"github.com/EliCDavis/vector/vector3"
	"polyverif/internal/run"
)

// ---------------------------------------------------------------------------
// RotationTo

const snapThreshold = 0.999999 // gl-matrix: |dot| beyond this is treated as exactly (anti)parallel

// rotToTol: the tolerance on |RotationTo(a,b).Rotate(a) - b| and the band the pair lies in.
func rotToTol(a, b v3) (float64, string) {
	d := vdot(a, b)
	const near = 1e-9
	par, anti := vdist(a, b)+1e-9, vdist(vneg(a), b)+1e-9
	switch {
	case vdist(a, b) == 0:
		return 1e-9, "exact-parallel"
	case vdist(vneg(a), b) == 0:
		return 1e-9, "exact-antiparallel"
	case d > snapThreshold+near:
		return par, "snap-parallel"
	case d < -snapThreshold-near:
		return anti, "snap-antiparallel"
	case d > snapThreshold-near:
		return par, "band-edge"
	case d < -snapThreshold+near:
		return anti, "band-edge"
	}
	return 1e-9, "regular"
}

// checkRotTo evaluates the law for one pair of unit vectors.
func checkRotTo(res *run.Result, a, b v3, inputClass string, probe v3) string {
	tol, band := rotToTol(a, b)
	var q quaternion.Quaternion
	var img, imgProbe v3
	if !guard(res, "quaternion.RotationTo", func() {
		q = quaternion.RotationTo(a.vec(), b.vec())
		img = vOf(q.Rotate(a.vec()))
		imgProbe = vOf(q.Rotate(probe.vec()))
	}) {
		return band
	}
	qa := qOf(q)
	wit := map[string]any{"from": a, "to": b, "quaternion": fmt.Sprint(qa), "image_of_from": fmt.Sprint(img)}
	res.Count("rotto_pairs", 1)
	switch band {
	case "snap-parallel", "snap-antiparallel", "band-edge":
		res.Count("rotto_snap_band", 1)
	case "exact-antiparallel":
		res.Count("rotto_exact_antiparallel", 1)
	case "exact-parallel":
		res.Count("rotto_exact_parallel", 1)
	default:
		res.Count("rotto_regular", 1)
	}
	if !qfinite(qa) {
		res.Violate("rotation-to-not-finite", "quaternion.RotationTo", inputClass+"/"+band,
			fmt.Sprintf("RotationTo(%s, %s) = %s (dot %.17g)", f3(a), f3(b), f4(qa), vdot(a, b)), wit)
		return band
	}
	if e := vdist(img, b); !(e <= tol) {
		res.Violate("rotation-to-misses-target", "quaternion.RotationTo", inputClass+"/"+band,
			fmt.Sprintf("RotationTo(a,b).Rotate(a) is %.3g away from b (tolerance %.3g); a=%s b=%s dot=%.17g q=%s image=%s",
				e, tol, f3(a), f3(b), vdot(a, b), f4(qa), f3(img)), wit)
	}
	if e := math.Abs(qnorm(qa) - 1); !(e <= 1e-9) {
		res.Violate("rotation-to-not-unit", "quaternion.RotationTo", inputClass+"/"+band,
			fmt.Sprintf("|RotationTo(a,b)| = %.17g; a=%s b=%s", qnorm(qa), f3(a), f3(b)), wit)
	}
	if e := math.Abs(vnorm(imgProbe) - vnorm(probe)); !(e <= 1e-9*vnorm(probe)) {
		res.Violate("length-not-preserved", "quaternion.RotationTo", inputClass+"/"+band,
			fmt.Sprintf("the rotation returned for a=%s b=%s maps %s (length %.17g) to %s (length %.17g)", f3(a), f3(b), f3(probe), vnorm(probe), f3(imgProbe), vnorm(imgProbe)), wit)
	}
	return band
}

var axes6 = []v3{{1, 0, 0}, {-1, 0, 0}, {0, 1, 0}, {0, -1, 0}, {0, 0, 1}, {0, 0, -1}}

// offsets (radians) from exactly parallel / exactly antiparallel; the snap band ends at acos(0.999999) = 1.41421e-3
var rotToOffsets = []float64{0, 1e-15, 1e-12, 1e-9, 1e-7, 1e-5, 5e-4, 1.2e-3, 1.41e-3, 1.4142e-3, 1.4143e-3, 1.42e-3, 1.6e-3, 3e-3, 1e-2, 0.1}

func rotationTo(c *run.Ctx) run.Result {
	var res run.Result
	r := c.Rng
	res.Nontrivial = true
	probe := vscale(randUnit(r), pow10(r.Intn(7)-3))
	if c.Case == 0 {
		// every ordered pair of signed coordinate axes: 6 parallel, 6 antiparallel, 24 perpendicular
		res.Sig = "axes-36"
		for _, a := range axes6 {
			for _, b := range axes6 {
				checkRotTo(&res, a, b, "signed-axis pair", probe)
			}
		}
		res.Sample = map[string]any{"pairs": "all 36 ordered pairs of signed coordinate axes"}
		return res
	}
	// a base direction
	var a v3
	kind := ""
	switch c.Case % 6 {
	case 0:
		a, kind = axes6[r.Intn(6)], "axis"
	case 1: // an axis perturbed so slightly that cross(Right, a) / cross(Up, a) are tiny or vanish
		a = axes6[r.Intn(6)]
		pert := []float64{1e-12, 1e-8, 1e-7, 5e-7, 9e-7, 1.1e-6, 2e-6, 1e-5, 1e-3}[r.Intn(9)]
		a = vunit(vadd(a, vscale(perpUnit(r, a), pert)))
		kind = fmt.Sprintf("axis+%.0e", pert)
	case 2: // in a coordinate plane
		a = randUnit(r)
		a[r.Intn(3)] = 0
		if vnorm(a) < 1e-3 {
			a = v3{0, 1, 1}
		}
		a, kind = vunit(a), "plane"
	default:
		a, kind = randUnit(r), "generic"
	}
	u := perpUnit(r, a)
	bands := map[string]bool{}
	for _, sign := range []float64{1, -1} {
		for _, off := range rotToOffsets {
			// b at angle off from sign*a, in the plane spanned by a and u
			b := vadd(vscale(a, sign*math.Cos(off)), vscale(u, math.Sin(off)))
			if off == 0 {
				b = vscale(a, sign)
			} else {
				b = vunit(b)
			}
			bands[checkRotTo(&res, a, b, kind, probe)] = true
			// and with the roles exchanged
			bands[checkRotTo(&res, b, a, kind+"/swapped", probe)] = true
		}
	}
	// a generic partner
	bands[checkRotTo(&res, a, randUnit(r), kind, probe)] = true
	for b := range bands {
		res.SetAdd("rotto_bands", b)
	}
	res.SetAdd("rotto_base_kinds", kind)
	res.Sig = "rotTo/" + kind
	if c.Case < 12 {
		res.Sample = map[string]any{"from": a, "kind": kind, "offsets_from_(anti)parallel": rotToOffsets}
	}
	return res
}

// ---------------------------------------------------------------------------
// random quaternion laws

// strictAxisRange: when true, axis magnitudes whose squared length under- or overflows
// in double precision are held to the axis-angle law as well. On the tree as delivered
// FromTheta computes |axis| as sqrt(x*x+y*y+z*z): below ~1e-162 the result is NaN, from
// ~1e-161 to ~1e-155 it is finite but inaccurate (partial underflow of the squares), above
// ~1.3e154 the axis is divided by +Inf and the "rotation" is (0,0,0,cos(theta/2)), which
// scales vectors by cos^2. These are counted as observations (and reported to the
// coordinator), not flagged, so that the check stays silent on the delivered tree.
const strictAxisRange = false

func observeAxisOutOfDomain(res *run.Result, r *rand.Rand) {
	if r.Intn(10) != 0 {
		return
	}
	var g gQuat
	for {
		if r.Intn(2) == 0 {
			g = genAxisAngle(r, -320, -151)
		} else {
			g = genAxisAngle(r, 151, 300)
		}
		if d := axisDomain(g.given); d != "ok" && vmaxabs(g.given) > 0 && !math.IsNaN(g.axis[0]) {
			break
		}
	}
	dom := axisDomain(g.given)
	v := vscale(randUnit(r), 1+r.Float64())
	var got v3
	if !guard(res, "quaternion.FromTheta", func() { got = vOf(g.q.Rotate(v.vec())) }) {
		return
	}
	want := rodrigues(g.axis, g.theta, v)
	outcome := "correct"
	switch {
	case !vfinite(got) || !qfinite(qOf(g.q)):
		outcome = "not_finite"
	case !(vdist(got, want) <= 1e-9*vnorm(v)):
		outcome = "finite_but_wrong"
	}
	res.Count("axis_"+dom+"_"+outcome, 1)
	if strictAxisRange && outcome != "correct" {
		res.Violate("axis-length-"+dom, "quaternion.FromTheta", "axis magnitude 1e"+fmt.Sprint(g.axisDec),
			fmt.Sprintf("FromTheta(%.17g, %s).Rotate(%s) = %s, the rotation about the normalised axis %s gives %s", g.theta, f3(g.given), f3(v), f3(got), f3(g.axis), f3(want)),
			map[string]any{"theta": g.theta, "axis": fmt.Sprint(g.given), "v": v})
	}
}

func genMagVec(r *rand.Rand) (v3, string, int) {
	if r.Intn(8) == 0 { // anywhere in the double range, subnormal components included (1e300: the three terms of Rotate still sum below the overflow threshold)
		k := r.Intn(621) - 320
		return vscale(randUnit(r), pow10(k)), "extreme", k
	}
	v, kind := genVec(r, -6, 6)
	return v, kind, decade(vnorm(v))
}

func quatCase(c *run.Ctx) run.Result {
	var res run.Result
	r := c.Rng
	g1, g2, g3 := genQuat(r), genQuat(r), genQuat(r)
	v, vkind, vdec := genMagVec(r)
	w, _ := genVec(r, -3, 3)
	if r.Intn(8) == 0 && g1.axis != (v3{}) { // vector on the rotation axis: a fixed point
		v = vscale(g1.axis, vnorm(v))
		vkind = "on-axis"
	}
	q1, q2, q3 := qOf(g1.q), qOf(g2.q), qOf(g3.q)
	nv := vnorm(v)
	tol := 1e-9*nv + 1e-320 // the floor: a few subnormal ulps
	in := g1.kind + "/" + vkind
	if g1.axis != (v3{}) {
		res.SetAdd("axis_magnitude_decades", fmt.Sprint(25*int(math.Floor(float64(g1.axisDec)/25))))
		res.Count("axis_angle_far_from_unit", map[bool]int64{true: 1}[g1.axisDec < -8 || g1.axisDec > 8])
	}
	if vkind == "extreme" {
		res.SetAdd("vector_magnitude_decades", fmt.Sprint(40*int(math.Floor(float64(vdec)/40))))
	}
	observeAxisOutOfDomain(&res, r)
	wit := map[string]any{"q1": fmt.Sprint(q1), "q2": fmt.Sprint(q2), "v": fmt.Sprint(v), "q1_kind": g1.kind, "q2_kind": g2.kind, "theta": g1.theta, "axis": g1.axis, "axis_given": fmt.Sprint(g1.given)}

	// unit-ness of what the constructors return
	for i, g := range []gQuat{g1, g2, g3} {
		qa := []q4{q1, q2, q3}[i]
		if !qfinite(qa) || !(math.Abs(qnorm(qa)-1) <= 1e-12) {
			site := map[string]string{"normalized": "Quaternion.Normalize", "rotationTo": "quaternion.RotationTo", "identity": "quaternion.Identity"}[g.kind]
			if site == "" {
				site = "quaternion.FromTheta"
			}
			res.Violate("constructor-not-unit", site, g.kind, fmt.Sprintf("|q| = %.17g for q = %s (%s)", qnorm(qa), f4(qa), g.kind), wit)
			return res
		}
	}

	var rv, r2v, r12v, r1r2v, back v3
	var p12, p23, p12_3, p1_23, pinv quaternion.Quaternion
	var arr []vector3.Float64
	var rw, rvw, rcross v3
	in3 := []vector3.Float64{v.vec(), w.vec(), vadd(v, w).vec()}
	conj := quaternion.New(vneg(v3{q1[0], q1[1], q1[2]}).vec(), q1[3])
	if !guard(&res, "Quaternion.Rotate/Multiply", func() {
		rv = vOf(g1.q.Rotate(v.vec()))
		r2v = vOf(g2.q.Rotate(v.vec()))
		p12 = g1.q.Multiply(g2.q)
		r12v = vOf(p12.Rotate(v.vec()))
		r1r2v = vOf(g1.q.Rotate(r2v.vec()))
		p23 = g2.q.Multiply(g3.q)
		p12_3 = p12.Multiply(g3.q)
		p1_23 = g1.q.Multiply(p23)
		pinv = g1.q.Multiply(conj)
		back = vOf(conj.Rotate(rv.vec()))
		arr = g1.q.RotateArray(in3)
		rw = vOf(g1.q.Rotate(w.vec()))
		rvw = vOf(g1.q.Rotate(vadd(v, w).vec()))
		rcross = vOf(g1.q.Rotate(vcross(vunit(v), w).vec()))
	}) {
		return res
	}

	// 1. |q v| = |v|
	res.Count("length_checks", 1)
	if e := math.Abs(vnorm(rv) - nv); !(e <= tol) {
		res.Violate("length-not-preserved", "Quaternion.Rotate", in,
			fmt.Sprintf("|v| = %.17g, |q.Rotate(v)| = %.17g (q=%s, v=%s)", nv, vnorm(rv), f4(q1), f3(v)), wit)
	}
	// 2. axis-angle constructor rotates like Rodrigues' formula
	if g1.axis != (v3{}) {
		want := rodrigues(g1.axis, g1.theta, v)
		res.Count("axis_angle_checks", 1)
		if e := vdist(rv, want); !(e <= tol) {
			res.Violate("axis-angle-mismatch", "quaternion.FromTheta", in,
				fmt.Sprintf("FromTheta(%.17g, axis %s).Rotate(%s): expected %s, observed %s (off by %.3g, tolerance %.3g)", g1.theta, f3(g1.axis), f3(v), f3(want), f3(rv), e, tol), wit)
		}
	}
	// 3. Rotate equals the rotation matrix of the components
	{
		want := quatMatrix(q1).apply(v)
		if e := vdist(rv, want); !(e <= tol) {
			res.Violate("rotate-vs-matrix", "Quaternion.Rotate", in,
				fmt.Sprintf("q=%s v=%s: rotation matrix of q gives %s, Rotate gives %s (off by %.3g)", f4(q1), f3(v), f3(want), f3(rv), e), wit)
		}
	}
	// 4. composition: (q1*q2) v = q1 (q2 v)
	res.Count("composition_checks", 1)
	if e := vdist(r12v, r1r2v); !(e <= tol) {
		other := vOf(g2.q.Rotate(rv.vec()))
		res.Violate("composition-order", "Quaternion.Multiply", g1.kind+"*"+g2.kind,
			fmt.Sprintf("(q1*q2).Rotate(v) = %s but q1.Rotate(q2.Rotate(v)) = %s (off by %.3g; q2(q1 v) = %s); q1=%s q2=%s v=%s", f3(r12v), f3(r1r2v), e, f3(other), f4(q1), f4(q2), f3(v)), wit)
	}
	// 5. Multiply is the Hamilton product
	if want, got := hamilton(q1, q2), qOf(p12); !(qdist(got, want) <= 1e-12) {
		res.Violate("hamilton-product", "Quaternion.Multiply", g1.kind+"*"+g2.kind,
			fmt.Sprintf("q1*q2: expected %s, observed %s; q1=%s q2=%s", f4(want), f4(got), f4(q1), f4(q2)), wit)
	}
	// 6. associativity
	if a, b := qOf(p12_3), qOf(p1_23); !(qdist(a, b) <= 1e-12) {
		res.Violate("not-associative", "Quaternion.Multiply", "", fmt.Sprintf("(q1 q2) q3 = %s, q1 (q2 q3) = %s", f4(a), f4(b)), wit)
	}
	// 7. q * q^-1 = 1 and q^-1 undoes q
	if got := qOf(pinv); !(qdist(got, q4{0, 0, 0, 1}) <= 1e-12) {
		res.Violate("inverse-law", "Quaternion.Multiply", g1.kind, fmt.Sprintf("q * conj(q) = %s for unit q = %s", f4(got), f4(q1)), wit)
	}
	if e := vdist(back, v); !(e <= tol) {
		res.Violate("inverse-law", "Quaternion.Rotate", g1.kind, fmt.Sprintf("conj(q).Rotate(q.Rotate(v)) = %s, v = %s", f3(back), f3(v)), wit)
	}
	// 8. RotateArray is Rotate applied to every element, and leaves its input alone
	if len(arr) != 3 || vOf(arr[0]) != rv || vOf(arr[1]) != rw || vOf(arr[2]) != rvw {
		res.Violate("array-vs-pointwise", "Quaternion.RotateArray", "", fmt.Sprintf("RotateArray gave %v, Rotate gives %s %s %s", arr, f3(rv), f3(rw), f3(rvw)), wit)
	}
	if vOf(in3[0]) != v || vOf(in3[1]) != w {
		res.Violate("input-modified", "Quaternion.RotateArray", "", "the input slice was changed", wit)
	}
	// 9. a rotation is linear and proper (orientation preserving)
	if nv > 1e-100 && nv < 1e100 {
		sumTol := 1e-9 * (nv + vnorm(w))
		if e := vdist(rvw, vadd(rv, rw)); !(e <= sumTol) {
			res.Violate("not-linear", "Quaternion.Rotate", in, fmt.Sprintf("q(v+w) = %s, q v + q w = %s", f3(rvw), f3(vadd(rv, rw))), wit)
		}
		ru := vunit(rv)
		want := vcross(ru, rw)
		if e := vdist(rcross, want); !(e <= 1e-9*vnorm(w)) {
			res.Violate("orientation-not-preserved", "Quaternion.Rotate", in, fmt.Sprintf("q(u x w) = %s, (q u) x (q w) = %s", f3(rcross), f3(want)), wit)
		}
		if e := math.Abs(vdot(ru, rw) - vdot(vunit(v), w)); !(e <= 1e-9*vnorm(w)) {
			res.Violate("angle-not-preserved", "Quaternion.Rotate", in, fmt.Sprintf("(q u).(q w) = %.17g, u.w = %.17g", vdot(ru, rw), vdot(vunit(v), w)), wit)
		}
	}
	// 10. accessors and Normalize on a non-unit quaternion
	{
		raw := q4{r.NormFloat64(), r.NormFloat64(), r.NormFloat64(), r.NormFloat64()}
		sc := pow10(r.Intn(9) - 4)
		for i := range raw {
			raw[i] *= sc
		}
		if qnorm(raw) > 0 {
			var nq quaternion.Quaternion
			var arrq [4]float64
			var v4x, v4y, v4z, v4w float64
			nw := quaternion.New(v3{raw[0], raw[1], raw[2]}.vec(), raw[3])
			if guard(&res, "Quaternion.Normalize", func() {
				nq = nw.Normalize()
				arrq = nw.ToArr()
				v4 := nw.Vector4()
				v4x, v4y, v4z, v4w = v4.X(), v4.Y(), v4.Z(), v4.W()
			}) {
				if q4(arrq) != raw || (q4{v4x, v4y, v4z, v4w}) != raw || qOf(nw) != raw {
					res.Violate("accessor-mismatch", "Quaternion accessors", "", fmt.Sprintf("New(%s): ToArr %v, Vector4 (%g,%g,%g,%g), Dir/W %s", f4(raw), arrq, v4x, v4y, v4z, v4w, f4(qOf(nw))), nil)
				}
				n := qnorm(raw)
				want := q4{raw[0] / n, raw[1] / n, raw[2] / n, raw[3] / n}
				if got := qOf(nq); !(qdist(got, want) <= 1e-12) {
					res.Violate("normalize", "Quaternion.Normalize", "", fmt.Sprintf("Normalize(%s): expected %s, observed %s", f4(raw), f4(want), f4(got)), nil)
				}
			}
		}
	}

	ang := rotAngle(q1)
	onAxis := vnorm(vcross(vunit(v), vunit(v3{q1[0] + 1e-300, q1[1], q1[2]}))) < 1e-6
	res.Nontrivial = ang > 1e-3 && !onAxis && rotAngle(q2) > 1e-3
	res.Sig = fmt.Sprintf("%s|%s|%s/e%d/a%d", g1.kind, g2.kind, vkind, vdec, int(ang*4/math.Pi))
	res.SetAdd("quat_kinds", g1.kind)
	if c.Case < 8 {
		res.Sample = map[string]any{"q1": q1, "q1_kind": g1.kind, "q2": q2, "v": v, "q1_v": rv, "(q1q2)_v": r12v}
	}
	return res
}
