package c17

// Exhaustive, exact tables. Add and Multiply are (bi)linear in the entries of
// their operands, MulPosition is affine in both, Determinant is multilinear in
// the rows: deciding them on basis elements (with several coefficient pairs, so
// that a dropped or negated operand is visible) decides them for every input.
// All values are small integers or powers of two, so every comparison is exact.

import (
	"fmt"

	"github.com/EliCDavis/polyform/math/mat"
	"polyverif/internal/run"
)

const nTables = 6

var coefPairs = [][2]float64{{1, 1}, {2, 3}, {-1, 5}, {4, -4}}

func tables(c *run.Ctx) run.Result {
	var res run.Result
	res.Nontrivial = true
	switch c.Case {
	case 0:
		tableAdd(&res)
	case 1:
		tableMul(&res)
	case 2:
		tableMulPosition(&res)
	case 3:
		tableDet(&res)
	case 4:
		tableInverse(&res)
	case 5:
		tableIdentity(&res)
	}
	return res
}

func tableAdd(res *run.Result) {
	res.Sig = "table/add"
	bad, first := 0, ""
	var wit any
	guard(res, "Matrix4x4.Add", func() {
		for i := 0; i < 16; i++ {
			for j := 0; j < 16; j++ {
				pairBad := false
				for _, cf := range coefPairs {
					a, b := basis4(i/4, i%4, cf[0]), basis4(j/4, j%4, cf[1])
					want := addRef(a, b)
					got := fromMat(toMat(a).Add(toMat(b)))
					if ok, r, cc := eq4(got, want); !ok {
						pairBad = true
						if first == "" {
							first = fmt.Sprintf("%g*E[%d,%d] + %g*E[%d,%d]: entry (%d,%d) expected %g, observed %g; observed matrix %s",
								cf[0], i/4, i%4, cf[1], j/4, j%4, r, cc, want[r][cc], got[r][cc], fm(got))
							wit = map[string]any{"a": a, "b": b, "expected": want, "observed": got}
						}
					}
					res.Count("add_table_evaluations", 1)
				}
				if pairBad {
					bad++
				}
				res.Count("add_basis_pairs", 1)
			}
		}
	})
	if bad > 0 {
		res.Violate("add-not-entrywise", "Matrix4x4.Add", "basis-matrix pair",
			fmt.Sprintf("%d of 256 basis pairs wrong; first: %s", bad, first), wit)
	}
	res.Sample = map[string]any{"table": "Add", "pairs": 256, "coefficient_pairs": coefPairs}
}

func tableMul(res *run.Result) {
	res.Sig = "table/multiply"
	bad, first := 0, ""
	var wit any
	guard(res, "Matrix4x4.Multiply", func() {
		for i := 0; i < 16; i++ {
			for j := 0; j < 16; j++ {
				pairBad := false
				for _, cf := range coefPairs {
					a, b := basis4(i/4, i%4, cf[0]), basis4(j/4, j%4, cf[1])
					var want m4 // E[r,c]*E[r',c'] = delta(c,r') E[r,c']
					if i%4 == j/4 {
						want[i/4][j%4] = cf[0] * cf[1]
					}
					got := fromMat(toMat(a).Multiply(toMat(b)))
					if ok, r, cc := eq4(got, want); !ok {
						pairBad = true
						if first == "" {
							first = fmt.Sprintf("%g*E[%d,%d] x %g*E[%d,%d]: entry (%d,%d) expected %g, observed %g; observed matrix %s",
								cf[0], i/4, i%4, cf[1], j/4, j%4, r, cc, want[r][cc], got[r][cc], fm(got))
							wit = map[string]any{"a": a, "b": b, "expected": want, "observed": got}
						}
					}
					res.Count("mul_table_evaluations", 1)
				}
				if pairBad {
					bad++
				}
				res.Count("mul_basis_pairs", 1)
			}
		}
	})
	if bad > 0 {
		res.Violate("multiply-not-row-by-column", "Matrix4x4.Multiply", "basis-matrix pair",
			fmt.Sprintf("%d of 256 basis pairs wrong; first: %s", bad, first), wit)
	}
	res.Sample = map[string]any{"table": "Multiply", "pairs": 256, "coefficient_pairs": coefPairs}
}

func tableMulPosition(res *run.Result) {
	res.Sig = "table/mulposition"
	vecs := []v3{{0, 0, 0}, {1, 0, 0}, {0, 1, 0}, {0, 0, 1}, {2, 3, 5}, {-1, 4, -2}}
	bad, first := 0, ""
	var wit any
	guard(res, "Matrix4x4.MulPosition", func() {
		for i := 0; i < 12; i++ { // rows 0..2: the affine part
			for _, cf := range []float64{1, -2, 3} {
				m := basis4(i/4, i%4, cf)
				m[3][3] = 1
				for _, v := range vecs {
					var want v3
					if i%4 < 3 {
						want[i/4] = cf * v[i%4]
					} else {
						want[i/4] = cf
					}
					got := vOf(toMat(m).MulPosition(v.vec()))
					if !(got == want) {
						bad++
						if first == "" {
							first = fmt.Sprintf("(%g*E[%d,%d] + E[3,3]) applied to %s: expected %s, observed %s", cf, i/4, i%4, f3(v), f3(want), f3(got))
							wit = map[string]any{"m": m, "v": v, "expected": want, "observed": got}
						}
					}
					res.Count("mulposition_table_evaluations", 1)
				}
			}
		}
		// identity-plus-basis: the diagonal must not be dropped when other entries are present
		for i := 0; i < 12; i++ {
			m := ident4()
			m[i/4][i%4] += 2
			for _, v := range vecs {
				want, _ := mulPosRef(m, v)
				got := vOf(toMat(m).MulPosition(v.vec()))
				if !(got == want) {
					bad++
					if first == "" {
						first = fmt.Sprintf("(I + 2*E[%d,%d]) applied to %s: expected %s, observed %s", i/4, i%4, f3(v), f3(want), f3(got))
						wit = map[string]any{"m": m, "v": v, "expected": want, "observed": got}
					}
				}
				res.Count("mulposition_table_evaluations", 1)
			}
		}
	})
	if bad > 0 {
		res.Violate("mulposition-not-affine-map", "Matrix4x4.MulPosition", "affine basis matrix x basis vector",
			fmt.Sprintf("%d table entries wrong; first: %s", bad, first), wit)
	}
	res.Sample = map[string]any{"table": "MulPosition", "vectors": vecs}
}

func permSign(p []int) float64 {
	s := 1.
	for i := 0; i < len(p); i++ {
		for j := i + 1; j < len(p); j++ {
			if p[i] > p[j] {
				s = -s
			}
		}
	}
	return s
}

func tableDet(res *run.Result) {
	res.Sig = "table/determinant"
	coef := [4]float64{2, -3, 5, 7}
	bad, first := 0, ""
	var wit any
	guard(res, "Matrix4x4.Determinant", func() {
		for code := 0; code < 256; code++ {
			cols := []int{code & 3, (code >> 2) & 3, (code >> 4) & 3, (code >> 6) & 3}
			var m m4
			seen := [4]bool{}
			isPerm := true
			for r := 0; r < 4; r++ {
				m[r][cols[r]] = coef[r]
				if seen[cols[r]] {
					isPerm = false
				}
				seen[cols[r]] = true
			}
			want := 0.
			if isPerm {
				want = permSign(cols) * coef[0] * coef[1] * coef[2] * coef[3]
				res.Count("det_permutation_terms", 1)
			}
			got := toMat(m).Determinant()
			if !(got == want) {
				bad++
				if first == "" {
					first = fmt.Sprintf("rows r -> c[r]*e[%v], c=%v: expected det %g, observed %g", cols, coef, want, got)
					wit = map[string]any{"m": m, "expected": want, "observed": got}
				}
			}
			res.Count("det_row_basis", 1)
		}
	})
	if bad > 0 {
		res.Violate("determinant-wrong-term", "Matrix4x4.Determinant", "row-basis matrix",
			fmt.Sprintf("%d of 256 row-basis matrices wrong; first: %s", bad, first), wit)
	}
	res.Sample = map[string]any{"table": "Determinant", "row_coefficients": coef}
}

func permutations4() [][]int {
	var out [][]int
	var rec func(p []int, used [4]bool)
	rec = func(p []int, used [4]bool) {
		if len(p) == 4 {
			out = append(out, append([]int{}, p...))
			return
		}
		for i := 0; i < 4; i++ {
			if !used[i] {
				used[i] = true
				rec(append(p, i), used)
				used[i] = false
			}
		}
	}
	rec(nil, [4]bool{})
	return out
}

func tableInverse(res *run.Result) {
	res.Sig = "table/inverse"
	coefs := [][4]float64{{1, 1, 1, 1}, {2, -4, 0.5, 8}, {-1, 2, -0.25, 4}, {0.125, 16, -2, -1}}
	bad, first := 0, ""
	var wit any
	guard(res, "Matrix4x4.Inverse", func() {
		for _, p := range permutations4() {
			for _, cf := range coefs {
				var m, want m4
				for r := 0; r < 4; r++ {
					m[r][p[r]] = cf[r]
					want[p[r]][r] = 1 / cf[r]
				}
				got := fromMat(toMat(m).Inverse())
				if ok, r, cc := eq4(got, want); !ok {
					bad++
					if first == "" {
						first = fmt.Sprintf("monomial matrix rows r -> %v*e[%v]: inverse entry (%d,%d) expected %g, observed %g; observed %s", cf, p, r, cc, want[r][cc], got[r][cc], fm(got))
						wit = map[string]any{"m": m, "expected": want, "observed": got}
					}
				}
				res.Count("inverse_table_evaluations", 1)
			}
			res.Count("inverse_permutations", 1)
		}
	})
	if bad > 0 {
		res.Violate("inverse-wrong-entry", "Matrix4x4.Inverse", "scaled permutation matrix",
			fmt.Sprintf("%d of %d monomial matrices wrong; first: %s", bad, 24*len(coefs), first), wit)
	}
	res.Sample = map[string]any{"table": "Inverse", "scalings": coefs}
}

func tableIdentity(res *run.Result) {
	res.Sig = "table/identity"
	I := ident4()
	guard(res, "mat.Identity", func() {
		if got := fromMat(mat.Identity()); got != I {
			res.Violate("identity-wrong", "mat.Identity", "", "Identity() = "+fm(got), got)
		}
		id := mat.Identity()
		for i := 0; i < 16; i++ {
			for _, cf := range []float64{1, -3} {
				e := basis4(i/4, i%4, cf)
				if got := fromMat(toMat(e).Multiply(id)); got != e {
					res.Violate("identity-law", "Matrix4x4.Multiply", "basis matrix x identity",
						fmt.Sprintf("%g*E[%d,%d] x I = %s", cf, i/4, i%4, fm(got)), map[string]any{"a": e, "observed": got})
				}
				if got := fromMat(id.Multiply(toMat(e))); got != e {
					res.Violate("identity-law", "Matrix4x4.Multiply", "identity x basis matrix",
						fmt.Sprintf("I x %g*E[%d,%d] = %s", cf, i/4, i%4, fm(got)), map[string]any{"a": e, "observed": got})
				}
				if got := fromMat(toMat(e).Add(mat.Matrix4x4{})); got != e {
					res.Violate("add-not-entrywise", "Matrix4x4.Add", "basis matrix + zero",
						fmt.Sprintf("%g*E[%d,%d] + 0 = %s", cf, i/4, i%4, fm(got)), map[string]any{"a": e, "observed": got})
				}
				res.Count("identity_law_evaluations", 3)
			}
		}
		if d := id.Determinant(); d != 1 {
			res.Violate("determinant-wrong-term", "Matrix4x4.Determinant", "identity", fmt.Sprintf("det(I) = %g", d), nil)
		}
		if got := fromMat(id.Inverse()); got != I {
			res.Violate("inverse-wrong-entry", "Matrix4x4.Inverse", "identity", "I^-1 = "+fm(got), got)
		}
		v := v3{2, -3, 5}
		if got := vOf(id.MulPosition(v.vec())); got != v {
			res.Violate("mulposition-not-affine-map", "Matrix4x4.MulPosition", "identity", "I applied to (2,-3,5) = "+f3(got), got)
		}
	})
	res.Sample = map[string]any{"table": "Identity laws on the 16 basis matrices"}
}
