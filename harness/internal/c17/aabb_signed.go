package c17

// Boxes the constructors accept but an ordinary generator never draws: negative size
// on any subset of axes (all sign patterns, mixed with zero sizes), built through
// NewAABB, SetMinMax with swapped arguments and a JSON round trip, as receiver and as
// argument of the encapsulation calls.
//
// Verdicts (what the property states and the delivered tree satisfies): a receiver of
// non-negative size that encapsulates a box b — of any size signs — contains BOTH
// defining corners of b (centre +- size/2, computed here from the constructor
// arguments, not read from Min()/Max()) and everything it contained before; after
// EncapsulatePoint(p) it contains p and what it contained before; ClosestPoint lies in
// the per-axis interval spanned by the two defining corners.
//
// Observations only: a RECEIVER of negative size. On the delivered tree
// EncapsulatePoint forms min(Min(),p), max(Max(),p) with Min() the upper and Max() the
// lower corner, so the grown box can lose the receiver's own corners (it collapses to
// p when p lies between them). Counted as aabb_negative_receiver_*, not flagged.

import (
	"encoding/json"
	"fmt"
	"math"
	"math/rand"

	"github.com/EliCDavis/polyform/math/geometry"
	"polyverif/internal/run"
)

// signedBox is a box together with its two defining corners as the harness computes them.
type signedBox struct {
	box     geometry.AABB
	a, b    v3 // centre - size/2, centre + size/2 (not ordered)
	pattern string
	neg     bool
	via     string
}

func (s signedBox) lo() v3 {
	return v3{math.Min(s.a[0], s.b[0]), math.Min(s.a[1], s.b[1]), math.Min(s.a[2], s.b[2])}
}
func (s signedBox) hi() v3 {
	return v3{math.Max(s.a[0], s.b[0]), math.Max(s.a[1], s.b[1]), math.Max(s.a[2], s.b[2])}
}

// genSignedBox draws a box around ctr; pat < 0: random sign pattern, else the base-3 code of the pattern (digit 0 '-', 1 '0', 2 '+').
func genSignedBox(r *rand.Rand, ctr v3, scale float64, pat int) (signedBox, error) {
	if pat < 0 {
		pat = r.Intn(27)
	}
	var size v3
	p := ""
	neg := false
	for i := 0; i < 3; i++ {
		mag := scale * (0.05 + 2*r.Float64())
		switch (pat / []int{1, 3, 9}[i]) % 3 {
		case 0:
			size[i], p, neg = -mag, p+"-", true
		case 1:
			size[i], p = []float64{0, negZero}[r.Intn(2)], p+"0"
		default:
			size[i], p = mag, p+"+"
		}
	}
	half := vscale(size, 0.5)
	sb := signedBox{a: vsub(ctr, half), b: vadd(ctr, half), pattern: p, neg: neg}
	switch r.Intn(4) {
	case 0: // SetMinMax, with the arguments swapped on the negative axes
		sb.via = "SetMinMax"
		sb.box = geometry.NewEmptyAABB()
		sb.box.SetMinMax(sb.a.vec(), sb.b.vec())
		// SetMinMax(min,max): extents = (max-min)/2, centre = min+extents: the defining corners are min and max themselves
	case 1: // JSON round trip of a NewAABB box
		sb.via = "NewAABB+JSON"
		orig := geometry.NewAABB(ctr.vec(), size.vec())
		data, err := json.Marshal(orig)
		if err != nil {
			return sb, err
		}
		if err := json.Unmarshal(data, &sb.box); err != nil {
			return sb, err
		}
	default:
		sb.via = "NewAABB"
		sb.box = geometry.NewAABB(ctr.vec(), size.vec())
	}
	return sb, nil
}

func aabbSignedCase(c *run.Ctx) run.Result {
	var res run.Result
	r := c.Rng
	scale := pow10(r.Intn(8) - 3)
	var off v3
	if r.Intn(2) == 0 {
		off = vscale(randUnit(r), pow10(r.Intn(6))*(1+r.Float64()))
	}
	around := func(spread float64) v3 {
		return vadd(off, vscale(v3{r.NormFloat64(), r.NormFloat64(), r.NormFloat64()}, scale*spread))
	}
	M := 0.
	see := func(vs ...v3) {
		for _, v := range vs {
			M = math.Max(M, vmaxabs(v))
		}
	}
	slack := func() float64 { return 16*eps*M + 1e-300 }
	var history []string
	wit := func() any { return map[string]any{"history": history} }

	// receiver: half of the cases of non-negative size (verdicts), half with a negative axis (observations)
	var recv signedBox
	var err error
	ok := guard(&res, "AABB constructors", func() {
		pat := -1
		if c.Case%2 == 0 { // digits 1/2 only: zero or positive on every axis
			pat = (1 + r.Intn(2)) + 3*(1+r.Intn(2)) + 9*(1+r.Intn(2))
		}
		recv, err = genSignedBox(r, around(1), scale, pat)
	})
	if !ok || err != nil {
		if err != nil {
			res.Violate("json-round-trip", "AABB.MarshalJSON/UnmarshalJSON", "", err.Error(), nil)
		}
		return res
	}
	box := recv.box
	see(recv.a, recv.b)
	res.SetAdd("aabb_size_sign_patterns", recv.pattern)
	res.SetAdd("aabb_signed_constructors", recv.via)
	if recv.neg {
		res.Count("aabb_negative_size_boxes", 1)
	}
	history = append(history, fmt.Sprintf("receiver %s size signs %s corners %s %s", recv.via, recv.pattern, f3(recv.a), f3(recv.b)))
	in := "receiver " + recv.pattern

	// what the box has to contain so far (only meaningful while the receiver is regular)
	regular := !recv.neg
	keepLo, keepHi := recv.lo(), recv.hi()
	steps := 1 + r.Intn(4)
	for s := 1; s <= steps; s++ {
		var newLo, newHi v3
		site, what := "", ""
		argNeg := false
		if r.Intn(4) > 0 {
			// a box placed inside / overlapping / outside / far away
			ctr := around([]float64{0.3, 1, 3, 30}[r.Intn(4)])
			var arg signedBox
			if !guard(&res, "AABB constructors", func() { arg, err = genSignedBox(r, ctr, scale*[]float64{0.2, 1, 4}[r.Intn(3)], -1) }) || err != nil {
				return res
			}
			see(arg.a, arg.b)
			res.SetAdd("aabb_size_sign_patterns", arg.pattern)
			res.SetAdd("aabb_signed_constructors", arg.via)
			if arg.neg {
				res.Count("aabb_negative_size_boxes", 1)
				res.Count("aabb_encapsulate_bounds_with_negative_size_argument", 1)
				argNeg = true
			}
			site, what = "AABB.EncapsulateBounds", fmt.Sprintf("box (%s, size signs %s) with corners %s and %s", arg.via, arg.pattern, f3(arg.a), f3(arg.b))
			newLo, newHi = arg.lo(), arg.hi()
			history = append(history, fmt.Sprintf("EncapsulateBounds(%s)", what))
			if !guard(&res, site, func() { box.EncapsulateBounds(arg.box) }) {
				return res
			}
		} else {
			p := around([]float64{0.3, 1, 3, 30}[r.Intn(4)])
			see(p)
			site, what = "AABB.EncapsulatePoint", "point "+f3(p)
			newLo, newHi = p, p
			history = append(history, "EncapsulatePoint"+f3(p))
			if !guard(&res, site, func() { box.EncapsulatePoint(p.vec()) }) {
				return res
			}
		}
		cur := view(box)
		see(cur.min, cur.max)
		sl := slack() * float64(s)
		missNew := math.Max(cur.outside(newLo), cur.outside(newHi))
		missOld := math.Max(cur.outside(keepLo), cur.outside(keepHi))
		if regular {
			res.Count("aabb_signed_steps_judged", 1)
			if argNeg {
				res.Count("aabb_negative_argument_steps_judged", 1)
			}
			if !(missNew <= sl) {
				res.Violate("does-not-contain", site, in, fmt.Sprintf("after step %d the %s sticks out of the grown box %s by %.3g (slack %.3g)", s, what, cur, missNew, sl), wit())
			}
			if !(missOld <= sl) {
				res.Violate("box-shrank", site, in, fmt.Sprintf("after step %d the grown box %s no longer contains what it held before (%s .. %s): off by %.3g", s, cur, f3(keepLo), f3(keepHi), missOld), wit())
			}
			if !(cur.size[0] >= 0 && cur.size[1] >= 0 && cur.size[2] >= 0) {
				res.Violate("negative-extent", site, in, fmt.Sprintf("a receiver of non-negative size has size %s after step %d", f3(cur.size), s), wit())
			}
			for i := 0; i < 3; i++ {
				keepLo[i], keepHi[i] = math.Min(keepLo[i], newLo[i]), math.Max(keepHi[i], newHi[i])
			}
		} else {
			res.Count("aabb_negative_receiver_steps", 1)
			if !(missNew <= sl) {
				res.Count("aabb_negative_receiver_new_item_not_contained", 1)
			}
			if !(missOld <= sl) {
				res.Count("aabb_negative_receiver_lost_its_own_corners", 1)
			}
			// from here on judge the box for what it reports now
			if cur.size[0] >= 0 && cur.size[1] >= 0 && cur.size[2] >= 0 {
				regular = true
				keepLo, keepHi = cur.min, cur.max
			}
		}
	}

	// ClosestPoint: inside the interval spanned by the two defining corners, per axis
	for k := 0; k < 4; k++ {
		var sb signedBox
		if !guard(&res, "AABB constructors", func() { sb, err = genSignedBox(r, around(1), scale, -1) }) || err != nil {
			return res
		}
		see(sb.a, sb.b)
		res.SetAdd("aabb_size_sign_patterns", sb.pattern)
		if sb.neg {
			res.Count("aabb_negative_size_boxes", 1)
		}
		v := around([]float64{0.3, 2, 30}[r.Intn(3)])
		see(v)
		var cp v3
		if !guard(&res, "AABB.ClosestPoint", func() { cp = vOf(sb.box.ClosestPoint(v.vec())) }) {
			return res
		}
		lo, hi := sb.lo(), sb.hi()
		o := 0.
		for i := 0; i < 3; i++ {
			o = math.Max(o, math.Max(lo[i]-cp[i], cp[i]-hi[i]))
		}
		res.Count("aabb_signed_closest_point_queries", 1)
		if !(o <= slack()) {
			if sb.neg {
				res.Count("aabb_negative_size_closest_point_outside_corner_interval", 1)
			} else {
				res.Violate("closest-point-outside-box", "AABB.ClosestPoint", "box "+sb.pattern, fmt.Sprintf("ClosestPoint(%s) = %s lies %.3g outside the box with corners %s %s", f3(v), f3(cp), o, f3(sb.a), f3(sb.b)), wit())
			}
		}
	}
	res.Nontrivial = true
	res.Sig = fmt.Sprintf("aabb-signed/%s/%s/s%d", recv.pattern, recv.via, steps)
	if c.Case < 6 {
		res.Sample = map[string]any{"history": history}
	}
	return res
}
