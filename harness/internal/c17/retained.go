package c17

// The "retained" phase: results of array- and mesh-level transforms are values of
// their own. Every result produced during a case is kept alive and re-checked
// (positions against the transform applied to the input positions) after every
// later call and at the end of the case, so a result that shares storage with a
// later result, with its operand or with a recycled buffer is seen changing.
// Each case deliberately makes two placements of one mesh and sends several
// meshes through the same entry point in a row.

import (
	"fmt"
	"math/rand"

	"github.com/EliCDavis/polyform/modeling"
	"github.com/EliCDavis/polyform/modeling/meshops"
	"github.com/EliCDavis/vector/vector3"
	"polyverif/internal/run"
)

type meshOp struct {
	site  string
	apply func(m modeling.Mesh) modeling.Mesh
	ref   func(p v3) (v3, float64) // independent reference and the scale of its rounding error
	point func(p v3) v3            // polyform's point-level transform (nil: same arithmetic as ref)
}

const nMeshOps = 7

func genMeshOp(r *rand.Rand, kind int) meshOp {
	switch kind {
	case 0, 4:
		g := genQuat(r)
		rot := g.rotation()
		op := meshOp{site: "Mesh.Rotate", apply: func(m modeling.Mesh) modeling.Mesh { return m.Rotate(g.q) }}
		if kind == 4 {
			op.site = "meshops.RotateAttribute3D"
			op.apply = func(m modeling.Mesh) modeling.Mesh {
				return m.Transform(meshops.RotateAttribute3DTransformer{Amount: g.q})
			}
		}
		op.ref = func(p v3) (v3, float64) { return rot.apply(p), vnorm(p) }
		op.point = func(p v3) v3 { return vOf(g.q.Rotate(p.vec())) }
		return op
	case 1, 5:
		t, _ := genVec(r, -3, 4)
		op := meshOp{site: "Mesh.Translate", apply: func(m modeling.Mesh) modeling.Mesh { return m.Translate(t.vec()) }}
		if kind == 5 {
			op.site = "meshops.TranslateAttribute3D"
			op.apply = func(m modeling.Mesh) modeling.Mesh {
				return m.Transform(meshops.TranslateAttribute3DTransformer{Amount: t.vec()})
			}
		}
		op.ref = func(p v3) (v3, float64) { return vadd(p, t), vnorm(p) + vnorm(t) }
		return op
	case 2:
		sc, _ := genScale(r)
		return meshOp{site: "Mesh.Scale", apply: func(m modeling.Mesh) modeling.Mesh { return m.Scale(sc.vec()) },
			ref: func(p v3) (v3, float64) { return vmul(p, sc), vnorm(vmul(p, sc)) }}
	case 6:
		sc, _ := genScale(r)
		o, _ := genVec(r, -2, 2)
		return meshOp{site: "meshops.ScaleAttribute3D",
			apply: func(m modeling.Mesh) modeling.Mesh {
				return m.Transform(meshops.ScaleAttribute3DTransformer{Origin: o.vec(), Amount: sc.vec()})
			},
			ref: func(p v3) (v3, float64) {
				return vadd(o, vmul(vsub(p, o), sc)), vnorm(o) + vnorm(vmul(vsub(p, o), sc)) + vnorm(p)*vmaxabs(sc)
			}}
	}
	g := genTRS(r)
	return meshOp{site: "Mesh.ApplyTRS", apply: func(m modeling.Mesh) modeling.Mesh { return m.ApplyTRS(g.T) },
		ref:   func(p v3) (v3, float64) { return g.refTransform(p) },
		point: func(p v3) v3 { return vOf(g.T.Transform(p.vec())) }}
}

// kept is one result that stays alive until the end of the case.
type kept struct {
	what  string // how it was made
	step  int
	mesh  *modeling.Mesh    // a mesh result, or
	arr   []vector3.Float64 // an array result / an input array
	want  []v3              // reference positions
	point []v3              // point-level positions (nil: exact copy expected == want)
	mags  []float64
	exact bool // must equal want bit for bit (inputs, array outputs vs point-level)
}

func (k *kept) current() []v3 {
	if k.mesh != nil {
		if !k.mesh.HasFloat3Attribute(modeling.PositionAttribute) {
			return nil
		}
		return positions(*k.mesh)
	}
	return toV3(k.arr)
}

// verify returns the first index at which the result no longer is what it has to be (-1: fine).
func (k *kept) verify() (int, v3) {
	cur := k.current()
	if len(cur) != len(k.want) {
		return len(cur), v3{}
	}
	for i := range cur {
		if k.exact {
			if cur[i] != k.want[i] {
				return i, cur[i]
			}
			continue
		}
		if !(vdist(cur[i], k.want[i]) <= 1e-9*k.mags[i]+1e-300) {
			return i, cur[i]
		}
		if k.point != nil && !(vdist(cur[i], k.point[i]) <= 16*eps*k.mags[i]+1e-300) {
			return i, cur[i]
		}
	}
	return -1, v3{}
}

func buildMesh(r *rand.Rand, n int, scale float64) (modeling.Mesh, []v3) {
	P := make([]v3, n)
	in := make([]vector3.Float64, n)
	for i := range P {
		P[i] = v3{r.NormFloat64() * scale, r.NormFloat64() * scale, r.NormFloat64() * scale}
		in[i] = P[i].vec()
	}
	if r.Intn(2) == 0 {
		idx := make([]int, n)
		for i := range idx {
			idx[i] = i
		}
		return modeling.NewMesh(modeling.PointTopology, idx).SetFloat3Attribute(modeling.PositionAttribute, in), P
	}
	idx := make([]int, 3*(1+r.Intn(n+1)))
	for i := range idx {
		idx[i] = r.Intn(n)
	}
	return modeling.NewMesh(modeling.TriangleTopology, idx).SetFloat3Attribute(modeling.PositionAttribute, in), P
}

func retainedCase(c *run.Ctx) run.Result {
	var res run.Result
	r := c.Rng
	scale := pow10(r.Intn(5) - 2)
	// base meshes: the first is the largest so that later operands fit recycled buffers; some have equal size
	n0 := 1 + r.Intn(200)
	if r.Intn(4) == 0 {
		n0 = 1 + r.Intn(5000)
	}
	nb := 2 + r.Intn(3)
	var bases []modeling.Mesh
	var basePos [][]v3
	var all []*kept
	ok := guard(&res, "modeling.NewMesh", func() {
		for b := 0; b < nb; b++ {
			n := n0
			switch {
			case b > 0 && r.Intn(3) == 0:
				n = 1 + r.Intn(n0)
			case b > 0 && r.Intn(4) == 0:
				n = n0 + 1 + r.Intn(n0+8)
			}
			m, P := buildMesh(r, n, scale)
			bases = append(bases, m)
			basePos = append(basePos, P)
			mm := m
			all = append(all, &kept{what: fmt.Sprintf("base mesh %d (%d vertices)", b, n), mesh: &mm, want: P, exact: true})
		}
	})
	if !ok {
		return res
	}
	sizes := ""
	for _, P := range basePos {
		sizes += fmt.Sprint(len(P), " ")
	}
	var history []string
	recheck := func(step int, site string) bool {
		for _, k := range all {
			res.Count("retained_rechecks", 1)
			if i, got := k.verify(); i >= 0 {
				class, detail := "retained-result-changed", ""
				if k.step == step && k.mesh != nil && !k.exact {
					class = "mesh-position-mismatch"
				}
				if len(k.current()) != len(k.want) {
					detail = fmt.Sprintf("%s (made at step %d) now has %d positions, expected %d", k.what, k.step, len(k.current()), len(k.want))
				} else {
					detail = fmt.Sprintf("after step %d (%s): %s (made at step %d) has position %d = %s, it has to be %s", step, site, k.what, k.step, i, f3(got), f3(k.want[i]))
				}
				res.Violate(class, site, "results kept alive", detail+"; base sizes "+sizes,
					map[string]any{"history": history, "victim": k.what, "victim_step": k.step, "index": i, "observed": got, "base_sizes": sizes})
				return false
			}
		}
		return true
	}

	steps := 5 + r.Intn(6)
	first := r.Intn(nMeshOps)
	if r.Intn(2) == 0 {
		first = 3 // ApplyTRS: the placement entry point
	}
	prevKind := first
	for s := 1; s <= steps; s++ {
		// the first three steps: two placements of base 0 and one of base 1 through the same entry point
		kind, src := prevKind, 0
		switch {
		case s == 1 || s == 2:
			kind, src = first, 0
		case s == 3:
			kind, src = first, 1
		default:
			if r.Intn(2) == 0 {
				kind = r.Intn(nMeshOps + 2)
			}
			src = r.Intn(len(all))
		}
		prevKind = kind
		if kind >= nMeshOps { // array-level entry points on the positions of a base mesh
			b := r.Intn(nb)
			in := make([]vector3.Float64, len(basePos[b]))
			for i, p := range basePos[b] {
				in[i] = p.vec()
			}
			inK := &kept{what: fmt.Sprintf("input array of step %d", s), step: s, arr: in, want: basePos[b], exact: true}
			var out []vector3.Float64
			outK := &kept{step: s, exact: true, want: make([]v3, len(in))}
			site := ""
			if kind == nMeshOps {
				g := genQuat(r)
				site = "Quaternion.RotateArray"
				if !guard(&res, site, func() {
					out = g.q.RotateArray(in)
					for i := range in {
						outK.want[i] = vOf(g.q.Rotate(basePos[b][i].vec()))
					}
				}) {
					return res
				}
			} else {
				g := genTRS(r)
				site = "TRS.TransformArray"
				if !guard(&res, site, func() {
					out = g.T.TransformArray(in)
					for i := range in {
						outK.want[i] = vOf(g.T.Transform(basePos[b][i].vec()))
					}
				}) {
					return res
				}
			}
			outK.arr, outK.what = out, fmt.Sprintf("output of %s at step %d on the positions of base %d", site, s, b)
			history = append(history, fmt.Sprintf("%d: %s(base %d positions)", s, site, b))
			all = append(all, inK, outK)
			res.SetAdd("retained_entry_points", site)
			if !recheck(s, site) {
				return res
			}
			// the caller owns the output: writing to it must not show up anywhere else
			if len(out) == len(outK.want) && len(out) > 0 {
				j := r.Intn(len(out))
				sentinel := v3{12345.5, -7, float64(s)}
				out[j] = sentinel.vec()
				outK.want[j] = sentinel
				history = append(history, fmt.Sprintf("%d: harness writes element %d of that output", s, j))
				if !recheck(s, site+" (output written by its owner)") {
					return res
				}
			}
			continue
		}
		k := all[src]
		if k.mesh == nil {
			k = all[0]
		}
		op := genMeshOp(r, kind)
		cur := k.want
		if !k.exact { // chain on an earlier result: start from what polyform holds (already verified)
			cur = k.current()
		}
		src0 := k.what
		if len(src0) > 70 {
			src0 = src0[:70] + "…"
		}
		nk := &kept{what: fmt.Sprintf("result of %s at step %d applied to [%s]", op.site, s, src0), step: s}
		var next modeling.Mesh
		if !guard(&res, op.site, func() {
			next = op.apply(*k.mesh)
			for _, p := range cur {
				w, mag := op.ref(p)
				nk.want = append(nk.want, w)
				nk.mags = append(nk.mags, mag)
				if op.point != nil {
					nk.point = append(nk.point, op.point(p))
				}
			}
		}) {
			return res
		}
		nk.mesh = &next
		all = append(all, nk)
		if len(history) < 40 {
			history = append(history, fmt.Sprintf("%d: %s on [%s]", s, op.site, src0))
		}
		res.SetAdd("retained_entry_points", op.site)
		res.Count("retained_results", 1)
		if !recheck(s, op.site) {
			return res
		}
	}
	recheck(steps+1, "end of case")
	res.Count("retained_cases", 1)
	res.Nontrivial = true
	res.Sig = fmt.Sprintf("retained/b%d/n%d/first%d/s%d", nb, bucket(n0), first, steps)
	if c.Case < 4 {
		res.Sample = map[string]any{"base_sizes": sizes, "history": history}
	}
	return res
}
