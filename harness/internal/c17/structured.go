package c17

// Structured matrices: the shapes for which an implementation is tempted to take
// a shortcut (affine, bottom row (0,0,0,w), projective rows, block-diagonal,
// diagonal, monomial, triangular, sparse patterns, symmetric, orthogonal, frames
// from MatFromDirs and TRS) and sums, products and scalar multiples of them. Every
// matrix law of matrixCase is evaluated on them exactly as on dense matrices.

import (
	"math"
	"math/rand"

	"github.com/EliCDavis/polyform/math/mat"
)

// structKinds lists the labels genStructured can return (floors are set per label).
var structKinds = []string{
	"affine-w", "identity-multiple", "projective", "projective-partial", "perspective",
	"block-2+2", "block-3+1", "block-1+3", "diagonal", "perm-scale",
	"upper-triangular", "lower-triangular", "sparse-pattern", "symmetric", "orthogonal-quat",
	"matfromdirs", "unit-row", "unit-col", "affine-frame", "signed-zeros",
}
var compositeKinds = []string{"sum", "product", "scaled"}

func rnd(r *rand.Rand) float64 { // a non-zero entry of order one
	return (0.25 + 1.75*r.Float64()) * signOf(r)
}

func genW(r *rand.Rand) float64 {
	return []float64{2, 0.5, -1, 3, 4, 0.25, -2, 1.5 + r.Float64(), -(0.1 + r.Float64())}[r.Intn(9)]
}

func affineFrame(r *rand.Rand) m4 {
	q := qOf(genQuat(r).q)
	t, _ := genVec(r, -1, 1)
	sc := v3{(0.5 + r.Float64()) * signOf(r), 0.5 + r.Float64(), 0.5 + r.Float64()}
	return trsMatrix(t, q, sc)
}

func genStructured(r *rand.Rand) (m m4, kind string) {
	kind = structKinds[r.Intn(len(structKinds))]
	switch kind {
	case "affine-frame":
		m = affineFrame(r)
	case "affine-w": // an affine frame whose bottom row is exactly (0,0,0,w), w != 1
		m = affineFrame(r)
		if r.Intn(2) == 0 { // dense upper part
			for i := 0; i < 3; i++ {
				for j := 0; j < 4; j++ {
					m[i][j] = rnd(r)
				}
			}
		}
		m[3][3] = genW(r)
	case "identity-multiple":
		w := genW(r)
		for i := 0; i < 4; i++ {
			m[i][i] = w
		}
	case "projective": // full bottom row
		m = affineFrame(r)
		m[3] = [4]float64{rnd(r), rnd(r), rnd(r), rnd(r)}
	case "projective-partial": // bottom row with exact zeros in some places
		m = affineFrame(r)
		for {
			nz := 0
			for j := 0; j < 4; j++ {
				m[3][j] = 0
				if r.Intn(2) == 0 {
					m[3][j] = rnd(r)
					nz++
				}
			}
			if nz > 0 && !(m[3][0] == 0 && m[3][1] == 0 && m[3][2] == 0 && m[3][3] == 1) {
				break
			}
		}
	case "perspective": // the usual projection matrix: bottom row (0,0,-1,0)
		f, a := 0.5+2*r.Float64(), 0.5+1.5*r.Float64()
		n, fa := 0.1+r.Float64(), 5+20*r.Float64()
		m[0][0], m[1][1] = f/a, f
		m[2][2], m[2][3] = (fa+n)/(n-fa), 2*fa*n/(n-fa)
		m[3][2] = -1
	case "block-2+2":
		for i := 0; i < 2; i++ {
			for j := 0; j < 2; j++ {
				m[i][j], m[2+i][2+j] = rnd(r), rnd(r)
			}
		}
	case "block-3+1":
		for i := 0; i < 3; i++ {
			for j := 0; j < 3; j++ {
				m[i][j] = rnd(r)
			}
		}
		m[3][3] = genW(r)
	case "block-1+3":
		m[0][0] = genW(r)
		for i := 1; i < 4; i++ {
			for j := 1; j < 4; j++ {
				m[i][j] = rnd(r)
			}
		}
	case "diagonal":
		s := rnd(r)
		for i := 0; i < 4; i++ {
			m[i][i] = rnd(r)
			if r.Intn(3) == 0 {
				m[i][i] = s
			}
		}
		if r.Intn(4) == 0 { // diag(s,s,s,s')
			for i := 0; i < 3; i++ {
				m[i][i] = s
			}
		}
	case "perm-scale":
		p := r.Perm(4)
		for i := 0; i < 4; i++ {
			m[i][p[i]] = rnd(r)
		}
	case "upper-triangular", "lower-triangular":
		for i := 0; i < 4; i++ {
			for j := i; j < 4; j++ {
				v := rnd(r)
				if j > i && r.Intn(4) == 0 {
					v = 0
				}
				if kind == "upper-triangular" {
					m[i][j] = v
				} else {
					m[j][i] = v
				}
			}
		}
	case "sparse-pattern": // a random zero pattern that contains a permutation (structurally non-singular)
		p := r.Perm(4)
		for i := 0; i < 4; i++ {
			for j := 0; j < 4; j++ {
				if p[i] == j || r.Intn(10) < 3 {
					m[i][j] = rnd(r)
				}
			}
		}
	case "signed-zeros": // a pattern containing a permutation; the other entries are +0, -0 or a value
		p := r.Perm(4)
		for i := 0; i < 4; i++ {
			for j := 0; j < 4; j++ {
				switch k := r.Intn(10); {
				case p[i] == j || k < 3:
					m[i][j] = rnd(r)
				case k < 7:
					m[i][j] = negZero
				}
			}
		}
	case "symmetric":
		for i := 0; i < 4; i++ {
			for j := i; j < 4; j++ {
				v := rnd(r)
				m[i][j], m[j][i] = v, v
			}
		}
	case "orthogonal-quat":
		m = trsMatrix(v3{}, qOf(genQuat(r).q), v3{1, 1, 1})
	case "matfromdirs":
		up := randUnit(r)
		fwd := perpUnit(r, up)
		if r.Intn(2) == 0 { // not exactly perpendicular
			fwd = vunit(vadd(fwd, vscale(up, 0.3*r.NormFloat64())))
		}
		off, _ := genVec(r, -1, 2)
		m = fromMat(mat.MatFromDirs(up.vec(), fwd.vec(), off.vec()))
	case "unit-row": // one row is a multiple of a basis vector, the rest dense
		for i := 0; i < 4; i++ {
			for j := 0; j < 4; j++ {
				m[i][j] = rnd(r)
			}
		}
		i, j := r.Intn(4), r.Intn(4)
		m[i] = [4]float64{}
		m[i][j] = []float64{1, 1, genW(r)}[r.Intn(3)]
	case "unit-col":
		for i := 0; i < 4; i++ {
			for j := 0; j < 4; j++ {
				m[i][j] = rnd(r)
			}
		}
		i, j := r.Intn(4), r.Intn(4)
		for k := 0; k < 4; k++ {
			m[k][j] = 0
		}
		m[i][j] = []float64{1, 1, genW(r)}[r.Intn(3)]
	}
	if r.Intn(3) == 0 { // overall magnitude (a power of two keeps the zero/one pattern of everything but the ones)
		s := math.Ldexp(1, r.Intn(21)-10)
		if kind != "affine-frame" && kind != "matfromdirs" && kind != "orthogonal-quat" && kind != "perspective" {
			for i := 0; i < 4; i++ {
				for j := 0; j < 4; j++ {
					m[i][j] *= s
				}
			}
		}
	}
	return m, kind
}

// genMatrix draws a matrix for the matrix laws: unstructured, structured, or a sum /
// product / scalar multiple of two of those. affine = bottom row is exactly (0,0,0,1).
func genMatrix(r *rand.Rand) (m m4, kind string, affine bool) {
	one := func() (m4, string) {
		if r.Intn(3) == 0 {
			b, k, _ := genBasicMatrix(r)
			return b, k
		}
		return genStructured(r)
	}
	switch k := r.Intn(20); {
	case k < 7:
		m, kind, _ = genBasicMatrix(r)
	case k < 16:
		m, kind = genStructured(r)
	case k < 17: // e.g. the sum of two affine frames: bottom row (0,0,0,2)
		a, _ := genStructured(r)
		b, _ := genStructured(r)
		if r.Intn(2) == 0 {
			a, b = affineFrame(r), affineFrame(r)
		}
		m, kind = addRef(a, b), "sum"
	case k < 19:
		a, _ := one()
		b, _ := one()
		m, _ = mulRef(a, b)
		kind = "product"
	default:
		a, _ := one()
		w := genW(r)
		for i := 0; i < 4; i++ {
			for j := 0; j < 4; j++ {
				m[i][j] = w * a[i][j]
			}
		}
		kind = "scaled"
	}
	affine = m[3] == [4]float64{0, 0, 0, 1}
	return m, kind, affine
}
