// Package c17 monitors property C17: the transform types obey their algebra
// (quaternion, 4x4 matrix, TRS, mesh-level transforms, AABB).
//
// The oracle is the set of laws themselves, evaluated against reference
// arithmetic written on plain arrays (ref.go) with magnitude-proportional
// tolerances; the (bi)linear matrix operations are additionally decided
// exhaustively on basis matrices in exact 0/1 (small-integer / power-of-two)
// arithmetic.
package c17

import (
	"fmt"
	"math"
	"math/rand"

	"github.com/EliCDavis/polyform/math/quaternion"
	"polyverif/internal/run"
)

func tiered(quick, thorough int) func(string) int {
	return func(t string) int {
		if t == "thorough" {
			return thorough
		}
		return quick
	}
}

func Spec() *run.Spec {
	return &run.Spec{
		ID: "C17", Level: "exploration",
		Rule: "tables: every pair of the 16 basis matrices (several coefficient pairs) for Add and Multiply, 12 affine basis matrices x 6 vectors for MulPosition, " +
			"all 256 row-basis matrices for Determinant, all 24 permutation matrices x power-of-two scalings for Inverse, compared exactly. " +
			"Random phases: one case = one generated instance (quaternions/vectors, matrix triple, TRS triple, mesh + transform chain, box + encapsulation history); " +
			"non-trivial = the instance exercises the law away from its fixed points (rotation angle not ~0 and vector not on the axis; dense matrix with the inverse law evaluated; " +
			"TRS with non-identity rotation, non-uniform scale and non-zero translation; mesh with vertices; box history in which at least one step grew the box). " +
			"retained: one case = 2-4 base meshes and 5-10 calls (two placements of one mesh, several meshes through one entry point in a row, chains, array-level calls); every result stays alive and all are re-checked after every call. " +
			"large: one case = one array of n points (n in {4095, 4096, 4097, 8191, 8192, 8193, 10000, 12289, 16385, 32769, 65537, random 9k-120k}) pushed through all 13 array-, mesh- and box-level entry points, every element checked. " +
			"Signature = generator kinds x magnitude decades x structural flags.",
		Assumptions: []string{
			"inputs are finite; quaternions used as rotations are unit (built by FromTheta, Normalize, RotationTo or Identity); RotationTo is given unit vectors (its formula, taken from gl-matrix, is only a rotation for unit input: RotationTo((2,0,0),(0,2,0)) is not a quarter turn)",
			"axis-angle constructors are held to the law for axis magnitudes whose squared length is a normal finite double (largest component in [1e-150, 1e150]); outside, the delivered tree returns NaN (< ~1e-162), an inaccurate axis (~1e-161..1e-155) or a non-unit quaternion (> ~1.3e154): counted as axis_underflow_* / axis_overflow_* observations, flagged only with strictAxisRange",
			"inside RotationTo's snap band |from.to| > 1-1e-6 (inherited from gl-matrix) the result is only required to be as close to the target as the snapped (anti)parallel direction, i.e. within sqrt(2e-6) ~ 1.4e-3; outside the band the tolerance is 1e-9",
			"inverse laws are evaluated for matrices whose determinant is not lost to cancellation (sum of |terms| / |det| <= 1e6), with an a-posteriori rounding bound of the cofactor formula times 64 as tolerance",
			"AABB containment is judged with a slack of a few ulps of the largest coordinate involved per encapsulation step (the box is stored as centre/extents, so min/max are re-derived with rounding)",
			"MulPosition is checked on affine matrices (bottom row 0,0,0,1)",
		},
		MinNontrivial: map[string]int{"quick": 500, "thorough": 1000},
		MinObserved: map[string]int64{
			"add_basis_pairs":                                     256,
			"aabb_negative_size_boxes":                            2000,
			"aabb_size_sign_patterns":                             20,
			"aabb_encapsulate_bounds_with_negative_size_argument": 1000,
			"aabb_negative_argument_steps_judged":                 500,
			"mul_basis_pairs":                                     256,
			"det_row_basis":                                       256,
			"inverse_permutations":                                24,
			"rotto_exact_antiparallel":                            6,
			"rotto_snap_band":                                     50,
			"inverse_law_checked":                                 500,
			"mesh_positions":                                      1000,
			"aabb_grow_steps":                                     1000,
			"retained_results":                                    5000,
			"axis_magnitude_decades":                              10,
			"axis_angle_far_from_unit":                            1000,
			"vector_magnitude_decades":                            12,
			"trs_scale_exactly_zero":                              100,
			"retained_entry_points":                               9,
			"large_cases":                                         12,
			"large_entry_points":                                  13,
			"large_size_mod_4096":                                 4,
		},
		MinObservedTier: structFloors(),
		Phases: []run.Phase{
			{Name: "tables", Cases: func(string) int { return nTables }, Run: tables, Batch: 2},
			{Name: "rotation-to", Cases: tiered(1500, 20000), Run: rotationTo, Batch: 250},
			{Name: "quat", Cases: tiered(10000, 120000), Run: quatCase, Batch: 1000},
			{Name: "matrix", Cases: tiered(10000, 120000), Run: matrixCase, Batch: 1000},
			{Name: "trs", Cases: tiered(8000, 80000), Run: trsCase, Batch: 1000},
			{Name: "mesh", Cases: tiered(4000, 50000), Run: meshCase, Batch: 500},
			{Name: "aabb", Cases: tiered(8000, 80000), Run: aabbCase, Batch: 1000},
			{Name: "aabb-signed", Cases: tiered(4000, 40000), Run: aabbSignedCase, Batch: 1000},
			{Name: "retained", Cases: tiered(3000, 30000), Run: retainedCase, Batch: 250},
			{Name: "large", Cases: tiered(12, 150), Run: largeCase, Batch: 1, CPUBudgetS: 120},
		},
	}
}

// structFloors: every matrix structure must have been drawn, and had the inverse laws evaluated on it, a minimum number of times.
func structFloors() map[string]map[string]int64 {
	out := map[string]map[string]int64{"quick": {}, "thorough": {}}
	for _, k := range append(append([]string{}, structKinds...), compositeKinds...) {
		out["quick"]["matrix_struct_"+k], out["thorough"]["matrix_struct_"+k] = 40, 400
		out["quick"]["inverse_checked_"+k], out["thorough"]["inverse_checked_"+k] = 20, 200
	}
	return out
}

// ---------------------------------------------------------------------------
// shared generators

func randUnit(r *rand.Rand) v3 {
	for {
		v := v3{r.NormFloat64(), r.NormFloat64(), r.NormFloat64()}
		if n := vnorm(v); n > 1e-3 {
			return vunit(v)
		}
	}
}

// perpUnit returns a unit vector orthogonal to the unit vector a.
func perpUnit(r *rand.Rand, a v3) v3 {
	for {
		u := randUnit(r)
		p := vsub(u, vscale(a, vdot(u, a)))
		if vnorm(p) > 0.1 {
			return vunit(p)
		}
	}
}

func pow10(k int) float64 { return math.Pow(10, float64(k)) }

var negZero = math.Copysign(0, -1)

// scaledUnit normalises v without forming squares that under- or overflow.
func scaledUnit(v v3) v3 {
	m := vmaxabs(v)
	if m == 0 || math.IsInf(m, 0) || math.IsNaN(m) {
		return v3{math.NaN(), math.NaN(), math.NaN()}
	}
	// scale by a power of two (exact) so that the largest component is in [1,2)
	_, e := math.Frexp(m)
	w := v3{math.Ldexp(v[0], 1-e), math.Ldexp(v[1], 1-e), math.Ldexp(v[2], 1-e)}
	n := math.Sqrt(w[0]*w[0] + w[1]*w[1] + w[2]*w[2])
	return v3{w[0] / n, w[1] / n, w[2] / n}
}

// axisDomain classifies the axis handed to an axis-angle constructor: "ok" when the
// sum of the squares of its components is a normal, finite double.
func axisDomain(v v3) string {
	m := vmaxabs(v)
	switch {
	case m < 1e-150:
		return "underflow"
	case m > 1e150:
		return "overflow"
	}
	return "ok"
}

// genVec draws a vector; kind tells how.
func genVec(r *rand.Rand, loDec, hiDec int) (v3, string) {
	s := pow10(loDec+r.Intn(hiDec-loDec+1)) * (1 + 9*r.Float64())
	switch r.Intn(11) {
	case 10: // components that are exactly +0 or -0
		v := vscale(randUnit(r), s)
		for i := range v {
			switch r.Intn(4) {
			case 0:
				v[i] = 0
			case 1:
				v[i] = negZero
			}
		}
		if v == (v3{}) {
			v[r.Intn(3)] = s
		}
		return v, "signed-zero"
	case 0: // along a coordinate axis
		var v v3
		v[r.Intn(3)] = s * float64(1-2*r.Intn(2))
		if r.Intn(2) == 0 { // the other components -0
			for i := range v {
				if v[i] == 0 {
					v[i] = negZero
				}
			}
		}
		return v, "axis"
	case 1: // in a coordinate plane
		u := randUnit(r)
		u[r.Intn(3)] = 0
		if vnorm(u) < 1e-3 {
			u = v3{1, 1, 0}
		}
		return vscale(vunit(u), s), "plane"
	case 2: // small integers
		return v3{float64(r.Intn(9) - 4), float64(r.Intn(9) - 4), float64(1 + r.Intn(4))}, "int"
	case 3: // components of very different magnitude
		return v3{s * r.NormFloat64(), s * 1e-6 * r.NormFloat64(), s * 1e3 * r.NormFloat64()}, "skew"
	}
	return vscale(randUnit(r), s), "generic"
}

type gQuat struct {
	q       quaternion.Quaternion
	kind    string
	axis    v3      // unit axis: the axis handed over, normalised by scaledUnit (kind theta)
	given   v3      // the axis handed over
	axisDec int     // its decade
	theta   float64 // (kind theta)
}

// rotation returns the reference rotation matrix: Rodrigues' formula about the
// normalised axis when the quaternion came from an axis and an angle (independent of
// anything polyform computed), else the matrix of the quaternion's components.
func (g gQuat) rotation() m3 {
	if g.axis == (v3{}) {
		return quatMatrix(qOf(g.q))
	}
	k := g.axis
	c, s := math.Cos(g.theta), math.Sin(g.theta)
	return m3{
		{c + k[0]*k[0]*(1-c), k[0]*k[1]*(1-c) - k[2]*s, k[0]*k[2]*(1-c) + k[1]*s},
		{k[1]*k[0]*(1-c) + k[2]*s, c + k[1]*k[1]*(1-c), k[1]*k[2]*(1-c) - k[0]*s},
		{k[2]*k[0]*(1-c) - k[1]*s, k[2]*k[1]*(1-c) + k[0]*s, c + k[2]*k[2]*(1-c)},
	}
}

var specialAngles = []float64{0, negZero, math.Pi / 2, math.Pi, -math.Pi, 2 * math.Pi, -2 * math.Pi, -math.Pi / 2, 1e-8, math.Pi - 1e-8, math.Pi / 3, 3 * math.Pi,
	4 * math.Pi, 1e6, -12345678.9, 1e15, math.Ldexp(math.Pi, 30)}

// genAxisAngle builds FromTheta(theta, axis) with the axis magnitude anywhere in the double range
// (decades lo..hi, log-uniform), including axes with subnormal components.
func genAxisAngle(r *rand.Rand, lo, hi int) gQuat {
	axis := randUnit(r)
	kind := "theta"
	switch r.Intn(6) {
	case 0:
		axis = v3{}
		axis[r.Intn(3)] = float64(1 - 2*r.Intn(2))
		if r.Intn(2) == 0 {
			for i := range axis {
				if axis[i] == 0 {
					axis[i] = negZero
				}
			}
		}
		kind = "theta-axis"
	case 1: // one dominant component, the others many decades below
		axis = v3{axis[0], axis[1] * 1e-12, axis[2] * 1e-25}
		kind = "theta-skewaxis"
	}
	theta := (r.Float64()*2 - 1) * 4 * math.Pi
	if r.Intn(4) == 0 {
		theta = specialAngles[r.Intn(len(specialAngles))]
		kind += "-special"
	}
	// the axis handed over is deliberately not unit: the constructor normalises
	sc, dec := 1., 0
	switch r.Intn(4) {
	case 0:
	case 1:
		dec = r.Intn(7) - 3
		sc = pow10(dec) * (1 + r.Float64())
		kind += "-nonunit"
	default:
		dec = lo + r.Intn(hi-lo+1)
		sc = pow10(dec) * (1 + 8*r.Float64())
		kind += "-farunit"
	}
	given := vscale(axis, sc)
	if math.IsInf(vmaxabs(given), 0) {
		given = vscale(axis, 1e300)
	}
	g := gQuat{kind: kind, given: given, axisDec: decade(vmaxabs(given)), theta: theta}
	g.axis = scaledUnit(given)
	g.q = quaternion.FromTheta(theta, given.vec())
	return g
}

// genQuat builds a unit quaternion through one of polyform's constructors.
func genQuat(r *rand.Rand) gQuat {
	switch k := r.Intn(20); {
	case k < 11:
		// axis magnitudes over the whole range in which |axis|^2 is a normal double
		for {
			if g := genAxisAngle(r, -149, 149); axisDomain(g.given) == "ok" {
				return g
			}
		}
	case k < 15:
		var c q4
		for {
			c = q4{r.NormFloat64(), r.NormFloat64(), r.NormFloat64(), r.NormFloat64()}
			if qnorm(c) > 1e-2 {
				break
			}
		}
		sc := pow10(r.Intn(7) - 3)
		return gQuat{q: quaternion.New(v3{c[0] * sc, c[1] * sc, c[2] * sc}.vec(), c[3]*sc).Normalize(), kind: "normalized"}
	case k < 19:
		return gQuat{q: quaternion.RotationTo(randUnit(r).vec(), randUnit(r).vec()), kind: "rotationTo"}
	}
	return gQuat{q: quaternion.Identity(), kind: "identity"}
}

func qOf(q quaternion.Quaternion) q4 {
	d := q.Dir()
	return q4{d.X(), d.Y(), d.Z(), q.W()}
}

// rotAngle is the rotation angle in [0,pi] encoded by a unit quaternion.
func rotAngle(q q4) float64 {
	return 2 * math.Atan2(vnorm(v3{q[0], q[1], q[2]}), math.Abs(q[3]))
}

func f3(v v3) string { return fmt.Sprintf("(%.17g, %.17g, %.17g)", v[0], v[1], v[2]) }
func f4(q q4) string { return fmt.Sprintf("(%.17g, %.17g, %.17g; %.17g)", q[0], q[1], q[2], q[3]) }

func fm(m m4) string {
	s := ""
	for i := 0; i < 4; i++ {
		s += fmt.Sprintf("[%.17g %.17g %.17g %.17g]", m[i][0], m[i][1], m[i][2], m[i][3])
	}
	return s
}

// guard runs a polyform call; a panic inside the algebra is a violation of its own.
func guard(res *run.Result, site string, f func()) bool {
	if p := run.Try(f); p != nil {
		res.Violate("runtime-panic", site, "", p.Value+" at "+p.Site, nil)
		return false
	}
	return true
}
