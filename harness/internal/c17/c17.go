// Package c17 monitors property C17: the transform types obey their algebra
// (quaternion, 4x4 matrix, TRS, mesh-level transforms, AABB).
//
// The oracle is the set of laws themselves, evaluated against reference
// arithmetic written on plain arrays (ref.go) with magnitude-proportional
// tolerances; the (bi)linear matrix operations are additionally decided
// exhaustively on basis matrices in exact 0/1 (small-integer / power-of-two)
// arithmetic.
package c17

import (
	"fmt"
	"math"
	"math/rand"

	"github.com/EliCDavis/polyform/math/quaternion"
	"polyverif/internal/run"
)

func tiered(quick, thorough int) func(string) int {
	return func(t string) int {
		if t == "thorough" {
			return thorough
		}
		return quick
	}
}

func Spec() *run.Spec {
	return &run.Spec{
		ID: "C17", Level: "exploration",
		Rule: "tables: every pair of the 16 basis matrices (several coefficient pairs) for Add and Multiply, 12 affine basis matrices x 6 vectors for MulPosition, " +
			"all 256 row-basis matrices for Determinant, all 24 permutation matrices x power-of-two scalings for Inverse, compared exactly. " +
			"Random phases: one case = one generated instance (quaternions/vectors, matrix triple, TRS triple, mesh + transform chain, box + encapsulation history); " +
			"non-trivial = the instance exercises the law away from its fixed points (rotation angle not ~0 and vector not on the axis; dense matrix with the inverse law evaluated; " +
			"TRS with non-identity rotation, non-uniform scale and non-zero translation; mesh with vertices; box history in which at least one step grew the box). " +
			"retained: one case = 2-4 base meshes and 5-10 calls (two placements of one mesh, several meshes through one entry point in a row, chains, array-level calls); every result stays alive and all are re-checked after every call. " +
			"large: one case = one array of n points (n in {4095, 4096, 4097, 8191, 8192, 8193, 10000, 12289, 16385, 32769, 65537, random 9k-120k}) pushed through all 13 array-, mesh- and box-level entry points, every element checked. " +
			"Signature = generator kinds x magnitude decades x structural flags.",
		Assumptions: []string{
			"inputs are finite; quaternions used as rotations are unit (built by FromTheta, Normalize, RotationTo or Identity); RotationTo is given unit vectors",
			"inside RotationTo's snap band |from.to| > 1-1e-6 (inherited from gl-matrix) the result is only required to be as close to the target as the snapped (anti)parallel direction, i.e. within sqrt(2e-6) ~ 1.4e-3; outside the band the tolerance is 1e-9",
			"inverse laws are evaluated for matrices whose determinant is not lost to cancellation (sum of |terms| / |det| <= 1e6), with an a-posteriori rounding bound of the cofactor formula times 64 as tolerance",
			"AABB containment is judged with a slack of a few ulps of the largest coordinate involved per encapsulation step (the box is stored as centre/extents, so min/max are re-derived with rounding)",
			"MulPosition is checked on affine matrices (bottom row 0,0,0,1)",
		},
		MinNontrivial: map[string]int{"quick": 500, "thorough": 1000},
		MinObserved: map[string]int64{
			"add_basis_pairs":          256,
			"mul_basis_pairs":          256,
			"det_row_basis":            256,
			"inverse_permutations":     24,
			"rotto_exact_antiparallel": 6,
			"rotto_snap_band":          50,
			"inverse_law_checked":      500,
			"mesh_positions":           1000,
			"aabb_grow_steps":          1000,
			"retained_results":         5000,
			"retained_entry_points":    9,
			"large_cases":              12,
			"large_entry_points":       13,
			"large_size_mod_4096":      4,
		},
		MinObservedTier: structFloors(),
		Phases: []run.Phase{
			{Name: "tables", Cases: func(string) int { return nTables }, Run: tables, Batch: 2},
			{Name: "rotation-to", Cases: tiered(1500, 20000), Run: rotationTo, Batch: 250},
			{Name: "quat", Cases: tiered(10000, 120000), Run: quatCase, Batch: 1000},
			{Name: "matrix", Cases: tiered(10000, 120000), Run: matrixCase, Batch: 1000},
			{Name: "trs", Cases: tiered(8000, 80000), Run: trsCase, Batch: 1000},
			{Name: "mesh", Cases: tiered(4000, 50000), Run: meshCase, Batch: 500},
			{Name: "aabb", Cases: tiered(8000, 80000), Run: aabbCase, Batch: 1000},
			{Name: "retained", Cases: tiered(3000, 30000), Run: retainedCase, Batch: 250},
			{Name: "large", Cases: tiered(12, 150), Run: largeCase, Batch: 1, CPUBudgetS: 120},
		},
	}
}

// structFloors: every matrix structure must have been drawn, and had the inverse laws evaluated on it, a minimum number of times.
func structFloors() map[string]map[string]int64 {
	out := map[string]map[string]int64{"quick": {}, "thorough": {}}
	for _, k := range append(append([]string{}, structKinds...), compositeKinds...) {
		out["quick"]["matrix_struct_"+k], out["thorough"]["matrix_struct_"+k] = 40, 400
		out["quick"]["inverse_checked_"+k], out["thorough"]["inverse_checked_"+k] = 20, 200
	}
	return out
}

// ---------------------------------------------------------------------------
// shared generators

func randUnit(r *rand.Rand) v3 {
	for {
		v := v3{r.NormFloat64(), r.NormFloat64(), r.NormFloat64()}
		if n := vnorm(v); n > 1e-3 {
			return vunit(v)
		}
	}
}

// perpUnit returns a unit vector orthogonal to the unit vector a.
func perpUnit(r *rand.Rand, a v3) v3 {
	for {
		u := randUnit(r)
		p := vsub(u, vscale(a, vdot(u, a)))
		if vnorm(p) > 0.1 {
			return vunit(p)
		}
	}
}

func pow10(k int) float64 { return math.Pow(10, float64(k)) }

// genVec draws a vector; kind tells how.
func genVec(r *rand.Rand, loDec, hiDec int) (v3, string) {
	s := pow10(loDec+r.Intn(hiDec-loDec+1)) * (1 + 9*r.Float64())
	switch r.Intn(10) {
	case 0: // along a coordinate axis
		var v v3
		v[r.Intn(3)] = s * float64(1-2*r.Intn(2))
		return v, "axis"
	case 1: // in a coordinate plane
		u := randUnit(r)
		u[r.Intn(3)] = 0
		if vnorm(u) < 1e-3 {
			u = v3{1, 1, 0}
		}
		return vscale(vunit(u), s), "plane"
	case 2: // small integers
		return v3{float64(r.Intn(9) - 4), float64(r.Intn(9) - 4), float64(1 + r.Intn(4))}, "int"
	case 3: // components of very different magnitude
		return v3{s * r.NormFloat64(), s * 1e-6 * r.NormFloat64(), s * 1e3 * r.NormFloat64()}, "skew"
	}
	return vscale(randUnit(r), s), "generic"
}

type gQuat struct {
	q     quaternion.Quaternion
	kind  string
	axis  v3      // unit axis (kind theta)
	theta float64 // (kind theta)
}

var specialAngles = []float64{0, math.Pi / 2, math.Pi, -math.Pi, 2 * math.Pi, -math.Pi / 2, 1e-8, math.Pi - 1e-8, math.Pi / 3, 3 * math.Pi}

// genQuat builds a unit quaternion through one of polyform's constructors.
func genQuat(r *rand.Rand) gQuat {
	switch k := r.Intn(20); {
	case k < 11:
		axis := randUnit(r)
		kind := "theta"
		switch r.Intn(6) {
		case 0:
			axis = v3{}
			axis[r.Intn(3)] = float64(1 - 2*r.Intn(2))
			kind = "theta-axis"
		}
		theta := (r.Float64()*2 - 1) * 4 * math.Pi
		if r.Intn(5) == 0 {
			theta = specialAngles[r.Intn(len(specialAngles))]
			kind += "-special"
		}
		// the axis handed over is deliberately not unit: FromTheta normalises
		sc := 1.
		if r.Intn(3) > 0 {
			sc = pow10(r.Intn(7)-3) * (1 + r.Float64())
			kind += "-nonunit"
		}
		return gQuat{q: quaternion.FromTheta(theta, vscale(axis, sc).vec()), kind: kind, axis: axis, theta: theta}
	case k < 15:
		var c q4
		for {
			c = q4{r.NormFloat64(), r.NormFloat64(), r.NormFloat64(), r.NormFloat64()}
			if qnorm(c) > 1e-2 {
				break
			}
		}
		sc := pow10(r.Intn(7) - 3)
		return gQuat{q: quaternion.New(v3{c[0] * sc, c[1] * sc, c[2] * sc}.vec(), c[3]*sc).Normalize(), kind: "normalized"}
	case k < 19:
		return gQuat{q: quaternion.RotationTo(randUnit(r).vec(), randUnit(r).vec()), kind: "rotationTo"}
	}
	return gQuat{q: quaternion.Identity(), kind: "identity"}
}

func qOf(q quaternion.Quaternion) q4 {
	d := q.Dir()
	return q4{d.X(), d.Y(), d.Z(), q.W()}
}

// rotAngle is the rotation angle in [0,pi] encoded by a unit quaternion.
func rotAngle(q q4) float64 {
	return 2 * math.Atan2(vnorm(v3{q[0], q[1], q[2]}), math.Abs(q[3]))
}

func f3(v v3) string { return fmt.Sprintf("(%.17g, %.17g, %.17g)", v[0], v[1], v[2]) }
func f4(q q4) string { return fmt.Sprintf("(%.17g, %.17g, %.17g; %.17g)", q[0], q[1], q[2], q[3]) }

func fm(m m4) string {
	s := ""
	for i := 0; i < 4; i++ {
		s += fmt.Sprintf("[%.17g %.17g %.17g %.17g]", m[i][0], m[i][1], m[i][2], m[i][3])
	}
	return s
}

// guard runs a polyform call; a panic inside the algebra is a violation of its own.
func guard(res *run.Result, site string, f func()) bool {
	if p := run.Try(f); p != nil {
		res.Violate("runtime-panic", site, "", p.Value+" at "+p.Site, nil)
		return false
	}
	return true
}
