// Package c17 monitors the transform algebra (placeholder used to test the framework).
package c17

import (
	"fmt"
	"math"

	"github.com/EliCDavis/polyform/math/quaternion"
	"github.com/EliCDavis/vector/vector3"
	"polyverif/internal/run"
)

func Spec() *run.Spec {
	return &run.Spec{
		ID: "C17", Level: "exploration", Rule: "placeholder",
		Phases: []run.Phase{{Name: "laws", Cases: func(t string) int { return 200 }, Run: laws, Batch: 20}},
	}
}

func laws(c *run.Ctx) run.Result {
	var res run.Result
	r := c.Rng
	q := quaternion.FromTheta(r.Float64()*7, vector3.New(r.NormFloat64(), r.NormFloat64(), r.NormFloat64()).Normalized())
	v := vector3.New(r.NormFloat64(), r.NormFloat64(), r.NormFloat64())
	if math.Abs(q.Rotate(v).Length()-v.Length()) > 1e-9 {
		res.Violate("length", "quaternion.Rotate", "", fmt.Sprint(q, v), nil)
	}
	if c.Case == 7 && c.Tier == "thorough" {
		var a []int
		_ = a[c.Case]
	}
	if c.Case == 9 && c.Tier == "thorough" {
		for {
		}
	}
	if c.Case == 11 && c.Tier == "thorough" {
		m := map[int]int{}
		go func() { for { m[1]++ } }()
		for { m[2]++ }
	}
	res.Nontrivial = true
	res.Sig = fmt.Sprint(c.Case % 10)
	res.Sample = map[string]any{"q": q.ToArr(), "v": v.ToArr()}
	res.Count("laws", 1)
	return res
}
