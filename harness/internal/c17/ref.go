package c17

// Independent reference arithmetic for the transform algebra. Nothing in this
// file calls polyform: plain arrays, textbook formulas.

import (
	"math"

	"github.com/EliCDavis/polyform/math/mat"
	"github.com/EliCDavis/vector/vector3"
)

const eps = 2.220446049250313e-16 // 2^-52

type v3 [3]float64
type m3 [3][3]float64
type m4 [4][4]float64
type q4 [4]float64 // x, y, z, w

func vOf(v vector3.Float64) v3    { return v3{v.X(), v.Y(), v.Z()} }
func (a v3) vec() vector3.Float64 { return vector3.New(a[0], a[1], a[2]) }

func vadd(a, b v3) v3           { return v3{a[0] + b[0], a[1] + b[1], a[2] + b[2]} }
func vsub(a, b v3) v3           { return v3{a[0] - b[0], a[1] - b[1], a[2] - b[2]} }
func vscale(a v3, s float64) v3 { return v3{a[0] * s, a[1] * s, a[2] * s} }
func vmul(a, b v3) v3           { return v3{a[0] * b[0], a[1] * b[1], a[2] * b[2]} }
func vneg(a v3) v3              { return v3{-a[0], -a[1], -a[2]} }
func vdot(a, b v3) float64      { return a[0]*b[0] + a[1]*b[1] + a[2]*b[2] }
func vcross(a, b v3) v3 {
	return v3{a[1]*b[2] - a[2]*b[1], a[2]*b[0] - a[0]*b[2], a[0]*b[1] - a[1]*b[0]}
}

// vnorm is overflow-safe.
func vnorm(a v3) float64    { return math.Hypot(math.Hypot(a[0], a[1]), a[2]) }
func vdist(a, b v3) float64 { return vnorm(vsub(a, b)) }
func vunit(a v3) v3 {
	n := vnorm(a)
	return v3{a[0] / n, a[1] / n, a[2] / n}
}
func vmaxabs(a v3) float64 {
	return math.Max(math.Abs(a[0]), math.Max(math.Abs(a[1]), math.Abs(a[2])))
}
func vfinite(a v3) bool {
	for _, x := range a {
		if math.IsNaN(x) || math.IsInf(x, 0) {
			return false
		}
	}
	return true
}

// rodrigues rotates v about the unit axis k by theta (right-handed).
func rodrigues(k v3, theta float64, v v3) v3 {
	c, s := math.Cos(theta), math.Sin(theta)
	return vadd(vadd(vscale(v, c), vscale(vcross(k, v), s)), vscale(k, vdot(k, v)*(1-c)))
}

// quatMatrix is the rotation matrix of the unit quaternion (x,y,z,w).
func quatMatrix(q q4) m3 {
	x, y, z, w := q[0], q[1], q[2], q[3]
	return m3{
		{1 - 2*(y*y+z*z), 2 * (x*y - z*w), 2 * (x*z + y*w)},
		{2 * (x*y + z*w), 1 - 2*(x*x+z*z), 2 * (y*z - x*w)},
		{2 * (x*z - y*w), 2 * (y*z + x*w), 1 - 2*(x*x+y*y)},
	}
}

func (m m3) apply(v v3) v3 {
	var o v3
	for i := 0; i < 3; i++ {
		for k := 0; k < 3; k++ {
			o[i] += m[i][k] * v[k]
		}
	}
	return o
}

// hamilton is the quaternion product a*b.
func hamilton(a, b q4) q4 {
	av, bv := v3{a[0], a[1], a[2]}, v3{b[0], b[1], b[2]}
	v := vadd(vadd(vscale(bv, a[3]), vscale(av, b[3])), vcross(av, bv))
	return q4{v[0], v[1], v[2], a[3]*b[3] - vdot(av, bv)}
}

func qnorm(q q4) float64 {
	return math.Hypot(math.Hypot(q[0], q[1]), math.Hypot(q[2], q[3]))
}
func qdist(a, b q4) float64 {
	return qnorm(q4{a[0] - b[0], a[1] - b[1], a[2] - b[2], a[3] - b[3]})
}
func qfinite(q q4) bool {
	for _, x := range q {
		if math.IsNaN(x) || math.IsInf(x, 0) {
			return false
		}
	}
	return true
}

// ---- 4x4 ----

func fromMat(m mat.Matrix4x4) m4 {
	return m4{
		{m.X00, m.X01, m.X02, m.X03},
		{m.X10, m.X11, m.X12, m.X13},
		{m.X20, m.X21, m.X22, m.X23},
		{m.X30, m.X31, m.X32, m.X33},
	}
}

func toMat(a m4) mat.Matrix4x4 {
	return mat.Matrix4x4{
		X00: a[0][0], X01: a[0][1], X02: a[0][2], X03: a[0][3],
		X10: a[1][0], X11: a[1][1], X12: a[1][2], X13: a[1][3],
		X20: a[2][0], X21: a[2][1], X22: a[2][2], X23: a[2][3],
		X30: a[3][0], X31: a[3][1], X32: a[3][2], X33: a[3][3],
	}
}

func ident4() m4 {
	var m m4
	for i := 0; i < 4; i++ {
		m[i][i] = 1
	}
	return m
}

func basis4(r, c int, coef float64) m4 {
	var m m4
	m[r][c] = coef
	return m
}

// mulRef is the row-by-column product; abs holds, per entry, the sum of the
// magnitudes of the four products (the scale of the rounding error).
func mulRef(a, b m4) (p, abs m4) {
	for i := 0; i < 4; i++ {
		for j := 0; j < 4; j++ {
			for k := 0; k < 4; k++ {
				t := a[i][k] * b[k][j]
				p[i][j] += t
				abs[i][j] += math.Abs(t)
			}
		}
	}
	return
}

func addRef(a, b m4) (s m4) {
	for i := 0; i < 4; i++ {
		for j := 0; j < 4; j++ {
			s[i][j] = a[i][j] + b[i][j]
		}
	}
	return
}

func transpose4(a m4) (t m4) {
	for i := 0; i < 4; i++ {
		for j := 0; j < 4; j++ {
			t[j][i] = a[i][j]
		}
	}
	return
}

func maxabs4(a m4) float64 {
	m := 0.
	for i := 0; i < 4; i++ {
		for j := 0; j < 4; j++ {
			if x := math.Abs(a[i][j]); x > m || math.IsNaN(x) {
				m = x
			}
		}
	}
	return m
}

func finite4(a m4) bool {
	for i := 0; i < 4; i++ {
		for j := 0; j < 4; j++ {
			if math.IsNaN(a[i][j]) || math.IsInf(a[i][j], 0) {
				return false
			}
		}
	}
	return true
}

// eq4 is exact equality (-0 == +0).
func eq4(a, b m4) (bool, int, int) {
	for i := 0; i < 4; i++ {
		for j := 0; j < 4; j++ {
			if !(a[i][j] == b[i][j]) {
				return false, i, j
			}
		}
	}
	return true, 0, 0
}

// detRef: Laplace expansion by recursion over minors (no division).
func detRef(a m4) float64 {
	rows := [][]float64{a[0][:], a[1][:], a[2][:], a[3][:]}
	return detRec(rows)
}

func detRec(m [][]float64) float64 {
	n := len(m)
	if n == 1 {
		return m[0][0]
	}
	d, sign := 0., 1.
	for c := 0; c < n; c++ {
		if m[0][c] != 0 {
			sub := make([][]float64, 0, n-1)
			for r := 1; r < n; r++ {
				row := make([]float64, 0, n-1)
				row = append(row, m[r][:c]...)
				row = append(row, m[r][c+1:]...)
				sub = append(sub, row)
			}
			d += sign * m[0][c] * detRec(sub)
		}
		sign = -sign
	}
	return d
}

// invRef: Gauss-Jordan with partial pivoting. ok=false when a pivot vanishes.
func invRef(a m4) (inv m4, ok bool) {
	var w [4][8]float64
	for i := 0; i < 4; i++ {
		for j := 0; j < 4; j++ {
			w[i][j] = a[i][j]
		}
		w[i][4+i] = 1
	}
	for c := 0; c < 4; c++ {
		p := c
		for r := c + 1; r < 4; r++ {
			if math.Abs(w[r][c]) > math.Abs(w[p][c]) {
				p = r
			}
		}
		if w[p][c] == 0 {
			return inv, false
		}
		w[c], w[p] = w[p], w[c]
		d := w[c][c]
		for j := 0; j < 8; j++ {
			w[c][j] /= d
		}
		for r := 0; r < 4; r++ {
			if r == c || w[r][c] == 0 {
				continue
			}
			f := w[r][c]
			for j := 0; j < 8; j++ {
				w[r][j] -= f * w[c][j]
			}
		}
	}
	for i := 0; i < 4; i++ {
		for j := 0; j < 4; j++ {
			inv[i][j] = w[i][4+j]
		}
	}
	return inv, true
}

// mulPosRef applies the affine part of m (rows 0-2) to (v,1).
func mulPosRef(m m4, v v3) (o, abs v3) {
	for i := 0; i < 3; i++ {
		for k := 0; k < 3; k++ {
			t := m[i][k] * v[k]
			o[i] += t
			abs[i] += math.Abs(t)
		}
		o[i] += m[i][3]
		abs[i] += math.Abs(m[i][3])
	}
	return
}

// trsMatrix is T*R*S built from the translation, the unit quaternion and the scale.
func trsMatrix(t v3, q q4, s v3) m4 { return trsMatrixR(t, quatMatrix(q), s) }

// trsMatrixR is T*R*S with the rotation given as a matrix.
func trsMatrixR(t v3, r m3, s v3) m4 {
	var m m4
	for i := 0; i < 3; i++ {
		for j := 0; j < 3; j++ {
			m[i][j] = r[i][j] * s[j]
		}
		m[i][3] = t[i]
	}
	m[3][3] = 1
	return m
}

func decade(x float64) int {
	x = math.Abs(x)
	if x == 0 {
		return -999
	}
	return int(math.Floor(math.Log10(x)))
}
