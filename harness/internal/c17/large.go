package c17

// The "large" phase: every array- and mesh-level entry point on inputs of
// thousands to ~10^5 elements, with sizes chosen around powers of two and batch
// boundaries (an implementation that fans work out in fixed-size batches must
// still transform every element). Every index is checked, not a sample.

import (
	"fmt"
	"math"

	"github.com/EliCDavis/polyform/math/geometry"
	"github.com/EliCDavis/polyform/modeling"
	"github.com/EliCDavis/polyform/modeling/meshops"
	"github.com/EliCDavis/vector/vector3"
	"polyverif/internal/run"
)

var largeSizes = []int{4095, 4096, 4097, 8191, 8192, 8193, 10000, 12289, 16385, 32769, 65537}

// elementwise compares an output array with the point-level results (exactly or
// within ulps) and with the independent reference (tol[i]); it reports the first
// bad index and how many there are.
func elementwise(res *run.Result, site string, n int, got, point, want []v3, mags []float64, exact bool) {
	inClass := fmt.Sprintf("n=%d", n)
	if len(got) != n {
		res.Violate("array-length-changed", site, "large array", fmt.Sprintf("%d elements in, %d out", n, len(got)), map[string]any{"n": n, "out": len(got)})
		return
	}
	bad, first := 0, -1
	kind := ""
	res.Count("large_elements_checked", int64(n))
	for i := 0; i < n; i++ {
		okPoint := got[i] == point[i]
		if !exact && !okPoint {
			okPoint = vdist(got[i], point[i]) <= 16*eps*mags[i]+1e-300
		}
		okRef := vdist(got[i], want[i]) <= 1e-9*mags[i]+1e-300
		if !okPoint || !okRef {
			bad++
			if first < 0 {
				first = i
				if !okRef {
					kind = "reference transform"
				} else {
					kind = "point-level transform"
				}
			}
		}
	}
	if bad > 0 {
		res.Violate("array-element-not-transformed", site, "large array",
			fmt.Sprintf("%s: %d of %d elements differ from the transform applied to the point; first at index %d (index mod 4096 = %d, %d elements from the end): observed %s, point-level %s, reference %s (vs %s)",
				inClass, bad, n, first, first%4096, n-first, f3(got[first]), f3(point[first]), f3(want[first]), kind),
			map[string]any{"n": n, "bad_elements": bad, "first_bad_index": first, "observed": got[first], "point_level": point[first], "reference": want[first]})
	}
}

func toV3(in []vector3.Float64) []v3 {
	o := make([]v3, len(in))
	for i, v := range in {
		o[i] = vOf(v)
	}
	return o
}

func largeCase(c *run.Ctx) run.Result {
	var res run.Result
	r := c.Rng
	n := 0
	if c.Case%12 < len(largeSizes) {
		n = largeSizes[c.Case%12]
	} else {
		n = 9000 + r.Intn(111001)
	}
	if c.Case >= 12 && r.Intn(3) == 0 { // thorough: neighbours of multiples of 4096 / 1024 as well
		n = (2+r.Intn(28))*[]int{4096, 1024, 1000}[r.Intn(3)] + r.Intn(3) - 1
	}
	res.Sig = fmt.Sprintf("large/n%d", n)
	res.SetAdd("large_sizes", fmt.Sprint(n))
	res.SetAdd("large_size_mod_4096", fmt.Sprint(n%4096))
	c.Note(fmt.Sprintf("large n=%d", n))

	scale := pow10(r.Intn(7) - 3)
	off, _ := genVec(r, -2, 3)
	if r.Intn(2) == 0 {
		off = v3{}
	}
	P := make([]v3, n)
	in := make([]vector3.Float64, n)
	for i := range P {
		P[i] = vadd(off, v3{r.NormFloat64() * scale, r.NormFloat64() * scale, r.NormFloat64() * scale})
		in[i] = P[i].vec()
	}
	inputIntact := func(site string) {
		for i := range in {
			if vOf(in[i]) != P[i] {
				res.Violate("input-modified", site, "large array", fmt.Sprintf("n=%d: input element %d was changed", n, i), nil)
				return
			}
		}
	}
	g := genQuat(r)
	for rotAngle(qOf(g.q)) < 0.1 {
		g = genQuat(r)
	}
	T := genTRS(r)
	for rotAngle(T.q) < 0.1 || T.t == (v3{}) {
		T = genTRS(r)
	}
	tv, _ := genVec(r, -2, 3)
	sv := v3{0.5 + 2*r.Float64(), -(0.5 + 2*r.Float64()), 0.25 + r.Float64()}
	so, _ := genVec(r, -2, 2)

	// references and point-level results
	rot := g.rotation()
	wantRot, wantTRS, wantTr, wantSc, wantScO := make([]v3, n), make([]v3, n), make([]v3, n), make([]v3, n), make([]v3, n)
	magRot, magTRS, magTr, magSc, magScO := make([]float64, n), make([]float64, n), make([]float64, n), make([]float64, n), make([]float64, n)
	ptRot, ptTRS := make([]v3, n), make([]v3, n)
	if !guard(&res, "Quaternion.Rotate/TRS.Transform", func() {
		for i, p := range P {
			wantRot[i], magRot[i] = rot.apply(p), vnorm(p)
			wantTRS[i], magTRS[i] = T.refTransform(p)
			wantTr[i], magTr[i] = vadd(p, tv), vnorm(p)+vnorm(tv)
			wantSc[i], magSc[i] = vmul(p, sv), vnorm(vmul(p, sv))
			wantScO[i] = vadd(so, vmul(vsub(p, so), sv))
			magScO[i] = vnorm(so) + vnorm(vmul(vsub(p, so), sv)) + vnorm(p)*vmaxabs(sv)
			ptRot[i] = vOf(g.q.Rotate(in[i]))
			ptTRS[i] = vOf(T.T.Transform(in[i]))
		}
	}) {
		return res
	}

	// 1. array-level entry points
	var out []vector3.Float64
	if guard(&res, "Quaternion.RotateArray", func() { out = g.q.RotateArray(in) }) {
		elementwise(&res, "Quaternion.RotateArray", n, toV3(out), ptRot, wantRot, magRot, true)
		inputIntact("Quaternion.RotateArray")
	}
	if guard(&res, "TRS.TransformArray", func() { out = T.T.TransformArray(in) }) {
		elementwise(&res, "TRS.TransformArray", n, toV3(out), ptTRS, wantTRS, magTRS, true)
		inputIntact("TRS.TransformArray")
	}
	inPlace := append([]vector3.Float64{}, in...)
	if guard(&res, "TRS.TransformInPlace", func() { T.T.TransformInPlace(inPlace) }) {
		elementwise(&res, "TRS.TransformInPlace", n, toV3(inPlace), ptTRS, wantTRS, magTRS, true)
	}
	res.SetAdd("large_entry_points", "Quaternion.RotateArray")
	res.SetAdd("large_entry_points", "TRS.TransformArray")
	res.SetAdd("large_entry_points", "TRS.TransformInPlace")

	// 2. mesh-level entry points: a point cloud and a triangle mesh over the same positions
	idxPts := make([]int, n)
	for i := range idxPts {
		idxPts[i] = i
	}
	idxTri := make([]int, (n/3)*3)
	for i := range idxTri {
		idxTri[i] = r.Intn(n)
	}
	var meshes []modeling.Mesh
	if !guard(&res, "modeling.NewMesh", func() {
		meshes = []modeling.Mesh{
			modeling.NewMesh(modeling.PointTopology, idxPts).SetFloat3Attribute(modeling.PositionAttribute, append([]vector3.Float64{}, in...)),
			modeling.NewMesh(modeling.TriangleTopology, idxTri).SetFloat3Attribute(modeling.PositionAttribute, append([]vector3.Float64{}, in...)),
		}
	}) {
		return res
	}
	m := meshes[c.Case%2]
	type op struct {
		site        string
		f           func() modeling.Mesh
		point, want []v3
		mags        []float64
	}
	ops := []op{
		{"Mesh.Rotate", func() modeling.Mesh { return m.Rotate(g.q) }, ptRot, wantRot, magRot},
		{"Mesh.Translate", func() modeling.Mesh { return m.Translate(tv.vec()) }, wantTr, wantTr, magTr},
		{"Mesh.Scale", func() modeling.Mesh { return m.Scale(sv.vec()) }, wantSc, wantSc, magSc},
		{"Mesh.ApplyTRS", func() modeling.Mesh { return m.ApplyTRS(T.T) }, ptTRS, wantTRS, magTRS},
		{"meshops.RotateAttribute3D", func() modeling.Mesh { return m.Transform(meshops.RotateAttribute3DTransformer{Amount: g.q}) }, ptRot, wantRot, magRot},
		{"meshops.TranslateAttribute3D", func() modeling.Mesh { return m.Transform(meshops.TranslateAttribute3DTransformer{Amount: tv.vec()}) }, wantTr, wantTr, magTr},
		{"meshops.ScaleAttribute3D", func() modeling.Mesh {
			return m.Transform(meshops.ScaleAttribute3DTransformer{Origin: so.vec(), Amount: sv.vec()})
		}, wantScO, wantScO, magScO},
	}
	for _, o := range ops {
		var next modeling.Mesh
		if !guard(&res, o.site, func() { next = o.f() }) {
			continue
		}
		res.SetAdd("large_entry_points", o.site)
		if !next.HasFloat3Attribute(modeling.PositionAttribute) {
			res.Violate("positions-lost", o.site, "large mesh", "the result has no position attribute", nil)
			continue
		}
		elementwise(&res, o.site, n, positions(next), o.point, o.want, o.mags, false)
		// the operand keeps its positions
		if got := positions(m); len(got) != n || got[0] != P[0] || got[n-1] != P[n-1] || got[n/2] != P[n/2] {
			res.Violate("input-modified", o.site, "large mesh", "the operand mesh's positions changed", nil)
		}
	}

	// 3. boxes over many points
	M := 0.
	lo, hi := P[0], P[0]
	for _, p := range P {
		M = math.Max(M, vmaxabs(p))
		for k := 0; k < 3; k++ {
			lo[k], hi[k] = math.Min(lo[k], p[k]), math.Max(hi[k], p[k])
		}
	}
	one := 8*eps*M + 1e-300
	checkBox := func(site string, b geometry.AABB, slack float64) {
		bv := view(b)
		bad, first, worst := 0, -1, 0.
		for i, p := range P {
			if o := bv.outside(p); !(o <= slack) {
				bad++
				worst = math.Max(worst, o)
				if first < 0 {
					first = i
				}
			}
		}
		res.Count("large_box_points_checked", int64(n))
		if bad > 0 {
			res.Violate("does-not-contain", site, "large point set",
				fmt.Sprintf("n=%d: %d points lie outside the box %s (slack %.3g), first index %d = %s, worst by %.3g", n, bad, bv, slack, first, f3(P[first]), worst),
				map[string]any{"n": n, "outside": bad, "first_index": first, "point": P[first], "box": bv.String()})
		}
		if !(bv.size[0] >= 0 && bv.size[1] >= 0 && bv.size[2] >= 0) || !vfinite(bv.min) || !vfinite(bv.max) {
			res.Violate("negative-extent", site, "large point set", fmt.Sprintf("n=%d: %s size %s", n, bv, f3(bv.size)), nil)
		}
	}
	var b1, b2, b3 geometry.AABB
	if guard(&res, "geometry.NewAABBFromPoints", func() { b1 = geometry.NewAABBFromPoints(in...) }) {
		checkBox("geometry.NewAABBFromPoints", b1, one)
		res.SetAdd("large_entry_points", "geometry.NewAABBFromPoints")
	}
	if guard(&res, "Mesh.BoundingBox", func() { b2 = m.BoundingBox(modeling.PositionAttribute) }) {
		checkBox("Mesh.BoundingBox", b2, one)
		res.SetAdd("large_entry_points", "Mesh.BoundingBox")
	}
	// an encapsulation history as long as the array: per step the new point is inside and the box did not shrink
	grew := 0
	if guard(&res, "AABB.EncapsulatePoint", func() {
		b3 = geometry.NewAABB(in[0], vector3.Zero[float64]())
		prev := view(b3)
		for i := 1; i < n; i++ {
			b3.EncapsulatePoint(in[i])
			cur := view(b3)
			if o := cur.outside(P[i]); !(o <= one) {
				res.Violate("does-not-contain", "AABB.EncapsulatePoint", "large history", fmt.Sprintf("n=%d: after step %d the point %s lies %.3g outside %s", n, i, f3(P[i]), o, cur), nil)
				return
			}
			if o := math.Max(cur.outside(prev.min), cur.outside(prev.max)); !(o <= one) {
				res.Violate("box-shrank", "AABB.EncapsulatePoint", "large history", fmt.Sprintf("n=%d: step %d: box before %s, after %s", n, i, prev, cur), nil)
				return
			}
			if prev.outside(P[i]) > one {
				grew++
			}
			prev = cur
		}
	}) {
		checkBox("AABB.EncapsulatePoint", b3, one*float64(n))
		res.SetAdd("large_entry_points", "AABB.EncapsulatePoint")
		res.Count("aabb_grow_steps", int64(grew))
		res.Count("large_history_steps", int64(n-1))
	}

	res.Count("large_cases", 1)
	res.Nontrivial = true
	res.Sample = map[string]any{"n": n, "n_mod_4096": n % 4096, "scale_decade": decade(scale), "mesh_topology": m.Topology().String(), "entry_points": 13}
	return res
}
