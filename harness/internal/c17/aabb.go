package c17

import (
	"fmt"
	"math"
	"math/rand"
	"strings"

	"github.com/EliCDavis/polyform/math/geometry"
	"github.com/EliCDavis/vector/vector3"
	"polyverif/internal/run"
)

type boxView struct{ min, max, center, size v3 }

func view(b geometry.AABB) boxView {
	return boxView{vOf(b.Min()), vOf(b.Max()), vOf(b.Center()), vOf(b.Size())}
}

func (b boxView) maxabs() float64 { return math.Max(vmaxabs(b.min), vmaxabs(b.max)) }

// outside returns by how much p lies outside the box (0 when inside).
func (b boxView) outside(p v3) float64 {
	o := 0.
	for i := 0; i < 3; i++ {
		o = math.Max(o, math.Max(b.min[i]-p[i], p[i]-b.max[i]))
	}
	return o
}

// margin: distance of p to the nearest face plane (per axis), signed positive inside.
func (b boxView) margin(p v3) float64 {
	m := math.Inf(1)
	for i := 0; i < 3; i++ {
		m = math.Min(m, math.Min(math.Abs(p[i]-b.min[i]), math.Abs(b.max[i]-p[i])))
	}
	return m
}

func (b boxView) inside(p v3) bool { return b.outside(p) <= 0 }

func (b boxView) String() string { return fmt.Sprintf("[min %s max %s]", f3(b.min), f3(b.max)) }

func randIn(r *rand.Rand, lo, hi v3) v3 {
	return v3{lo[0] + r.Float64()*(hi[0]-lo[0]), lo[1] + r.Float64()*(hi[1]-lo[1]), lo[2] + r.Float64()*(hi[2]-lo[2])}
}

// genPointNear draws a point relative to a box: inside, on it, just outside, far outside.
func genPointNear(r *rand.Rand, b boxView, scale float64, off v3) (v3, string) {
	ext := vsub(b.max, b.min)
	switch r.Intn(9) {
	case 0, 1:
		return randIn(r, b.min, b.max), "inside"
	case 2: // a corner of the box, exactly as reported
		p := b.min
		for i := 0; i < 3; i++ {
			if r.Intn(2) == 0 {
				p[i] = b.max[i]
			}
		}
		return p, "corner"
	case 3: // on a face
		p := randIn(r, b.min, b.max)
		i := r.Intn(3)
		p[i] = []float64{b.min[i], b.max[i]}[r.Intn(2)]
		return p, "face"
	case 4: // outside along one axis
		p := randIn(r, b.min, b.max)
		i := r.Intn(3)
		d := (ext[i] + scale*1e-3) * math.Pow(10, float64(r.Intn(6)-4)) * (1 + r.Float64())
		if r.Intn(2) == 0 {
			p[i] = b.min[i] - d
		} else {
			p[i] = b.max[i] + d
		}
		return p, "outside-1"
	case 5: // outside along every axis
		p := b.max
		for i := 0; i < 3; i++ {
			d := (ext[i] + scale*1e-3) * (0.01 + r.Float64())
			if r.Intn(2) == 0 {
				p[i] = b.min[i] - d
			} else {
				p[i] = b.max[i] + d
			}
		}
		return p, "outside-3"
	case 6: // one ulp outside a face
		p := randIn(r, b.min, b.max)
		i := r.Intn(3)
		if r.Intn(2) == 0 {
			p[i] = math.Nextafter(b.min[i], math.Inf(-1))
		} else {
			p[i] = math.Nextafter(b.max[i], math.Inf(1))
		}
		return p, "ulp-outside"
	case 7: // far away
		return vadd(off, vscale(randUnit(r), scale*1e3*(1+r.Float64()))), "far"
	}
	return vadd(off, vscale(v3{r.NormFloat64(), r.NormFloat64(), r.NormFloat64()}, scale)), "around"
}

func aabbCase(c *run.Ctx) run.Result {
	var res run.Result
	r := c.Rng
	scale := pow10(r.Intn(10) - 3)
	var off v3
	offKind := "origin"
	if r.Intn(2) == 0 {
		off = vscale(randUnit(r), pow10(r.Intn(7))*(1+r.Float64()))
		offKind = fmt.Sprintf("off1e%d", decade(vmaxabs(off)))
	}
	zeroes := func(p v3) v3 { // now and then a coordinate that is exactly +0 or -0
		if r.Intn(6) == 0 {
			p[r.Intn(3)] = []float64{0, negZero}[r.Intn(2)]
		}
		return p
	}
	pt := func() v3 {
		return zeroes(vadd(off, vscale(v3{r.NormFloat64(), r.NormFloat64(), r.NormFloat64()}, scale)))
	}

	type item struct {
		min, max v3 // a point has min == max
		step     int
		what     string
	}
	var items []item
	var box geometry.AABB
	start := ""
	M := 0. // largest coordinate magnitude seen
	see := func(vs ...v3) {
		for _, v := range vs {
			M = math.Max(M, vmaxabs(v))
		}
	}
	var history []string

	ok := guard(&res, "AABB constructors", func() {
		switch r.Intn(5) {
		case 0:
			box, start = geometry.NewEmptyAABB(), "NewEmptyAABB"
			items = append(items, item{v3{}, v3{}, 0, "origin (empty box)"})
		case 1:
			k := 1 + r.Intn(6)
			pts := make([]vector3.Float64, k)
			for i := range pts {
				p := pt()
				if i > 0 && r.Intn(4) == 0 {
					p = vOf(pts[r.Intn(i)])
				}
				pts[i] = p.vec()
				items = append(items, item{p, p, 0, "point given to NewAABBFromPoints"})
				see(p)
			}
			box, start = geometry.NewAABBFromPoints(pts...), fmt.Sprintf("NewAABBFromPoints(%d)", k)
		case 2:
			a, b := pt(), pt()
			mn := v3{math.Min(a[0], b[0]), math.Min(a[1], b[1]), math.Min(a[2], b[2])}
			mx := v3{math.Max(a[0], b[0]), math.Max(a[1], b[1]), math.Max(a[2], b[2])}
			box = geometry.NewEmptyAABB()
			box.SetMinMax(mn.vec(), mx.vec())
			start = "SetMinMax"
			items = append(items, item{mn, mx, 0, "min/max given to SetMinMax"})
			see(mn, mx)
		default:
			ctr := pt()
			size := v3{r.Float64() * scale * 2, r.Float64() * scale * 2, r.Float64() * scale * 2}
			if r.Intn(6) == 0 {
				size[r.Intn(3)] = 0
			}
			box, start = geometry.NewAABB(ctr.vec(), size.vec()), "NewAABB"
			see(ctr, vadd(ctr, size))
		}
	})
	if !ok {
		return res
	}
	history = append(history, start)
	startSite := "geometry." + start
	if start == "SetMinMax" {
		startSite = "AABB.SetMinMax"
	} else if k := strings.Index(start, "("); k > 0 {
		startSite = "geometry." + start[:k]
	}
	cur := view(box)
	see(cur.min, cur.max)
	in := start + "/" + offKind
	witness := func() any { return map[string]any{"history": history, "box": cur.String()} }
	// a few ulps of the largest coordinate per step; the absolute floor absorbs underflow of (max-min)/2 near zero
	slack := func(steps int) float64 { return 8*eps*M*float64(steps) + 1e-300 }

	// what the start box was given must be inside it
	for _, it := range items {
		if o := math.Max(cur.outside(it.min), cur.outside(it.max)); !(o <= slack(1)) {
			res.Violate("does-not-contain", startSite, in, fmt.Sprintf("%s %s..%s lies %.3g outside the box %s (slack %.3g)", it.what, f3(it.min), f3(it.max), o, cur, slack(1)), witness())
		}
	}
	if !(cur.size[0] >= 0 && cur.size[1] >= 0 && cur.size[2] >= 0) {
		res.Violate("negative-extent", startSite, in, "size "+f3(cur.size), witness())
	}

	grew := 0
	steps := 1 + r.Intn(8)
	for s := 1; s <= steps; s++ {
		prev := cur
		var it item
		site := ""
		if r.Intn(3) > 0 {
			p, kind := genPointNear(r, cur, scale, off)
			if kind != "corner" && kind != "face" && kind != "ulp-outside" {
				p = zeroes(p)
			}
			see(p)
			it = item{p, p, s, "point (" + kind + ")"}
			site = "AABB.EncapsulatePoint"
			history = append(history, fmt.Sprintf("EncapsulatePoint%s [%s]", f3(p), kind))
			if !guard(&res, site, func() { box.EncapsulatePoint(p.vec()) }) {
				return res
			}
			res.SetAdd("aabb_point_kinds", kind)
		} else {
			ctr, kind := genPointNear(r, cur, scale, off)
			size := v3{r.Float64() * scale * 2, r.Float64() * scale * 2, r.Float64() * scale * 2}
			switch r.Intn(5) {
			case 0:
				size = vscale(vadd(vsub(cur.max, cur.min), v3{scale, scale, scale}), 3) // contains the current box
				kind += "/enclosing"
			case 1:
				size = v3{}
				kind += "/degenerate"
			}
			var other geometry.AABB
			if !guard(&res, "geometry.NewAABB", func() { other = geometry.NewAABB(ctr.vec(), size.vec()) }) {
				return res
			}
			ov := view(other)
			see(ov.min, ov.max)
			it = item{ov.min, ov.max, s, "box (" + kind + ")"}
			site = "AABB.EncapsulateBounds"
			history = append(history, fmt.Sprintf("EncapsulateBounds[min %s max %s] [%s]", f3(ov.min), f3(ov.max), kind))
			if !guard(&res, site, func() { box.EncapsulateBounds(other) }) {
				return res
			}
		}
		cur = view(box)
		see(cur.min, cur.max)
		items = append(items, it)
		res.Count("aabb_steps", 1)
		one := slack(1)
		// (a) contains what it was just given
		if o := math.Max(cur.outside(it.min), cur.outside(it.max)); !(o <= one) {
			res.Violate("does-not-contain", site, in, fmt.Sprintf("after step %d the %s %s..%s lies %.3g outside the box %s (slack %.3g); box before: %s", s, it.what, f3(it.min), f3(it.max), o, cur, one, prev), witness())
		}
		// the same through polyform's own Contains, on the box grown by the slack
		var grownHas, plainHas bool
		g := 2 * slack(2)
		if guard(&res, "AABB.Contains", func() {
			grown := geometry.NewAABB(box.Center(), box.Size().Add(vector3.New(g, g, g)))
			grownHas = grown.Contains(it.min.vec()) && grown.Contains(it.max.vec())
			plainHas = box.Contains(it.min.vec()) && box.Contains(it.max.vec())
		}) {
			res.Count("aabb_contains_calls", 1)
			if plainHas {
				res.Count("aabb_contains_true_without_slack", 1)
			}
			if !grownHas && cur.outside(it.min) <= one && cur.outside(it.max) <= one {
				res.Violate("contains-disagrees", "AABB.Contains", in, fmt.Sprintf("the box %s grown by %.3g reports not containing %s..%s", cur, g, f3(it.min), f3(it.max)), witness())
			}
		}
		// (b) never shrinks
		if o := math.Max(cur.outside(prev.min), cur.outside(prev.max)); !(o <= one) {
			res.Violate("box-shrank", site, in, fmt.Sprintf("step %d: box before %s, after %s: the old box sticks out by %.3g (slack %.3g)", s, prev, cur, o, one), witness())
		}
		// (c) everything given earlier is still inside
		for _, old := range items {
			if o := math.Max(cur.outside(old.min), cur.outside(old.max)); !(o <= slack(s-old.step+1)) {
				res.Violate("does-not-contain", site, in, fmt.Sprintf("after step %d the %s of step %d lies %.3g outside the box %s", s, old.what, old.step, o, cur), witness())
			}
		}
		// (d) well formed
		if !(cur.size[0] >= 0 && cur.size[1] >= 0 && cur.size[2] >= 0) || !vfinite(cur.min) || !vfinite(cur.max) {
			res.Violate("negative-extent", site, in, fmt.Sprintf("after step %d: %s size %s", s, cur, f3(cur.size)), witness())
		}
		if prev.outside(it.min) > one || prev.outside(it.max) > one {
			grew++
			res.Count("aabb_grow_steps", 1)
		}
	}

	// ClosestPoint and Contains on the final box
	for k := 0; k < 6; k++ {
		v, kind := genPointNear(r, cur, scale, off)
		see(v)
		one := slack(1)
		var cp v3
		var has bool
		if !guard(&res, "AABB.ClosestPoint", func() {
			cp = vOf(box.ClosestPoint(v.vec()))
			has = box.Contains(v.vec())
		}) {
			return res
		}
		res.Count("aabb_closest_point_queries", 1)
		if o := cur.outside(cp); !(o <= one) {
			res.Violate("closest-point-outside-box", "AABB.ClosestPoint", in+"/"+kind, fmt.Sprintf("ClosestPoint(%s) = %s lies %.3g outside %s", f3(v), f3(cp), o, cur), witness())
		}
		clamp := v3{}
		for i := 0; i < 3; i++ {
			clamp[i] = math.Min(math.Max(v[i], cur.min[i]), cur.max[i])
		}
		if e := vdist(cp, clamp); !(e <= one) {
			res.Violate("closest-point-not-clamp", "AABB.ClosestPoint", in+"/"+kind, fmt.Sprintf("ClosestPoint(%s) = %s, the clamp to %s is %s", f3(v), f3(cp), cur, f3(clamp)), witness())
		}
		if cur.inside(v) && cp != v {
			res.Violate("closest-point-not-clamp", "AABB.ClosestPoint", in+"/inside", fmt.Sprintf("%s is inside %s but ClosestPoint moved it to %s", f3(v), cur, f3(cp)), witness())
		}
		// no point of the box is closer
		dcp := vdist(v, cp)
		for j := 0; j < 5; j++ {
			x := randIn(r, cur.min, cur.max)
			if j == 0 {
				x = cur.min
			} else if j == 1 {
				x = cur.max
			}
			if dx := vdist(v, x); !(dcp <= dx+4*one) {
				res.Violate("closest-point-not-closest", "AABB.ClosestPoint", in+"/"+kind, fmt.Sprintf("ClosestPoint(%s) = %s at distance %.17g, but %s in the box is at %.17g", f3(v), f3(cp), dcp, f3(x), dx), witness())
			}
		}
		// Contains agrees with the reported min/max wherever the answer is not within the slack of a face
		if mrg := cur.margin(v); mrg > one {
			res.Count("aabb_contains_decided", 1)
			if has != cur.inside(v) {
				res.Violate("contains-disagrees", "AABB.Contains", in+"/"+kind, fmt.Sprintf("Contains(%s) = %v for the box %s", f3(v), has, cur), witness())
			}
		}
	}
	if guard(&res, "AABB.Contains", func() {
		if !box.Contains(box.Min()) || !box.Contains(box.Max()) || !box.Contains(box.Center()) {
			res.Violate("contains-disagrees", "AABB.Contains", in, fmt.Sprintf("the box %s does not contain its own Min(), Max() or Center()", cur), witness())
		}
	}) {
	}
	if e := vdist(cur.center, vscale(vadd(cur.min, cur.max), 0.5)); !(e <= slack(1)) {
		res.Violate("center-not-midpoint", "AABB.Center", in, fmt.Sprintf("Center %s, Min %s, Max %s", f3(cur.center), f3(cur.min), f3(cur.max)), witness())
	}

	res.Nontrivial = grew > 0
	res.Sig = fmt.Sprintf("%s/%s/s%d/n%d/g%d", start[:imin(len(start), 12)], offKind, decade(scale), steps, grew)
	res.SetAdd("aabb_starts", start[:imin(len(start), 12)])
	if c.Case < 6 {
		res.Sample = map[string]any{"history": history, "final_box": cur.String()}
	}
	return res
}

func imin(a, b int) int {
	if a < b {
		return a
	}
	return b
}
