package c17

import (
	"fmt"
	"math"
	"math/rand"

	"github.com/EliCDavis/polyform/math/trs"
	"github.com/EliCDavis/vector/vector3"
	"polyverif/internal/run"
)

// genScale draws a scale vector: uniform, non-uniform, mirrored, with a flat axis.
func genScale(r *rand.Rand) (v3, string) {
	special := []float64{0, negZero, 1, -1}
	switch r.Intn(11) {
	case 8: // all three exactly zero (signs of zero vary)
		return v3{special[r.Intn(2)], special[r.Intn(2)], special[r.Intn(2)]}, "all-zero"
	case 9, 10: // every component one of 0, -0, 1, -1
		s := v3{special[r.Intn(4)], special[r.Intn(4)], special[r.Intn(4)]}
		z := 0
		for _, x := range s {
			if x == 0 {
				z++
			}
		}
		return s, fmt.Sprintf("special-%dzero", z)
	case 0:
		return v3{1, 1, 1}, "one"
	case 1:
		s := pow10(r.Intn(7)-3) * (1 + r.Float64())
		return v3{s, s, s}, "uniform"
	case 2:
		s := v3{1 + r.Float64(), 1 + r.Float64(), 1 + r.Float64()}
		s[r.Intn(3)] *= -1
		return s, "mirror"
	case 3:
		s := v3{1 + r.Float64(), 1 + r.Float64(), 1 + r.Float64()}
		s[r.Intn(3)] = 0
		return s, "flat"
	case 4:
		return v3{pow10(r.Intn(7) - 3), pow10(r.Intn(7) - 3), pow10(r.Intn(7) - 3)}, "decades"
	}
	return v3{0.1 + 3*r.Float64(), 0.1 + 3*r.Float64(), 0.1 + 3*r.Float64()}, "nonuniform"
}

type gTRS struct {
	T         trs.TRS
	t, s      v3
	q         q4
	rot       m3 // reference rotation (Rodrigues about the normalised axis when built from axis and angle)
	qkind     string
	skind     string
	construct string
}

func genTRS(r *rand.Rand) gTRS {
	g := genQuat(r)
	s, sk := genScale(r)
	t, _ := genVec(r, -3, 4)
	switch r.Intn(12) {
	case 0:
		t = v3{}
	case 1: // signed zeros
		t = v3{[]float64{0, negZero}[r.Intn(2)], []float64{0, negZero}[r.Intn(2)], []float64{0, negZero}[r.Intn(2)]}
	case 2: // some components exactly zero
		t[r.Intn(3)] = []float64{0, negZero}[r.Intn(2)]
	}
	out := gTRS{t: t, s: s, q: qOf(g.q), rot: g.rotation(), qkind: g.kind, skind: sk}
	ident := m3{{1, 0, 0}, {0, 1, 0}, {0, 0, 1}}
	switch r.Intn(10) {
	case 0:
		out.T, out.construct = trs.Position(t.vec()), "Position"
		out.s, out.q, out.skind, out.qkind, out.rot = v3{1, 1, 1}, q4{0, 0, 0, 1}, "one", "identity", ident
	case 1:
		out.T, out.construct = trs.Scale(s.vec()), "Scale"
		out.t, out.q, out.qkind, out.rot = v3{}, q4{0, 0, 0, 1}, "identity", ident
	case 2:
		out.T, out.construct = trs.Rotation(g.q), "Rotation"
		out.t, out.s, out.skind = v3{}, v3{1, 1, 1}, "one"
	case 3: // built up by Translate
		half := vscale(t, 0.5)
		out.T, out.construct = trs.New(half.vec(), g.q, s.vec()).Translate(vsub(t, half).vec()), "New+Translate"
		out.t = vadd(half, vsub(t, half))
	default:
		out.T, out.construct = trs.New(t.vec(), g.q, s.vec()), "New"
	}
	return out
}

func (g gTRS) matrix() m4 { return trsMatrixR(g.t, g.rot, g.s) }

// refTransform applies T*R*S through the independent matrix; mag is the scale of the rounding error.
func (g gTRS) refTransform(v v3) (out v3, mag float64) {
	o, abs := mulPosRef(g.matrix(), v)
	return o, vmaxabs(abs)
}

func trsCase(c *run.Ctx) run.Result {
	var res run.Result
	r := c.Rng
	g := genTRS(r)
	n := 1 + r.Intn(5)
	pts := make([]v3, n)
	for i := range pts {
		pts[i], _ = genVec(r, -3, 4)
	}
	if r.Intn(10) == 0 {
		pts[0] = v3{}
	}
	if r.Intn(8) == 0 && vmaxabs(g.s) <= 10 { // vectors anywhere in the double range (products with the scale stay finite)
		pts[n-1] = vscale(randUnit(r), pow10(r.Intn(611)-320))
	}
	in := g.construct + "/" + g.qkind + "/" + g.skind
	wit := map[string]any{"position": g.t, "rotation_xyzw": g.q, "scale": g.s, "constructor": g.construct, "points": pts}

	var single, viaArr []v3
	inArr := make([]vector3.Float64, n)
	inPlace := make([]vector3.Float64, n)
	for i, p := range pts {
		inArr[i], inPlace[i] = p.vec(), p.vec()
	}
	var accP, accS v3
	var accQ q4
	var moved trs.TRS
	d, _ := genVec(r, -2, 3)
	var movedPts []v3
	var viaMat []v3
	if !guard(&res, "TRS", func() {
		for _, p := range pts {
			single = append(single, vOf(g.T.Transform(p.vec())))
		}
		for _, o := range g.T.TransformArray(inArr) {
			viaArr = append(viaArr, vOf(o))
		}
		g.T.TransformInPlace(inPlace)
		accP, accS, accQ = vOf(g.T.Position()), vOf(g.T.Scale()), qOf(g.T.Rotation())
		moved = g.T.Translate(d.vec())
		for _, p := range pts {
			movedPts = append(movedPts, vOf(moved.Transform(p.vec())))
		}
		// the same map through polyform's own matrix type: T * R * S
		mt, ms := ident4(), ident4()
		for i := 0; i < 3; i++ {
			mt[i][3] = g.t[i]
			ms[i][i] = g.s[i]
		}
		mr := trsMatrix(v3{}, g.q, v3{1, 1, 1})
		M := toMat(mt).Multiply(toMat(mr)).Multiply(toMat(ms))
		for _, p := range pts {
			viaMat = append(viaMat, vOf(M.MulPosition(p.vec())))
		}
	}) {
		return res
	}

	// accessors give back what the constructor was given, to the bit (signs of zero included)
	if accP != g.t || accS != g.s || accQ != g.q || !sameBits(accP[:], g.t[:]) || !sameBits(accS[:], g.s[:]) || !sameBits(accQ[:], g.q[:]) {
		res.Violate("accessor-mismatch", "TRS accessors ("+g.construct+")", in,
			fmt.Sprintf("constructed with position %s scale %s rotation %s; accessors return %s %s %s", f3(g.t), f3(g.s), f4(g.q), f3(accP), f3(accS), f4(accQ)), wit)
	}
	for i, p := range pts {
		want, mag := g.refTransform(p)
		tol := 1e-9*mag + 1e-300
		res.Count("trs_points", 1)
		if e := vdist(single[i], want); !(e <= tol) {
			// which order would explain it?
			rot := g.rot
			alt := map[string]v3{
				"S(R v)+T":    vadd(vmul(g.s, rot.apply(p)), g.t),
				"R(S(v+T))":   rot.apply(vmul(g.s, vadd(p, g.t))),
				"R(S v + T)":  rot.apply(vadd(vmul(g.s, p), g.t)),
				"R^-1(S v)+T": vadd(transpose3(rot).apply(vmul(g.s, p)), g.t),
			}
			hint := ""
			for k, a := range alt {
				if vdist(single[i], a) <= tol {
					hint = " — matches " + k
				}
			}
			res.Violate("trs-order", "TRS.Transform", in,
				fmt.Sprintf("Transform(%s): expected R(S*v)+T = %s, observed %s (off by %.3g, tolerance %.3g)%s; T=%s q=%s S=%s", f3(p), f3(want), f3(single[i]), e, tol, hint, f3(g.t), f4(g.q), f3(g.s)), wit)
		}
		if len(viaArr) != n || viaArr[i] != single[i] {
			res.Violate("array-vs-pointwise", "TRS.TransformArray", in, fmt.Sprintf("TransformArray element %d differs from Transform: %v vs %s", i, viaArr, f3(single[i])), wit)
		}
		if vOf(inPlace[i]) != single[i] {
			res.Violate("array-vs-pointwise", "TRS.TransformInPlace", in, fmt.Sprintf("element %d: %s vs Transform %s", i, f3(vOf(inPlace[i])), f3(single[i])), wit)
		}
		if vOf(inArr[i]) != p {
			res.Violate("input-modified", "TRS.TransformArray", in, "the input slice was changed", wit)
		}
		if e := vdist(movedPts[i], vadd(want, d)); !(e <= 1e-9*(mag+vmaxabs(d))+1e-300) {
			res.Violate("translate", "TRS.Translate", in, fmt.Sprintf("T.Translate(d).Transform(v) = %s, expected Transform(v)+d = %s", f3(movedPts[i]), f3(vadd(want, d))), wit)
		}
		if e := vdist(viaMat[i], single[i]); !(e <= tol) {
			res.Violate("trs-vs-matrix", "TRS.Transform vs Matrix4x4 T*R*S", in, fmt.Sprintf("v=%s: TRS gives %s, Matrix4x4 product gives %s", f3(p), f3(single[i]), f3(viaMat[i])), wit)
		}
	}
	if got := vOf(moved.Position()); got != vadd(g.t, d) || vOf(moved.Scale()) != g.s || qOf(moved.Rotation()) != g.q {
		res.Violate("translate", "TRS.Translate", in, fmt.Sprintf("Translate(%s) of position %s gives position %s scale %s rotation %s", f3(d), f3(g.t), f3(got), f3(vOf(moved.Scale())), f4(qOf(moved.Rotation()))), wit)
	}

	res.Nontrivial = rotAngle(g.q) > 1e-3 && !(g.s[0] == g.s[1] && g.s[1] == g.s[2]) && g.t != (v3{})
	res.Sig = fmt.Sprintf("%s/%s/%s/t%d/a%d", g.construct, g.qkind, g.skind, decade(vmaxabs(g.t)), int(rotAngle(g.q)*4/3.2))
	res.SetAdd("trs_constructors", g.construct)
	res.SetAdd("trs_scale_kinds", g.skind)
	if g.s == (v3{}) {
		res.Count("trs_scale_exactly_zero", 1)
	}
	if c.Case < 8 {
		res.Sample = map[string]any{"position": g.t, "rotation_xyzw": g.q, "scale": g.s, "v": pts[0], "transform_v": single[0]}
	}
	return res
}

func sameBits(a, b []float64) bool {
	for i := range a {
		if math.Float64bits(a[i]) != math.Float64bits(b[i]) {
			return false
		}
	}
	return true
}

func transpose3(m m3) (t m3) {
	for i := 0; i < 3; i++ {
		for j := 0; j < 3; j++ {
			t[j][i] = m[i][j]
		}
	}
	return
}
