package c14

import (
	"fmt"
	"io"
	"math/rand"
	"os"
	"path/filepath"
	"strings"

	"github.com/EliCDavis/polyform/formats/ply"
	"github.com/EliCDavis/polyform/formats/spz"
	"github.com/EliCDavis/polyform/formats/stl"
	"github.com/EliCDavis/polyform/modeling"
	"polyverif/internal/ref"
	"polyverif/internal/run"
)

// Path-based loaders (every Load function of the formats packages that takes a file
// path: ply.Load, ply.MeshReader.Load, stl.Load, spz.Load — splat and pts have none) in
// HISTORIES within one process: a loader may keep state between calls (pooled buffers);
// whatever was rejected before, a truncated file must be rejected again and a complete
// file must load to its complete decode. Cuts are SAMPLED from the cut set of the file.

// customPLY is a MeshReader configured by the caller (the second path-based PLY API).
var customPLY = ply.MeshReader{
	AttributeElement:          ply.VertexElementName,
	LoadUnspecifiedProperties: true,
	Properties: []ply.PropertyReader{
		&ply.Vector3PropertyReader{ModelAttribute: modeling.PositionAttribute, PlyPropertyX: "x", PlyPropertyY: "y", PlyPropertyZ: "z"},
		&ply.Vector3PropertyReader{ModelAttribute: modeling.NormalAttribute, PlyPropertyX: "nx", PlyPropertyY: "ny", PlyPropertyZ: "nz"},
		&ply.Vector4PropertyReader{ModelAttribute: modeling.ColorAttribute, IgnorableW: true, PlyPropertyX: "red", PlyPropertyY: "green", PlyPropertyZ: "blue", PlyPropertyW: "alpha"},
	},
}

type pathAPI struct {
	name string
	load func(path string) (*modeling.Mesh, error)
	read func(io.Reader) (*modeling.Mesh, error) // the reader-based twin: baseline of the complete file
}

var plyAPIs = []pathAPI{
	{"ply.Load", ply.Load, decPLY},
	{"ply.MeshReader.Load", customPLY.Load, customPLY.Read},
}
var stlAPI = pathAPI{"stl.Load", stl.Load, decSTL}
var spzAPI = pathAPI{"spz.Load", func(p string) (*modeling.Mesh, error) {
	c, err := spz.Load(p)
	if c == nil {
		return nil, err
	}
	m := c.Mesh
	return &m, err
}, decSPZ}

// pathKinds: the file kinds of buildFile that have a path-based loader.
var pathKinds = []int{0, 1, 2, 3, 4, 5, 6, 7, 8, 9, 10, 11, 12}

func pathFile(seed uint64, k int, tier string) *vfile {
	return buildFile(seed, pathKinds[k%len(pathKinds)]+kinds*(k/len(pathKinds)%8), tier0(tier))
}

// tier0: histories use the small files of both tiers (a history is cheap; size is the
// business of the large-files phase).
func tier0(string) string { return "quick" }

// sampleCut draws a cut of the file's cut set: mostly past half the file (where a stale
// prefix plus the new bytes reach the declared size), the tail, the header, anywhere.
func sampleCut(r *rand.Rand, cuts []int) int {
	n := len(cuts)
	switch r.Intn(10) {
	case 0, 1, 2, 3:
		return cuts[n/2+r.Intn(n-n/2)]
	case 4, 5:
		return cuts[n-1-r.Intn(imin(16, n))]
	case 6:
		return cuts[r.Intn(imin(40, n))]
	}
	return cuts[r.Intn(n)]
}

func imin(a, b int) int {
	if a < b {
		return a
	}
	return b
}

func runPathHistory(c *run.Ctx) (res run.Result) {
	r := c.Rng
	// two files of one loader family
	fam := c.Case % len(pathKinds)
	fa := pathFile(c.Seed, c.Case, c.Tier)
	other := fam
	if fa.Format != "stl" && fa.Format != "spz" { // any other PLY
		other = r.Intn(10)
	}
	fb := pathFile(c.Seed, other+len(pathKinds)*(1+r.Intn(7)), c.Tier)
	var apis []pathAPI
	switch fa.Format {
	case "stl":
		apis = []pathAPI{stlAPI}
	case "spz":
		apis = []pathAPI{spzAPI}
	default:
		apis = plyAPIs
	}
	dir := c.ScratchDir()
	files := []*vfile{fa, fb}
	cutsets := [][]int{fa.cuts(), fb.cuts()}
	// baselines: the reader-based twin of each API on each complete file
	base := map[string]*ref.Snapshot{}
	for fi, f := range files {
		for _, api := range apis {
			var m *modeling.Mesh
			var err error
			p := run.Try(func() { m, err = api.read(&cutReader{data: f.Data}) })
			if p != nil || err != nil || m == nil || m.PrimitiveCount() != f.WantPrims {
				res.Inconclusive = fmt.Sprintf("complete-file-not-decoded: the reader-based twin of %s does not decode the complete %s file (%v)", api.name, f.Kind, err)
				return
			}
			base[fmt.Sprintf("%d/%s", fi, api.name)] = ref.Snap(*m)
		}
	}
	steps := 3 + r.Intn(4)
	var sig []string
	rejectedBefore, goodAfterReject := false, false
	for step := 0; step < steps; step++ {
		which := r.Intn(2)
		if step < 2 && r.Intn(3) != 0 {
			which = 0 // the same file again
		}
		f := files[which]
		api := apis[r.Intn(len(apis))]
		truncated := step == 0 || (step < steps-1 && r.Intn(3) != 0)
		data, cut := f.Data, len(f.Data)
		if truncated {
			cut = sampleCut(r, cutsets[which])
			data = f.Data[:cut]
		}
		path := filepath.Join(dir, fmt.Sprintf("c14-history-%d-%d%s", c.Case, step, map[string]string{"stl": ".stl", "spz": ".spz"}[f.Format]))
		if err := os.WriteFile(path, data, 0o644); err != nil {
			res.Inconclusive = "scratch: cannot write " + path + ": " + err.Error()
			return
		}
		how := fmt.Sprintf(" loaded by path with %s as step %d of the history [%s …]", api.name, step+1, strings.Join(sig, " "))
		c.Note(fmt.Sprintf("step %d: %s of %s, %d of %d bytes", step+1, api.name, f.Kind, cut, len(f.Data)))
		s := &session{c: c, res: &res, f: f, fi: which, pre: "path/", site: api.name, fullSnap: base[fmt.Sprintf("%d/%s", which, api.name)]}
		var d decoded
		d.panic = run.Try(func() { d.mesh, d.err = api.load(path) })
		os.Remove(path)
		res.Count("path/loads/"+api.name, 1)
		res.SetAdd("path/apis", api.name)
		res.SetAdd("path/formats", f.Format)
		if f.STLHeader != "" {
			res.SetAdd("path/stl_header_kinds", f.STLHeader)
			res.Count("path/stl_loads/header-kind/"+f.STLHeader, 1)
		}
		if truncated {
			sig = append(sig, fmt.Sprintf("T%d", which))
			res.Count("path/truncated_loads/"+api.name, 1)
			if rejectedBefore {
				res.Count("path/truncated_loads_after_a_rejected_load/"+api.name, 1)
			}
			out := s.judge(cut, d, "outcome/"+api.name+"/", how)
			if out == "error" || out == "error-by-panic" {
				rejectedBefore = true
			}
			continue
		}
		sig = append(sig, fmt.Sprintf("C%d", which))
		res.Count("path/complete_loads/"+api.name, 1)
		if rejectedBefore {
			res.Count("path/complete_loads_after_a_rejected_load/"+api.name, 1)
			goodAfterReject = true
		}
		input := f.Kind + " complete file by path"
		detail := ""
		switch {
		case d.panic != nil:
			detail = fmt.Sprintf("panic: %s\n%s", d.panic.Value, d.panic.Stack)
		case d.err != nil || d.mesh == nil:
			detail = fmt.Sprintf("rejected: %v", d.err)
		default:
			if diff := s.fullSnap.Diff(ref.Snap(*d.mesh)); diff != "" {
				detail = fmt.Sprintf("loaded mesh differs from the decode of the same bytes through a reader (reader → path: %s); loaded %s; reader %s", diff, describe(ref.Snap(*d.mesh)), describe(s.fullSnap))
			}
		}
		if detail != "" {
			res.Count("path/violating_loads", 1)
			s.violate("complete-file-load-wrong", input, fmt.Sprintf("%s, complete file of %d bytes%s: %s", f.Kind, len(f.Data), how, detail), map[string]any{"history": sig})
		} else {
			res.Count("path/outcome/"+api.name+"/complete-file-loaded", 1)
		}
	}
	res.Count("path/histories", 1)
	res.Count("path/steps", int64(steps))
	res.Sig = fmt.Sprintf("%s|%s|%s", fa.Format, apis[0].name, strings.Join(sig, " "))
	res.Nontrivial = goodAfterReject
	if c.Case < 3 {
		res.Sample = map[string]any{"files": []string{fa.Kind, fb.Kind}, "history": strings.Join(sig, " "), "legend": "Tn = truncated load of file n (sampled cut), Cn = complete load of file n"}
	}
	return
}
