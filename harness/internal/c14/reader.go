package c14

import (
	"io"
	"sync/atomic"
)

// maxEOFReads is the number of reads answered with io.EOF after which a decode is
// aborted as non-terminating (a decoder that keeps polling a finished stream).
const maxEOFReads = 10000

// eofPoll is the sentinel the reader panics with; the case recovers it.
type eofPoll struct{ reads int }

// cutReader is the least capable io.Reader over a prefix (no ReadByte, no Seek, no
// WriteTo), so a decoder cannot learn the length up front. It counts how often it is
// asked again after it has reported end of input; the read counter is the logical clock
// of the stall detector.
type cutReader struct {
	data     []byte
	off      int
	eofReads int // reads answered with io.EOF (the first one is the legitimate notification)
	reads    atomic.Int64
	chunks   []int // when set: read k delivers at most chunks[k % len] bytes (short reads)
}

func (r *cutReader) Read(p []byte) (int, error) {
	k := r.reads.Add(1)
	if r.off >= len(r.data) {
		if len(p) == 0 {
			return 0, nil
		}
		r.eofReads++
		if r.eofReads > maxEOFReads {
			panic(eofPoll{r.eofReads})
		}
		return 0, io.EOF
	}
	if len(r.chunks) > 0 {
		if c := r.chunks[int(k-1)%len(r.chunks)]; c < len(p) {
			p = p[:c]
		}
	}
	n := copy(p, r.data[r.off:])
	r.off += n
	return n, nil
}
