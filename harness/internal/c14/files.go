package c14

import (
	"bytes"
	"compress/gzip"
	"encoding/binary"
	"fmt"
	"io"
	"math"
	"math/rand"
	"strconv"
	"strings"

	"github.com/EliCDavis/polyform/formats/ply"
	"github.com/EliCDavis/polyform/formats/pts"
	"github.com/EliCDavis/polyform/formats/splat"
	"github.com/EliCDavis/polyform/formats/spz"
	"github.com/EliCDavis/polyform/formats/stl"
	"github.com/EliCDavis/polyform/modeling"
	"github.com/EliCDavis/vector/vector2"
	"github.com/EliCDavis/vector/vector3"
	"github.com/EliCDavis/vector/vector4"
	"polyverif/internal/c15/splatref"
	"polyverif/internal/run"
)

// mark: the region `name` starts at byte offset off.
type mark struct {
	name string
	off  int
}

// ptsSingle describes a one-point PTS file: its single record starts at recStart and
// colEnd[k] is the offset just after column k (see the narrowed rule in oracle()).
type ptsSingle struct {
	recStart int
	colEnd   []int
}

// vfile is one valid model file together with what the monitor needs to enumerate its
// cut set and to judge the decodes of its prefixes.
type vfile struct {
	Format string // evidence bucket: ply-ascii ply-le ply-be stl spz pts splat
	Kind   string // generator
	Desc   string // structural descriptor (sizes bucketed) — part of the case signature
	Site   string // polyform entry point under observation
	Data   []byte
	// Bytes [0,TextEnd] are a textual header: every position is a cut. When ASCII is set
	// the body behind it is text and only positions that are not strictly inside a token
	// are cuts.
	TextEnd   int
	ASCII     bool
	Marks     []mark
	WantPrims int // PrimitiveCount the complete decode must report (sanity of the valid file)
	Records   int // vertices+faces / triangles / points / splats stored in the file
	PTS1      *ptsSingle
	Splat     bool
	STLHeader string // kind of the 80-byte comment of a binary STL file
	SPZDeg    int    // SH degree of an SPZ file, -1 otherwise
	SPZGz     string // "stored" (level 0 blocks) or "deflated"
	// sampling hints of the large-files phase
	BodyStart    int
	BlockOffsets []int // offsets at which record 1024·k / 2048·k / 4096·k … starts
	dec          func(io.Reader) (*modeling.Mesh, error)
}

func decPLY(r io.Reader) (*modeling.Mesh, error) { return ply.ReadMesh(r) }
func decSTL(r io.Reader) (*modeling.Mesh, error) { return stl.ReadMesh(r) }
func decPTS(r io.Reader) (*modeling.Mesh, error) { return pts.ReadPointCloud(r) }
func decSPZ(r io.Reader) (*modeling.Mesh, error) {
	c, err := spz.Read(r)
	if c == nil {
		return nil, err
	}
	m := c.Mesh
	return &m, err
}
func decSplat(r io.Reader) (*modeling.Mesh, error) {
	m, err := splat.Read(r)
	return &m, err
}

func isTok(b byte) bool { return b != ' ' && b != '\t' && b != '\r' && b != '\n' }

// cuts enumerates the cut set of the file in increasing order: every position
// 0…len−1 of binary data and of textual headers; in ASCII bodies every position that is
// not strictly inside a token (both sides of, and every position within, each whitespace run).
func (f *vfile) cuts() []int {
	out := make([]int, 0, len(f.Data))
	for p := 0; p < len(f.Data); p++ {
		if f.ASCII && p > f.TextEnd && isTok(f.Data[p-1]) && isTok(f.Data[p]) {
			continue
		}
		out = append(out, p)
	}
	return out
}

func (f *vfile) region(cut int) string {
	name := "start"
	for _, m := range f.Marks {
		if m.off <= cut {
			name = m.name
		}
	}
	return name
}

// ---------------------------------------------------------------------------------

const kinds = 16

// buildFile is a pure function of (seed, file index, tier): every chunk case of a file
// regenerates exactly the same bytes.
func buildFile(seed uint64, fi int, tier string) *vfile {
	f := buildFile0(seed, fi, tier)
	if f.Format != "spz" {
		f.SPZDeg = -1
	}
	return f
}

func buildFile0(seed uint64, fi int, tier string) *vfile {
	r := rand.New(rand.NewSource(int64(run.Mix(seed, 0xC14F11E5, uint64(fi)))))
	kind, v := fi%kinds, fi/kinds
	large := tier == "thorough" && v%8 == 7
	switch kind {
	case 0:
		return plyPolyform(r, ply.ASCII, "ply-ascii", "cloud", large)
	case 1:
		return plyPolyform(r, ply.ASCII, "ply-ascii", "mesh", large)
	case 2:
		return plyPolyform(r, ply.ASCII, "ply-ascii", "mesh-uv", large)
	case 3:
		return plyForeign(r, "ascii", v, large)
	case 4:
		return plyPolyform(r, ply.BinaryLittleEndian, "ply-le", "cloud", large)
	case 5:
		return plyPolyform(r, ply.BinaryLittleEndian, "ply-le", []string{"mesh", "mesh-uv"}[v%2], large)
	case 6:
		return plyForeign(r, "binary_little_endian", v, large)
	case 7:
		return plyPolyform(r, ply.BinaryBigEndian, "ply-be", "cloud", large)
	case 8:
		return plyPolyform(r, ply.BinaryBigEndian, "ply-be", []string{"mesh-uv", "mesh"}[v%2], large)
	case 9:
		return plyForeign(r, "binary_big_endian", v, large)
	case 10:
		return stlFile(r, v, large)
	case 11:
		return spzFile(r, 1, v, large)
	case 12:
		return spzFile(r, 2, v, large)
	case 13:
		return ptsFile(r, v, large)
	case 14:
		return splatFile(r, v, large)
	default:
		switch v % 4 {
		case 0:
			return plySplatExport(r, v/4, large)
		case 2:
			return plyForeign(r, "ascii", v/4+1, large)
		}
		return ptsFile(r, v/2+1, large)
	}
}

// nz draws a float32-representable value that is never zero (a zero-filled placeholder
// can then never coincide with real data).
func nz(r *rand.Rand) float64 {
	v := 0.125 + r.Float64()*15.875
	if r.Intn(2) == 0 {
		v = -v
	}
	return float64(float32(v))
}

func unitNZ(r *rand.Rand) float64 { return float64(float32(0.01 + 0.98*r.Float64())) }

func size(r *rand.Rand, large bool, lo, hi, llo, lhi int) int {
	if large {
		return llo + r.Intn(lhi-llo+1)
	}
	return lo + r.Intn(hi-lo+1)
}

func bucket(n int) string {
	switch {
	case n <= 4:
		return strconv.Itoa(n)
	case n <= 8:
		return "5-8"
	case n <= 16:
		return "9-16"
	case n <= 64:
		return "17-64"
	case n <= 256:
		return "65-256"
	}
	return ">256"
}

func v3s(r *rand.Rand, n int, f func(*rand.Rand) float64) []vector3.Float64 {
	out := make([]vector3.Float64, n)
	for i := range out {
		out[i] = vector3.New(f(r), f(r), f(r))
	}
	return out
}

func faceIndices(r *rand.Rand, nv, k int) []int {
	idx := make([]int, k)
	allZero := true
	for i := range idx {
		idx[i] = r.Intn(nv)
		if idx[i] != 0 {
			allZero = false
		}
	}
	if allZero {
		idx[k-1] = nv - 1
	}
	return idx
}

// plyPolyform: a PLY file produced by polyform's own writer.
func plyPolyform(r *rand.Rand, format ply.Format, bucketName, shape string, large bool) *vfile {
	nv := size(r, large, 3, 20, 200, 1200)
	if format == ply.ASCII && large {
		nv = 80 + r.Intn(120)
	}
	pos := v3s(r, nv, nz)
	var attrs []string
	var m modeling.Mesh
	nf := 0
	if shape == "cloud" {
		m = modeling.NewPointCloud(nil, map[string][]vector3.Float64{modeling.PositionAttribute: pos}, nil, nil, nil)
	} else {
		nf = size(r, large, 1, 12, nv/2, nv)
		idx := make([]int, 0, nf*3)
		for i := 0; i < nf; i++ {
			idx = append(idx, faceIndices(r, nv, 3)...)
		}
		m = modeling.NewTriangleMesh(idx).SetFloat3Attribute(modeling.PositionAttribute, pos)
	}
	if r.Intn(2) == 0 {
		m = m.SetFloat3Attribute(modeling.NormalAttribute, v3s(r, nv, nz))
		attrs = append(attrs, "N")
	}
	if r.Intn(2) == 0 {
		m = m.SetFloat3Attribute(modeling.ColorAttribute, v3s(r, nv, func(r *rand.Rand) float64 { return float64(1+r.Intn(255)) / 255 }))
		attrs = append(attrs, "C")
	}
	if r.Intn(2) == 0 {
		q := make([]float64, nv)
		for i := range q {
			q[i] = nz(r)
		}
		m = m.SetFloat1Attribute("quality", q)
		attrs = append(attrs, "q")
	}
	if r.Intn(4) == 0 {
		q := make([]vector4.Float64, nv)
		for i := range q {
			q[i] = vector4.New(nz(r), nz(r), nz(r), nz(r))
		}
		m = m.SetFloat4Attribute("tangent", q)
		attrs = append(attrs, "t4")
	}
	if shape == "mesh-uv" {
		uv := make([]vector2.Float64, nv)
		for i := range uv {
			uv[i] = vector2.New(unitNZ(r), unitNZ(r))
		}
		m = m.SetFloat2Attribute(modeling.TexCoordAttribute, uv)
	}
	buf := &bytes.Buffer{}
	if err := ply.Write(buf, m, format); err != nil {
		panic(fmt.Errorf("c14 generator: ply.Write failed: %w", err))
	}
	data := buf.Bytes()
	hl := bytes.Index(data, []byte("end_header\n")) + len("end_header\n")
	f := &vfile{Format: bucketName, Kind: bucketName + "/" + shape + "/polyform-writer", Site: "ply.ReadMesh " + bucketName,
		Data: data, TextEnd: hl, ASCII: format == ply.ASCII, dec: decPLY, Records: nv + nf}
	f.WantPrims = nv
	if shape != "cloud" {
		f.WantPrims = nf
	}
	vend := len(data)
	if format == ply.ASCII {
		vend = skipLines(data, hl, nv)
	} else if shape == "mesh" {
		vend = len(data) - nf*13
	} else if shape == "mesh-uv" {
		vend = len(data) - nf*38
	}
	f.Marks = []mark{{"header", 0}, {"vertex", hl}}
	if shape != "cloud" {
		f.Marks = append(f.Marks, mark{"face", vend})
	}
	f.Desc = fmt.Sprintf("v%s/f%s/[%s]", bucket(nv), bucket(nf), strings.Join(attrs, ","))
	return f
}

func skipLines(data []byte, from, n int) int {
	p := from
	for ; n > 0 && p < len(data); p++ {
		if data[p] == '\n' {
			n--
		}
	}
	return p
}

// plyForeign: a PLY file as other tools write them (independent writer).
func plyForeign(r *rand.Rand, enc string, v int, large bool) *vfile {
	s := &plySpec{enc: enc, nl: "\n"}
	bucketName := map[string]string{"ascii": "ply-ascii", "binary_little_endian": "ply-le", "binary_big_endian": "ply-be"}[enc]
	var tags []string
	if r.Intn(3) == 0 {
		s.nl = "\r\n"
		tags = append(tags, "crlf")
	}
	if r.Intn(2) == 0 {
		s.comments = append(s.comments, "comment VCGLIB generated", "obj_info made by the c14 generator")
		tags = append(tags, "comments")
	}
	nv := size(r, large, 3, 20, 200, 1200)
	if enc == "ascii" && large {
		nv = 80 + r.Intn(120)
	}
	posType := []string{"float", "double"}[r.Intn(2)]
	if enc == "ascii" && posType == "double" {
		posType = "float" // ASCII doubles are parsed at 32-bit precision: irrelevant here, keep the files simple
	}
	s.props = []plyProp{{"x", posType}, {"y", posType}, {"z", posType}}
	tags = append(tags, "pos:"+posType)
	if r.Intn(2) == 0 {
		s.props = append(s.props, plyProp{"nx", "float"}, plyProp{"ny", "float"}, plyProp{"nz", "float"})
		tags = append(tags, "N")
	}
	switch r.Intn(3) {
	case 0:
		s.props = append(s.props, plyProp{"red", "uchar"}, plyProp{"green", "uchar"}, plyProp{"blue", "uchar"})
		tags = append(tags, "rgb")
	case 1:
		s.props = append(s.props, plyProp{"red", "uchar"}, plyProp{"green", "uchar"}, plyProp{"blue", "uchar"}, plyProp{"alpha", "uchar"})
		tags = append(tags, "rgba")
	}
	switch r.Intn(4) {
	case 0:
		s.props = append(s.props, plyProp{"quality", "float"})
		tags = append(tags, "q:float")
	case 1:
		s.props = append(s.props, plyProp{"label", "int"})
		tags = append(tags, "label:int")
	case 2:
		s.props = append(s.props, plyProp{"flags", "uchar"})
		tags = append(tags, "flags:uchar")
	}
	for i := 0; i < nv; i++ {
		row := make([]float64, len(s.props))
		for j, p := range s.props {
			switch p.typ {
			case "uchar":
				row[j] = float64(1 + r.Intn(255))
			case "int":
				row[j] = float64(1 + r.Intn(1000))
			default:
				row[j] = nz(r)
			}
		}
		s.rows = append(s.rows, row)
	}
	s.faceMode = []string{"faces", "none", "faces", "zero"}[v%4]
	s.countType = []string{"uchar", "uchar", "uint", "int"}[r.Intn(4)]
	s.indexType = []string{"int", "uint"}[r.Intn(2)]
	s.indexName = []string{"vertex_indices", "vertex_index"}[r.Intn(2)]
	tris, quads := 0, 0
	if s.faceMode != "none" {
		tags = append(tags, "count:"+s.countType, "idx:"+s.indexType)
		if r.Intn(2) == 0 {
			s.uvType = []string{"float", "double"}[r.Intn(2)]
			tags = append(tags, "uv:"+s.uvType)
		}
	}
	if s.faceMode == "faces" {
		nf := size(r, large, 1, 12, nv/2, nv)
		allowQuads := r.Intn(2) == 0
		for i := 0; i < nf; i++ {
			k := 3
			if allowQuads && r.Intn(2) == 0 {
				k = 4
			}
			if k == 3 {
				tris++
			} else {
				quads++
			}
			f := plyFace{idx: faceIndices(r, nv, k)}
			if s.uvType != "" {
				for j := 0; j < 2*k; j++ {
					f.uv = append(f.uv, unitNZ(r))
				}
			}
			s.faces = append(s.faces, f)
		}
		if quads > 0 {
			tags = append(tags, "quads")
		}
	}
	if enc == "ascii" {
		s.sloppyWS = r.Intn(2) == 0
		if s.sloppyWS {
			tags = append(tags, "ws-runs")
		}
		if r.Intn(3) == 0 {
			s.tailBlank = 1 + r.Intn(2)
			tags = append(tags, "tail-blank")
		}
	}
	data, hl, vend := s.encode(r)
	f := &vfile{Format: bucketName, Kind: bucketName + "/face-" + s.faceMode + "/foreign-writer", Site: "ply.ReadMesh " + bucketName,
		Data: data, TextEnd: hl, ASCII: enc == "ascii", dec: decPLY, Records: nv + len(s.faces)}
	switch s.faceMode {
	case "none":
		f.WantPrims = nv
	case "zero":
		f.WantPrims = 0
	default:
		f.WantPrims = tris + 2*quads
	}
	f.Marks = []mark{{"header", 0}, {"vertex", hl}}
	if s.faceMode == "faces" {
		f.Marks = append(f.Marks, mark{"face", vend})
	}
	f.Desc = fmt.Sprintf("v%s/f%s/[%s]", bucket(nv), bucket(len(s.faces)), strings.Join(tags, ","))
	return f
}

// plySplatExport: the binary PLY written by polyform's gaussian-splat exporter.
func plySplatExport(r *rand.Rand, v int, large bool) *vfile {
	n := size(r, large, 1, 4, 40, 120)
	rest := []int{0, 9, 0, 24}[v%4]
	v1 := map[string][]float64{modeling.OpacityAttribute: make([]float64, n)}
	for i := 0; i < n; i++ {
		v1[modeling.OpacityAttribute][i] = nz(r)
	}
	for k := 0; k < rest; k++ {
		a := make([]float64, n)
		for i := range a {
			a[i] = nz(r)
		}
		v1[fmt.Sprintf("f_rest_%d", k)] = a
	}
	rot := make([]vector4.Float64, n)
	for i := range rot {
		rot[i] = vector4.New(nz(r), nz(r), nz(r), nz(r))
	}
	m := modeling.NewPointCloud(
		map[string][]vector4.Float64{modeling.RotationAttribute: rot},
		map[string][]vector3.Float64{modeling.PositionAttribute: v3s(r, n, nz), modeling.ScaleAttribute: v3s(r, n, nz), modeling.FDCAttribute: v3s(r, n, nz)},
		nil, v1, nil)
	buf := &bytes.Buffer{}
	if err := (ply.SplatPly{Mesh: m}).Write(buf); err != nil {
		panic(fmt.Errorf("c14 generator: SplatPly.Write failed: %w", err))
	}
	data := buf.Bytes()
	hl := bytes.Index(data, []byte("end_header\n")) + len("end_header\n")
	return &vfile{Format: "ply-le", Kind: "ply-le/splat-export/polyform-writer", Site: "ply.ReadMesh ply-le", Data: data, TextEnd: hl,
		dec: decPLY, Records: n, WantPrims: n, Marks: []mark{{"header", 0}, {"vertex", hl}},
		Desc: fmt.Sprintf("n%s/rest%d", bucket(n), rest)}
}

func stlFile(r *rand.Rand, v int, large bool) *vfile {
	n := size(r, large, 1, 12, 200, 800)
	if v%16 == 13 {
		n = 0
	}
	own := v%8 != 0 // polyform's writer always leaves the comment zeroed
	hk := stlHeaderKinds[v%8]
	var data []byte
	writer := "polyform-writer"
	if own {
		writer = "foreign-writer"
		b := &bytes.Buffer{}
		hdr := stlHeader(r, hk)
		b.Write(hdr)
		binary.Write(b, binary.LittleEndian, uint32(n))
		withNormals := r.Intn(2) == 0
		for i := 0; i < n; i++ {
			for k := 0; k < 12; k++ {
				val := float32(nz(r))
				if k < 3 && !withNormals {
					val = 0
				}
				binary.Write(b, binary.LittleEndian, val)
			}
			binary.Write(b, binary.LittleEndian, uint16(1+r.Intn(65535)))
		}
		data = b.Bytes()
	} else {
		idx := make([]int, n*3)
		for i := range idx {
			idx[i] = i
		}
		m := modeling.NewTriangleMesh(idx).SetFloat3Attribute(modeling.PositionAttribute, v3s(r, n*3, nz))
		if r.Intn(2) == 0 && n > 0 {
			m = m.SetFloat3Attribute(modeling.NormalAttribute, v3s(r, n*3, nz))
		}
		b := &bytes.Buffer{}
		if err := stl.WriteMesh(b, m); err != nil {
			panic(fmt.Errorf("c14 generator: stl.WriteMesh failed: %w", err))
		}
		data = b.Bytes()
	}
	return &vfile{Format: "stl", Kind: "stl/" + writer, Site: "stl.ReadMesh", Data: data, dec: decSTL, Records: n, WantPrims: n,
		Marks: []mark{{"header", 0}, {"count", 80}, {"triangles", 84}}, Desc: "t" + bucket(n) + "/" + hk, STLHeader: hk}
}

// stlHeaderKinds: what tools put into the 80-byte comment of a binary STL. A comment that
// starts with "solid" is legal and common (CAD exporters); it is what a text-STL sniffer
// trips over.
var stlHeaderKinds = []string{"zeros", "random-bytes", "solid-name", "blank-solid", "upper-SOLID", "binary-stl-text", "text-with-newline", "80-printable"}

func stlHeader(r *rand.Rand, kind string) []byte {
	hdr := make([]byte, 80)
	switch kind {
	case "random-bytes":
		for i := range hdr {
			hdr[i] = byte(1 + r.Intn(255))
		}
	case "solid-name":
		copy(hdr, "solid part_"+strconv.Itoa(r.Intn(1000)))
		if r.Intn(2) == 0 {
			for i := range hdr {
				if hdr[i] == 0 {
					hdr[i] = ' '
				}
			}
		}
	case "blank-solid":
		copy(hdr, "  solid x")
	case "upper-SOLID":
		copy(hdr, "SOLID EXPORTED BY CAD")
	case "binary-stl-text":
		copy(hdr, "binary stl by the c14 generator ")
	case "text-with-newline":
		copy(hdr, "solid made by a slicer\n")
	case "80-printable":
		for i := range hdr {
			hdr[i] = byte(33 + r.Intn(94))
		}
		if r.Intn(2) == 0 {
			copy(hdr, "solid")
		}
	}
	return hdr
}

func spzFile(r *rand.Rand, version uint32, v int, large bool) *vfile {
	deg := uint8(v % 4)
	n := size(r, large, 1, 12, 200, 900)
	s := splatref.RandomSPZ(r, version, n, deg, uint8(r.Intn(24)), uint8(r.Intn(2)), true)
	s.NonZero(r)
	levels := []int{gzip.DefaultCompression, gzip.NoCompression, gzip.BestSpeed, gzip.BestCompression, gzip.HuffmanOnly}
	lv := levels[(v/4)%len(levels)]
	data := s.Gzip(lv)
	return &vfile{Format: "spz", Kind: fmt.Sprintf("spz/v%d/reference-encoder", version), Site: "spz.Read", Data: data, dec: decSPZ,
		Records: n, WantPrims: n, Marks: []mark{{"gzip-header", 0}, {"deflate", 10}, {"gzip-trailer", len(data) - 8}},
		Desc: fmt.Sprintf("sh%d/n%s/gz%d", deg, bucket(n), lv), SPZDeg: int(deg), SPZGz: map[bool]string{true: "stored", false: "deflated"}[lv == gzip.NoCompression]}
}

func ptsFile(r *rand.Rand, v int, large bool) *vfile {
	cols := []int{3, 4, 7}[v%3]
	n := size(r, large, 2, 12, 200, 600)
	switch v % 8 {
	case 1, 2:
		n = 1
	case 5:
		n = 0
	}
	nl := "\n"
	var tags []string
	if r.Intn(3) == 0 {
		nl = "\r\n"
		tags = append(tags, "crlf")
	}
	sloppy := r.Intn(2) == 0
	if sloppy {
		tags = append(tags, "ws-runs")
	}
	finalNL := r.Intn(4) != 0
	if !finalNL {
		tags = append(tags, "no-final-newline")
	}
	b := &bytes.Buffer{}
	b.WriteString(strconv.Itoa(n))
	b.WriteString(nl)
	hl := b.Len()
	var single *ptsSingle
	if n == 1 {
		single = &ptsSingle{recStart: hl}
	}
	for i := 0; i < n; i++ {
		for c := 0; c < cols; c++ {
			if c > 0 {
				if sloppy && r.Intn(3) == 0 {
					b.WriteString([]string{"  ", "\t", " \t "}[r.Intn(3)])
				} else {
					b.WriteString(" ")
				}
			}
			if c < 3 {
				b.WriteString(strconv.FormatFloat(nz(r), 'f', -1, 64))
			} else {
				b.WriteString(strconv.Itoa(1 + r.Intn(255)))
			}
			if single != nil {
				single.colEnd = append(single.colEnd, b.Len())
			}
		}
		if i < n-1 || finalNL {
			if sloppy && r.Intn(4) == 0 {
				b.WriteString(" ")
			}
			b.WriteString(nl)
		}
	}
	if n == 0 && !finalNL {
		b.Truncate(len(strconv.Itoa(n))) // "0" without a line end
		hl = b.Len()
	}
	data := append([]byte(nil), b.Bytes()...)
	return &vfile{Format: "pts", Kind: fmt.Sprintf("pts/%dcol/foreign-writer", cols), Site: "pts.ReadPointCloud", Data: data, TextEnd: hl, ASCII: true,
		dec: decPTS, Records: n, WantPrims: n, PTS1: single, Marks: []mark{{"count-line", 0}, {"records", hl}},
		Desc: fmt.Sprintf("n%s/[%s]", bucket(n), strings.Join(tags, ","))}
}

func splatFile(r *rand.Rand, v int, large bool) *vfile {
	n := size(r, large, 1, 12, 200, 1000)
	ss := make([]splatref.Splat, n)
	for i := range ss {
		s := &ss[i]
		for c := 0; c < 3; c++ {
			s.Pos[c] = nz(r)
			s.Scale[c] = r.Float64()*6 - 5
			s.FDC[c] = r.Float64()*3 - 1.5
		}
		s.Opacity = r.Float64()*8 - 4 // alpha byte stays inside 1…254
		q := [4]float64{r.NormFloat64(), r.NormFloat64(), r.NormFloat64(), r.NormFloat64()}
		l := math.Sqrt(q[0]*q[0] + q[1]*q[1] + q[2]*q[2] + q[3]*q[3])
		for c := range q {
			s.Rot[c] = q[c] / l
		}
	}
	var data []byte
	writer := "reference-encoder"
	if v%2 == 1 {
		writer = "polyform-writer"
		pos, sc, fdc := make([]vector3.Float64, n), make([]vector3.Float64, n), make([]vector3.Float64, n)
		op := make([]float64, n)
		rot := make([]vector4.Float64, n)
		for i, s := range ss {
			pos[i] = vector3.New(s.Pos[0], s.Pos[1], s.Pos[2])
			sc[i] = vector3.New(s.Scale[0], s.Scale[1], s.Scale[2])
			fdc[i] = vector3.New(s.FDC[0], s.FDC[1], s.FDC[2])
			op[i] = s.Opacity
			rot[i] = vector4.New(s.Rot[0], s.Rot[1], s.Rot[2], s.Rot[3])
		}
		m := modeling.NewPointCloud(map[string][]vector4.Float64{modeling.RotationAttribute: rot},
			map[string][]vector3.Float64{modeling.PositionAttribute: pos, modeling.ScaleAttribute: sc, modeling.FDCAttribute: fdc},
			nil, map[string][]float64{modeling.OpacityAttribute: op}, nil)
		b := &bytes.Buffer{}
		if err := splat.Write(b, m); err != nil {
			panic(fmt.Errorf("c14 generator: splat.Write failed: %w", err))
		}
		data = b.Bytes()
	} else {
		data = splatref.EncodeSplats(ss)
	}
	return &vfile{Format: "splat", Kind: "splat/" + writer, Site: "splat.Read", Data: data, dec: decSplat, Records: n, WantPrims: n, Splat: true,
		Marks: []mark{{"records", 0}}, Desc: "n" + bucket(n)}
}
