package c14

import (
	"runtime"
	"strings"
	"time"

	"polyverif/internal/run"
)

// State-based stall detection for decodes that run in their own goroutine. The verdict
// "parked for good" is a statement about the state of the process, not about elapsed time:
// the decode has not returned, its input reader has not been asked for anything between
// two goroutine dumps, and in both dumps EVERY goroutine with a polyform frame sits in a
// channel / WaitGroup / mutex / condition wait that polyform itself entered (only runtime
// and sync frames above the first polyform frame). Nobody is left who could wake them: the
// input is an in-memory slice and the harness delivers nothing asynchronously. Timers only
// decide WHEN to look.

const (
	stallPoll    = 20 * time.Millisecond
	stallIdle    = 10 // polls without a read before the first dump
	stallRecheck = 400 * time.Millisecond
)

type parked struct {
	goroutines int
	frames     []string
	dump       string
}

func waitOrParked(done <-chan struct{}, clock func() int64) *parked {
	last, idle := clock(), 0
	for {
		select {
		case <-done:
			return nil
		case <-time.After(stallPoll):
		}
		if now := clock(); now != last {
			last, idle = now, 0
			continue
		}
		if idle++; idle < stallIdle {
			continue
		}
		d1 := allParked()
		if d1 == nil {
			idle = stallIdle / 2
			continue
		}
		select {
		case <-done:
			return nil
		case <-time.After(stallRecheck):
		}
		d2 := allParked()
		if d2 == nil || clock() != last || d2.goroutines != d1.goroutines {
			last, idle = clock(), 0
			continue
		}
		return d2
	}
}

var blockedStates = []string{"chan receive", "chan send", "semacquire", "sync.WaitGroup.Wait", "sync.Mutex.Lock", "sync.RWMutex", "sync.Cond.Wait", "select"}

// allParked: non-nil iff at least one goroutine has a polyform frame and every such
// goroutine is blocked in a wait that polyform entered itself.
func allParked() *parked {
	buf := make([]byte, 8<<20)
	n := runtime.Stack(buf, true)
	out := &parked{}
	seen := map[string]bool{}
	var sample []string
	for _, g := range strings.Split(string(buf[:n]), "\n\n") {
		if !strings.Contains(g, "github.com/EliCDavis/polyform/") {
			continue
		}
		lines := strings.Split(g, "\n")
		header := lines[0]
		blocked := false
		for _, st := range blockedStates {
			if strings.Contains(header, "["+st) {
				blocked = true
			}
		}
		if !blocked {
			return nil // running, runnable, in a syscall, sleeping …: may still make progress
		}
		// the first frame that is neither runtime nor sync must be polyform's
		first := ""
		for i := 1; i < len(lines); i += 2 {
			fn := strings.TrimSpace(lines[i])
			if strings.HasPrefix(fn, "runtime.") || strings.HasPrefix(fn, "sync.") || strings.HasPrefix(fn, "internal/") {
				continue
			}
			first = fn
			break
		}
		if !strings.HasPrefix(first, "github.com/EliCDavis/polyform/") {
			return nil // waits inside something the harness or the standard library feeds (a pipe, a file)
		}
		out.goroutines++
		first = run.PolyformFrame(g)
		if !seen[first] {
			seen[first] = true
			out.frames = append(out.frames, first)
		}
		if len(sample) < 3 {
			sample = append(sample, g)
		}
	}
	if out.goroutines == 0 {
		return nil
	}
	out.dump = strings.Join(sample, "\n\n")
	if len(out.dump) > 3500 {
		out.dump = out.dump[:3500]
	}
	return out
}
