// Package c14 monitors property C14: a strict prefix of a valid PLY (ASCII / little / big
// endian), binary STL, SPZ, PTS or .splat file is rejected with an error, or decodes to
// data wholly present in the prefix; the call terminates and never fabricates geometry.
//
// Level: fault enumeration. For every generated valid file the *whole* cut set is
// enumerated (every byte position of binary data and textual headers, every position not
// strictly inside a token of ASCII bodies). One case = one (file, contiguous range of the
// cut set) chunk so that the work spreads over the worker processes.
package c14

import (
	"encoding/base64"
	"fmt"
	"hash/crc32"
	"sort"
	"strings"
	"time"

	"github.com/EliCDavis/polyform/modeling"
	"polyverif/internal/ref"
	"polyverif/internal/run"
)

func filesPer(tier string) int {
	if tier == "thorough" {
		return 1280
	}
	return 128
}

func chunksPer(tier string) int {
	if tier == "thorough" {
		return 16
	}
	return 4
}

func Spec() *run.Spec {
	return &run.Spec{
		ID: "C14", Level: "fault_enumeration", Exhaustive: true,
		Rule: "Per run 128 (quick) / 1280 (thorough) valid files are generated, 8 / 80 of each of 16 kinds: PLY ascii / binary LE / binary BE " +
			"× {cloud, mesh, mesh with per-face texcoords} written by polyform, PLY of the three encodings written by an independent writer " +
			"(CRLF, comments, double/uchar/int properties, quads, uint/int list counts, texcoord lists, `element face 0`, whitespace runs), " +
			"the splat-PLY export, binary STL (polyform / independent writer), SPZ v1 and v2 with SH degree 0–3 from the reference encoder at five gzip levels, " +
			"PTS with 3/4/7 columns (0, 1, n points) and .splat (reference encoder / polyform writer); in thorough 160 of the files are large (8–64 KiB). " +
			"For each file EVERY cut position 0…len−1 of binary data and of textual headers, and every position not strictly inside a token of an ASCII body, " +
			"is decoded through a plain io.Reader that hands over all it has; every cut of a file of at most 4096 bytes is decoded a second time with the prefix delivered in short reads (1–64 bytes). One case = one (file, contiguous 1/4 or 1/16 of its cut set) chunk; exhaustive over the stated cut set. " +
			"A case is non-trivial when the complete file decoded to the expected element count, holds at least one record and at least one prefix was decoded; " +
			"distinct = distinct (kind, structural descriptor, chunk) triples.",
		Assumptions: []string{
			"cuts strictly inside a numeric token of an ASCII body are not generated (a shorter number is a different valid number; excluded by the property)",
			"the expected result of the only-framing-cut case is polyform's own decode of the complete file (correctness of complete decodes is C04/C08/C07/C15)",
			"a one-point PTS file cut after ≥3 complete columns of its only record is itself a complete valid PTS file with fewer columns: there the decoder may return the point with the attributes wholly present (checked bit-exact against the complete decode); every other PTS cut is judged strictly",
			"all stored values are non-zero, so a zero-filled placeholder can never coincide with real data",
			"termination: 10 CPU-seconds per chunk (normal cost ≤ ~1 s) decided by the framework's CPU watchdog, plus a reader that aborts a decode polling it 10000 times after EOF; no wall clock in any verdict",
			"a deliberate panic(error) raised by a decoder on a truncated file is counted as a reported failure (outcome error-by-panic), a Go runtime panic is a violation",
		},
		MinNontrivial: map[string]int{"quick": 150, "thorough": 2000},
		MinObserved: map[string]int64{
			"files":                       100,
			"cuts/ply-ascii":              1500,
			"cuts/ply-le":                 1500,
			"cuts/ply-be":                 1500,
			"cuts/stl":                    500,
			"cuts/spz":                    500,
			"cuts/pts":                    150,
			"cuts/splat":                  300,
			"outcome/spz/error":           300,
			"outcome/splat/partial-splat": 4,
		},
		Phases: []run.Phase{{
			Name:       "cuts",
			Cases:      func(tier string) int { return filesPer(tier) * chunksPer(tier) },
			Run:        runChunk,
			Batch:      8,
			CPUBudgetS: 10,
		}},
		Finalize: finalize,
	}
}

type decoded struct {
	mesh  *modeling.Mesh
	err   error
	panic *run.PanicInfo
	rd    *cutReader
}

func decode(c *run.Ctx, f *vfile, data []byte, shortReads []int) decoded {
	c.SaveInput(data)
	d := decoded{rd: &cutReader{data: data, chunks: shortReads}}
	if c.Replay {
		// A replay runs without the worker's CPU watchdog: so that re-executing a recorded
		// non-terminating case reports instead of hanging, the decode gets a generous
		// wall-clock limit here. Replays are a debugging aid; no verdict of a check run
		// passes through this branch.
		done := make(chan struct{})
		go func() {
			d.panic = run.Try(func() { d.mesh, d.err = f.dec(d.rd) })
			close(done)
		}()
		select {
		case <-done:
		case <-time.After(20 * time.Second):
			return decoded{rd: &cutReader{data: data}, panic: &run.PanicInfo{ErrorType: "c14.eofPoll", Value: "replay: the decoder did not return within 20 s of wall time", Stack: "(replay mode: goroutine left running)"}}
		}
		return d
	}
	d.panic = run.Try(func() { d.mesh, d.err = f.dec(d.rd) })
	return d
}

// smallFile: files up to this size get the second, short-read decode of every cut.
const smallFile = 4096

// shortReadPattern is rotated by the cut position: the sizes of successive reads.
var shortReadPattern = []int{1, 7, 3, 64, 2, 13, 5, 32}

func eofBucket(n int) string {
	switch {
	case n <= 3:
		return fmt.Sprint(n)
	case n <= 10:
		return "4-10"
	case n <= 100:
		return "11-100"
	}
	return ">100"
}

func runChunk(c *run.Ctx) (res run.Result) {
	K := chunksPer(c.Tier)
	fi, ck := c.Case/K, c.Case%K
	f := buildFile(c.Seed, fi, c.Tier)
	res.Sig = fmt.Sprintf("%s|%s|chunk%d/%d", f.Kind, f.Desc, ck, K)
	res.SetAdd("files", fmt.Sprintf("%d:%s", fi, f.Kind))
	res.SetAdd("files/"+f.Format, fmt.Sprint(fi))
	res.SetAdd("kinds", f.Kind)
	res.SetAdd("file_digests", fmt.Sprintf("%d:%08x", fi, crc32.ChecksumIEEE(f.Data)))

	c.Note(fmt.Sprintf("file %d %s %s len=%d chunk %d/%d: complete decode", fi, f.Kind, f.Desc, len(f.Data), ck, K))
	full := decode(c, f, f.Data, nil)
	switch {
	case full.panic != nil:
		res.Inconclusive = fmt.Sprintf("complete-file-not-decoded: %s panicked on the complete %s file: %s", f.Site, f.Kind, full.panic.Value)
		return
	case full.err != nil || full.mesh == nil:
		res.Inconclusive = fmt.Sprintf("complete-file-not-decoded: %s rejected the complete %s file: %v", f.Site, f.Kind, full.err)
		return
	case full.mesh.PrimitiveCount() != f.WantPrims:
		res.Inconclusive = fmt.Sprintf("complete-file-not-decoded: %s decoded the complete %s file to %d primitives, the file holds %d", f.Site, f.Kind, full.mesh.PrimitiveCount(), f.WantPrims)
		return
	}
	fullSnap := ref.Snap(*full.mesh)
	var fullCorners *ref.CornerView

	cuts := f.cuts()
	if ck == 0 {
		res.Count("cutset/"+f.Format, int64(len(cuts)))
		res.Count("file_bytes/"+f.Format, int64(len(f.Data)))
	}
	lo, hi := ck*len(cuts)/K, (ck+1)*len(cuts)/K
	outcomes := map[string]int{}
	abandoned := false
	c.Note(fmt.Sprintf("file %d %s len=%d: cuts %d…%d of the cut set (%d positions)", fi, f.Kind, len(f.Data), lo, hi, len(cuts)))
	for _, cut := range cuts[lo:hi] {
		region := f.region(cut)
		res.Count("cuts/"+f.Format, 1)
		res.Count("cuts/"+f.Format+"/"+region, 1)
		// Every cut is decoded through a reader that hands over all it has; files up to
		// smallFile bytes are decoded a second time through a reader that delivers the same
		// prefix in short reads (an interrupted download arrives in pieces) — the io.Reader
		// contract makes the two indistinguishable for a correct decoder.
		passes := 1
		if len(f.Data) <= smallFile {
			passes = 2
		}
		for pass := 0; pass < passes && !abandoned; pass++ {
			var shortReads []int
			counter, how := "outcome/", ""
			if pass == 1 {
				shortReads = append(shortReadPattern[cut%len(shortReadPattern):], shortReadPattern[:cut%len(shortReadPattern)]...)
				counter, how = "outcome-short-reads/", " delivered in short reads of 1–64 bytes"
				res.Count("cuts_also_decoded_with_short_reads/"+f.Format, 1)
			}
			d := decode(c, f, f.Data[:cut], shortReads)
			res.Count("decodes", 1)
			res.Count("decoded_bytes", int64(cut))
			res.SetAdd("eof_reads_per_decode", eofBucket(d.rd.eofReads))
			outcome := ""
			violate := func(class, detail string) {
				res.Count("violating_decodes", 1)
				w := map[string]any{"kind": f.Kind, "desc": f.Desc, "file_index": fi, "len": len(f.Data), "cut": cut, "region": region, "short_reads": shortReads}
				if len(f.Data) <= 3000 {
					w["file_base64"] = base64.StdEncoding.EncodeToString(f.Data)
				}
				res.Violate(class, f.Site, f.Kind+" cut in "+region,
					fmt.Sprintf("%s, file of %d bytes cut at %d (region %s)%s: %s", f.Kind, len(f.Data), cut, region, how, detail), w)
			}
			switch {
			case d.panic != nil && d.panic.ErrorType == "c14.eofPoll":
				outcome = "VIOLATION-non-terminating"
				if d.rd.eofReads > maxEOFReads {
					violate("non-terminating", fmt.Sprintf("the decoder read the input %d times after it had reported EOF and had not returned (aborted by the monitor)\n%s", d.rd.eofReads, d.panic.Stack))
				} else {
					violate("non-terminating", d.panic.Value)
					abandoned = true // replay only: a decode is still spinning in its goroutine
				}
			case d.panic != nil && d.panic.Runtime:
				outcome = "VIOLATION-runtime-panic"
				violate("runtime-panic", fmt.Sprintf("Go runtime panic instead of an error: %s at %s\n%s", d.panic.Value, d.panic.Site, d.panic.Stack))
			case d.panic != nil:
				outcome = "error-by-panic"
			case d.err != nil:
				outcome = "error"
				if d.mesh != nil && f.Splat && pass == 0 {
					res.Count("splat_error_with_partial_cloud", 1)
				}
			case d.mesh == nil:
				outcome = "VIOLATION-nil"
				violate("nil-result-no-error", "the decoder returned neither a mesh nor an error")
			case f.Splat:
				want := cut / 32
				if diff := splatPrefixDiff(ref.Snap(*d.mesh), fullSnap, want); diff != "" {
					outcome = "VIOLATION-splat"
					violate("splat-not-record-prefix", fmt.Sprintf("no error, but the result is not exactly the first ⌊%d/32⌋ = %d splats of the file: %s", cut, want, diff))
				} else {
					outcome = "partial-splat"
				}
			default:
				got := ref.Snap(*d.mesh)
				diff := fullSnap.Diff(got)
				if diff != "" {
					if fullCorners == nil {
						fullCorners = fullSnap.Corners()
					}
					// The corner view (DESIGN §2) is blind when the complete mesh has no primitive
					// (`element face 0`): there the whole snapshot must agree.
					if len(fullCorners.Prims) > 0 && fullCorners.EqualExact(got.Corners()) == "" {
						res.Count("complete_by_corner_view_only", 1)
						diff = ""
					}
				}
				switch {
				case diff == "":
					outcome = "complete"
					res.SetAdd("complete_tail_bytes_missing/"+f.Format, fmt.Sprint(len(f.Data)-cut))
				case f.PTS1 != nil && len(f.PTS1.colEnd) >= 3 && cut >= f.PTS1.colEnd[2] && attrSubsetEqual(got, fullSnap) == "":
					outcome = "pts-single-record-prefix"
				default:
					outcome = "VIOLATION-accepted"
					violate("truncation-accepted", fmt.Sprintf("no error, and the returned mesh is not the decode of the complete file (complete → returned: %s); returned %s; complete %s",
						diff, describe(got), describe(fullSnap)))
				}
			}
			if pass == 0 {
				outcomes[outcome]++
			}
			res.Count(counter+f.Format+"/"+outcome, 1)
		}
		if abandoned {
			break
		}
	}
	res.Nontrivial = f.Records > 0 && hi > lo
	if hi > lo && (ck == 0 || len(res.Violations) > 0) {
		var os []string
		for k, v := range outcomes {
			os = append(os, fmt.Sprintf("%s=%d", k, v))
		}
		sort.Strings(os)
		res.Sample = map[string]any{"file": fi, "kind": f.Kind, "desc": f.Desc, "bytes": len(f.Data), "cutset": len(cuts),
			"chunk": fmt.Sprintf("%d/%d: cut positions %d…%d", ck, K, cuts[lo], cuts[hi-1]), "outcomes": strings.Join(os, " ")}
	}
	return
}

// describe summarises a decoded mesh for a violation message: sizes and how many
// vertices are all-zero (placeholders).
func describe(s *ref.Snapshot) string {
	n, zero := 0, 0
	if p, ok := s.Data["3:"+modeling.PositionAttribute]; ok {
		n = len(p) / 3
		for i := 0; i < n; i++ {
			if p[i*3] == 0 && p[i*3+1] == 0 && p[i*3+2] == 0 {
				zero++
			}
		}
	}
	return fmt.Sprintf("{topology %v, %d indices, %d positions of which %d are (0,0,0), attributes %v}", s.Topology, len(s.Indices), n, zero, s.Names)
}

// splatPrefixDiff: got must consist of exactly the first k splats of full.
func splatPrefixDiff(got, full *ref.Snapshot, k int) string {
	if len(got.Indices) != k {
		return fmt.Sprintf("%d splats returned", len(got.Indices))
	}
	for i, v := range got.Indices {
		if v != i {
			return fmt.Sprintf("index[%d]=%d", i, v)
		}
	}
	if k == 0 { // an empty cloud may or may not list its (empty) attributes
		for _, name := range got.Names {
			if len(got.Data[name]) != 0 {
				return fmt.Sprintf("attribute %s has %d values in a cloud without splats", name, len(got.Data[name]))
			}
		}
		return ""
	}
	if strings.Join(got.Names, "|") != strings.Join(full.Names, "|") {
		return fmt.Sprintf("attributes %v, complete decode has %v", got.Names, full.Names)
	}
	for _, name := range full.Names {
		a := int(name[0] - '0')
		g, w := got.Data[name], full.Data[name]
		if len(g) != k*a {
			return fmt.Sprintf("attribute %s has %d entries", name, len(g)/a)
		}
		for i := range g {
			if !sameBits(g[i], w[i]) {
				return fmt.Sprintf("attribute %s of splat %d component %d is %v, the file holds %v", name, i/a, i%a, g[i], w[i])
			}
		}
	}
	return ""
}

// attrSubsetEqual: same topology and indices, and every attribute of got is an attribute
// of full with bit-identical values ("" when so).
func attrSubsetEqual(got, full *ref.Snapshot) string {
	if got.Topology != full.Topology || len(got.Indices) != len(full.Indices) {
		return "topology / index count differ"
	}
	for i := range got.Indices {
		if got.Indices[i] != full.Indices[i] {
			return "indices differ"
		}
	}
	if len(got.Names) == 0 {
		return "no attributes"
	}
	for _, name := range got.Names {
		w, ok := full.Data[name]
		g := got.Data[name]
		if !ok || len(w) != len(g) {
			return "attribute " + name + " not in the complete decode"
		}
		for i := range g {
			if !sameBits(g[i], w[i]) {
				return "attribute " + name + " differs"
			}
		}
	}
	return ""
}

func sameBits(a, b float64) bool {
	if a != a || b != b {
		return a != a && b != b
	}
	return a == b
}

// finalize adds the exhaustiveness account: positions decoded vs. size of the cut sets.
func finalize(a *run.Aggregate) {
	acc := map[string]any{}
	complete := true
	for k, v := range a.Counters {
		if !strings.HasPrefix(k, "cutset/") {
			continue
		}
		fm := strings.TrimPrefix(k, "cutset/")
		files := len(a.Sets["files/"+fm])
		acc[fm] = map[string]any{"files": files, "bytes": a.Counters["file_bytes/"+fm], "cut_set": v, "cuts_decoded": a.Counters["cuts/"+fm]}
		if v != a.Counters["cuts/"+fm] {
			complete = false
		}
	}
	a.Extra["cut_set_account"] = acc
	// every chunk regenerates its file: the chunks partition one cut set only if the bytes are the same each time
	a.Extra["files_regenerated_identically_in_every_chunk"] = len(a.Sets["file_digests"]) == len(a.Sets["files"])
	a.Extra["every_cut_of_every_file_decoded"] = complete
}
