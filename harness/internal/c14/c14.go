// Package c14 monitors property C14: a strict prefix of a valid PLY (ASCII / little / big
// endian), binary STL, SPZ, PTS or .splat file is rejected with an error, or decodes to
// data wholly present in the prefix; the call terminates and never fabricates geometry.
//
// Level: fault enumeration.
//
//	cuts         for every generated small valid file the WHOLE cut set is enumerated (every
//	             byte position of binary data and textual headers, every position not strictly
//	             inside a token of ASCII bodies). One case = one (file, contiguous range of the
//	             cut set) chunk. Exhaustive over the stated cut set.
//	large-files  a few big valid files per format (beyond every block size a decoder may work
//	             in) with SAMPLED cuts: block boundaries ±1, 64 KiB multiples ±1, the header,
//	             the last 64 bytes, random positions. Not exhaustive. Every decode runs in its
//	             own goroutine under a state-based stall detector.
package c14

import (
	"encoding/base64"
	"fmt"
	"hash/crc32"
	"io"
	"os"
	"sort"
	"strings"
	"time"

	"github.com/EliCDavis/polyform/modeling"
	"polyverif/internal/c15/readers"
	"polyverif/internal/ref"
	"polyverif/internal/run"
)

func filesPer(tier string) int {
	if tier == "thorough" {
		return 1280
	}
	return 128
}

func chunksPer(tier string) int {
	if tier == "thorough" {
		return 16
	}
	return 4
}

func Spec() *run.Spec {
	return &run.Spec{
		ID: "C14", Level: "fault_enumeration", Exhaustive: true,
		Rule: "Since round 7 the big files exceed 65536 records (STL, splat) or 32768 (SPZ, PTS), the record-count block sizes include 8192 and 32768, and every boundary of the largest block sizes is cut exactly (largest first) before the random sample. " +
			"Phase `cuts` (EXHAUSTIVE over the stated cut set): per run 128 (quick) / 1280 (thorough) valid files are generated, 8 / 80 of each of 16 kinds: PLY ascii / binary LE / binary BE " +
			"× {cloud, mesh, mesh with per-face texcoords} written by polyform, PLY of the three encodings written by an independent writer " +
			"(CRLF, comments, double/uchar/int properties, quads, uint/int list counts, texcoord lists, `element face 0`, whitespace runs), " +
			"the splat-PLY export, binary STL (polyform writer: zeroed comment; independent writer: 80-byte comments of 7 further kinds — random bytes, \"solid name\", \"  solid x\", \"SOLID …\", \"binary stl …\", text with a newline, 80 printable characters), SPZ v1 and v2 with every SH degree 0–3 from the reference encoder, each degree both deflated and in stored (level 0) blocks, " +
			"PTS with 3/4/7 columns (0, 1, n points) and .splat (reference encoder / polyform writer); in thorough 160 of the files are large (8–64 KiB). " +
			"For each file EVERY cut position 0…len−1 of binary data and of textual headers, and every position not strictly inside a token of an ASCII body, " +
			"is decoded through a plain io.Reader that hands over all it has; every cut of a file of at most 4096 bytes is decoded a second time through a rotating reader kind " +
			"(short reads of 1–64 bytes, iotest.OneByteReader, HalfReader, DataErrReader — data together with io.EOF —, bufio, LimitReader). One case = one (file, contiguous 1/4 or 1/16 of its cut set) chunk. " +
			"Phase `large-files` (SAMPLED, not exhaustive): 10 (quick) / 30 (thorough) big files — PLY LE / BE / ASCII with ≥ 65 537 and ≥ 131 074 vertices, STL > 8192 triangles, SPZ > 16 384 points, .splat > 4096 splats, PTS > 10 000 lines — " +
			"each with 200 cuts (ASCII PLY: 64 in quick): 4096·k records ±1 byte, 64 KiB·k ±1, header positions, the last 64 bytes, random positions; reader kinds rotate; every decode runs in its own goroutine under a state-based stall detector. " +
			"Phase `path-loads` (SAMPLED cuts, not exhaustive): the path-based loaders of the formats packages (ply.Load, ply.MeshReader.Load, stl.Load, spz.Load; splat and pts have none) in histories of 3–6 loads within one process over two files of one loader family: " +
			"a truncated file (cut sampled from its cut set: 40 % past half the file, the last 16 positions, the header, anywhere) written into the worker's scratch directory must be rejected or load to data wholly present (same oracle) whatever was rejected before, and a complete file must load bit-identically to the reader-based decode of the same bytes; plain build. " +
			"In `cuts` and `large-files` the complete file is also decoded through one of ten reader kinds (bytes.Reader, plain, OneByte, Half, DataErr, Limit, bufio, os.File, pipe, gzip) and must decode identically. " +
			"A case is non-trivial when the complete file decoded to the expected element count, holds at least one record and at least one prefix was decoded; " +
			"distinct = distinct (kind, structural descriptor, chunk) triples.",
		Assumptions: []string{
			"cuts strictly inside a numeric token of an ASCII body are not generated (a shorter number is a different valid number; excluded by the property)",
			"the expected result of the only-framing-cut case is polyform's own decode of the complete file through a plain reader (correctness of complete decodes is C04/C08/C07/C15)",
			"a one-point PTS file cut after ≥3 complete columns of its only record is itself a complete valid PTS file with fewer columns: there the decoder may return the point with the attributes wholly present (checked bit-exact against the complete decode); every other PTS cut is judged strictly",
			"all stored values are non-zero, so a zero-filled placeholder can never coincide with real data",
			"termination, spinning: 10 (cuts) / 60 (large-files) CPU-seconds per case decided by the framework's CPU watchdog, plus a reader that aborts a decode polling it 10000 times after EOF",
			"termination, parked: in `large-files` a decode that has not returned while, in two goroutine dumps with no read of the input in between, every goroutine with a polyform frame is blocked in a channel / WaitGroup / mutex wait entered by polyform itself is a violation (state-based; timers only decide when to look); the framework's no-CPU-progress watchdog (StallViolation) is the backstop; no wall clock in any verdict",
			"a deliberate panic(error) raised by a decoder on a truncated file is counted as a reported failure (outcome error-by-panic), a Go runtime panic is a violation",
			"the io.Reader contract makes reader kinds indistinguishable for a correct decoder; a complete file that decodes differently through another reader kind is reported (the baseline of the prefix oracle would otherwise depend on the reader)",
		},
		MinNontrivial: map[string]int{"quick": 150, "thorough": 2000},
		MinObserved: map[string]int64{
			"files":                                  100,
			"cuts/ply-ascii":                         1500,
			"cuts/ply-le":                            1500,
			"cuts/ply-be":                            1500,
			"cuts/stl":                               500,
			"cuts/spz":                               500,
			"cuts/pts":                               150,
			"cuts/splat":                             300,
			"outcome/spz/error":                      300,
			"outcome/splat/partial-splat":            4,
			"cuts/spz/sh-degree-1":                   300,
			"cuts/spz/sh-degree-2":                   300,
			"cuts/spz/sh-degree-3":                   300,
			"cuts/stl/header-kind/zeros":             100,
			"cuts/stl/header-kind/random-bytes":      100,
			"cuts/stl/header-kind/solid-name":        100,
			"cuts/stl/header-kind/blank-solid":       100,
			"cuts/stl/header-kind/upper-SOLID":       100,
			"cuts/stl/header-kind/binary-stl-text":   100,
			"cuts/stl/header-kind/text-with-newline": 100,
			"cuts/stl/header-kind/80-printable":      100,
			"path/stl_header_kinds":                  8,
			"spz_sh_degree_x_gzip":                   8,
			"truncated_decode_reader_kinds":          7,
			"complete_decode_reader_kinds":           10,
			"large/files":                            10,
			"large/kinds":                            10,
			"large/cuts/ply-le":                      300,
			"large/cuts/ply-be":                      300,
			"large/cuts/ply-ascii":                   100,
			"large/cuts/stl":                         150,
			"large/cuts/spz":                         150,
			"large/cuts/splat":                       150,
			"large/cuts/pts":                         150,
			"large/decodes_under_stall_detector":     1500,
		},
		Phases: []run.Phase{
			{Name: "cuts", Cases: func(tier string) int { return filesPer(tier) * chunksPer(tier) }, Run: runChunk, Batch: 8, CPUBudgetS: 10},
			{Name: "path-loads", Cases: func(tier string) int {
				if tier == "thorough" {
					return 40000
				}
				return 1300
			}, Run: runPathHistory, Batch: 100, CPUBudgetS: 10},
			{Name: "large-files", Cases: func(tier string) int { return bigFilesPer(tier) * bigChunks }, Run: runBigChunk, Batch: 1, CPUBudgetS: 60, StallViolation: true},
		},
		Finalize: finalize,
	}
}

type decoded struct {
	mesh     *modeling.Mesh
	err      error
	panic    *run.PanicInfo
	rd       *cutReader // nil when the input did not go through a cutReader (complete decodes by kind)
	parked   *parked    // non-nil: the decode never returned and everybody inside polyform is parked
	replayTO bool       // replay only: no return within the replay's wall limit
}

func (d decoded) eofReads() int {
	if d.rd == nil {
		return 0
	}
	return d.rd.eofReads
}

// session is one case: a file, its complete decode, and the judging of prefix decodes.
type session struct {
	c           *run.Ctx
	res         *run.Result
	f           *vfile
	fi          int
	pre         string // counter prefix: "" (cuts), "large/" or "path/"
	site        string // entry point under observation when it is not the reader-based decoder of the file
	guarded     bool   // decodes run in their own goroutine under the stall detector
	fullSnap    *ref.Snapshot
	fullCorners *ref.CornerView
	abandoned   bool // a decode goroutine is still out there: stop the case
}

const saveInputMax = 64 << 10

// run executes one decode of the file's decoder over rd.
func (s *session) run(rd io.Reader, cr *cutReader) decoded {
	d := decoded{rd: cr}
	if !s.guarded && !s.c.Replay {
		d.panic = run.Try(func() { d.mesh, d.err = s.f.dec(rd) })
		return d
	}
	// own goroutine: the case goroutine watches the state of the process
	done := make(chan struct{})
	var g decoded
	go func() {
		defer close(done)
		g.panic = run.Try(func() { g.mesh, g.err = s.f.dec(rd) })
	}()
	clock := func() int64 { return 0 }
	if cr != nil {
		clock = func() int64 { return cr.reads.Load() }
	}
	verdict := make(chan *parked, 1)
	if os.Getenv("C14_NO_STALL_DETECTOR") != "" {
		// validation knob: leave a parked decode to the framework's no-CPU-progress watchdog
		go func() { <-done; verdict <- nil }()
	} else {
		go func() { verdict <- waitOrParked(done, clock) }()
	}
	var limit <-chan time.Time
	if s.c.Replay {
		// A replay runs without the worker's watchdogs: so that re-executing a recorded
		// non-terminating case reports instead of hanging it gets a generous wall limit.
		// Replays are a debugging aid; no verdict of a check run passes through here.
		limit = time.After(20 * time.Second)
	}
	select {
	case p := <-verdict:
		if p != nil {
			s.abandoned = true
			return decoded{rd: cr, parked: p}
		}
		g.rd = cr
		s.res.Count("large/decodes_under_stall_detector", 1)
		return g
	case <-limit:
		s.abandoned = true
		return decoded{rd: cr, replayTO: true}
	}
}

// truncated decodes a prefix through a cutReader wrapped in the given reader kind.
func (s *session) truncated(data []byte, kind string, cut int) decoded {
	if len(data) <= saveInputMax {
		s.c.SaveInput(data)
	} else {
		s.c.Note(fmt.Sprintf("decode of the first %d bytes through %s (file regenerable from seed and file index %d)", cut, kind, s.fi))
	}
	cr := &cutReader{data: data}
	var rd io.Reader = cr
	switch kind {
	case "plain-cutReader":
	case "short-reads":
		k := cut % len(shortReadPattern)
		cr.chunks = append(append([]int{}, shortReadPattern[k:]...), shortReadPattern[:k]...)
	default:
		rd = readers.Wrap(kind, cr)
	}
	return s.run(rd, cr)
}

// smallFile: files up to this size get the second decode of every cut.
const smallFile = 4096

// shortReadPattern is rotated by the cut position: the sizes of successive reads.
var shortReadPattern = []int{1, 7, 3, 64, 2, 13, 5, 32}

// secondPassKinds rotate over the cuts of a chunk.
var secondPassKinds = []string{"short-reads", "OneByteReader", "HalfReader", "DataErrReader", "bufio", "LimitReader"}

// bigFileKinds rotate over the sampled cuts of a big file.
var bigFileKinds = []string{"plain-cutReader", "DataErrReader", "short-reads", "HalfReader", "bufio", "plain-cutReader", "LimitReader", "OneByteReader"}

func eofBucket(n int) string {
	switch {
	case n <= 3:
		return fmt.Sprint(n)
	case n <= 10:
		return "4-10"
	case n <= 100:
		return "11-100"
	}
	return ">100"
}

func (s *session) violate(class, input, detail string, w map[string]any) {
	if w == nil {
		w = map[string]any{}
	}
	w["kind"], w["desc"], w["file_index"], w["len"] = s.f.Kind, s.f.Desc, s.fi, len(s.f.Data)
	if len(s.f.Data) <= 3000 {
		w["file_base64"] = base64.StdEncoding.EncodeToString(s.f.Data)
	}
	site := s.f.Site
	if s.site != "" {
		site = s.site
	}
	s.res.Violate(class, site, input, detail, w)
}

// complete decodes the whole file through the plain reader (the baseline), checks that
// it is the valid file the generator meant, and decodes it once more through one of the
// ten reader kinds. False: the case cannot go on.
func (s *session) complete() bool {
	c, res, f := s.c, s.res, s.f
	if len(f.Data) <= saveInputMax {
		c.SaveInput(f.Data)
	}
	cr := &cutReader{data: f.Data}
	full := s.run(cr, cr)
	switch {
	case full.parked != nil || full.replayTO:
		s.violate("stalled", f.Kind+" complete file", fmt.Sprintf("%s: the decode of the COMPLETE file of %d bytes never returned: %s", f.Kind, len(f.Data), stallText(full)), nil)
		return false
	case full.panic != nil:
		res.Inconclusive = fmt.Sprintf("complete-file-not-decoded: %s panicked on the complete %s file: %s", f.Site, f.Kind, full.panic.Value)
		return false
	case full.err != nil || full.mesh == nil:
		res.Inconclusive = fmt.Sprintf("complete-file-not-decoded: %s rejected the complete %s file: %v", f.Site, f.Kind, full.err)
		return false
	case full.mesh.PrimitiveCount() != f.WantPrims:
		res.Inconclusive = fmt.Sprintf("complete-file-not-decoded: %s decoded the complete %s file to %d primitives, the file holds %d", f.Site, f.Kind, full.mesh.PrimitiveCount(), f.WantPrims)
		return false
	}
	s.fullSnap = ref.Snap(*full.mesh)

	kind := readers.Kinds[(c.Case+int(c.Seed))%len(readers.Kinds)]
	scratch := ""
	if kind == "os.File" {
		scratch = c.ScratchDir()
	}
	c.Note(fmt.Sprintf("complete file of %d bytes through reader kind %s", len(f.Data), kind))
	rd, release := readers.Open(kind, f.Data, scratch)
	d := s.run(rd, nil)
	if d.parked == nil && !d.replayTO {
		release()
	}
	res.SetAdd("complete_decode_reader_kinds", kind)
	res.Count("complete_decodes_by_reader_kind/"+f.Format, 1)
	input := f.Kind + " complete file through " + kind
	switch {
	case d.parked != nil || d.replayTO:
		s.violate("stalled", input, fmt.Sprintf("%s: the decode of the complete file of %d bytes through %s never returned: %s", f.Kind, len(f.Data), kind, stallText(d)), nil)
		return false
	case d.panic != nil:
		s.violate("complete-decode-differs-by-reader-kind", input, fmt.Sprintf("%s, complete file of %d bytes: decodes through a plain reader, panics through %s: %s\n%s", f.Kind, len(f.Data), kind, d.panic.Value, d.panic.Stack), nil)
	case d.err != nil || d.mesh == nil:
		s.violate("complete-decode-differs-by-reader-kind", input, fmt.Sprintf("%s, complete file of %d bytes: decodes through a plain reader, is rejected through %s: %v", f.Kind, len(f.Data), kind, d.err), nil)
	default:
		if diff := s.fullSnap.Diff(ref.Snap(*d.mesh)); diff != "" {
			s.violate("complete-decode-differs-by-reader-kind", input, fmt.Sprintf("%s, complete file of %d bytes: the decode through %s differs from the decode through a plain reader (plain → %s: %s); through %s: %s; plain: %s",
				f.Kind, len(f.Data), kind, kind, diff, kind, describe(ref.Snap(*d.mesh)), describe(s.fullSnap)), nil)
		}
	}
	return true
}

func stallText(d decoded) string {
	if d.replayTO {
		return "replay: no return within 20 s of wall time"
	}
	return fmt.Sprintf("%d goroutine(s) with polyform frames, every one of them parked in a wait entered by polyform (%s) in two goroutine dumps %v apart, the input reader not asked for anything in between; nobody is left to wake them\n%s",
		d.parked.goroutines, strings.Join(d.parked.frames, ", "), stallRecheck, d.parked.dump)
}

// judge classifies one prefix decode and records a violation where the oracle is broken.
// counter is the evidence bucket ("outcome/", "outcome-reader-kinds/"), how describes the reader.
func (s *session) judge(cut int, d decoded, counter, how string) string {
	res, f := s.res, s.f
	region := f.region(cut)
	res.Count(s.pre+"decodes", 1)
	res.Count(s.pre+"decoded_bytes", int64(cut))
	res.SetAdd(s.pre+"eof_reads_per_decode", eofBucket(d.eofReads()))
	violate := func(class, detail string) {
		res.Count(s.pre+"violating_decodes", 1)
		s.violate(class, f.Kind+" cut in "+region,
			fmt.Sprintf("%s, file of %d bytes cut at %d (region %s)%s: %s", f.Kind, len(f.Data), cut, region, how, detail),
			map[string]any{"cut": cut, "region": region, "reader": how})
	}
	outcome := ""
	switch {
	case d.parked != nil || d.replayTO:
		outcome = "VIOLATION-stalled"
		violate("stalled", "the decode never returned: "+stallText(d))
	case d.panic != nil && d.panic.ErrorType == "c14.eofPoll":
		outcome = "VIOLATION-non-terminating"
		violate("non-terminating", fmt.Sprintf("the decoder read the input %d times after it had reported EOF and had not returned (aborted by the monitor)\n%s", d.eofReads(), d.panic.Stack))
	case d.panic != nil && d.panic.Runtime:
		outcome = "VIOLATION-runtime-panic"
		violate("runtime-panic", fmt.Sprintf("Go runtime panic instead of an error: %s at %s\n%s", d.panic.Value, d.panic.Site, d.panic.Stack))
	case d.panic != nil:
		outcome = "error-by-panic"
	case d.err != nil:
		outcome = "error"
		if d.mesh != nil && f.Splat {
			res.Count(s.pre+"splat_error_with_partial_cloud", 1)
		}
	case d.mesh == nil:
		outcome = "VIOLATION-nil"
		violate("nil-result-no-error", "the decoder returned neither a mesh nor an error")
	case f.Splat:
		want := cut / 32
		if diff := splatPrefixDiff(ref.Snap(*d.mesh), s.fullSnap, want); diff != "" {
			outcome = "VIOLATION-splat"
			violate("splat-not-record-prefix", fmt.Sprintf("no error, but the result is not exactly the first ⌊%d/32⌋ = %d splats of the file: %s", cut, want, diff))
		} else {
			outcome = "partial-splat"
		}
	default:
		got := ref.Snap(*d.mesh)
		diff := s.fullSnap.Diff(got)
		if diff != "" {
			if s.fullCorners == nil {
				s.fullCorners = s.fullSnap.Corners()
			}
			// The corner view (DESIGN §2) is blind when the complete mesh has no primitive
			// (`element face 0`): there the whole snapshot must agree.
			if len(s.fullCorners.Prims) > 0 && s.fullCorners.EqualExact(got.Corners()) == "" {
				res.Count(s.pre+"complete_by_corner_view_only", 1)
				diff = ""
			}
		}
		switch {
		case diff == "":
			outcome = "complete"
			res.SetAdd(s.pre+"complete_tail_bytes_missing/"+f.Format, fmt.Sprint(len(f.Data)-cut))
		case f.PTS1 != nil && len(f.PTS1.colEnd) >= 3 && cut >= f.PTS1.colEnd[2] && attrSubsetEqual(got, s.fullSnap) == "":
			outcome = "pts-single-record-prefix"
		default:
			outcome = "VIOLATION-accepted"
			violate("truncation-accepted", fmt.Sprintf("no error, and the returned mesh is not the decode of the complete file (complete → returned: %s); returned %s; complete %s",
				diff, describe(got), describe(s.fullSnap)))
		}
	}
	res.Count(s.pre+counter+f.Format+"/"+outcome, 1)
	return outcome
}

func runChunk(c *run.Ctx) (res run.Result) {
	K := chunksPer(c.Tier)
	fi, ck := c.Case/K, c.Case%K
	f := buildFile(c.Seed, fi, c.Tier)
	s := &session{c: c, res: &res, f: f, fi: fi}
	res.Sig = fmt.Sprintf("%s|%s|chunk%d/%d", f.Kind, f.Desc, ck, K)
	res.SetAdd("files", fmt.Sprintf("%d:%s", fi, f.Kind))
	res.SetAdd("files/"+f.Format, fmt.Sprint(fi))
	res.SetAdd("kinds", f.Kind)
	res.SetAdd("file_digests", fmt.Sprintf("%d:%08x", fi, crc32.ChecksumIEEE(f.Data)))
	if f.SPZDeg >= 0 {
		res.SetAdd("spz_sh_degree_x_gzip", fmt.Sprintf("sh%d/%s", f.SPZDeg, f.SPZGz))
	}

	c.Note(fmt.Sprintf("file %d %s %s len=%d chunk %d/%d: complete decode", fi, f.Kind, f.Desc, len(f.Data), ck, K))
	if !s.complete() {
		return
	}
	cuts := f.cuts()
	if ck == 0 {
		res.Count("cutset/"+f.Format, int64(len(cuts)))
		res.Count("file_bytes/"+f.Format, int64(len(f.Data)))
	}
	lo, hi := ck*len(cuts)/K, (ck+1)*len(cuts)/K
	outcomes := map[string]int{}
	c.Note(fmt.Sprintf("file %d %s len=%d: cuts %d…%d of the cut set (%d positions)", fi, f.Kind, len(f.Data), lo, hi, len(cuts)))
	for i, cut := range cuts[lo:hi] {
		region := f.region(cut)
		res.Count("cuts/"+f.Format, 1)
		res.Count("cuts/"+f.Format+"/"+region, 1)
		if f.SPZDeg >= 0 {
			res.Count(fmt.Sprintf("cuts/spz/sh-degree-%d", f.SPZDeg), 1)
			if f.SPZGz == "stored" {
				res.Count(fmt.Sprintf("cuts/spz/sh-degree-%d/stored-blocks", f.SPZDeg), 1)
			}
		}
		if f.STLHeader != "" {
			res.Count("cuts/stl/header-kind/"+f.STLHeader, 1)
		}
		res.SetAdd("truncated_decode_reader_kinds", "plain-cutReader")
		outcomes[s.judge(cut, s.truncated(f.Data[:cut], "plain-cutReader", cut), "outcome/", "")]++
		// Files up to smallFile bytes: every cut a second time through another reader kind —
		// an interrupted download arrives in pieces, and the last piece may come with io.EOF.
		if len(f.Data) <= smallFile && !s.abandoned {
			kind := secondPassKinds[(lo+i)%len(secondPassKinds)]
			res.SetAdd("truncated_decode_reader_kinds", kind)
			res.Count("cuts_also_decoded_through_another_reader_kind/"+f.Format, 1)
			s.judge(cut, s.truncated(f.Data[:cut], kind, cut), "outcome-reader-kinds/", " read through "+kind)
		}
		if s.abandoned {
			break
		}
	}
	res.Nontrivial = f.Records > 0 && hi > lo
	if hi > lo && (ck == 0 || len(res.Violations) > 0) {
		res.Sample = map[string]any{"file": fi, "kind": f.Kind, "desc": f.Desc, "bytes": len(f.Data), "cutset": len(cuts),
			"chunk": fmt.Sprintf("%d/%d: cut positions %d…%d", ck, K, cuts[lo], cuts[hi-1]), "outcomes": outcomeText(outcomes)}
	}
	return
}

func outcomeText(m map[string]int) string {
	var os []string
	for k, v := range m {
		os = append(os, fmt.Sprintf("%s=%d", k, v))
	}
	sort.Strings(os)
	return strings.Join(os, " ")
}

// finalize adds the exhaustiveness account: positions decoded vs. size of the cut sets.
func finalize(a *run.Aggregate) {
	acc := map[string]any{}
	complete := true
	for k, v := range a.Counters {
		if !strings.HasPrefix(k, "cutset/") {
			continue
		}
		fm := strings.TrimPrefix(k, "cutset/")
		files := len(a.Sets["files/"+fm])
		acc[fm] = map[string]any{"files": files, "bytes": a.Counters["file_bytes/"+fm], "cut_set": v, "cuts_decoded": a.Counters["cuts/"+fm]}
		if v != a.Counters["cuts/"+fm] {
			complete = false
		}
	}
	a.Extra["cut_set_account"] = acc
	// every chunk regenerates its file: the chunks partition one cut set only if the bytes are the same each time
	a.Extra["files_regenerated_identically_in_every_chunk"] = len(a.Sets["file_digests"]) == len(a.Sets["files"])
	a.Extra["every_cut_of_every_file_decoded"] = complete
	a.Extra["exhaustive_per_phase"] = map[string]any{
		"cuts":        "true — every position of the stated cut set of every generated file (see cut_set_account)",
		"path-loads":  "false — sampled cuts (histories of path-based loads; cut positions drawn from the cut set of each file)",
		"large-files": "false — sampled cuts: block boundaries ±1, 64 KiB multiples ±1, header, last 64 bytes, random (see large/… counters)",
	}
}
