package c14

import (
	"bytes"
	"encoding/binary"
	"fmt"
	"math"
	"math/rand"
	"strconv"
)

// An independent PLY writer (PLY 1.0 as described by Turk's specification): used to
// produce "foreign" valid files — other tools' property types, CRLF headers, comments,
// quads, per-face texture coordinates, `element face 0`, 32-bit list counts — next to the
// files produced by polyform's own writer.

type plyProp struct {
	name string
	typ  string // char uchar short ushort int uint float double
}

type plyFace struct {
	idx []int
	uv  []float64
}

type plySpec struct {
	enc       string // ascii | binary_little_endian | binary_big_endian
	nl        string // "\n" or "\r\n" (header, and body when ascii)
	comments  []string
	props     []plyProp
	rows      [][]float64 // one row per vertex, one value per property
	faceMode  string      // none | zero | faces
	countType string      // uchar | uint | int
	indexType string      // int | uint
	indexName string      // vertex_indices | vertex_index
	uvType    string      // "" | float | double
	faces     []plyFace
	sloppyWS  bool // ascii: runs of blanks between tokens, trailing blank before the line end
	tailBlank int  // ascii: extra blank lines after the last record
}

func putScalar(b *bytes.Buffer, order binary.ByteOrder, typ string, v float64) {
	var tmp [8]byte
	switch typ {
	case "char", "uchar":
		b.WriteByte(byte(int64(v)))
	case "short", "ushort":
		order.PutUint16(tmp[:], uint16(int64(v)))
		b.Write(tmp[:2])
	case "int", "uint":
		order.PutUint32(tmp[:], uint32(int64(v)))
		b.Write(tmp[:4])
	case "float":
		order.PutUint32(tmp[:], math.Float32bits(float32(v)))
		b.Write(tmp[:4])
	case "double":
		order.PutUint64(tmp[:], math.Float64bits(v))
		b.Write(tmp[:8])
	default:
		panic("plyw: unknown type " + typ)
	}
}

func asciiScalar(typ string, v float64) string {
	switch typ {
	case "float":
		return strconv.FormatFloat(v, 'g', -1, 32)
	case "double":
		return strconv.FormatFloat(v, 'g', -1, 64)
	}
	return strconv.FormatInt(int64(v), 10)
}

// encode returns the file, the length of its header and the offset at which the vertex
// element ends.
func (s *plySpec) encode(r *rand.Rand) (data []byte, headerLen, vertexEnd int) {
	b := &bytes.Buffer{}
	nl := s.nl
	b.WriteString("ply" + nl)
	b.WriteString("format " + s.enc + " 1.0" + nl)
	for _, c := range s.comments {
		b.WriteString(c + nl)
	}
	fmt.Fprintf(b, "element vertex %d%s", len(s.rows), nl)
	for _, p := range s.props {
		fmt.Fprintf(b, "property %s %s%s", p.typ, p.name, nl)
	}
	if s.faceMode != "none" {
		fmt.Fprintf(b, "element face %d%s", len(s.faces), nl)
		fmt.Fprintf(b, "property list %s %s %s%s", s.countType, s.indexType, s.indexName, nl)
		if s.uvType != "" {
			fmt.Fprintf(b, "property list %s %s texcoord%s", s.countType, s.uvType, nl)
		}
	}
	b.WriteString("end_header" + nl)
	headerLen = b.Len()

	if s.enc == "ascii" {
		sep := func() string {
			if s.sloppyWS && r.Intn(3) == 0 {
				return []string{"  ", " \t", "   "}[r.Intn(3)]
			}
			return " "
		}
		eol := func() string {
			if s.sloppyWS && r.Intn(4) == 0 {
				return " " + nl
			}
			return nl
		}
		for _, row := range s.rows {
			for i, p := range s.props {
				if i > 0 {
					b.WriteString(sep())
				}
				b.WriteString(asciiScalar(p.typ, row[i]))
			}
			b.WriteString(eol())
		}
		vertexEnd = b.Len()
		for _, f := range s.faces {
			b.WriteString(strconv.Itoa(len(f.idx)))
			for _, v := range f.idx {
				b.WriteString(sep() + strconv.Itoa(v))
			}
			if s.uvType != "" {
				b.WriteString(sep() + strconv.Itoa(len(f.uv)))
				for _, v := range f.uv {
					b.WriteString(sep() + asciiScalar(s.uvType, v))
				}
			}
			b.WriteString(eol())
		}
		for i := 0; i < s.tailBlank; i++ {
			b.WriteString(nl)
		}
		return b.Bytes(), headerLen, vertexEnd
	}

	var order binary.ByteOrder = binary.LittleEndian
	if s.enc == "binary_big_endian" {
		order = binary.BigEndian
	}
	for _, row := range s.rows {
		for i, p := range s.props {
			putScalar(b, order, p.typ, row[i])
		}
	}
	vertexEnd = b.Len()
	for _, f := range s.faces {
		putScalar(b, order, s.countType, float64(len(f.idx)))
		for _, v := range f.idx {
			putScalar(b, order, s.indexType, float64(v))
		}
		if s.uvType != "" {
			putScalar(b, order, s.countType, float64(len(f.uv)))
			for _, v := range f.uv {
				putScalar(b, order, s.uvType, v)
			}
		}
	}
	return b.Bytes(), headerLen, vertexEnd
}

func floatBits(v float64) uint32 { return math.Float32bits(float32(v)) }
