package c14

import (
	"bytes"
	"compress/gzip"
	"encoding/binary"
	"fmt"
	"math/rand"
	"sort"
	"strconv"

	"polyverif/internal/c15/splatref"
	"polyverif/internal/run"
)

// Big valid files for the large-files phase: beyond every block size a decoder may work
// in (4096-record blocks, 64 KiB buffers, 16-bit counters). Cuts are SAMPLED, not enumerated.

const bigKinds = 10
const bigChunks = 4

func bigFilesPer(tier string) int {
	if tier == "thorough" {
		return 30
	}
	return 10
}

func bigCutsPer(tier string, f *vfile) int {
	if f.Format == "ply-ascii" && tier != "thorough" {
		return 64
	}
	return 200
}

// record-count block sizes a decoder may batch by, largest first (round 7, C14-L: a reader that streams
// 32768-record chunks beyond the first one and takes a clean EOF at a chunk boundary for the end of data)
var blockSizes = []int{65536, 32768, 16384, 8192, 4096, 2048, 1024}

func blockOffsets(body, rec, count int) []int {
	var out []int
	for _, b := range blockSizes {
		for k := 1; k*b <= count; k++ {
			out = append(out, body+k*b*rec)
		}
	}
	return out
}

// lineBlockOffsets: the offsets at which line 1024·k, 2048·k … (counted from `from`) starts.
func lineBlockOffsets(data []byte, from int) []int {
	var starts []int
	for p := from; p < len(data); p++ {
		if data[p] == '\n' {
			starts = append(starts, p+1)
		}
	}
	var out []int
	for _, b := range blockSizes {
		for k := 1; k*b-1 < len(starts); k++ {
			out = append(out, starts[k*b-1])
		}
	}
	return out
}

// shortNZ: a non-zero value with a short decimal representation (keeps ASCII files small).
func shortNZ(r *rand.Rand) float64 {
	v := float64(1+r.Intn(4000)) / 8
	if r.Intn(2) == 0 {
		v = -v
	}
	return v
}

func buildBigFile(seed uint64, bi int, tier string) *vfile {
	r := rand.New(rand.NewSource(int64(run.Mix(seed, 0xB16F11E5, uint64(bi)))))
	kind, variant := bi%bigKinds, bi/bigKinds
	extra := 1 + r.Intn(300)
	if variant > 0 {
		extra = 1 + r.Intn(70000)
	}
	var f *vfile
	switch kind {
	case 0:
		f = bigPLY(r, "binary_little_endian", 65536+extra, false)
	case 1:
		f = bigPLY(r, "binary_little_endian", 131073+extra, true)
	case 2:
		f = bigPLY(r, "binary_big_endian", 65536+extra, true)
	case 3:
		f = bigPLY(r, "binary_big_endian", 131073+extra, false)
	case 4:
		f = bigPLY(r, "ascii", 65536+extra%2000, false)
	case 5:
		f = bigPLY(r, "ascii", 131073+extra%2000, true)
	case 6:
		f = bigSTL(r, 65536+extra%9000, stlHeaderKinds[(int(seed)+variant*3+2)%len(stlHeaderKinds)])
	case 7:
		f = bigSPZ(r, seed, variant, 32768+extra%36000)
	case 8:
		f = bigSplat(r, 65536+extra%9000)
	default:
		f = bigPTS(r, 32768+extra%36000)
	}
	if f.Format != "spz" {
		f.SPZDeg = -1
	}
	return f
}

func bigPLY(r *rand.Rand, enc string, nv int, mesh bool) *vfile {
	s := &plySpec{enc: enc, nl: "\n", faceMode: "none", countType: "uchar", indexType: "int", indexName: "vertex_indices"}
	bucketName := map[string]string{"ascii": "ply-ascii", "binary_little_endian": "ply-le", "binary_big_endian": "ply-be"}[enc]
	s.props = []plyProp{{"x", "float"}, {"y", "float"}, {"z", "float"}}
	stride := 12
	tags := "xyz"
	switch r.Intn(3) {
	case 0:
		if enc != "ascii" {
			s.props = append(s.props, plyProp{"red", "uchar"}, plyProp{"green", "uchar"}, plyProp{"blue", "uchar"})
			stride += 3
			tags += "+rgb"
		}
	case 1:
		s.props = append(s.props, plyProp{"quality", "float"})
		stride += 4
		tags += "+q"
	}
	s.rows = make([][]float64, nv)
	flat := make([]float64, nv*len(s.props))
	for i := range s.rows {
		row := flat[i*len(s.props) : (i+1)*len(s.props)]
		for j, p := range s.props {
			if p.typ == "uchar" {
				row[j] = float64(1 + r.Intn(255))
			} else {
				row[j] = shortNZ(r)
			}
		}
		s.rows[i] = row
	}
	if mesh {
		s.faceMode = "faces"
		for i := 0; i < 24; i++ {
			s.faces = append(s.faces, plyFace{idx: faceIndices(r, nv, 3)})
		}
	}
	data, hl, vend := s.encode(r)
	f := &vfile{Format: bucketName, Kind: fmt.Sprintf("big/%s/%s", bucketName, map[bool]string{true: "mesh", false: "cloud"}[mesh]), Site: "ply.ReadMesh " + bucketName,
		Data: data, TextEnd: hl, ASCII: enc == "ascii", dec: decPLY, Records: nv + len(s.faces), WantPrims: nv, BodyStart: hl,
		Marks: []mark{{"header", 0}, {"vertex", hl}}, Desc: fmt.Sprintf("v%d/%s", nv, tags)}
	if mesh {
		f.WantPrims = len(s.faces)
		f.Marks = append(f.Marks, mark{"face", vend})
	}
	if enc == "ascii" {
		f.BlockOffsets = lineBlockOffsets(data, hl)
	} else {
		f.BlockOffsets = blockOffsets(hl, stride, nv)
	}
	return f
}

func bigSTL(r *rand.Rand, n int, hk string) *vfile {
	b := &bytes.Buffer{}
	hdr := stlHeader(r, hk)
	b.Write(hdr)
	binary.Write(b, binary.LittleEndian, uint32(n))
	rec := make([]byte, 50)
	for i := 0; i < n; i++ {
		for k := 0; k < 12; k++ {
			binary.LittleEndian.PutUint32(rec[k*4:], floatBits(shortNZ(r)))
		}
		binary.LittleEndian.PutUint16(rec[48:], uint16(1+r.Intn(65535)))
		b.Write(rec)
	}
	return &vfile{Format: "stl", Kind: "big/stl", Site: "stl.ReadMesh", Data: b.Bytes(), dec: decSTL, Records: n, WantPrims: n, BodyStart: 84,
		BlockOffsets: blockOffsets(84, 50, n), Marks: []mark{{"header", 0}, {"count", 80}, {"triangles", 84}}, Desc: fmt.Sprintf("t%d/%s", n, hk), STLHeader: hk}
}

func bigSPZ(r *rand.Rand, seed uint64, variant, n int) *vfile {
	deg := uint8(1 + (int(seed)+variant)%3)
	version := uint32(1 + (int(seed)/3+variant)%2)
	stored := (int(seed)+variant)%2 == 0
	lv, gz := gzip.BestSpeed, "deflated"
	if stored {
		lv, gz = gzip.NoCompression, "stored"
	}
	s := splatref.RandomSPZ(r, version, n, deg, uint8(r.Intn(24)), 0, true)
	s.NonZero(r)
	data := s.Gzip(lv)
	// offsets of the section boundaries and of record 16384·k inside each section, mapped
	// through the stored-block framing (5 bytes per 65535-byte block after the 10-byte gzip
	// header) — exact for level 0, close for incompressible deflated data
	comp := func(raw int) int { return 10 + raw + 5*(raw/65535+1) }
	posRec := 9
	if version == 1 {
		posRec = 6
	}
	var offs []int
	raw := 16
	for _, rec := range []int{posRec, 1, 3, 3, 3, splatref.SHDim(deg) * 3} {
		for _, b := range blockSizes {
			for k := 1; k*b <= n; k++ {
				offs = append(offs, comp(raw+k*b*rec))
			}
		}
		raw += n * rec
		offs = append(offs, comp(raw))
	}
	return &vfile{Format: "spz", Kind: fmt.Sprintf("big/spz/v%d", version), Site: "spz.Read", Data: data, dec: decSPZ, Records: n, WantPrims: n,
		BodyStart: 10, BlockOffsets: offs, SPZDeg: int(deg), SPZGz: gz,
		Marks: []mark{{"gzip-header", 0}, {"deflate", 10}, {"gzip-trailer", len(data) - 8}}, Desc: fmt.Sprintf("sh%d/n%d/%s", deg, n, gz)}
}

func bigSplat(r *rand.Rand, n int) *vfile {
	data := make([]byte, 0, 32*n)
	for i := 0; i < n; i++ {
		var s splatref.Splat
		for c := 0; c < 3; c++ {
			s.Pos[c], s.Scale[c], s.FDC[c] = shortNZ(r), r.Float64()*6-5, r.Float64()*3-1.5
		}
		s.Opacity = r.Float64()*8 - 4
		s.Rot = [4]float64{0.5, -0.5, 0.5, 0.5}
		s.Rot[r.Intn(4)] *= -1
		rec := splatref.EncodeSplat(s)
		data = append(data, rec[:]...)
	}
	return &vfile{Format: "splat", Kind: "big/splat", Site: "splat.Read", Data: data, dec: decSplat, Records: n, WantPrims: n, Splat: true,
		BlockOffsets: blockOffsets(0, 32, n), Marks: []mark{{"records", 0}}, Desc: fmt.Sprintf("n%d", n)}
}

func bigPTS(r *rand.Rand, n int) *vfile {
	cols := []int{3, 4, 7}[r.Intn(3)]
	b := &bytes.Buffer{}
	b.WriteString(strconv.Itoa(n))
	b.WriteString("\n")
	hl := b.Len()
	for i := 0; i < n; i++ {
		for c := 0; c < cols; c++ {
			if c > 0 {
				b.WriteByte(' ')
			}
			if c < 3 {
				b.WriteString(strconv.FormatFloat(shortNZ(r), 'f', -1, 64))
			} else {
				b.WriteString(strconv.Itoa(1 + r.Intn(255)))
			}
		}
		b.WriteByte('\n')
	}
	data := b.Bytes()
	return &vfile{Format: "pts", Kind: fmt.Sprintf("big/pts/%dcol", cols), Site: "pts.ReadPointCloud", Data: data, TextEnd: hl, ASCII: true, dec: decPTS,
		Records: n, WantPrims: n, BodyStart: hl, BlockOffsets: lineBlockOffsets(data, hl), Marks: []mark{{"count-line", 0}, {"records", hl}}, Desc: fmt.Sprintf("n%d", n)}
}

// sampledCuts draws n cut positions of a big file, interleaving the categories so that
// every category is present whatever n is: header / body start, the last 64 bytes, block
// boundaries ±1, 64 KiB multiples ±1, random positions. ASCII body positions are moved
// forward to the next position that is not strictly inside a token.
func (f *vfile) sampledCuts(r *rand.Rand, n int) (cuts []int, category map[int]string) {
	L := len(f.Data)
	adjust := func(p int) int {
		if p < 0 {
			p = 0
		}
		if p >= L {
			p = L - 1
		}
		for f.ASCII && p > f.TextEnd && p < L-1 && isTok(f.Data[p-1]) && isTok(f.Data[p]) {
			p++
		}
		if f.ASCII && p > f.TextEnd && isTok(f.Data[p-1]) && isTok(f.Data[p]) {
			p = f.TextEnd
		}
		return p
	}
	var cats [][]int
	names := []string{"header", "last-64-bytes", "block-boundary", "block-boundary", "64KiB-multiple", "random"}
	hdr := []int{0, 1, f.BodyStart - 1, f.BodyStart, f.BodyStart + 1, f.BodyStart / 2}
	var tail []int
	for _, k := range r.Perm(64) {
		tail = append(tail, L-1-k)
	}
	// block boundaries twice: once with the largest block sizes first (each is a threshold only big files
	// cross: every one of them must be cut exactly), once in random order
	var blocksBig, blocks []int
	seenB := map[int]bool{}
	for _, b := range f.BlockOffsets { // built largest block size first
		if !seenB[b] {
			seenB[b] = true
			blocksBig = append(blocksBig, b, b-1, b+1)
		}
	}
	for _, k := range r.Perm(len(f.BlockOffsets)) {
		b := f.BlockOffsets[k]
		blocks = append(blocks, b, b-1, b+1)
	}
	var kib []int
	for _, unit := range []int{1 << 20, 65536, 32768, 4096} {
		m := L / unit
		if m > 24 {
			m = 24
		}
		for _, k := range r.Perm(L / unit)[:m] {
			kib = append(kib, (k+1)*unit, (k+1)*unit-1, (k+1)*unit+1)
		}
	}
	var rnd []int
	for i := 0; i < n; i++ {
		rnd = append(rnd, r.Intn(L))
	}
	cats = [][]int{hdr, tail, blocksBig, blocks, kib, rnd}
	category = map[int]string{}
	for i := 0; len(category) < n; i++ {
		progressed := false
		for ci, cat := range cats {
			if i < len(cat) {
				progressed = true
				p := adjust(cat[i])
				if _, dup := category[p]; !dup && len(category) < n {
					category[p] = names[ci]
				}
			}
		}
		if !progressed {
			break
		}
	}
	for p := range category {
		cuts = append(cuts, p)
	}
	sort.Ints(cuts)
	return
}

func runBigChunk(c *run.Ctx) (res run.Result) {
	bi, ck := c.Case/bigChunks, c.Case%bigChunks
	f := buildBigFile(c.Seed, bi, c.Tier)
	s := &session{c: c, res: &res, f: f, fi: bi, pre: "large/", guarded: true}
	res.Sig = fmt.Sprintf("%s|%s|chunk%d/%d", f.Kind, f.Desc, ck, bigChunks)
	res.SetAdd("large/files", fmt.Sprintf("%d:%s:%s", bi, f.Kind, f.Desc))
	res.SetAdd("large/kinds", f.Kind)
	if f.STLHeader != "" {
		res.SetAdd("large/stl_header_kinds", f.STLHeader)
	}
	if ck == 0 {
		res.Count("large/file_bytes/"+f.Format, int64(len(f.Data)))
		res.Count("large/records/"+f.Format, int64(f.Records))
	}
	c.Note(fmt.Sprintf("big file %d %s %s len=%d chunk %d/%d: complete decode", bi, f.Kind, f.Desc, len(f.Data), ck, bigChunks))
	if !s.complete() {
		return
	}
	r := rand.New(rand.NewSource(int64(run.Mix(c.Seed, 0xC075, uint64(bi)))))
	cuts, cat := f.sampledCuts(r, bigCutsPer(c.Tier, f))
	outcomes := map[string]int{}
	decoded := 0
	for i, cut := range cuts {
		if i%bigChunks != ck {
			continue
		}
		kind := bigFileKinds[(i/bigChunks)%len(bigFileKinds)]
		if kind == "OneByteReader" && cut > 1<<20 {
			kind = "HalfReader"
		}
		res.Count("large/cuts/"+f.Format, 1)
		res.Count("large/cuts_by_category/"+cat[cut], 1)
		res.Count("large/cuts/"+f.Format+"/"+f.region(cut), 1)
		res.SetAdd("large/reader_kinds", kind)
		outcomes[s.judge(cut, s.truncated(f.Data[:cut], kind, cut), "outcome/", " read through "+kind)]++
		decoded++
		if s.abandoned {
			break
		}
	}
	res.Nontrivial = decoded > 0
	if ck == 0 || len(res.Violations) > 0 {
		res.Sample = map[string]any{"big_file": bi, "kind": f.Kind, "desc": f.Desc, "bytes": len(f.Data), "sampled_cuts": len(cuts),
			"chunk": fmt.Sprintf("%d/%d (every %dth sampled cut)", ck, bigChunks, bigChunks), "outcomes": outcomeText(outcomes)}
	}
	return
}
