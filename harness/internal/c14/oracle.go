package c14

import (
	"fmt"
	"strings"

	"github.com/EliCDavis/polyform/modeling"
	"polyverif/internal/ref"
)

// describe summarises a decoded mesh for a violation message: sizes and how many
// vertices are all-zero (placeholders).
func describe(s *ref.Snapshot) string {
	n, zero := 0, 0
	if p, ok := s.Data["3:"+modeling.PositionAttribute]; ok {
		n = len(p) / 3
		for i := 0; i < n; i++ {
			if p[i*3] == 0 && p[i*3+1] == 0 && p[i*3+2] == 0 {
				zero++
			}
		}
	}
	return fmt.Sprintf("{topology %v, %d indices, %d positions of which %d are (0,0,0), attributes %v}", s.Topology, len(s.Indices), n, zero, s.Names)
}

// splatPrefixDiff: got must consist of exactly the first k splats of full.
func splatPrefixDiff(got, full *ref.Snapshot, k int) string {
	if len(got.Indices) != k {
		return fmt.Sprintf("%d splats returned", len(got.Indices))
	}
	for i, v := range got.Indices {
		if v != i {
			return fmt.Sprintf("index[%d]=%d", i, v)
		}
	}
	if k == 0 { // an empty cloud may or may not list its (empty) attributes
		for _, name := range got.Names {
			if len(got.Data[name]) != 0 {
				return fmt.Sprintf("attribute %s has %d values in a cloud without splats", name, len(got.Data[name]))
			}
		}
		return ""
	}
	if strings.Join(got.Names, "|") != strings.Join(full.Names, "|") {
		return fmt.Sprintf("attributes %v, complete decode has %v", got.Names, full.Names)
	}
	for _, name := range full.Names {
		a := int(name[0] - '0')
		g, w := got.Data[name], full.Data[name]
		if len(g) != k*a {
			return fmt.Sprintf("attribute %s has %d entries", name, len(g)/a)
		}
		for i := range g {
			if !sameBits(g[i], w[i]) {
				return fmt.Sprintf("attribute %s of splat %d component %d is %v, the file holds %v", name, i/a, i%a, g[i], w[i])
			}
		}
	}
	return ""
}

// attrSubsetEqual: same topology and indices, and every attribute of got is an attribute
// of full with bit-identical values ("" when so).
func attrSubsetEqual(got, full *ref.Snapshot) string {
	if got.Topology != full.Topology || len(got.Indices) != len(full.Indices) {
		return "topology / index count differ"
	}
	for i := range got.Indices {
		if got.Indices[i] != full.Indices[i] {
			return "indices differ"
		}
	}
	if len(got.Names) == 0 {
		return "no attributes"
	}
	for _, name := range got.Names {
		w, ok := full.Data[name]
		g := got.Data[name]
		if !ok || len(w) != len(g) {
			return "attribute " + name + " not in the complete decode"
		}
		for i := range g {
			if !sameBits(g[i], w[i]) {
				return "attribute " + name + " differs"
			}
		}
	}
	return ""
}

func sameBits(a, b float64) bool {
	if a != a || b != b {
		return a != a && b != b
	}
	return a == b
}
