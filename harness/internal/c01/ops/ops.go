// Package ops is the operation table shared by the C01 (immutability) and C02
// (well-formedness closure) monitors: every public deriving method of
// modeling.Mesh, every meshops / gausops transformer (function, Transformer and
// node form), repeat.Mesh, a set of primitives as sources, and the four format
// writers plus the read-only spatial helpers as "observers".
//
// An Op draws its arguments from a seeded generator (so that the same call can
// be re-made with equal, freshly allocated arguments) and returns a Call whose
// Run executes the real polyform code. Slices handed to polyform are allocated
// per call and never touched again by the harness.
package ops

import (
	"bytes"
	"fmt"
	"image"
	"image/color"
	"math"
	"math/rand"
	"runtime"
	"time"

	"github.com/EliCDavis/polyform/formats/gltf"
	"github.com/EliCDavis/polyform/formats/obj"
	"github.com/EliCDavis/polyform/formats/ply"
	"github.com/EliCDavis/polyform/formats/stl"
	"github.com/EliCDavis/polyform/math/geometry"
	"github.com/EliCDavis/polyform/math/quaternion"
	"github.com/EliCDavis/polyform/math/trs"
	"github.com/EliCDavis/polyform/modeling"
	"github.com/EliCDavis/polyform/modeling/meshops"
	"github.com/EliCDavis/polyform/modeling/meshops/gausops"
	"github.com/EliCDavis/polyform/modeling/repeat"
	"github.com/EliCDavis/polyform/nodes"
	"github.com/EliCDavis/vector/vector2"
	"github.com/EliCDavis/vector/vector3"
	"github.com/EliCDavis/vector/vector4"
	"polyverif/internal/gen"
)

type Kind int

const (
	Derive  Kind = iota // returns one or more meshes derived from the receiver
	Observe             // reads the receiver only (exports, scans, spatial structures)
	Source              // ignores the receiver and produces a fresh mesh
)

func (k Kind) String() string { return [...]string{"derive", "observe", "source"}[k] }

// Env supplies what an operation needs besides its receiver.
type Env struct {
	// Other returns a second operand (Append, Copy*Attribute, CombineNode …).
	Other func(r *rand.Rand, like modeling.Mesh) modeling.Mesh
	// Valid: draw only arguments that meet the operation's precondition where that
	// is possible for the receiver (C01 does not generate unmet preconditions).
	Valid bool
	// Hostile: prefer arguments that do NOT meet the precondition (missing attribute
	// names, wrong pool sizes) — used by C02's edge-input sweep.
	Hostile bool
	// Large: the receiver has ≥ 10^4 vertices; arguments whose cost grows with the
	// number of neighbours inside a radius (implicit weld distance) stay small so that
	// every operation remains linear in the mesh size.
	Large bool
	// FanOut: drive the Parallel variants with more workers than elements and a slow callback.
	FanOut bool
	// SourceBase (≠ 0): sources draw their shape-determining ("base") parameters from this seed
	// instead of the call's generator, so that a history can build the same base shape again
	// with equal or different secondary parameters while earlier instances are live.
	SourceBase int64
}

func (e *Env) baseRng(r *rand.Rand) *rand.Rand {
	if e != nil && e.SourceBase != 0 {
		return rand.New(rand.NewSource(e.SourceBase))
	}
	return r
}

// Call is one fully parameterised invocation.
type Call struct {
	Desc string
	// Pre: the (documented or self-evident) precondition of the operation holds for
	// this receiver and these arguments, so a well-formed receiver must yield
	// well-formed results. When false the operation may report failure.
	Pre bool
	// ObserveAnyway: an observer (writer) that C01 also runs when Pre is false - it cannot take the process down
	// (no goroutines, panics are recoverable) and must leave live meshes alone whatever it makes of its input.
	ObserveAnyway bool
	// Intermediate: the operation is a documented building block whose result is
	// completed by a following call (ClearAttributeData); its bare result is not
	// claimed to be well-formed.
	Intermediate bool
	// Async: the operation fans work out to goroutines (Parallel variants); a caller that
	// wants to see late writes re-reads the result after a short wait.
	Async bool
	// Evidence: a short tag the monitors count (which hazardous shape this call has).
	Evidence string
	// BaseKey (sources): the base parameters this instance was built with.
	BaseKey string
	Run     func() ([]modeling.Mesh, error)
}

type Op struct {
	Name  string
	Group string // mesh | meshops | gausops | repeat | node | export | observe | source
	Kind  Kind
	// Topo restricts the receivers the monitors offer to this op (nil = any). It is
	// a generation hint (documented domain), not a verdict.
	Topo func(t modeling.Topology) bool
	// StrictTopo: outside Topo the operation makes no claim at all (attribute filters
	// work corner-wise and are only meaningful on point clouds); the monitors never
	// apply it there.
	StrictTopo bool
	Make       func(r *rand.Rand, m *modeling.Mesh, e *Env) Call
}

// ---------------------------------------------------------------------------
// helpers

func one(m modeling.Mesh) ([]modeling.Mesh, error) { return []modeling.Mesh{m}, nil }

func oneE(m modeling.Mesh, err error) ([]modeling.Mesh, error) {
	if err != nil {
		return nil, err
	}
	return []modeling.Mesh{m}, nil
}

// AttrInfo: common attribute length of a well-formed mesh and whether it has any attribute name.
func AttrInfo(m modeling.Mesh) (L int, has bool) {
	for _, a := range m.Float3Attributes() {
		return m.Float3Attribute(a).Len(), true
	}
	for _, a := range m.Float2Attributes() {
		return m.Float2Attribute(a).Len(), true
	}
	for _, a := range m.Float1Attributes() {
		return m.Float1Attribute(a).Len(), true
	}
	for _, a := range m.Float4Attributes() {
		return m.Float4Attribute(a).Len(), true
	}
	return 0, false
}

func isTri(t modeling.Topology) bool   { return t == modeling.TriangleTopology }
func isPoint(t modeling.Topology) bool { return t == modeling.PointTopology }

func scalar(r *rand.Rand) float64 {
	switch r.Intn(6) {
	case 0:
		return float64(r.Intn(7) - 3)
	case 1:
		return 0
	case 2:
		return (r.Float64() - 0.5) * 1e-3
	case 3:
		return (r.Float64() - 0.5) * 2e3
	}
	return r.Float64()*4 - 2
}

func vec3(r *rand.Rand) vector3.Float64 { return vector3.New(scalar(r), scalar(r), scalar(r)) }
func vec2(r *rand.Rand) vector2.Float64 { return vector2.New(scalar(r), scalar(r)) }
func vec4(r *rand.Rand) vector4.Float64 {
	return vector4.New(scalar(r), scalar(r), scalar(r), scalar(r))
}

func nonZero3(r *rand.Rand) vector3.Float64 {
	for {
		v := vector3.New(r.NormFloat64(), r.NormFloat64(), r.NormFloat64())
		if v.Length() > 1e-3 {
			return v
		}
	}
}

func quat(r *rand.Rand) quaternion.Quaternion {
	if r.Intn(8) == 0 {
		return quaternion.New(vector3.Zero[float64](), 1)
	}
	return quaternion.FromTheta(r.Float64()*2*math.Pi, nonZero3(r).Normalized())
}

// scale3 draws a scale vector; one in three is uniform (the same factor on all axes, including
// 1, -1, 0, 2, .5): transform code commonly special-cases uniform, identity and rotation-free transforms.
func scale3(r *rand.Rand) vector3.Float64 {
	switch r.Intn(6) {
	case 0:
		return vector3.Fill([]float64{1, -1, 0, 2, .5, 1e-3, 1e3}[r.Intn(7)])
	case 1:
		return vector3.Fill(scalar(r))
	}
	return vec3(r)
}

func randTRS(r *rand.Rand) trs.TRS {
	identity := quaternion.New(vector3.Zero[float64](), 1)
	switch r.Intn(8) {
	case 0:
		return trs.Position(vec3(r))
	case 1:
		return trs.Rotation(quat(r))
	case 2:
		return trs.Scale(scale3(r))
	case 3: // rotation-free
		return trs.New(vec3(r), identity, scale3(r))
	case 4: // identity
		return trs.New(vector3.Zero[float64](), identity, vector3.Fill(1.))
	case 5:
		return trs.New(vec3(r), quat(r), scale3(r))
	}
	return trs.New(vec3(r), quat(r), vec3(r))
}

// pick returns an existing name (usually; always when e.Valid; half of the time
// when e.Hostile) or a name from the palette that may be missing.
func pick(r *rand.Rand, existing []string, palette []string, e *Env) (string, bool) {
	missOneIn := 8
	if e != nil && e.Hostile {
		missOneIn = 2
	}
	if len(existing) > 0 && ((e != nil && e.Valid) || r.Intn(missOneIn) != 0) {
		return existing[r.Intn(len(existing))], true
	}
	n := palette[r.Intn(len(palette))]
	for _, x := range existing {
		if x == n {
			return n, true
		}
	}
	return n, false
}

var (
	pal1 = []string{"userV1", modeling.OpacityAttribute, "w"}
	pal2 = []string{modeling.TexCoordAttribute, "userV2"}
	pal3 = []string{modeling.PositionAttribute, modeling.NormalAttribute, modeling.ColorAttribute, "userV3", modeling.ScaleAttribute, modeling.FDCAttribute}
	pal4 = []string{"userV4", modeling.RotationAttribute}
)

func has(names []string, n string) bool {
	for _, x := range names {
		if x == n {
			return true
		}
	}
	return false
}

func data1(r *rand.Rand, n int) []float64 {
	out := make([]float64, n)
	for i := range out {
		out[i] = scalar(r)
	}
	return out
}
func data2(r *rand.Rand, n int) []vector2.Float64 {
	out := make([]vector2.Float64, n)
	for i := range out {
		out[i] = vec2(r)
	}
	return out
}
func data3(r *rand.Rand, n int) []vector3.Float64 {
	out := make([]vector3.Float64, n)
	for i := range out {
		out[i] = vec3(r)
	}
	return out
}
func data4(r *rand.Rand, n int) []vector4.Float64 {
	out := make([]vector4.Float64, n)
	for i := range out {
		out[i] = vec4(r)
	}
	return out
}

// newLen: the length new attribute data must have to keep m well-formed.
func newLen(r *rand.Rand, m modeling.Mesh) int {
	L, hasAttr := AttrInfo(m)
	if hasAttr {
		return L
	}
	if m.Indices().Len() > 0 { // ill-formed receiver (indices without vertices): cover the indices
		mx := 0
		for i := 0; i < m.Indices().Len(); i++ {
			if v := m.Indices().At(i); v > mx {
				mx = v
			}
		}
		return mx + 1
	}
	return r.Intn(6)
}

// ValidIndices draws an index list that keeps a mesh with L vertices well-formed.
func ValidIndices(r *rand.Rand, topo modeling.Topology, L int) []int {
	if L == 0 {
		return []int{}
	}
	isz := topo.IndexSize()
	np := r.Intn(2*L/isz + 3)
	n := np * isz
	if topo == modeling.LineStripTopology || topo == modeling.LineLoopTopology {
		n = r.Intn(2*L + 2)
		if n == 1 {
			n = 2
		}
	}
	idx := make([]int, n)
	switch r.Intn(3) {
	case 0:
		for i := range idx {
			idx[i] = i % L
		}
	case 1:
		lim := 1 + r.Intn(L)
		for i := range idx {
			idx[i] = r.Intn(lim)
		}
	default:
		for i := range idx {
			idx[i] = r.Intn(L)
		}
	}
	return idx
}

// MaterialsConsistent: the material ranges (if any) cover the primitives and carry no nil pointer.
func MaterialsConsistent(m modeling.Mesh) bool {
	mats := m.Materials()
	sum := 0
	for _, mm := range mats {
		if mm.Material == nil || mm.PrimitiveCount < 0 {
			return false
		}
		sum += mm.PrimitiveCount
	}
	return sum >= primCount(m)
}

func primCount(m modeling.Mesh) int {
	n := m.Indices().Len()
	switch m.Topology() {
	case modeling.TriangleTopology:
		return n / 3
	case modeling.QuadTopology:
		return n / 4
	case modeling.LineTopology, modeling.LineStripTopology:
		if n == 0 {
			return 0
		}
		return n - 1
	}
	return n
}

var lut image.Image = func() image.Image {
	img := image.NewRGBA(image.Rect(0, 0, 256, 16))
	for y := 0; y < 16; y++ {
		for x := 0; x < 256; x++ {
			img.Set(x, y, color.RGBA{R: uint8(x), G: uint8(y * 16), B: uint8((x / 16) * 17), A: 255})
		}
	}
	return img
}()

func out[T any](v T) nodes.NodeOutput[T] { return nodes.Value(v).Out() }

// viaTransformer applies t either through Transformer.Transform (error form) or
// through Mesh.Transform (which panics with the error).
func viaTransformer(r *rand.Rand, m modeling.Mesh, t modeling.Transformer) func() ([]modeling.Mesh, error) {
	if r.Intn(2) == 0 {
		return func() ([]modeling.Mesh, error) { return oneE(t.Transform(m)) }
	}
	return func() ([]modeling.Mesh, error) { return one(m.Transform(t)) }
}

// ---------------------------------------------------------------------------
// the table

// All returns the complete table. The order is stable.
func All() []Op {
	var t []Op
	add := func(o Op) { t = append(t, o) }

	// ---- Mesh methods -----------------------------------------------------
	add(Op{Name: "Mesh.Append", Group: "mesh", Kind: Derive, Make: func(r *rand.Rand, m *modeling.Mesh, e *Env) Call {
		o := e.Other(r, *m)
		rec := *m
		return Call{Desc: fmt.Sprintf("Append(other %s v%d i%d)", o.Topology(), attrLenAny(o), o.Indices().Len()),
			Pre: o.Topology() == rec.Topology(),
			Run: func() ([]modeling.Mesh, error) { return one(rec.Append(o)) }}
	}})
	add(Op{Name: "Mesh.Append(self)", Group: "mesh", Kind: Derive, Make: func(r *rand.Rand, m *modeling.Mesh, e *Env) Call {
		rec := *m
		return Call{Desc: "Append(self)", Pre: true, Run: func() ([]modeling.Mesh, error) { return one(rec.Append(rec)) }}
	}})
	add(Op{Name: "Mesh.Append(into other)", Group: "mesh", Kind: Derive, Make: func(r *rand.Rand, m *modeling.Mesh, e *Env) Call {
		o := e.Other(r, *m)
		rec := *m
		return Call{Desc: "other.Append(m)", Pre: o.Topology() == rec.Topology(),
			Run: func() ([]modeling.Mesh, error) { return one(o.Append(rec)) }}
	}})
	add(Op{Name: "Mesh.Translate", Group: "mesh", Kind: Derive, Make: func(r *rand.Rand, m *modeling.Mesh, e *Env) Call {
		rec, v := *m, vec3(r)
		return Call{Desc: fmt.Sprint("Translate", v.ToArr()), Pre: rec.HasFloat3Attribute(modeling.PositionAttribute),
			Run: func() ([]modeling.Mesh, error) { return one(rec.Translate(v)) }}
	}})
	add(Op{Name: "Mesh.Scale", Group: "mesh", Kind: Derive, Make: func(r *rand.Rand, m *modeling.Mesh, e *Env) Call {
		rec, v := *m, scale3(r)
		return Call{Desc: fmt.Sprint("Scale", v.ToArr()), Pre: rec.HasFloat3Attribute(modeling.PositionAttribute),
			Run: func() ([]modeling.Mesh, error) { return one(rec.Scale(v)) }}
	}})
	add(Op{Name: "Mesh.Rotate", Group: "mesh", Kind: Derive, Make: func(r *rand.Rand, m *modeling.Mesh, e *Env) Call {
		rec, q := *m, quat(r)
		return Call{Desc: "Rotate", Pre: rec.HasFloat3Attribute(modeling.PositionAttribute),
			Run: func() ([]modeling.Mesh, error) { return one(rec.Rotate(q)) }}
	}})
	add(Op{Name: "Mesh.ApplyTRS", Group: "mesh", Kind: Derive, Make: func(r *rand.Rand, m *modeling.Mesh, e *Env) Call {
		rec, t := *m, randTRS(r)
		return Call{Desc: "ApplyTRS", Pre: rec.HasFloat3Attribute(modeling.PositionAttribute),
			Run: func() ([]modeling.Mesh, error) { return one(rec.ApplyTRS(t)) }}
	}})

	// Set / delete one attribute
	add(Op{Name: "Mesh.SetFloat1Attribute", Group: "mesh", Kind: Derive, Make: func(r *rand.Rand, m *modeling.Mesh, e *Env) Call {
		rec := *m
		name, _ := pick(r, rec.Float1Attributes(), pal1, nil)
		n := newLen(r, rec)
		if r.Intn(6) == 0 && canDelete(rec, 1, name) {
			n = 0 // documented: empty data removes the attribute
		}
		d := data1(r, n)
		return Call{Desc: fmt.Sprintf("SetFloat1Attribute(%s,%d)", name, n), Pre: true,
			Run: func() ([]modeling.Mesh, error) { return one(rec.SetFloat1Attribute(name, d)) }}
	}})
	add(Op{Name: "Mesh.SetFloat2Attribute", Group: "mesh", Kind: Derive, Make: func(r *rand.Rand, m *modeling.Mesh, e *Env) Call {
		rec := *m
		name, _ := pick(r, rec.Float2Attributes(), pal2, nil)
		n := newLen(r, rec)
		if r.Intn(6) == 0 && canDelete(rec, 2, name) {
			n = 0 // documented: empty data removes the attribute
		}
		d := data2(r, n)
		return Call{Desc: fmt.Sprintf("SetFloat2Attribute(%s,%d)", name, n), Pre: true,
			Run: func() ([]modeling.Mesh, error) { return one(rec.SetFloat2Attribute(name, d)) }}
	}})
	add(Op{Name: "Mesh.SetFloat3Attribute", Group: "mesh", Kind: Derive, Make: func(r *rand.Rand, m *modeling.Mesh, e *Env) Call {
		rec := *m
		name, _ := pick(r, rec.Float3Attributes(), pal3, nil)
		n := newLen(r, rec)
		if r.Intn(6) == 0 && canDelete(rec, 3, name) {
			n = 0 // documented: empty data removes the attribute
		}
		d := data3(r, n)
		return Call{Desc: fmt.Sprintf("SetFloat3Attribute(%s,%d)", name, n), Pre: true,
			Run: func() ([]modeling.Mesh, error) { return one(rec.SetFloat3Attribute(name, d)) }}
	}})
	add(Op{Name: "Mesh.SetFloat4Attribute", Group: "mesh", Kind: Derive, Make: func(r *rand.Rand, m *modeling.Mesh, e *Env) Call {
		rec := *m
		name, _ := pick(r, rec.Float4Attributes(), pal4, nil)
		n := newLen(r, rec)
		if r.Intn(6) == 0 && canDelete(rec, 4, name) {
			n = 0 // documented: empty data removes the attribute
		}
		d := data4(r, n)
		return Call{Desc: fmt.Sprintf("SetFloat4Attribute(%s,%d)", name, n), Pre: true,
			Run: func() ([]modeling.Mesh, error) { return one(rec.SetFloat4Attribute(name, d)) }}
	}})

	// Replace all attributes of one arity. To stay well-formed the new arrays have the
	// common length; if the replaced arity was the only one carrying vertices the
	// length is still the one the indices need.
	add(Op{Name: "Mesh.SetFloat1Data", Group: "mesh", Kind: Derive, Make: func(r *rand.Rand, m *modeling.Mesh, e *Env) Call {
		rec := *m
		n := newLen(r, rec)
		d := map[string][]float64{}
		k := r.Intn(3)
		if onlyArity(rec, 1) && rec.Indices().Len() > 0 && k == 0 {
			k = 1
		}
		for i := 0; i < k; i++ {
			d[pal1[r.Intn(len(pal1))]] = data1(r, n)
		}
		return Call{Desc: fmt.Sprintf("SetFloat1Data(%d×%d)", len(d), n), Pre: true,
			Run: func() ([]modeling.Mesh, error) { return one(rec.SetFloat1Data(d)) }}
	}})
	add(Op{Name: "Mesh.SetFloat2Data", Group: "mesh", Kind: Derive, Make: func(r *rand.Rand, m *modeling.Mesh, e *Env) Call {
		rec := *m
		n := newLen(r, rec)
		d := map[string][]vector2.Float64{}
		k := r.Intn(3)
		if onlyArity(rec, 2) && rec.Indices().Len() > 0 && k == 0 {
			k = 1
		}
		for i := 0; i < k; i++ {
			d[pal2[r.Intn(len(pal2))]] = data2(r, n)
		}
		return Call{Desc: fmt.Sprintf("SetFloat2Data(%d×%d)", len(d), n), Pre: true,
			Run: func() ([]modeling.Mesh, error) { return one(rec.SetFloat2Data(d)) }}
	}})
	add(Op{Name: "Mesh.SetFloat3Data", Group: "mesh", Kind: Derive, Make: func(r *rand.Rand, m *modeling.Mesh, e *Env) Call {
		rec := *m
		n := newLen(r, rec)
		d := map[string][]vector3.Float64{}
		k := r.Intn(4)
		if onlyArity(rec, 3) && rec.Indices().Len() > 0 && k == 0 {
			k = 1
		}
		for i := 0; i < k; i++ {
			d[pal3[r.Intn(len(pal3))]] = data3(r, n)
		}
		return Call{Desc: fmt.Sprintf("SetFloat3Data(%d×%d)", len(d), n), Pre: true,
			Run: func() ([]modeling.Mesh, error) { return one(rec.SetFloat3Data(d)) }}
	}})
	add(Op{Name: "Mesh.SetFloat4Data", Group: "mesh", Kind: Derive, Make: func(r *rand.Rand, m *modeling.Mesh, e *Env) Call {
		rec := *m
		n := newLen(r, rec)
		d := map[string][]vector4.Float64{}
		k := r.Intn(3)
		if onlyArity(rec, 4) && rec.Indices().Len() > 0 && k == 0 {
			k = 1
		}
		for i := 0; i < k; i++ {
			d[pal4[r.Intn(len(pal4))]] = data4(r, n)
		}
		return Call{Desc: fmt.Sprintf("SetFloat4Data(%d×%d)", len(d), n), Pre: true,
			Run: func() ([]modeling.Mesh, error) { return one(rec.SetFloat4Data(d)) }}
	}})

	// Modify (sequential, NumCPU parallel, explicit pool size)
	add(Op{Name: "Mesh.ModifyFloat1Attribute*", Group: "mesh", Kind: Derive, Make: func(r *rand.Rand, m *modeling.Mesh, e *Env) Call {
		rec := *m
		name, ok := pick(r, rec.Float1Attributes(), pal1, e)
		k, variant := scalar(r), r.Intn(3)
		pool := poolSize(r, e)
		slow := slowCallback(r, rec, variant)
		if e.FanOut {
			variant, pool = 1+r.Intn(2), []int{8, 16, runtime.NumCPU()}[r.Intn(3)]
			slow = time.Duration(100+r.Intn(400)) * time.Microsecond
		}
		f := func(i int, v float64) float64 {
			dawdle(slow)
			return v*k + float64(i)
		}
		return Call{Desc: fmt.Sprintf("ModifyFloat1Attribute/%d(%s,pool %d,slow %v)", variant, name, pool, slow), Async: variant != 0, Evidence: fanOutShape(rec, variant, pool, slow), Pre: ok && (variant != 2 || pool >= 1),
			Run: func() ([]modeling.Mesh, error) {
				switch variant {
				case 0:
					return one(rec.ModifyFloat1Attribute(name, f))
				case 1:
					return one(rec.ModifyFloat1AttributeParallel(name, f))
				}
				return one(rec.ModifyFloat1AttributeParallelWithPoolSize(name, pool, f))
			}}
	}})
	add(Op{Name: "Mesh.ModifyFloat2Attribute*", Group: "mesh", Kind: Derive, Make: func(r *rand.Rand, m *modeling.Mesh, e *Env) Call {
		rec := *m
		name, ok := pick(r, rec.Float2Attributes(), pal2, e)
		k, variant := scalar(r), r.Intn(3)
		pool := poolSize(r, e)
		slow := slowCallback(r, rec, variant)
		if e.FanOut {
			variant, pool = 1+r.Intn(2), []int{8, 16, runtime.NumCPU()}[r.Intn(3)]
			slow = time.Duration(100+r.Intn(400)) * time.Microsecond
		}
		f := func(i int, v vector2.Float64) vector2.Float64 {
			dawdle(slow)
			return v.Scale(k).Add(vector2.New(float64(i), 1))
		}
		return Call{Desc: fmt.Sprintf("ModifyFloat2Attribute/%d(%s,pool %d,slow %v)", variant, name, pool, slow), Async: variant != 0, Evidence: fanOutShape(rec, variant, pool, slow), Pre: ok && (variant != 2 || pool >= 1),
			Run: func() ([]modeling.Mesh, error) {
				switch variant {
				case 0:
					return one(rec.ModifyFloat2Attribute(name, f))
				case 1:
					return one(rec.ModifyFloat2AttributeParallel(name, f))
				}
				return one(rec.ModifyFloat2AttributeParallelWithPoolSize(name, pool, f))
			}}
	}})
	add(Op{Name: "Mesh.ModifyFloat3Attribute*", Group: "mesh", Kind: Derive, Make: func(r *rand.Rand, m *modeling.Mesh, e *Env) Call {
		rec := *m
		name, ok := pick(r, rec.Float3Attributes(), pal3, e)
		k, variant := scalar(r), r.Intn(3)
		pool := poolSize(r, e)
		slow := slowCallback(r, rec, variant)
		if e.FanOut {
			variant, pool = 1+r.Intn(2), []int{8, 16, runtime.NumCPU()}[r.Intn(3)]
			slow = time.Duration(100+r.Intn(400)) * time.Microsecond
		}
		f := func(i int, v vector3.Float64) vector3.Float64 {
			dawdle(slow)
			return v.Scale(k).Add(vector3.New(float64(i), 1, 2))
		}
		return Call{Desc: fmt.Sprintf("ModifyFloat3Attribute/%d(%s,pool %d,slow %v)", variant, name, pool, slow), Async: variant != 0, Evidence: fanOutShape(rec, variant, pool, slow), Pre: ok && (variant != 2 || pool >= 1),
			Run: func() ([]modeling.Mesh, error) {
				switch variant {
				case 0:
					return one(rec.ModifyFloat3Attribute(name, f))
				case 1:
					return one(rec.ModifyFloat3AttributeParallel(name, f))
				}
				return one(rec.ModifyFloat3AttributeParallelWithPoolSize(name, pool, f))
			}}
	}})

	// Copy an attribute from a mesh with the same number of vertices (a sibling
	// derivation of the receiver, or the receiver itself).
	add(Op{Name: "Mesh.CopyFloat*Attribute", Group: "mesh", Kind: Derive, Make: func(r *rand.Rand, m *modeling.Mesh, e *Env) Call {
		rec := *m
		L, _ := AttrInfo(rec)
		src, ar, name := rec, 1, "absent"
		for try := 0; try < 8; try++ {
			s := rec
			if o := e.Other(r, rec); attrLenAny(o) == L && r.Intn(2) == 0 {
				s = o
			} else if rec.HasFloat3Attribute(modeling.PositionAttribute) && r.Intn(2) == 0 {
				s = rec.Translate(vec3(r)).SetFloat1Attribute("w", data1(r, L))
			}
			a := 1 + r.Intn(4)
			var n string
			var found bool
			switch a {
			case 1:
				n, found = pick(r, s.Float1Attributes(), pal1, nil)
			case 2:
				n, found = pick(r, s.Float2Attributes(), pal2, nil)
			case 3:
				n, found = pick(r, s.Float3Attributes(), pal3, nil)
			case 4:
				n, found = pick(r, s.Float4Attributes(), pal4, nil)
			}
			// copying an attribute the source lacks removes it from the receiver
			if found || canDelete(rec, a, n) {
				src, ar, name = s, a, n
				break
			}
		}
		return Call{Desc: fmt.Sprintf("CopyFloat%dAttribute(%s)", ar, name), Pre: true,
			Run: func() ([]modeling.Mesh, error) {
				switch ar {
				case 1:
					return one(rec.CopyFloat1Attribute(src, name))
				case 2:
					return one(rec.CopyFloat2Attribute(src, name))
				case 3:
					return one(rec.CopyFloat3Attribute(src, name))
				}
				return one(rec.CopyFloat4Attribute(src, name))
			}}
	}})

	add(Op{Name: "Mesh.SetIndices", Group: "mesh", Kind: Derive, Make: func(r *rand.Rand, m *modeling.Mesh, e *Env) Call {
		rec := *m
		L, _ := AttrInfo(rec)
		idx := ValidIndices(r, rec.Topology(), L)
		return Call{Desc: fmt.Sprintf("SetIndices(%d)", len(idx)), Pre: true,
			Run: func() ([]modeling.Mesh, error) { return one(rec.SetIndices(idx)) }}
	}})
	add(Op{Name: "Mesh.SetMaterial", Group: "mesh", Kind: Derive, Make: func(r *rand.Rand, m *modeling.Mesh, e *Env) Call {
		rec := *m
		mat := modeling.Material{Name: fmt.Sprintf("single%d", r.Intn(3)), OpticalDensity: 1, Transparency: r.Float64()}
		return Call{Desc: "SetMaterial", Pre: true, Run: func() ([]modeling.Mesh, error) { return one(rec.SetMaterial(mat)) }}
	}})
	add(Op{Name: "Mesh.SetMaterials", Group: "mesh", Kind: Derive, Make: func(r *rand.Rand, m *modeling.Mesh, e *Env) Call {
		rec := *m
		var mats []modeling.MeshMaterial
		switch r.Intn(6) {
		case 0:
			mats = nil
		case 1:
			mats = []modeling.MeshMaterial{}
		default:
			mats = gen.Materials(r, primCount(rec))
		}
		return Call{Desc: fmt.Sprintf("SetMaterials(%d)", len(mats)), Pre: true,
			Run: func() ([]modeling.Mesh, error) { return one(rec.SetMaterials(mats)) }}
	}})
	add(Op{Name: "Mesh.ToPointCloud", Group: "mesh", Kind: Derive, Make: func(r *rand.Rand, m *modeling.Mesh, e *Env) Call {
		rec := *m
		return Call{Desc: "ToPointCloud", Pre: true, Run: func() ([]modeling.Mesh, error) { return one(rec.ToPointCloud()) }}
	}})
	add(Op{Name: "Mesh.WeldByFloat3Attribute", Group: "mesh", Kind: Derive, Topo: isTri, Make: func(r *rand.Rand, m *modeling.Mesh, e *Env) Call {
		rec := *m
		name, ok := pick(r, rec.Float3Attributes(), pal3, e)
		dec := r.Intn(5)
		return Call{Desc: fmt.Sprintf("WeldByFloat3Attribute(%s,%d)", name, dec), Pre: ok && isTri(rec.Topology()),
			Run: func() ([]modeling.Mesh, error) { return one(rec.WeldByFloat3Attribute(name, dec)) }}
	}})
	add(Op{Name: "Mesh.SetFloat*Attribute(non-finite values)", Group: "special", Kind: Derive, Make: func(r *rand.Rand, m *modeling.Mesh, e *Env) Call {
		rec := *m
		// copy one existing attribute (read through its iterator), overwrite a few components with
		// NaN (several payloads), ±Inf and -0, and set it back: the value class that a query or an
		// operation might "clean up" in place
		var cands []string
		for _, a := range rec.Float3Attributes() {
			cands = append(cands, "3:"+a)
		}
		for _, a := range rec.Float1Attributes() {
			cands = append(cands, "1:"+a)
		}
		for _, a := range rec.Float2Attributes() {
			cands = append(cands, "2:"+a)
		}
		if len(cands) == 0 {
			return Call{Desc: "no attribute to poison", Pre: false, Run: func() ([]modeling.Mesh, error) { return one(rec) }}
		}
		c := cands[r.Intn(len(cands))]
		name := c[2:]
		var run func() ([]modeling.Mesh, error)
		switch c[0] {
		case '3':
			it := rec.Float3Attribute(name)
			d := make([]vector3.Float64, it.Len())
			for i := range d {
				v := it.At(i)
				if r.Intn(4) == 0 || i == 0 {
					x := [3]float64{v.X(), v.Y(), v.Z()}
					x[r.Intn(3)] = special(r)
					v = vector3.New(x[0], x[1], x[2])
				}
				d[i] = v
			}
			run = func() ([]modeling.Mesh, error) { return one(rec.SetFloat3Attribute(name, d)) }
		case '2':
			it := rec.Float2Attribute(name)
			d := make([]vector2.Float64, it.Len())
			for i := range d {
				v := it.At(i)
				if r.Intn(4) == 0 || i == 0 {
					v = vector2.New(special(r), v.Y())
				}
				d[i] = v
			}
			run = func() ([]modeling.Mesh, error) { return one(rec.SetFloat2Attribute(name, d)) }
		default:
			it := rec.Float1Attribute(name)
			d := make([]float64, it.Len())
			for i := range d {
				d[i] = it.At(i)
				if r.Intn(4) == 0 || i == 0 {
					d[i] = special(r)
				}
			}
			run = func() ([]modeling.Mesh, error) { return one(rec.SetFloat1Attribute(name, d)) }
		}
		return Call{Desc: "poison " + c, Pre: true, Run: run}
	}})
	add(Op{Name: "Mesh.ClearAttributeData", Group: "mesh", Kind: Derive, Make: func(r *rand.Rand, m *modeling.Mesh, e *Env) Call {
		rec := *m
		return Call{Desc: "ClearAttributeData", Pre: true, Intermediate: true,
			Run: func() ([]modeling.Mesh, error) { return one(rec.ClearAttributeData()) }}
	}})
	add(Op{Name: "Mesh.ClearAttributeData+Set", Group: "mesh", Kind: Derive, Make: func(r *rand.Rand, m *modeling.Mesh, e *Env) Call {
		rec := *m
		n := newLen(r, rec)
		d3, d1 := data3(r, n), data1(r, n)
		return Call{Desc: fmt.Sprintf("ClearAttributeData().SetFloat3Attribute(Position,%d).SetFloat1Attribute(w)", n), Pre: true,
			Run: func() ([]modeling.Mesh, error) {
				return one(rec.ClearAttributeData().SetFloat3Attribute(modeling.PositionAttribute, d3).SetFloat1Attribute("w", d1))
			}}
	}})
	add(Op{Name: "Mesh.Transform(chain)", Group: "mesh", Kind: Derive, Make: func(r *rand.Rand, m *modeling.Mesh, e *Env) Call {
		rec := *m
		var ts []modeling.Transformer
		pre := true
		cur := struct{ pos, nor, tri bool }{rec.HasFloat3Attribute(modeling.PositionAttribute), rec.HasFloat3Attribute(modeling.NormalAttribute), isTri(rec.Topology())}
		desc := "Transform("
		for i, n := 0, r.Intn(4); i < n; i++ {
			switch r.Intn(6) {
			case 0:
				ts = append(ts, meshops.TranslateAttribute3DTransformer{Amount: vec3(r)})
				pre = pre && cur.pos
				desc += "Translate,"
			case 1:
				ts = append(ts, meshops.UnweldTransformer{})
				desc += "Unweld,"
			case 2:
				ts = append(ts, meshops.SmoothNormalsTransformer{})
				pre = pre && cur.pos && cur.tri
				cur.nor = cur.nor || (cur.pos && cur.tri)
				desc += "SmoothNormals,"
			case 3:
				ts = append(ts, meshops.RemovedUnreferencedVerticesTransformer{})
				desc += "RemoveUnreferenced,"
			case 4:
				ts = append(ts, meshops.CustomTransformer{Func: func(x modeling.Mesh) (modeling.Mesh, error) { return x, nil }})
				desc += "Custom,"
			case 5:
				ts = append(ts, meshops.RotateAttribute3DTransformer{Attribute: modeling.NormalAttribute, Amount: quat(r)})
				pre = pre && cur.nor
				desc += "RotateNormal,"
			}
		}
		return Call{Desc: desc + ")", Pre: pre, Run: func() ([]modeling.Mesh, error) { return one(rec.Transform(ts...)) }}
	}})

	// ---- meshops ------------------------------------------------------------
	add(Op{Name: "meshops.CenterFloat3Attribute", Group: "meshops", Kind: Derive, Make: func(r *rand.Rand, m *modeling.Mesh, e *Env) Call {
		rec := *m
		name, ok := pick(r, rec.Float3Attributes(), pal3, e)
		if r.Intn(2) == 0 {
			return Call{Desc: "CenterFloat3Attribute(" + name + ")", Pre: ok, Run: func() ([]modeling.Mesh, error) { return one(meshops.CenterFloat3Attribute(rec, name)) }}
		}
		return Call{Desc: "CenterAttribute3DTransformer(" + name + ")", Pre: ok, Run: viaTransformer(r, rec, meshops.CenterAttribute3DTransformer{Attribute: name})}
	}})
	add(Op{Name: "meshops.CropFloat3Attribute", Group: "meshops", Kind: Derive, Topo: isPoint, Make: func(r *rand.Rand, m *modeling.Mesh, e *Env) Call {
		rec := *m
		name, ok := pick(r, rec.Float3Attributes(), pal3, e)
		box := geometry.NewAABB(vec3(r), vector3.New(math.Abs(scalar(r))*3, math.Abs(scalar(r))*3, math.Abs(scalar(r))*3))
		pre := ok && isPoint(rec.Topology())
		switch r.Intn(3) {
		case 0:
			return Call{Desc: "CropFloat3Attribute(" + name + ")", Pre: pre, Run: func() ([]modeling.Mesh, error) { return one(meshops.CropFloat3Attribute(rec, name, box)) }}
		case 1:
			return Call{Desc: "CropAttribute3DTransformer(" + name + ")", Pre: pre, Run: viaTransformer(r, rec, meshops.CropAttribute3DTransformer{Attribute: name, BoundingBox: box})}
		}
		return Call{Desc: "CropAttribute3DNode(" + name + ")", Pre: pre, Run: func() ([]modeling.Mesh, error) {
			return oneE(meshops.CropAttribute3DNodeData{Attribute: out(name), Mesh: out(rec), AABB: out(box)}.Process())
		}}
	}})
	add(Op{Name: "meshops.FilterFloat1", Group: "meshops", Kind: Derive, Topo: isPoint, StrictTopo: true, Make: func(r *rand.Rand, m *modeling.Mesh, e *Env) Call {
		rec := *m
		name, ok := pick(r, rec.Float1Attributes(), pal1, e)
		th, pm := scalar(r), predMode(r)
		f := func(v float64) bool { return pm == 1 || (pm == 0 && v > th) }
		if r.Intn(2) == 0 {
			return Call{Desc: "FilterFloat1(" + name + predName[pm] + ")", Pre: ok, Run: func() ([]modeling.Mesh, error) { return one(meshops.FilterFloat1(rec, name, f)) }}
		}
		return Call{Desc: "FilterFloat1Transformer(" + name + predName[pm] + ")", Pre: ok, Run: viaTransformer(r, rec, meshops.FilterFloat1Transformer{Attribute: name, Filter: f})}
	}})
	add(Op{Name: "meshops.FilterFloat2", Group: "meshops", Kind: Derive, Topo: isPoint, StrictTopo: true, Make: func(r *rand.Rand, m *modeling.Mesh, e *Env) Call {
		rec := *m
		name, ok := pick(r, rec.Float2Attributes(), pal2, e)
		th, pm := scalar(r), predMode(r)
		f := func(v vector2.Float64) bool { return pm == 1 || (pm == 0 && v.X() > th) }
		if r.Intn(2) == 0 {
			return Call{Desc: "FilterFloat2(" + name + predName[pm] + ")", Pre: ok, Run: func() ([]modeling.Mesh, error) { return one(meshops.FilterFloat2(rec, name, f)) }}
		}
		return Call{Desc: "FilterFloat2Transformer(" + name + predName[pm] + ")", Pre: ok, Run: viaTransformer(r, rec, meshops.FilterFloat2Transformer{Attribute: name, Filter: f})}
	}})
	add(Op{Name: "meshops.FilterFloat3", Group: "meshops", Kind: Derive, Topo: isPoint, StrictTopo: true, Make: func(r *rand.Rand, m *modeling.Mesh, e *Env) Call {
		rec := *m
		name, ok := pick(r, rec.Float3Attributes(), pal3, e)
		th, pm := scalar(r), predMode(r)
		f := func(v vector3.Float64) bool { return pm == 1 || (pm == 0 && v.Y() > th) }
		if r.Intn(2) == 0 {
			return Call{Desc: "FilterFloat3(" + name + predName[pm] + ")", Pre: ok, Run: func() ([]modeling.Mesh, error) { return one(meshops.FilterFloat3(rec, name, f)) }}
		}
		return Call{Desc: "FilterFloat3Transformer(" + name + predName[pm] + ")", Pre: ok, Run: viaTransformer(r, rec, meshops.FilterFloat3Transformer{Attribute: name, Filter: f})}
	}})
	add(Op{Name: "meshops.FilterFloat4", Group: "meshops", Kind: Derive, Topo: isPoint, StrictTopo: true, Make: func(r *rand.Rand, m *modeling.Mesh, e *Env) Call {
		rec := *m
		name, ok := pick(r, rec.Float4Attributes(), pal4, e)
		th, pm := scalar(r), predMode(r)
		f := func(v vector4.Float64) bool { return pm == 1 || (pm == 0 && v.W() > th) }
		if r.Intn(2) == 0 {
			return Call{Desc: "FilterFloat4(" + name + predName[pm] + ")", Pre: ok, Run: func() ([]modeling.Mesh, error) { return one(meshops.FilterFloat4(rec, name, f)) }}
		}
		return Call{Desc: "FilterFloat4Transformer(" + name + predName[pm] + ")", Pre: ok, Run: viaTransformer(r, rec, meshops.FilterFloat4Transformer{Attribute: name, Filter: f})}
	}})
	add(Op{Name: "meshops.FlatNormals", Group: "meshops", Kind: Derive, Topo: isTri, Make: func(r *rand.Rand, m *modeling.Mesh, e *Env) Call {
		rec := *m
		pre := isTri(rec.Topology()) && rec.HasFloat3Attribute(modeling.PositionAttribute)
		switch r.Intn(3) {
		case 0:
			return Call{Desc: "FlatNormals", Pre: pre, Run: func() ([]modeling.Mesh, error) { return one(meshops.FlatNormals(rec)) }}
		case 1:
			return Call{Desc: "FlatNormalsTransformer", Pre: pre, Run: viaTransformer(r, rec, meshops.FlatNormalsTransformer{})}
		}
		// the node form substitutes an empty mesh for inadmissible input
		return Call{Desc: "FlatNormalsNode", Pre: true, Run: func() ([]modeling.Mesh, error) { return oneE(meshops.FlatNormalsNodeData{Mesh: out(rec)}.Process()) }}
	}})
	add(Op{Name: "meshops.FlipTriangleWinding", Group: "meshops", Kind: Derive, Topo: isTri, Make: func(r *rand.Rand, m *modeling.Mesh, e *Env) Call {
		rec := *m
		pre := isTri(rec.Topology())
		if r.Intn(2) == 0 {
			return Call{Desc: "FlipTriangleWinding", Pre: pre, Run: func() ([]modeling.Mesh, error) { return one(meshops.FlipTriangleWinding(rec)) }}
		}
		return Call{Desc: "FlipTriangleWindingTransformer", Pre: pre, Run: viaTransformer(r, rec, meshops.FlipTriangleWindingTransformer{})}
	}})
	add(Op{Name: "meshops.LaplacianSmooth", Group: "meshops", Kind: Derive, Topo: hasNeighborTable, Make: func(r *rand.Rand, m *modeling.Mesh, e *Env) Call {
		rec := *m
		name, ok := pick(r, rec.Float3Attributes(), pal3, e)
		it, f := r.Intn(4), r.Float64()
		pre := ok && hasNeighborTable(rec.Topology())
		switch r.Intn(4) {
		case 0:
			return Call{Desc: fmt.Sprintf("LaplacianSmooth(%s,%d)", name, it), Pre: pre, Run: func() ([]modeling.Mesh, error) { return one(meshops.LaplacianSmooth(rec, name, it, f)) }}
		case 1:
			ax := vec3(r)
			return Call{Desc: fmt.Sprintf("LaplacianSmoothAlongAxis(%s,%d)", name, it), Pre: pre, Run: func() ([]modeling.Mesh, error) { return one(meshops.LaplacianSmoothAlongAxis(rec, name, it, f, ax)) }}
		case 2:
			return Call{Desc: fmt.Sprintf("LaplacianSmoothTransformer(%s,%d)", name, it), Pre: pre, Run: viaTransformer(r, rec, meshops.LaplacianSmoothTransformer{Attribute: name, Iterations: it, SmoothingFactor: f})}
		}
		return Call{Desc: fmt.Sprintf("LaplacianSmoothNode(%s,%d)", name, it), Pre: pre, Run: func() ([]modeling.Mesh, error) {
			return oneE(meshops.LaplacianSmoothNodeData{Mesh: out(rec), Attribute: out(name), Iterations: out(it), SmoothingFactor: out(f)}.Process())
		}}
	}})
	add(Op{Name: "meshops.NormalizeAttribute3D", Group: "meshops", Kind: Derive, Make: func(r *rand.Rand, m *modeling.Mesh, e *Env) Call {
		rec := *m
		name, ok := pick(r, rec.Float3Attributes(), pal3, e)
		if r.Intn(2) == 0 {
			return Call{Desc: "NormalizeAttribute3D(" + name + ")", Pre: ok, Run: func() ([]modeling.Mesh, error) { return one(meshops.NormalizeAttribute3D(rec, name)) }}
		}
		return Call{Desc: "NormalizeAttribute3DTransformer(" + name + ")", Pre: ok, Run: viaTransformer(r, rec, meshops.NormalizeAttribute3DTransformer{Attribute: name})}
	}})
	add(Op{Name: "meshops.NormalizeAttribute2D", Group: "meshops", Kind: Derive, Make: func(r *rand.Rand, m *modeling.Mesh, e *Env) Call {
		rec := *m
		name, ok := pick(r, rec.Float2Attributes(), pal2, e)
		if r.Intn(2) == 0 {
			return Call{Desc: "NormalizeAttribute2D(" + name + ")", Pre: ok, Run: func() ([]modeling.Mesh, error) { return one(meshops.NormalizeAttribute2D(rec, name)) }}
		}
		return Call{Desc: "NormalizeAttribute2DTransformer(" + name + ")", Pre: ok, Run: viaTransformer(r, rec, meshops.NormalizeAttribute2DTransformer{Attribute: name})}
	}})
	add(Op{Name: "meshops.RemoveNullFaces3D", Group: "meshops", Kind: Derive, Topo: isTri, Make: func(r *rand.Rand, m *modeling.Mesh, e *Env) Call {
		rec := *m
		name, ok := pick(r, rec.Float3Attributes(), pal3, e)
		area := []float64{0, 1e-9, 0.01, 0.5, 5}[r.Intn(5)]
		pre := ok && isTri(rec.Topology())
		if r.Intn(2) == 0 {
			return Call{Desc: fmt.Sprintf("RemoveNullFaces3D(%s,%g)", name, area), Pre: pre, Run: func() ([]modeling.Mesh, error) { return one(meshops.RemoveNullFaces3D(rec, name, area)) }}
		}
		return Call{Desc: fmt.Sprintf("RemoveNullFaces3DTransformer(%s,%g)", name, area), Pre: pre, Run: viaTransformer(r, rec, meshops.RemoveNullFaces3DTransformer{Attribute: name, MinArea: area})}
	}})
	add(Op{Name: "meshops.RemovedUnreferencedVertices", Group: "meshops", Kind: Derive, Make: func(r *rand.Rand, m *modeling.Mesh, e *Env) Call {
		rec := *m
		if r.Intn(2) == 0 {
			return Call{Desc: "RemovedUnreferencedVertices", Pre: true, Run: func() ([]modeling.Mesh, error) { return one(meshops.RemovedUnreferencedVertices(rec)) }}
		}
		return Call{Desc: "RemovedUnreferencedVerticesTransformer", Pre: true, Run: viaTransformer(r, rec, meshops.RemovedUnreferencedVerticesTransformer{})}
	}})
	add(Op{Name: "meshops.RotateAttribute3D", Group: "meshops", Kind: Derive, Make: func(r *rand.Rand, m *modeling.Mesh, e *Env) Call {
		rec := *m
		name, ok := pick(r, rec.Float3Attributes(), pal3, e)
		q := quat(r)
		switch r.Intn(3) {
		case 0:
			return Call{Desc: "RotateAttribute3D(" + name + ")", Pre: ok, Run: func() ([]modeling.Mesh, error) { return one(meshops.RotateAttribute3D(rec, name, q)) }}
		case 1:
			return Call{Desc: "RotateAttribute3DTransformer(" + name + ")", Pre: ok, Run: viaTransformer(r, rec, meshops.RotateAttribute3DTransformer{Attribute: name, Amount: q})}
		}
		return Call{Desc: "RotateAttribute3DNode(" + name + ")", Pre: ok, Run: func() ([]modeling.Mesh, error) {
			return oneE(meshops.RotateAttribute3DNodeData{Attribute: out(name), Mesh: out(rec), Amount: out(q)}.Process())
		}}
	}})
	add(Op{Name: "meshops.ScaleAttribute3D", Group: "meshops", Kind: Derive, Make: func(r *rand.Rand, m *modeling.Mesh, e *Env) Call {
		rec := *m
		name, ok := pick(r, rec.Float3Attributes(), pal3, e)
		o, a := vec3(r), vec3(r)
		switch r.Intn(3) {
		case 0:
			return Call{Desc: "ScaleAttribute3D(" + name + ")", Pre: ok, Run: func() ([]modeling.Mesh, error) { return one(meshops.ScaleAttribute3D(rec, name, o, a)) }}
		case 1:
			return Call{Desc: "ScaleAttribute3DTransformer(" + name + ")", Pre: ok, Run: viaTransformer(r, rec, meshops.ScaleAttribute3DTransformer{Attribute: name, Origin: o, Amount: a})}
		}
		return Call{Desc: "ScaleAttribute3DNode(" + name + ")", Pre: ok, Run: func() ([]modeling.Mesh, error) {
			return oneE(meshops.ScaleAttribute3DNodeData{Attribute: out(name), Mesh: out(rec), Amount: out(a), Origin: out(o)}.Process())
		}}
	}})
	add(Op{Name: "meshops.ScaleAttribute2D", Group: "meshops", Kind: Derive, Make: func(r *rand.Rand, m *modeling.Mesh, e *Env) Call {
		rec := *m
		name, ok := pick(r, rec.Float2Attributes(), pal2, e)
		o, a := vec2(r), vec2(r)
		if r.Intn(2) == 0 {
			return Call{Desc: "ScaleAttribute2D(" + name + ")", Pre: ok, Run: func() ([]modeling.Mesh, error) { return one(meshops.ScaleAttribute2D(rec, name, o, a)) }}
		}
		return Call{Desc: "ScaleAttribute2DTransformer(" + name + ")", Pre: ok, Run: viaTransformer(r, rec, meshops.ScaleAttribute2DTransformer{Attribute: name, Origin: o, Amount: a})}
	}})
	add(Op{Name: "meshops.ScaleAttributeAlongNormal", Group: "meshops", Kind: Derive, Make: func(r *rand.Rand, m *modeling.Mesh, e *Env) Call {
		rec := *m
		a, ok1 := pick(r, rec.Float3Attributes(), pal3, e)
		n, ok2 := pick(r, rec.Float3Attributes(), pal3, e)
		amt := scalar(r)
		switch r.Intn(3) {
		case 0:
			return Call{Desc: fmt.Sprintf("ScaleAttributeAlongNormal(%s,%s)", a, n), Pre: ok1 && ok2, Run: func() ([]modeling.Mesh, error) { return one(meshops.ScaleAttributeAlongNormal(rec, a, n, amt)) }}
		case 1:
			return Call{Desc: fmt.Sprintf("ScaleAttributeAlongNormalTransformer(%s,%s)", a, n), Pre: ok1 && ok2, Run: viaTransformer(r, rec, meshops.ScaleAttributeAlongNormalTransformer{AttributeToScale: a, NormalAttribute: n, Amount: amt})}
		}
		// node form: inadmissible input yields an empty mesh
		return Call{Desc: fmt.Sprintf("ScaleAttributeAlongNormalNode(%s,%s)", a, n), Pre: true, Run: func() ([]modeling.Mesh, error) {
			return oneE(meshops.ScaleAttributeAlongNormalNodeData{Mesh: out(rec), Amount: out(amt), AttributeToScale: out(a), NormalAttribute: out(n)}.Process())
		}}
	}})
	add(Op{Name: "meshops.TranslateAttribute3D", Group: "meshops", Kind: Derive, Make: func(r *rand.Rand, m *modeling.Mesh, e *Env) Call {
		rec := *m
		name, ok := pick(r, rec.Float3Attributes(), pal3, e)
		a := vec3(r)
		switch r.Intn(3) {
		case 0:
			return Call{Desc: "TranslateAttribute3D(" + name + ")", Pre: ok, Run: func() ([]modeling.Mesh, error) { return one(meshops.TranslateAttribute3D(rec, name, a)) }}
		case 1:
			return Call{Desc: "TranslateAttribute3DTransformer(" + name + ")", Pre: ok, Run: viaTransformer(r, rec, meshops.TranslateAttribute3DTransformer{Attribute: name, Amount: a})}
		}
		return Call{Desc: "TranslateAttribute3DNode(" + name + ")", Pre: ok, Run: func() ([]modeling.Mesh, error) {
			return oneE(meshops.TranslateAttribute3DNodeData{Attribute: out(name), Mesh: out(rec), Amount: out(a)}.Process())
		}}
	}})
	add(Op{Name: "meshops.SmoothNormals", Group: "meshops", Kind: Derive, Topo: isTri, Make: func(r *rand.Rand, m *modeling.Mesh, e *Env) Call {
		rec := *m
		pre := isTri(rec.Topology()) && rec.HasFloat3Attribute(modeling.PositionAttribute)
		switch r.Intn(3) {
		case 0:
			return Call{Desc: "SmoothNormals", Pre: pre, Run: func() ([]modeling.Mesh, error) { return one(meshops.SmoothNormals(rec)) }}
		case 1:
			return Call{Desc: "SmoothNormalsTransformer", Pre: pre, Run: viaTransformer(r, rec, meshops.SmoothNormalsTransformer{})}
		}
		return Call{Desc: "SmoothNormalsNode", Pre: pre, Run: func() ([]modeling.Mesh, error) { return oneE(meshops.SmoothNormalsNodeData{Mesh: out(rec)}.Process()) }}
	}})
	add(Op{Name: "meshops.SmoothNormalsImplicitWeld", Group: "meshops", Kind: Derive, Topo: isTri, Make: func(r *rand.Rand, m *modeling.Mesh, e *Env) Call {
		rec := *m
		d := []float64{0, 1e-6, 0.01, 0.5, 3}[r.Intn(5)]
		if e.Large {
			d = []float64{0, 1e-9, 1e-6}[r.Intn(3)]
		}
		if !e.Valid && r.Intn(12) == 0 {
			d = -0.5
		}
		pre := isTri(rec.Topology()) && rec.HasFloat3Attribute(modeling.PositionAttribute) && d >= 0
		switch r.Intn(3) {
		case 0:
			return Call{Desc: fmt.Sprintf("SmoothNormalsImplicitWeld(%g)", d), Pre: pre, Run: func() ([]modeling.Mesh, error) { return one(meshops.SmoothNormalsImplicitWeld(rec, d)) }}
		case 1:
			return Call{Desc: fmt.Sprintf("SmoothNormalsImplicitWeldTransformer(%g)", d), Pre: pre, Run: viaTransformer(r, rec, meshops.SmoothNormalsImplicitWeldTransformer{Distance: d})}
		}
		return Call{Desc: fmt.Sprintf("SmoothNormalsImplicitWeldNode(%g)", d), Pre: pre, Run: func() ([]modeling.Mesh, error) {
			return oneE(meshops.SmoothNormalsImplicitWeldNodeData{Mesh: out(rec), Distance: out(d)}.Process())
		}}
	}})
	add(Op{Name: "meshops.SplitOnUniqueMaterials", Group: "meshops", Kind: Derive, Topo: isTri, Make: func(r *rand.Rand, m *modeling.Mesh, e *Env) Call {
		rec := *m
		desc := "SplitOnUniqueMaterials"
		if len(rec.Materials()) < 2 && r.Intn(2) == 0 && isTri(rec.Topology()) { // give it something to split
			rec = rec.SetMaterials(gen.Materials(r, primCount(rec)))
			desc = "SetMaterials+SplitOnUniqueMaterials"
		}
		pre := len(rec.Materials()) < 2 || (isTri(rec.Topology()) && noNilMaterial(rec))
		return Call{Desc: desc, Pre: pre, Run: func() ([]modeling.Mesh, error) { return meshops.SplitOnUniqueMaterials(rec), nil }}
	}})
	add(Op{Name: "meshops.Unweld", Group: "meshops", Kind: Derive, Make: func(r *rand.Rand, m *modeling.Mesh, e *Env) Call {
		rec := *m
		if r.Intn(2) == 0 {
			return Call{Desc: "Unweld", Pre: true, Run: func() ([]modeling.Mesh, error) { return one(meshops.Unweld(rec)) }}
		}
		return Call{Desc: "UnweldTransformer", Pre: true, Run: viaTransformer(r, rec, meshops.UnweldTransformer{})}
	}})
	add(Op{Name: "meshops.SliceByPlane", Group: "meshops", Kind: Derive, Topo: isTri, Make: func(r *rand.Rand, m *modeling.Mesh, e *Env) Call {
		rec := *m
		name, ok := pick(r, rec.Float3Attributes(), pal3, e)
		a := vec3(r)
		pl := geometry.NewPlaneFromPoints(a, a.Add(nonZero3(r)), a.Add(nonZero3(r)))
		pre := ok && isTri(rec.Topology())
		if r.Intn(2) == 0 {
			return Call{Desc: "SliceByPlaneWithAttribute(" + name + ")", Pre: pre, Run: func() ([]modeling.Mesh, error) {
				a, b := meshops.SliceByPlaneWithAttribute(rec, pl, name)
				return []modeling.Mesh{a, b}, nil
			}}
		}
		side := meshops.SliceByPlaneTransformerSide(r.Intn(2))
		return Call{Desc: "SliceByPlaneTransformer(" + name + ")", Pre: pre, Run: viaTransformer(r, rec, meshops.SliceByPlaneTransformer{Attribute: name, SliceToKeep: side, Plane: pl})}
	}})
	add(Op{Name: "meshops.ColorGradingLut", Group: "meshops", Kind: Derive, Make: func(r *rand.Rand, m *modeling.Mesh, e *Env) Call {
		rec := *m
		name, ok := modeling.ColorAttribute, rec.HasFloat3Attribute(modeling.ColorAttribute)
		if !ok && !e.Valid && r.Intn(3) == 0 {
			name, ok = pick(r, rec.Float3Attributes(), pal3, nil)
		}
		if r.Intn(2) == 0 {
			return Call{Desc: "ColorGradingLut(" + name + ")", Pre: ok, Run: func() ([]modeling.Mesh, error) { return one(meshops.ColorGradingLut(rec, lut, name)) }}
		}
		return Call{Desc: "ColorGradingLutTransformer(" + name + ")", Pre: ok, Run: viaTransformer(r, rec, meshops.ColorGradingLutTransformer{Attribute: name, LUT: lut})}
	}})
	add(Op{Name: "meshops.VertexColorSpace", Group: "meshops", Kind: Derive, Make: func(r *rand.Rand, m *modeling.Mesh, e *Env) Call {
		rec := *m
		name, ok := pick(r, rec.Float3Attributes(), pal3, e)
		tr := meshops.VertexColorSpaceTransformation(r.Intn(2))
		if r.Intn(2) == 0 {
			return Call{Desc: "VertexColorSpace(" + name + ")", Pre: ok, Run: func() ([]modeling.Mesh, error) { return one(meshops.VertexColorSpace(rec, name, tr)) }}
		}
		skip := r.Intn(2) == 0
		return Call{Desc: "VertexColorSpaceTransformer(" + name + ")", Pre: ok || skip, Run: viaTransformer(r, rec, meshops.VertexColorSpaceTransformer{Attribute: name, SkipOnMissingAttribute: skip, Transformation: tr})}
	}})
	add(Op{Name: "meshops.CombineNode", Group: "node", Kind: Derive, Make: func(r *rand.Rand, m *modeling.Mesh, e *Env) Call {
		rec := *m
		o := e.Other(r, rec)
		v := r.Intn(3)
		return Call{Desc: fmt.Sprintf("CombineNode/%d", v), Pre: v != 0 || o.Topology() == rec.Topology(), Run: func() ([]modeling.Mesh, error) {
			switch v {
			case 0:
				return oneE(meshops.CombineNodeData{A: out(rec), B: out(o)}.Process())
			case 1:
				return oneE(meshops.CombineNodeData{A: out(rec)}.Process())
			}
			return oneE(meshops.CombineNodeData{B: out(rec)}.Process())
		}}
	}})

	// ---- gausops ------------------------------------------------------------
	add(Op{Name: "gausops.RotateAttribute", Group: "gausops", Kind: Derive, Make: func(r *rand.Rand, m *modeling.Mesh, e *Env) Call {
		rec := *m
		name, ok := pick(r, rec.Float4Attributes(), pal4, e)
		q := quat(r)
		if r.Intn(2) == 0 {
			return Call{Desc: "gausops.RotateAttribute(" + name + ")", Pre: ok, Run: func() ([]modeling.Mesh, error) { return one(gausops.RotateAttribute(rec, name, q)) }}
		}
		return Call{Desc: "gausops.RotateAttributeNode(" + name + ")", Pre: ok, Run: func() ([]modeling.Mesh, error) {
			return oneE(gausops.RotateAttributeNodeData{Mesh: out(rec), Attribute: out(name), Amount: out(q)}.Process())
		}}
	}})
	add(Op{Name: "gausops.Scale", Group: "gausops", Kind: Derive, Make: func(r *rand.Rand, m *modeling.Mesh, e *Env) Call {
		rec := *m
		name := modeling.ScaleAttribute
		if !e.Valid && r.Intn(4) == 0 {
			name, _ = pick(r, rec.Float3Attributes(), pal3, nil)
		}
		// gausops.Scale checks the named attribute but always works on "Scale"
		ok := rec.HasFloat3Attribute(name) && rec.HasFloat3Attribute(modeling.ScaleAttribute)
		a := vec3(r)
		switch r.Intn(3) {
		case 0:
			return Call{Desc: "gausops.Scale(" + name + ")", Pre: ok, Run: func() ([]modeling.Mesh, error) { return one(gausops.Scale(rec, name, a)) }}
		case 1:
			return Call{Desc: "gausops.ScaleTransformer(" + name + ")", Pre: ok, Run: viaTransformer(r, rec, gausops.ScaleTransformer{Attribute: name, Scale: a})}
		}
		return Call{Desc: "gausops.ScaleNode(" + name + ")", Pre: ok, Run: func() ([]modeling.Mesh, error) {
			return oneE(gausops.ScaleNodeData{Mesh: out(rec), Attribute: out(name), Amount: out(a)}.Process())
		}}
	}})
	add(Op{Name: "gausops.ColorGradingLut", Group: "gausops", Kind: Derive, Make: func(r *rand.Rand, m *modeling.Mesh, e *Env) Call {
		rec := *m
		name, ok := modeling.FDCAttribute, rec.HasFloat3Attribute(modeling.FDCAttribute)
		if !ok {
			name, ok = pick(r, rec.Float3Attributes(), pal3, e)
		}
		switch r.Intn(3) {
		case 0:
			return Call{Desc: "gausops.ColorGradingLut(" + name + ")", Pre: ok, Run: func() ([]modeling.Mesh, error) { return one(gausops.ColorGradingLut(rec, lut, name)) }}
		case 1:
			return Call{Desc: "gausops.ColorGradingLutTransformer(" + name + ")", Pre: ok, Run: viaTransformer(r, rec, gausops.ColorGradingLutTransformer{Attribute: name, LUT: lut})}
		}
		return Call{Desc: "gausops.ColorGradingLutNode(" + name + ")", Pre: ok, Run: func() ([]modeling.Mesh, error) {
			return oneE(gausops.ColorGradingLutNodeData{Mesh: out(rec), Attribute: out(name), LUT: out(lut)}.Process())
		}}
	}})
	add(Op{Name: "gausops.FilterNode", Group: "node", Kind: Derive, Topo: isPoint, StrictTopo: true, Make: func(r *rand.Rand, m *modeling.Mesh, e *Env) Call {
		rec := *m
		pre := rec.HasFloat1Attribute(modeling.OpacityAttribute) && rec.HasFloat3Attribute(modeling.ScaleAttribute)
		lo, hi := scalar(r), scalar(r)+2
		return Call{Desc: "gausops.FilterNode", Pre: pre, Run: func() ([]modeling.Mesh, error) {
			return oneE(gausops.FilterNodeData{Splat: out(rec), MinOpacity: out(lo), MaxOpacity: out(hi), MaxVolume: out(50.)}.Process())
		}}
	}})
	add(Op{Name: "gausops.ScaleWithinRegionNode", Group: "node", Kind: Derive, Make: func(r *rand.Rand, m *modeling.Mesh, e *Env) Call {
		rec := *m
		pre := rec.HasFloat3Attribute(modeling.PositionAttribute) && rec.HasFloat3Attribute(modeling.ScaleAttribute)
		p, rad, s := vec3(r), math.Abs(scalar(r))*2, scalar(r)
		return Call{Desc: "gausops.ScaleWithinRegionNode", Pre: pre, Run: func() ([]modeling.Mesh, error) {
			return oneE(gausops.ScaleWithinRegionNodeData{Mesh: out(rec), Scale: out(s), Radius: out(rad), Position: out(p)}.Process())
		}}
	}})

	// ---- repeat -------------------------------------------------------------
	add(Op{Name: "repeat.Mesh", Group: "repeat", Kind: Derive, Make: func(r *rand.Rand, m *modeling.Mesh, e *Env) Call {
		rec := *m
		var ts []trs.TRS
		what := "list"
		switch r.Intn(6) {
		case 0:
			ts = nil
			what = "nil"
		case 1:
			ts = repeat.Circle(r.Intn(5), scalar(r))
			what = "circle"
		case 2:
			ts = repeat.Line(vec3(r), vec3(r), r.Intn(4))
			what = "line"
		case 3:
			ts = repeat.FibonacciSphere(r.Intn(5), scalar(r))
			what = "fibonacci"
		default:
			ts = make([]trs.TRS, r.Intn(5))
			for i := range ts {
				ts[i] = randTRS(r)
			}
		}
		// zero transforms never touch the mesh; otherwise ApplyTRS needs a position
		pre := len(ts) == 0 || rec.HasFloat3Attribute(modeling.PositionAttribute)
		if r.Intn(3) == 0 {
			return Call{Desc: fmt.Sprintf("repeat.MeshNode(%s %d)", what, len(ts)), Pre: pre, Run: func() ([]modeling.Mesh, error) {
				return oneE(repeat.MeshNodeData{Mesh: out(rec), Transforms: out(ts)}.Process())
			}}
		}
		return Call{Desc: fmt.Sprintf("repeat.Mesh(%s %d)", what, len(ts)), Pre: pre, Run: func() ([]modeling.Mesh, error) { return one(repeat.Mesh(rec, ts)) }}
	}})

	// ---- observers: scans, spatial helpers, exports -----------------------------
	add(Op{Name: "Mesh.Scan*", Group: "observe", Kind: Observe, Make: func(r *rand.Rand, m *modeling.Mesh, e *Env) Call {
		rec := *m
		v := r.Intn(3)
		p1, p2 := 1+r.Intn(4), 1+r.Intn(3)
		canScan := rec.Topology() == modeling.TriangleTopology || rec.Topology() == modeling.PointTopology || (rec.Topology() == modeling.LineStripTopology && rec.Indices().Len() > 0)
		return Call{Desc: fmt.Sprintf("Scan/%d", v), Pre: canScan, Run: func() ([]modeling.Mesh, error) {
			var ret modeling.Mesh
			switch v {
			case 0:
				ret = rec.ScanPrimitives(func(i int, p modeling.Primitive) {
					for _, a := range rec.Float3Attributes() {
						_ = p.Scope(a).BoundingBox()
					}
				})
			case 1:
				ret = rec.ScanPrimitivesParallelWithPoolSize(p1, func(i int, p modeling.Primitive) {})
			default:
				ret = rec
				for _, a := range rec.Float3Attributes() {
					ret = ret.ScanFloat3Attribute(a, func(i int, v vector3.Float64) {}).ScanFloat3AttributeParallelWithPoolSize(a, p2, func(i int, v vector3.Float64) {})
				}
				for _, a := range rec.Float2Attributes() {
					ret = ret.ScanFloat2Attribute(a, func(i int, v vector2.Float64) {}).ScanFloat2AttributeParallelWithPoolSize(a, p2, func(i int, v vector2.Float64) {})
				}
				for _, a := range rec.Float1Attributes() {
					ret = ret.ScanFloat1Attribute(a, func(i int, v float64) {}).ScanFloat1AttributeParallelWithPoolSize(a, p2, func(i int, v float64) {})
				}
				for _, a := range rec.Float4Attributes() {
					ret = ret.ScanFloat4Attribute(a, func(i int, v vector4.Float64) {})
				}
			}
			return one(ret) // Scan* return the receiver: it joins the pool as one more alias
		}}
	}})
	add(Op{Name: "Mesh.queries", Group: "observe", Kind: Observe, Make: func(r *rand.Rand, m *modeling.Mesh, e *Env) Call {
		rec := *m
		depth := 1 + r.Intn(3)
		p := vec3(r)
		// Pure queries: every one runs on its own (a panic of one - ill-formed receiver,
		// unsupported topology, non-finite values - does not skip the others).
		return Call{Desc: fmt.Sprintf("BoundingBox(every v3)+OctTree(depth %d)+VertexNeighborTable+Tri accessors+iterators", depth), Pre: true, Run: func() ([]modeling.Mesh, error) {
			quietly(func() { _ = rec.PrimitiveCount() })
			quietly(func() { _ = rec.AttributeLength() })
			for _, a := range rec.Float3Attributes() {
				a := a
				quietly(func() { _ = rec.BoundingBox(a) })
				quietly(func() {
					it := rec.Float3Attribute(a)
					for i := 0; i < it.Len(); i++ {
						_ = it.At(i)
					}
				})
			}
			quietly(func() {
				for _, a := range rec.Float1Attributes() {
					it := rec.Float1Attribute(a)
					for i := 0; i < it.Len(); i++ {
						_ = it.At(i)
					}
				}
				for _, a := range rec.Float2Attributes() {
					it := rec.Float2Attribute(a)
					for i := 0; i < it.Len(); i++ {
						_ = it.At(i)
					}
				}
				for _, a := range rec.Float4Attributes() {
					it := rec.Float4Attribute(a)
					for i := 0; i < it.Len(); i++ {
						_ = it.At(i)
					}
				}
				it := rec.Indices()
				for i := 0; i < it.Len(); i++ {
					_ = it.At(i)
				}
			})
			finite := finitePositions(rec)
			if (isTri(rec.Topology()) || isPoint(rec.Topology())) && rec.Indices().Len() > 0 && finite {
				quietly(func() {
					tree := rec.OctTree()
					_, _ = tree.ClosestPoint(p)
					_ = tree.ElementsWithinRange(p, 1)
				})
				quietly(func() { _ = rec.OctTreeDepth(depth) })
				for _, a := range rec.Float3Attributes() {
					a := a
					if finiteAttr(rec, a) {
						quietly(func() { _ = rec.OctTreeWithAttributeAndDepth(a, depth) })
					}
				}
			}
			quietly(func() { _ = rec.VertexNeighborTable() })
			if isTri(rec.Topology()) {
				for _, a := range rec.Float3Attributes() {
					a := a
					quietly(func() {
						for i := 0; i < rec.Indices().Len()/3; i++ {
							t := rec.Tri(i)
							_, _, _ = t.P1Vec3Attr(a), t.P2Vec3Attr(a), t.P3Vec3Attr(a)
							_ = t.BoundingBox(a)
							_ = t.Area3D(a)
							_ = t.Average(a)
							_ = t.ClosestPoint(a, p)
							_ = t.Plane(a)
							_ = t.Scope(a).BoundingBox()
							_ = t.UniqueVertices()
						}
					})
				}
			}
			return nil, nil
		}}
	}})
	add(Op{Name: "ply.Write", Group: "export", Kind: Observe, Make: func(r *rand.Rand, m *modeling.Mesh, e *Env) Call {
		rec := *m
		f := []ply.Format{ply.ASCII, ply.BinaryLittleEndian, ply.BinaryBigEndian}[r.Intn(3)]
		pre := isTri(rec.Topology()) || isPoint(rec.Topology())
		return Call{Desc: "ply.Write(" + string(f) + ")", Pre: pre, Run: func() ([]modeling.Mesh, error) {
			return nil, ply.Write(&bytes.Buffer{}, rec, f)
		}}
	}})
	add(Op{Name: "obj.WriteMesh", Group: "export", Kind: Observe, Topo: isTri, Make: func(r *rand.Rand, m *modeling.Mesh, e *Env) Call {
		rec := *m
		matFile := []string{"", "mats.mtl"}[r.Intn(2)]
		return Call{Desc: "obj.WriteMesh", Pre: isTri(rec.Topology()) && MaterialsConsistent(rec), ObserveAnyway: isTri(rec.Topology()), Run: func() ([]modeling.Mesh, error) {
			buf := &bytes.Buffer{}
			if err := obj.WriteMesh(rec, matFile, buf); err != nil {
				return nil, err
			}
			return nil, obj.WriteMaterialsFromMesh(rec, buf)
		}}
	}})
	add(Op{Name: "stl.WriteMesh", Group: "export", Kind: Observe, Topo: isTri, Make: func(r *rand.Rand, m *modeling.Mesh, e *Env) Call {
		rec := *m
		return Call{Desc: "stl.WriteMesh", Pre: isTri(rec.Topology()), Run: func() ([]modeling.Mesh, error) {
			return nil, stl.WriteMesh(&bytes.Buffer{}, rec)
		}}
	}})
	add(Op{Name: "gltf.Write", Group: "export", Kind: Observe, Make: func(r *rand.Rand, m *modeling.Mesh, e *Env) Call {
		bin := r.Intn(2) == 0
		twice := r.Intn(3) == 0
		pre := (isTri(m.Topology()) || isPoint(m.Topology())) && m.HasFloat3Attribute(modeling.PositionAttribute)
		// the model refers to the live mesh itself (PolyformModel.Mesh is a pointer)
		return Call{Desc: fmt.Sprintf("gltf.Write(bin=%v,twice=%v)", bin, twice), Pre: pre, Run: func() ([]modeling.Mesh, error) {
			models := []gltf.PolyformModel{{Name: "a", Mesh: m}}
			if twice {
				models = append(models, gltf.PolyformModel{Name: "b", Mesh: m})
			}
			scene := gltf.PolyformScene{Models: models}
			if bin {
				return nil, gltf.WriteBinary(scene, &bytes.Buffer{})
			}
			return nil, gltf.WriteText(scene, &bytes.Buffer{})
		}}
	}})

	// ---- sources (sources.go) ------------------------------------------------
	for _, o := range sources() {
		add(o)
	}
	add(Op{Name: "gen.Mesh", Group: "source", Kind: Source, Make: func(r *rand.Rand, m *modeling.Mesh, e *Env) Call {
		fresh, d := gen.Mesh(r, gen.MeshOpts{Materials: true, AllowEmpty: true, MaxVerts: 30})
		return Call{Desc: "gen.Mesh " + d.Sig(), Pre: true, Run: func() ([]modeling.Mesh, error) { return one(fresh) }}
	}})
	return t
}

func hasNeighborTable(t modeling.Topology) bool {
	switch t {
	case modeling.TriangleTopology, modeling.LineStripTopology, modeling.LineTopology, modeling.LineLoopTopology:
		return true
	}
	return false
}

func poolSize(r *rand.Rand, e *Env) int {
	if !e.Valid && (r.Intn(10) == 0 || (e.Hostile && r.Intn(2) == 0)) {
		return -r.Intn(2)
	}
	if r.Intn(2) == 0 { // more workers than most receivers have elements
		return []int{8, 16, runtime.NumCPU()}[r.Intn(3)]
	}
	return 1 + r.Intn(6)
}

// slowCallback: for the parallel variants on small receivers the callback takes a
// seeded 100–500 µs per element, so that a fan-out that returns before its last
// worker has finished is still writing when the caller reads the result.
func slowCallback(r *rand.Rand, m modeling.Mesh, variant int) time.Duration {
	d := time.Duration(100+r.Intn(400)) * time.Microsecond
	if L, _ := AttrInfo(m); variant == 0 || L > 16 || r.Intn(2) == 0 {
		return 0
	}
	return d
}

func dawdle(d time.Duration) {
	if d > 0 {
		runtime.Gosched()
		time.Sleep(d)
	}
}

var predName = [3]string{"", ",keep-all", ",keep-none"}

// predMode: 0 threshold predicate, 1 keeps every vertex, 2 keeps none.
func predMode(r *rand.Rand) int {
	switch r.Intn(8) {
	case 0, 1:
		return 1
	case 2:
		return 2
	}
	return 0
}

func attrLenAny(m modeling.Mesh) int {
	L, _ := AttrInfo(m)
	return L
}

// onlyArity: all attribute names of m belong to the given arity.
func onlyArity(m modeling.Mesh, ar int) bool {
	n := [5]int{0, len(m.Float1Attributes()), len(m.Float2Attributes()), len(m.Float3Attributes()), len(m.Float4Attributes())}
	for a := 1; a <= 4; a++ {
		if a != ar && n[a] > 0 {
			return false
		}
	}
	return true
}

// canDelete: removing attribute (arity,name) leaves the vertices of m defined
// (another attribute still carries them) or m has no indices that need them.
func canDelete(m modeling.Mesh, ar int, name string) bool {
	if m.Indices().Len() == 0 {
		return true
	}
	lists := [5][]string{nil, m.Float1Attributes(), m.Float2Attributes(), m.Float3Attributes(), m.Float4Attributes()}
	for a := 1; a <= 4; a++ {
		for _, n := range lists[a] {
			if a != ar || n != name {
				return true
			}
		}
	}
	return false
}

func noNilMaterial(m modeling.Mesh) bool {
	for _, mm := range m.Materials() {
		if mm.Material == nil {
			return false
		}
	}
	return true
}

// special draws a non-finite or signed-zero value; NaNs come with different payloads.
func special(r *rand.Rand) float64 {
	switch r.Intn(6) {
	case 0:
		return math.NaN()
	case 1:
		return math.Float64frombits(0x7ff8000000000000 | uint64(1+r.Intn(1<<20)))
	case 2:
		return math.Float64frombits(0xfff8000000000000 | uint64(1+r.Intn(1<<20))) // negative quiet NaN
	case 3:
		return math.Inf(1)
	case 4:
		return math.Inf(-1)
	}
	return math.Copysign(0, -1)
}

func quietly(f func()) {
	defer func() { _ = recover() }()
	f()
}

func finiteAttr(m modeling.Mesh, a string) bool {
	it := m.Float3Attribute(a)
	for i := 0; i < it.Len(); i++ {
		v := it.At(i)
		if math.IsNaN(v.X()+v.Y()+v.Z()) || math.IsInf(v.X()+v.Y()+v.Z(), 0) {
			return false
		}
	}
	return true
}

func finitePositions(m modeling.Mesh) bool {
	return m.HasFloat3Attribute(modeling.PositionAttribute) && finiteAttr(m, modeling.PositionAttribute)
}

// fanOutShape tags the parallel calls whose worker count exceeds the element count.
func fanOutShape(m modeling.Mesh, variant, pool int, slow time.Duration) string {
	L, _ := AttrInfo(m)
	if variant == 1 {
		pool = runtime.NumCPU()
	}
	if variant == 0 || pool <= L || L == 0 {
		return ""
	}
	if slow > 0 {
		return "parallel_modify_more_workers_than_elements_slow_callback"
	}
	return "parallel_modify_more_workers_than_elements"
}
