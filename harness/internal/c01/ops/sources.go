package ops

import (
	"fmt"
	"math"
	"math/rand"

	"github.com/EliCDavis/polyform/math/trs"
	"github.com/EliCDavis/polyform/modeling"
	"github.com/EliCDavis/polyform/modeling/extrude"
	"github.com/EliCDavis/polyform/modeling/primitives"
	"github.com/EliCDavis/polyform/modeling/repeat"
	"github.com/EliCDavis/polyform/modeling/triangulation"
	"github.com/EliCDavis/vector/vector2"
	"github.com/EliCDavis/vector/vector3"
)

// sources: every primitive / generator the monitors use as a SOURCE. The parameters are split
// in "base" parameters (what determines the shape family an implementation might memoise or
// pre-size: sides, rows×columns, outline, path, point set) drawn from Env.baseRng, and secondary
// parameters (height, radius, caps, UVs, thickness) drawn from the call's own generator. All
// inputs (paths, outlines, point sets) are allocated per call.
func sources() []Op {
	var t []Op
	src := func(name string, mk func(rb, r *rand.Rand) (base, sec string, f func() modeling.Mesh)) {
		t = append(t, Op{Name: name, Group: "source", Kind: Source, Make: func(r *rand.Rand, m *modeling.Mesh, e *Env) Call {
			base, sec, f := mk(e.baseRng(r), r)
			return Call{Desc: fmt.Sprintf("%s{%s; %s}", name, base, sec), Pre: true, BaseKey: name + "{" + base + "}",
				Run: func() ([]modeling.Mesh, error) { return one(f()) }}
		}})
	}
	pick := func(r *rand.Rand, v ...float64) float64 { return v[r.Intn(len(v))] }
	sides := func(rb *rand.Rand) int { return 3 + rb.Intn(6) }
	path := func(rb *rand.Rand) func() []vector3.Float64 {
		n, cls, a, b := 2+rb.Intn(4), rb.Intn(3), rb.Float64(), rb.Float64()
		return func() []vector3.Float64 {
			p := make([]vector3.Float64, n)
			for i := range p {
				switch cls {
				case 0:
					p[i] = vector3.New(0, float64(i), 0)
				case 1:
					p[i] = vector3.New(float64(i)*a, math.Sin(float64(i)), float64(i)*b)
				default:
					p[i] = vector3.New(math.Cos(float64(i)), float64(i)*0.3, math.Sin(float64(i)))
				}
			}
			return p
		}
	}
	strip := func(r *rand.Rand) *primitives.StripUVs {
		if r.Intn(2) == 0 {
			return nil
		}
		return &primitives.StripUVs{Start: vector2.New(r.Float64(), 0.5), End: vector2.New(r.Float64(), 0.5), Width: 0.5}
	}

	src("primitives.Cone", func(rb, r *rand.Rand) (string, string, func() modeling.Mesh) {
		s, rad, h := sides(rb), pick(rb, 0.5, 1, 2), pick(r, 1, 2, 0.25, r.Float64()*3)
		return fmt.Sprintf("Sides %d, Radius %g", s, rad), fmt.Sprintf("Height %g", h), func() modeling.Mesh {
			return primitives.Cone{Sides: s, Radius: rad, Height: h}.ToMesh()
		}
	})
	src("primitives.Cylinder", func(rb, r *rand.Rand) (string, string, func() modeling.Mesh) {
		s, rad, h, nt, nb, uv := sides(rb), pick(rb, 0.5, 1), pick(r, 1, 2, r.Float64()*3), r.Intn(2) == 0, r.Intn(2) == 0, r.Intn(2) == 0
		return fmt.Sprintf("Sides %d, Radius %g", s, rad), fmt.Sprintf("Height %g, NoTop %v, NoBottom %v, UVs %v", h, nt, nb, uv), func() modeling.Mesh {
			c := primitives.Cylinder{Sides: s, Radius: rad, Height: h, NoTop: nt, NoBottom: nb}
			if uv {
				c.UVs = &primitives.CylinderUVs{Top: &primitives.CircleUVs{Radius: 0.5}, Side: &primitives.StripUVs{Start: vector2.New(0., 0.), End: vector2.New(1., 0.), Width: 1}}
			}
			return c.ToMesh()
		}
	})
	src("primitives.Circle", func(rb, r *rand.Rand) (string, string, func() modeling.Mesh) {
		s, rad, uv := sides(rb), pick(r, 0.5, 1, r.Float64()*3), r.Intn(2) == 0
		return fmt.Sprintf("Sides %d", s), fmt.Sprintf("Radius %g, UVs %v", rad, uv), func() modeling.Mesh {
			c := primitives.Circle{Sides: s, Radius: rad}
			if uv {
				c.UVs = &primitives.CircleUVs{Radius: 0.5}
			}
			return c.ToMesh()
		}
	})
	src("primitives.Cube.Welded", func(rb, r *rand.Rand) (string, string, func() modeling.Mesh) {
		w, h, d, uv := pick(rb, 1, 2), pick(rb, 1, 2), pick(r, 1, 2, r.Float64()*3), r.Intn(3)
		return fmt.Sprintf("Width %g, Height %g", w, h), fmt.Sprintf("Depth %g, UVs %d", d, uv), func() modeling.Mesh {
			c := primitives.Cube{Width: w, Height: h, Depth: d}
			switch uv {
			case 1:
				c.UVs = primitives.DefaultCubeUVs()
			case 2:
				c.UVs = &primitives.CubeUVs{Top: &primitives.StripUVs{Start: vector2.New(0., 0.5), End: vector2.New(0.25, 0.5), Width: 0.3}}
			}
			return c.Welded()
		}
	})
	src("primitives.Cube.UnweldedQuads", func(rb, r *rand.Rand) (string, string, func() modeling.Mesh) {
		w, h, d, uv := pick(rb, 1, 2), pick(rb, 1, 2), pick(r, 1, 2, r.Float64()*3), r.Intn(2) == 0
		return fmt.Sprintf("Width %g, Height %g", w, h), fmt.Sprintf("Depth %g, UVs %v", d, uv), func() modeling.Mesh {
			c := primitives.Cube{Width: w, Height: h, Depth: d}
			if uv {
				c.UVs = primitives.DefaultCubeUVs()
			}
			return c.UnweldedQuads()
		}
	})
	src("primitives.UnitCube", func(rb, r *rand.Rand) (string, string, func() modeling.Mesh) {
		return "", "", func() modeling.Mesh { return primitives.UnitCube() }
	})
	src("primitives.Quad", func(rb, r *rand.Rand) (string, string, func() modeling.Mesh) {
		w, d := pick(rb, 1, 2), pick(r, 1, 2, r.Float64()*3)
		uv := strip(r)
		return fmt.Sprintf("Width %g", w), fmt.Sprintf("Depth %g, UVs %v", d, uv != nil), func() modeling.Mesh {
			return primitives.Quad{Width: w, Depth: d, UVs: uv}.ToMesh()
		}
	})
	src("primitives.UVSphere", func(rb, r *rand.Rand) (string, string, func() modeling.Mesh) {
		rows, cols, rad := 2+rb.Intn(4), 3+rb.Intn(4), pick(r, 0.5, 1, r.Float64()*3)
		return fmt.Sprintf("rows %d, columns %d", rows, cols), fmt.Sprintf("radius %g", rad), func() modeling.Mesh { return primitives.UVSphere(rad, rows, cols) }
	})
	src("primitives.UVSphereUnwelded", func(rb, r *rand.Rand) (string, string, func() modeling.Mesh) {
		rows, cols, rad := 2+rb.Intn(4), 3+rb.Intn(4), pick(r, 0.5, 1, r.Float64()*3)
		return fmt.Sprintf("rows %d, columns %d", rows, cols), fmt.Sprintf("radius %g", rad), func() modeling.Mesh { return primitives.UVSphereUnwelded(rad, rows, cols) }
	})
	src("primitives.Hemisphere.UV", func(rb, r *rand.Rand) (string, string, func() modeling.Mesh) {
		rows, cols, rad, capd := 2+rb.Intn(4), 3+rb.Intn(4), pick(r, 0.5, 1, r.Float64()*3), r.Intn(2) == 0
		return fmt.Sprintf("rows %d, columns %d", rows, cols), fmt.Sprintf("Radius %g, Capped %v", rad, capd), func() modeling.Mesh {
			return primitives.Hemisphere{Radius: rad, Capped: capd}.UV(rows, cols)
		}
	})
	src("extrude.Polygon", func(rb, r *rand.Rand) (string, string, func() modeling.Mesh) {
		s, pf, th, uv := sides(rb), path(rb), pick(r, 0.5, 1, r.Float64()), r.Intn(2) == 0
		return fmt.Sprintf("sides %d, path %v", s, pf()), fmt.Sprintf("thickness %g, UVs %v", th, uv), func() modeling.Mesh {
			p := pf()
			pts := make([]extrude.ExtrusionPoint, len(p))
			for i := range pts {
				pts[i] = extrude.ExtrusionPoint{Point: p[i], Thickness: th}
				if uv {
					pts[i].UV = &extrude.ExtrusionPointUV{Point: vector2.New(0.5, float64(i)), Thickness: 1}
				}
			}
			return extrude.Polygon(s, pts)
		}
	})
	src("extrude.Circle", func(rb, r *rand.Rand) (string, string, func() modeling.Mesh) {
		s, pf, rad := sides(rb), path(rb), pick(r, 0.5, 1, r.Float64())
		return fmt.Sprintf("Resolution %d, path %v", s, pf()), fmt.Sprintf("Radius %g", rad), func() modeling.Mesh {
			return extrude.Circle{Resolution: s, Radius: rad, Path: pf()}.Extrude()
		}
	})
	src("extrude.Line", func(rb, r *rand.Rand) (string, string, func() modeling.Mesh) {
		pf, w, h := path(rb), pick(r, 0, 0.3, 1), pick(r, 0.1, 0.5)
		return fmt.Sprintf("path %v", pf()), fmt.Sprintf("Width %g, Height %g", w, h), func() modeling.Mesh {
			p := pf()
			lp := make([]extrude.LinePoint, len(p))
			for i := range lp {
				lp[i] = extrude.LinePoint{Point: p[i], Up: vector3.Up[float64](), Height: h, Width: w, Uv: vector2.New(float64(i), 0.5), UvWidth: 0.2}
			}
			return extrude.Line(lp)
		}
	})
	src("extrude.Shape", func(rb, r *rand.Rand) (string, string, func() modeling.Mesh) {
		ns, closed, pf := 3+rb.Intn(4), rb.Intn(2) == 0, path(r)
		return fmt.Sprintf("outline %d-gon, closed %v", ns, closed), fmt.Sprintf("path %v", pf()), func() modeling.Mesh {
			sh := make([]vector2.Float64, ns)
			for i := range sh {
				a := 2 * math.Pi * float64(i) / float64(ns)
				sh[i] = vector2.New(math.Cos(a), math.Sin(a))
			}
			if closed {
				return extrude.ClosedShape(sh, pf())
			}
			return extrude.Shape(sh, pf())
		}
	})
	src("repeat.Mesh(primitive)", func(rb, r *rand.Rand) (string, string, func() modeling.Mesh) {
		kind, n, s, rad := rb.Intn(4), 1+rb.Intn(4), sides(rb), pick(r, 1, 2, r.Float64()*3)
		return fmt.Sprintf("transforms kind %d × %d, cone sides %d", kind, n, s), fmt.Sprintf("radius %g", rad), func() modeling.Mesh {
			var ts []trs.TRS
			switch kind {
			case 0:
				ts = repeat.Circle(n, rad)
			case 1:
				ts = repeat.Line(vector3.New(0., 0., 0.), vector3.New(rad, 0, 0), n)
			case 2:
				ts = repeat.FibonacciSphere(n+1, rad)
			default:
				for _, p := range repeat.CirclePoints(n, rad) {
					ts = append(ts, trs.Position(p))
				}
			}
			return repeat.Mesh(primitives.Cone{Sides: s, Radius: 0.5, Height: 1}.ToMesh(), ts)
		}
	})
	src("triangulation.BowyerWatson", func(rb, r *rand.Rand) (string, string, func() modeling.Mesh) {
		n, seed, spare, scale := 3+rb.Intn(8), rb.Int63(), r.Intn(2)*8, pick(r, 1, 1, 10)
		return fmt.Sprintf("%d points (seed %d)", n, seed), fmt.Sprintf("spare capacity %d, scale %g", spare, scale), func() modeling.Mesh {
			pr := rand.New(rand.NewSource(seed))
			pts := make([]vector2.Float64, n, n+spare)
			for i := range pts {
				pts[i] = vector2.New(pr.Float64(), pr.Float64()).Scale(scale)
			}
			return triangulation.BowyerWatson(pts)
		}
	})
	return t
}
