// Package c01 monitors property C01: mesh values are immutable. Random branching
// histories over a pool of live meshes; after every operation the complete
// observable state of every live mesh is re-read through the public accessors
// and compared bit for bit with the state recorded when the mesh was obtained.
package c01

import (
	"fmt"
	"io"
	"log"
	"math"
	"math/rand"
	"strings"
	"time"

	"github.com/EliCDavis/polyform/modeling"
	"github.com/EliCDavis/polyform/modeling/primitives"
	"github.com/EliCDavis/vector/vector2"
	"github.com/EliCDavis/vector/vector3"
	"polyverif/internal/c01/ops"
	"polyverif/internal/gen"
	"polyverif/internal/ref"
	"polyverif/internal/run"
)

func Spec() *run.Spec {
	return &run.Spec{
		ID: "C01", Level: "exploration",
		Rule: "Since round 9 the OBJ writer also runs on live meshes outside its own precondition (material runs that do not cover every face); its errors and panics are not verdicts, changed live meshes are. " +
			"one case = one random history of 10–60 steps over a pool of ≤ 8 live meshes (operations: the shared table internal/c01/ops — every deriving Mesh method, " +
			"every meshops/gausops transformer in function/Transformer/node form, repeat.Mesh, primitives as sources, scans, spatial helpers and the four format writers); " +
			"40 % of the steps derive two or three times from one base (same op with other arguments, or another op; the first derivation is repeated after the second so both orders occur), " +
			"bases are preferentially results of Append; after every single operation all live meshes are re-read and compared with their recorded fingerprint. " +
			"non-trivial = the history contains ≥ 1 sibling pair derived from a base that had a backing slice with cap > len (modeling.VerifStorage, evidence only); distinct by the operation sequence.",
		Assumptions: []string{
			"fingerprint = topology, index list, PrimitiveCount, AttributeLength (when unambiguous), material list (count, pointer, field values), attribute names per arity and every attribute value by raw IEEE bits, read only through the accessors named in the property",
			"slices handed to polyform (attribute data, index lists, material lists) are allocated per call and never touched again by the harness; mutation through caller-kept slices is documented sharing and out of reach",
			"some live meshes carry NaN (several payloads), ±Inf and -0 components; pure queries (BoundingBox per attribute, OctTree*, VertexNeighborTable, Tri accessors, iterators, scans, writers) are history steps like any other",
			"Modify*Parallel* are driven with pool sizes 8/16/NumCPU on receivers of 0–16 elements and a callback that takes a seeded 100–500 µs; their results are fingerprinted on return and re-read 2 ms later and at every later step",
			"sources (Cone, Cylinder, Circle, Cube welded/quads, UnitCube, Quad, UVSphere welded/unwelded, Hemisphere, extrude.Polygon/Circle/Line/Shape/ClosedShape, repeat.Mesh over repeat.Circle/Line/FibonacciSphere/CirclePoints, BowyerWatson) are built repeatedly within a history with identical, and with equal base but different secondary, parameters while earlier instances and their SetMaterial/ToPointCloud/SetIndices relatives are live",
			"operations are only generated with their precondition met; a panic or error is not a C01 verdict (the sweep still runs after it)",
			"results with more than 400 vertices or 3000 indices are swept once but not kept in the pool (bounds of the exploration); phase large-bases: pool ≤ 5, one base of 32769 … 131073 vertices, 8–16 steps, bounds 420000 vertices / 1300000 indices",
		},
		MinNontrivial: map[string]int{"quick": 400, "thorough": 10000},
		MinObserved: map[string]int64{
			"derivations_from_base_with_spare_capacity":   1000,
			"sibling_pairs_from_base_with_spare_capacity": 300,
			"ops_exercised":           60,
			"fingerprint_comparisons": 50000,
			"export_calls":            200,
		},
		Phases: []run.Phase{
			{Name: "histories", Cases: func(t string) int {
				if t == "thorough" {
					return 30000
				}
				return 1000
			}, Run: history, Batch: 25, CPUBudgetS: 60},
			{Name: "large-bases", Cases: func(t string) int {
				if t == "thorough" {
					return 60
				}
				return 6
			}, Run: history, Batch: 1, CPUBudgetS: 300},
		},
	}
}

var table = ops.All()

// indices into table by role
var (
	appendOps, deriveOps, observeOps, sourceOps []int
	queriesOp, poisonOp                         int
	modifyOps                                   []int
	repeatableSources, relativeOps              []int
)

func init() {
	log.SetOutput(io.Discard) // triangulation logs to the standard logger
	for i, o := range table {
		switch o.Kind {
		case ops.Derive:
			deriveOps = append(deriveOps, i)
			if o.Group == "special" {
				poisonOp = i
			}
			switch o.Name {
			case "Mesh.SetMaterial", "Mesh.SetMaterials", "Mesh.ToPointCloud", "Mesh.SetIndices", "Mesh.SetFloat1Attribute", "Mesh.Scan*":
				relativeOps = append(relativeOps, i)
			}
			if strings.HasPrefix(o.Name, "Mesh.ModifyFloat") {
				modifyOps = append(modifyOps, i)
			}
			if strings.HasPrefix(o.Name, "Mesh.Append") {
				appendOps = append(appendOps, i)
			}
		case ops.Observe:
			observeOps = append(observeOps, i)
			if o.Name == "Mesh.queries" {
				queriesOp = i
			}
		case ops.Source:
			sourceOps = append(sourceOps, i)
			if o.Name != "gen.Mesh" {
				repeatableSources = append(repeatableSources, i)
			}
		}
	}
}

type live struct {
	id     int
	m      modeling.Mesh // address stable: pool holds *live (gltf models point at it)
	snap   *ref.Snapshot
	prims  int
	attrN  int // -1 when attribute lengths disagree (AttributeLength ambiguous)
	origin string
	parent int // id of the receiver it was derived from, -1 for sources
	// baseKey: base parameters of the source this mesh is an instance of, or a relative of
	baseKey string
	viaApp  bool
}

func primsOf(m modeling.Mesh) (n int) {
	n = math.MinInt32
	run.Try(func() { n = m.PrimitiveCount() })
	return
}

func attrLenOf(m modeling.Mesh, s *ref.Snapshot) int {
	L := -1
	for _, k := range s.Names {
		l := len(s.Data[k]) / int(k[0]-'0')
		if L == -1 {
			L = l
		} else if L != l {
			return -1
		}
	}
	if L == -1 {
		return 0
	}
	return m.AttributeLength()
}

// strictDiff: ref.Diff treats -0/+0 and all NaNs alike; immutability is about the stored bits.
func strictDiff(a, b *ref.Snapshot) string {
	if d := a.Diff(b); d != "" {
		return d
	}
	for _, k := range a.Names {
		x, y := a.Data[k], b.Data[k]
		for i := range x {
			if math.Float64bits(x[i]) != math.Float64bits(y[i]) {
				return fmt.Sprintf("attribute %s component %d: bits %016x -> %016x", k, i, math.Float64bits(x[i]), math.Float64bits(y[i]))
			}
		}
	}
	return ""
}

type hist struct {
	c      *run.Ctx
	res    *run.Result
	r      *rand.Rand
	pool   []*live
	nextID int
	log    []string
	names  []string
	// evidence
	spareSiblingPairs int
	// bounds of the exploration
	large  bool
	fanOut bool // next apply draws the fan-out shape
	// sources: base seed of the next source call, and the base seeds this history used per source op
	sourceBase int64
	baseSeeds  map[int][]int64
	poolCap    int
	maxV       int
	maxI       int
}

func (h *hist) add(m modeling.Mesh, origin string, parent int, viaApp bool, protect map[int]bool) *live {
	s := ref.Snap(m)
	l := &live{id: h.nextID, m: m, snap: s, prims: primsOf(m), origin: origin, parent: parent, viaApp: viaApp}
	l.attrN = attrLenOf(m, s)
	h.nextID++
	if len(h.pool) < h.poolCap {
		h.pool = append(h.pool, l)
		return l
	}
	// evict a live mesh that is not protected (base / siblings of the running step)
	var cand []int
	for i, p := range h.pool {
		if !protect[p.id] {
			cand = append(cand, i)
		}
	}
	if len(cand) == 0 {
		return l // not kept
	}
	h.pool[cand[h.r.Intn(len(cand))]] = l
	return l
}

func (h *hist) tooBig(m modeling.Mesh) bool {
	if m.Indices().Len() > h.maxI {
		return true
	}
	return ref.AttrLen(m) > h.maxV
}

// spare: does any backing slice of m have cap > len (evidence only).
func spare(m modeling.Mesh) (any bool, which []string) {
	for _, s := range modeling.VerifStorage(m) {
		if s.Cap > s.Len {
			any = true
			which = append(which, s.Name)
		}
	}
	return
}

// sharing counts live pairs whose backing slices start at the same address, and
// those among them with different lengths (one mesh sees the other's spare capacity).
func (h *hist) sharing() (pairs, overlapped int64) {
	type sl struct {
		base uintptr
		ln   int
	}
	infos := make([]map[string][]sl, len(h.pool))
	for i, l := range h.pool {
		mp := map[string][]sl{}
		for _, s := range modeling.VerifStorage(l.m) {
			if s.Base != 0 && s.Cap > 0 {
				kind := s.Name[:1]
				mp[kind] = append(mp[kind], sl{s.Base, s.Len})
			}
		}
		infos[i] = mp
	}
	for i := 0; i < len(infos); i++ {
		for j := i + 1; j < len(infos); j++ {
			sh, ov := false, false
			for kind, a := range infos[i] {
				for _, x := range a {
					for _, y := range infos[j][kind] {
						if x.base == y.base {
							sh = true
							if x.ln != y.ln {
								ov = true
							}
						}
					}
				}
			}
			if sh {
				pairs++
			}
			if ov {
				overlapped++
			}
		}
	}
	return
}

// sweep re-reads every live mesh and compares it with its recorded fingerprint.
func (h *hist) sweep(opName, desc string, base *live, extra []*live) {
	check := func(l *live) {
		var now *ref.Snapshot
		p := run.Try(func() { now = ref.Snap(l.m) })
		h.res.Count("fingerprint_comparisons", 1)
		var diff string
		if p != nil {
			diff = "re-reading the mesh through its accessors panics: " + p.Value
		} else {
			diff = strictDiff(l.snap, now)
			if diff == "" {
				if pc := primsOf(l.m); pc != l.prims {
					diff = fmt.Sprintf("PrimitiveCount %d -> %d", l.prims, pc)
				} else if l.attrN >= 0 {
					if al := attrLenOf(l.m, now); al != l.attrN {
						diff = fmt.Sprintf("AttributeLength %d -> %d", l.attrN, al)
					}
				}
			}
		}
		if diff == "" {
			return
		}
		rel := "another live mesh"
		switch {
		case base != nil && l.id == base.id:
			rel = "the receiver of the operation"
		case base != nil && l.parent == base.id:
			rel = "a sibling (earlier derivation from the same base)"
		case base != nil && base.parent == l.id:
			rel = "the mesh the receiver was derived from"
		}
		lg := h.log
		if len(lg) > 40 {
			lg = lg[len(lg)-40:]
		}
		h.res.Violate("live-mesh-changed", opName, rel,
			fmt.Sprintf("after %s %s: live mesh #%d (%s; obtained by %s) no longer reports what it reported when it was obtained: %s", opName, desc, l.id, rel, l.origin, diff),
			map[string]any{"history": lg, "victim": l.origin, "victim_id": l.id, "relation": rel, "difference": diff})
		if now != nil { // re-baseline so that one corruption is reported once
			l.snap = now
			l.prims = primsOf(l.m)
			l.attrN = attrLenOf(l.m, now)
		}
	}
	for _, l := range h.pool {
		check(l)
	}
	for _, l := range extra {
		in := false
		for _, p := range h.pool {
			if p == l {
				in = true
			}
		}
		if !in {
			check(l)
		}
	}
}

// apply makes and runs one call of op on base with arguments drawn from seed.
func (h *hist) apply(opIdx int, base *live, seed int64, protect map[int]bool) (made bool, results []*live) {
	op := table[opIdx]
	var operands []*live
	env := &ops.Env{Valid: true, Large: h.large, FanOut: h.fanOut, SourceBase: h.sourceBase, Other: func(r *rand.Rand, like modeling.Mesh) modeling.Mesh {
		// half of the time a live mesh of the same topology, else a fresh small one (it joins the sweep as operand)
		if r.Intn(2) == 0 {
			var same []*live
			for _, l := range h.pool {
				if l.m.Topology() == like.Topology() && !h.tooBig(l.m) {
					same = append(same, l)
				}
			}
			if len(same) > 0 {
				l := same[r.Intn(len(same))]
				operands = append(operands, l)
				return l.m
			}
		}
		o, d := gen.Mesh(r, gen.MeshOpts{Topologies: []modeling.Topology{like.Topology()}, Materials: true, MaxVerts: 7, MaxPrims: 3, AllowEmpty: true})
		l := &live{id: h.nextID, m: o, snap: ref.Snap(o), prims: primsOf(o), origin: "fresh operand " + d.Sig(), parent: -1}
		l.attrN = attrLenOf(o, l.snap)
		h.nextID++
		operands = append(operands, l)
		return l.m
	}}
	call := op.Make(rand.New(rand.NewSource(seed)), &base.m, env)
	// Pre is the shared table's statement for C02 (a well-formed result is owed). C01 skips derivations whose
	// precondition fails, but writers marked ObserveAnyway run on whatever live mesh there is: an export that the writer
	// handles only partially (material runs that do not cover every face, round 9 C01-N) must still leave every
	// live mesh alone; its error or panic is, as always, not a C01 verdict.
	if !call.Pre && !call.ObserveAnyway {
		return false, nil
	}
	if !call.Pre {
		h.res.Count("exports_of_meshes_outside_the_writers_precondition", 1)
	}
	sp, _ := spare(base.m)
	if op.Kind == ops.Source && call.BaseKey != "" {
		inst, rel := false, false
		for _, l := range h.pool {
			if l.baseKey == call.BaseKey {
				if l.parent == -1 {
					inst = true
				} else {
					rel = true
				}
			}
		}
		if inst {
			h.res.Count("source_rebuilt_with_same_base_parameters_while_earlier_instance_live", 1)
			h.res.SetAdd("sources_rebuilt_while_instance_live", op.Name)
		}
		if rel {
			h.res.Count("source_rebuilt_with_same_base_parameters_while_relative_of_earlier_instance_live", 1)
		}
	}
	if op.Kind == ops.Observe && hasNonFinite(base.snap) {
		h.res.Count("query_steps_on_meshes_with_non_finite_values", 1)
	}
	h.c.Note(op.Name + " " + call.Desc)
	entry := fmt.Sprintf("#%d.%s %s", base.id, op.Name, call.Desc)
	var outs []modeling.Mesh
	var err error
	p := run.Try(func() { outs, err = call.Run() })
	switch {
	case p != nil:
		entry += " -> panic " + p.Value
		h.res.Count("ops_panicked", 1)
		if p.Runtime {
			h.res.SetAdd("ops_with_runtime_panic(receivers may be ill-formed after ClearAttributeData / foreign-length copies; not a C01 verdict)", op.Name)
		}
	case err != nil:
		entry += " -> error " + err.Error()
		h.res.Count("ops_returned_error", 1)
	}
	h.names = append(h.names, op.Name)
	if call.Evidence != "" {
		h.res.Count(call.Evidence, 1)
	}
	h.res.SetAdd("ops_exercised", op.Name)
	h.res.Count("operations", 1)
	switch op.Kind {
	case ops.Derive:
		h.res.Count("derivations", 1)
		if sp {
			h.res.Count("derivations_from_base_with_spare_capacity", 1)
		}
	case ops.Observe:
		if op.Group == "export" {
			h.res.Count("export_calls", 1)
		}
	}
	var fresh []*live
	for k, o := range outs {
		if h.tooBig(o) {
			h.res.Count("results_not_pooled_too_big", 1)
			l := &live{id: h.nextID, m: o, snap: ref.Snap(o), prims: primsOf(o), origin: entry, parent: base.id}
			l.attrN = attrLenOf(o, l.snap)
			h.nextID++
			fresh = append(fresh, l)
			continue
		}
		par := base.id
		if op.Kind == ops.Source {
			par = -1
		}
		l := h.add(o, fmt.Sprintf("%s [result %d]", entry, k), par, strings.HasPrefix(op.Name, "Mesh.Append") || op.Name == "repeat.Mesh", protect)
		if op.Kind == ops.Source {
			l.baseKey = call.BaseKey
		} else {
			l.baseKey = base.baseKey
		}
		protect[l.id] = true
		fresh = append(fresh, l)
		entry += fmt.Sprintf(" => #%d", l.id)
	}
	h.log = append(h.log, entry)
	// invariant at every step: all live meshes (operands, earlier results, siblings, the new results themselves)
	h.sweep(op.Name, call.Desc, base, append(operands, fresh...))
	if call.Async {
		// the result was fingerprinted the moment the call returned; a fan-out that returned
		// early is still writing - read everything again a little later (not a clock-based verdict:
		// the comparison is between two reads of a value that must never change)
		time.Sleep(2 * time.Millisecond)
		h.res.Count("async_results_reread_after_wait", 1)
		h.sweep(op.Name, call.Desc+" (re-read 2 ms after return)", base, append(operands, fresh...))
	}
	// operands that were freshly generated become live meshes too
	for _, o := range operands {
		in := false
		for _, pl := range h.pool {
			if pl == o {
				in = true
			}
		}
		if !in && h.r.Intn(2) == 0 {
			h.poolInsert(o, protect)
		}
	}
	pr, ov := h.sharing()
	h.res.Count("live_pairs_sharing_a_backing_array(sum over steps)", pr)
	h.res.Count("live_pairs_same_array_different_len(sum over steps)", ov)
	return true, fresh
}

func (h *hist) poolInsert(l *live, protect map[int]bool) {
	if len(h.pool) < h.poolCap {
		h.pool = append(h.pool, l)
		return
	}
	var cand []int
	for i, p := range h.pool {
		if !protect[p.id] {
			cand = append(cand, i)
		}
	}
	if len(cand) > 0 {
		h.pool[cand[h.r.Intn(len(cand))]] = l
	}
}

// pickBase prefers results of earlier Appends (they carry spare capacity).
func (h *hist) pickBase(wantTopo func(modeling.Topology) bool) *live {
	var w []*live
	for _, l := range h.pool {
		if wantTopo != nil && !wantTopo(l.m.Topology()) {
			continue
		}
		k := 1
		if l.viaApp {
			k = 5
		}
		if h.large && ref.AttrLen(l.m) > 20000 {
			k *= 6
		}
		for i := 0; i < k; i++ {
			w = append(w, l)
		}
	}
	if len(w) == 0 {
		return h.pool[h.r.Intn(len(h.pool))]
	}
	return w[h.r.Intn(len(w))]
}

func (h *hist) drawDerive(appendBias bool) int {
	if appendBias && h.r.Intn(10) < 6 {
		return appendOps[h.r.Intn(len(appendOps))]
	}
	return deriveOps[h.r.Intn(len(deriveOps))]
}

func history(c *run.Ctx) run.Result {
	var res run.Result
	r := c.Rng
	h := &hist{c: c, res: &res, r: r, poolCap: 8, maxV: 400, maxI: 3000}
	if c.Phase == "large-bases" {
		h.large, h.poolCap, h.maxV, h.maxI = true, 5, 420000, 1300000
	}
	none := map[int]bool{}
	// initial pool
	m0, d0 := gen.Mesh(r, gen.MeshOpts{Topologies: []modeling.Topology{modeling.TriangleTopology}, Materials: true, MaxVerts: 30, MinVerts: 3, MinPrims: 1})
	h.add(m0, "gen.Mesh "+d0.Sig(), -1, false, none)
	m1, d1 := gen.Mesh(r, gen.MeshOpts{Topologies: []modeling.Topology{modeling.TriangleTopology, modeling.PointTopology, modeling.PointTopology, modeling.LineStripTopology, modeling.QuadTopology},
		Materials: true, MaxVerts: 30, AllowEmpty: true})
	h.add(m1, "gen.Mesh "+d1.Sig(), -1, false, none)
	h.add(primitives.Cube{Width: 1, Height: 1, Depth: 1}.Welded(), "Cube.Welded", -1, false, none)
	// non-finite values (NaN payloads, ±Inf, -0) in some attribute of some initial mesh
	if r.Intn(2) == 0 {
		h.apply(poisonOp, h.pool[r.Intn(2)], r.Int63(), none)
	}
	// a base that certainly came from Append
	h.apply(appendOps[0], h.pool[0], r.Int63(), none)

	steps := 10 + r.Intn(51)
	if h.large {
		// one base with tens of thousands of vertices (block / batch sizes ± 1): chunked or
		// parallel rewrites that write into shared storage only show at such sizes
		n := []int{32769, 65537, 70001, 98305, 100000, 131073}[c.Case%6]
		lm, ld := largeBase(r, n)
		h.add(lm, "large base "+ld, -1, false, none)
		res.SetAdd("large_base_sizes", fmt.Sprint(n))
		lb := h.pool[len(h.pool)-1]
		h.apply(appendOps[0], lb, r.Int63(), map[int]bool{lb.id: true}) // and one with spare capacity
		// every deriving and observing operation once on the large base itself (the base stays live)
		for _, oi := range append(append([]int{}, deriveOps...), observeOps...) {
			if t := table[oi].Topo; t != nil && !t(lb.m.Topology()) {
				continue
			}
			h.apply(oi, lb, r.Int63(), map[int]bool{lb.id: true})
		}
		steps = 8 + r.Intn(9)
	}
	siblingSteps := 0
	for s := 0; s < steps; s++ {
		x := r.Float64()
		switch {
		case x < 0.40: // sibling step: two or three derivations from one base
			var base *live
			var protect map[int]bool
			var opA int
			var seedA int64
			okA, hadSpare := false, false
			for try := 0; try < 8 && !okA; try++ {
				opA = h.drawDerive(true)
				base = h.pickBase(table[opA].Topo)
				protect = map[int]bool{base.id: true}
				seedA = r.Int63()
				hadSpare, _ = spare(base.m)
				okA, _ = h.apply(opA, base, seedA, protect)
			}
			if !okA {
				break
			}
			n := 1
			okB := false
			for try := 0; try < 8 && !okB; try++ {
				opB := opA
				if r.Intn(10) >= 6 {
					opB = h.drawDerive(true)
				}
				okB, _ = h.apply(opB, base, r.Int63(), protect)
			}
			if okB {
				n++
			}
			if r.Intn(2) == 0 { // the first derivation again, now after the second: both orders
				if ok, _ := h.apply(opA, base, seedA, protect); ok {
					n++
				}
			}
			if n >= 2 {
				siblingSteps++
				res.Count("sibling_steps", 1)
				if hadSpare {
					h.spareSiblingPairs++
					res.Count("sibling_pairs_from_base_with_spare_capacity", int64(n*(n-1)/2))
				}
			}
		case x < 0.46 && !h.large: // fan-out step: a tiny mesh through the Parallel modifiers with more workers than elements
			tm, td := gen.Mesh(r, gen.MeshOpts{MaxVerts: 7, MinVerts: 1, V1Names: []string{"userV1"}, V2Names: []string{modeling.TexCoordAttribute}})
			tiny := h.add(tm, "gen.Mesh(tiny) "+td.Sig(), -1, false, none)
			h.fanOut = true
			for _, oi := range modifyOps {
				h.apply(oi, tiny, r.Int63(), map[int]bool{tiny.id: true})
			}
			h.fanOut = false
		case x < 0.53 && !h.large: // source-repeat step: one source built again and again with equal / partially equal parameters
			op := repeatableSources[r.Intn(len(repeatableSources))]
			h.sourceBase = h.drawBaseSeed(op)
			protect := map[int]bool{}
			s1 := r.Int63()
			_, f1 := h.apply(op, h.pool[0], s1, protect) // first instance
			if len(f1) > 0 && len(relativeOps) > 0 {     // a relative of it (SetMaterial / ToPointCloud / SetIndices / …)
				h.apply(relativeOps[r.Intn(len(relativeOps))], f1[0], r.Int63(), protect)
			}
			h.apply(op, h.pool[0], r.Int63(), protect) // same base parameters, other secondary parameters
			if r.Intn(2) == 0 {
				h.apply(op, h.pool[0], s1, protect) // the identical call again
			}
			h.sourceBase = 0
			res.Count("source_repeat_steps", 1)
		case x < 0.75: // plain derivation
			for try, ok := 0, false; try < 8 && !ok; try++ {
				op := h.drawDerive(false)
				base := h.pickBase(table[op].Topo)
				ok, _ = h.apply(op, base, r.Int63(), map[int]bool{base.id: true})
			}
		case x < 0.90: // observer: export, scan, spatial structures
			for try, ok := 0, false; try < 8 && !ok; try++ {
				op := observeOps[r.Intn(len(observeOps))]
				if r.Intn(5) < 2 {
					op = queriesOp
				}
				base := h.pickBase(table[op].Topo)
				ok, _ = h.apply(op, base, r.Int63(), map[int]bool{base.id: true})
			}
		default: // a new source (the welded cube hands out a package-level index slice)
			op := sourceOps[r.Intn(len(sourceOps))]
			h.sourceBase = h.drawBaseSeed(op)
			h.apply(op, h.pool[0], r.Int63(), map[int]bool{})
			h.sourceBase = 0
		}
	}
	res.Count("histories", 1)
	res.Count("history_steps", int64(steps))
	res.Nontrivial = h.spareSiblingPairs >= 1
	res.Sig = fmt.Sprintf("steps%d sib%d spare%d %016x", steps, siblingSteps, h.spareSiblingPairs, run.HashStr(strings.Join(h.names, ">")))
	smp := h.log
	if len(smp) > 12 {
		smp = smp[:12]
	}
	res.Sample = map[string]any{"steps": steps, "first_operations": smp}
	return res
}

// largeBase: a point or triangle mesh with n vertices, the last of them referenced.
func largeBase(r *rand.Rand, n int) (modeling.Mesh, string) {
	pos := make([]vector3.Float64, n)
	nor := make([]vector3.Float64, n)
	uv := make([]vector2.Float64, n)
	op := make([]float64, n)
	for i := range pos {
		pos[i] = vector3.New(r.Float64()*1000-500, r.Float64()*1000-500, r.Float64()*1000-500)
		nor[i] = vector3.New(0., 1., 0.)
		uv[i] = vector2.New(r.Float64(), r.Float64())
		op[i] = r.Float64()
	}
	topo := modeling.PointTopology
	var idx []int
	if r.Intn(2) == 0 {
		topo = modeling.TriangleTopology
		for i := 0; i+2 < n; i += 3 {
			if r.Intn(12) == 0 && i > 30 {
				continue // unreferenced vertices
			}
			idx = append(idx, i, i+1, i+2)
		}
		idx = append(idx, n-3, n-2, n-1)
	} else if r.Intn(2) == 0 {
		idx = r.Perm(n)
	} else {
		for i := 0; i < n; i++ {
			if i >= n-64 || r.Intn(10) != 0 {
				idx = append(idx, i)
			}
		}
	}
	m := modeling.NewMesh(topo, idx).SetFloat3Attribute(modeling.PositionAttribute, pos).SetFloat3Attribute(modeling.NormalAttribute, nor).
		SetFloat2Attribute(modeling.TexCoordAttribute, uv).SetFloat1Attribute(modeling.OpacityAttribute, op)
	if topo == modeling.TriangleTopology && r.Intn(2) == 0 {
		np := len(idx) / 3
		mats := gen.MaterialPool(r, 2)
		m = m.SetMaterials([]modeling.MeshMaterial{{PrimitiveCount: np / 3, Material: mats[0]}, {PrimitiveCount: np - np/3, Material: mats[1]}})
	}
	return m, fmt.Sprintf("%s %d vertices %d indices", topo, n, len(idx))
}

func hasNonFinite(s *ref.Snapshot) bool {
	for _, d := range s.Data {
		for _, f := range d {
			if math.IsNaN(f) || math.IsInf(f, 0) {
				return true
			}
		}
	}
	return false
}

// drawBaseSeed: half of the time a base seed this history already used for the source (so the
// same base parameters come back while earlier instances may still be live), else a new one.
func (h *hist) drawBaseSeed(op int) int64 {
	if h.baseSeeds == nil {
		h.baseSeeds = map[int][]int64{}
	}
	if old := h.baseSeeds[op]; len(old) > 0 && h.r.Intn(2) == 0 {
		return old[h.r.Intn(len(old))]
	}
	s := h.r.Int63() | 1
	h.baseSeeds[op] = append(h.baseSeeds[op], s)
	return s
}
