package c16

import (
	"fmt"
	"math"
	"math/rand"
	"sort"
	"strings"
)

// scene is one generated element set together with the data needed to hand it
// to polyform (vertex array + index list for the mesh-backed kinds).
type scene struct {
	kind  string // points | strip | segments | triangles | boxes | mixed
	dist  string // spatial layout class
	elems []elem
	exact bool    // every coordinate is a small even integer (all bounds arithmetic is exact)
	S     float64 // nominal half size of the layout
	lo    v3      // exact global bounds of the elements
	hi    v3
	scale float64 // max(1, largest |coordinate|)

	// the previous ray query on this scene (round 11, C16-P: marching along one ray with a growing min)
	hasLastRay       bool
	lastO, lastD     v3
	lastMin, lastMax float64

	// mesh-backed kinds
	pos          []v3
	idx          []int
	indexPattern string // point clouds: identity | permuted | shared | unreferenced (+permuted)
	special      string // special-coordinate ingredients applied to the scene ("" = none)
	originElems  []int  // indices of zero-extent elements placed exactly at the world origin
	signedZero   bool   // zero coordinates / box extents carry random signs
	// mixed / segments: per element, which source mesh + primitive it comes from is
	// decided by the builder (build.go)
}

var distNames = []string{"uniform", "clustered", "coincident", "overlapping", "collinear-axis", "collinear-generic", "coplanar", "lattice", "grid"}

func pick(r *rand.Rand, w []int) int {
	t := 0
	for _, x := range w {
		t += x
	}
	k := r.Intn(t)
	for i, x := range w {
		if k < x {
			return i
		}
		k -= x
	}
	return len(w) - 1
}

func randDir(r *rand.Rand) v3 {
	for {
		d := v3{r.NormFloat64(), r.NormFloat64(), r.NormFloat64()}
		if l := d.len(); l > 1e-3 {
			return d.mul(1 / l)
		}
	}
}

func randIn(r *rand.Rand, lo, hi v3) v3 {
	return v3{lo[0] + r.Float64()*(hi[0]-lo[0]), lo[1] + r.Float64()*(hi[1]-lo[1]), lo[2] + r.Float64()*(hi[2]-lo[2])}
}

func pickCount(r *rand.Rand, max int) int {
	var n int
	switch pick(r, []int{5, 10, 15, 35, 35}) {
	case 0:
		n = 1
	case 1:
		n = 2 + r.Intn(2)
	case 2:
		n = 4 + r.Intn(6)
	case 3:
		n = 10 + r.Intn(55)
	default:
		n = 65 + r.Intn(336)
	}
	if n > max {
		n = max
	}
	return n
}

// layout produces anchor positions and an element size for a layout class.
type layout struct {
	r       *rand.Rand
	dist    string
	S       float64
	off     v3
	centres []v3
	sigma   float64
	dir     v3
	axis    int
	latM    int
	size    float64 // nominal element size
}

func newLayout(r *rand.Rand, dist string) *layout {
	l := &layout{r: r, dist: dist}
	l.S = []float64{1, 1, 1, 1, 1, 1, 1, 1e-3, 0.05, 10, 100, 1000}[r.Intn(12)]
	switch pick(r, []int{70, 20, 10}) {
	case 1:
		l.off = randDir(r).mul(l.S * 10 * r.Float64())
	case 2:
		l.off = randDir(r).mul(math.Min(l.S*1000, 1500) * r.Float64())
	}
	l.size = l.S * math.Pow(10, -2+1.7*r.Float64())
	switch dist {
	case "clustered":
		k := 1 + r.Intn(4)
		for i := 0; i < k; i++ {
			l.centres = append(l.centres, l.off.add(v3{l.u(), l.u(), l.u()}))
		}
		l.sigma = l.S * math.Pow(10, -3+2*r.Float64())
		l.size = l.sigma * (0.2 + 2*r.Float64())
	case "overlapping":
		l.size = l.S * (0.5 + 1.5*r.Float64())
	case "collinear-axis", "coplanar":
		l.axis = r.Intn(3)
	case "collinear-generic":
		l.dir = randDir(r)
	case "lattice":
		l.latM = 1 + r.Intn(4)
		l.S = float64(2 * l.latM)
		l.off = v3{}
		l.size = 2
	}
	return l
}

func (l *layout) u() float64 { return (2*l.r.Float64() - 1) * l.S }

func (l *layout) latCoord() float64 { return float64(2 * (l.r.Intn(2*l.latM+1) - l.latM)) }

func (l *layout) anchor() v3 {
	r := l.r
	switch l.dist {
	case "clustered":
		if r.Intn(10) < 3 {
			return l.off.add(v3{l.u(), l.u(), l.u()})
		}
		c := l.centres[r.Intn(len(l.centres))]
		return c.add(v3{r.NormFloat64(), r.NormFloat64(), r.NormFloat64()}.mul(l.sigma))
	case "overlapping":
		return l.off.add(v3{r.NormFloat64(), r.NormFloat64(), r.NormFloat64()}.mul(0.1 * l.S))
	case "collinear-axis":
		p := l.off
		p[l.axis] += l.u()
		return p
	case "collinear-generic":
		return l.off.add(l.dir.mul(l.u()))
	case "coplanar":
		p := l.off.add(v3{l.u(), l.u(), l.u()})
		p[l.axis] = l.off[l.axis]
		return p
	case "lattice":
		return v3{l.latCoord(), l.latCoord(), l.latCoord()}
	}
	return l.off.add(v3{l.u(), l.u(), l.u()})
}

// extent returns a displacement of roughly the element size that respects the
// layout (stays on the line / in the plane / on the lattice where the class asks for it).
func (l *layout) extent() v3 {
	r := l.r
	switch l.dist {
	case "lattice":
		for {
			e := v3{float64(2 * (r.Intn(5) - 2)), float64(2 * (r.Intn(5) - 2)), float64(2 * (r.Intn(5) - 2))}
			if e != (v3{}) {
				return e
			}
		}
	case "coplanar":
		e := randDir(r)
		e[l.axis] = 0
		if e.len() < 0.1 {
			e[(l.axis+1)%3] = 1
		}
		return e.unit().mul(l.size * (0.2 + r.Float64()))
	case "collinear-axis":
		if r.Intn(2) == 0 {
			e := v3{}
			e[l.axis] = l.size * (0.2 + r.Float64())
			if r.Intn(2) == 0 {
				e[l.axis] = -e[l.axis]
			}
			return e
		}
	case "collinear-generic":
		if r.Intn(2) == 0 {
			s := l.size * (0.2 + r.Float64())
			if r.Intn(2) == 0 {
				s = -s
			}
			return l.dir.mul(s)
		}
	}
	return randDir(r).mul(l.size * (0.2 + r.Float64()))
}

func wellShaped(a, b, c v3) bool {
	e1, e2, e3 := b.sub(a), c.sub(a), c.sub(b)
	l1, l2, l3 := e1.len(), e2.len(), e3.len()
	if l1 == 0 || l2 == 0 || l3 == 0 {
		return false
	}
	m := math.Max(l1, math.Max(l2, l3))
	// twice the area over the squared longest edge = height/longest edge: keep ≥ 0.1
	return e1.cross(e2).len() >= 0.1*m*m && math.Min(l1, math.Min(l2, l3)) >= 0.05*m
}

func (l *layout) element(kind int) elem {
	for tries := 0; ; tries++ {
		a := l.anchor()
		switch kind {
		case kPoint:
			return elem{kind: kPoint, v: [3]v3{a}}
		case kSegment:
			b := a.add(l.extent())
			if b != a && b.dist(a) > 0 {
				return elem{kind: kSegment, v: [3]v3{a, b}}
			}
		case kTriangle:
			b, c := a.add(l.extent()), a.add(l.extent())
			if l.dist == "collinear-axis" || l.dist == "collinear-generic" {
				// keep a on the line, spread the other two off it
				c = a.add(randDir(l.r).mul(l.size * (0.2 + l.r.Float64())))
			}
			if wellShaped(a, b, c) {
				return elem{kind: kTriangle, v: [3]v3{a, b, c}}
			}
		case kBox:
			var h v3
			for k := 0; k < 3; k++ {
				if l.dist == "lattice" {
					h[k] = float64(2 * l.r.Intn(3))
				} else {
					h[k] = l.size * l.r.Float64()
					if l.r.Intn(10) == 0 {
						h[k] = 0
					}
				}
			}
			if l.dist == "coplanar" {
				h[l.axis] = 0
			}
			return elem{kind: kBox, v: [3]v3{a.sub(h), a.add(h)}}
		}
		if tries > 200 {
			panic("c16 generator: cannot build a well-shaped element")
		}
	}
}

// genScene draws one element set.
func genScene(r *rand.Rand, kind string, maxN int) *scene {
	var dist string
	for {
		dist = distNames[r.Intn(len(distNames))]
		if dist == "grid" && kind != "triangles" {
			continue
		}
		break
	}
	l := newLayout(r, dist)
	n := pickCount(r, maxN)
	sc := &scene{kind: kind, dist: dist, S: l.S, exact: dist == "lattice"}

	kindOf := func() int {
		switch kind {
		case "points":
			return kPoint
		case "strip", "segments":
			return kSegment
		case "triangles":
			return kTriangle
		case "boxes":
			return kBox
		}
		return r.Intn(4)
	}

	switch {
	case dist == "grid":
		sc.genGrid(r, l, n)
		sc.applySpecial(r)
	case kind == "strip":
		sc.genStrip(r, l, n)
		sc.applySpecial(r)
	default:
		pool := 0
		if dist == "coincident" {
			pool = 1 + r.Intn(1+n/8)
		}
		var distinct []elem
		for i := 0; i < n; i++ {
			if pool > 0 && len(distinct) >= pool {
				sc.elems = append(sc.elems, distinct[r.Intn(len(distinct))])
				continue
			}
			e := l.element(kindOf())
			distinct = append(distinct, e)
			sc.elems = append(sc.elems, e)
		}
		if pool > 0 {
			r.Shuffle(len(sc.elems), func(i, j int) { sc.elems[i], sc.elems[j] = sc.elems[j], sc.elems[i] })
		}
		sc.applySpecial(r)
		if kind == "points" || kind == "triangles" {
			sc.meshFromElems(r)
		}
	}
	sc.finish()
	return sc
}

func negZero() float64 { return math.Copysign(0, -1) }

// applySpecial makes exactly-representable special coordinates a regular
// ingredient (≈ 12 % of the scenes): the whole scene is translated so that a
// vertex / a bounds minimum / a bounds maximum of some element is exactly 0 on
// all or some axes; zero-extent elements (points, zero-size boxes) are placed
// exactly at the world origin as element 0, as the last element or somewhere in
// between; further zero-extent elements get coordinates from {-1,0,+1}. Values
// such as "the empty box" (centre 0, extents 0) are thereby ordinary inputs.
func (sc *scene) applySpecial(r *rand.Rand) {
	if r.Intn(100) >= 12 {
		return
	}
	n := len(sc.elems)
	var tags []string
	// 1. translation
	e := sc.elems[r.Intn(n)]
	var t v3
	moved := true
	switch r.Intn(5) {
	case 0:
		t = vertexOf(r, e)
		tags = append(tags, "vertex-at-0")
	case 1:
		t, _ = e.bounds()
		tags = append(tags, "bounds-min-at-0")
	case 2:
		_, t = e.bounds()
		tags = append(tags, "bounds-max-at-0")
	case 3:
		lo, hi := e.bounds()
		t = lo.add(hi).mul(0.5)
		if sc.exact {
			t = lo
		}
		tags = append(tags, "origin-inside-an-element")
	default:
		moved = false
	}
	if moved {
		switch r.Intn(4) {
		case 1: // exact zero on two axes only
			t[r.Intn(3)] = 0
			tags[0] += "(2 axes)"
		case 2: // … on one axis only
			k := r.Intn(3)
			t[(k+1)%3], t[(k+2)%3] = 0, 0
			tags[0] += "(1 axis)"
		}
		for i := range sc.elems {
			for k := 0; k < sc.elems[i].nv(); k++ {
				sc.elems[i].v[k] = sc.elems[i].v[k].sub(t)
			}
		}
		for i := range sc.pos {
			sc.pos[i] = sc.pos[i].sub(t)
		}
	}
	// 2./3. zero-extent elements at the origin and at unit coordinates
	zeroElem := func(p v3) (elem, bool) {
		k := -1
		switch sc.kind {
		case "points":
			k = kPoint
		case "boxes":
			k = kBox
		case "mixed":
			k = []int{kPoint, kBox}[r.Intn(2)]
		}
		switch k {
		case kPoint:
			return elem{kind: kPoint, v: [3]v3{p}}, true
		case kBox:
			return elem{kind: kBox, v: [3]v3{p, p}}, true
		}
		return elem{}, false
	}
	if _, ok := zeroElem(v3{}); ok {
		if r.Intn(10) < 7 {
			var slots []int
			switch pick(r, []int{45, 15, 25, 15}) {
			case 0:
				slots = []int{0}
				tags = append(tags, "origin-element-first")
			case 1:
				slots = []int{n - 1}
				tags = append(tags, "origin-element-last")
			case 2:
				slots = []int{r.Intn(n)}
				tags = append(tags, "origin-element-inside")
			default:
				slots = []int{0, r.Intn(n), n - 1}
				tags = append(tags, "origin-element-several")
			}
			for _, i := range slots {
				o := v3{}
				if r.Intn(4) == 0 {
					o[r.Intn(3)] = negZero()
				}
				sc.elems[i], _ = zeroElem(o)
			}
		}
		if r.Intn(10) < 4 {
			for k := 1 + r.Intn(4); k > 0; k-- {
				p := v3{float64(r.Intn(3) - 1), float64(r.Intn(3) - 1), float64(r.Intn(3) - 1)}
				sc.elems[r.Intn(n)], _ = zeroElem(p)
			}
			tags = append(tags, "unit-coordinates")
		}
	}
	if r.Intn(2) == 0 {
		// signed zeros in the element coordinates themselves
		for i := range sc.elems {
			for k := 0; k < sc.elems[i].nv(); k++ {
				sc.elems[i].v[k] = signZeros(r, sc.elems[i].v[k])
			}
		}
		for i := range sc.pos {
			sc.pos[i] = signZeros(r, sc.pos[i])
		}
		sc.signedZero = true
		tags = append(tags, "signed-zero-coordinates")
	}
	for i, e := range sc.elems {
		if (e.kind == kPoint || e.kind == kBox) && e.v[0] == (v3{}) && (e.kind == kPoint || e.v[1] == (v3{})) {
			sc.originElems = append(sc.originElems, i)
		}
	}
	if len(tags) == 0 {
		tags = []string{"origin-queries-only"}
	}
	sc.special = strings.Join(tags, "+")
}

// genStrip: a poly-line through n+1 vertices; consecutive vertices differ.
func (sc *scene) genStrip(r *rand.Rand, l *layout, n int) {
	var verts []v3
	if l.dist == "coincident" {
		// a few vertices visited over and over: many coincident segments
		k := 2 + r.Intn(3)
		for len(verts) < k {
			a := l.anchor()
			ok := true
			for _, b := range verts {
				if a == b {
					ok = false
				}
			}
			if ok {
				verts = append(verts, a)
			}
		}
		last := r.Intn(k)
		sc.idx = []int{last}
		for i := 0; i < n; i++ {
			nx := r.Intn(k - 1)
			if nx >= last {
				nx++
			}
			sc.idx = append(sc.idx, nx)
			last = nx
		}
	} else {
		verts = append(verts, l.anchor())
		for len(verts) < n+1 {
			var a v3
			if r.Intn(2) == 0 {
				a = verts[len(verts)-1].add(l.extent())
			} else {
				a = l.anchor()
			}
			if a != verts[len(verts)-1] {
				verts = append(verts, a)
			}
		}
		for i := range verts {
			sc.idx = append(sc.idx, i)
		}
		if r.Intn(3) == 0 {
			// store the vertices in a shuffled order
			perm := r.Perm(len(verts))
			nv := make([]v3, len(verts))
			for i, p := range perm {
				nv[p] = verts[i]
				sc.idx[i] = p
			}
			verts = nv
		}
	}
	sc.pos = verts
	for i := 0; i+1 < len(sc.idx); i++ {
		sc.elems = append(sc.elems, elem{kind: kSegment, v: [3]v3{verts[sc.idx[i]], verts[sc.idx[i+1]]}})
	}
}

// genGrid: a welded height-field grid (shared vertices, bounds of neighbours touch/overlap).
func (sc *scene) genGrid(r *rand.Rand, l *layout, n int) {
	w := 1 + int(math.Sqrt(float64(n)/2))
	h := (n + 2*w - 1) / (2 * w)
	if h < 1 {
		h = 1
	}
	flat := r.Intn(3) == 0
	lattice := r.Intn(2) == 0
	step := l.S * 2 / float64(maxI(w, h))
	if lattice {
		step = 2
		sc.exact = flat
		l.off = v3{}
		sc.S = float64(maxI(w, h))
	}
	ax := r.Intn(3)
	for j := 0; j <= h; j++ {
		for i := 0; i <= w; i++ {
			var p v3
			p[(ax+1)%3] = l.off[(ax+1)%3] + step*float64(i-w/2)
			p[(ax+2)%3] = l.off[(ax+2)%3] + step*float64(j-h/2)
			p[ax] = l.off[ax]
			if !flat {
				p[ax] += step * (r.Float64() - 0.5)
			}
			sc.pos = append(sc.pos, p)
		}
	}
	id := func(i, j int) int { return j*(w+1) + i }
	for j := 0; j < h; j++ {
		for i := 0; i < w; i++ {
			a, b, c, d := id(i, j), id(i+1, j), id(i+1, j+1), id(i, j+1)
			if r.Intn(2) == 0 {
				sc.idx = append(sc.idx, a, b, c, a, c, d)
			} else {
				sc.idx = append(sc.idx, a, b, d, b, c, d)
			}
		}
	}
	for t := 0; t+2 < len(sc.idx); t += 3 {
		sc.elems = append(sc.elems, elem{kind: kTriangle, v: [3]v3{sc.pos[sc.idx[t]], sc.pos[sc.idx[t+1]], sc.pos[sc.idx[t+2]]}})
	}
}

func maxI(a, b int) int {
	if a > b {
		return a
	}
	return b
}

// meshFromElems lays points / triangle soup out as vertex array + index list,
// optionally storing the vertices in a shuffled order and adding unreferenced ones.
func (sc *scene) meshFromElems(r *rand.Rand) {
	sc.pos, sc.idx = nil, nil
	for _, e := range sc.elems {
		for k := 0; k < e.nv(); k++ {
			sc.idx = append(sc.idx, len(sc.pos))
			sc.pos = append(sc.pos, e.v[k])
		}
	}
	if sc.kind == "triangles" && r.Intn(3) == 0 {
		sc.permuteStorage(r)
	}
	if sc.kind == "points" {
		// index patterns of a point cloud: element i is the vertex indices[i]
		sc.indexPattern = "identity"
		switch pick(r, []int{35, 20, 25, 20}) {
		case 1:
			sc.permuteStorage(r)
			sc.indexPattern = "permuted"
		case 2:
			// shared vertices: equal positions are stored once and referenced repeatedly
			// (more points than vertices whenever the layout has coincident elements;
			// otherwise a few elements are made to re-use an earlier vertex)
			if !sc.duplicates() && len(sc.elems) > 1 {
				for k := 1 + r.Intn(1+len(sc.elems)/4); k > 0; k-- {
					i, j := r.Intn(len(sc.elems)), r.Intn(len(sc.elems))
					sc.elems[i] = sc.elems[j]
				}
			}
			var np []v3
			at := map[v3]int{}
			for i, e := range sc.elems {
				id, ok := at[e.v[0]]
				if !ok {
					id = len(np)
					at[e.v[0]] = id
					np = append(np, e.v[0])
				}
				sc.idx[i] = id
			}
			sc.pos = np
			sc.indexPattern = "shared"
			if r.Intn(2) == 0 {
				sc.permuteStorage(r)
				sc.indexPattern = "shared+permuted"
			}
		case 3:
			// unreferenced vertices interleaved with the referenced ones
			var np []v3
			for i := range sc.idx {
				for r.Intn(3) == 0 {
					np = append(np, sc.pos[i].add(randDir(r).mul(sc.S*r.Float64())))
				}
				sc.idx[i] = len(np)
				np = append(np, sc.pos[i])
			}
			for r.Intn(2) == 0 {
				np = append(np, sc.lo.add(randDir(r).mul(sc.S*10)))
			}
			sc.pos = np
			sc.indexPattern = "unreferenced"
			if r.Intn(2) == 0 {
				sc.permuteStorage(r)
				sc.indexPattern = "unreferenced+permuted"
			}
		}
	}
}

// permuteStorage stores the vertices in a shuffled order and remaps the index list.
func (sc *scene) permuteStorage(r *rand.Rand) {
	perm := r.Perm(len(sc.pos))
	np := make([]v3, len(sc.pos))
	for i, p := range perm {
		np[p] = sc.pos[i]
	}
	for i := range sc.idx {
		sc.idx[i] = perm[sc.idx[i]]
	}
	sc.pos = np
}

func (sc *scene) finish() {
	sc.lo, sc.hi = sc.elems[0].bounds()
	for _, e := range sc.elems {
		l, h := e.bounds()
		for k := 0; k < 3; k++ {
			sc.lo[k] = math.Min(sc.lo[k], l[k])
			sc.hi[k] = math.Max(sc.hi[k], h[k])
		}
	}
	sc.scale = math.Max(1, math.Max(sc.lo.maxAbs(), sc.hi.maxAbs()))
}

func (sc *scene) diameter() float64 {
	d := sc.hi.sub(sc.lo).len()
	if d == 0 {
		d = sc.S
	}
	return d
}

// duplicates reports whether two elements are identical (they then share a leaf at any depth).
func (sc *scene) duplicates() bool {
	keys := make([]string, len(sc.elems))
	for i, e := range sc.elems {
		keys[i] = fmt.Sprint(e.kind, e.v)
	}
	sort.Strings(keys)
	for i := 1; i < len(keys); i++ {
		if keys[i] == keys[i-1] {
			return true
		}
	}
	return false
}

func sizeBucket(n int) string {
	switch {
	case n == 1:
		return "1"
	case n <= 3:
		return "2-3"
	case n <= 9:
		return "4-9"
	case n <= 64:
		return "10-64"
	case n <= 200:
		return "65-200"
	}
	return "201-400"
}

// pointOn returns a random point of element e.
func pointOn(r *rand.Rand, e elem) v3 {
	switch e.kind {
	case kPoint:
		return e.v[0]
	case kSegment:
		return e.v[0].add(e.v[1].sub(e.v[0]).mul(r.Float64()))
	case kBox:
		return randIn(r, e.v[0], e.v[1])
	}
	u, v := r.Float64(), r.Float64()
	if u+v > 1 {
		u, v = 1-u, 1-v
	}
	return e.v[0].add(e.v[1].sub(e.v[0]).mul(u)).add(e.v[2].sub(e.v[0]).mul(v))
}

// vertexOf returns one of the defining corners of e (for boxes: any of the 8 corners).
func vertexOf(r *rand.Rand, e elem) v3 {
	if e.kind == kBox {
		var p v3
		for k := 0; k < 3; k++ {
			p[k] = e.v[r.Intn(2)][k]
		}
		return p
	}
	return e.v[r.Intn(e.nv())]
}

// queryPoint draws a query position; the class name goes into the evidence.
func (sc *scene) queryPoint(r *rand.Rand) (v3, string) {
	p, class := sc.queryPoint0(r)
	return signZeros(r, p), class
}

func (sc *scene) queryPoint0(r *rand.Rand) (v3, string) {
	e := sc.elems[r.Intn(len(sc.elems))]
	diam := sc.diameter()
	centre := sc.lo.add(sc.hi).mul(0.5)
	w := []int{20, 15, 10, 12, 8, 8, 5, 0, 8, 6, 0, 0}
	if sc.exact {
		w[7] = 30
	}
	if sc.special != "" {
		w[10], w[11] = 30, 12
	}
	switch pick(r, w) {
	case 10:
		o := v3{}
		if r.Intn(5) == 0 {
			o[r.Intn(3)] = negZero()
		}
		return o, "world-origin"
	case 11:
		var p v3
		p[r.Intn(3)] = []float64{1, -1, 0.5, -0.5, sc.S, -sc.S}[r.Intn(6)]
		if r.Intn(3) == 0 {
			p = v3{float64(r.Intn(3) - 1), float64(r.Intn(3) - 1), float64(r.Intn(3) - 1)}
		}
		return p, "unit-coordinates"
	case 0:
		pad := sc.hi.sub(sc.lo).mul(0.05)
		return randIn(r, sc.lo.sub(pad), sc.hi.add(pad)), "inside"
	case 1:
		return vertexOf(r, e), "at-vertex"
	case 2:
		return pointOn(r, e), "on-element"
	case 3:
		return pointOn(r, e).add(randDir(r).mul(sc.S * math.Pow(10, -9+7*r.Float64()))), "near-element"
	case 4:
		return centre.add(randDir(r).mul(diam * (3 + 47*r.Float64()))), "far"
	case 5:
		p := randIn(r, sc.lo, sc.hi)
		for k := 0; k < 3; k++ {
			switch r.Intn(3) {
			case 0:
				p[k] = sc.lo[k]
			case 1:
				p[k] = sc.hi[k]
			}
		}
		return p, "on-global-bounds"
	case 6:
		p := centre
		if r.Intn(2) == 0 { // on one split plane only
			q := randIn(r, sc.lo, sc.hi)
			k := r.Intn(3)
			q[k] = centre[k]
			p = q
		}
		return p, "split-plane"
	case 7:
		m := int(sc.S) + 2
		return v3{float64(r.Intn(2*m+1) - m), float64(r.Intn(2*m+1) - m), float64(r.Intn(2*m+1) - m)}, "lattice"
	case 8:
		p := randIn(r, sc.lo, sc.hi)
		k := r.Intn(3)
		d := diam * math.Pow(10, -9+9*r.Float64())
		if r.Intn(2) == 0 {
			p[k] = sc.lo[k] - d
		} else {
			p[k] = sc.hi[k] + d
		}
		return p, "just-outside"
	}
	// the vertex of an element shifted along one axis by a representable amount
	p := vertexOf(r, e)
	p[r.Intn(3)] += float64(r.Intn(9)-4) * 0.25 * sc.S
	return p, "axis-offset-from-vertex"
}

// direction draws a ray direction from origin o (weights: axis, generic, aimed at an
// element, lattice diagonal). Signed zeros are ordinary values here: half of the
// axis/diagonal directions are produced by flipping the opposite vector (scaling
// by -1 turns its zero components into -0, as Up().Flip() does), half of the
// aimed ones as (o-t)·(-1/|o-t|), which gives -0 wherever o and t share a
// coordinate; occasionally a zero component is replaced by a denormal.
func (sc *scene) direction(r *rand.Rand, o v3, w []int) (d v3, class string, aimDist float64) {
	aimDist = -1
	diam := sc.diameter()
	flip := r.Intn(2) == 0
	switch pick(r, w) {
	case 0:
		d[r.Intn(3)] = float64(1 - 2*r.Intn(2))
		class = "axis"
		if flip {
			d = d.mul(-1)
			class = "axis(flipped)"
		}
	case 1:
		return randDir(r), "generic", aimDist
	case 2:
		t := pointOn(r, sc.elems[r.Intn(len(sc.elems))])
		if t.dist(o) < 1e-6*diam {
			return randDir(r), "generic", aimDist
		}
		aimDist = t.dist(o)
		if flip {
			return o.sub(t).mul(-1 / aimDist), "aimed(flipped)", aimDist
		}
		return t.sub(o).mul(1 / aimDist), "aimed", aimDist
	default:
		for d == (v3{}) {
			d = v3{float64(r.Intn(3) - 1), float64(r.Intn(3) - 1), float64(r.Intn(3) - 1)}
		}
		class = "diagonal"
		if flip {
			d = d.mul(-1)
			class = "diagonal(flipped)"
		}
		d = d.unit()
	}
	if r.Intn(8) == 0 {
		for k := range d {
			if d[k] == 0 && r.Intn(2) == 0 {
				d[k] = math.Copysign(float64(1+r.Intn(1000))*5e-324, float64(1-2*r.Intn(2)))
				class += "+denormal"
				break
			}
		}
	}
	return d, class, aimDist
}

// signZeros flips the sign of zero coordinates at random (-0 and +0 are the same
// number; an implementation must not care).
func signZeros(r *rand.Rand, p v3) v3 {
	for k := range p {
		if p[k] == 0 && r.Intn(3) == 0 {
			p[k] = math.Copysign(0, -1)
		}
	}
	return p
}
