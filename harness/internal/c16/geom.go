package c16

// The harness's own geometry: nothing in this file calls polyform. Closest
// points follow the region classification of Ericson (Real-Time Collision
// Detection §5.1), the slab test is the textbook interval intersection and the
// ray/triangle test is Möller–Trumbore written from the definition.

import "math"

type v3 [3]float64

func (a v3) add(b v3) v3       { return v3{a[0] + b[0], a[1] + b[1], a[2] + b[2]} }
func (a v3) sub(b v3) v3       { return v3{a[0] - b[0], a[1] - b[1], a[2] - b[2]} }
func (a v3) mul(s float64) v3  { return v3{a[0] * s, a[1] * s, a[2] * s} }
func (a v3) dot(b v3) float64  { return a[0]*b[0] + a[1]*b[1] + a[2]*b[2] }
func (a v3) len() float64      { return math.Sqrt(a.dot(a)) }
func (a v3) dist(b v3) float64 { return a.sub(b).len() }
func (a v3) cross(b v3) v3 {
	return v3{a[1]*b[2] - a[2]*b[1], a[2]*b[0] - a[0]*b[2], a[0]*b[1] - a[1]*b[0]}
}
func (a v3) unit() v3 { return a.mul(1 / a.len()) }
func (a v3) maxAbs() float64 {
	return math.Max(math.Abs(a[0]), math.Max(math.Abs(a[1]), math.Abs(a[2])))
}
func (a v3) finite() bool {
	for _, x := range a {
		if math.IsNaN(x) || math.IsInf(x, 0) {
			return false
		}
	}
	return true
}

const (
	kPoint = iota
	kSegment
	kTriangle
	kBox
)

var kindName = []string{"point", "segment", "triangle", "box"}

// elem is the harness's description of one element. Points use v[0];
// segments v[0],v[1]; triangles v[0..2]; boxes v[0]=min corner, v[1]=max corner.
type elem struct {
	kind int
	v    [3]v3
}

func (e elem) nv() int {
	switch e.kind {
	case kPoint:
		return 1
	case kSegment, kBox:
		return 2
	}
	return 3
}

// bounds returns the exact axis-aligned extent of the element.
func (e elem) bounds() (lo, hi v3) {
	lo, hi = e.v[0], e.v[0]
	for i := 1; i < e.nv(); i++ {
		for k := 0; k < 3; k++ {
			lo[k] = math.Min(lo[k], e.v[i][k])
			hi[k] = math.Max(hi[k], e.v[i][k])
		}
	}
	return
}

func clampF(x, lo, hi float64) float64 { return math.Max(lo, math.Min(hi, x)) }

func closestOnBox(lo, hi, p v3) v3 {
	return v3{clampF(p[0], lo[0], hi[0]), clampF(p[1], lo[1], hi[1]), clampF(p[2], lo[2], hi[2])}
}

func closestOnSegment(a, b, p v3) v3 {
	ab := b.sub(a)
	den := ab.dot(ab)
	if den == 0 {
		return a
	}
	t := p.sub(a).dot(ab) / den
	if t <= 0 {
		return a
	}
	if t >= 1 {
		return b
	}
	return a.add(ab.mul(t))
}

// closestOnTriangle: Voronoi-region classification (vertex, edge, face).
func closestOnTriangle(a, b, c, p v3) v3 {
	ab, ac, ap := b.sub(a), c.sub(a), p.sub(a)
	d1, d2 := ab.dot(ap), ac.dot(ap)
	if d1 <= 0 && d2 <= 0 {
		return a
	}
	bp := p.sub(b)
	d3, d4 := ab.dot(bp), ac.dot(bp)
	if d3 >= 0 && d4 <= d3 {
		return b
	}
	vc := d1*d4 - d3*d2
	if vc <= 0 && d1 >= 0 && d3 <= 0 {
		return a.add(ab.mul(d1 / (d1 - d3)))
	}
	cp := p.sub(c)
	d5, d6 := ab.dot(cp), ac.dot(cp)
	if d6 >= 0 && d5 <= d6 {
		return c
	}
	vb := d5*d2 - d1*d6
	if vb <= 0 && d2 >= 0 && d6 <= 0 {
		return a.add(ac.mul(d2 / (d2 - d6)))
	}
	va := d3*d6 - d5*d4
	if va <= 0 && (d4-d3) >= 0 && (d5-d6) >= 0 {
		return b.add(c.sub(b).mul((d4 - d3) / ((d4 - d3) + (d5 - d6))))
	}
	den := 1 / (va + vb + vc)
	return a.add(ab.mul(vb * den)).add(ac.mul(vc * den))
}

// closest returns the point of the element nearest to p. For triangles it takes
// the better of the region classification and the three edge candidates, so that
// a rounding decision at a region border cannot cost more than rounding.
func (e elem) closest(p v3) v3 {
	switch e.kind {
	case kPoint:
		return e.v[0]
	case kSegment:
		return closestOnSegment(e.v[0], e.v[1], p)
	case kBox:
		return closestOnBox(e.v[0], e.v[1], p)
	}
	best := closestOnTriangle(e.v[0], e.v[1], e.v[2], p)
	bd := best.dist(p)
	for i := 0; i < 3; i++ {
		c := closestOnSegment(e.v[i], e.v[(i+1)%3], p)
		if d := c.dist(p); d < bd {
			best, bd = c, d
		}
	}
	return best
}

// slab intersects the parameter interval of the ray o+t·d inside the box
// [lo-grow, hi+grow] with [tmin,tmax]. Empty iff t1 < t0; t1-t0 is the margin.
func slab(lo, hi, o, d v3, tmin, tmax, grow float64) (t0, t1 float64) {
	t0, t1 = tmin, tmax
	for k := 0; k < 3; k++ {
		l, h := lo[k]-grow, hi[k]+grow
		if d[k] == 0 {
			if o[k] < l || o[k] > h {
				return math.Inf(1), math.Inf(-1)
			}
			continue
		}
		a, b := (l-o[k])/d[k], (h-o[k])/d[k]
		if a > b {
			a, b = b, a
		}
		if a > t0 {
			t0 = a
		}
		if b < t1 {
			t1 = b
		}
	}
	return
}

// triHit is the outcome of the harness's ray/triangle test.
type triHit struct {
	t, u, v float64 // ray parameter and barycentric coordinates of v[1], v[2]
	det     float64 // e1 · (d × e2)  (d unit): 2·area·cos(angle to the normal)
	ok      bool    // false: det == 0 (ray in the triangle's plane or degenerate)
}

func mollerTrumbore(a, b, c, o, d v3) triHit {
	e1, e2 := b.sub(a), c.sub(a)
	pv := d.cross(e2)
	det := e1.dot(pv)
	if det == 0 {
		return triHit{}
	}
	inv := 1 / det
	tv := o.sub(a)
	u := tv.dot(pv) * inv
	qv := tv.cross(e1)
	v := d.dot(qv) * inv
	t := e2.dot(qv) * inv
	return triHit{t: t, u: u, v: v, det: det, ok: true}
}

// inside margin of the barycentric coordinates: > 0 strictly inside, < 0 outside.
func (h triHit) baryMargin() float64 {
	return math.Min(h.u, math.Min(h.v, 1-h.u-h.v))
}
