package c16

import (
	"fmt"
	"math"
	mrand "math/rand"
	"sort"

	"github.com/EliCDavis/polyform/modeling"
	"github.com/EliCDavis/polyform/rendering"
	"github.com/EliCDavis/vector/vector2"
	"github.com/EliCDavis/vector/vector3"
	"polyverif/internal/run"
)

// candidate is one triangle the ray may hit, classified by the harness's own
// Möller–Trumbore with explicit error bars.
type candidate struct {
	i      int
	t      float64
	ttol   float64
	status int // stIn = definite hit, stBoundary = cannot be decided within rounding
}

// Polyform's triangle test (rendering/mesh.go rayIntersectsTri) is the element
// semantics the index is built over; it is an input of the property, not the
// thing under test. Its conventions, as far as they decide what "a hit" is:
//   - |e1·(d×e2)| < 1e-6  → treated as parallel, no hit
//   - the distance t' is measured from origin+min·d and must be ≥ 1e-6 there
//   - the upper limit is compared against that shifted distance t' = t-min, while
//     the distance written to the record (and handed on as the next limit) is the
//     true one t. So the first hit is accepted up to max+min, and once a hit at c
//     is recorded a later element is accepted up to c+min.
//
// With min = 0 this is the plain nearest hit in [1e-6, max]. With min > 0 a scan
// (exhaustive or through a tree) may legitimately end on any crossing reachable
// from the nearest one through steps of at most `min`; the reference accepts
// exactly that set and marks everything within rounding of a border as undecidable.
func classify(sc *scene, o, d v3, tmin, tmax float64) (cands []candidate) {
	for i, e := range sc.elems {
		h := mollerTrumbore(e.v[0], e.v[1], e.v[2], o, d)
		if !h.ok {
			continue
		}
		ad := math.Abs(h.det)
		if ad < 1e-6*(1-1e-9) {
			continue
		}
		st := stIn
		if ad < 1e-6*(1+1e-9) {
			st = stBoundary
		}
		e1, e2 := e.v[1].sub(e.v[0]), e.v[2].sub(e.v[0])
		M := o.sub(e.v[0]).len() + math.Abs(tmin)
		btol := 1e-9 + 1e-12*M*math.Max(e1.len(), e2.len())/ad
		ttol := 1e-9*math.Max(1, sc.scale) + 1e-12*M*e1.len()*e2.len()/ad + 1e-12*math.Abs(h.t)
		bm := h.baryMargin()
		if bm < -btol {
			continue
		}
		if bm <= btol {
			st = stBoundary
		}
		if h.t < tmin+1e-6-ttol {
			continue
		}
		if h.t < tmin+1e-6+ttol || h.t > tmax-ttol {
			st = stBoundary // beyond max: only reachable through the min-chain
		}
		cands = append(cands, candidate{i: i, t: h.t, ttol: ttol, status: st})
	}
	sort.Slice(cands, func(a, b int) bool { return cands[a].t < cands[b].t })
	return
}

// chainLimit: the farthest crossing reachable from `from` through steps ≤ step.
func chainLimit(cands []candidate, from, ftol, step float64) (float64, float64) {
	limit, ltol := from, ftol
	for _, c := range cands { // sorted by t
		if c.t > limit && c.t <= limit+step+c.ttol+ltol {
			limit, ltol = c.t, c.ttol
		}
	}
	return limit, ltol
}

const (
	classHard = "nearest-hit-mismatch"
	classMinW = "nearest-hit-min-window"
	siteMinW  = "rendering.rayIntersectsTri (upper limit compared with distance-min)"
)

// judge decides one structure's answer against the candidates; class "" = acceptable.
//
// The strict expectation is the property's: the nearest crossing inside
// [min+1e-6, max]. An answer that is not that one but is explained by the
// limit-versus-shifted-distance convention described above (only possible with
// min > 0) is reported under its own signature (classMinW), anything else as a
// plain mismatch.
func judge(cands []candidate, tmin, tmax float64, hit bool, dist float64, point, o, d v3, scale float64) (class, msg string) {
	nearestDef, nearestTol := math.Inf(1), 0.0
	for _, c := range cands {
		if c.status == stIn {
			nearestDef, nearestTol = c.t, c.ttol
			break
		}
	}
	if !hit {
		if !math.IsInf(nearestDef, 1) {
			return classHard, fmt.Sprintf("reports no hit, exhaustive search finds a hit at distance %.12g", nearestDef)
		}
		return "", ""
	}
	var m *candidate
	for i := range cands {
		if math.Abs(cands[i].t-dist) <= cands[i].ttol {
			m = &cands[i]
			break
		}
	}
	if m == nil {
		if len(cands) == 0 {
			return classHard, fmt.Sprintf("reports a hit at distance %.12g, exhaustive search finds no crossing at all", dist)
		}
		return classHard, fmt.Sprintf("reports a hit at distance %.12g which is no triangle's crossing (nearest crossing %.12g)", dist, cands[0].t)
	}
	want := o.add(d.mul(dist))
	if point.dist(want) > 1e-9*math.Max(1, math.Max(scale, math.Max(o.maxAbs(), math.Abs(dist)))) {
		return classHard, fmt.Sprintf("hit point %v is not origin + distance·direction = %v", point, want)
	}
	strictOK := dist <= tmax+m.ttol && (math.IsInf(nearestDef, 1) || dist <= nearestDef+nearestTol+m.ttol)
	if strictOK {
		return "", ""
	}
	// explained by the min window?
	var limit, ltol float64
	if !math.IsInf(nearestDef, 1) {
		limit, ltol = chainLimit(cands, nearestDef, nearestTol, tmin)
	} else {
		start, stol := math.Inf(-1), 0.0
		for _, c := range cands {
			if c.t <= tmax+tmin+c.ttol {
				start, stol = c.t, c.ttol
			}
		}
		if math.IsInf(start, -1) {
			return classHard, fmt.Sprintf("reports a hit at distance %.12g, beyond max+min = %.12g", dist, tmax+tmin)
		}
		limit, ltol = chainLimit(cands, start, stol, tmin)
	}
	if dist > limit+ltol {
		return classHard, fmt.Sprintf("reports a hit at distance %.12g, the nearest hit is at %.12g", dist, nearestDef)
	}
	if math.IsInf(nearestDef, 1) {
		return classMinW, fmt.Sprintf("reports a hit at distance %.12g > max = %.12g (min = %g): the limit is compared with distance-min", dist, tmax, tmin)
	}
	return classMinW, fmt.Sprintf("reports a hit at distance %.12g although a nearer one exists at %.12g (min = %g): a crossing up to min behind the current best replaces it", dist, nearestDef, tmin)
}

func bvhCase(c *run.Ctx) run.Result {
	var res run.Result
	r := c.Rng
	var sc *scene
	for {
		sc = genScene(r, "triangles", 400)
		if sc.S >= 0.05 { // polyform's absolute 1e-6 parallel threshold makes tiny triangles unhittable
			break
		}
	}
	n := len(sc.elems)
	normals := make([]vector3.Float64, len(sc.pos))
	for i := range normals {
		normals[i] = pv(randDir(r))
	}
	// NewBVHTree picks its split axes from the global math/rand source: pin it to
	// the case so that the structure under test is reproducible.
	mrand.Seed(int64(r.Uint64() >> 1))

	var (
		bvh    *rendering.BVHNode
		list   rendering.HitList
		octbvh rendering.Tree
		rmesh  rendering.Mesh
	)
	c.Note(fmt.Sprintf("build bvh %s n=%d", sc.dist, n))
	if p := run.Try(func() {
		mesh := modeling.NewTriangleMesh(append([]int{}, sc.idx...)).
			SetFloat3Attribute(modeling.PositionAttribute, pvs(sc.pos)).
			SetFloat3Attribute(modeling.NormalAttribute, normals)
		bvh = rendering.NewBVHFromMesh(mesh, nil)
		rmesh = rendering.NewMesh(mesh, nil)
		singles := make([]rendering.Hittable, n)
		for i, e := range sc.elems {
			single := modeling.NewTriangleMesh([]int{0, 1, 2}).
				SetFloat3Attribute(modeling.PositionAttribute, []vector3.Float64{pv(e.v[0]), pv(e.v[1]), pv(e.v[2])}).
				SetFloat3Attribute(modeling.NormalAttribute, []vector3.Float64{normals[0], normals[0], normals[0]})
			singles[i] = rendering.NewBVHFromMesh(single, nil)
		}
		list = rendering.HitList(append([]rendering.Hittable{}, singles...))
		octbvh = rendering.NewBVH(append([]rendering.Hittable{}, singles...), 0, 0)
	}); p != nil {
		res.Violate("runtime-panic", "rendering BVH construction", sc.dist, fmt.Sprintf("panic: %v at %s", p.Value, p.Site), sc.witness(&built{how: "rendering.NewBVHFromMesh"}, nil, nil, nil))
		return res
	}
	b := &built{how: "rendering.NewBVHFromMesh", depth: -1}

	type structure struct {
		site string
		hit  func(ray *rendering.TemporalRay, min, max float64, rec *rendering.HitRecord) bool
	}
	structures := []structure{
		{"rendering.BVHNode.Hit", bvh.Hit},
		{"rendering.HitList.Hit (exhaustive scan)", list.Hit},
		{"rendering.Mesh.Hit (octree, TraverseIntersectingRay)", rmesh.Hit},
		{"rendering.Tree.Hit (octree over boxes, ElementsIntersectingRay)", octbvh.Hit},
	}

	diam := sc.diameter()
	nearestNot0 := false
	const nq = 20
	type rayQ struct {
		o, d       v3
		tmin, tmax float64
		class      string
		ray        rendering.TemporalRay
		cands      []candidate
		nearest    float64 // nearest definite hit, +Inf if none
	}
	rays := make([]rayQ, 0, nq)
	for q := 0; q < nq; q++ {
		o, oc := sc.queryPoint(r)
		d, dc, _ := sc.direction(r, o, []int{15, 25, 50, 10})
		var tmin, tmax float64
		var mc string
		switch pick(r, []int{50, 25, 25}) {
		case 0:
			tmin, mc = 0, "min=0"
		case 1:
			tmin, mc = 0.001, "min=0.001"
		default:
			tmin, mc = diam*0.3*r.Float64(), "min>0"
		}
		if pick(r, []int{60, 40}) == 0 {
			tmax = diam * 1000
		} else {
			tmax = tmin + diam*2*r.Float64()
			mc += ",short-max"
		}
		ray := rendering.NewTemporalRay(pv(o), pv(d), 0)
		d = fromPV(ray.Ray().Direction()) // the direction the structures use
		countSignedZero(&res, d, "bvh_rays")
		res.SetAdd("bvh_ray_classes", oc+"/"+dc+"/"+mc)
		cands := classify(sc, o, d, tmin, tmax)
		nDef, nAmb := 0, 0
		for _, cd := range cands {
			if cd.status == stIn {
				nDef++
			} else {
				nAmb++
			}
		}
		res.Count("bvh_rays", 1)
		switch {
		case nDef > 0:
			res.Count("bvh_rays_with_definite_hit", 1)
			for _, cd := range cands {
				if cd.status == stIn {
					if cd.i != 0 {
						nearestNot0 = true
					}
					break
				}
			}
		case nAmb == 0:
			res.Count("bvh_rays_definite_miss", 1)
		}
		if nAmb > 0 {
			res.Count("bvh_rays_with_undecidable_candidates", 1)
		}
		res.Count("bvh_candidate_crossings", int64(len(cands)))
		nearest := math.Inf(1)
		for _, cd := range cands {
			if cd.status == stIn {
				nearest = cd.t
				break
			}
		}
		rays = append(rays, rayQ{o: o, d: d, tmin: tmin, tmax: tmax, class: oc + "/" + dc + "/" + mc, ray: ray, cands: cands, nearest: nearest})
	}

	// The hit record is an OUT parameter: what it held before the call must not
	// influence the answer. Record kinds are a workload dimension of every entry point.
	//   fresh            rendering.NewHitRecord() per call
	//   reused           ONE record per entry point for all rays of the case (half of these
	//                    cases ask the rays in order of increasing hit distance: near first)
	//   mixed            per call one of: literal with empty maps (Distance 0), bare
	//                    &HitRecord{} (only HitList.Hit / Tree.Hit: BVHNode.Hit and Mesh.Hit
	//                    write Float3Data["barycentric"] into the caller's record and need
	//                    the map), Distance pre-set to tiny / half the true hit distance /
	//                    huge / NaN / +Inf / negative
	mode := []string{"fresh", "reused", "reused-near-first", "mixed", "mixed"}[r.Intn(5)]
	res.SetAdd("bvh_record_modes", mode)
	if mode == "reused-near-first" {
		sort.SliceStable(rays, func(i, j int) bool { return rays[i].nearest < rays[j].nearest })
	}
	reused := make([]*rendering.HitRecord, len(structures))
	for i := range reused {
		reused[i] = rendering.NewHitRecord()
	}
	withMaps := func(dist float64) *rendering.HitRecord {
		rec := rendering.NewHitRecord()
		rec.Distance = dist
		return rec
	}
	for _, rq := range rays {
		o, d, tmin, tmax, cands, ray := rq.o, rq.d, rq.tmin, rq.tmax, rq.cands, rq.ray
		query := map[string]any{"origin": o, "direction": fmtV(d), "min": tmin, "max": tmax, "class": rq.class, "record_mode": mode}
		type answer struct {
			Hit      bool    `json:"hit"`
			Distance float64 `json:"distance"`
			Point    v3      `json:"point"`
		}
		answers := map[string]answer{}
		for si, s := range structures {
			var rec *rendering.HitRecord
			recKind := mode
			switch mode {
			case "fresh":
				rec = rendering.NewHitRecord()
			case "reused", "reused-near-first":
				rec = reused[si]
				if rec.Distance != 0 {
					res.Count("bvh_calls_with_record_holding_an_earlier_hit", 1)
					if rec.Distance < rq.nearest && !math.IsInf(rq.nearest, 1) {
						res.Count("bvh_calls_with_record_holding_a_nearer_earlier_hit", 1)
					}
				}
			default:
				switch k := r.Intn(9); k {
				case 0:
					recKind, rec = "fresh", rendering.NewHitRecord()
				case 1:
					recKind = "literal-with-maps"
					rec = &rendering.HitRecord{Float3Data: map[string]vector3.Float64{}, Float2Data: map[string]vector2.Float64{}}
				case 2:
					if si == 1 || si == 3 {
						recKind, rec = "bare-literal", &rendering.HitRecord{}
					} else {
						recKind = "literal-with-maps"
						rec = &rendering.HitRecord{Float3Data: map[string]vector3.Float64{}, Float2Data: map[string]vector2.Float64{}}
					}
				case 3:
					recKind, rec = "distance-tiny", withMaps(1e-12*diam)
				case 4:
					recKind = "distance-half-of-true-hit"
					h := rq.nearest * 0.5
					if math.IsInf(h, 1) {
						h = diam * r.Float64()
					}
					rec = withMaps(h)
				case 5:
					recKind, rec = "distance-huge", withMaps(1e9*diam)
				case 6:
					recKind, rec = "distance-NaN", withMaps(math.NaN())
				case 7:
					recKind, rec = "distance-+Inf", withMaps(math.Inf(1))
				default:
					recKind, rec = "distance-negative", withMaps(-diam*r.Float64())
				}
			}
			res.SetAdd("bvh_record_kinds", recKind)
			query["record_kind"] = recKind
			var hit bool
			c.Note(s.site + " record=" + recKind)
			rr := ray
			if p := run.Try(func() { hit = s.hit(&rr, tmin, tmax, rec) }); p != nil {
				res.Violate("runtime-panic", s.site, sc.dist, fmt.Sprintf("panic: %v at %s", p.Value, p.Site), sc.witness(b, query, nil, nil))
				continue
			}
			a := answer{Hit: hit}
			if hit {
				a.Distance, a.Point = rec.Distance, fromPV(rec.Point)
			}
			answers[s.site] = a
			if class, msg := judge(cands, tmin, tmax, hit, a.Distance, a.Point, o, d, sc.scale); class != "" {
				var want []map[string]any
				for _, cd := range cands {
					if len(want) < 6 {
						want = append(want, map[string]any{"triangle": cd.i, "t": cd.t, "definite": cd.status == stIn})
					}
				}
				site := s.site
				if class == classMinW {
					site = siteMinW
					res.Count("bvh_answers_explained_by_min_window", 1)
				}
				res.Violate(class, site, sc.dist,
					fmt.Sprintf("%s [incoming record: %s]: ray o=%v d=%v [%g,%g]: %s", s.site, recKind, o, d, tmin, tmax, msg), sc.witness(b, query, map[string]any{"structure": s.site, "answer": a}, want))
			}
		}
	}
	res.Nontrivial = n >= 2 && nearestNot0
	res.Sig = fmt.Sprintf("bvh|%s|n=%s", sc.dist, sizeBucket(n))
	res.SetAdd("bvh_layouts", sc.dist)
	res.SetAdd("bvh_size_buckets", sizeBucket(n))
	res.Count("bvh_scenes", 1)
	res.Count("bvh_triangles", int64(n))
	if c.Case%1500 == 1 {
		res.Sample = map[string]any{"layout": sc.dist, "triangles": n, "first_triangle": sc.elems[0].v, "bounds": []v3{sc.lo, sc.hi}}
	}
	return res
}
