package c16

import (
	"math"
	"math/rand"

	"github.com/EliCDavis/polyform/math/geometry"
	"github.com/EliCDavis/polyform/modeling"
	"github.com/EliCDavis/polyform/trees"
	"github.com/EliCDavis/vector/vector3"
)

func pv(a v3) vector3.Float64     { return vector3.New(a[0], a[1], a[2]) }
func fromPV(v vector3.Float64) v3 { return v3{v.X(), v.Y(), v.Z()} }

func pvs(a []v3) []vector3.Float64 {
	out := make([]vector3.Float64, len(a))
	for i, p := range a {
		out[i] = pv(p)
	}
	return out
}

// built is the polyform side of a scene.
type built struct {
	tree     *trees.OctTree
	how      string // constructor path
	depth    int    // requested depth, -1 = automatic
	effDepth int    // depth the tree was built with (automatic: max(1, round(log8 n)))
	pmin     []v3   // element bounds as reported by polyform's Element.BoundingBox()
	pmax     []v3
	els      []trees.Element // the elements the tree was built over (same values the constructor saw)
}

func autoDepth(n int) int {
	return int(math.Max(1, math.Round(math.Log(float64(n))/math.Log(8))))
}

func pickDepth(r *rand.Rand) int {
	switch pick(r, []int{25, 15, 15, 15, 10, 7, 7, 6}) {
	case 0:
		return -1
	case 1:
		return 0
	case 2:
		return 1
	case 3:
		return 2
	case 4:
		return 3
	case 5:
		return 4
	case 6:
		return 5
	}
	return 6
}

const customAttr = "verif-query-positions"

func decoy(pos []v3) []vector3.Float64 {
	out := make([]vector3.Float64, len(pos))
	for i, p := range pos {
		out[len(pos)-1-i] = pv(v3{-p[1] + 3, p[2] * 2, p[0] - 1})
	}
	return out
}

func identity(idx []int) bool {
	for i, x := range idx {
		if i != x {
			return false
		}
	}
	return true
}

// scopeAll returns the tree elements of every primitive of a mesh for one attribute.
func scopeAll(m modeling.Mesh, attr string) []trees.Element {
	out := make([]trees.Element, m.PrimitiveCount())
	m.ScanPrimitives(func(i int, p modeling.Primitive) { out[i] = p.Scope(attr) })
	return out
}

// build hands the scene to polyform. All calls into polyform happen here and
// in the query functions; the caller wraps build in run.Try.
func build(r *rand.Rand, sc *scene) *built {
	b := &built{depth: pickDepth(r)}
	n := len(sc.elems)
	b.effDepth = b.depth
	if b.depth < 0 {
		b.effDepth = autoDepth(n)
	}
	var elements []trees.Element
	var mesh *modeling.Mesh
	attr := modeling.PositionAttribute
	useCustom := r.Intn(8) == 0
	mk := func(m modeling.Mesh, pos []v3) modeling.Mesh {
		if useCustom {
			attr = customAttr
			return m.SetFloat3Attribute(modeling.PositionAttribute, decoy(pos)).SetFloat3Attribute(customAttr, pvs(pos))
		}
		return m.SetFloat3Attribute(modeling.PositionAttribute, pvs(pos))
	}
	switch sc.kind {
	case "points":
		var m modeling.Mesh
		if identity(sc.idx) && len(sc.idx) == len(sc.pos) && r.Intn(2) == 0 {
			if useCustom {
				attr = customAttr
				m = modeling.NewPointCloud(nil, map[string][]vector3.Float64{modeling.PositionAttribute: decoy(sc.pos), customAttr: pvs(sc.pos)}, nil, nil, nil)
			} else {
				m = modeling.NewPointCloud(nil, map[string][]vector3.Float64{modeling.PositionAttribute: pvs(sc.pos)}, nil, nil, nil)
			}
		} else {
			m = mk(modeling.NewMesh(modeling.PointTopology, append([]int{}, sc.idx...)), sc.pos)
		}
		mesh = &m
	case "strip":
		var m modeling.Mesh
		if identity(sc.idx) && len(sc.idx) == len(sc.pos) && !useCustom && r.Intn(2) == 0 {
			m = modeling.NewLineStripMesh(map[string][]vector3.Float64{modeling.PositionAttribute: pvs(sc.pos)}, nil, nil, nil)
		} else {
			m = mk(modeling.NewMesh(modeling.LineStripTopology, append([]int{}, sc.idx...)), sc.pos)
		}
		mesh = &m
	case "triangles":
		m := mk(modeling.NewTriangleMesh(append([]int{}, sc.idx...)), sc.pos)
		mesh = &m
	default:
		elements = looseElements(sc)
	}

	if mesh != nil {
		own := scopeAll(*mesh, attr)
		b.readBounds(own)
		switch pick(r, []int{60, 40}) {
		case 0:
			switch {
			case useCustom:
				d := b.effDepth
				b.how = "Mesh.OctTreeWithAttributeAndDepth"
				b.tree = mesh.OctTreeWithAttributeAndDepth(attr, d)
			case b.depth < 0:
				b.how = "Mesh.OctTree"
				b.tree = mesh.OctTree()
			default:
				b.how = "Mesh.OctTreeDepth"
				b.tree = mesh.OctTreeDepth(b.depth)
			}
			return b
		default:
			elements = own
		}
	} else {
		b.readBounds(elements)
	}
	if b.depth < 0 {
		b.how = "trees.NewOctree"
		b.tree = trees.NewOctree(elements)
	} else {
		b.how = "trees.NewOctreeWithDepth"
		b.tree = trees.NewOctreeWithDepth(elements, b.depth)
	}
	return b
}

func (b *built) readBounds(els []trees.Element) {
	b.els = els
	b.pmin = make([]v3, len(els))
	b.pmax = make([]v3, len(els))
	for i, e := range els {
		bb := e.BoundingBox()
		b.pmin[i], b.pmax[i] = fromPV(bb.Min()), fromPV(bb.Max())
	}
}

// looseElements builds tree elements one by one (independent segments, boxes,
// mixed sets): points/segments/triangles come from polyform's own primitive
// scopes of small carrier meshes, boxes are trees.BoundingBoxElement.
func looseElements(sc *scene) []trees.Element {
	var pts, segs, tris []v3
	for _, e := range sc.elems {
		switch e.kind {
		case kPoint:
			pts = append(pts, e.v[0])
		case kSegment:
			segs = append(segs, e.v[0], e.v[1])
		case kTriangle:
			tris = append(tris, e.v[0], e.v[1], e.v[2])
		}
	}
	var pe, se, te []trees.Element
	if len(pts) > 0 {
		pe = scopeAll(modeling.NewPointCloud(nil, map[string][]vector3.Float64{modeling.PositionAttribute: pvs(pts)}, nil, nil, nil), modeling.PositionAttribute)
	}
	if len(segs) > 0 {
		// strip a0,b0,a1,b1,…: the even primitives are the wanted segments
		se = scopeAll(modeling.NewLineStripMesh(map[string][]vector3.Float64{modeling.PositionAttribute: pvs(segs)}, nil, nil, nil), modeling.PositionAttribute)
	}
	if len(tris) > 0 {
		idx := make([]int, len(tris))
		for i := range idx {
			idx[i] = i
		}
		te = scopeAll(modeling.NewTriangleMesh(idx).SetFloat3Attribute(modeling.PositionAttribute, pvs(tris)), modeling.PositionAttribute)
	}
	out := make([]trees.Element, 0, len(sc.elems))
	ip, is, it := 0, 0, 0
	for _, e := range sc.elems {
		switch e.kind {
		case kPoint:
			out = append(out, pe[ip])
			ip++
		case kSegment:
			out = append(out, se[2*is])
			is++
		case kTriangle:
			out = append(out, te[it])
			it++
		case kBox:
			if (is+it+ip+len(out))%2 == 0 {
				out = append(out, trees.BoundingBoxElement(geometry.NewAABBFromPoints(pv(e.v[0]), pv(e.v[1]))))
			} else {
				c := e.v[0].add(e.v[1]).mul(0.5)
				size := e.v[1].sub(e.v[0])
				if sc.signedZero {
					for k := range size {
						if size[k] == 0 && (len(out)+k)%2 == 0 {
							size[k] = math.Copysign(0, -1) // a zero extent is a zero extent, whatever its sign
						}
					}
				}
				out = append(out, trees.BoundingBoxElement(geometry.NewAABB(pv(c), pv(size))))
			}
		}
	}
	return out
}
