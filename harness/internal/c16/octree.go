package c16

import (
	"fmt"
	"math"
	"math/rand"
	"sort"
	"strings"

	"github.com/EliCDavis/polyform/math/geometry"
	"polyverif/internal/run"
)

var octKinds = []string{"points", "strip", "segments", "triangles", "boxes", "mixed"}

const (
	stIn = iota
	stBoundary
	stOut
)

// witness is the materialised input of a failing query (kept small).
type witness struct {
	Kind     string      `json:"kind"`
	Dist     string      `json:"layout"`
	Build    string      `json:"constructor"`
	Depth    int         `json:"depth"`
	N        int         `json:"elements"`
	Elements [][]v3      `json:"element_vertices,omitempty"`
	Query    interface{} `json:"query"`
	Got      interface{} `json:"got,omitempty"`
	Want     interface{} `json:"want,omitempty"`
}

func (sc *scene) witness(b *built, query, got, want interface{}) witness {
	w := witness{Kind: sc.kind, Dist: sc.dist, Build: b.how, Depth: b.depth, N: len(sc.elems), Query: query, Got: got, Want: want}
	if len(sc.elems) <= 24 {
		for _, e := range sc.elems {
			w.Elements = append(w.Elements, e.v[:e.nv()])
		}
	}
	return w
}

func sortedCopy(a []int) []int {
	out := append([]int{}, a...)
	sort.Ints(out)
	return out
}

func hasDup(sorted []int) bool {
	for i := 1; i < len(sorted); i++ {
		if sorted[i] == sorted[i-1] {
			return true
		}
	}
	return false
}

func clip(a []int, n int) []int {
	if len(a) > n {
		return a[:n]
	}
	return a
}

// compareSets checks got against a three-valued expectation: every index with
// status stIn must be present, none with stOut may be, stBoundary is free.
// Returns (missing, extra, outOfRange).
func compareSets(got []int, status []int) (missing, extra []int, bad bool) {
	seen := make([]bool, len(status))
	for _, g := range got {
		if g < 0 || g >= len(status) {
			return nil, nil, true
		}
		seen[g] = true
		if status[g] == stOut {
			extra = append(extra, g)
		}
	}
	for i, s := range status {
		if s == stIn && !seen[i] {
			missing = append(missing, i)
		}
	}
	return
}

func octreeCase(c *run.Ctx) run.Result {
	var res run.Result
	r := c.Rng
	kind := octKinds[c.Case%len(octKinds)]
	sc := genScene(r, kind, 400)
	var b *built
	c.Note(fmt.Sprintf("build %s %s n=%d", sc.kind, sc.dist, len(sc.elems)))
	if p := run.Try(func() { b = build(r, sc) }); p != nil {
		res.Violate("runtime-panic", "octree construction", sc.kind+"/"+sc.dist, fmt.Sprintf("panic building the tree: %v at %s", p.Value, p.Site), sc.witness(&built{how: "?"}, nil, nil, nil))
		return res
	}
	if b.tree == nil {
		res.Violate("nil-tree", b.how, sc.kind, "constructor returned nil for a non-empty element set", sc.witness(b, nil, nil, nil))
		return res
	}
	n := len(sc.elems)
	tol := 1e-9 * sc.scale

	// independent check of the bounds the elements hand to the tree
	for i, e := range sc.elems {
		lo, hi := e.bounds()
		if lo.sub(b.pmin[i]).maxAbs() > tol || hi.sub(b.pmax[i]).maxAbs() > tol {
			res.Violate("element-bounds", "Element.BoundingBox ("+kindName[e.kind]+")", sc.kind,
				fmt.Sprintf("element %d: polyform bounds [%v,%v], vertices span [%v,%v]", i, b.pmin[i], b.pmax[i], lo, hi), sc.witness(b, i, nil, nil))
			return res
		}
		if sc.exact && (lo != b.pmin[i] || hi != b.pmax[i]) {
			sc.exact = false // never expected; falls back to the tolerant oracle
			res.Count("exact_scene_bounds_not_exact", 1)
		}
	}

	dup := sc.duplicates()
	sharedLeaf := n >= 2 && (b.effDepth == 0 || dup || float64(n) > math.Pow(8, float64(b.effDepth)))
	answerNot0 := false

	const nq = 20
	for q := 0; q < nq; q++ {
		p, pclass := sc.queryPoint(r)
		res.SetAdd("query_point_classes", pclass)
		if idx, ok := checkClosest(c, &res, sc, b, p, tol); ok && idx != 0 {
			answerNot0 = true
		}
		checkContaining(c, &res, sc, b, p, tol)
		checkRange(c, &res, sc, b, p, tol, r)
		checkRay(c, &res, sc, b, r, tol)
	}

	res.Nontrivial = sharedLeaf && answerNot0
	leaf := "spread"
	if sharedLeaf {
		leaf = "shared-leaf"
	}
	sp := ""
	if sc.special != "" {
		sp = "+special"
	}
	res.Sig = fmt.Sprintf("%s%s|%s%s|n=%s|d=%d|%s|%s", sc.kind, sc.indexPattern, sc.dist, sp, sizeBucket(n), b.depth, b.how, leaf)
	res.SetAdd("element_kinds", sc.kind)
	res.SetAdd("layouts", sc.dist)
	res.SetAdd("constructors", b.how)
	res.SetAdd("depths", fmt.Sprint(b.depth))
	res.SetAdd("size_buckets", sizeBucket(n))
	if sc.special != "" {
		res.Count("scenes_with_special_coordinates", 1)
		for _, t := range strings.Split(sc.special, "+") {
			res.SetAdd("special_coordinate_ingredients", t)
		}
		if len(sc.originElems) > 0 {
			res.Count("scenes_with_zero_extent_element_at_world_origin", 1)
			if sc.originElems[0] == 0 {
				res.Count("scenes_with_zero_extent_element_at_world_origin_as_element_0", 1)
			}
		}
	}
	if sc.indexPattern != "" {
		res.SetAdd("point_cloud_index_patterns", sc.indexPattern)
		if len(sc.idx) > len(sc.pos) {
			res.Count("point_clouds_with_more_points_than_vertices", 1)
		}
	}
	res.Count("trees", 1)
	res.Count("elements", int64(n))
	if sharedLeaf {
		res.Count("trees_with_a_leaf_of_2plus_elements", 1)
	}
	if dup {
		res.Count("trees_with_coincident_elements", 1)
	}
	if sc.exact {
		res.Count("trees_exact_arithmetic", 1)
	}
	if c.Case%97 == 0 {
		res.Sample = map[string]any{"kind": sc.kind, "layout": sc.dist, "n": n, "constructor": b.how, "depth": b.depth,
			"first_element": sc.elems[0].v[:sc.elems[0].nv()], "bounds": []v3{sc.lo, sc.hi}}
	}
	return res
}

// ---------------------------------------------------------------- ClosestPoint

func checkClosest(c *run.Ctx, res *run.Result, sc *scene, b *built, p v3, tol float64) (int, bool) {
	const site = "OctTree.ClosestPoint"
	var gi int
	var gp v3
	c.Note("ClosestPoint")
	if pn := run.Try(func() {
		i, pt := b.tree.ClosestPoint(pv(p))
		gi, gp = i, fromPV(pt)
	}); pn != nil {
		res.Violate("runtime-panic", site, sc.kind, fmt.Sprintf("panic: %v at %s", pn.Value, pn.Site), sc.witness(b, p, nil, nil))
		return 0, false
	}
	res.Count("closest_queries", 1)
	qtol := tol + 1e-9*p.maxAbs()
	n := len(sc.elems)
	cps := make([]v3, n)
	ds := make([]float64, n)
	dmin, imin := math.Inf(1), -1
	for i, e := range sc.elems {
		cps[i] = e.closest(p)
		ds[i] = cps[i].dist(p)
		if ds[i] < dmin {
			dmin, imin = ds[i], i
		}
	}
	ties := 0
	for _, d := range ds {
		if d <= dmin+qtol {
			ties++
		}
	}
	if ties > 1 {
		res.Count("closest_queries_with_ties", 1)
	}
	want := map[string]any{"a_nearest_element": imin, "its_closest_point": cps[imin], "distance": dmin, "minimisers_within_tolerance": ties}
	got := map[string]any{"index": gi, "point": gp}
	if gi < 0 || gi >= n {
		res.Violate("closest-index-out-of-range", site, sc.kind, fmt.Sprintf("returned index %d for %d elements", gi, n), sc.witness(b, p, got, want))
		return 0, false
	}
	if !gp.finite() {
		res.Violate("closest-point-not-finite", site, sc.kind, fmt.Sprintf("returned point %v", gp), sc.witness(b, p, got, want))
		return gi, false
	}
	got["distance_of_returned_point"] = gp.dist(p)
	got["true_distance_of_returned_element"] = ds[gi]
	// the returned point must be the closest point of the returned element
	if gp.dist(cps[gi]) > qtol {
		// Is the tree faithful to what the element itself reports? (data, not a verdict:
		// it only decides whether the index or the element's geometry is to blame)
		faithful := false
		var own v3
		if pn := run.Try(func() { own = fromPV(b.els[gi].ClosestPoint(pv(p))) }); pn == nil {
			faithful = own.dist(gp) <= qtol
		}
		if !faithful {
			owner := -1
			for j := range cps {
				if gp.dist(cps[j]) <= qtol {
					owner = j
					break
				}
			}
			res.Violate("closest-index-mismatch", site, sc.kind,
				fmt.Sprintf("returned element %d, but the returned point %v is not what that element reports as its closest point (%v); it is the closest point of element %d (element %d's distance %.12g vs minimum %.12g)",
					gi, gp, own, owner, gi, ds[gi], dmin), sc.witness(b, p, got, want))
		} else {
			res.Violate("closest-point-off-element", "Element.ClosestPoint ("+kindName[sc.elems[gi].kind]+") via "+site, sc.kind,
				fmt.Sprintf("returned point %v of element %d (vertices %v) is not that element's closest point %v (|Δ|=%.3g); it is at distance %.12g from the element",
					gp, gi, sc.elems[gi].v[:sc.elems[gi].nv()], cps[gi], gp.dist(cps[gi]), sc.elems[gi].closest(gp).dist(gp)), sc.witness(b, p, got, want))
		}
		return gi, false
	}
	if ds[gi] > dmin+qtol {
		res.Violate("closest-element-not-nearest", site, sc.kind,
			fmt.Sprintf("returned element %d at distance %.12g, element %d is at %.12g", gi, ds[gi], imin, dmin), sc.witness(b, p, got, want))
		return gi, false
	}
	if math.Abs(gp.dist(p)-dmin) > qtol {
		res.Violate("closest-distance", site, sc.kind,
			fmt.Sprintf("returned point at distance %.12g, minimum over all elements %.12g", gp.dist(p), dmin), sc.witness(b, p, got, want))
		return gi, false
	}
	return gi, true
}

// ---------------------------------------------------------------- ElementsContainingPoint

func boxStatus(lo, hi, p v3, tol float64) int {
	st := stIn
	for k := 0; k < 3; k++ {
		if p[k] < lo[k]-tol || p[k] > hi[k]+tol {
			return stOut
		}
		if p[k] < lo[k]+tol || p[k] > hi[k]-tol {
			st = stBoundary
		}
	}
	return st
}

func boxContains(lo, hi, p v3) bool {
	for k := 0; k < 3; k++ {
		if p[k] < lo[k] || p[k] > hi[k] {
			return false
		}
	}
	return true
}

func checkContaining(c *run.Ctx, res *run.Result, sc *scene, b *built, p v3, tol float64) {
	const site = "OctTree.ElementsContainingPoint"
	var got []int
	c.Note("ElementsContainingPoint")
	if pn := run.Try(func() { got = append([]int{}, b.tree.ElementsContainingPoint(pv(p))...) }); pn != nil {
		res.Violate("runtime-panic", site, sc.kind, fmt.Sprintf("panic: %v at %s", pn.Value, pn.Site), sc.witness(b, p, nil, nil))
		return
	}
	res.Count("containing_queries", 1)
	n := len(sc.elems)
	qtol := tol + 1e-9*p.maxAbs()
	status := make([]int, n)
	nIn, nB := 0, 0
	for i, e := range sc.elems {
		lo, hi := e.bounds()
		if sc.exact {
			if boxContains(lo, hi, p) {
				status[i] = stIn
			} else {
				status[i] = stOut
			}
		} else {
			status[i] = boxStatus(lo, hi, p, qtol)
		}
		switch status[i] {
		case stIn:
			nIn++
		case stBoundary:
			nB++
		}
	}
	res.Count("containing_expected_members", int64(nIn))
	res.Count("containing_boundary_elements", int64(nB))
	sg := sortedCopy(got)
	if hasDup(sg) {
		res.Violate("duplicate-element", site, sc.kind, fmt.Sprintf("an element is reported twice: %v", clip(sg, 40)), sc.witness(b, p, clip(sg, 40), nil))
		return
	}
	missing, extra, bad := compareSets(got, status)
	if bad {
		res.Violate("index-out-of-range", site, sc.kind, fmt.Sprintf("result %v for %d elements", clip(sg, 40), n), sc.witness(b, p, clip(sg, 40), nil))
		return
	}
	if len(missing) > 0 || len(extra) > 0 {
		res.Violate("containing-mismatch", site, sc.kind,
			fmt.Sprintf("query %v: missing %v (bounds contain the point with margin), spurious %v (bounds exclude it with margin); e.g. bounds %s",
				p, clip(missing, 10), clip(extra, 10), exampleBounds(sc, missing, extra)), sc.witness(b, p, clip(sg, 40), map[string]any{"missing": clip(missing, 10), "spurious": clip(extra, 10)}))
		return
	}
	// identity layer: for elements within the tolerance of the boundary the
	// harness's geometry cannot decide, but the property still demands what an
	// exhaustive scan returns. That scan is run here over the very elements the
	// tree was built from, with the per-element test the tree applies at its
	// leaves (Element.BoundingBox().Contains through the public API); the tree
	// must return exactly the elements this test accepts: cell pruning may never
	// lose or add one. (An AABB built from points may itself be an ulp off, which
	// is why this layer does not use the harness's own bounds.)
	seen := make([]bool, n)
	for _, g := range got {
		seen[g] = true
	}
	pp := pv(p)
	for i := range sc.elems {
		if status[i] != stBoundary {
			continue
		}
		var scan bool
		if pn := run.Try(func() { scan = b.els[i].BoundingBox().Contains(pp) }); pn != nil {
			res.Violate("runtime-panic", "AABB.Contains", sc.kind, fmt.Sprintf("panic: %v at %s", pn.Value, pn.Site), sc.witness(b, p, nil, nil))
			return
		}
		if scan && !seen[i] {
			res.Violate("boundary-ulp-miss", site, sc.kind,
				fmt.Sprintf("query %v lies on the boundary of element %d's bounds [%v,%v]; the exhaustive scan (element.BoundingBox().Contains) accepts it but the tree does not return it", p, i, b.pmin[i], b.pmax[i]),
				sc.witness(b, p, clip(sg, 40), map[string]any{"missing_boundary_element": i}))
			return
		}
		if !scan && seen[i] {
			res.Violate("boundary-spurious", site, sc.kind,
				fmt.Sprintf("query %v: the exhaustive scan (element.BoundingBox().Contains) rejects element %d with bounds [%v,%v] but the tree returns it", p, i, b.pmin[i], b.pmax[i]),
				sc.witness(b, p, clip(sg, 40), map[string]any{"spurious_boundary_element": i}))
			return
		}
		res.Count("containing_boundary_decisions_checked", 1)
	}
}

func exampleBounds(sc *scene, missing, extra []int) string {
	i := -1
	if len(missing) > 0 {
		i = missing[0]
	} else if len(extra) > 0 {
		i = extra[0]
	}
	if i < 0 {
		return ""
	}
	lo, hi := sc.elems[i].bounds()
	return fmt.Sprintf("of element %d = [%v,%v]", i, lo, hi)
}

// ---------------------------------------------------------------- ElementsWithinRange

func checkRange(c *run.Ctx, res *run.Result, sc *scene, b *built, p v3, tol float64, r *rand.Rand) {
	const site = "OctTree.ElementsWithinRange"
	n := len(sc.elems)
	qtol := tol + 1e-9*p.maxAbs()
	db := make([]float64, n) // distance to the element's bounds
	dt := make([]float64, n) // distance to the element itself
	for i, e := range sc.elems {
		lo, hi := e.bounds()
		db[i] = closestOnBox(lo, hi, p).dist(p)
		dt[i] = e.closest(p).dist(p)
	}
	diam := sc.diameter()
	var rad float64
	var rclass string
	rpick := pick(r, []int{15, 10, 15, 35, 10, 15})
	if sc.special != "" && r.Intn(5) == 0 {
		rpick = 6
	}
	switch rpick {
	case 6:
		rad, rclass = 0.5, "0.5"
	case 0:
		rad, rclass = 0, "zero"
	case 1:
		rad, rclass = sc.S*math.Pow(10, -9+6*r.Float64()), "tiny"
	case 2:
		rad, rclass = db[r.Intn(n)], "exactly-a-bounds-distance"
	case 3:
		rad, rclass = diam*r.Float64(), "up-to-diameter"
	case 4:
		rad, rclass = diam*(1+2*r.Float64())+p.dist(sc.lo), "covers-everything"
	default:
		s := append([]float64{}, dt...)
		sort.Float64s(s)
		k := r.Intn(n)
		if k > 8 {
			k = r.Intn(8)
		}
		rad, rclass = s[k], "exactly-kth-nearest-distance"
	}
	res.SetAdd("radius_classes", rclass)
	var got []int
	c.Note("ElementsWithinRange")
	if pn := run.Try(func() { got = append([]int{}, b.tree.ElementsWithinRange(pv(p), rad)...) }); pn != nil {
		res.Violate("runtime-panic", site, sc.kind, fmt.Sprintf("panic: %v at %s", pn.Value, pn.Site), sc.witness(b, map[string]any{"p": p, "r": rad}, nil, nil))
		return
	}
	res.Count("range_queries", 1)
	status := make([]int, n)
	nIn, nB, nTrue := 0, 0, 0
	for i := range sc.elems {
		switch {
		case sc.exact && isLatticePoint(p):
			// integer data: the squared distance is an exact integer and sqrt is
			// correctly rounded, so "distance ≤ r" is decided without slack
			if db[i] <= rad {
				status[i] = stIn
			} else {
				status[i] = stOut
			}
		case db[i] <= rad-qtol:
			status[i] = stIn
		case db[i] > rad+qtol:
			status[i] = stOut
		default:
			status[i] = stBoundary
		}
		switch status[i] {
		case stIn:
			nIn++
		case stBoundary:
			nB++
		}
		if dt[i] <= rad-qtol {
			nTrue++
		}
	}
	res.Count("range_expected_members", int64(nIn))
	res.Count("range_members_by_true_distance", int64(nTrue))
	res.Count("range_boundary_elements", int64(nB))
	sg := sortedCopy(got)
	q := map[string]any{"p": p, "r": rad, "radius_class": rclass}
	if hasDup(sg) {
		res.Violate("duplicate-element", site, sc.kind, fmt.Sprintf("an element is reported twice: %v", clip(sg, 40)), sc.witness(b, q, clip(sg, 40), nil))
		return
	}
	missing, extra, bad := compareSets(got, status)
	if bad {
		res.Violate("index-out-of-range", site, sc.kind, fmt.Sprintf("result %v for %d elements", clip(sg, 40), n), sc.witness(b, q, clip(sg, 40), nil))
		return
	}
	if len(missing) > 0 || len(extra) > 0 {
		d := ""
		if len(missing) > 0 {
			d = fmt.Sprintf("element %d: bounds distance %.12g, true distance %.12g", missing[0], db[missing[0]], dt[missing[0]])
		} else {
			d = fmt.Sprintf("element %d: bounds distance %.12g", extra[0], db[extra[0]])
		}
		res.Violate("range-mismatch", site, sc.kind,
			fmt.Sprintf("query %v r=%.12g: missing %v, spurious %v; %s", p, rad, clip(missing, 10), clip(extra, 10), d),
			sc.witness(b, q, clip(sg, 40), map[string]any{"missing": clip(missing, 10), "spurious": clip(extra, 10)}))
		return
	}
	// identity layer (see checkContaining): exhaustive scan with the per-element
	// test of the tree's leaves, bounds.ClosestPoint(p).Distance(p) <= r.
	seen := make([]bool, n)
	for _, g := range got {
		seen[g] = true
	}
	pp := pv(p)
	for i := range sc.elems {
		if status[i] != stBoundary {
			continue
		}
		var scan bool
		var sd float64
		if pn := run.Try(func() {
			sd = b.els[i].BoundingBox().ClosestPoint(pp).Distance(pp)
			scan = sd <= rad
		}); pn != nil {
			res.Violate("runtime-panic", "AABB.ClosestPoint", sc.kind, fmt.Sprintf("panic: %v at %s", pn.Value, pn.Site), sc.witness(b, q, nil, nil))
			return
		}
		if scan && !seen[i] {
			res.Violate("boundary-ulp-miss", site, sc.kind,
				fmt.Sprintf("query %v r=%.17g: element %d's bounds [%v,%v] are at distance %.17g ≤ r by the exhaustive scan (bounds.ClosestPoint(p).Distance(p)) but the tree does not return it", p, rad, i, b.pmin[i], b.pmax[i], sd),
				sc.witness(b, q, clip(sg, 40), map[string]any{"missing_boundary_element": i}))
			return
		}
		if !scan && seen[i] {
			res.Violate("boundary-spurious", site, sc.kind,
				fmt.Sprintf("query %v r=%.17g: element %d's bounds are at distance %.17g > r by the exhaustive scan but the tree returns it", p, rad, i, sd),
				sc.witness(b, q, clip(sg, 40), map[string]any{"spurious_boundary_element": i}))
			return
		}
		res.Count("range_boundary_decisions_checked", 1)
	}
}

func isLatticePoint(p v3) bool {
	for _, x := range p {
		if x != math.Trunc(x) || math.Abs(x) > 1e6 {
			return false
		}
	}
	return true
}

// ---------------------------------------------------------------- rays

func (sc *scene) queryRay(r *rand.Rand) (o, d v3, tmin, tmax float64, class string) {
	if sc.special != "" && r.Intn(4) == 0 {
		// an axis-parallel ray that passes exactly through the world origin
		k := r.Intn(3)
		a := []float64{1, 0.5, 2, sc.S * (0.1 + 3*r.Float64()), sc.diameter() * (1 + r.Float64())}[r.Intn(5)]
		if r.Intn(2) == 0 {
			a = -a
		}
		o[k] = a
		d[k] = -a / math.Abs(a)
		if r.Intn(2) == 0 {
			// the same direction obtained by flipping the opposite axis vector: the
			// zero components come out as -0
			var e v3
			e[k] = a / math.Abs(a)
			d = e.mul(-1)
		}
		switch r.Intn(3) {
		case 0:
			tmax = math.Abs(a) * (1 + 2*r.Float64())
		case 1:
			tmax = math.Abs(a) // ends exactly at the origin
		default:
			tmax = 1000 * sc.diameter()
		}
		if r.Intn(5) == 0 { // starts at the origin
			o = v3{}
		}
		return o, d, 0, tmax, "axis-through-origin"
	}
	o, oc := sc.queryPoint(r)
	diam := sc.diameter()
	d, dc, aimDist := sc.direction(r, o, []int{25, 25, 40, 10})
	switch pick(r, []int{60, 10, 30}) {
	case 0:
		tmin = 0
	case 1:
		tmin = -diam * (1 + 10*r.Float64())
	default:
		tmin = diam * 0.5 * r.Float64()
	}
	switch pick(r, []int{45, 30, 20, 5}) {
	case 0:
		tmax = diam * 1000
	case 1:
		tmax = tmin + diam*2*r.Float64()
	case 3:
		tmax = []float64{1e30, math.MaxFloat64, math.Inf(1)}[r.Intn(3)]
	default:
		if aimDist > 0 {
			tmax = aimDist
		} else {
			tmax = tmin + diam*r.Float64()
		}
	}
	if tmax <= tmin {
		tmax = tmin + diam
	}
	return o, d, tmin, tmax, oc + "/" + dc
}

func checkRay(c *run.Ctx, res *run.Result, sc *scene, b *built, r *rand.Rand, tol float64) {
	o, d, tmin, tmax, class := sc.queryRay(r)
	// a quarter of the ray queries continue the previous one: bit-identical origin, direction and max, a larger
	// min - how a caller marches along a ray collecting successive hits
	if sc.hasLastRay && r.Intn(4) == 0 {
		if nm := sc.lastMin + sc.scale*(0.02+0.5*r.Float64()); nm < sc.lastMax {
			o, d, tmin, tmax, class = sc.lastO, sc.lastD, nm, sc.lastMax, class+"/continued-with-larger-min"
		}
	}
	sc.hasLastRay, sc.lastO, sc.lastD, sc.lastMin, sc.lastMax = true, o, d, tmin, tmax
	n := len(sc.elems)
	ray := geometry.NewRay(pv(o), pv(d))
	d = fromPV(ray.Direction()) // the direction polyform will use (data, normalised by the constructor)
	if math.Abs(d.len()-1) > 1e-12 {
		res.Violate("ray-direction-not-unit", "geometry.NewRay", "", fmt.Sprintf("direction %v has length %v", d, d.len()), nil)
		return
	}
	res.SetAdd("ray_classes", class)
	countSignedZero(res, d, "rays")
	q := map[string]any{"origin": o, "direction": fmtV(d), "min": tmin, "max": fmt.Sprint(tmax), "class": class}
	// polyform grows every box by 1e-10 before the slab test; the reference excludes
	// only what misses a box grown by a little more, and demands only what crosses
	// the un-grown box over a parameter interval of positive length.
	grow := 2e-10 + 1e-12*sc.scale
	status := make([]int, n)
	nIn, nB := 0, 0
	for i, e := range sc.elems {
		lo, hi := e.bounds()
		a0, a1 := slab(lo, hi, o, d, tmin, tmax, 0)
		b0, b1 := slab(lo, hi, o, d, tmin, tmax, grow)
		tt := 1e-9*math.Max(1, sc.scale) + 1e-12*math.Max(math.Abs(tmin), math.Abs(tmax))
		switch {
		case a1-a0 > tt:
			status[i] = stIn
			nIn++
		case b1-b0 < -tt:
			status[i] = stOut
		default:
			status[i] = stBoundary
			nB++
		}
	}
	res.Count("ray_expected_members", int64(nIn))
	res.Count("ray_dont_care_elements", int64(nB))

	var got1, got2 []int
	c.Note("ElementsIntersectingRay")
	if pn := run.Try(func() { got1 = append([]int{}, b.tree.ElementsIntersectingRay(ray, tmin, tmax)...) }); pn != nil {
		res.Violate("runtime-panic", "OctTree.ElementsIntersectingRay", sc.kind, fmt.Sprintf("panic: %v at %s", pn.Value, pn.Site), sc.witness(b, q, nil, nil))
		return
	}
	c.Note("TraverseIntersectingRay")
	if pn := run.Try(func() {
		b.tree.TraverseIntersectingRay(ray, tmin, tmax, func(i int, min, max *float64) { got2 = append(got2, i) })
	}); pn != nil {
		res.Violate("runtime-panic", "OctTree.TraverseIntersectingRay", sc.kind, fmt.Sprintf("panic: %v at %s", pn.Value, pn.Site), sc.witness(b, q, nil, nil))
		return
	}
	res.Count("ray_queries", 1)
	for k, got := range [][]int{got1, got2} {
		site := []string{"OctTree.ElementsIntersectingRay", "OctTree.TraverseIntersectingRay"}[k]
		sg := sortedCopy(got)
		if hasDup(sg) {
			res.Violate("duplicate-element", site, sc.kind, fmt.Sprintf("an element is reported twice: %v", clip(sg, 40)), sc.witness(b, q, clip(sg, 40), nil))
			return
		}
		missing, extra, bad := compareSets(got, status)
		if bad {
			res.Violate("index-out-of-range", site, sc.kind, fmt.Sprintf("result %v for %d elements", clip(sg, 40), n), sc.witness(b, q, clip(sg, 40), nil))
			return
		}
		if len(missing) > 0 || len(extra) > 0 {
			res.Violate("ray-mismatch", site, sc.kind,
				fmt.Sprintf("ray o=%v d=%v [%g,%g]: missing %v (ray crosses their bounds), spurious %v (ray misses their bounds); %s",
					o, d, tmin, tmax, clip(missing, 10), clip(extra, 10), exampleBounds(sc, missing, extra)),
				sc.witness(b, q, clip(sg, 40), map[string]any{"missing": clip(missing, 10), "spurious": clip(extra, 10)}))
			return
		}
	}
	// identity layer for the elements the reference leaves open (grazing rays,
	// rays aimed at points, flat boxes): exhaustive scan with the per-element
	// test of the tree's leaves. Cell boxes contain their elements' boxes, and
	// the slab test is monotone in the box, so pruning must not change the set.
	{
		seen := make([]bool, n)
		for _, g := range got1 {
			seen[g] = true
		}
		for i := range sc.elems {
			if status[i] != stBoundary {
				continue
			}
			var scan bool
			if pn := run.Try(func() { scan = b.els[i].BoundingBox().IntersectsRayInRange(ray, tmin, tmax) }); pn != nil {
				res.Violate("runtime-panic", "AABB.IntersectsRayInRange", sc.kind, fmt.Sprintf("panic: %v at %s", pn.Value, pn.Site), sc.witness(b, q, nil, nil))
				return
			}
			if scan != seen[i] {
				res.Violate("ray-boundary-mismatch", "OctTree.ElementsIntersectingRay", sc.kind,
					fmt.Sprintf("ray o=%v d=%v [%g,%g]: the exhaustive scan (element.BoundingBox().IntersectsRayInRange) says %v for element %d with bounds [%v,%v], the tree says %v",
						o, d, tmin, tmax, scan, i, b.pmin[i], b.pmax[i], seen[i]), sc.witness(b, q, clip(sortedCopy(got1), 40), map[string]any{"element": i, "exhaustive_scan": scan}))
				return
			}
			res.Count("ray_boundary_decisions_checked", 1)
		}
	}
	// both entry points evaluate the same predicate on the same cells: same set
	s1, s2 := sortedCopy(got1), sortedCopy(got2)
	same := len(s1) == len(s2)
	for i := 0; same && i < len(s1); i++ {
		same = s1[i] == s2[i]
	}
	if !same {
		res.Violate("ray-entry-points-disagree", "OctTree.TraverseIntersectingRay vs ElementsIntersectingRay", sc.kind,
			fmt.Sprintf("ElementsIntersectingRay=%v TraverseIntersectingRay=%v", clip(s1, 40), clip(s2, 40)), sc.witness(b, q, clip(s1, 40), clip(s2, 40)))
		return
	}

	// nearest ray hit through the narrowing traversal (triangles only; the hit
	// test is the harness's own, so the only thing under test is the pruning)
	if sc.kind != "triangles" || tmin < 0 {
		return
	}
	hitT := func(i int, limit float64) (float64, bool) {
		e := sc.elems[i]
		h := mollerTrumbore(e.v[0], e.v[1], e.v[2], o, d)
		if !h.ok {
			return 0, false
		}
		e1, e2 := e.v[1].sub(e.v[0]), e.v[2].sub(e.v[0])
		if math.Abs(h.det) < 1e-2*e1.len()*e2.len() { // well-conditioned crossings only
			return 0, false
		}
		if h.u < 0 || h.v < 0 || h.u+h.v > 1 || h.t < tmin || h.t > limit {
			return 0, false
		}
		return h.t, true
	}
	bruteT, bruteI := math.Inf(1), -1
	for i := range sc.elems {
		if t, ok := hitT(i, tmax); ok && t < bruteT {
			bruteT, bruteI = t, i
		}
	}
	best, bestI, visited := tmax, -1, 0
	c.Note("TraverseIntersectingRay narrowing")
	if pn := run.Try(func() {
		b.tree.TraverseIntersectingRay(ray, tmin, tmax, func(i int, min, max *float64) {
			visited++
			if i < 0 || i >= n {
				return
			}
			if t, ok := hitT(i, best); ok {
				best, bestI = t, i
				*max = t
			}
		})
	}); pn != nil {
		res.Violate("runtime-panic", "OctTree.TraverseIntersectingRay", sc.kind, fmt.Sprintf("panic: %v at %s", pn.Value, pn.Site), sc.witness(b, q, nil, nil))
		return
	}
	res.Count("nearest_hit_queries", 1)
	res.Count("nearest_hit_elements_visited", int64(visited))
	if bruteI >= 0 {
		res.Count("nearest_hit_queries_with_hit", 1)
	}
	tt := 1e-9*math.Max(1, sc.scale) + 1e-12*math.Abs(bruteT)
	if (bruteI >= 0) != (bestI >= 0) || (bruteI >= 0 && math.Abs(best-bruteT) > tt) {
		res.Violate("nearest-hit-mismatch", "OctTree.TraverseIntersectingRay (narrowing max)", sc.kind,
			fmt.Sprintf("ray o=%v d=%v [%g,%g]: exhaustive nearest hit: triangle %d at t=%.12g; traversal with narrowed max found triangle %d at t=%.12g", o, d, tmin, tmax, bruteI, bruteT, bestI, best),
			sc.witness(b, q, map[string]any{"i": bestI, "t": fmt.Sprint(best)}, map[string]any{"i": bruteI, "t": fmt.Sprint(bruteT)}))
	}
}

// fmtV renders a vector with the sign of zero visible (JSON would drop it).
func fmtV(a v3) string { return fmt.Sprintf("[%v %v %v]", a[0], a[1], a[2]) }

func countSignedZero(res *run.Result, d v3, what string) {
	nz, dn := false, false
	for _, x := range d {
		if x == 0 && math.Signbit(x) {
			nz = true
		}
		if x != 0 && math.Abs(x) < 2.3e-308 {
			dn = true
		}
	}
	if nz {
		res.Count(what+"_with_negative_zero_direction_component", 1)
	}
	if dn {
		res.Count(what+"_with_denormal_direction_component", 1)
	}
}
