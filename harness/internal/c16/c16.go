// Package c16 monitors property C16: octree and BVH queries agree with an
// exhaustive scan over all elements.
package c16

import "polyverif/internal/run"

func Spec() *run.Spec {
	return &run.Spec{
		ID: "C16", Level: "exploration",
		Rule: "A case is one generated element set (points — index list identity/permuted/shared/with unreferenced vertices —, line strip, independent segments, triangles, boxes or a mixture; 1–400 elements; " +
			"layouts uniform/clustered/coincident/overlapping/collinear/coplanar/integer lattice/welded grid; ≈12 % of the scenes with special coordinates: scene translated so that a vertex / bounds min / bounds max is exactly 0 on 1–3 axes, " +
			"zero-extent elements exactly at the world origin (first, last, inside, several; ±0) and at {-1,0,1}³, queried at the origin, with r = 0.5 and by axis rays through the origin; depth 0…6 or automatic; every public constructor path; signed zeros are ordinary values: axis/diagonal directions obtained by flipping the opposite vector, aimed directions as (o-t)·(-1/|o-t|), ±0 in origins, query points, element coordinates and box extents; denormal direction components; max up to +Inf) " +
			"with 20 query positions (ClosestPoint, ElementsContainingPoint, ElementsWithinRange) and 20 rays (ElementsIntersectingRay, TraverseIntersectingRay, " +
			"nearest hit through the narrowing traversal), resp. one triangle mesh with 20 rays through BVHNode/HitList/rendering.Mesh/rendering.Tree, the incoming hit record being a workload dimension " +
			"(fresh per call; one record reused over all rays of the case, in random order or nearest hit first; literal with Distance 0; bare &HitRecord{} where the entry point supports it; Distance pre-set tiny / half the true hit / huge / NaN / +Inf / negative): the answer must not depend on it. " +
			"Every answer is compared with a brute-force scan using the harness's own closest-point, slab and Möller–Trumbore code. " +
			"Non-trivial (octree): some leaf provably holds ≥ 2 elements (n ≥ 2 and depth 0, or n > 8^depth, or two identical elements) and at least one " +
			"ClosestPoint answer is not element 0; (bvh): ≥ 2 triangles and some ray's nearest definite hit is not triangle 0. " +
			"Distinct = distinct (kind, layout, size bucket, depth, constructor, shared-leaf) tuples.",
		Assumptions: []string{
			"elements are non-degenerate (segments of positive length, triangles with height ≥ 0.1·longest edge); coordinates |x| ≲ 3·10³",
			"tolerance 1e-9·max(1,|coordinates|) on distances/points for the harness's own geometry (ties aside); on integer-lattice scenes bounds arithmetic is exact and containment/range are decided without slack",
			"identity layer: elements within that tolerance of a decision boundary (query exactly on a vertex, r = 0, r exactly a distance, grazing rays, rays aimed at points) are decided by an " +
				"exhaustive scan over the same trees.Element values with the per-element test the tree applies at its leaves (Element.BoundingBox().Contains / .ClosestPoint(p).Distance(p) <= r / .IntersectsRayInRange, public API); " +
				"the tree must return exactly that set — this layer checks cell pruning only, the per-element tests themselves are checked by the own-geometry layer",
			"rays: an element must be reported when the ray crosses its exact bounds over a parameter interval longer than the tolerance and must not be " +
				"reported when it misses the bounds grown by 2e-10 (polyform grows boxes by 1e-10); in between is free",
			"polyform's triangle hit conventions (|det|<1e-6 counts as parallel; a hit needs distance ≥ min+1e-6) are element semantics, reproduced by the reference with error bars; " +
				"the expectation is the strict nearest crossing in [min+1e-6, max]; an answer that is explainable only by comparing the limit with distance-min (defect repaired by 51b4c34) is reported as nearest-hit-min-window",
			"a bare &HitRecord{} (nil maps) is only handed to HitList.Hit and rendering.Tree.Hit: BVHNode.Hit and rendering.Mesh.Hit write Float3Data[\"barycentric\"] into the caller's record and panic on a nil map on the unchanged tree (reported, not flagged)",
			"empty element sets are out of reach (constructors return nil)",
		},
		MinNontrivial: map[string]int{"quick": 500, "thorough": 1500},
		MinObserved: map[string]int64{
			"closest_queries": 100000, "containing_queries": 100000, "range_queries": 100000, "ray_queries": 100000,
			"trees_with_a_leaf_of_2plus_elements": 2000, "nearest_hit_queries_with_hit": 2000,
			"containing_boundary_decisions_checked": 20000, "range_boundary_decisions_checked": 20000, "ray_boundary_decisions_checked": 20000,
			"bvh_rays_with_definite_hit": 10000, "bvh_rays_definite_miss": 5000,
			"element_kinds": 6, "layouts": 9, "constructors": 5, "depths": 8, "point_cloud_index_patterns": 6, "point_clouds_with_more_points_than_vertices": 100,
			"scenes_with_special_coordinates": 500, "scenes_with_zero_extent_element_at_world_origin": 150,
			"scenes_with_zero_extent_element_at_world_origin_as_element_0": 80, "special_coordinate_ingredients": 12,
			"bvh_record_kinds": 11, "bvh_record_modes": 4, "bvh_calls_with_record_holding_a_nearer_earlier_hit": 5000,
			"rays_with_negative_zero_direction_component": 10000, "rays_with_denormal_direction_component": 1000,
			"bvh_rays_with_negative_zero_direction_component": 2000, "bvh_rays_with_denormal_direction_component": 200,
		},
		Phases: []run.Phase{
			{Name: "octree", Cases: func(tier string) int {
				if tier == "thorough" {
					return 300000
				}
				return 10000
			}, Run: octreeCase, Batch: 50, CPUBudgetS: 30},
			{Name: "bvh", Cases: func(tier string) int {
				if tier == "thorough" {
					return 80000
				}
				return 3000
			}, Run: bvhCase, Batch: 25, CPUBudgetS: 30},
		},
	}
}
