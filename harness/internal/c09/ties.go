package c09

import (
	"fmt"

	"github.com/EliCDavis/polyform/modeling"
	"polyverif/internal/run"
)

// tieCase is a directed family in which lattice samples EQUAL the threshold along flat patches:
// axis-aligned boxes whose faces (or, for the threshold -0.5, whose -0.5 level set) lie exactly on
// sample planes. Resolutions are those for which the lattice arithmetic is exact on both sides:
// powers of two with dyadic face coordinates, and 10 cubes per unit with integer / half-integer
// coordinates (the demo scene: a 2x2x2 box at the origin, 10 cubes per unit). Only some faces, all
// faces, a face exactly on a block-boundary plane; alone and in unions with spheres, capsules and
// other boxes; all adders and all march entry points of the canvas.
func tieCase(c *run.Ctx) run.Result {
	r := c.Rng
	k := c.Case
	sc := &scenario{CPU: []float64{2, 4, 8, 10}[k%4], Attr: modeling.PositionAttribute}
	h := 1 / sc.CPU
	sc.Cut = 0
	deep := (k/4)%3 == 2 // threshold -0.5: its level set of the box lands on sample planes
	if deep {
		sc.Cut = -0.5
	}
	variant := (k / 12) % 4 // 0 one axis on planes, 1 all faces on planes, 2 a face on a block boundary, 3 the demo box
	sc.API = []string{"March", "MarchOnAttribute", "MarchParallel"}[r.Intn(3)]
	sc.Adder = adders[r.Intn(len(adders))]
	// lattice step of admissible face coordinates, in cells: any cell for powers of two; whole or half
	// world units at 10 cubes per unit (k/10 is exact only then)
	step := 1
	if sc.CPU == 10 {
		step = 5
	}
	shrinkCells := int(-sc.Cut * sc.CPU) // 0, or 0.5 units in cells: 1, 2, 4, 5
	var b [3]int
	for a := range b {
		b[a] = r.Intn(4) - 2
	}
	var lo, hi [3]float64 // box faces, cells
	onPlane := [3]bool{}
	axis := r.Intn(3)
	desc := ""
	for a := 0; a < 3; a++ {
		base := blockCells*b[a] + step*(2+r.Intn(60/step))
		span := step * (1 + r.Intn(3)) * (1 + 4/step) // 5..15 cells at step 1, 5..15 at step 5
		if span < 4 {
			span = 4 + span
		}
		span += 2 * shrinkCells
		switch {
		case variant == 0 && a != axis:
			// generic faces: between sample planes
			lo[a] = float64(base) + uni(r, 0.1, 0.9)
			hi[a] = lo[a] + float64(span) + uni(r, 0.1, 0.9)
		default:
			lo[a], hi[a] = float64(base), float64(base+span)
			onPlane[a] = true
		}
	}
	if variant == 2 { // one face exactly on a block-boundary plane, the box on either side of it
		plane := float64(blockCells * (b[axis] + 1))
		w := hi[axis] - lo[axis]
		if r.Intn(2) == 0 {
			lo[axis], hi[axis] = plane-w, plane
		} else {
			lo[axis], hi[axis] = plane, plane+w
		}
		desc = fmt.Sprintf("a face of axis %d exactly on a block boundary; ", axis)
	}
	if variant == 3 { // the demo: a cube of 2 world units centred on a lattice point with integer coordinates
		for a := 0; a < 3; a++ {
			cen := float64(blockCells*b[a]) + sc.CPU*float64(r.Intn(int(90/sc.CPU)+1))
			if r.Intn(3) == 0 {
				cen = 0
			}
			lo[a], hi[a] = cen-sc.CPU, cen+sc.CPU
			onPlane[a] = true
		}
		desc = "2x2x2 box; "
	}
	box := shape{Kind: "box", Strength: 1,
		C:    vec{(lo[0] + hi[0]) / 2 * h, (lo[1] + hi[1]) / 2 * h, (lo[2] + hi[2]) / 2 * h},
		Size: vec{(hi[0] - lo[0]) * h, (hi[1] - lo[1]) * h, (hi[2] - lo[2]) * h}}
	sc.Shapes = []shape{box}
	// company: nothing, a sphere, a capsule, another box on planes
	mid := vec{(lo[0] + hi[0]) / 2, (lo[1] + hi[1]) / 2, (lo[2] + hi[2]) / 2}
	shrink := -sc.Cut * sc.CPU
	switch r.Intn(8) - 4 { // half of the scenes keep the box alone: a companion that meets a tie plane usually falls under the pinch rule
	case 1:
		cc := vadd(mid, vec{uni(r, -7, 7), uni(r, -7, 7), uni(r, -7, 7)})
		sc.Shapes = append(sc.Shapes, shape{Kind: "sphere", Strength: 1, C: vscale(cc, h), R: (2 + shrink + uni(r, 0, 4)) * h})
	case 2:
		cc := vadd(mid, vec{uni(r, -7, 7), uni(r, -7, 7), uni(r, -7, 7)})
		ee := vadd(cc, vec{uni(r, -8, 8), uni(r, -8, 8), uni(r, -8, 8)})
		sc.Shapes = append(sc.Shapes, shape{Kind: "capsule", Strength: 1, C: vscale(cc, h), E: vscale(ee, h), R: (2 + shrink + uni(r, 0, 2)) * h})
	case 3:
		var l2, h2 [3]float64
		for a := 0; a < 3; a++ {
			l2[a] = lo[a] + float64(step*(r.Intn(5)-2))
			h2[a] = l2[a] + float64(step*(1+r.Intn(2))*(1+4/step)+2*shrinkCells)
			if !onPlane[a] {
				l2[a] += uni(r, 0.1, 0.9)
			}
		}
		sc.Shapes = append(sc.Shapes, shape{Kind: "box", Strength: 1,
			C:    vec{(l2[0] + h2[0]) / 2 * h, (l2[1] + h2[1]) / 2 * h, (l2[2] + h2[2]) / 2 * h},
			Size: vec{(h2[0] - l2[0]) * h, (h2[1] - l2[1]) * h, (h2[2] - l2[2]) * h}})
	}
	sc.Placement = fmt.Sprintf("%sbox faces at lattice %v..%v (on sample planes: %v), block %v", desc, lo, hi, onPlane, b)
	if r.Intn(2) == 0 {
		sc.Mode = "combine-fields"
		sc.Reuse, sc.Spare = r.Intn(len(reuseNames)), r.Intn(3)
	} else {
		sc.Mode = "union-field"
		sc.Margin = uni(r, 0.3, 3)
		l, u := sc.Shapes[0].bounds()
		for _, s := range sc.Shapes[1:] {
			sl, su := s.bounds()
			for a := 0; a < 3; a++ {
				if sl[a] < l[a] {
					l[a] = sl[a]
				}
				if su[a] > u[a] {
					u[a] = su[a]
				}
			}
		}
		m := sc.Margin * h
		sc.DomLo, sc.DomHi = vsub(l, vec{m, m, m}), vadd(u, vec{m, m, m})
	}
	for a := 0; a < 3; a++ {
		if int(lo[a]) < blockCells*floorDiv(int(hi[a]), blockCells) {
			sc.Straddle++
		}
	}
	res := execute(c, sc)
	res.Count("directed_tie_cases", 1)
	res.SetAdd("tie_scenes", fmt.Sprintf("cpu%v cut%v variant%d", sc.CPU, sc.Cut, variant))
	if res.Sig != "" {
		res.Sig += fmt.Sprintf(" tie-variant%d", variant)
	}
	return res
}
