package c09

import (
	"fmt"
	"math"

	"polyverif/internal/run"
)

// sparseCase: 2-8 separate adds (all three adders mixed) of small disjoint fields, one per storage
// block, placed so that the set of allocated blocks is NOT a box: L-shapes in each axis plane, diagonal
// neighbours only (2-d and 3-d), staircases, a ring around a missing centre block, blocks with a gap -
// with negative block indices. Shapes sit in the interior of their block, 1.5-3 cells from its low or
// high face, cross the high face into a neighbour block that exists (next to neighbours that do not),
// or cross the low face into a block outside the set (which is then allocated as well). One march (sometimes two, different entry points) judged by the full oracle.
var sparseSets = []struct {
	name   string
	blocks [][3]int
}{
	{"L-xy", [][3]int{{0, 0, 0}, {1, 0, 0}, {0, 1, 0}}},
	{"L-xy-tall", [][3]int{{0, 0, 0}, {1, 0, 0}, {0, 1, 0}, {0, 2, 0}}},
	{"T-xy", [][3]int{{0, 0, 0}, {1, 0, 0}, {2, 0, 0}, {1, 1, 0}}},
	{"plus-xy", [][3]int{{1, 0, 0}, {0, 1, 0}, {1, 1, 0}, {2, 1, 0}, {1, 2, 0}}},
	{"T-xz", [][3]int{{0, 0, 0}, {1, 0, 0}, {2, 0, 0}, {1, 0, 1}}},
	{"L-xz", [][3]int{{0, 0, 0}, {1, 0, 0}, {0, 0, 1}}},
	{"L-yz", [][3]int{{0, 0, 0}, {0, 1, 0}, {0, 0, 1}}},
	{"L-xy-mirrored", [][3]int{{1, 1, 0}, {1, 0, 0}, {0, 1, 0}}},
	{"corner-xyz", [][3]int{{0, 0, 0}, {1, 0, 0}, {0, 1, 0}, {0, 0, 1}}},
	{"diagonal-2d-xy", [][3]int{{0, 0, 0}, {1, 1, 0}}},
	{"diagonal-2d-xz", [][3]int{{0, 0, 0}, {1, 0, 1}}},
	{"diagonal-2d-yz", [][3]int{{0, 1, 0}, {0, 0, 1}}},
	{"diagonal-3d", [][3]int{{0, 0, 0}, {1, 1, 1}}},
	{"diagonal-chain", [][3]int{{0, 0, 0}, {1, 1, 0}, {1, 1, 1}}},
	{"staircase-xy", [][3]int{{0, 0, 0}, {1, 0, 0}, {1, 1, 0}, {2, 1, 0}}},
	{"staircase-yz", [][3]int{{0, 0, 0}, {0, 1, 0}, {0, 1, 1}, {0, 2, 1}}},
	{"ring-xy", [][3]int{{0, 0, 0}, {1, 0, 0}, {2, 0, 0}, {0, 1, 0}, {2, 1, 0}, {0, 2, 0}, {1, 2, 0}, {2, 2, 0}}},
	{"gap-x", [][3]int{{0, 0, 0}, {2, 0, 0}}},
	{"gap-diagonal", [][3]int{{0, 0, 0}, {2, 1, 0}, {0, 1, 1}}},
	{"demo-two-seams", [][3]int{{0, 0, 0}, {0, 1, 0}, {1, -1, 0}, {1, 0, 0}}},
}

func sparseCase(c *run.Ctx) run.Result {
	r := c.Rng
	set := sparseSets[c.Case%len(sparseSets)]
	hs := &history{CPU: pickCPU(r), Sparse: set.name}
	if r.Intn(3) == 0 {
		hs.CPU = 10
	}
	h := 1 / hs.CPU
	for a := range hs.Block {
		hs.Block[a] = r.Intn(4) - 2
	}
	cutA := cuts[r.Intn(len(cuts))]
	shrink := -cutA * hs.CPU
	in := map[[3]int]bool{}
	for _, b := range set.blocks {
		in[b] = true
	}
	// decide which blocks send their shape across their high face (only into a block of the set)
	crossAxis := map[[3]int]int{}
	lowTaken := map[[3]int][3]bool{} // block -> axes whose low end is occupied by a neighbour's crossing shape
	for _, b := range set.blocks {
		crossAxis[b] = -1
		if r.Intn(10) < 3 {
			continue
		}
		for _, a := range r.Perm(3) {
			n := b
			n[a]++
			if in[n] {
				crossAxis[b] = a
				t := lowTaken[n]
				t[a] = true
				lowTaken[n] = t
				break
			}
		}
	}
	// ... and which send it across their LOW face into a block outside the set (that block gets allocated
	// too: samples in the first rows of a block, next to neighbours that do not exist)
	crossLow := map[[3]int]int{}
	for _, b := range set.blocks {
		crossLow[b] = -1
		if crossAxis[b] >= 0 || r.Intn(5) < 2 {
			continue
		}
		for _, a := range r.Perm(3) {
			n := b
			n[a]--
			if !in[n] && !lowTaken[b][a] {
				crossLow[b] = a
				break
			}
		}
	}
	if set.name == "demo-two-seams" { // the two spheres of the demo: each across a y seam
		crossAxis = map[[3]int]int{{0, 0, 0}: 1, {0, 1, 0}: -2, {1, -1, 0}: 1, {1, 0, 0}: -2}
		lowTaken = map[[3]int][3]bool{}
		crossLow = map[[3]int]int{}
	}
	for _, b := range set.blocks {
		if crossAxis[b] == -2 {
			continue // receives a crossing shape and gets none of its own
		}
		s := shape{Strength: 1}
		reach := 0. // cells from the centre along any axis, shape only
		var cen vec
		kind := r.Intn(3)
		R := 2 + shrink + uni(r, 0, 3.5)
		var d vec
		switch kind {
		case 0:
			s.Kind, reach = "sphere", R
		case 1:
			s.Kind, reach = "box", R
		default:
			s.Kind = "capsule"
			d = vec{uni(r, -3, 3), uni(r, -3, 3), uni(r, -3, 3)}
			reach = R + 3
		}
		f := histField{}
		pad := 0. // cells of declared domain beyond the shape
		switch {
		case kind == 0 && r.Intn(2) == 0, kind == 2 && r.Intn(2) == 0:
			f.Ctor = true // Sphere hugs the shape, Line adds a radius
			if kind == 2 {
				pad = R
			}
		default:
			f.Margin = uni(r, 0.2, 1.5) * h
			pad = f.Margin / h
		}
		where := ""
		for a := 0; a < 3; a++ {
			base := float64(blockCells * (hs.Block[a] + b[a]))
			lowLimit := 1.1 + pad + reach // keeps floor(min)-1 inside the block
			if lowTaken[b][a] {
				lowLimit = 16 + pad + reach // the neighbour's crossing shape occupies local 0..~14
			}
			highLimit := 97.9 - pad - reach // keeps ceil(max)+1 inside the block
			switch {
			case crossAxis[b] == a:
				cen[a] = base + blockCells + uni(r, -2, 2)
				where += fmt.Sprintf(" axis%d:across-high-face", a)
			case crossLow[b] == a && crossAxis[b] != -2:
				cen[a] = base + uni(r, -2, 2)
				where += fmt.Sprintf(" axis%d:across-low-face", a)
			default:
				switch r.Intn(3) {
				case 0:
					cen[a] = base + lowLimit + uni(r, 0, 1.5)
					where += fmt.Sprintf(" axis%d:at-low-face", a)
				case 1:
					cen[a] = base + highLimit - uni(r, 0, 1.5)
					where += fmt.Sprintf(" axis%d:at-high-face", a)
				default:
					cen[a] = base + uni(r, math.Max(30, lowLimit), 70)
				}
			}
		}
		switch kind {
		case 0:
			s.R, s.C = R*h, vscale(cen, h)
		case 1:
			s.Size, s.C = vec{2 * R * h, 2 * R * h, 2 * R * h}, vscale(cen, h)
		default:
			s.R, s.C, s.E = R*h, vscale(vsub(cen, d), h), vscale(vadd(cen, d), h)
		}
		f.Shape, f.Where = s, fmt.Sprintf("block %v%s", b, where)
		hs.Fields = append(hs.Fields, f)
	}
	for _, i := range r.Perm(len(hs.Fields)) {
		hs.Steps = append(hs.Steps, histStep{Op: "add", Field: i, Adder: adders[r.Intn(len(adders))]})
	}
	m1 := r.Intn(len(marchers))
	hs.Steps = append(hs.Steps, histStep{Op: "march", API: marchers[m1], Cut: cutA})
	if r.Intn(3) == 0 {
		hs.Steps = append(hs.Steps, histStep{Op: "march", API: marchers[(m1+1+r.Intn(3))%len(marchers)], Cut: cutA})
	}
	return runHistory(c, hs)
}
