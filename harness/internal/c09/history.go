package c09

import (
	"fmt"
	"math"
	"strings"

	"github.com/EliCDavis/polyform/math/sample"
	"github.com/EliCDavis/polyform/math/sdf"
	"github.com/EliCDavis/polyform/modeling"
	"github.com/EliCDavis/polyform/modeling/marching"
	"polyverif/internal/ref"
	"polyverif/internal/run"
)

// A history is a sequence of adds and marches on ONE canvas. The fields of a history have disjoint
// sampled ranges (AddField accumulates with +=, so only then is the canvas the union of what was
// added), but they share storage blocks: a later field typically straddles the boundary between a
// block that an earlier field already allocated and a block nobody has touched yet.

type histField struct {
	Shape  shape   `json:"shape"`
	Extra  *shape  `json:"second_shape_combined_from_the_shared_buffer_slice,omitempty"`
	Ctor   bool    `json:"built_by_marching_constructor"`
	Margin float64 `json:"domain_margin_cells,omitempty"`
	Where  string  `json:"where"`
}

type histStep struct {
	Op    string  `json:"op"` // add | march
	Field int     `json:"field,omitempty"`
	Adder string  `json:"adder,omitempty"`
	API   string  `json:"march,omitempty"`
	Cut   float64 `json:"threshold,omitempty"`
}

type history struct {
	CPU    float64     `json:"cubes_per_unit"`
	Block  [3]int      `json:"block"`
	Axis   int         `json:"axis"`
	Fields []histField `json:"fields"`
	Steps  []histStep  `json:"steps"`
	Sparse string      `json:"sparse_block_set,omitempty"` // set by the sparse phase: name of the non-box block set
}

var marchers = []string{"March", "MarchParallel", "MarchOnAttribute", "MarchOnAttributeParallel"}

func (f histField) polyform(attr string) marching.Field {
	if f.Ctor {
		return f.Shape.polyField()
	}
	lo, hi := f.Shape.bounds()
	m := f.Margin
	return marching.Field{Domain: aabb(vsub(lo, vec{m, m, m}), vadd(hi, vec{m, m, m})),
		Float1Functions: map[string]sample.Vec3ToFloat{attr: sdf.Union(f.Shape.polySDF())}}
}

func genHistory(c *run.Ctx) *history {
	r := c.Rng
	hs := &history{CPU: pickCPU(r), Axis: r.Intn(3)}
	h := 1 / hs.CPU
	for a := range hs.Block {
		hs.Block[a] = r.Intn(4) - 2
	}
	cutA := cuts[r.Intn(len(cuts))]
	cutB := cutA
	if r.Intn(2) == 0 {
		cutB = cuts[r.Intn(len(cuts))]
	}
	cutC := []float64{cutA, cutB, cuts[r.Intn(len(cuts))]}[r.Intn(3)]
	shrink := -math.Min(cutA, math.Min(cutB, cutC)) * hs.CPU
	a := hs.Axis
	a2 := (a + 1 + r.Intn(2)) % 3
	base := func(k int) float64 { return float64(blockCells * hs.Block[k]) }
	mk := func(centre vec, where string) histField {
		s := shape{Strength: 1}
		switch r.Intn(3) {
		case 0:
			s.Kind = "sphere"
			s.R = math.Min(2.5+shrink+uni(r, 0, 5.5), 9) * h
			s.C = vscale(centre, h)
		case 1:
			s.Kind = "box"
			s.Size = vec{2 * math.Min(2.5+shrink+uni(r, 0, 5.5), 9) * h, 2 * math.Min(2.5+shrink+uni(r, 0, 5.5), 9) * h, 2 * math.Min(2.5+shrink+uni(r, 0, 5.5), 9) * h}
			s.C = vscale(centre, h)
		default:
			s.Kind = "capsule"
			s.R = math.Min(2.5+shrink+uni(r, 0, 1.5), 5.5) * h
			d := vec{uni(r, -3.5, 3.5), uni(r, -3.5, 3.5), uni(r, -3.5, 3.5)}
			s.C, s.E = vscale(vsub(centre, d), h), vscale(vadd(centre, d), h)
		}
		f := histField{Shape: s, Where: where}
		// constructor domains: Sphere hugs the shape, Line adds a radius, Box adds 0.5 units (<= 6 cells)
		switch r.Intn(3) {
		case 0:
			f.Ctor = true
		case 1:
			f.Margin = uni(r, 0.3, 2) * h
		default: // a union of two constructor fields, built through the history's shared buffer slice
			f.Ctor = true
			e := shape{Kind: "sphere", Strength: 1, R: math.Min(2.5+shrink+uni(r, 0, 2), 7) * h,
				C: vscale(vadd(centre, vec{uni(r, -1.5, 1.5), uni(r, -1.5, 1.5), uni(r, -1.5, 1.5)}), h)}
			f.Extra = &e
		}
		return f
	}
	// every shape reaches at most 9 cells (+ <= 6 cells of constructor domain + 1 of padding) from its centre
	var c1, c2, c3 vec
	for k := 0; k < 3; k++ {
		mid := base(k) + uni(r, 46, 54)
		c1[k], c2[k], c3[k] = mid+uni(r, -2, 2), mid+uni(r, -2, 2), mid+uni(r, -2, 2)
	}
	c1[a] = base(a) + uni(r, 44, 56)
	c2[a] = base(a) + blockCells + uni(r, -3, 3) // straddles this block and the next one
	hs.Fields = []histField{mk(c1, "inside the block"), mk(c2, fmt.Sprintf("across the upper boundary of axis %d", a))}
	if r.Intn(3) > 0 {
		switch r.Intn(3) {
		case 0:
			c3[a] = base(a) + uni(r, -3, 3)
			hs.Fields = append(hs.Fields, mk(c3, fmt.Sprintf("across the lower boundary of axis %d", a)))
		case 1:
			c3[a2] = base(a2) + blockCells + uni(r, -3, 3)
			hs.Fields = append(hs.Fields, mk(c3, fmt.Sprintf("across the upper boundary of axis %d", a2)))
		default:
			c3[a] = base(a) + blockCells + uni(r, 44, 56)
			hs.Fields = append(hs.Fields, mk(c3, "inside the next block"))
		}
	}
	add := func(i int) histStep { return histStep{Op: "add", Field: i, Adder: adders[r.Intn(len(adders))]} }
	march := func(cut float64) histStep {
		return histStep{Op: "march", API: marchers[r.Intn(len(marchers))], Cut: cut}
	}
	switch r.Intn(3) {
	case 0:
		hs.Steps = []histStep{add(0), march(cutA), add(1), march(cutB)}
	case 1:
		hs.Steps = []histStep{add(0), march(cutA), march(cutB), add(1), march(cutA)}
	default:
		hs.Steps = []histStep{add(1), march(cutA), add(0), march(cutB)}
	}
	if len(hs.Fields) == 3 {
		if r.Intn(2) == 0 {
			hs.Steps = append(hs.Steps, add(2), march(cutC))
		} else { // the third field before the second march
			last := hs.Steps[len(hs.Steps)-1]
			hs.Steps = append(hs.Steps[:len(hs.Steps)-1], add(2), last)
		}
	}
	return hs
}

func (hs *history) describe(upto int) string {
	var p []string
	for i, s := range hs.Steps {
		if i > upto {
			break
		}
		if s.Op == "add" {
			extra := ""
			if e := hs.Fields[s.Field].Extra; e != nil {
				extra = " + " + e.String() + " via CombineFields from a reused slice"
			}
			p = append(p, fmt.Sprintf("%s(%s%s %s)", s.Adder, hs.Fields[s.Field].Shape, extra, hs.Fields[s.Field].Where))
		} else {
			p = append(p, fmt.Sprintf("%s(%v)", s.API, s.Cut))
		}
	}
	return fmt.Sprintf("one canvas, cubesPerUnit=%v, block %v: %s", hs.CPU, hs.Block, strings.Join(p, " -> "))
}

func callMarch(cv *marching.MarchingCanvas, api string, cut float64) modeling.Mesh {
	switch api {
	case "MarchParallel":
		return cv.MarchParallel(cut)
	case "MarchOnAttribute":
		return cv.MarchOnAttribute(modeling.PositionAttribute, cut)
	case "MarchOnAttributeParallel":
		return cv.MarchOnAttributeParallel(modeling.PositionAttribute, cut)
	}
	return cv.March(cut)
}

func callAdd(cv *marching.MarchingCanvas, adder string, f marching.Field) {
	switch adder {
	case "AddFieldParallel":
		cv.AddFieldParallel(f)
	case "AddFieldParallel2":
		cv.AddFieldParallel2(f)
	default:
		cv.AddField(f)
	}
}

// clusteredTriangles compares two meshes as multisets of oriented triangles over position clusters
// (positions of both meshes merged at slightly more than the 0.001 weld cell, so that a different
// choice of representative inside a weld cell - block order is a map order - does not matter).
// Triangles that collapse in cluster space are dropped on both sides.
func clusteredTriangles(a, b *meshData) (onlyA, onlyB int, first string) {
	all := append(append([]vec{}, a.P...), b.P...)
	ids := ref.MergePositions(all, 0.0011)
	count := map[[3]int]int{}
	where := map[[3]int]vec{}
	add := func(md *meshData, off, sign int) {
		for t := 0; t+2 < len(md.Idx); t += 3 {
			k := [3]int{ids[off+md.Idx[t]], ids[off+md.Idx[t+1]], ids[off+md.Idx[t+2]]}
			if k[0] == k[1] || k[1] == k[2] || k[0] == k[2] {
				continue
			}
			for k[0] > k[1] || k[0] > k[2] {
				k = [3]int{k[1], k[2], k[0]}
			}
			count[k] += sign
			where[k] = md.P[md.Idx[t]]
		}
	}
	add(a, 0, 1)
	add(b, len(a.P), -1)
	for k, n := range count {
		if n > 0 {
			onlyA += n
		} else if n < 0 {
			onlyB -= n
		}
		if n != 0 && (first == "" || fmt.Sprint(where[k]) < first) {
			first = fmt.Sprint(where[k])
		}
	}
	return
}

func historyCase(c *run.Ctx) run.Result { return runHistory(c, genHistory(c)) }

func runHistory(c *run.Ctx, hs *history) run.Result {
	var res run.Result
	res.Sample = hs
	attr := modeling.PositionAttribute
	fields := make([]marching.Field, len(hs.Fields))
	unions := 0
	lo, hi := vec{math.Inf(1), math.Inf(1), math.Inf(1)}, vec{math.Inf(-1), math.Inf(-1), math.Inf(-1)}
	if p := run.Try(func() {
		buf := make([]marching.Field, 0, 3)
		for i, f := range hs.Fields {
			if f.Extra != nil {
				// the caller's buffer is refilled for every union and cleared at the end, long before anything is sampled
				buf = append(buf[:0], f.Shape.polyField(), f.Extra.polyField())
				if i%2 == 0 {
					fields[i] = marching.CombineFields(buf...)
				} else {
					fields[i] = buf[1].Combine(buf[:1]...)
				}
				unions++
			} else {
				fields[i] = f.polyform(attr)
			}
			mn, mx := fields[i].Domain.Min(), fields[i].Domain.Max()
			for k, v := range [3]float64{mn.X(), mn.Y(), mn.Z()} {
				lo[k] = math.Min(lo[k], v)
			}
			for k, v := range [3]float64{mx.X(), mx.Y(), mx.Z()} {
				hi[k] = math.Max(hi[k], v)
			}
		}
		for i := range buf[:cap(buf)] {
			buf[:cap(buf)][i] = marching.Field{}
		}
	}); p != nil {
		res.Violate("field-constructor-panic", "marching field constructors", "history", fmt.Sprintf("%s (at %s) || case: %s", p.Value, p.Site, hs.describe(-1)), hs)
		return res
	}
	rec := newRecorder(hs.CPU, lo, hi)
	rec.sum = true
	canvas := marching.NewMarchingCanvas(hs.CPU)
	var added []int
	blocksAtLastMarch := -1
	newBlocksSinceMarch := false
	missingDiagonal := false
	marches := 0
	for si, step := range hs.Steps {
		desc := hs.describe(si)
		if step.Op == "add" {
			f := fields[step.Field]
			w := marching.Field{Domain: f.Domain, Float1Functions: map[string]sample.Vec3ToFloat{attr: rec.wrap(f.Float1Functions[attr])}}
			c.Note(desc)
			if p := run.Try(func() { callAdd(canvas, step.Adder, w) }); p != nil {
				res.Violate("addfield-panic", "MarchingCanvas."+step.Adder, "history", fmt.Sprintf("%s (at %s) || case: %s", p.Value, p.Site, desc), hs)
				return res
			}
			added = append(added, step.Field)
			continue
		}
		rec.finish()
		if rec.repeated > 0 {
			res.Inconclusive = "harness: the sampled ranges of two fields of a history overlap"
			return res
		}
		g := &region{}
		vol := 1
		for a := 0; a < 3; a++ {
			g.lo[a] = rec.smin[a] - 1
			g.n[a] = rec.smax[a] - rec.smin[a] + 3
			vol *= g.n[a]
		}
		g.in, g.sampled = make([]bool, vol), make([]bool, vol)
		for z := g.lo[2]; z < g.lo[2]+g.n[2]; z++ {
			for y := g.lo[1]; y < g.lo[1]+g.n[1]; y++ {
				for x := g.lo[0]; x < g.lo[0]+g.n[0]; x++ {
					q := [3]int{x, y, z}
					v, ok := rec.value(q)
					g.sampled[g.idx(q)], g.in[g.idx(q)] = ok, ok && v < step.Cut
				}
			}
		}
		// the canvas must hold, wherever it was sampled, the union of the shapes as they were when the fields were built
		var shapes []shape
		for _, fi := range added {
			shapes = append(shapes, hs.Fields[fi].Shape)
			if e := hs.Fields[fi].Extra; e != nil {
				shapes = append(shapes, *e)
			}
		}
		refField := unionField(shapes)
		mismatch, firstMis := 0, ""
		ties := 0
		for z := g.lo[2]; z < g.lo[2]+g.n[2]; z++ {
			for y := g.lo[1]; y < g.lo[1]+g.n[1]; y++ {
				for x := g.lo[0]; x < g.lo[0]+g.n[0]; x++ {
					q := [3]int{x, y, z}
					if !g.sampled[g.idx(q)] {
						continue
					}
					p := vec{float64(x) / hs.CPU, float64(y) / hs.CPU, float64(z) / hs.CPU}
					fv := refField(p)
					if math.Abs(fv-step.Cut) < 1e-9 {
						if v, _ := rec.value(q); judgeExactTies && fv == step.Cut && v == step.Cut {
							ties++ // exact tie on both sides: outside, as g.in already says
						} else {
							res.Inconclusive = fmt.Sprintf("degenerate (lattice sample within 1e-9 of the threshold, not an exact tie on both sides): point %v", q)
							return res
						}
					}
					if (fv < step.Cut) != g.in[g.idx(q)] {
						mismatch++
						if firstMis == "" {
							v, _ := rec.value(q)
							firstMis = fmt.Sprintf("at %v the canvas was given %g, the union of the shapes added so far is %g", p, v, fv)
						}
					}
				}
			}
		}
		if ties > 0 {
			res.Count("exact_tie_lattice_points_judged", int64(ties))
		}
		if mismatch > 0 {
			res.Violate("field-sample-mismatch", "marching.CombineFields / constructors sampled on one canvas", "history", fmt.Sprintf("%d sampled lattice points are on the other side of the threshold than for the union of the shapes added so far; %s || case: %s", mismatch, firstMis, desc), hs)
			return res
		}
		if why, thin := thinFeature(rec, g, step.Cut, hs.CPU); thin {
			res.Inconclusive = "degenerate (surface feature thinner than the 0.001 weld): " + why
			return res
		}
		st := g.stats()
		if st.Edges == 0 {
			res.Inconclusive = "degenerate (no lattice point below the threshold): nothing to march"
			return res
		}
		if blocksAtLastMarch >= 0 && len(st.Blocks) > blocksAtLastMarch {
			newBlocksSinceMarch = true
		}
		site := "MarchingCanvas." + step.API
		input := fmt.Sprintf("history, march %d of one canvas", marches+1)
		if newBlocksSinceMarch {
			input += ", blocks allocated after an earlier march"
		}
		var mesh modeling.Mesh
		c.Note(desc)
		if p := run.Try(func() { mesh = callMarch(canvas, step.API, step.Cut) }); p != nil {
			class := "march-panic"
			if p.Runtime {
				class = "runtime-panic"
			}
			res.Violate(class, site, input, fmt.Sprintf("%s (at %s) || case: %s", p.Value, p.Site, desc), hs)
			return res
		}
		md, err := readMesh(mesh, attr)
		if err != nil {
			res.Violate("malformed-mesh", site, input, err.Error()+" || case: "+desc, hs)
			return res
		}
		sub := &subject{site: site, input: input, cpu: hs.CPU, cut: step.Cut, g: g, st: st, witness: hs, desc: desc, seamTrigger: seamTrigger(rec, g, step.Cut)}
		sub.pinchAt = func(q [3]int) bool { return weldPinchAt(rec, q, step.Cut, hs.CPU) }
		judge(&res, sub, md)
		if res.Inconclusive != "" && len(res.Violations) == 0 {
			return res
		}
		marches++
		res.Count("history_marches_judged", 1)
		if newBlocksSinceMarch {
			res.Count("history_marches_after_a_later_add_allocated_new_blocks", 1)
		}
		res.SetAdd("history_marchers", step.API)
		blocksAtLastMarch = len(st.Blocks)
		// a block with two axis neighbours but without the diagonal one between them (block set is not a box)
		for b := range st.Blocks {
			for i := 0; i < 3; i++ {
				for j := i + 1; j < 3; j++ {
					bi, bj, bij := b, b, b
					bi[i]++
					bj[j]++
					bij[i]++
					bij[j]++
					if st.Blocks[bi] && st.Blocks[bj] && !st.Blocks[bij] {
						missingDiagonal = true
					}
				}
			}
		}

		// the same fields on a fresh canvas, added in one go
		last := si == len(hs.Steps)-1
		if len(res.Violations) == 0 && hs.Sparse == "" && (last || c.Rng.Intn(2) == 0) {
			var fresh modeling.Mesh
			if p := run.Try(func() {
				cv := marching.NewMarchingCanvas(hs.CPU)
				for _, fi := range added {
					cv.AddField(fields[fi])
				}
				fresh = cv.March(step.Cut)
			}); p != nil {
				res.Violate("march-panic", "MarchingCanvas.March", "history, fresh canvas", fmt.Sprintf("%s (at %s) || case: fresh canvas for %s", p.Value, p.Site, desc), hs)
				return res
			}
			fd, err := readMesh(fresh, attr)
			if err != nil {
				res.Violate("malformed-mesh", "MarchingCanvas.March", "history, fresh canvas", err.Error()+" || case: fresh canvas for "+desc, hs)
				return res
			}
			onlyA, onlyB, first := clusteredTriangles(md, fd)
			res.Count("history_marches_compared_with_a_fresh_canvas", 1)
			if onlyA+onlyB > 0 {
				res.Violate("history-differs-from-fresh-canvas", site, input, fmt.Sprintf("%d triangles of this march are missing from, and %d triangles are only in, the march of a fresh canvas filled with the same %d fields in one go (%d vs %d faces; first difference near %s) || case: %s",
					onlyA, onlyB, len(added), len(md.Idx)/3, len(fd.Idx)/3, first, desc), hs)
			}
		}
		for _, s := range hs.Steps[:si] {
			if s.Op == "add" {
				res.SetAdd("history_adders", s.Adder)
			}
		}
	}
	if hs.Sparse != "" {
		res.Count("sparse_block_scenes", 1)
		res.SetAdd("sparse_block_set_shapes", hs.Sparse)
		if missingDiagonal {
			res.Count("sparse_scenes_with_a_missing_diagonal_neighbour", 1)
		}
		res.Nontrivial = marches >= 1
		res.Sig = fmt.Sprintf("sparse %s cpu%s n%d", hs.Sparse, cpuBucket(hs.CPU), len(hs.Fields))
		return res
	}
	res.Count("histories", 1)
	res.Count("history_fields_combined_from_a_reused_slice", int64(unions))
	res.Nontrivial = marches >= 2 && newBlocksSinceMarch
	var ops []string
	for _, s := range hs.Steps {
		ops = append(ops, s.Op[:1])
	}
	kinds := ""
	for _, f := range hs.Fields {
		kinds += f.Shape.Kind[:1]
	}
	res.Sig = fmt.Sprintf("history %s %s cpu%s axis%d", strings.Join(ops, ""), kinds, cpuBucket(hs.CPU), hs.Axis)
	return res
}
