// Package c09 monitors property C09: marching a canvas (MarchingCanvas.AddField +
// March / MarchOnAttribute) over a field whose below-threshold region lies
// strictly inside its domain yields a closed, consistently oriented, outward
// facing triangle surface without degenerate faces whose vertices lie within one
// grid cell of the true isosurface - at every resolution and wherever the shape
// sits relative to the canvas's 100^3 storage blocks.
//
// The harness wraps the field function it hands to polyform, so it knows the
// value of every lattice sample the canvas received; all expectations (which
// lattice edges change side, which cells straddle the surface, how far a vertex
// may be from the surface) are derived from those samples and from the harness's
// own distance functions - never from polyform's marching table.
package c09

import (
	"fmt"
	"math"
	"math/rand"
	"sort"
	"strings"

	"github.com/EliCDavis/polyform/math/sample"
	"github.com/EliCDavis/polyform/math/sdf"
	"github.com/EliCDavis/polyform/modeling"
	"github.com/EliCDavis/polyform/modeling/marching"
	"github.com/EliCDavis/vector/vector3"
	"polyverif/internal/run"
)

type scenario struct {
	Mode       string  `json:"mode"`                         // union-field | combine-fields | lattice
	API        string  `json:"api"`                          // March | MarchOnAttribute | MarchParallel | Field.March
	Adder      string  `json:"adder"`                        // AddField | AddFieldParallel | AddFieldParallel2 (how the canvas is filled)
	Reuse      int     `json:"caller_slice_reuse,omitempty"` // what the caller does to the slice it built the union from (reuseNames)
	Spare      int     `json:"caller_slice_spare_capacity,omitempty"`
	Attr       string  `json:"attribute"`
	CPU        float64 `json:"cubes_per_unit"`
	Cut        float64 `json:"threshold"`
	FieldScale float64 `json:"field_scale,omitempty"` // common factor on every strength and on the threshold (weak / strong fields)
	Shapes     []shape `json:"shapes,omitempty"`
	DomLo      vec     `json:"domain_min"`
	DomHi      vec     `json:"domain_max"`
	Margin     float64 `json:"domain_margin_cells,omitempty"`
	Placement  string  `json:"placement"`
	Straddle   int     `json:"axes_straddling_a_block_boundary"`
	Long       bool    `json:"long_capsule,omitempty"`
	// lattice tables (the table itself is regenerated from the case's seed)
	TableN    [3]int  `json:"table_size,omitempty"`
	TableBase [3]int  `json:"table_origin_lattice,omitempty"`
	NegShare  float64 `json:"negative_share,omitempty"`
	table     []float64
}

// judgeExactTies: lattice samples that equal the threshold exactly (reference and sampled value both)
// are classified as outside and the case is judged; false restores "any sample within 1e-9 is skipped".
const judgeExactTies = true

var adders = []string{"AddField", "AddFieldParallel", "AddFieldParallel2"}

var cpuList = []float64{1.5, 2, 2.5, 3, 4, 5, 6, 7.5, 8, 10, 12}
var cuts = []float64{0, -0.05, -0.2}

func pickCPU(r *rand.Rand) float64 {
	if r.Intn(2) == 0 {
		return cpuList[r.Intn(len(cpuList))]
	}
	return math.Exp(math.Log(1.5) + r.Float64()*(math.Log(12)-math.Log(1.5)))
}

func uni(r *rand.Rand, lo, hi float64) float64 { return lo + r.Float64()*(hi-lo) }

// pickStraddle chooses which axes sit on a block boundary.
func pickStraddle(r *rand.Rand, w [4]float64) (axes [3]bool, k int) {
	x := r.Float64() * (w[0] + w[1] + w[2] + w[3])
	for k = 0; k < 3; k++ {
		if x < w[k] {
			break
		}
		x -= w[k]
	}
	perm := r.Perm(3)
	for i := 0; i < k; i++ {
		axes[perm[i]] = true
	}
	return
}

// genAnalytic draws a union of 1-4 analytic shapes. All sizes are chosen in
// cells and converted to world units, so that every feature is at least 2.5
// cells wide after the threshold has shrunk it.
func genAnalytic(r *rand.Rand, long bool) *scenario {
	sc := &scenario{CPU: pickCPU(r), Cut: cuts[r.Intn(len(cuts))], Attr: modeling.PositionAttribute, API: "March"}
	h := 1 / sc.CPU
	if r.Intn(100) < 55 {
		sc.Mode = "union-field"
	} else {
		sc.Mode = "combine-fields"
	}
	// MarchOnAttribute is only usable with the position attribute (any other name panics in its
	// scale transform - reported separately, attribute names are outside the property's quantifier)
	sc.API = []string{"March", "MarchOnAttribute", "MarchParallel"}[r.Intn(3)]
	sc.Adder = adders[r.Intn(len(adders))]
	// Round 8 (C09-M): WEAK and STRONG fields. A fifth of the union-field scenes multiply every strength and
	// the threshold by one common factor (1e-3 ... 1e-8, or 1e3): the surface, the lattice classification and
	// every crossing position are exactly those of the unscaled scene, but the sampled values differ by 1e-4 ...
	// 1e-9 across a cell - below any absolute epsilon an interpolation "robustness fix" may compare them with.
	weak := 1.
	if sc.Mode == "union-field" && r.Intn(5) == 0 {
		weak = []float64{1e-3, 1e-4, 1e-5, 1e-6, 1e-8, 1e3}[r.Intn(6)]
		sc.Cut *= weak
		sc.FieldScale = weak
	}
	strength := func() float64 {
		if sc.Mode == "union-field" {
			return weak * []float64{1, 1, 1, 2, 0.75}[r.Intn(5)]
		}
		return []float64{1, 1, 1, 1.5, 2}[r.Intn(5)] // marching.Sphere's domain only contains the sphere for strength >= 1
	}
	var b [3]int
	for k := range b {
		b[k] = r.Intn(4) - 2
	}
	w := [4]float64{0.12, 0.38, 0.30, 0.20}
	if long {
		w = [4]float64{0.5, 0.4, 0.1, 0}
	}
	axes, k := pickStraddle(r, w)
	sc.Straddle = k
	var centre vec // cells
	for a := 0; a < 3; a++ {
		if axes[a] {
			centre[a] = float64(blockCells*b[a]) + uni(r, -3, 3)
		} else {
			centre[a] = float64(blockCells*b[a]) + uni(r, 25, 75)
		}
	}
	sc.Placement = fmt.Sprintf("block corner %v, boundary axes %v", b, axes)
	toWorld := func(c vec) vec { return vscale(c, h) }
	n := 1 + r.Intn(4)
	if long {
		sc.Long = true
		n = 1 + r.Intn(2)
	}
	aligned := r.Intn(4) == 0
	for i := 0; i < n; i++ {
		s := shape{Strength: strength()}
		shrink := -sc.Cut / s.Strength * sc.CPU // cells
		off := vec{uni(r, -6, 6), uni(r, -6, 6), uni(r, -6, 6)}
		if i == 0 {
			off = vec{uni(r, -1, 1), uni(r, -1, 1), uni(r, -1, 1)}
		}
		c := vadd(centre, off)
		switch kind := r.Intn(3); {
		case long && i == 0:
			s.Kind = "capsule"
			ax := r.Intn(3)
			for axes[ax] && k < 3 { // run along an axis that is not pinned to a boundary when possible
				ax = (ax + 1) % 3
			}
			d := vec{uni(r, -12, 12), uni(r, -12, 12), uni(r, -12, 12)}
			d[ax] = uni(r, 205, 330)
			if r.Intn(2) == 0 {
				d[ax] = -d[ax]
			}
			s.R = (1.5 + shrink + uni(r, 0, 2.5)) * h
			s.C, s.E = toWorld(c), toWorld(vadd(c, d))
		case kind == 0:
			s.Kind = "sphere"
			s.R = (1.25 + shrink + uni(r, 0, 7)) * h
			s.C = toWorld(c)
		case kind == 1:
			s.Kind = "box"
			half := vec{1.25 + shrink + uni(r, 0, 6), 1.25 + shrink + uni(r, 0, 6), 1.25 + shrink + uni(r, 0, 6)}
			if aligned {
				// put a face a fraction of a cell before / behind a block boundary, so that the first or
				// last layer of below-threshold samples is the first or last layer of a block
				for a := 0; a < 3; a++ {
					if !axes[a] {
						continue
					}
					plane := float64(blockCells * b[a])
					d := uni(r, 0.05, 0.95) + shrink
					switch r.Intn(3) {
					case 0: // lower face just below the boundary: first layer below threshold has local index 0
						c[a] = plane - d + half[a]
					case 1: // upper face just below the boundary: last layer below threshold has local index 99
						c[a] = plane - 1 + d - half[a]
					default: // upper face just above: exactly one layer reaches into the next block
						c[a] = plane + d - half[a]
					}
				}
			}
			s.Size = toWorld(vscale(half, 2))
			s.C = toWorld(c)
		default:
			s.Kind = "capsule"
			s.R = (1.25 + shrink + uni(r, 0, 3.5)) * h
			s.C = toWorld(c)
			s.E = toWorld(vadd(c, vec{uni(r, -12, 12), uni(r, -12, 12), uni(r, -12, 12)}))
		}
		sc.Shapes = append(sc.Shapes, s)
	}
	if sc.Mode == "combine-fields" {
		sc.Reuse, sc.Spare = r.Intn(len(reuseNames)), r.Intn(4)
	}
	if sc.Mode == "union-field" {
		sc.Margin = uni(r, 1, 4)
		if r.Intn(2) == 0 {
			sc.Margin = uni(r, 0.05, 0.45) // tight: the domain ends a fraction of a cell beyond the shapes
		}
		lo, hi := sc.Shapes[0].bounds()
		for _, s := range sc.Shapes[1:] {
			l, u := s.bounds()
			for a := 0; a < 3; a++ {
				lo[a], hi[a] = math.Min(lo[a], l[a]), math.Max(hi[a], u[a])
			}
		}
		m := sc.Margin * h
		sc.DomLo, sc.DomHi = vsub(lo, vec{m, m, m}), vadd(hi, vec{m, m, m})
	}
	return sc
}

// genLattice draws a random table of values with |v| in [0.3,1], positive on the
// table's boundary, placed across a block corner / edge / face.
func genLattice(r *rand.Rand) *scenario {
	sc := &scenario{Mode: "lattice", CPU: pickCPU(r), Cut: cuts[r.Intn(len(cuts))], Attr: modeling.PositionAttribute, API: "March"}
	sc.API = []string{"March", "MarchOnAttribute", "MarchParallel"}[r.Intn(3)]
	sc.Adder = adders[r.Intn(len(adders))]
	axes, k := pickStraddle(r, [4]float64{0.10, 0.25, 0.30, 0.35})
	sc.Straddle = k
	var b [3]int
	for a := 0; a < 3; a++ {
		b[a] = r.Intn(4) - 2
		sc.TableN[a] = 8 + r.Intn(9)
		if axes[a] {
			// the boundary plane passes through the table; now and then through its outermost active cells
			off := 1 + r.Intn(sc.TableN[a]-2)
			sc.TableBase[a] = blockCells*b[a] - off
		} else {
			sc.TableBase[a] = blockCells*b[a] + 10 + r.Intn(70)
		}
	}
	sc.Placement = fmt.Sprintf("block corner %v, boundary axes %v", b, axes)
	sc.NegShare = []float64{0.15, 0.3, 0.5, 0.5, 0.7}[r.Intn(5)]
	n := sc.TableN
	sc.table = make([]float64, n[0]*n[1]*n[2])
	for z := 0; z < n[2]; z++ {
		for y := 0; y < n[1]; y++ {
			for x := 0; x < n[0]; x++ {
				v := uni(r, 0.3, 1)
				inner := x > 0 && y > 0 && z > 0 && x < n[0]-1 && y < n[1]-1 && z < n[2]-1
				if inner && r.Float64() < sc.NegShare {
					v = -v
				}
				sc.table[(z*n[1]+y)*n[0]+x] = v
			}
		}
	}
	h := 1 / sc.CPU
	for a := 0; a < 3; a++ {
		sc.DomLo[a] = float64(sc.TableBase[a]) * h
		sc.DomHi[a] = float64(sc.TableBase[a]+n[a]-1) * h
	}
	return sc
}

func (sc *scenario) tableFunc() sample.Vec3ToFloat {
	n, base, cpu := sc.TableN, sc.TableBase, sc.CPU
	return func(p vector3.Float64) float64 {
		x := int(math.Round(p.X()*cpu)) - base[0]
		y := int(math.Round(p.Y()*cpu)) - base[1]
		z := int(math.Round(p.Z()*cpu)) - base[2]
		if x < 0 || y < 0 || z < 0 || x >= n[0] || y >= n[1] || z >= n[2] {
			return 1
		}
		return sc.table[(z*n[1]+y)*n[0]+x]
	}
}

// polyformField assembles the field the way a user would.
func (sc *scenario) polyformField() (f marching.Field, builder, complaint string) {
	switch sc.Mode {
	case "lattice":
		return marching.Field{Domain: aabb(sc.DomLo, sc.DomHi), Float1Functions: map[string]sample.Vec3ToFloat{sc.Attr: sc.tableFunc()}}, "table field", ""
	case "union-field":
		fs := make([]sample.Vec3ToFloat, len(sc.Shapes))
		for i, s := range sc.Shapes {
			fs[i] = s.polySDF()
		}
		return marching.Field{Domain: aabb(sc.DomLo, sc.DomHi), Float1Functions: map[string]sample.Vec3ToFloat{sc.Attr: sdf.Union(fs...)}}, "sdf.Union field", ""
	default:
		return combineWithReuse(sc.Shapes, 1/sc.CPU, sc.Reuse, sc.Spare, len(sc.Shapes) > 1 && sc.Shapes[0].Strength == 1.5)
	}
}

func (sc *scenario) describe() string {
	var sh []string
	for _, s := range sc.Shapes {
		sh = append(sh, s.String())
	}
	if sc.Mode == "lattice" {
		sh = append(sh, fmt.Sprintf("random table %v at lattice origin %v, %.0f%% negative", sc.TableN, sc.TableBase, sc.NegShare*100))
	}
	reuse := ""
	if sc.Mode == "combine-fields" && len(sc.Shapes) >= 2 && sc.Reuse > 0 {
		reuse = ", source slice " + reuseNames[sc.Reuse] + " before sampling"
	}
	return fmt.Sprintf("%s via %s+%s%s, cubesPerUnit=%v threshold=%v, %s [%s]", sc.Mode, sc.Adder, sc.API, reuse, sc.CPU, sc.Cut, sc.Placement, strings.Join(sh, "; "))
}

func (sc *scenario) kinds() string {
	var k []string
	for _, s := range sc.Shapes {
		k = append(k, s.Kind[:1])
	}
	sort.Strings(k)
	return strings.Join(k, "")
}

func cpuBucket(c float64) string {
	switch {
	case c < 2.5:
		return "1.5-2.5"
	case c < 5:
		return "2.5-5"
	case c < 8:
		return "5-8"
	}
	return "8-12"
}

// execute runs one scenario against polyform and judges the result.
func execute(c *run.Ctx, sc *scenario) run.Result {
	var res run.Result
	res.Sample = sc
	h := 1 / sc.CPU
	desc := sc.describe()
	var field marching.Field
	var builder string
	var complaint string
	if p := run.Try(func() { field, builder, complaint = sc.polyformField() }); p != nil {
		res.Violate("field-constructor-panic", "marching field constructors", sc.Mode, fmt.Sprintf("%s (at %s) || case: %s", p.Value, p.Site, desc), sc)
		return res
	}
	if complaint != "" {
		res.Violate("caller-slice-modified", builder, sc.Mode, complaint+" || case: "+desc, sc)
	}
	if sc.Mode == "combine-fields" && len(sc.Shapes) >= 2 {
		res.SetAdd("caller_slice_reuse", fmt.Sprintf("%s: slice %s, spare capacity %d", builder, reuseNames[sc.Reuse], min(sc.Spare, 1)))
		if sc.Reuse > 0 {
			res.Count("unions_whose_source_slice_was_reused_before_sampling", 1)
		}
	}
	dmin, dmax := field.Domain.Min(), field.Domain.Max()
	rec := newRecorder(sc.CPU, vec{dmin.X(), dmin.Y(), dmin.Z()}, vec{dmax.X(), dmax.Y(), dmax.Z()})
	inner, ok := field.Float1Functions[sc.Attr]
	if !ok {
		res.Violate("field-without-attribute", builder, sc.Mode, fmt.Sprintf("the field has no float function for %q || case: %s", sc.Attr, desc), sc)
		return res
	}
	wrapped := marching.Field{Domain: field.Domain, Float1Functions: map[string]sample.Vec3ToFloat{sc.Attr: rec.wrap(inner)}}

	site := "MarchingCanvas." + sc.API
	var canvas *marching.MarchingCanvas
	if sc.API != "Field.March" {
		if sc.Adder == "" {
			sc.Adder = "AddField"
		}
		c.Note(sc.Adder + " " + desc)
		canvas = marching.NewMarchingCanvas(sc.CPU)
		if p := run.Try(func() {
			switch sc.Adder {
			case "AddFieldParallel":
				canvas.AddFieldParallel(wrapped)
			case "AddFieldParallel2":
				canvas.AddFieldParallel2(wrapped)
			default:
				canvas.AddField(wrapped)
			}
		}); p != nil {
			res.Violate("addfield-panic", "MarchingCanvas."+sc.Adder, sc.Mode, fmt.Sprintf("%s (at %s) || case: %s", p.Value, p.Site, desc), sc)
			return res
		}
	} else {
		site = "marching.Field.March"
		sc.Adder = "none"
	}
	var mesh modeling.Mesh
	march := func() *run.PanicInfo {
		c.Note(sc.API + " " + desc)
		return run.Try(func() {
			switch sc.API {
			case "March":
				mesh = canvas.March(sc.Cut)
			case "MarchOnAttribute":
				mesh = canvas.MarchOnAttribute(sc.Attr, sc.Cut)
			case "MarchParallel":
				mesh = canvas.MarchParallel(sc.Cut)
			default:
				mesh = wrapped.March(sc.Attr, sc.CPU, sc.Cut)
			}
		})
	}
	input := fmt.Sprintf("%s, %s, %d boundary axes", sc.Mode, sc.Adder, sc.Straddle)
	reportPanic := func(p *run.PanicInfo) {
		class := "march-panic"
		if p.Runtime {
			class = "runtime-panic"
		}
		res.Violate(class, site, input, fmt.Sprintf("%s (at %s) || case: %s", p.Value, p.Site, desc), sc)
	}
	if sc.API == "Field.March" { // this entry point samples while it marches
		if p := march(); p != nil {
			reportPanic(p)
			return res
		}
	}
	rec.finish()
	if rec.samples == 0 {
		res.Violate("field-never-sampled", site, sc.Mode, "the field function was not evaluated at any lattice point || case: "+desc, sc)
		return res
	}

	// the harness's view of the lattice
	g := &region{}
	vol := 1
	for a := 0; a < 3; a++ {
		g.lo[a] = rec.smin[a] - 1
		g.n[a] = rec.smax[a] - rec.smin[a] + 3
		vol *= g.n[a]
	}
	g.in, g.sampled = make([]bool, vol), make([]bool, vol)
	var refField func(vec) float64
	lip := 0.
	if sc.Mode != "lattice" {
		refField = unionField(sc.Shapes)
		for _, s := range sc.Shapes {
			lip = math.Max(lip, s.Strength)
		}
	}
	mismatch, firstMis := 0, ""
	unsampledInside, firstUns := 0, ""
	outsideDomain, firstOutside := 0, ""
	ties := 0
	for z := g.lo[2]; z < g.lo[2]+g.n[2]; z++ {
		for y := g.lo[1]; y < g.lo[1]+g.n[1]; y++ {
			for x := g.lo[0]; x < g.lo[0]+g.n[0]; x++ {
				q := [3]int{x, y, z}
				i := g.idx(q)
				val, sampled := rec.value(q)
				g.sampled[i] = sampled
				if refField == nil {
					g.in[i] = sampled && val < sc.Cut
					continue
				}
				p := vec{float64(x) / sc.CPU, float64(y) / sc.CPU, float64(z) / sc.CPU}
				fv := refField(p)
				if math.Abs(fv-sc.Cut) < 1e-9*math.Min(lip, 1) { // the band is in field units: it scales with a weak field
					// An EXACT tie on both sides (the reference and the value the canvas received are both
					// bit-equal to the threshold) is not ambiguous: the property's region is "below the
					// threshold", so the point is outside. Any other near-tie would be classified by rounding.
					// Not for Field.March: it evaluates every lattice point up to 8 times at positions computed
					// per cell (v + 1/cpu), so "the value it sampled there" is not one number.
					if judgeExactTies && sc.API != "Field.March" && fv == sc.Cut && (!sampled || val == sc.Cut) {
						ties++
					} else {
						res.Inconclusive = fmt.Sprintf("degenerate (lattice sample within 1e-9 of the threshold, not an exact tie on both sides): point %v reference %v sampled %v, classification would depend on rounding", q, fv, val)
						return res
					}
				}
				g.in[i] = fv < sc.Cut
				if sampled && (val < sc.Cut) != g.in[i] {
					mismatch++
					if firstMis == "" {
						firstMis = fmt.Sprintf("at %v the field given to the canvas returned %g, the reference union of the same shapes %g", p, val, fv)
					}
				}
				if !sampled && g.in[i] {
					if p[0] > dmin.X() && p[1] > dmin.Y() && p[2] > dmin.Z() && p[0] < dmax.X() && p[1] < dmax.Y() && p[2] < dmax.Z() {
						unsampledInside++
						if firstUns == "" {
							firstUns = fmt.Sprintf("lattice point %v = %v is below the threshold (reference %g) and strictly inside the declared domain %v..%v, but was not sampled (sampled lattice range %v..%v)", q, p, fv, dmin, dmax, rec.smin, rec.smax)
						}
					} else {
						outsideDomain++
						if firstOutside == "" {
							firstOutside = fmt.Sprintf("lattice point %v = %v is below the threshold (reference %g) but not strictly inside the domain %v..%v", q, p, fv, dmin, dmax)
						}
					}
				}
			}
		}
	}
	// Stated skip rule (evaluated on the sampled input only): features below the weld granule.
	// polyform welds vertices at 3 decimals of a world unit; see thinFeature. Merging two crossings that
	// no mesh edge joins is the documented granularity of the canvas, not a marching fault, so such a
	// case is not decided (inconclusive, counted).
	thinWhy, thin := thinFeature(rec, g, sc.Cut, sc.CPU)
	st := g.stats()
	res.Count("lattice_samples", int64(rec.samples))
	if rec.offGrid > 0 {
		res.Count("field_evaluations_off_the_lattice", rec.offGrid)
	}
	if rec.repeated > 0 && sc.API != "Field.March" {
		res.Count("lattice_points_sampled_more_than_once_by_addfield", rec.repeated)
	}
	if mismatch > 0 {
		res.Violate("field-sample-mismatch", builder+" sampled by "+sc.Adder, sc.Mode, fmt.Sprintf("%d sampled lattice points are on the other side of the threshold than for the union of the shapes; %s || case: %s", mismatch, firstMis, desc), sc)
	}
	if outsideDomain > 0 {
		if sc.Mode != "combine-fields" {
			res.Inconclusive = "harness: generated domain does not contain the below-threshold region: " + firstOutside
			return res
		}
		res.Violate("domain-does-not-contain-shape", builder, sc.Mode, fmt.Sprintf("the domain chosen by the marching package's field constructors leaves %d below-threshold lattice points outside; %s || case: %s", outsideDomain, firstOutside, desc), sc)
	}
	if unsampledInside > 0 {
		res.Violate("below-threshold-point-not-sampled", "MarchingCanvas."+sc.Adder, sc.Mode, fmt.Sprintf("%d below-threshold lattice points inside the declared domain were never sampled; %s || case: %s", unsampledInside, firstUns, desc), sc)
	}
	if thin && len(res.Violations) == 0 { // refutations that do not depend on the weld are reported regardless
		res.Inconclusive = "degenerate (surface feature thinner than the 0.001 weld): " + thinWhy
		return res
	}
	if st.Edges == 0 {
		res.Inconclusive = "degenerate (no lattice point below the threshold): nothing to march"
		return res
	}
	if sc.API != "Field.March" {
		if p := march(); p != nil {
			reportPanic(p)
			return res
		}
	}
	md, err := readMesh(mesh, sc.Attr)
	if err != nil {
		res.Violate("malformed-mesh", site, input, err.Error()+" || case: "+desc, sc)
		return res
	}
	sub := &subject{site: site, input: input, cpu: sc.CPU, cut: sc.Cut, g: g, st: st, field: refField, lip: lip, witness: sc, desc: desc}
	sub.pinchAt = func(q [3]int) bool { return weldPinchAt(rec, q, sc.Cut, sc.CPU) }
	if sc.API != "Field.March" {
		sub.seamTrigger = seamTrigger(rec, g, sc.Cut)
		if sub.seamTrigger != "" {
			res.Count("cases_with_seam_weld_trigger", 1)
		}
	}
	ob := judge(&res, sub, md)
	if ties > 0 && res.Inconclusive == "" {
		res.Count("exact_tie_lattice_points_judged", int64(ties))
		res.Count("cases_with_exact_ties_judged", 1)
	}

	// evidence
	seam := st.SeamCells[1] + st.SeamCells[2] + st.SeamCells[3]
	if sc.API == "Field.March" {
		// block boundaries mean nothing to this entry point; keep its observations apart from the canvas's
		res.Count("fieldmarch_active_cells", int64(st.ActiveCells))
		for cfg, n := range st.Configs {
			if n > 0 {
				res.SetAdd("fieldmarch_cube_configurations", fmt.Sprint(cfg))
			}
		}
		res.SetAdd("entry_points", sc.API)
		res.SetAdd("field_builders", builder)
		res.Nontrivial = st.distinctConfigs() >= 8
		res.Sig = fmt.Sprintf("%s %s %s cpu%s cut%v cfg%d", sc.Mode, sc.API, sc.kinds(), cpuBucket(sc.CPU), sc.Cut, st.distinctConfigs()/8)
		res.Sample = map[string]any{"scenario": sc, "observed": ob, "distinct_configurations": st.distinctConfigs(), "lattice_step": h}
		return res
	}
	res.Count("active_cells", int64(st.ActiveCells))
	res.Count("active_cells_on_block_face", int64(st.SeamCells[1]))
	res.Count("active_cells_on_block_edge", int64(st.SeamCells[2]))
	res.Count("active_cells_on_block_corner", int64(st.SeamCells[3]))
	res.Count("blocks_with_surface", int64(len(st.ActiveBlocks)))
	res.Count("blocks_marched", int64(len(st.Blocks)))
	if st.NegativeBlocks {
		res.Count("cases_with_negative_block_coordinates", 1)
	}
	if ob.WeldMerged > 0 {
		res.Count("cases_where_weld_merged_vertices_of_different_edges", 1)
	}
	if len(st.ActiveBlocks) >= 3 && sc.Long {
		res.Count("long_capsules_over_3_or_more_blocks", 1)
	}
	if sc.Mode == "union-field" && sc.Margin < 0.5 {
		res.Count("cases_with_domain_margin_below_half_a_cell", 1)
	}
	for cfg, n := range st.Configs {
		if n > 0 {
			res.SetAdd("cube_configurations", fmt.Sprint(cfg))
		}
	}
	for k := 1; k <= 3; k++ {
		for cfg, on := range st.SeamConfigs[k] {
			if on {
				res.SetAdd("cube_configurations_in_last_cell_of_a_block", fmt.Sprint(cfg))
			}
		}
	}
	res.SetAdd("entry_points", sc.API)
	res.SetAdd("field_builders", builder)
	res.SetAdd("adders", sc.Adder)
	res.SetAdd("adder_x_builder_x_march", sc.Adder+" | "+builder+" | "+sc.API)
	if sc.Adder != "AddField" && len(st.Blocks) >= 2 && len(sc.Shapes) >= 2 {
		if sc.Mode == "combine-fields" {
			res.Count("parallel_adder_cases_multiblock_combinefields_2plus_shapes", 1)
		} else {
			res.Count("parallel_adder_cases_multiblock_sdf_union_2plus_shapes", 1)
		}
	}
	res.SetAdd("thresholds", fmt.Sprint(sc.Cut))
	if sc.FieldScale != 0 {
		res.Count("scenes_with_a_weak_or_strong_field", 1)
		res.SetAdd("field_scales", fmt.Sprint(sc.FieldScale))
	}
	res.SetAdd("resolution_buckets", cpuBucket(sc.CPU))
	res.SetAdd("blocks_with_surface_per_case", fmt.Sprint(len(st.ActiveBlocks)))
	res.Nontrivial = seam > 0 && st.distinctConfigs() >= 8
	tight := ""
	if sc.Mode == "union-field" && sc.Margin < 0.5 {
		tight = " tight"
	}
	res.Sig = fmt.Sprintf("%s %s+%s %s cpu%s cut%v axes%d blocks%d neg%v%s cfg%d", sc.Mode, sc.Adder, sc.API, sc.kinds(), cpuBucket(sc.CPU), sc.Cut, sc.Straddle, len(st.ActiveBlocks), st.NegativeBlocks, tight, st.distinctConfigs()/16)
	res.Sample = map[string]any{"scenario": sc, "observed": ob, "blocks_with_surface": len(st.ActiveBlocks), "distinct_configurations": st.distinctConfigs(),
		"active_cells_on_block_face_edge_corner": st.SeamCells[1:], "lattice_step": h}
	return res
}

// thinFeature is the stated skip rule for features below the weld granule (all entry points weld at 3
// decimals of a world unit: the canvas after its own 4-decimal cell-unit weld, Field.March directly). polyform welds vertices
// that round to the same 3 decimals of a world unit. The rule looks, on the sampled input only, for a
// lattice point with two sign-changing incident edges whose linear-interpolation crossings can fall
// into one such rounding cell although no mesh edge can join them: the two edges are collinear (both
// neighbours of one axis are on the other side: a gap, wall, crease or sliver thinner than the weld) or
// they span a cell face whose fourth corner is on the point's own side (ambiguous face). Welding two
// vertices that are not neighbours identifies two different places of the surface - the documented
// granularity of the canvas, not a marching fault. Values are those the canvas received (0 where
// nothing was sampled); only signs and the interpolation formula are used, nothing of the table.
func thinFeature(rec *recorder, g *region, cut, cpu float64) (string, bool) {
	type cross struct {
		axis, sign int
		t          float64 // distance from the lattice point in cells
	}
	slack := 1e-4/cpu + 1e-9 // a block may have moved a vertex by up to 1e-4 cells before the weld
	mayShareCell := func(a1, a2 float64) bool {
		lo1, hi1 := math.Round((a1-slack)*1000), math.Round((a1+slack)*1000)
		lo2, hi2 := math.Round((a2-slack)*1000), math.Round((a2+slack)*1000)
		return lo1 <= hi2 && lo2 <= hi1
	}
	reach := 0.001*cpu + 2e-4
	var clustered [][3]int // lattice points at which two or more crossings can round into one weld cell
	for z := g.lo[2]; z < g.lo[2]+g.n[2]; z++ {
		for y := g.lo[1]; y < g.lo[1]+g.n[1]; y++ {
			for x := g.lo[0]; x < g.lo[0]+g.n[0]; x++ {
				q := [3]int{x, y, z}
				v, _ := rec.value(q)
				var near []cross
				for a := 0; a < 3; a++ {
					for _, d := range [2]int{-1, 1} {
						n := q
						n[a] += d
						w, _ := rec.value(n)
						if (v < cut) != (w < cut) && math.Abs(v-cut) <= reach*math.Abs(v-w) {
							near = append(near, cross{a, d, math.Abs(v-cut) / math.Abs(v-w)})
						}
					}
				}
				for i, p := range near {
					for _, r := range near[i+1:] {
						if p.axis == r.axis {
							c := float64(q[p.axis])
							if mayShareCell((c+float64(p.sign)*p.t)/cpu, (c+float64(r.sign)*r.t)/cpu) {
								return fmt.Sprintf("lattice point %v (sample - threshold = %g) changes side towards both neighbours of axis %d and both crossings round to one weld cell", q, v-cut, p.axis), true
							}
							continue
						}
						cp, cr := float64(q[p.axis]), float64(q[r.axis])
						share := mayShareCell((cp+float64(p.sign)*p.t)/cpu, cp/cpu) && mayShareCell(cr/cpu, (cr+float64(r.sign)*r.t)/cpu)
						if share && (len(clustered) == 0 || clustered[len(clustered)-1] != q) {
							clustered = append(clustered, q)
						}
						f := q
						f[p.axis] += p.sign
						f[r.axis] += r.sign
						if w, _ := rec.value(f); (w < cut) != (v < cut) {
							continue // the face cuts this corner off: the two crossings are joined by a mesh edge
						}
						if share {
							return fmt.Sprintf("lattice point %v (sample - threshold = %g) changes side along axes %d and %d across an ambiguous cell face and both crossings round to one weld cell", q, v-cut, p.axis, r.axis), true
						}
					}
				}
			}
		}
	}
	// Two collapsing clusters at corners of one cell: each collapse alone removes a fan of the surface
	// cleanly, but the strips of faces between the two clusters can be left hanging on one doubled edge.
	for i, p := range clustered {
		for _, q := range clustered[i+1:] {
			if iabs(p[0]-q[0]) <= 1 && iabs(p[1]-q[1]) <= 1 && iabs(p[2]-q[2]) <= 1 {
				vp, _ := rec.value(p)
				vq, _ := rec.value(q)
				return fmt.Sprintf("the neighbouring lattice points %v and %v (sample - threshold = %g and %g) each collect two or more crossings in one weld cell", p, q, vp-cut, vq-cut), true
			}
		}
	}
	return "", false
}

func iabs(a int) int {
	if a < 0 {
		return -a
	}
	return a
}

// weldPinchAt reports whether, per the sampled values, some sign-changing lattice edge incident to the
// lattice point q has its linear-interpolation crossing within the weld distance of q (then the weld
// can pull that crossing and others into one vertex at q).
func weldPinchAt(rec *recorder, q [3]int, cut, cpu float64) bool {
	v, _ := rec.value(q)
	reach := 0.001*cpu + 2e-4
	for a := 0; a < 3; a++ {
		for _, d := range [2]int{-1, 1} {
			n := q
			n[a] += d
			w, _ := rec.value(n)
			if (v < cut) != (w < cut) && math.Abs(v-cut) <= reach*math.Abs(v-w) {
				return true
			}
		}
	}
	return false
}

// seamTrigger looks for the input condition of the block-seam weld defect: a lattice point on a
// block-boundary plane with at least two incident sign-changing edges whose crossings lie within
// 6e-5 cells of it (inside one block such crossings collapse to one vertex, position of the first).
func seamTrigger(rec *recorder, g *region, cut float64) string {
	for z := g.lo[2]; z < g.lo[2]+g.n[2]; z++ {
		for y := g.lo[1]; y < g.lo[1]+g.n[1]; y++ {
			for x := g.lo[0]; x < g.lo[0]+g.n[0]; x++ {
				if mod(x, blockCells) != 0 && mod(y, blockCells) != 0 && mod(z, blockCells) != 0 {
					continue
				}
				q := [3]int{x, y, z}
				v, _ := rec.value(q)
				near := 0
				for a := 0; a < 3; a++ {
					for _, d := range [2]int{-1, 1} {
						n := q
						n[a] += d
						w, _ := rec.value(n)
						if (v < cut) != (w < cut) && math.Abs(v-cut) <= 6e-5*math.Abs(v-w) {
							near++
						}
					}
				}
				if near >= 2 {
					return fmt.Sprintf("%d sign changes within 6e-5 cells of lattice point %v on a block boundary (sample %g, threshold %g)", near, q, v, cut)
				}
			}
		}
	}
	return ""
}

// seamWeldCase is a directed family: a sphere whose surface passes 2e-6..2e-5 cells inside a lattice
// point of a block-boundary plane, at resolutions (3.2, 6.4) where lattice coordinates fall exactly on
// the rounding boundaries of the 3-decimal weld. Everything else about the case is ordinary.
func seamWeldCase(c *run.Ctx) run.Result {
	r := c.Rng
	cpus := []float64{3.2, 6.4}
	pts := [][3]int{{100, 13, 24}, {100, 14, 24}, {-100, 13, 25}, {13, 100, 22}, {14, 21, -100}, {0, 13, 26}, {-200, 30, -7}, {21, -100, 14}}
	dirs := [][3]float64{{1, 2, 3}, {-1, 2, 3}, {1, -2, 3}, {1, 2, -3}, {3, 1, 2}, {-2, -3, -1}}
	k := (c.Case * 5) % (len(cpus) * len(pts) * len(dirs))
	cpu := cpus[k%len(cpus)]
	b := pts[(k/len(cpus))%len(pts)]
	ns := dirs[(k/len(cpus)/len(pts))%len(dirs)]
	h := 1 / cpu
	l := math.Sqrt(ns[0]*ns[0] + ns[1]*ns[1] + ns[2]*ns[2])
	n := vec{ns[0] / l, ns[1] / l, ns[2] / l}
	R := uni(r, 6, 10) * h
	depth := math.Exp(uni(r, math.Log(2e-6), math.Log(2e-5))) * h
	bw := vec{float64(b[0]) * h, float64(b[1]) * h, float64(b[2]) * h}
	sc := &scenario{Mode: "union-field", API: "March", Attr: modeling.PositionAttribute, CPU: cpu, Cut: 0, Straddle: 1, Margin: 1,
		Placement: fmt.Sprintf("surface %.3g cells inside lattice point %v of a block-boundary plane, inward normal %v", depth/h, b, ns),
		Shapes:    []shape{{Kind: "sphere", C: vadd(bw, vscale(n, R-depth)), R: R, Strength: 1}}}
	lo, hi := sc.Shapes[0].bounds()
	sc.DomLo, sc.DomHi = vsub(lo, vec{h, h, h}), vadd(hi, vec{h, h, h})
	sc.Adder = adders[c.Case%len(adders)]
	if c.Case%4 == 3 {
		sc.API = "MarchParallel"
	}
	res := execute(c, sc)
	res.Count("directed_seam_cases", 1)
	return res
}

// parallelFillCase: unions of >= 2 shapes over >= 2 blocks whose canvas is filled by one of the
// parallel adders (the field function - for CombineFields an octree lookup per sample - is then
// evaluated by several goroutines at once) and marched sequentially or in parallel. The phase runs
// few worker processes at a time so that the goroutines of one process really run side by side.
func parallelFillCase(c *run.Ctx) run.Result {
	r := c.Rng
	want := "combine-fields"
	if c.Case%4 == 3 {
		want = "union-field"
	}
	var sc *scenario
	for {
		sc = genAnalytic(r, false)
		if sc.Mode == want && len(sc.Shapes) >= 2 && sc.Straddle >= 1 {
			break
		}
	}
	sc.Adder = adders[1+c.Case%2]
	sc.API = []string{"March", "MarchParallel", "MarchOnAttribute"}[(c.Case/2)%3]
	res := execute(c, sc)
	res.Count("parallel_fill_cases", 1)
	return res
}

func analyticCase(c *run.Ctx) run.Result {
	return execute(c, genAnalytic(c.Rng, c.Case%12 == 5))
}

func latticeCase(c *run.Ctx) run.Result {
	return execute(c, genLattice(c.Rng))
}

// fieldMarchCase: the block-free marcher marching.Field.March uses the same
// table; it is cheap, so it sees many more table rows per second.
func fieldMarchCase(c *run.Ctx) run.Result {
	var sc *scenario
	if c.Case%3 == 0 {
		sc = genAnalytic(c.Rng, false)
		if len(sc.Shapes) > 2 {
			sc.Shapes = sc.Shapes[:2]
		}
	} else {
		sc = genLattice(c.Rng)
	}
	sc.API, sc.Attr = "Field.March", modeling.PositionAttribute
	return execute(c, sc)
}

func Spec() *run.Spec {
	return &run.Spec{
		ID: "C09", Level: "exploration",
		Rule: "Since rounds 7-8: a diagonal family in the boundary phase (the same extreme at the same offset on two or three axes at once) and weak / strong fields (a fifth of the union-field scenes multiply every strength and the threshold by 1e-3...1e-8 or 1e3; the near-tie band scales with the field). " +
			"analytic: unions of 1-4 spheres/boxes/capsules (features >= 2.5 cells after the threshold shrink) built with sdf.Union in one field or with marching.Sphere/Box/Line + CombineFields, resolution 1.5-12 cubes per unit, " +
			"thresholds {0,-0.05,-0.2}, centred at random inside a block or within 3 cells of a block face/edge/corner (block coordinates -2..1), box faces aligned with the first/last sample layer of a block, every 12th case a capsule of 205-330 cells; " +
			"lattice: random 8..16^3 tables (|v| in [0.3,1], positive hull) laid across block corners/edges/faces. A case is non-trivial when the sampled lattice has >= 8 distinct cube configurations and at least one surface cell in the last layer of a block " +
			"(its corners come from a neighbouring block); distinctness = builder, entry point, shape kinds, resolution bucket, threshold, boundary axes, blocks with surface, sign of block coordinates, configuration-count bucket.",
		Assumptions: []string{
			"the below-threshold region lies strictly inside the declared domain by construction (own domains: shape bounds + 0.05..4 cells; polyform's constructors: strength >= 1), thresholds are <= 0 (unsampled canvas memory is 0 and must count as outside)",
			"closedness is judged on the vertex ids polyform returns (its weld is part of the behaviour); positions are merged by the oracle only to tell an unwelded seam from a hole",
			"'within one cell of the true isosurface' is checked as: some lattice point below and some lattice point not below the threshold lie within one cell (+0.001*sqrt(3) world units of weld displacement) of the vertex - a sign change of a continuous field inside that ball - and, for analytic unions, |f(v)-c| <= L*h for the harness's own L-Lipschitz distance field",
			"additionally every lattice edge whose ends are on different sides must carry a mesh vertex and the enclosed volume must lie between the number of cells entirely below the threshold and that number plus the straddling cells (a closed surface that separates the samples); both follow for any correct marching and need no knowledge of the table",
			"stated skip rules (inconclusive, never held): a lattice sample within 1e-9 of the threshold unless it is an EXACT tie on both sides - the harness's reference value and the value the canvas received are both bit-equal to the threshold; such a point is not below the threshold, is classified as outside (the marcher's own test is the strict `<`) and the case is judged (counted: exact_tie_lattice_points_judged) - every other near-tie would be classified by rounding; a surface feature thinner than the 0.001 weld (a lattice point with two sign-changing edges that no mesh edge can join - towards both neighbours of one axis, or across an ambiguous cell face - whose interpolated crossings can round to the same 3-decimal weld cell; or two lattice points of one cell that each collect two or more crossings in one weld cell). Safety net, also derived from the sampled values: an outcome whose ONLY anomaly is edges used by more than one face with balanced counts (no unmatched edge), every such edge having an endpoint within the weld distance of a lattice point whose sampled value puts a crossing within the weld distance of it, is reported as inconclusive \"degenerate (weld pinch)\"; anything with an unmatched edge stays a violation. The DESIGN's 2% rule was narrowed to these: a 2% band around lattice corners is hit by practically every analytic surface, and polyform's weld drops the faces it collapses, so ordinary merges near a lattice corner leave the surface closed (they are counted, not skipped)",
			"resolutions above 12 cubes per unit (0.001 weld comparable to the cell) are out of reach",
		},
		MinNontrivial: map[string]int{"quick": 40, "thorough": 600},
		MinObserved: map[string]int64{
			"cube_configurations": 250, "cube_configurations_in_last_cell_of_a_block": 200,
			"active_cells_on_block_face": 1000, "active_cells_on_block_edge": 50, "active_cells_on_block_corner": 5,
			"cases_with_negative_block_coordinates": 20, "long_capsules_over_3_or_more_blocks": 1, "entry_points": 4, "field_builders": 3,
			"adders": 3, "adder_x_builder_x_march": 20, "parallel_adder_cases_multiblock_combinefields_2plus_shapes": 5, "parallel_adder_cases_multiblock_sdf_union_2plus_shapes": 5,
			"unions_whose_source_slice_was_reused_before_sampling": 15, "caller_slice_reuse": 8, "sparse_block_scenes": 40, "sparse_block_set_shapes": 16, "sparse_scenes_with_a_missing_diagonal_neighbour": 10, "directed_tie_cases": 40, "cases_with_exact_ties_judged": 20, "exact_tie_lattice_points_judged": 2000, "parallel_fill_cases": 16, "directed_boundary_cases": 60, "boundary_placements": 60, "histories": 12, "history_fields_combined_from_a_reused_slice": 6, "history_marches_after_a_later_add_allocated_new_blocks": 12, "history_marches_compared_with_a_fresh_canvas": 12, "directed_seam_cases": 10, "cases_with_seam_weld_trigger": 10, "fieldmarch_cube_configurations": 250,
		},
		Phases: []run.Phase{
			{Name: "analytic", Cases: func(t string) int {
				if t == "thorough" {
					return 2400
				}
				return 72
			}, Run: analyticCase, Batch: 2, CPUBudgetS: 120},
			{Name: "parallel-fill", Cases: func(t string) int {
				if t == "thorough" {
					return 400
				}
				return 24
			}, Run: parallelFillCase, Batch: 2, CPUBudgetS: 240, Parallel: 4},
			{Name: "boundary", Cases: func(t string) int {
				if t == "thorough" {
					return 900 + 360
				}
				return 90 + 54
			}, Run: boundaryCase, Batch: 3, CPUBudgetS: 120},
			{Name: "ties", Cases: func(t string) int {
				if t == "thorough" {
					return 640
				}
				return 64
			}, Run: tieCase, Batch: 3, CPUBudgetS: 120},
			{Name: "sparse", Cases: func(t string) int {
				if t == "thorough" {
					return 600
				}
				return 60
			}, Run: sparseCase, Batch: 2, CPUBudgetS: 240},
			{Name: "histories", Cases: func(t string) int {
				if t == "thorough" {
					return 300
				}
				return 24
			}, Run: historyCase, Batch: 1, CPUBudgetS: 240},
			{Name: "lattice", Cases: func(t string) int {
				if t == "thorough" {
					return 1600
				}
				return 48
			}, Run: latticeCase, Batch: 2, CPUBudgetS: 120},
			{Name: "seam-weld", Cases: func(t string) int {
				if t == "thorough" {
					return 96
				}
				return 32
			}, Run: seamWeldCase, Batch: 2, CPUBudgetS: 120},
			{Name: "field-march", Cases: func(t string) int {
				if t == "thorough" {
					return 6000
				}
				return 240
			}, Run: fieldMarchCase, Batch: 15, CPUBudgetS: 60},
		},
	}
}
