package c09

import (
	"fmt"
	"math"

	"github.com/EliCDavis/polyform/math/geometry"
	"github.com/EliCDavis/polyform/math/sample"
	"github.com/EliCDavis/polyform/math/sdf"
	"github.com/EliCDavis/polyform/modeling/marching"
	"github.com/EliCDavis/vector/vector3"
)

type vec = [3]float64

func vsub(a, b vec) vec           { return vec{a[0] - b[0], a[1] - b[1], a[2] - b[2]} }
func vadd(a, b vec) vec           { return vec{a[0] + b[0], a[1] + b[1], a[2] + b[2]} }
func vscale(a vec, s float64) vec { return vec{a[0] * s, a[1] * s, a[2] * s} }
func vdot(a, b vec) float64       { return a[0]*b[0] + a[1]*b[1] + a[2]*b[2] }
func vlen(a vec) float64          { return math.Sqrt(vdot(a, a)) }
func vcross(a, b vec) vec {
	return vec{a[1]*b[2] - a[2]*b[1], a[2]*b[0] - a[0]*b[2], a[0]*b[1] - a[1]*b[0]}
}
func v3(a vec) vector3.Float64 { return vector3.New(a[0], a[1], a[2]) }

// shape is one analytic solid of a union; all lengths in world units.
type shape struct {
	Kind     string  `json:"kind"` // sphere | box | capsule
	C        vec     `json:"c"`    // centre (sphere, box) or start (capsule)
	E        vec     `json:"e,omitempty"`
	R        float64 `json:"r,omitempty"`
	Size     vec     `json:"size,omitempty"` // box: full edge lengths
	Strength float64 `json:"strength"`
}

// dist is the harness's own signed distance (written from the definitions, no
// polyform code): negative inside.
func (s shape) dist(p vec) float64 {
	switch s.Kind {
	case "sphere":
		return vlen(vsub(p, s.C)) - s.R
	case "box":
		q := vec{math.Abs(p[0]-s.C[0]) - s.Size[0]/2, math.Abs(p[1]-s.C[1]) - s.Size[1]/2, math.Abs(p[2]-s.C[2]) - s.Size[2]/2}
		out := math.Sqrt(sq(math.Max(q[0], 0)) + sq(math.Max(q[1], 0)) + sq(math.Max(q[2], 0)))
		in := math.Min(math.Max(q[0], math.Max(q[1], q[2])), 0)
		return out + in
	default:
		d := vsub(s.E, s.C)
		t := 0.
		if l2 := vdot(d, d); l2 > 0 {
			t = math.Min(1, math.Max(0, vdot(vsub(p, s.C), d)/l2))
		}
		return vlen(vsub(p, vadd(s.C, vscale(d, t)))) - s.R
	}
}

func sq(x float64) float64 { return x * x }

// bounds of the zero set of the shape.
func (s shape) bounds() (lo, hi vec) {
	switch s.Kind {
	case "sphere":
		return vsub(s.C, vec{s.R, s.R, s.R}), vadd(s.C, vec{s.R, s.R, s.R})
	case "box":
		return vsub(s.C, vscale(s.Size, .5)), vadd(s.C, vscale(s.Size, .5))
	default:
		for k := 0; k < 3; k++ {
			lo[k] = math.Min(s.C[k], s.E[k]) - s.R
			hi[k] = math.Max(s.C[k], s.E[k]) + s.R
		}
		return
	}
}

func (s shape) String() string {
	switch s.Kind {
	case "sphere":
		return fmt.Sprintf("sphere(c=%v r=%v s=%v)", s.C, s.R, s.Strength)
	case "box":
		return fmt.Sprintf("box(c=%v size=%v s=%v)", s.C, s.Size, s.Strength)
	}
	return fmt.Sprintf("capsule(%v -> %v r=%v s=%v)", s.C, s.E, s.R, s.Strength)
}

// unionField is the reference field of a union: min over strength*distance.
func unionField(shapes []shape) func(vec) float64 {
	return func(p vec) float64 {
		m := math.Inf(1)
		for _, s := range shapes {
			if d := s.Strength * s.dist(p); d < m {
				m = d
			}
		}
		return m
	}
}

// ---- the polyform side -----------------------------------------------------

// polySDF builds the same shape from polyform's sdf package.
func (s shape) polySDF() sample.Vec3ToFloat {
	var f sample.Vec3ToFloat
	switch s.Kind {
	case "sphere":
		f = sdf.Sphere(v3(s.C), s.R)
	case "box":
		f = sdf.Box(v3(s.C), v3(s.Size))
	default:
		f = sdf.Line(v3(s.C), v3(s.E), s.R)
	}
	if s.Strength != 1 {
		f = f.Scale(s.Strength)
	}
	return f
}

// polyField builds the shape with the marching package's own field constructors
// (they choose the domain).
func (s shape) polyField() marching.Field {
	switch s.Kind {
	case "sphere":
		return marching.Sphere(v3(s.C), s.R, s.Strength)
	case "box":
		return marching.Box(v3(s.C), v3(s.Size), s.Strength)
	default:
		return marching.Line(v3(s.C), v3(s.E), s.R, s.Strength)
	}
}

func aabb(lo, hi vec) geometry.AABB {
	return geometry.NewAABBFromPoints(v3(lo), v3(hi))
}
